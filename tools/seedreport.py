#!/usr/bin/env python3
"""Run every seeded change against the quick check of its property and write seeded/REPORT.md
(never run while another check uses /repo: the changes are applied to /repo and reverted)."""
import json
import os
import re
import subprocess

import sys
VERIF = os.path.dirname(os.path.dirname(os.path.abspath(__file__)))
# usage: seedreport.py [--only C11-3 C02-3 …]: re-run only these and keep the other rows of the existing report
only = sys.argv[2:] if len(sys.argv) > 2 and sys.argv[1] == '--only' else None
rows = []
old = {}
if only:
    for line in open(os.path.join(VERIF, 'seeded', 'REPORT.md')):
        c = [x.strip() for x in line.strip().strip('|').split(' | ')]
        if len(c) == 8 and re.match(r'C\d\d-\w+$', c[0]):
            old[c[0]] = (c[0], c[1], c[2], c[3], int(c[4]), int(c[5]), int(c[6]), c[7])
for d in sorted(os.listdir(os.path.join(VERIF, 'seeded'))):
    full = os.path.join(VERIF, 'seeded', d)
    if not os.path.exists(os.path.join(full, 'patch.diff')):
        continue
    if only and d not in only:
        if d in old:
            rows.append(old[d])
        continue
    prop = d.split('-')[0]
    out = subprocess.run(['python3', os.path.join(VERIF, 'tools', 'seedtest.py'), full, prop], capture_output=True, text=True).stdout
    meta = json.load(open(os.path.join(full, 'meta.json')))
    concrete = len([l for l in out.splitlines() if l.strip().startswith('VIOLATION') and 'no-failing-input-found' not in l])
    unshown = out.count('no-failing-input-found')
    dis = out.count('DISAGREEMENT')
    caught = sorted(set(re.findall(r'CAUGHT-BY stream=(\S+) class=(\S+)', out)))
    demo = re.search(r'demo on mutated tree: rc=(\d+)', out)
    files = ', '.join(os.path.basename(f) for f in meta.get('files', []))
    summary = (meta.get('summary') or '').split('. ')[0][:150]
    rows.append((d, files, summary, demo.group(1) if demo else '?', concrete, unshown, dis,
                 '; '.join('%s/%s' % c for c in caught)))
    print(rows[-1], flush=True)
with open(os.environ.get('SEEDREPORT_OUT') or os.path.join(VERIF, 'seeded', 'REPORT.md'), 'w') as f:
    f.write('| change | file | what it does | demo rc | concrete failing inputs | only-unshown | model≠code | caught by (stream/class) |\n')
    f.write('|---|---|---|---|---|---|---|---|\n')
    for r in rows:
        f.write('| %s | %s | %s | %s | %d | %d | %d | %s |\n' % r)
    f.write('\n%d changes, %d reported with a concrete failing input, %d also break a model↔code correspondence.\n'
            % (len(rows), sum(1 for r in rows if r[4] > 0), sum(1 for r in rows if r[6] > 0)))
