#!/usr/bin/env python3
"""Automated mutation campaign (operator-level mutants, the classic mutation-testing kind).

For a seeded random sample of syntactic mutants of the converter's source (comparison / arithmetic / Boolean
operators flipped, small integer and float constants changed, `not` dropped, True/False swapped) this tool
  1. applies the mutant to a scratch copy of /repo (never /repo itself; copies live under /root/scratch/astmut),
  2. runs the pinned test suite on the copy: mutants that do not keep the 49 passes are *killed by the tests*
     and dropped (the brief is about changes the existing tests let through),
  3. runs the quick checks of the properties the mutated file can affect, with T4GC_REPO pointing at the copy and
     VERIF_EVIDENCE_DIR redirected (so /verif/evidence is not touched),
  4. records for every surviving mutant whether a check reported it (concrete failing input / only a broken
     correspondence / nothing).
Writes seeded/ASTMUT.md.   usage: tools/astmut.py [--n 160] [--seed 1] [--jobs 6]
"""
import argparse
import ast
import concurrent.futures as cf
import json
import os
import random
import re
import shutil
import subprocess
import sys

VERIF = os.path.dirname(os.path.dirname(os.path.abspath(__file__)))
SCRATCH = '/root/scratch/astmut'
PYTEST = ('/venv/bin/python -m pytest -q -p no:cacheprovider --timeout=900 --continue-on-collection-errors '
          '-k "not test_convert and not test_oracle" 2>&1 | tail -1')

# source file -> properties whose checks exercise it
FILES = {
    't4_geom_convert/Kernel/Volume/CellConversion.py': ['C01', 'C05', 'C06', 'C13', 'C03'],
    't4_geom_convert/Kernel/Volume/ConstructVolumeT4.py': ['C01', 'C08', 'C13', 'C04', 'C05'],
    't4_geom_convert/Kernel/Volume/TreeFunctions.py': ['C01', 'C11'],
    't4_geom_convert/Kernel/Volume/CellInlining.py': ['C13', 'C01'],
    't4_geom_convert/Kernel/Volume/Lattice.py': ['C06', 'C07', 'C17'],
    't4_geom_convert/Kernel/Volume/VolumeT4.py': ['C08', 'C18', 'C01'],
    't4_geom_convert/Kernel/Surface/ConversionSurfaceMCNPToT4.py': ['C02', 'C04', 'C16'],
    't4_geom_convert/Kernel/Surface/MacroBodies.py': ['C03', 'C17'],
    't4_geom_convert/Kernel/Surface/Duplicates.py': ['C13', 'C16', 'C08'],
    't4_geom_convert/Kernel/Surface/CollectionDict.py': ['C03', 'C01', 'C16'],
    't4_geom_convert/Kernel/Surface/SurfaceCollection.py': ['C03', 'C02'],
    't4_geom_convert/Kernel/Surface/SurfaceT4.py': ['C13', 'C08', 'C02'],
    't4_geom_convert/Kernel/Transformation/Transformation.py': ['C04', 'C05', 'C06'],
    't4_geom_convert/Kernel/Transformation/TransformationQuad.py': ['C04', 'C03'],
    't4_geom_convert/Kernel/VectUtils.py': ['C02', 'C03', 'C06', 'C07'],
    't4_geom_convert/Kernel/Utils.py': ['C09', 'C14'],
    't4_geom_convert/Kernel/Composition/ConstructCompositionT4.py': ['C10', 'C09', 'C18'],
    't4_geom_convert/Kernel/Composition/CompositionConversionMCNPToT4.py': ['C10', 'C17'],
    't4_geom_convert/Kernel/GeomComp/ConstructGeomCompT4.py': ['C09', 'C08'],
    't4_geom_convert/Kernel/BoundaryCondition/CConversionBoundaryCondition.py': ['C16'],
    't4_geom_convert/Kernel/FileHandlers/Parser/ParseMCNPCell.py': ['C15', 'C12', 'C05', 'C17', 'C06'],
    't4_geom_convert/Kernel/FileHandlers/Parser/ParseMCNPSurface.py': ['C02', 'C03', 'C17'],
    't4_geom_convert/Kernel/FileHandlers/Writer/WriteT4Geometry.py': ['C08', 'C13', 'C01'],
    't4_geom_convert/Kernel/FileHandlers/Writer/WriteT4Composition.py': ['C10', 'C08'],
    't4_geom_convert/Kernel/FileHandlers/Writer/WriteT4BoundCond.py': ['C16', 'C08'],
    't4_geom_convert/Kernel/FileHandlers/Writer/WriteT4GeomComp.py': ['C09', 'C08'],
    'MIP/geom/forcad.py': ['C02', 'C04'],
    'MIP/geom/parsegeom.py': ['C11', 'C01'],
    'MIP/geom/semantics.py': ['C11', 'C03'],
    'MIP/geom/cells.py': ['C12', 'C15', 'C14'],
    'MIP/geom/transforms.py': ['C04'],
    'MIP/mip/cards.py': ['C14', 'C01'],
    'MIP/mip/datacard.py': ['C12', 'C14'],
    'MIP/mip/cellcard.py': ['C14', 'C15', 'C01'],
    'MIP/mip/blocks.py': ['C14', 'C01'],
    'MIP/mip/utils.py': ['C14', 'C09', 'C01'],
}

CMP = {ast.Lt: '<', ast.LtE: '<=', ast.Gt: '>', ast.GtE: '>=', ast.Eq: '==', ast.NotEq: '!='}
CMP_SWAP = {'<': '<=', '<=': '<', '>': '>=', '>=': '>', '==': '!=', '!=': '=='}
BIN = {ast.Add: '+', ast.Sub: '-', ast.Mult: '*', ast.Div: '/'}
BIN_SWAP = {'+': '-', '-': '+', '*': '/', '/': '*'}


def sh(cmd, **kw):
    return subprocess.run(cmd, shell=True, capture_output=True, text=True, **kw)


def offsets(src):
    offs = [0]
    for line in src.splitlines(keepends=True):
        offs.append(offs[-1] + len(line.encode('utf-8')))
    return offs


def mutants_of(path, src):
    """list of (description, start_byte, end_byte, replacement) on the utf-8 bytes of src"""
    tree = ast.parse(src)
    offs = offsets(src)
    data = src.encode('utf-8')

    def pos(lineno, col):
        return offs[lineno - 1] + col

    # skip docstrings
    docs = set()
    for node in ast.walk(tree):
        if isinstance(node, (ast.FunctionDef, ast.ClassDef, ast.Module)) and node.body:
            b = node.body[0]
            if isinstance(b, ast.Expr) and isinstance(getattr(b, 'value', None), ast.Constant) and isinstance(b.value.value, str):
                docs.add(id(b.value))
    out = []
    for node in ast.walk(tree):
        if isinstance(node, ast.Compare) and len(node.ops) == 1 and type(node.ops[0]) in CMP:
            a = pos(node.left.end_lineno, node.left.end_col_offset)
            b = pos(node.comparators[0].lineno, node.comparators[0].col_offset)
            seg = data[a:b].decode()
            op = CMP[type(node.ops[0])]
            if seg.strip() == op:
                out.append(('line %d: %s -> %s' % (node.lineno, op, CMP_SWAP[op]), a, b, seg.replace(op, CMP_SWAP[op])))
        elif isinstance(node, ast.BinOp) and type(node.op) in BIN:
            if isinstance(node.left, ast.Constant) and isinstance(node.left.value, str):
                continue
            a = pos(node.left.end_lineno, node.left.end_col_offset)
            b = pos(node.right.lineno, node.right.col_offset)
            seg = data[a:b].decode()
            op = BIN[type(node.op)]
            if seg.strip() == op:
                out.append(('line %d: %s -> %s' % (node.lineno, op, BIN_SWAP[op]), a, b, seg.replace(op, BIN_SWAP[op])))
        elif isinstance(node, ast.BoolOp) and len(node.values) >= 2:
            a = pos(node.values[0].end_lineno, node.values[0].end_col_offset)
            b = pos(node.values[1].lineno, node.values[1].col_offset)
            seg = data[a:b].decode()
            op = 'and' if isinstance(node.op, ast.And) else 'or'
            if seg.strip() == op:
                out.append(('line %d: %s -> %s' % (node.lineno, op, 'or' if op == 'and' else 'and'), a, b,
                            seg.replace(op, 'or' if op == 'and' else 'and')))
        elif isinstance(node, ast.UnaryOp) and isinstance(node.op, ast.Not):
            a = pos(node.lineno, node.col_offset)
            b = pos(node.operand.lineno, node.operand.col_offset)
            if data[a:b].decode().strip() == 'not':
                out.append(('line %d: not dropped' % node.lineno, a, b, ''))
        elif isinstance(node, ast.Constant) and id(node) not in docs:
            a = pos(node.lineno, node.col_offset)
            b = pos(node.end_lineno, node.end_col_offset)
            txt = data[a:b].decode()
            v = node.value
            if isinstance(v, bool):
                out.append(('line %d: %s -> %s' % (node.lineno, txt, str(not v)), a, b, str(not v)))
            elif isinstance(v, int) and -1 <= v <= 6 and re.fullmatch(r'\d+', txt):
                new = {0: 1, 1: 0, 2: 1, 3: 2, 4: 3, 5: 4, 6: 5}.get(v)
                if new is not None:
                    out.append(('line %d: %s -> %d' % (node.lineno, txt, new), a, b, str(new)))
            elif isinstance(v, float) and re.fullmatch(r'[\d.eE+-]+', txt) and v != 0.0:
                new = repr(v * 1000.0 if abs(v) < 1e-3 else v * 0.99)
                out.append(('line %d: %s -> %s' % (node.lineno, txt, new), a, b, new))
    return out


def is_boring(src, a):
    """mutation sites in code that no property is about"""
    line_start = src.encode('utf-8').rfind(b'\n', 0, a) + 1
    line = src.encode('utf-8')[line_start:src.encode('utf-8').find(b'\n', a)].decode()
    return bool(re.search(r'print\(|Progress|warn\(|logging|raise |assert |__repr__|\.format\(|f\'|f"|#\s*pragma|cache', line))


def run_one(job):
    k, rel, desc, a, b, new, props = job
    wt = os.path.join(SCRATCH, 'w%d' % k)
    shutil.rmtree(wt, ignore_errors=True)
    sh('mkdir -p %s && cd /repo && git archive HEAD | tar -x -C %s' % (wt, wt))
    p = os.path.join(wt, rel)
    data = open(p, 'rb').read()
    open(p, 'wb').write(data[:a] + new.encode() + data[b:])
    res = {'file': rel, 'mutation': desc, 'props': props}
    c = sh('/venv/bin/python -m py_compile %s' % p)
    if c.returncode != 0:
        res['status'] = 'does-not-compile'
        shutil.rmtree(wt, ignore_errors=True)
        return res
    t = sh('cd %s && %s' % (wt, PYTEST))
    m = re.search(r'(\d+) passed', t.stdout)
    if m and int(m.group(1)) == 48:          # the two hypothesis tests of the suite are flaky: once more
        sh('rm -rf %s/.hypothesis' % wt)
        t = sh('cd %s && %s' % (wt, PYTEST))
        m = re.search(r'(\d+) passed', t.stdout)
    res['pytest'] = t.stdout.strip()[-80:]
    if not m or int(m.group(1)) < 49:
        res['status'] = 'killed-by-tests'
        shutil.rmtree(wt, ignore_errors=True)
        return res
    ev = os.path.join(SCRATCH, 'ev%d' % k)
    shutil.rmtree(ev, ignore_errors=True)
    env = dict(os.environ, T4GC_REPO=wt, VERIF_EVIDENCE_DIR=ev, VERIF_WORKERS='3')
    concrete, unshown, infra = [], [], []
    for pr in props:
        c = subprocess.run(['/venv/bin/python', '-m', 'harness.check', pr, '--tier', 'quick'], cwd=VERIF, env=env,
                           capture_output=True, text=True)
        for line in c.stdout.splitlines():
            if line.startswith('VIOLATION'):
                (unshown if 'no-failing-input-found' in line else concrete).append(pr)
        if c.returncode == 2:
            infra.append(pr)
    res['concrete'] = sorted(set(concrete))
    res['unshown'] = sorted(set(unshown))
    res['infra'] = infra
    res['status'] = 'reported' if concrete else ('reported-unshown' if unshown else 'quiet')
    shutil.rmtree(wt, ignore_errors=True)
    shutil.rmtree(ev, ignore_errors=True)
    return res


def main():
    ap = argparse.ArgumentParser()
    ap.add_argument('--n', type=int, default=160)
    ap.add_argument('--seed', type=int, default=1)
    ap.add_argument('--jobs', type=int, default=5)
    ap.add_argument('--out', default=os.path.join(VERIF, 'seeded', 'ASTMUT.md'))
    args = ap.parse_args()
    rng = random.Random(args.seed)
    pool = []
    for rel, props in FILES.items():
        src = open(os.path.join('/repo', rel)).read()
        ms = [m for m in mutants_of(rel, src) if not is_boring(src, m[1])]
        for (desc, a, b, new) in ms:
            pool.append((rel, desc, a, b, new, props))
    rng.shuffle(pool)
    # at most 8 per file, n in all
    per = {}
    chosen = []
    for m in pool:
        if per.get(m[0], 0) >= 8:
            continue
        per[m[0]] = per.get(m[0], 0) + 1
        chosen.append(m)
        if len(chosen) >= args.n:
            break
    os.makedirs(SCRATCH, exist_ok=True)
    jobs = [(i % (args.jobs * 4),) + m for i, m in enumerate(chosen)]
    # distinct scratch dirs per in-flight job: index by position in the executor instead
    jobs = [(i,) + m for i, m in enumerate(chosen)]
    results = []
    with cf.ThreadPoolExecutor(max_workers=args.jobs) as ex:
        for r in ex.map(run_one, jobs):
            results.append(r)
            print(json.dumps(r), flush=True)
    shutil.rmtree(SCRATCH, ignore_errors=True)
    surv = [r for r in results if r['status'] in ('reported', 'reported-unshown', 'quiet')]
    with open(args.out, 'w') as f:
        f.write('# Operator-level mutants (tools/astmut.py --n %d --seed %d)\n\n' % (args.n, args.seed))
        f.write('%d mutants sampled from %d sites in %d files; %d do not compile, %d are killed by the pinned test suite, '
                '%d survive it.\nOf the survivors: %d reported with a concrete failing input, %d reported as '
                '`no-failing-input-found` only, %d leave every check quiet.\n\n'
                % (len(results), len(pool), len(FILES), sum(r['status'] == 'does-not-compile' for r in results),
                   sum(r['status'] == 'killed-by-tests' for r in results), len(surv),
                   sum(r['status'] == 'reported' for r in surv), sum(r['status'] == 'reported-unshown' for r in surv),
                   sum(r['status'] == 'quiet' for r in surv)))
        f.write('| file | mutation | checks run | result |\n|---|---|---|---|\n')
        for r in results:
            if r['status'] in ('does-not-compile', 'killed-by-tests'):
                continue
            what = r['status']
            if r.get('concrete'):
                what += ' (' + ', '.join(r['concrete']) + ')'
            elif r.get('unshown'):
                what += ' (' + ', '.join(r['unshown']) + ')'
            f.write('| %s | %s | %s | %s |\n' % (os.path.basename(r['file']), r['mutation'], ' '.join(r['props']), what))
    print('written', args.out)


if __name__ == '__main__':
    sys.exit(main())
