#!/usr/bin/env python3
"""Copy confirmed seeded changes into /verif/seeded/<prop>-<n>/ (patch rebased onto /repo HEAD), re-confirming each:
the patch applies, the pinned test suite still has its 49 passes, the demonstration fails on the changed tree and
passes on the unchanged one.   usage: tools/seedstore.py <src dir with Cxx/n/…>"""
import json
import os
import re
import shutil
import subprocess
import sys

REPO = '/repo'
VERIF = os.path.dirname(os.path.dirname(os.path.abspath(__file__)))
PYTEST = ('cd /repo && /venv/bin/python -m pytest -q -p no:cacheprovider --timeout=900 '
          '--continue-on-collection-errors 2>&1 | tail -1')


def sh(cmd):
    return subprocess.run(cmd, shell=True, capture_output=True, text=True)


def demo(path):
    return sh('cd /root && PYTHONPATH=%s:%s/tools/lib /venv/bin/python %s' % (REPO, VERIF, path))


def main():
    src = sys.argv[1]
    only = set(sys.argv[2:])
    head = sh('git -C /repo rev-parse --short HEAD').stdout.strip()
    for prop in sorted(os.listdir(src)):
        for n in sorted(os.listdir(os.path.join(src, prop))):
            d = os.path.join(src, prop, n)
            if not all(os.path.exists(os.path.join(d, f)) for f in ('patch.diff', 'demo.py', 'meta.json')):
                continue
            if only and '%s-%s' % (prop, n) not in only:
                continue
            assert not sh('git -C /repo status --porcelain').stdout.strip(), 'repo not clean'
            r = sh('git -C /repo apply %s/patch.diff' % d)
            if r.returncode != 0:
                r = sh('git -C /repo apply --3way %s/patch.diff' % d)
                if r.returncode != 0 or 'with conflicts' in r.stderr + r.stdout:
                    print(prop, n, 'DOES NOT APPLY')
                    sh('git -C /repo reset -q --hard HEAD')
                    continue
                sh('git -C /repo reset -q')
            patch = sh('git -C /repo diff HEAD').stdout
            dm = demo(d + '/demo.py')
            pt = sh(PYTEST).stdout.strip()
            if '49 passed' not in pt:      # test_normalized (hypothesis) is flaky upstream
                sh('rm -rf /repo/.hypothesis')
                pt = sh(PYTEST).stdout.strip()
            sh('git -C /repo reset -q --hard HEAD; git -C /repo clean -fdq -- t4_geom_convert MIP; rm -rf /repo/.hypothesis')
            dc = demo(d + '/demo.py')
            passed = re.search(r'(\d+) passed', pt)
            ok = dm.returncode != 0 and dc.returncode == 0 and passed and int(passed.group(1)) >= 49
            dst = os.path.join(VERIF, 'seeded', '%s-%s' % (prop, n))
            os.makedirs(dst, exist_ok=True)
            open(dst + '/patch.diff', 'w').write(patch)
            shutil.copy(d + '/demo.py', dst + '/demo.py')
            meta = json.load(open(d + '/meta.json'))
            meta['confirmed'] = {
                'repo_head': head,
                'applies': 'git -C /repo apply seeded/%s-%s/patch.diff' % (prop, n),
                'pinned_suite_on_changed_tree': pt,
                'demo_cmd': 'PYTHONPATH=/repo:/verif/tools/lib /venv/bin/python seeded/%s-%s/demo.py' % (prop, n),
                'demo_rc_changed_tree': dm.returncode,
                'demo_tail_changed_tree': (dm.stdout + dm.stderr)[-400:],
                'demo_rc_unchanged_tree': dc.returncode,
                'all_confirmed': bool(ok),
            }
            json.dump(meta, open(dst + '/meta.json', 'w'), indent=1, ensure_ascii=False)
            print(prop, n, 'ok' if ok else 'NOT CONFIRMED', dm.returncode, dc.returncode, pt)


if __name__ == '__main__':
    main()
