#!/bin/bash
# usage: tools/seedall.sh [<dir with Cxx-n mutation dirs>] [props...]     (default dir: /verif/seeded)
base=${1:-/verif/seeded}; shift
for d in $base/C*-[0-9]*; do
  [ -f $d/patch.diff ] || continue
  p=$(basename $d | cut -d- -f1)
  if [ $# -gt 0 ] && ! echo " $* " | grep -q " $p "; then continue; fi
  [ -f /verif/harness/props/$(echo $p | tr 'A-Z' 'a-z').py ] || { echo "$(basename $d): no check yet"; continue; }
  out=$(python3 /verif/tools/seedtest.py $d $p 2>&1)
  concrete=$(echo "$out" | grep "VIOLATION" | grep -vc "no-failing-input-found")
  unshown=$(echo "$out" | grep -c "no-failing-input-found")
  dis=$(echo "$out" | grep -c "DISAGREEMENT")
  demo=$(echo "$out" | grep "demo on" | sed 's/.*rc=//')
  echo "$(basename $d): demo_rc=$demo concrete_violations=$concrete unshown=$unshown disagreements=$dis"
done
