#!/usr/bin/env python3
"""Ad-hoc changes written by hand (one-line edits of the converter), each tried against the quick checks of the
properties it could affect.  Works on a scratch git worktree of /repo outside /repo and /verif (T4GC_REPO points the
harness at it), so /repo is never touched; the worktree is removed at the end.  Writes seeded/ADHOC.md.
The checks rewrite evidence/*.json while they run on the changed copy: re-run the checks on /repo afterwards."""
import os
import re
import subprocess
import sys

VERIF = os.path.dirname(os.path.dirname(os.path.abspath(__file__)))
WT = '/root/scratch/adhoc-wt'
MUTS = [
 ('M1 SurfaceT4.__str__ prints floats with %.10g', 't4_geom_convert/Kernel/Surface/SurfaceT4.py', "as_str = ' '.join(str(element)", "as_str = ' '.join(('%.10g' % element if isinstance(element, float) else str(element))", ['C08','C02'], 'violation'),
 ('M5 CYLX parameters swapped', 't4_geom_convert/Kernel/Surface/ConversionSurfaceMCNPToT4.py', "param = [p_y, p_z, radius]", "param = [p_z, p_y, radius]", ['C02'], 'violation'),
 ('M6 RCC top plane placed at the bottom', 't4_geom_convert/Kernel/Surface/MacroBodies.py', "(MS.P, planeParamsFromNormalAndPoint(height, base_top), 1),\n        (MS.P, planeParamsFromNormalAndPoint(height, base_bottom), -1),\n    ]\n\n\ndef rhp", "(MS.P, planeParamsFromNormalAndPoint(height, base_bottom), 1),\n        (MS.P, planeParamsFromNormalAndPoint(height, base_bottom), -1),\n    ]\n\n\ndef rhp", ['C03'], 'violation'),
 ('M8 compose_transform multiplies the matrices in the other order', 't4_geom_convert/Kernel/Transformation/Transformation.py', "mat_c = mat2 @ mat1", "mat_c = mat1 @ mat2", ['C06','C05'], 'equivalent: at every call site one of the two matrices is the identity'),
 ('M9 latticeVector ignores the third index', 't4_geom_convert/Kernel/Volume/Lattice.py', "def latticeVector(base_vecs, index):", "def latticeVector(base_vecs, index):\n    index = list(index)[:2] + [0] * (len(index) - 2)", ['C06'], 'violation'),
 ('M10 inline selection uses <= instead of <', 't4_geom_convert/Kernel/Volume/CellInlining.py', "if score < max_inline_score)", "if score <= max_inline_score)", ['C13'], 'property holds (inlining never changes the meaning); the model no longer corresponds'),
 ('M11 rescale_fractions divides by a slightly wrong total', 't4_geom_convert/Kernel/Composition/ConstructCompositionT4.py', "conc = float(normalize_float(frac)) * concentration / total_fractions", "conc = float(normalize_float(frac)) * concentration / (total_fractions + 1e-7)", ['C10'], 'violation'),
 ('M12 VolumeT4.__str__ drops FICTIVE for volumes with three PLUS surfaces', 't4_geom_convert/Kernel/Volume/VolumeT4.py', "if self.fictive:\n            str_params.append('FICTIVE')", "if self.fictive and len(self.pluses) != 3:\n            str_params.append('FICTIVE')", ['C08','C18'], 'violation of C08; C18 (determinism) still holds, its model no longer corresponds'),
 ('M13 adjust_matrix snaps entries below 1e-3 to zero', 't4_geom_convert/Kernel/Transformation/Transformation.py', "value if abs(value) >= 1e-10 else 0.0", "value if abs(value) >= 1e-3 else 0.0", ['C04'], 'violation'),
 ('M14 pot_fill keeps the material of a non-void container', 't4_geom_convert/Kernel/Volume/CellConversion.py', "new_cell.materialID = element_cell.materialID\n            new_cell.density", "new_cell.materialID = cell.materialID if cell.materialID != '0' else element_cell.materialID\n            new_cell.density", ['C05','C09'], 'violation of C09 (generated filled containers of C05 decks are void)'),
 ('M15 four leading blanks already continue a card', 'MIP/mip/cards.py', "re_continuation_spaces = re.compile(r'^\\s{5,}')", "re_continuation_spaces = re.compile(r'^\\s{4,}')", ['C14'], 'violation'),
 ('M16 parse_keywords tests u before trcl (guarded)', 't4_geom_convert/Kernel/FileHandlers/Parser/ParseMCNPCell.py', "            elif 'trcl' in elt:\n                keywords['trcl'] = self.parse_trcl_kw(elt, kw_list)\n            elif 'u' in elt:\n                keywords['u'] = int(float(kw_list.pop()))", "            elif 'u' in elt and 'trcl' not in elt:\n                keywords['u'] = int(float(kw_list.pop()))\n            elif 'trcl' in elt:\n                keywords['trcl'] = self.parse_trcl_kw(elt, kw_list)", ['C15'], 'equivalent rewrite'),
 ('N1 GEOMCOMP takes the filler from the last provenance pair', 't4_geom_convert/Kernel/GeomComp/ConstructGeomCompT4.py', "volID = val.idorigin[0][0]", "volID = val.idorigin[-1][0]", ['C09','C05'], 'equivalent: every pair carries the same filler (theorem C05.provenance)'),
 ('N2 GEOMCOMP takes the container instead of the filler', 't4_geom_convert/Kernel/GeomComp/ConstructGeomCompT4.py', "volID = val.idorigin[0][0]", "volID = val.idorigin[0][1]", ['C09'], 'violation'),
 ('N4 NB_ATOM always written', 't4_geom_convert/Kernel/FileHandlers/Writer/WriteT4Composition.py', "nb_atom = 'NB_ATOM' if mat.nb_atom else ''", "nb_atom = 'NB_ATOM'", ['C10'], 'violation'),
 ('N5 writer no longer skips zero-importance cells', 't4_geom_convert/Kernel/FileHandlers/Writer/WriteT4Geometry.py', "            if key in skipped_cells:\n                continue\n", "", ['C12','C08'], 'equivalent: such cells are never converted in the first place'),
 ('N7 sphere radius squared', 't4_geom_convert/Kernel/Surface/ConversionSurfaceMCNPToT4.py', "param = [p_x, p_y, p_z, radius]", "param = [p_x, p_y, p_z, radius * radius]", ['C02'], 'violation'),
 ('N8 cone half-angle left in radians', 't4_geom_convert/Kernel/Surface/ConversionSurfaceMCNPToT4.py', "theta = 180. * val.compl_param[1] / pi", "theta = val.compl_param[1]", ['C02'], 'violation'),
 ('N9 tilted torus: centre rotated with the transposed matrix', 't4_geom_convert/Kernel/Surface/ConversionSurfaceMCNPToT4.py', "center = transform_mat.T.dot(center)", "center = transform_mat.dot(center)", ['C04'], 'violation'),
 ('N10 three-point plane not flipped when the origin is on the positive side', 't4_geom_convert/Kernel/VectUtils.py', "    if pos < -epsilon:\n        # make sure the origin lies on the negative side of the plane\n        return flipped_params", "    if pos < -epsilon:\n        return params", ['C02','C03'], 'violation of C02 (ARB re-orients its planes by the centroid: C03 unaffected)'),
 ('N13 transformation_quad translates the wrong way', 't4_geom_convert/Kernel/Transformation/TransformationQuad.py', "[1.0, 0.0, 0.0, -trans[0]]", "[1.0, 0.0, 0.0, trans[0]]", ['C04'], 'violation'),
 ('N14 second hexagonal base vector from the fifth plane', 't4_geom_convert/Kernel/Volume/Lattice.py', "vertices_2, _ = hexVertices(surfaces, 2)", "vertices_2, _ = hexVertices(surfaces, 4)", ['C07'], 'violation'),
 ('N16 RPP y facets swapped', 't4_geom_convert/Kernel/Surface/MacroBodies.py', "(MS.P, [0, 1, 0, ymax], 1),\n        (MS.P, [0, 1, 0, ymin], -1),", "(MS.P, [0, 1, 0, ymin], 1),\n        (MS.P, [0, 1, 0, ymax], -1),", ['C03'], 'violation'),
 ('N18 importance = minimum over particles', 't4_geom_convert/Kernel/FileHandlers/Parser/ParseMCNPCell.py', "keywords['importance'] = max(\n                    keywords['imp_by_particle'].values())", "keywords['importance'] = min(\n                    keywords['imp_by_particle'].values())", ['C12'], 'violation'),
 ('P1 COMPOSITION count off by one', 't4_geom_convert/Kernel/FileHandlers/Writer/WriteT4Composition.py', 'ofile.write(str(n_compos + 1) + "\\n")', 'ofile.write(str(n_compos) + "\\n")', ['C08','C10'], 'violation'),
 ('P2 reflecting flag written as COSINUS', 't4_geom_convert/Kernel/BoundaryCondition/CConversionBoundaryCondition.py', "if p_boundCondMCNP == '*':\n                p_typeOfBC = 'REFLECTION'", "if p_boundCondMCNP == '*':\n                p_typeOfBC = 'COSINUS'", ['C16'], 'violation'),
 ('P3 BOUNDARY_CONDITION count off by one', 't4_geom_convert/Kernel/FileHandlers/Writer/WriteT4BoundCond.py', "ofile.write(str(len(d_boundCond)))", "ofile.write(str(len(d_boundCond) + 1))", ['C16','C08'], 'violation'),
 ('P4 nR repeats n-1 times', 'MIP/mip/datacard.py', "result.extend([result[-1]]*n_reps)", "result.extend([result[-1]]*max(n_reps - 1, 1))", ['C12','C14'], 'violation'),
 ('P5 nI stops short of the upper value', 'MIP/mip/datacard.py', "    yield float(upper)\n\n\ndef logspace", "    yield float(upper - step)\n\n\ndef logspace", ['C12'], 'violation'),
 ('P6 FILL array paired with the indices in reverse', 't4_geom_convert/Kernel/Volume/Lattice.py', "yield from zip(self.bounds.indices(), self.spec)", "yield from zip(self.bounds.indices(), reversed(self.spec))", ['C06'], 'violation'),
 ('P9 GEOMCOMP count wrong for more than three volumes', 't4_geom_convert/Kernel/GeomComp/ConstructGeomCompT4.py', "numberOfCell = len(dic_partialGeomComp[key])", "numberOfCell = len(set(dic_partialGeomComp[key])) + (1 if len(dic_partialGeomComp[key]) > 3 else 0)", ['C08','C09'], 'violation'),
 ('P11 remove_unused_volumes also deletes some cell volumes', 't4_geom_convert/Kernel/Volume/ConstructVolumeT4.py', "fictives = set(key for key, volume in dic.items() if volume.fictive)", "fictives = set(key for key, volume in dic.items() if volume.fictive or not volume.idorigin and len(volume.pluses) > 3)", ['C01','C08'], 'violation'),
 ('P12 empty unions neutralised with the helper planes swapped', 't4_geom_convert/Kernel/Volume/ConstructVolumeT4.py', "val.pluses = set([union_ids[0]])\n            val.minuses = set([union_ids[1]])", "val.pluses = set([union_ids[1]])\n            val.minuses = set([union_ids[0]])", ['C01','C08','C13'], 'violation'),
]


def sh(c):
    return subprocess.run(c, shell=True, capture_output=True, text=True)


def main():
    only = sys.argv[1:]
    sh('mkdir -p /root/scratch; git -C /repo worktree remove --force %s; git -C /repo worktree add -f %s HEAD' % (WT, WT))
    rows = []
    try:
        for name, f, old, new, props, expect in MUTS:
            if only and not any(name.startswith(o) for o in only):
                continue
            sh('git -C %s checkout -- .' % WT)
            p = os.path.join(WT, f)
            s = open(p).read()
            if old not in s:
                rows.append((name, f, expect, 'PATTERN NOT FOUND'))
                continue
            open(p, 'w').write(s.replace(old, new, 1))
            res = []
            for pr in props:
                r = sh('cd %s && T4GC_REPO=%s timeout 900 /venv/bin/python -m harness.check %s --tier quick' % (VERIF, WT, pr))
                v = len(re.findall(r'^VIOLATION(?!.*no-failing)', r.stdout, re.M))
                u = r.stdout.count('no-failing-input-found')
                res.append('%s: %s' % (pr, 'failing input' if v else ('no-failing-input-found' if u else 'quiet')))
            rows.append((name, os.path.basename(f), expect, '; '.join(res)))
            print(rows[-1], flush=True)
    finally:
        sh('git -C /repo worktree remove --force %s; git -C /repo worktree prune' % WT)
    with open(os.path.join(VERIF, 'seeded', 'ADHOC.md'), 'w') as out:
        out.write('| change | file | what it is | what the quick checks said |\n|---|---|---|---|\n')
        for r in rows:
            out.write('| %s | %s | %s | %s |\n' % r)


if __name__ == '__main__':
    main()
