#!/usr/bin/env python3
"""Run registered checks against a seeded mutation.
usage: tools/seedtest.py <mutation dir with patch.diff [demo.py]> <prop id> [<prop id>…] [--tier quick]
Applies the patch to /repo (git apply, 3-way fallback), runs the checks, always reverts."""
import os
import subprocess
import sys

REPO = os.environ.get('SEED_REPO', '/repo')      # a scratch clone of /repo: keeps a long sweep off /repo itself
VERIF = os.path.dirname(os.path.dirname(os.path.abspath(__file__)))


def sh(cmd, **kw):
    return subprocess.run(cmd, shell=True, capture_output=True, text=True, **kw)


def main():
    args = [a for a in sys.argv[1:] if not a.startswith('--')]
    tier = 'quick'
    if '--tier' in sys.argv:
        tier = sys.argv[sys.argv.index('--tier') + 1]
        args = [a for a in args if a != tier]
    mdir, props = os.path.abspath(args[0]), args[1:]
    patch = os.path.join(mdir, 'patch.diff')
    st = sh('git -C %s status --porcelain' % REPO).stdout.strip()
    if st:
        print('repo not clean:', st)
        return 2
    r = sh('git -C %s apply %s' % (REPO, patch))
    if r.returncode != 0:
        r = sh('git -C %s apply --3way %s' % (REPO, patch))
        if r.returncode != 0 or 'with conflicts' in (r.stderr + r.stdout):
            print('patch does not apply:', r.stderr[-500:])
            sh('git -C %s reset -q --hard HEAD' % REPO)
            return 2
        sh('git -C %s reset -q' % REPO)
    try:
        demo = os.path.join(mdir, 'demo.py')
        if os.path.exists(demo):
            d = sh('PYTHONPATH=%s:%s/tools/lib /venv/bin/python %s' % (REPO, VERIF, demo))
            print('demo on mutated tree: rc=%d' % d.returncode)
        for p in props:
            c = sh('cd %s && T4GC_REPO=%s /venv/bin/python -m harness.check %s --tier %s' % (VERIF, REPO, p, tier))
            tail = [l for l in c.stdout.splitlines() if l.startswith(('VIOLATION', 'KNOWN', '# C', '# DIS', '# INFRA'))]
            print('%s rc=%d\n  %s' % (p, c.returncode, '\n  '.join(tail[-40:])))
            import glob, json
            for f in sorted(glob.glob(os.path.join(VERIF, 'evidence', 'replay', p + '_*.json'))):
                try:
                    j = json.load(open(f))
                    sig = j.get('signature') or {}
                    print('  CAUGHT-BY stream=%s class=%s :: %s' % (j.get('stream') or sig.get('stream'), sig.get('class') or j.get('kind'),
                                                                (j.get('message') or '')[:140].replace('\n', ' ')))
                except Exception:  # noqa
                    pass
    finally:
        sh('git -C %s reset -q --hard HEAD' % REPO)
        sh('git -C %s clean -fdq -- t4_geom_convert MIP' % REPO)
    return 0


if __name__ == '__main__':
    sys.exit(main())
