#!/usr/bin/env python3
"""Prepare a round of 'seeded change' sub-agents: one scratch clone of /repo and one brief per target.  The brief
contains only the text of the property (from properties.jsonl) and a place to look; nothing from /verif.

usage: tools/mutprompts.py <round dir, e.g. /scratch/m5> <round tag, e.g. 5> <targets.json>
targets.json: [[tag, property id, file, hint], ...]
"""
import json
import os
import shutil
import subprocess
import sys

VERIF = os.path.dirname(os.path.dirname(os.path.abspath(__file__)))

BASE = '''You are helping to test a verification tool by producing ONE realistic, subtle, property-breaking change ("seeded defect") to a Python project. You work ONLY inside your own scratch clone; never touch /repo or /verif (do not read or list /verif at all).

## The project
`t4_geom_convert`: a Python transpiler converting MCNP Monte-Carlo geometry input decks (surfaces, cells, universes/FILL, lattices, transformations, materials) into TRIPOLI-4 input. Your private clone of it (a git repository at the pinned commit, clean) is at:

    {wt}

Packages: `t4_geom_convert/` (Kernel/... conversion code, main.py) and `MIP/` (MCNP input parser). Read the code you need.

## The property you must break
{pid} — {title}

{statement}

Quantifier: {quant}

## Where to make the change
Your change MUST be (primarily) in `{file}`: {hint}. First check that this code is really executed in a normal conversion (some modules are dead code: if yours turns out to be unused, say so and choose the closest code that IS used for the same purpose). Other people already changed other files for this property; staying in this area keeps your change different from theirs.

## Your job
Make ONE small, plausible source change in your clone (the kind a maintainer could make in good faith: an "optimisation", a refactoring slip, an off-by-one, a changed default, a cache, a reordered step, a simplified condition, a lost special case...) such that:
1. the code still imports and runs normally on ordinary inputs (no syntax errors, no crashes on typical decks);
2. the project's pinned test suite still gives the same 49 passes (run it in your clone:  `cd {wt} && rm -rf .hypothesis && /venv/bin/python -m pytest -ra -q -p no:cacheprovider --timeout=900 --continue-on-collection-errors 2>&1 | tail -3`  — on the unchanged tree it reports "129 failed, 49 passed, 129 skipped": the 129 failures are expected in this sandbox (the installed TatSu parser engine is broken) and are NOT your concern; you must keep "49 passed" (hypothesis tests test_normalized / test_adjust_matrix are occasionally flaky; remove .hypothesis and rerun if you see 48));
3. the property above is violated for at least some inputs (ideally only for a sub-class of inputs, so that it is not trivially noticed), while the converter still finishes and writes an output file for those inputs (a silent wrong answer is better than a crash, unless the property is about rejecting bad input or about determinism).

Subtle beats blatant; a change that only shows for a particular class of cards / spellings / options is ideal.

## Running the converter in this sandbox
The installed TatSu engine is broken, so end-to-end conversion only works with a small PEG shim. Use the helper:

    cd /root && PYTHONPATH={wt}:{lib} /venv/bin/python your_script.py

with, in your script:  `from convert_example import convert`  then  `t4_text, log = convert(deck_text, extra_args=())`  (see {lib}/convert_example.py; it installs the shim and runs `t4_geom_convert.main.conversion` in-process on the source tree that is first on PYTHONPATH). Always put your clone first on PYTHONPATH, otherwise the installed /repo copy is imported. Check `t4_geom_convert.__file__` if in doubt.
There are example decks under {wt}/t4_geom_convert/IntegrationTests/data (find *.imcnp).

## What to deliver (all in {out})
- `patch.diff`: output of `git -C {wt} diff HEAD` (must apply with `git apply` on the pinned commit; source files only, no new test files);
- `demo.py`: a self-contained demonstration script, run as `PYTHONPATH=<tree>:{lib} /venv/bin/python demo.py`, that builds one or more decks, converts them with `convert(...)`, and checks the property INDEPENDENTLY (its own small reference computation — e.g. evaluate MCNP semantics and the written T4 file at sample points, or compare the relevant part of the output with what the property demands). It must exit 0 on the UNCHANGED tree and exit 1 (printing what went wrong) on your CHANGED tree. Verify both (for the unchanged tree use `git -C {wt} stash` / `stash pop`);
- `meta.json`: {{"property": "{pid}", "summary": "<what you changed and why it breaks the property>", "needs": "<what an input must contain for the violation to show; what stays correct>", "files": ["<changed source files>"]}}.

Leave your clone with the change applied. Do not create files outside {wt}, {out} and temporary files under {root}/tmp-{tag} (remove those at the end). Finish with a short report: the change, the class of inputs affected, and the verified exit codes (demo on changed tree / unchanged tree, pytest tail on the changed tree).
'''


def main():
    root, rnd, tfile = sys.argv[1:4]
    props = {}
    for line in open(os.path.join(VERIF, 'properties.jsonl')):
        d = json.loads(line)
        props[d['id']] = d
    lib = os.path.join(root, 'lib')
    for sub in ('lib', 'out', 'prompts'):
        os.makedirs(os.path.join(root, sub), exist_ok=True)
    for f in ('pegshim.py', 'convert_example.py'):
        shutil.copy(os.path.join(VERIF, 'tools', 'lib', f), lib)
    p = os.path.join(lib, 'convert_example.py')
    text = open(p).read().replace('/tmp/wt/lib', lib)
    open(p, 'w').write(text)
    for tag, pid, file, hint in json.load(open(tfile)):
        d = props[pid]
        wt = os.path.join(root, tag)
        if not os.path.exists(wt):
            subprocess.run(['git', 'clone', '-q', '/repo', wt], check=True)
        out = os.path.join(root, 'out', pid, rnd + tag.lower())
        os.makedirs(out, exist_ok=True)
        open(os.path.join(root, 'prompts', tag + '.txt'), 'w').write(BASE.format(
            wt=wt, out=out, lib=lib, root=root, pid=pid, title=d['title'], statement=d['statement'],
            quant=d.get('quantifier', {}).get('text', ''), file=file, hint=hint, tag=tag))
        print(tag, pid, out)


if __name__ == '__main__':
    main()
