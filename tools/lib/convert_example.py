"""Example: run the converter in-process on a deck text, from a given source tree.
Usage: PYTHONPATH=<your worktree>:/tmp/wt/lib /venv/bin/python convert_example.py
The installed TatSu's parse engine is broken in this sandbox, so end-to-end conversion only
works after pegshim.install() (a small PEG interpreter over the repo's own geom.ebnf grammar;
it calls the repo's GeomSemantics, normalize(), etc. unchanged)."""
import io, os, sys, tempfile, contextlib
import pegshim
pegshim.install()
from t4_geom_convert.main import conversion, parse_args

def convert(deck_text, extra_args=()):
    d = tempfile.mkdtemp()
    inp = os.path.join(d, 'deck.imcnp'); out = os.path.join(d, 'deck.t4')
    open(inp, 'w').write(deck_text)
    buf = io.StringIO()
    with contextlib.redirect_stdout(buf):
        conversion(parse_args([inp, '-o', out, *extra_args]))
    return open(out).read(), buf.getvalue()

if __name__ == '__main__':
    deck = """title
1 0 -1 imp:n=1
2 0 1 imp:n=0

1 so 5

"""
    t4, log = convert(deck)
    print(t4)
