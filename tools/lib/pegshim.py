"""Scratch: PEG interpreter over TatSu's grammar model with seed-growing left recursion."""
import re
import tatsu
from tatsu.ast import AST

class Fail(Exception): pass

class ShimParser:
    def __init__(self, grammar_text):
        self.model = tatsu.compile(grammar_text)
        self.rules = {r.name: r for r in self.model.rules}
        self.names = {r.name: self._names(r.exp) for r in self.model.rules}
    def _names(self, e):
        t = type(e).__name__
        out = []
        if t == 'Named': out.append(e.name)
        for attr in ('exp',):
            v = getattr(e, attr, None)
            if v is not None and not isinstance(v, (str,)): out += self._names(v)
        for attr in ('sequence','options'):
            v = getattr(e, attr, None)
            if v: 
                for x in v: out += self._names(x)
        return out
    def parse(self, text, semantics=None, **kw):
        self.text = text; self.sem = semantics; self.memo = {}
        start = self.model.rules[0].name
        try:
            pos, val = self.call(start, 0)
        except Fail as e:
            raise tatsu.exceptions.FailedParse(None, [], str(e)) if False else ParseError(str(e))
        return val
    def call(self, name, pos):
        key = (name, pos)
        if key in self.memo:
            r = self.memo[key]
            if r is None: raise Fail(f'{name}@{pos}')
            return r
        self.memo[key] = None  # seed: fail
        best = None
        while True:
            try:
                res = self.apply_rule(name, pos)
            except Fail:
                break
            if best is not None and res[0] <= best[0]:
                break
            best = res
            self.memo[key] = best
            # clear memo entries that depended on seed at this pos (simple: drop all others at >= pos except this)
            for k in [k for k in self.memo if k != key and k[1] >= pos]:
                del self.memo[k]
        if best is None:
            self.memo[key] = None
            raise Fail(f'{name}@{pos}')
        return best
    def apply_rule(self, name, pos):
        rule = self.rules[name]
        env = {}
        pos2, cst = self.ev(rule.exp, pos, env)
        names = self.names[name]
        if names:
            node = AST({n: env.get(n) for n in names})
        else:
            node = cst
        if self.sem is not None:
            f = getattr(self.sem, name, None)
            if f is None: f = getattr(self.sem, '_default', None)
            if f is not None: node = f(node)
        return pos2, node
    def ev(self, e, pos, env):
        t = type(e).__name__
        if t == 'Choice':
            for opt in e.options:
                env2 = {}
                try:
                    p, v = self.ev(opt, pos, env2)
                    env.update(env2); return p, v
                except Fail: continue
            raise Fail('choice')
        if t == 'Option':
            return self.ev(e.exp, pos, env)
        if t == 'Sequence':
            vals = []
            for x in e.sequence:
                pos, v = self.ev(x, pos, env)
                if v is not None: vals.append(v)
            return pos, (vals[0] if len(vals)==1 else (vals or None))
        if t == 'Named':
            p, v = self.ev(e.exp, pos, env); env[e.name] = v; return p, v
        if t == 'Call':
            return self.call(e.name, pos)
        if t == 'Token':
            if self.text.startswith(e.token, pos): return pos+len(e.token), e.token
            raise Fail('tok')
        if t == 'Pattern':
            m = re.compile(e.pattern).match(self.text, pos)
            if not m: raise Fail('pat')
            return m.end(), m.group()
        if t == 'EOF':
            if pos == len(self.text): return pos, None
            raise Fail('eof')
        raise NotImplementedError(t)

class ParseError(tatsu.exceptions.ParseException): pass

def install():
    import MIP.geom.parsegeom as pg
    pg.parser = ShimParser(pg.grammar)
