#!/usr/bin/env python3
"""Regenerate MANIFEST.json from the table below (single source of truth for what is claimed)."""
import json
import os

VERIF = os.path.dirname(os.path.dirname(os.path.abspath(__file__)))
TITLES = {json.loads(l)['id']: json.loads(l)['title'] for l in open(os.path.join(VERIF, 'properties.jsonl'))}

NOTE_COMMON = ("Trusted base: Lean 4.33 kernel + axioms ⊆ {propext, Classical.choice, Quot.sound} (audited per theorem on "
               "every run); the hand-written spec (T4V/Spec) of MCNP / TRIPOLI-4 semantics; the correspondence streams "
               "(generator coverage bounds what they see); harness/shim.py standing in for the broken TatSu engine; "
               "exact-field theorems vs IEEE doubles at run time. The theorems are about the Lean model, all of /repo is "
               "modelled, not verified.")

CLAIMED = {
    'C11': dict(
        technique='Lean 4 proof (structural/fuel induction over expression trees) + model↔code correspondence + Lean spec monitor',
        text=("Proved for all expressions and all sense assignments in Lean: the PEG parser model returns, on the canonical "
              "spelling of any stratified MCNP expression, the left-associated tree of MCNP's precedence rules "
              "(parse_canonical); that tree evaluates to MCNP's reading (parsed_tree_meaning); GeomExpression.inverse "
              "negates (inverse_negates); pot_complement yields a #-free tree with MCNP's meaning, cells referring to "
              "cells to any depth (complement_elimination). The char-level model of normalize()+grammar+GeomSemantics and "
              "the pot_complement model are tied to /repo on every run by exact tree comparison on generated, exhaustive-"
              "small and malformed texts; a Boolean monitor evaluates the converter's actual trees against MCNP's reading "
              "on all 2^n assignments. Not proved: normalize() maps every legal layout to the canonical spelling "
              "(correspondence only)."),
        design_ref='§8 C11'),
}

NOT_YET = "check under construction (not yet registered)"


def main():
    checks = []
    for pid, c in sorted(CLAIMED.items()):
        checks.append({
            'property_id': pid,
            'quick_cmd': '/venv/bin/python -m harness.check %s --tier quick' % pid,
            'thorough_cmd': '/venv/bin/python -m harness.check %s --tier thorough' % pid,
            'evidence_file': 'evidence/%s.json' % pid,
            'replay_cmd_template': '/venv/bin/python -m harness.check %s --replay {path}' % pid,
            'engine': 'lean4-t4v',
            'level_claimed': {'category': c.get('category', 'proof'), 'text': c['text'], 'design_ref': c['design_ref']},
            'level_note': c.get('note', NOTE_COMMON),
            'technique': c['technique'],
        })
    na = [{'property_id': pid, 'reason': NOT_YET} for pid in sorted(TITLES) if pid not in CLAIMED]
    m = {
        'version': 1,
        'setup_cmd': 'cd lean && lake build',
        'hooks': {
            'guard': 'T4GC_VERIF',
            'enable': ('no source hooks are needed: the harness imports /repo\'s working tree in-process (sys.path) and wraps '
                       'functions at run time; T4GC_VERIF=1 is exported by the harness but nothing in /repo reads it'),
            'baseline_off_cmd': 'cd /repo && /venv/bin/python -m pytest -ra -q -p no:cacheprovider --timeout=900 --continue-on-collection-errors',
            'source_commits': [],
            'add_only': True,
        },
        'engines': [{'name': 'lean4-t4v', 'path': 'lean', 'serves_properties': sorted(CLAIMED),
                     'kind_free_text': 'Lean 4 model + spec + proofs (lake project T4V), native line-protocol driver, Python correspondence/monitor harness'}],
        'checks': checks,
        'notes': 'see DESIGN.md; known_findings.json lists genuine defects (open) and repaired ones (fixed: fix: commits in /repo)',
        'not_applicable': na,
    }
    json.dump(m, open(os.path.join(VERIF, 'MANIFEST.json'), 'w'), indent=1, ensure_ascii=False)
    print('claimed:', sorted(CLAIMED), 'not yet:', [x['property_id'] for x in na])


if __name__ == '__main__':
    main()
