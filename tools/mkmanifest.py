#!/usr/bin/env python3
"""Regenerate MANIFEST.json from the table below (single source of truth for what is claimed)."""
import json
import os

VERIF = os.path.dirname(os.path.dirname(os.path.abspath(__file__)))
TITLES = {json.loads(l)['id']: json.loads(l)['title'] for l in open(os.path.join(VERIF, 'properties.jsonl'))}

NOTE_COMMON = ("Trusted base: Lean 4.33 kernel + axioms ⊆ {propext, Classical.choice, Quot.sound} (audited per theorem on "
               "every run); the hand-written spec (T4V/Spec) of MCNP / TRIPOLI-4 semantics; the correspondence streams "
               "(generator coverage bounds what they see); harness/shim.py standing in for the broken TatSu engine; "
               "exact-field theorems vs IEEE doubles at run time. The theorems are about the Lean model, all of /repo is "
               "modelled, not verified.")

CLAIMED = {
    'C01': dict(
        technique='Lean 4 proof (mutual fuel induction over the volume compiler with caches) + model↔code correspondence + Lean point monitor',
        text=("Proved in Lean for trees of any size, any number of cells and every sense assignment: pot_flag, "
              "pot_expand_surfs and pot_optimise keep the Boolean function (None only for a false tree); pot_convert / "
              "pot_to_t4_cell / convert_cellref — with both caches, fresh ids, helper planes for unions and the "
              "largest-pure-intersection shortcut, cell references to any depth — return a volume whose denotation is "
              "the cell's expression; the conversion loop gives every live cell a non-virtual volume under its own "
              "number or none when the expression is false; hence exactly-one ownership (exactly_one). The Lean model "
              "is compared with the code on every run (pot_complement, conversion loop, post-processing: canonical "
              "volume terms) and the Lean reference semantics locates sample points in the written file. Not proved: "
              "denotation preservation of remove_empty/unused_volumes (stated as a def)."),
        design_ref='§8 C01'),
    'C08': dict(
        technique='Lean 4 proof (loop invariant of remove_empty_volumes, optimise invariant) + Lean reader evaluating WellFormed on the written bytes',
        text=("Proved in Lean: pot_optimise never leaves an intersection with one surface on both sides; after "
              "remove_empty_volumes (any dictionary, any queue evolution) and remove_unused_volumes no volume lists a "
              "surface on both sides. The other clauses (ids unique, references defined, declared counts, one "
              "composition per volume, COMPOSITION count, finite numbers) are evaluated by the Lean reader on the bytes "
              "of every file produced by flat / universe / lattice / coincident-surface decks under all option sets; "
              "closedness after post-processing is stated, not proved."),
        design_ref='§8 C08'),
    'C11': dict(
        technique='Lean 4 proof (structural/fuel induction over expression trees) + model↔code correspondence + Lean spec monitor',
        text=("Proved for all expressions and all sense assignments in Lean: the PEG parser model returns, on the canonical "
              "spelling of any stratified MCNP expression, the left-associated tree of MCNP's precedence rules "
              "(parse_canonical); that tree evaluates to MCNP's reading (parsed_tree_meaning); GeomExpression.inverse "
              "negates (inverse_negates); pot_complement yields a #-free tree with MCNP's meaning, cells referring to "
              "cells to any depth (complement_elimination). The char-level model of normalize()+grammar+GeomSemantics and "
              "the pot_complement model are tied to /repo on every run by exact tree comparison on generated, exhaustive-"
              "small and malformed texts; a Boolean monitor evaluates the converter's actual trees against MCNP's reading "
              "on all 2^n assignments. Not proved: normalize() maps every legal layout to the canonical spelling "
              "(correspondence only)."),
        design_ref='§8 C11'),
    'C13': dict(
        technique='Lean 4 proof (fold invariant of de-duplication, fuel induction for inlining) + model↔code correspondence + Lean point monitor under several option sets',
        text=("Proved in Lean: remove_duplicate_surfaces maps a to b only if both cards have the same definition and b "
              "is kept; renumbering preserves the denotation of every volume at every point where merged surfaces have "
              "equal sense; inlining any selection of cell references preserves the Boolean function (so the inline "
              "score and the --always-inline flags cannot change meaning); the conversion loop theorem of C01 holds for "
              "every resulting tree. Each generated deck is converted under several option sets and every output is "
              "checked point-wise against the one MCNP reference; the de-duplication/post-processing model is compared "
              "with the code."),
        design_ref='§8 C13'),
    'C17': dict(
        technique='Lean 4 proof (decision logic stated outright on the model) + fault injection on the real converter',
        text=("Proved in Lean for the fault classes whose logic is in the model: a facet index beyond the body's facets "
              "is rejected (and the error propagates through any enclosing node), a FILL array of the wrong length is "
              "rejected, IMP cards of unequal length are rejected, a material card mixing signs is rejected. Every fault "
              "class of the property (incl. m=-1 in TR/TRCL/FILL, --lattice errors, parameter counts of every mnemonic and "
              "macrobody, unknown mnemonics) is injected at random applicable cards of valid generated decks; the run must "
              "end with a diagnostic exception class. Fault classes not carried by a theorem are fault-enumeration only."),
        design_ref='§8 C17'),
}

NOT_YET = "check under construction (not yet registered)"


def main():
    checks = []
    for pid, c in sorted(CLAIMED.items()):
        checks.append({
            'property_id': pid,
            'quick_cmd': '/venv/bin/python -m harness.check %s --tier quick' % pid,
            'thorough_cmd': '/venv/bin/python -m harness.check %s --tier thorough' % pid,
            'evidence_file': 'evidence/%s.json' % pid,
            'replay_cmd_template': '/venv/bin/python -m harness.check %s --replay {path}' % pid,
            'engine': 'lean4-t4v',
            'level_claimed': {'category': c.get('category', 'proof'), 'text': c['text'], 'design_ref': c['design_ref']},
            'level_note': c.get('note', NOTE_COMMON),
            'technique': c['technique'],
        })
    na = [{'property_id': pid, 'reason': NOT_YET} for pid in sorted(TITLES) if pid not in CLAIMED]
    m = {
        'version': 1,
        'setup_cmd': 'cd lean && lake build',
        'hooks': {
            'guard': 'T4GC_VERIF',
            'enable': ('no source hooks are needed: the harness imports /repo\'s working tree in-process (sys.path) and wraps '
                       'functions at run time; T4GC_VERIF=1 is exported by the harness but nothing in /repo reads it'),
            'baseline_off_cmd': 'cd /repo && /venv/bin/python -m pytest -ra -q -p no:cacheprovider --timeout=900 --continue-on-collection-errors',
            'source_commits': [],
            'add_only': True,
        },
        'engines': [{'name': 'lean4-t4v', 'path': 'lean', 'serves_properties': sorted(CLAIMED),
                     'kind_free_text': 'Lean 4 model + spec + proofs (lake project T4V), native line-protocol driver, Python correspondence/monitor harness'}],
        'checks': checks,
        'notes': 'see DESIGN.md; known_findings.json lists genuine defects (open) and repaired ones (fixed: fix: commits in /repo)',
        'not_applicable': na,
    }
    json.dump(m, open(os.path.join(VERIF, 'MANIFEST.json'), 'w'), indent=1, ensure_ascii=False)
    print('claimed:', sorted(CLAIMED), 'not yet:', [x['property_id'] for x in na])


if __name__ == '__main__':
    main()
