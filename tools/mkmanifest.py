#!/usr/bin/env python3
"""Regenerate MANIFEST.json from the table below (single source of truth for what is claimed)."""
import json
import os

VERIF = os.path.dirname(os.path.dirname(os.path.abspath(__file__)))
TITLES = {json.loads(l)['id']: json.loads(l)['title'] for l in open(os.path.join(VERIF, 'properties.jsonl'))}

NOTE_COMMON = ("Trusted base: Lean 4.33 kernel + axioms ⊆ {propext, Classical.choice, Quot.sound} (audited per theorem on "
               "every run); the hand-written spec (T4V/Spec) of MCNP / TRIPOLI-4 semantics; the correspondence streams "
               "(generator coverage bounds what they see); harness/shim.py standing in for the broken TatSu engine; "
               "exact-field theorems vs IEEE doubles at run time. The theorems are about the Lean model, all of /repo is "
               "modelled, not verified.")

CLAIMED = {
    'C01': dict(
        technique='Lean 4 proof (mutual fuel induction over the volume compiler with caches) + model↔code correspondence + Lean point monitor',
        text=("Proved in Lean for trees of any size, any number of cells and every sense assignment: pot_flag, "
              "pot_expand_surfs and pot_optimise keep the Boolean function (None only for a false tree); pot_convert / "
              "pot_to_t4_cell / convert_cellref — with both caches, fresh ids, helper planes for unions and the "
              "largest-pure-intersection shortcut, cell references to any depth — return a volume whose denotation is "
              "the cell's expression; the conversion loop gives every live cell a non-virtual volume under its own "
              "number or none when the expression is false; hence exactly-one ownership (exactly_one). The Lean model "
              "is compared with the code on every run (pot_complement, conversion loop, post-processing: canonical "
              "volume terms) and the Lean reference semantics locates sample points in the written file. The post-processing "
              "(renumbering after de-duplication, remove_empty_volumes with its queue/rounds, remove_unused_volumes) is "
              "proved to keep the denotation of every surviving non-virtual volume, to delete only volumes containing no "
              "point and to leave no dangling reference (postProcess_preserves; the loop is shown to end with an empty "
              "queue), for dictionaries with unique keys and no dangling reference; both are proved of every dictionary "
              "the conversion loop produces (compiled_closed: syntactic invariant through the mutual recursion of the "
              "compiler), so the end-to-end statement loop_then_post (conversion loop + post-processing: every live "
              "cell has a volume with its number containing the point iff the cell does, or none and the cell does "
              "not) carries no hypothesis on the dictionary."),
        design_ref='§8 C01'),
    'C02': dict(
        technique='Lean 4 proof (polynomial identities + sign witness over an arbitrary ordered field, per card of the mnemonic table) + model↔code correspondence per card + Lean point monitor',
        text=("Proved in Lean over any linearly ordered field (transcendental functions only through sqrt(x)²=x, "
              "tan(atan x)=x, π≠0; instantiated at ℝ): for every card of PX/PY/PZ, P (4 entries and the three-point form with MCNP's orientation cascade), SO/S/SX/SY/SZ, "
              "C/X.. and CX.., K/X.. and KX.. with and without the sheet selector, SQ (constant term ≤ 0), GQ, TX/TY/TZ "
              "(6 entries) and the point-defined X/Y/Z (plane, cylinder and one-sheet cone cases), the model of "
              "normalize_surface + mcnp2cad + conversion_surface_params emits surfaces whose implicit function is a "
              "positive multiple of MCNP's (same zero set, same sense at every point), resp. for one-sheet cones a "
              "(cone, apex plane, side) pair selecting exactly MCNP's sheet (elementary_card, axisym_*). The SQ cards "
              "with positive constant term are proved to come out with reversed orientation "
              "(sq_positive_centre_is_reversed = open finding F14). The model is compared with the code card by card "
              "(kind, side, parameters to 1e-9) and the Lean spec monitor locates sample points in probe decks. Not "
              "proved: the 5-entry torus; the three-point theorem is in exact arithmetic (tolerances 1e-10/1e-14 of "
              "planeParamsFromPoints set to 0)."),
        design_ref='§8 C02'),
    'C03': dict(
        technique='Lean 4 proof (facet-by-facet agreement over an arbitrary ordered field; cross-product identities for either handedness) + model↔code correspondence per body + Lean point monitor',
        text=("Proved in Lean over any linearly ordered field: for RPP, SPH, BOX with mutually orthogonal edges of "
              "either handedness, RCC (any axis, all four branches of convert_cylinder), RHP/HEX with 15 entries, WED "
              "(right wedge, either orientation of the slanted facet), RHP/HEX with 9 entries (rotate by 60° and 120°), REC "
              "with 10 and 12 entries (elliptical cylinder through transformation_quad), ELL in both forms (spheroid in "
              "the frame chosen by the converter, any of its three choices of the second axis) and TRC (either radius "
              "larger, any axis, all four branches of convert_cone) and ARB the k-th emitted signed surface is MCNP's k-th "
              "facet with the outward side positive (BodyOK); hence a negative reference selects exactly the points "
              "inside every facet, a positive reference the points outside some facet (body_reference), and b.k "
              "designates the k-th facet (facet_reference). The model (MacroBodies.py facets → cards → join) is "
              "compared with the code body by body (all fifteen spellings). ARB: for any 30 entries whose non-empty facet "
              "descriptors are admissible (three vertices of the card not on a line, centroid off their plane) the k-th "
              "emitted plane is the k-th non-empty descriptor's plane with the centroid inside (arb_ok: digits of the "
              "descriptors, 0/1-based numbering, number of vertices in use, centroid, orientation test)."),
        design_ref='§8 C03'),
    'C04': dict(
        technique='Lean 4 proof (orthogonality identities, quadric transport by ring, frame transport; per transformed card over an ordered field) + model↔code correspondence per transformed card + Lean point monitor over all TR/TRCL spellings',
        text=("Proved in Lean over any linearly ordered field, for every matrix with orthonormal rows and columns, every "
              "displacement and every point: transform_point is MCNP's auxiliary→main map and is inverted by B(p−O) "
              "(motion_invertible); transformation_quad transports quadric coefficients exactly (any matrix: "
              "quadric_transport); transform_frame transports plane/sphere/cylinder/cone frames (frames_transport); hence "
              "for PX/PY/PZ/P, SO/S/SX/SY/SZ, C/X.. and CX.., GQ and SQ cards carrying a transformation number the "
              "converted surface has, at p, MCNP's sense of the card at the auxiliary coordinates of p "
              "(transformed_card, transformed_gq, transformed_sq — the latter without the F14 sign flip of the "
              "untransformed path); a one-sheet cone whose axis ends up along ±x/±y/±z gets the apex-plane side that "
              "accounts for the direction of the axis (flipped_cone_*, the F7 repair). The model is compared with the "
              "code on transformed cards of every non-torus mnemonic under identity / permutation / Pythagorean / "
              "generic rotations. TR cards: two given rows or columns are completed by the vector "
              "product to a proper rotation reproducing every supplied entry (two_rows_completed, two_columns_completed, "
              "completed_matrix_is_rotation), one full row and one full column in any of the nine positions (five entries, "
              "Euler-angle form, incl. the degenerate case sin β = 0) are completed to a proper rotation reproducing "
              "every supplied entry (row_column_completed, euler_rot, roll_rot), a full proper rotation is kept as written (adjust_keeps_rotation, "
              "full_rotation_kept), m ≠ 1 is rejected, three entries are a displacement; the model of normalize_transform "
              "(all forms: 3/5/6/9/12/13 entries, J placeholders, adjust_matrix) is compared with the code and the "
              "completed matrix checked to be a rotation reproducing the supplied entries. Cells: the model of "
              "pot_transform / cell_transform (fresh surface and cell numbers, cell references followed to any depth, "
              "cache on or off) is replayed against every top-level call of real conversions; on it, the tree built for "
              "a TRCL or FILL transformation holds at the image point exactly when the source tree holds at the original "
              "point, provided each new surface has there the sense of its source (transformed_tree, transformed_cell; "
              "that proviso is transformed_card), and no number is handed out twice (new_numbers_fresh). The one-row (3) "
              "completion, degrees → cosines, implicit surfaces 1000·cell+surface, tilted "
              "tori and tilted cones are decided by correspondence and the Lean spec monitor, not by theorems."),
        design_ref='§8 C04'),
    'C05': dict(
        technique='Lean 4 proof (fuel induction over the universe hierarchy; counting argument over partitions; frame choice) + model↔code correspondence of the cells pot_fill creates and the transformations they went through + Lean point monitor through the hierarchy',
        text=("Proved in Lean for any hierarchy depth, fan-out and reuse of universes, any per-cell regions and any "
              "frame maps (FILL transformation or TRCL) at each level: a cell generated by pot_fill contains a point iff "
              "the point lies in the container and, seen through the container's frame map, in the filler leaf "
              "(wrap_contains); what lies outside the container produces nothing (leaf_inside); if in every universe "
              "every point lies in exactly one cell then every point of a filled cell lies in exactly one generated "
              "cell (located_in_exactly_one); the provenance comment lists (filler, container) for every level and "
              "material/density are the filler's (provenance). The model of pot_fill (which cells, order, idorigin, "
              "material, density) is compared with the code's final cell dictionary; the Lean reference semantics "
              "(MCNP.locate: universe frames, FILL transformation vs TRCL precedence, starred forms) is evaluated at "
              "sample points against owners, provenance comment and composition of the written file under random "
              "option sets. Which frame: the model records for every generated cell the transformations its filler went "
              "through — per container on its path, innermost first, the FILL transformation when there is one (the TRCL "
              "is then disregarded) and otherwise the container's TRCLs in order (frame_choice, "
              "fill_transformation_overrides_trcl, trcl_places_the_universe); undoing them last-first is walking the "
              "point through the containers from the outside in (moves_transport). The fillmodel stream recovers the "
              "same list from the cell_transform calls pot_fill really made and compares. How one transformation moves "
              "a filler tree is C04 transformed_tree / transformed_cell."),
        design_ref='§8 C05'),
    'C06': dict(
        technique='Lean 4 proof (induction over the index ranges; field identities for the dual basis) + model↔code correspondence + Lean point monitor on lattice decks',
        text=("Proved in Lean for any number of ranges of any (also negative or one-element) extent: LatticeBounds.indices "
              "enumerates exactly the declared index box with the first index varying fastest (indices_first_index_fastest, "
              "mem_indexBox) and LatticeSpec.items pairs the i-th array entry with the i-th index (items_zip); over any "
              "field, latticeReciprocal returns the dual basis in 1, 2 and 3 dimensions (rᵢ·vⱼ = δᵢⱼ) and, for one, two "
              "and three pairs of planes, each base vector of squareLatticeBaseVectors carries the second plane of its "
              "pair onto the first and is parallel to the planes of the other pairs, whichever side the first-listed "
              "surface has (squareBase_1d/2d/3d). On every run the Lean reference semantics (locate: element index, "
              "filling universe, provenance) is evaluated at sample points of rectangular/skew lattice decks — finite "
              "and infinite lattices, FILL arrays with self-fill and 0 entries, nested lattices, --lattice — against the "
              "written file. Not proved: the clipping of elements by the container (C05 theorem not restated for lattices)."),
        design_ref='§8 C06'),
    'C09': dict(
        technique='Lean 4 proof (char-level model of normalize_float; model of constructGeomCompT4) + model↔code correspondence on generated spellings and on the GEOMCOMP dictionaries of real conversions + respelling oracle + Lean point monitor (owner)',
        text=("Proved in Lean on the char-level model of normalize_float: any number of trailing zeros after the decimal "
              "point is immaterial to the key (trailing_zeros_immaterial), the exponent markers e/E/d/D and the "
              "marker-less Fortran form are normalised to one spelling (markers_normalised); the model is compared with "
              "the code on every generated spelling (normfloat stream) and the converter's output on respelt decks "
              "(LIKE BUT, TR cards, surface parameters) must not change. For plain decimals the key is proved to be sign + integer "
              "digits + fraction without trailing zeros (normalizeFloat_plain), to denote the same number "
              "(key_keeps_value), and equal keys to imply numerically equal densities (same_key_same_value): different "
              "densities never share a composition. For literals with an exponent part (marker e/E/d/D or a bare signed "
              "exponent, with or without point) the key is the literal with the marker written as e, everything else "
              "kept (normalizeFloat_exp); both spellings are read to the same mantissa and power of ten "
              "(exp_key_keeps_value) and all marker spellings share one key (exp_markers_share_key). Attachment: on the "
              "model of constructGeomCompT4 (compared with the code on every GEOMCOMP dictionary of real conversions — "
              "names, order, declared counts, volume lists — and with the written block) every non-fictive volume is "
              "filed under the composition named after material and density of its owner, the first cell of its "
              "provenance list, i.e. the filler at the bottom of the FILL chain (geomcomp_attachment, attached_to_owner, "
              "leaf_material_is_filler); nothing else and no fictive volume is filed (attached_only_to_owner); a volume "
              "has one composition (one_composition_per_volume); the name determines material and density, void cells "
              "getting the bare material name (composition_name_determines_cell)."),
        design_ref='§8 C09'),
    'C10': dict(
        technique='Lean 4 proof (field identities for rescale_fractions, decision logic of the material card reader) + Lean composition monitor on the written file',
        text=("Proved in Lean over any field: the concentrations written for a material are proportional to the card's "
              "fractions and sum to the cell density (concentrations_sum, concentrations_proportional); the reference "
              "reading of a material card keeps nuclides in card order, flags atom vs mass by the sign, names natural "
              "elements and isotopes per the ZAID (nuclides_in_card_order, atom_flag_iff_positive, natural_element, "
              "isotope_name). The Lean monitor recomputes every expected composition from the deck and compares it with "
              "the COMPOSITION block of the written file (names, counts, concentrations to 1e-9 relative)."),
        design_ref='§8 C10'),
    'C12': dict(
        technique='Lean 4 proof (structural induction over the token list of expand_data_card; maximum over particles over a linear order) + model↔code correspondence (expansion, per-cell importance) + Lean point monitor',
        text=("Proved in Lean for token lists of any length: a card without shorthand is returned unchanged, nR repeats "
              "the previous entry n times, nM multiplies it, nI inserts n equally spaced values ending exactly at the "
              "next entry (linspace_length/last), nJ leaves n defaults; the maximum over two importance cards "
              "(two_cards_maximum). Which cells are left out: with several IMP:x cards the importance at a position is the "
              "maximum of the entries (cards_rank_maximum); IMP keywords on the card take precedence over the data cards "
              "(cellImportance, data_card_importance); for non-negative importances the maximum is zero exactly when "
              "every particle's importance is zero (maximum_zero_iff_all_zero, keyword_importance_zero_iff) — a cell is "
              "omitted iff its importance is zero for every particle type. The model of expand_data_card and of the "
              "importance-card merge is compared with the code on generated and malformed token lists (values and error "
              "class), and the importance the model gives every cell of generated decks (keywords / data cards / mixed, "
              "1–3 particles, shorthand, any card order) with the importance the code gave it."),
        design_ref='§8 C12'),
    'C14': dict(
        technique='Lean 4 proof (char-level model of the card lexer; structural induction) + model↔code correspondence on random blocks + differential conversion of restyled decks',
        text=("Proved in Lean on the char-level model of get_cards(skipcomments) / is_continuation / expand_tabs / "
              "Card.content, for lines and blocks of any length: the word sequence of a card's content is, line after "
              "line, the words before the first $ or & (content_words); hence $ comments are immaterial "
              "(dollar_comment_immaterial), lines with the same words give the same card whatever their blank space "
              "and tabs (spacing_immaterial), continuation by a trailing & and by five leading blanks agree "
              "(continuation_forms_agree), full-line c comments anywhere in a block do not change the cards "
              "(comment_lines_immaterial). The lexer model is compared with the code on random blocks (tabs, &, $, "
              "comment lines in every column). Every generated deck is respelled three times by an independent "
              "restyler (case, blanks/tabs, continuations, comments, message block, Fortran numbers, nR shorthand) and "
              "the written files must be identical; data-card shorthand and number spellings rest on the theorems of "
              "C12/C09. Blocks: on the line-level model of get_block_positions (compared with the code on random texts) "
              "any non-empty run of blank lines — empty, blanks, tabs — is the same delimiter (delimiter_immaterial) and a "
              "leading message block leaves title, cell, surface and data blocks unchanged (message_block_immaterial). "
              "Cell cards: cellcard.split modelled character by character (compared with the code on the contents of "
              "generated, restyled and mutated cards) returns number, material, density, geometry and options as written, "
              "for every spelling of the numbers, void cells with any spelling of zero, LIKE n BUT in any letter case "
              "(cell_card_split_material / _void / _like). Surface and data cards: surfacecard.split and "
              "datacard.split modelled and compared likewise; [*+]n [±t] mnemonic parameters and type-number-rest come "
              "back as written (surface_card_split, surface_card_split_tr, data_card_split). Keywords: the option "
              "tokeniser is proved insensitive to letter case (keyword_case_immaterial) and str.split to return the "
              "words (split_returns_the_words). "
              "Not proved: letter case of surface mnemonics and data-card names (one .lower() per reader) — restyling "
              "differential only."),
        design_ref='§8 C14'),
    'C15': dict(
        technique='Lean 4 proof (fold invariant of parse_keywords: the later keyword wins; induction over LIKE chains) + model↔code correspondence on option token lists + differential conversion of LIKE decks against their expansion',
        text=("Proved in Lean for option lists of any length: parse_keywords is a left fold of assignments, so after "
              "`LIKE n BUT opts` (apply_but = cell n's options followed by opts) every scalar option (U, MAT, RHO, LAT, "
              "FILL, TRCL) named in opts takes its value from opts and every other keeps cell n's value "
              "(later_keyword_wins, like_but); the result equals that of the explicit card in which the overridden "
              "options are replaced (like_but_equals_explicit); chains of LIKE cells iterate the statement "
              "(like_chain); importances are kept per particle and the last IMP item listing a particle gives its "
              "value (later_importance_wins). The token-level model of parse_keywords (keyword tests in their order, "
              "arguments popped, greedy numeric arguments of FILL/TRCL, LAT validation, missing values) is compared "
              "with the code on random option lists; every generated LIKE deck is converted as written and expanded, "
              "and the outputs must be identical. The token-level reading is a state machine over "
              "the option tokens and is proved to commute with apply_but whenever the BUT options begin with a keyword "
              "(grouping_commutes_with_but, like_but_tokens). From text to tokens: the tokeniser of the options "
              "(colons squeezed, lower-cased, ( ) = turned into blanks, split; char-level model compared with the code "
              "on the option texts of generated and restyled decks) maps 'options of cell n, blank, BUT options' to the "
              "tokens of the one followed by the tokens of the other (apply_but_on_text). The array form of FILL is "
              "outside the model."),
        design_ref='§8 C15'),
    'C16': dict(
        technique='Lean 4 proof (decision logic of the boundary-condition writer on the model) + model↔code correspondence + locus check of the designated surface in the written file',
        text=("Proved in Lean on the model of the boundary-condition collection: exactly one entry per flagged surface, "
              "in order, with the kind of its flag, none for unflagged ones (entries_partial, one_entry_per_flagged); a "
              "flag on a macrobody is rejected (macrobody_flag_rejected). The model is compared with the code on every "
              "generated deck, and the surface designated in the written BOUNDARY_CONDITION block is checked to have the "
              "same locus as the flagged MCNP surface (after de-duplication, transformation, one-sheet cones); a cell "
              "bounded by flagged faces and its LIKE n BUT TRCL copy must give one entry per face and place. The "
              "designation clause is characterised on the model: the entries designate written surfaces exactly when "
              "every flagged surface is itself written (designates_iff_flagged_written_partial), which the code does not "
              "ensure (designation_fails_when_a_flagged_surface_is_not_written, a concrete witness = findings F2a/F2b). Open "
              "findings F2a/F2b/F22 are listed in known_findings.json."),
        design_ref='§8 C16'),
    'C07': dict(
        technique='Lean 4 proof (exhaustive case analysis over the arrangements of the listed planes by kernel evaluation; vector identities for centrally symmetric hexagons) + model↔code correspondence of the vertex traversal + Lean point monitor on hexagonal lattice decks',
        text=("Proved in Lean: for each of the eight cyclic arrangements of the six listed side planes compatible with "
              "MCNP's listing rule (per starting side; either neighbour pair, either order inside the pairs, last two "
              "planes in either order) the traversal of hexVertices returns the six vertices going round, in one "
              "direction or the other (traversal_goes_round_0/2, by kernel evaluation of the model); for any centrally "
              "symmetric hexagon — regular or not, any orientation, over any field — the vector v[0] − v[2] is the same "
              "for both directions and is the translation that maps the side opposite to the starting side onto it "
              "(base_vector_carries, hex_base_vector): a1 across the first-listed plane, a2 across the third; elements "
              "get their universes as in rectangular lattices (hex_fill_array_order, from C06). The traversal model is "
              "compared with hexVertices on constructed regular and irregular hexagons in several planes, and "
              "hexLatticeBaseVectors with the construction's translation vectors; the Lean reference semantics locates "
              "sample points in hexagonal lattice decks (six and eight planes, three axes, all orders) against the "
              "written file. The axial vector of an eight-plane prism (hexAxialVector: a vertex projected on the seventh- and "
              "eighth-listed planes along the axis) is proved to be, for parallel end planes, the multiple of the axis "
              "that carries the eighth plane onto the seventh (hex_axial_vector) and is compared with the code on "
              "constructed prisms. Not proved: the geometric adjacency test (areHexSidesAdjacent)."),
        design_ref='§8 C07'),
    'C08': dict(
        technique='Lean 4 proof (loop invariant of remove_empty_volumes, optimise invariant) + Lean reader evaluating WellFormed on the written bytes',
        text=("Proved in Lean: pot_optimise never leaves an intersection with one surface on both sides; after "
              "remove_empty_volumes (any dictionary, any queue evolution) and remove_unused_volumes no volume lists a "
              "surface on both sides. The other clauses (ids unique, references defined, declared counts, one "
              "composition per volume, COMPOSITION count, finite numbers) are evaluated by the Lean reader on the bytes "
              "of every file produced by flat / universe / lattice / coincident-surface decks under all option sets; "
              "closedness after post-processing is proved (closed_after_post: no UNION/INTE operand of the final dictionary "
              "is missing, for any dictionary with unique keys that is closed before; closed_end_to_end: the same for the "
              "dictionary the conversion loop produces, with no hypothesis left). VOLU lines: the reader used on every "
              "written file recovers from the words of VolumeT4.__str__ (model volLine, compared with the code on random "
              "volumes) exactly the sorted PLUS and MINUS sets, the operator with its operands, the FICTIVE flag and "
              "ENDV, with no complaint — declared counts equal the ids that follow, for all sets, operand lists and "
              "flags (volume_line_roundtrip), and the same starting from the text of the line, split at blanks "
              "(volume_line_text_roundtrip); a GEOMCOMP line is read back as name, count and volumes (geomcomp_line_roundtrip)."),
        design_ref='§8 C08'),
    'C11': dict(
        technique='Lean 4 proof (structural/fuel induction over expression trees; token/gap invariants through the regex passes of normalize) + model↔code correspondence + Lean spec monitor',
        text=("Proved for all expressions and all sense assignments in Lean: the PEG parser model returns, on the canonical "
              "spelling of any stratified MCNP expression, the left-associated tree of MCNP's precedence rules "
              "(parse_canonical); that tree evaluates to MCNP's reading (parsed_tree_meaning); GeomExpression.inverse "
              "negates (inverse_negates); pot_complement yields a #-free tree with MCNP's meaning, cells referring to "
              "cells to any depth (complement_elimination). The char-level model of normalize()+grammar+GeomSemantics and "
              "the pot_complement model are tied to /repo on every run by exact tree comparison on generated, exhaustive-"
              "small and malformed texts; a Boolean monitor evaluates the converter's actual trees against MCNP's reading "
              "on all 2^n assignments. Spacing: normalize() — its nine regex passes modelled character by character — is "
              "proved to map every legal layout of an expression (any run of the six ASCII blanks, possibly empty, after "
              "every token and in front; at least one blank between two literals or between #n and a literal that "
              "follow each other) to the canonical spelling (normalize_any_layout: each pass shown to rewrite only the "
              "gaps, as a function of the neighbouring tokens; subCompl shown to merge '#' with what follows); hence "
              "layout_meaning: any legal spacing is parsed to a tree with MCNP's Boolean function; and about the entry "
              "point that is compared with the code, parseGeom = get_ast (normalise, parse with the model's fuel, demand "
              "the whole text): parseGeom_any_layout / parseGeom_meaning — the fuel 3·length+3 is proved sufficient for "
              "every expression (SU.cost_le). A 'written' stream evaluates the volumes finally written for deep "
              "expressions, with surface numbers in the converter's own id range, against MCNP's reading."),
        design_ref='§8 C11'),
    'C13': dict(
        technique='Lean 4 proof (fold invariant of de-duplication, fuel induction for inlining) + model↔code correspondence + Lean point monitor under several option sets',
        text=("Proved in Lean: remove_duplicate_surfaces maps a to b only if both cards have the same definition and b "
              "is kept; renumbering preserves the denotation of every volume at every point where merged surfaces have "
              "equal sense; inlining any selection of cell references preserves the Boolean function (so the inline "
              "score and the --always-inline flags cannot change meaning); the conversion loop theorem of C01 holds for "
              "every resulting tree. Each generated deck is converted under several option sets and every output is "
              "checked point-wise against the one MCNP reference; the de-duplication/post-processing model is compared "
              "with the code. De-duplication further: every surface gets a representative "
              "(dedup_every_surface_has_representative), no two surviving surfaces have the same definition "
              "(dedup_survivors_pairwise_different), the lowest number of a group survives (dedup_lowest_number_survives)."),
        design_ref='§8 C13'),
    'C17': dict(
        technique='Lean 4 proof (decision logic stated outright on the model) + fault injection on the real converter',
        text=("Proved in Lean for the fault classes whose logic is in the model: a facet index beyond the body's facets "
              "is rejected (and the error propagates through any enclosing node), a FILL array of the wrong length is "
              "rejected, IMP cards of unequal length are rejected, a material card mixing signs is rejected, a surface card "
              "whose mnemonic is unknown or whose parameter count is not in N_PARAMS is rejected, a 13th TR entry other "
              "than 1 is rejected, a lattice whose FILL ranges do not match its dimensionality is rejected, a keyword "
              "without value and a LAT value other than 1/2 stop the run. Every fault "
              "class of the property (incl. m=-1 in TR/TRCL/FILL, --lattice errors, parameter counts of every mnemonic and "
              "macrobody, unknown mnemonics) is injected at random applicable cards of valid generated decks; the run must "
              "end with a diagnostic exception class. Fault classes not carried by a theorem are fault-enumeration only."),
        design_ref='§8 C17'),
    'C18': dict(
        technique='Lean 4 proof (permutation invariance of the sorting writers on the model) + model↔code correspondence of VolumeT4.__str__ + replay under different hash seeds and conversion histories',
        text=("Partial. The Lean model of the converter is a pure function of the deck, so model-level determinism "
              "holds by construction; what is proved is the part of the property that is logic: wherever a Python set "
              "reaches the output, the writers sort, so the text is independent of the set's enumeration order "
              "(sort_order_independent, volume_line_order_independent, surface_order_independent, for lists of any "
              "length); the VolumeT4.__str__ model is compared with the code under shuffled insertion orders. What no "
              "executable model can exhibit — CPython's set iteration under different hash seeds, module-level state "
              "surviving between conversions, the input file being written to — is probed, not proved: every "
              "generated deck is converted in fresh interpreters under PYTHONHASHSEED 0/1/4242/random and, in one "
              "interpreter, before and after 2–4 other conversions (one failing); outputs must be byte-identical "
              "apart from the header and the input file unchanged."),
        design_ref='§8 C18'),
}

NOT_YET = "check under construction (not yet registered)"


def main():
    checks = []
    for pid, c in sorted(CLAIMED.items()):
        checks.append({
            'property_id': pid,
            'quick_cmd': '/venv/bin/python -m harness.check %s --tier quick' % pid,
            'thorough_cmd': '/venv/bin/python -m harness.check %s --tier thorough' % pid,
            'evidence_file': 'evidence/%s.json' % pid,
            'replay_cmd_template': '/venv/bin/python -m harness.check %s --replay {path}' % pid,
            'engine': 'lean4-t4v',
            'level_claimed': {'category': c.get('category', 'proof'), 'text': c['text'], 'design_ref': c['design_ref']},
            'level_note': c.get('note', NOTE_COMMON),
            'technique': c['technique'],
        })
    na = [{'property_id': pid, 'reason': NOT_YET} for pid in sorted(TITLES) if pid not in CLAIMED]
    m = {
        'version': 1,
        'setup_cmd': 'cd lean && lake build',
        'hooks': {
            'guard': 'T4GC_VERIF',
            'enable': ('no source hooks are needed: the harness imports /repo\'s working tree in-process (sys.path) and wraps '
                       'functions at run time; T4GC_VERIF=1 is exported by the harness but nothing in /repo reads it'),
            'baseline_off_cmd': 'cd /repo && /venv/bin/python -m pytest -ra -q -p no:cacheprovider --timeout=900 --continue-on-collection-errors',
            'source_commits': [],
            'add_only': True,
        },
        'engines': [{'name': 'lean4-t4v', 'path': 'lean', 'serves_properties': sorted(CLAIMED),
                     'kind_free_text': 'Lean 4 model + spec + proofs (lake project T4V), native line-protocol driver, Python correspondence/monitor harness'}],
        'checks': checks,
        'notes': 'see DESIGN.md; known_findings.json lists genuine defects (open) and repaired ones (fixed: fix: commits in /repo)',
        'not_applicable': na,
    }
    json.dump(m, open(os.path.join(VERIF, 'MANIFEST.json'), 'w'), indent=1, ensure_ascii=False)
    print('claimed:', sorted(CLAIMED), 'not yet:', [x['property_id'] for x in na])


if __name__ == '__main__':
    main()
