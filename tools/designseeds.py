#!/usr/bin/env python3
"""Rewrite the table of DESIGN.md §0.7 (seeded changes: which check catches which) from seeded/REPORT.md."""
import os
import re

VERIF = os.path.dirname(os.path.dirname(os.path.abspath(__file__)))
rows = []
for line in open(os.path.join(VERIF, 'seeded', 'REPORT.md')):
    c = [x.strip() for x in line.strip().strip('|').split(' | ')]
    if len(c) == 8 and re.match(r'C\d\d-\w+$', c[0]):
        caught = c[7] if int(c[4]) > 0 else ('only as no-failing-input-found' if int(c[5]) > 0 else 'NOT REPORTED')
        rows.append('| %s | %s | %s | %s | %s |' % (c[0], c[1], c[2][:110], caught, 'yes' if int(c[6]) > 0 else ''))
p = os.path.join(VERIF, 'DESIGN.md')
s = open(p).read()
head = '| change | file | what it does (first sentence of the author\'s summary) | caught by (stream/class of the replay) | also model≠code |\n|---|---|---|---|---|\n'
i = s.index(head)
j = s.index('\n\n', i + len(head))
s = s[:i] + head + '\n'.join(rows) + s[j:]
open(p, 'w').write(s)
print(len(rows), 'rows')
