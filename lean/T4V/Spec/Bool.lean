/-!
# Cell expressions as MCNP reads them (spec side, import-free)
-/
namespace T4V

/-- a cell's geometry expression as the MCNP manual defines it -/
inductive MExpr where
  | surf (n : Nat) (facet : Option Nat) (pos : Bool)   -- `n`, `-n`, `n.k`, `-n.k`
  | cellCompl (c : Nat)                                 -- `#c`
  | compl (e : MExpr)                                   -- `#( e )`
  | inter (a b : MExpr)                                 -- blank
  | union (a b : MExpr)                                 -- `:`
deriving Repr, Inhabited, BEq

namespace MExpr

/-- Boolean function denoted by an expression, given the sense of each surface reference
(`true` = the point is on the positive side of surface `n` / facet `k`) and the truth of other cells. -/
def eval (surfPos : Nat → Option Nat → Bool) (cellIn : Nat → Bool) : MExpr → Bool
  | surf n k pos => if pos then surfPos n k else !surfPos n k
  | cellCompl c => !cellIn c
  | compl e => !eval surfPos cellIn e
  | inter a b => eval surfPos cellIn a && eval surfPos cellIn b
  | union a b => eval surfPos cellIn a || eval surfPos cellIn b

/-- three-valued version: surface senses may be unavailable (`none`) -/
def eval? (surfPos : Nat → Option Nat → Option Bool) (cellIn : Nat → Option Bool) : MExpr → Option Bool
  | surf n k pos => (surfPos n k).map fun b => if pos then b else !b
  | cellCompl c => (cellIn c).map (!·)
  | compl e => (eval? surfPos cellIn e).map (!·)
  | inter a b => do let x ← eval? surfPos cellIn a; let y ← eval? surfPos cellIn b; pure (x && y)
  | union a b => do let x ← eval? surfPos cellIn a; let y ← eval? surfPos cellIn b; pure (x || y)

/-- surface references in order of appearance (complements of cells are not entered) -/
def leaves : MExpr → List (Nat × Option Nat × Bool)
  | surf n k pos => [(n, k, pos)]
  | cellCompl _ => []
  | compl e => leaves e
  | inter a b => leaves a ++ leaves b
  | union a b => leaves a ++ leaves b

def size : MExpr → Nat
  | surf .. => 1
  | cellCompl _ => 1
  | compl e => size e + 1
  | inter a b => size a + size b + 1
  | union a b => size a + size b + 1

end MExpr
end T4V
