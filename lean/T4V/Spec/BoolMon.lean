import T4V.Spec.MCNP
import T4V.Model.Wire
/-!
# Boolean monitor (C11): MCNP's reading of every cell expression vs the tree the converter
actually produced, on all 2ⁿ sense assignments (n ≤ 12) or a pseudo-random sample beyond.
-/
namespace T4V

abbrev Atom := Nat × Option Nat

def atomsOf (cells : List (Nat × MExpr)) : List Atom :=
  (cells.flatMap fun (_, e) => e.leaves.map fun (n, k, _) => (n, k)).eraseDups

def assignOf (atoms : List Atom) (bits : Nat) : Nat → Option Nat → Bool := fun n k =>
  match atoms.findIdx? (· == (n, k)) with
  | some i => bits.testBit i
  | none => false

/-- spec: truth of cell `c` under the assignment, `#c'` read as "not in cell c'" -/
def specCell (cells : List (Nat × MExpr)) (σ : Nat → Option Nat → Bool) : Nat → Nat → Option Bool
  | 0, _ => none
  | fuel + 1, c =>
    match cells.find? (·.1 == c) with
    | none => none
    | some (_, e) => e.eval? (fun n k => some (σ n k)) (fun c' => specCell cells σ fuel c')

def lcg (s : Nat) : Nat := (s * 6364136223846793005 + 1442695040888963407) % (2 ^ 64)

/-- returns (assignments checked, first mismatch description) -/
def boolMonitor (cells : List (Nat × MExpr)) (trees : List (Nat × Geom)) (seed : Nat) :
    Nat × Option String :=
  let atoms := atomsOf cells
  let n := atoms.length
  let assignments : List Nat :=
    if n ≤ 12 then List.range (2 ^ n)
    else (List.range 4096).foldl (fun (acc : List Nat × Nat) _ =>
            let s := lcg acc.2; ((s / 8) % (2 ^ n) :: acc.1, s)) ([], seed + 1) |>.1
  let bad := assignments.findSome? fun bits =>
    let σ := assignOf atoms bits
    trees.findSome? fun (c, g) =>
      match specCell cells σ (cells.length + 2) c with
      | none => some s!"cell {c}: spec undefined (cyclic or dangling #n)"
      | some want =>
        let got := g.eval σ (fun _ => false)
        if got == want then none
        else some s!"cell {c}: assignment bits={bits} over atoms {atoms}: MCNP={want} converted={got}"
  (assignments.length, bad)

/-- `(boolmon (seed N) (cells (cell id expr)…) (trees (cell id geom)…))` -/
def runBoolMon (s : Sexp) : String :=
  let r : Option (Nat × List (Nat × MExpr) × List (Nat × Geom)) := do
    let seed ← (s.field? "seed").bind fun x => x.args.head? >>= Sexp.atom? >>= String.toNat?
    let cells ← (s.field? "cells").bind fun cs => cs.args.mapM fun c => match c with
      | .list [.atom "cell", .atom id, e] => do pure ((← id.toNat?), (← decodeExpr e))
      | _ => none
    let trees ← (s.field? "trees").bind fun cs => cs.args.mapM fun c => match c with
      | .list [.atom "cell", .atom id, g] => do pure ((← id.toNat?), (← decodeGeom g))
      | _ => none
    pure (seed, cells, trees)
  match r with
  | none => "err bad-request"
  | some (seed, cells, trees) =>
    -- the converted trees must be free of complements and cell references
    match trees.find? (fun (_, g) => !g.pure) with
    | some (c, _) => "ok mismatch " ++ hex s!"cell {c}: converted tree still contains # or a cell reference"
    | none =>
      match boolMonitor cells trees seed with
      | (n, none) => s!"ok agree assignments={n} atoms={(atomsOf cells).length}"
      | (_, some m) => "ok mismatch " ++ hex m

end T4V
