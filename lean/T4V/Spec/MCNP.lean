import T4V.Num
import T4V.Sexp
import T4V.Spec.Bool
/-!
# Reference semantics of an MCNP geometry (spec side, import-free)

Point-membership semantics written from the MCNP manual's surface table, macrobody table,
TR/TRCL/FILL/LAT rules — independently of how `t4_geom_convert` computes anything.
`locate` lists all leaves (cell of the lowest universe level) that contain a point.
Generic in the scalar type; the driver instantiates `Float`.
-/
namespace T4V

section
variable {α : Type} [Add α] [Sub α] [Mul α] [Div α] [Neg α] [OfNat α 0] [OfNat α 1]
  [LT α] [DecidableLT α] [BEq α] [Transc α]

def absv (a : α) : α := if a < 0 then -a else a
def minv (a b : α) : α := if b < a then b else a
def pos? (a : α) : Bool := decide ((0:α) < a)

/-- an MCNP coordinate transformation (12 numbers, cosines already resolved, m = 1):
`p_main = O + x'·(B1,B2,B3) + y'·(B4,B5,B6) + z'·(B7,B8,B9)` -/
structure Motion (α : Type) where
  o : V3 α
  b : M3 α
deriving Repr, Inhabited

namespace Motion
def toMainVec (t : Motion α) (q : V3 α) : V3 α := t.b.transpose.mulVec q
def toMain (t : Motion α) (q : V3 α) : V3 α := (t.toMainVec q).add t.o
/-- inverse motion (B orthogonal): auxiliary coordinates of a main-frame point -/
def toAux (t : Motion α) (p : V3 α) : V3 α := t.b.mulVec (p.sub t.o)
def ofList : List α → Option (Motion α)
  | [a, b, c, b1, b2, b3, b4, b5, b6, b7, b8, b9] =>
      some ⟨⟨a, b, c⟩, ⟨⟨b1, b2, b3⟩, ⟨b4, b5, b6⟩, ⟨b7, b8, b9⟩⟩⟩
  | _ => none
end Motion

/-- sense (true = positive) and a margin |f| telling how far the point is from the surface -/
abbrev SM (α : Type) := Bool × α

def smOf (f : α) : SM α := (pos? f, absv f)

/-- one-sheet cone: negative sense = inside the sheet on which `s·t > 0`
(`t` = signed axial coordinate from the apex, `f` the two-sheet cone function) -/
def oneSheet (f t : α) (s : α) : SM α :=
  let inside := decide (f < 0) && pos? (s * t)
  (!inside, absv f)

/-- point-defined axisymmetric surface `X a1 r1 [a2 r2]`; `ax` = axial coordinate, `rr2` = squared
distance from the axis -/
def axisym (ps : List α) (ax rr2 : α) : Option (SM α) :=
  match ps with
  | [a1, _] => some (smOf (ax - a1))
  | [a1, r1, a2, r2] =>
      if a1 == a2 then some (smOf (ax - a1))
      else if r1 == r2 then some (smOf (rr2 - sq r1))
      else
        let t := (r1 - r2) / (a1 - a2)
        let a0 := a1 - r1 / t
        let f := rr2 - sq t * sq (ax - a0)
        let s : α := if a0 < a1 then 1 else -1
        some (oneSheet f (ax - a0) s)
  | _ => none

/-- elementary surface cards: MCNP manual, table of surface cards. -/
def elemSense (mn : String) (ps : List α) (p : V3 α) : Option (SM α) :=
  let x := p.x; let y := p.y; let z := p.z
  match mn, ps with
  | "p", [a, b, c, d] => some (smOf (a * x + b * y + c * z - d))
  | "p", [x1, y1, z1, x2, y2, z2, x3, y3, z3] =>
      let p1 : V3 α := ⟨x1, y1, z1⟩
      let n := (V3.sub ⟨x2, y2, z2⟩ p1).cross (V3.sub ⟨x3, y3, z3⟩ p1)
      let d := n.dot p1
      -- orientation: origin negative; else (0,0,∞), (0,∞,0), (∞,0,0) positive
      let flip : Bool :=
        if d < 0 then true else if (0:α) < d then false
        else if n.z < 0 then true else if (0:α) < n.z then false
        else if n.y < 0 then true else if (0:α) < n.y then false
        else decide (n.x < 0)
      let f := n.dot p - d
      some (smOf (if flip then -f else f))
  | "px", [d] => some (smOf (x - d))
  | "py", [d] => some (smOf (y - d))
  | "pz", [d] => some (smOf (z - d))
  | "so", [r] => some (smOf (sq x + sq y + sq z - sq r))
  | "s", [a, b, c, r] => some (smOf (sq (x - a) + sq (y - b) + sq (z - c) - sq r))
  | "sx", [a, r] => some (smOf (sq (x - a) + sq y + sq z - sq r))
  | "sy", [b, r] => some (smOf (sq x + sq (y - b) + sq z - sq r))
  | "sz", [c, r] => some (smOf (sq x + sq y + sq (z - c) - sq r))
  | "c/x", [b, c, r] => some (smOf (sq (y - b) + sq (z - c) - sq r))
  | "c/y", [a, c, r] => some (smOf (sq (x - a) + sq (z - c) - sq r))
  | "c/z", [a, b, r] => some (smOf (sq (x - a) + sq (y - b) - sq r))
  | "cx", [r] => some (smOf (sq y + sq z - sq r))
  | "cy", [r] => some (smOf (sq x + sq z - sq r))
  | "cz", [r] => some (smOf (sq x + sq y - sq r))
  | "k/x", [a, b, c, t2] => some (smOf (sq (y - b) + sq (z - c) - t2 * sq (x - a)))
  | "k/y", [a, b, c, t2] => some (smOf (sq (x - a) + sq (z - c) - t2 * sq (y - b)))
  | "k/z", [a, b, c, t2] => some (smOf (sq (x - a) + sq (y - b) - t2 * sq (z - c)))
  | "k/x", [a, b, c, t2, s] => some (oneSheet (sq (y - b) + sq (z - c) - t2 * sq (x - a)) (x - a) s)
  | "k/y", [a, b, c, t2, s] => some (oneSheet (sq (x - a) + sq (z - c) - t2 * sq (y - b)) (y - b) s)
  | "k/z", [a, b, c, t2, s] => some (oneSheet (sq (x - a) + sq (y - b) - t2 * sq (z - c)) (z - c) s)
  | "kx", [a, t2] => some (smOf (sq y + sq z - t2 * sq (x - a)))
  | "ky", [b, t2] => some (smOf (sq x + sq z - t2 * sq (y - b)))
  | "kz", [c, t2] => some (smOf (sq x + sq y - t2 * sq (z - c)))
  | "kx", [a, t2, s] => some (oneSheet (sq y + sq z - t2 * sq (x - a)) (x - a) s)
  | "ky", [b, t2, s] => some (oneSheet (sq x + sq z - t2 * sq (y - b)) (y - b) s)
  | "kz", [c, t2, s] => some (oneSheet (sq x + sq y - t2 * sq (z - c)) (z - c) s)
  | "sq", [a, b, c, d, e, f, g, x0, y0, z0] =>
      some (smOf (a * sq (x - x0) + b * sq (y - y0) + c * sq (z - z0)
                  + two * d * (x - x0) + two * e * (y - y0) + two * f * (z - z0) + g))
  | "gq", [a, b, c, d, e, f, g, h, j, k] =>
      some (smOf (a * sq x + b * sq y + c * sq z + d * x * y + e * y * z + f * z * x
                  + g * x + h * y + j * z + k))
  | "tx", [x0, y0, z0, ra, rb, rc] =>
      some (smOf (sq (x - x0) / sq rb + sq (Transc.sqrt (sq (y - y0) + sq (z - z0)) - ra) / sq rc - 1))
  | "ty", [x0, y0, z0, ra, rb, rc] =>
      some (smOf (sq (y - y0) / sq rb + sq (Transc.sqrt (sq (x - x0) + sq (z - z0)) - ra) / sq rc - 1))
  | "tz", [x0, y0, z0, ra, rb, rc] =>
      some (smOf (sq (z - z0) / sq rb + sq (Transc.sqrt (sq (x - x0) + sq (y - y0)) - ra) / sq rc - 1))
  | "x", ps => axisym ps x (sq y + sq z)
  | "y", ps => axisym ps y (sq x + sq z)
  | "z", ps => axisym ps z (sq x + sq y)
  | _, _ => none

/-! ## Macrobodies: facets in MCNP's numbering, as implicit functions, outward side positive -/

def planeOut (n q : V3 α) : V3 α → α := fun p => n.dot (p.sub q)

/-- Rodrigues rotation of `v` about the unit vector `k` by `angle` (right-hand rule) -/
def rotateAbout (v k : V3 α) (angle : α) : V3 α :=
  let c := Transc.cos angle; let s := Transc.sin angle
  ((V3.smul c v).add (V3.smul s (k.cross v))).add (V3.smul ((1 - c) * k.dot v) k)

def unit (v : V3 α) : V3 α := V3.smul (1 / Transc.sqrt v.norm2) v

def digits (n : Nat) : List Nat :=
  let rec go : Nat → Nat → List Nat → List Nat
    | 0, _, acc => acc
    | fuel + 1, n, acc => if n == 0 then acc else go fuel (n / 10) ((n % 10) :: acc)
  go 20 n []

def bodyFacets (mn : String) (ps : List α) (toNat : α → Nat) : Option (List (V3 α → α)) :=
  match mn, ps with
  | "rpp", [x0, x1, y0, y1, z0, z1] =>
      some [fun p => p.x - x1, fun p => x0 - p.x, fun p => p.y - y1, fun p => y0 - p.y,
            fun p => p.z - z1, fun p => z0 - p.z]
  | "box", [vx, vy, vz, ax, ay, az, bx, by', bz, cx, cy, cz] =>
      let v : V3 α := ⟨vx, vy, vz⟩; let a : V3 α := ⟨ax, ay, az⟩
      let b : V3 α := ⟨bx, by', bz⟩; let c : V3 α := ⟨cx, cy, cz⟩
      some [planeOut a (v.add a), planeOut a.neg v, planeOut b (v.add b), planeOut b.neg v,
            planeOut c (v.add c), planeOut c.neg v]
  | "sph", [x, y, z, r] => some [fun p => sq (p.x - x) + sq (p.y - y) + sq (p.z - z) - sq r]
  | "rcc", [vx, vy, vz, hx, hy, hz, r] =>
      let v : V3 α := ⟨vx, vy, vz⟩; let h : V3 α := ⟨hx, hy, hz⟩
      some [fun p => let d := p.sub v; d.norm2 * h.norm2 - sq (d.dot h) - sq r * h.norm2,
            planeOut h (v.add h), planeOut h.neg v]
  | "rhp", [vx, vy, vz, hx, hy, hz, rx, ry, rz, sx, sy, sz, tx, ty, tz] =>
      let v : V3 α := ⟨vx, vy, vz⟩; let h : V3 α := ⟨hx, hy, hz⟩
      let r : V3 α := ⟨rx, ry, rz⟩; let s : V3 α := ⟨sx, sy, sz⟩; let t : V3 α := ⟨tx, ty, tz⟩
      some [planeOut r (v.add r), planeOut r.neg (v.sub r), planeOut s (v.add s), planeOut s.neg (v.sub s),
            planeOut t (v.add t), planeOut t.neg (v.sub t), planeOut h (v.add h), planeOut h.neg v]
  | "rhp", [vx, vy, vz, hx, hy, hz, rx, ry, rz] =>
      let v : V3 α := ⟨vx, vy, vz⟩; let h : V3 α := ⟨hx, hy, hz⟩
      let r : V3 α := ⟨rx, ry, rz⟩
      let third : α := Transc.pi / (1 + 1 + 1)
      let s := rotateAbout r (unit h) third
      let t := rotateAbout r (unit h) (two * third)
      some [planeOut r (v.add r), planeOut r.neg (v.sub r), planeOut s (v.add s), planeOut s.neg (v.sub s),
            planeOut t (v.add t), planeOut t.neg (v.sub t), planeOut h (v.add h), planeOut h.neg v]
  | "rec", [vx, vy, vz, hx, hy, hz, ax, ay, az, bx, by', bz] =>
      let v : V3 α := ⟨vx, vy, vz⟩; let h : V3 α := ⟨hx, hy, hz⟩
      let a : V3 α := ⟨ax, ay, az⟩; let b : V3 α := ⟨bx, by', bz⟩
      some [fun p => let d := p.sub v; sq (d.dot a) / sq a.norm2 + sq (d.dot b) / sq b.norm2 - 1,
            planeOut h (v.add h), planeOut h.neg v]
  | "rec", [vx, vy, vz, hx, hy, hz, ax, ay, az, bl] =>
      let v : V3 α := ⟨vx, vy, vz⟩; let h : V3 α := ⟨hx, hy, hz⟩
      let a : V3 α := ⟨ax, ay, az⟩
      let bdir := h.cross a
      some [fun p => let d := p.sub v; sq (d.dot a) / sq a.norm2 + sq (d.dot bdir) / (bdir.norm2 * sq bl) - 1,
            planeOut h (v.add h), planeOut h.neg v]
  | "trc", [vx, vy, vz, hx, hy, hz, r1, r2] =>
      let v : V3 α := ⟨vx, vy, vz⟩; let h : V3 α := ⟨hx, hy, hz⟩
      some [fun p =>
              let d := p.sub v
              let s := d.dot h / h.norm2            -- axial coordinate in units of |h|
              let rad := r1 + s * (r2 - r1)
              (d.norm2 - sq (d.dot h) / h.norm2) - sq rad,
            planeOut h (v.add h), planeOut h.neg v]
  | "ell", [a1, a2, a3, b1, b2, b3, rm] =>
      -- as MCNP implements it (see the converter's docstring): rm > 0: foci + major "radius";
      -- rm < 0: centre, major-axis vector, minor radius
      let (c, va, min2) :=
        if (0:α) < rm then
          let f1 : V3 α := ⟨a1, a2, a3⟩; let f2 : V3 α := ⟨b1, b2, b3⟩
          let c := V3.smul (1 / two) (f1.add f2)
          let rel := f1.sub c
          let va := V3.smul rm (unit rel)
          (c, va, sq rm - sq (rm - Transc.sqrt rel.norm2))
        else ((⟨a1, a2, a3⟩ : V3 α), (⟨b1, b2, b3⟩ : V3 α), sq rm)
      some [fun p =>
              let d := p.sub c
              let par2 := sq (d.dot va) / va.norm2     -- squared component along the major axis
              par2 / va.norm2 + (d.norm2 - par2) / min2 - 1]
  | "wed", [vx, vy, vz, ax, ay, az, bx, by', bz, hx, hy, hz] =>
      let v : V3 α := ⟨vx, vy, vz⟩; let a : V3 α := ⟨ax, ay, az⟩
      let b : V3 α := ⟨bx, by', bz⟩; let h : V3 α := ⟨hx, hy, hz⟩
      -- slanted face: contains v+a, v+b and h; outward = away from the vertex v
      let n0 := (a.sub b).cross h
      let n := if n0.dot a.neg < 0 then n0 else n0.neg     -- make n point away from v (v is at -a from v+a)
      some [planeOut n (v.add a), planeOut a.neg v, planeOut b.neg v, planeOut h (v.add h), planeOut h.neg v]
  | "arb", ps =>
      if ps.length != 30 then none else
      let vs : List (V3 α) := (List.range 8).filterMap fun i =>
        match ps.drop (3 * i) with
        | x :: y :: z :: _ => some ⟨x, y, z⟩
        | _ => none
      let descr := (ps.drop 24).map fun d => (digits (toNat d)).filter (· != 0)
      let facets := descr.filter (!·.isEmpty)
      let used := (facets.flatMap id).eraseDups.length
      let vs := vs.take used
      let n : α := vs.foldl (fun acc _ => acc + 1) 0
      let centroid := V3.smul (1 / n) (vs.foldl V3.add V3.zero)
      facets.mapM fun fc =>
        match fc with
        | i :: j :: k :: _ =>
            match vs[i - 1]?, vs[j - 1]?, vs[k - 1]? with
            | some p1, some p2, some p3 =>
                let nn := (p2.sub p1).cross (p3.sub p1)
                let g : V3 α → α := planeOut nn p1
                some (if g centroid < 0 then g else fun p => -(g p))
            | _, _, _ => none
        | _ => none
  | _, _ => none

def isMacro (mn : String) : Bool :=
  ["box", "rpp", "sph", "rcc", "rhp", "hex", "rec", "trc", "ell", "wed", "arb"].contains mn

/-! ## Decks -/

structure MSurfCard (α : Type) where
  id : Nat
  mn : String
  ps : List α
  tr : Option (Motion α) := none
  bc : String := ""
deriving Inhabited

inductive FillSpec (α : Type) where
  | none
  | one (u : Nat) (tr : Option (Motion α))
  | array (ranges : List (Int × Int)) (us : List Nat) (tr : Option (Motion α))
deriving Inhabited

structure MCell (α : Type) where
  id : Nat
  expr : MExpr
  mat : Nat := 0
  rho : Option String := none
  impNonzero : Bool := true
  univ : Nat := 0
  fill : FillSpec α := .none
  lat : Option Nat := none
  trcl : Option (Motion α) := none
deriving Inhabited

structure Deck (α : Type) where
  surfs : List (MSurfCard α) := []
  cells : List (MCell α) := []
deriving Inhabited

namespace Deck
def surf? (d : Deck α) (n : Nat) : Option (MSurfCard α) := d.surfs.find? (·.id == n)
def cell? (d : Deck α) (n : Nat) : Option (MCell α) := d.cells.find? (·.id == n)
end Deck

variable (toNat : α → Nat)

/-- sense of a reference to surface `n` (facet `k`) at the main-frame point `p` -/
def cardSense (c : MSurfCard α) (k : Option Nat) (p : V3 α) : Option (SM α) :=
  let q := match c.tr with | some t => t.toAux p | none => p
  let mn := if c.mn == "hex" then "rhp" else c.mn
  if isMacro mn then do
    let gs ← bodyFacets mn c.ps toNat
    match k with
    | some i =>
        if i == 0 then none else
        let g ← gs[i - 1]?
        pure (smOf (g q))
    | none =>
        let vals := gs.map (· q)
        let m := match vals.map absv with
          | [] => (0:α)
          | v :: r => r.foldl minv v
        pure (vals.any pos?, m)
  else
    match k with
    | some _ => none
    | none => elemSense mn c.ps q

def surfSense (d : Deck α) (n : Nat) (k : Option Nat) (p : V3 α) : Option (SM α) :=
  match d.surf? n with
  | some c => cardSense toNat c k p
  | none =>
      -- implicit surface 1000*cell + surface: surface moved by the cell's TRCL
      if n < 1000 then none else do
        let cell ← d.cell? (n / 1000)
        let c ← d.surf? (n % 1000)
        let t ← cell.trcl
        cardSense toNat c k (t.toAux p)

/-- does the region of cell `c` (its own TRCL applied) contain the main-frame point `p`?
Returns membership and the smallest margin met. -/
def region (d : Deck α) : Nat → MCell α → V3 α → Option (SM α)
  | 0, _, _ => none
  | fuel + 1, c, p =>
    let q := match c.trcl with | some t => t.toAux p | none => p
    let rec ev : MExpr → Option (SM α)
      | .surf n k pos => (surfSense toNat d n k q).map fun (b, m) => (if pos then b else !b, m)
      | .cellCompl n => do
          let c' ← d.cell? n
          let (b, m) ← region d fuel c' p
          pure (!b, m)
      | .compl e => (ev e).map fun (b, m) => (!b, m)
      | .inter a b => do let (x, m) ← ev a; let (y, m') ← ev b; pure (x && y, minv m m')
      | .union a b => do let (x, m) ← ev a; let (y, m') ← ev b; pure (x || y, minv m m')
    ev c.expr

/-! ### Lattices -/

/-- the planes of a unit cell in card order, each as (point, normal), in the cell's own
(untransformed) frame; only plane-type references are admissible -/
def planeOfCard (c : MSurfCard α) (k : Option Nat) : Option (List (V3 α × V3 α)) :=
  let mv (pn : V3 α × V3 α) : V3 α × V3 α :=
    match c.tr with | some t => (t.toMain pn.1, t.toMainVec pn.2) | none => pn
  let mn := if c.mn == "hex" then "rhp" else c.mn
  let elem : Option (V3 α × V3 α) :=
    match mn, c.ps with
    | "px", [a] => some (⟨a, 0, 0⟩, ⟨1, 0, 0⟩)
    | "py", [a] => some (⟨0, a, 0⟩, ⟨0, 1, 0⟩)
    | "pz", [a] => some (⟨0, 0, a⟩, ⟨0, 0, 1⟩)
    | "p", [a, b, cc, dd] =>
        let n : V3 α := ⟨a, b, cc⟩
        some (V3.smul (dd / n.norm2) n, n)
    | "p", [x1, y1, z1, x2, y2, z2, x3, y3, z3] =>
        let p1 : V3 α := ⟨x1, y1, z1⟩
        some (p1, (V3.sub ⟨x2, y2, z2⟩ p1).cross (V3.sub ⟨x3, y3, z3⟩ p1))
    | _, _ => none
  let macroPlanes : Option (List (V3 α × V3 α)) :=
    match mn, c.ps with
    | "rpp", [x0, x1, y0, y1, z0, z1] =>
        some [(⟨x1, 0, 0⟩, ⟨1, 0, 0⟩), (⟨x0, 0, 0⟩, ⟨1, 0, 0⟩), (⟨0, y1, 0⟩, ⟨0, 1, 0⟩),
              (⟨0, y0, 0⟩, ⟨0, 1, 0⟩), (⟨0, 0, z1⟩, ⟨0, 0, 1⟩), (⟨0, 0, z0⟩, ⟨0, 0, 1⟩)]
    | "box", [vx, vy, vz, ax, ay, az, bx, by', bz, cx, cy, cz] =>
        let v : V3 α := ⟨vx, vy, vz⟩; let a : V3 α := ⟨ax, ay, az⟩
        let b : V3 α := ⟨bx, by', bz⟩; let c' : V3 α := ⟨cx, cy, cz⟩
        some [(v.add a, a), (v, a), (v.add b, b), (v, b), (v.add c', c'), (v, c')]
    | "rhp", [vx, vy, vz, hx, hy, hz, rx, ry, rz, sx, sy, sz, tx, ty, tz] =>
        let v : V3 α := ⟨vx, vy, vz⟩; let h : V3 α := ⟨hx, hy, hz⟩
        let r : V3 α := ⟨rx, ry, rz⟩; let s : V3 α := ⟨sx, sy, sz⟩; let t : V3 α := ⟨tx, ty, tz⟩
        some [(v.add r, r), (v.sub r, r), (v.add s, s), (v.sub s, s), (v.add t, t), (v.sub t, t),
              (v.add h, h), (v, h)]
    | "rhp", [vx, vy, vz, hx, hy, hz, rx, ry, rz] =>
        let v : V3 α := ⟨vx, vy, vz⟩; let h : V3 α := ⟨hx, hy, hz⟩
        let r : V3 α := ⟨rx, ry, rz⟩
        let third : α := Transc.pi / (1 + 1 + 1)
        let s := rotateAbout r (unit h) third
        let t := rotateAbout r (unit h) (two * third)
        some [(v.add r, r), (v.sub r, r), (v.add s, s), (v.sub s, s), (v.add t, t), (v.sub t, t),
              (v.add h, h), (v, h)]
    | _, _ => none
  if isMacro mn then do
    let ps ← macroPlanes
    match k with
    | none => pure (ps.map mv)
    | some i => if i == 0 then none else do let x ← ps[i - 1]?; pure [mv x]
  else elem.map fun e => [mv e]

def cellPlanes (d : Deck α) (c : MCell α) : Option (List (V3 α × V3 α)) := do
  let ls ← c.expr.leaves.mapM fun (n, k, _) => do
    let card ← d.surf? n
    planeOfCard card k
  pure (ls.flatMap id)

/-- solve `G c = e` for a symmetric Gram matrix of size ≤ 3 by Cramer's rule -/
def det2 (a b c d : α) : α := a * d - b * c
def det3 (m : M3 α) : α := m.r1.dot (m.r2.cross m.r3)

/-- rectangular lattice vectors from pairs of parallel planes `(P_k, Q_k)` listed in card order:
`a_k ∈ span(n_1..n_d)`, `n_j · a_k = 0 (j ≠ k)`, `n_k · a_k = n_k · (x_{P_k} − x_{Q_k})`
(the translation that carries `Q_k` onto `P_k`: index `k` increases across the first-listed plane). -/
def rectVectors (planes : List (V3 α × V3 α)) : Option (List (V3 α)) :=
  match planes with
  | [(p1, n1), (q1, _)] =>
      let w := n1.dot (p1.sub q1)
      some [V3.smul (w / n1.norm2) n1]
  | [(p1, n1), (q1, _), (p2, n2), (q2, _)] =>
      let w1 := n1.dot (p1.sub q1); let w2 := n2.dot (p2.sub q2)
      let g11 := n1.norm2; let g12 := n1.dot n2; let g22 := n2.norm2
      let dd := det2 g11 g12 g12 g22
      -- a1 = c1 n1 + c2 n2 with G c = (w1, 0)
      let a1 := (V3.smul (w1 * g22 / dd) n1).add (V3.smul (-(w1 * g12) / dd) n2)
      let a2 := (V3.smul (-(w2 * g12) / dd) n1).add (V3.smul (w2 * g11 / dd) n2)
      some [a1, a2]
  | [(p1, n1), (q1, _), (p2, n2), (q2, _), (p3, n3), (q3, _)] =>
      let w1 := n1.dot (p1.sub q1); let w2 := n2.dot (p2.sub q2); let w3 := n3.dot (p3.sub q3)
      -- three independent normals: a_k = w_k (n_i × n_j) / (n_k · (n_i × n_j))
      let c23 := n2.cross n3; let c31 := n3.cross n1; let c12 := n1.cross n2
      some [V3.smul (w1 / n1.dot c23) c23, V3.smul (w2 / n2.dot c31) c31, V3.smul (w3 / n3.dot c12) c12]
  | _ => none

/-- midpoint of the side of the hexagon lying on plane `i` (cross-section through `x0` normal to
`axis`), found by clipping the line `plane_i ∩ cross-section` against the four non-parallel sides -/
def hexSideMid (planes : List (V3 α × V3 α)) (inside : V3 α) (axis : V3 α) (i : Nat) : Option (V3 α) := do
  let (pi_, ni) ← planes[i]?
  let dir := axis.cross ni                       -- direction of the side
  -- a point of plane i in the cross-section through `inside`
  let base := inside.add (V3.smul (ni.dot (pi_.sub inside) / ni.norm2) ni)
  let others := (List.range 6).filter fun j => j / 2 != i / 2
  let init : Option α × Option α := (none, none)
  let (lo, hi) ← others.foldlM (fun (acc : Option α × Option α) j => do
      let (pj, nj) ← planes[j]?
      -- interior side of plane j is where `inside` lies
      let sgn : α := if nj.dot (inside.sub pj) < 0 then 1 else -1
      let nj' := V3.smul sgn nj                  -- now interior: nj'·(x − pj) < 0
      let den := nj'.dot dir
      let t := nj'.dot (pj.sub base) / den       -- parameter where the line meets plane j
      if (0:α) < den then
        pure (acc.1, some (match acc.2 with | none => t | some h => minv h t))
      else
        pure (some (match acc.1 with | none => t | some l => if l < t then t else l), acc.2)) init
  let l ← lo; let h ← hi
  pure (base.add (V3.smul ((l + h) / two) dir))

/-- hexagonal lattice vectors: `a1` across the first-listed plane, `a2` across the third-listed,
`a3` (8 planes) across the seventh -/
def hexVectors (planes : List (V3 α × V3 α)) (inside : V3 α) : Option (List (V3 α)) := do
  let (_, n1) ← planes[0]?
  let (_, n3) ← planes[2]?
  let axis := n1.cross n3
  let m0 ← hexSideMid planes inside axis 0
  let m1 ← hexSideMid planes inside axis 1
  let m2 ← hexSideMid planes inside axis 2
  let m3 ← hexSideMid planes inside axis 3
  let a1 := m0.sub m1
  let a2 := m2.sub m3
  if planes.length == 8 then do
    let (p7, n7) ← planes[6]?
    let (p8, _) ← planes[7]?
    -- axial vector carrying plane 8 onto plane 7
    let a3 := V3.smul (n7.dot (p7.sub p8) / n7.dot axis) axis
    pure [a1, a2, a3]
  else pure [a1, a2]

/-- all index tuples of the declared ranges, first index fastest -/
def indexBox : List (Int × Int) → List (List Int)
  | [] => [[]]
  | (lo, hi) :: rest =>
      let inner := indexBox rest
      inner.flatMap fun tl => (List.range (hi - lo + 1).toNat).map fun (i : Nat) => (lo + Int.ofNat i) :: tl

def ofInt (i : Int) : α :=
  let n : α := (List.range i.natAbs).foldl (fun acc _ => acc + 1) 0
  if i < 0 then -n else n

def latShift (vecs : List (V3 α)) (idx : List Int) : V3 α :=
  (idx.zip vecs).foldl (fun acc (i, v) => acc.add (V3.smul (ofInt i) v)) V3.zero

/-! ### Locating a point -/

structure Leaf where
  /-- the cell of the lowest level that owns the point (0: a generated lattice element) -/
  cell : Nat
  /-- (filler, container) pairs, innermost first; generated containers are 0 -/
  chain : List (Nat × Nat)
  mat : Nat
  rho : Option String
  impNonzero : Bool
deriving Repr, Inhabited, BEq

/-- unit-cell interior point for the hexagon clipping: average of the plane base points -/
def avgPoint (ps : List (V3 α)) : V3 α :=
  let n : α := ps.foldl (fun acc _ => acc + 1) 0
  V3.smul (1 / n) (ps.foldl V3.add V3.zero)

def latVectors (d : Deck α) (c : MCell α) : Option (List (V3 α)) := do
  let planes ← cellPlanes d c
  let vs ← match c.lat with
    | some 1 => rectVectors planes
    | some 2 => hexVectors planes (avgPoint ((planes.take 6).map (·.1)))
    | _ => none
  -- the cell's TRCL moves the unit cell; vectors turn with it
  pure (match c.trcl with | some t => vs.map t.toMainVec | none => vs)

/-- all leaves containing `p` (coordinates of universe `u`'s frame), with the smallest margin -/
def locateIn (d : Deck α) : Nat → Nat → V3 α → List Nat → Bool → Option (List Leaf × Option α)
  | 0, _, _, _, _ => none
  | fuel + 1, u, p, ctx, impNZ =>
    (d.cells.filter (·.univ == u)).foldlM (fun (acc : List Leaf × Option α) c => do
      let mm (m : α) (o : Option α) : Option α := some (match o with | none => m | some x => minv x m)
      let imp := if ctx.isEmpty then c.impNonzero else impNZ
      let mkChain (leaf : Nat) (ctx : List Nat) : List (Nat × Nat) := ctx.map fun k => (leaf, k)
      match c.lat with
      | none =>
        let (inside, m) ← region toNat d (d.cells.length + 2) c p
        let acc := (acc.1, mm m acc.2)
        if !inside then pure acc else
        match c.fill with
        | .none => pure (acc.1 ++ [{ cell := c.id, chain := mkChain c.id ctx, mat := c.mat, rho := c.rho, impNonzero := imp }], acc.2)
        | .one v tr =>
            let q := match tr with
              | some t => t.toAux p
              | none => match c.trcl with | some t => t.toAux p | none => p
            let (ls, m') ← locateIn d fuel v q (c.id :: ctx) imp
            pure (acc.1 ++ ls, match m' with | some x => mm x acc.2 | none => acc.2)
        | .array .. => none
      | some _ =>
        let vecs ← latVectors d c
        let (ranges, us, tr) ← match c.fill with
          | .array r us t => some (r, us, t)
          | _ => none
        let idxs := indexBox ranges
        if idxs.length != us.length then none else
        (idxs.zip us).foldlM (fun (acc : List Leaf × Option α) (idx, v) => do
          let shift := latShift vecs idx
          let pe := p.sub shift
          let (inside, m) ← region toNat d (d.cells.length + 2) c pe
          let acc := (acc.1, mm m acc.2)
          if !inside || v == 0 then pure acc
          else if v == c.univ then
            pure (acc.1 ++ [{ cell := 0, chain := mkChain 0 ctx, mat := c.mat, rho := c.rho, impNonzero := imp }], acc.2)
          else
            let q := match tr with
              | some t => t.toAux pe
              | none => match c.trcl with | some t => t.toAux pe | none => pe
            let (ls, m') ← locateIn d fuel v q (0 :: ctx) imp
            pure (acc.1 ++ ls, match m' with | some x => mm x acc.2 | none => acc.2)) acc)
      ([], none)

def locate (d : Deck α) (p : V3 α) : Option (List Leaf × Option α) :=
  locateIn toNat d (d.cells.length + 2) 0 p [] true

end

/-! ## Decoding decks from S-expressions (Float) -/

def sexpFloats (s : Sexp) : Option (List Float) := s.args.mapM fun a => a.atom? >>= parseFloat?

partial def decodeExpr : Sexp → Option MExpr
  | .list [.atom "s", .atom n] => do
      let i ← n.toInt?
      pure (.surf i.natAbs none (!n.startsWith "-"))
  | .list [.atom "f", .atom n, .atom k] => do
      let i ← n.toInt?
      let kk ← k.toNat?
      pure (.surf i.natAbs (some kk) (!n.startsWith "-"))
  | .list [.atom "cc", .atom n] => do pure (.cellCompl (← n.toNat?))
  | .list [.atom "c", e] => do pure (.compl (← decodeExpr e))
  | .list [.atom "i", a, b] => do pure (.inter (← decodeExpr a) (← decodeExpr b))
  | .list [.atom "u", a, b] => do pure (.union (← decodeExpr a) (← decodeExpr b))
  | _ => none

def decodeMotion (s : Sexp) : Option (Motion Float) := do
  let xs ← sexpFloats s
  Motion.ofList xs

def decodeSurf (s : Sexp) : Option (MSurfCard Float) := do
  match s with
  | .list (.atom "surf" :: .atom id :: .atom mn :: rest) =>
      let r : Sexp := .list rest
      let ps ← (r.field? "ps") >>= sexpFloats
      let tr ← match r.field? "tr" with
        | none => some none
        | some t => (decodeMotion t).map some
      let bc := match r.field? "bc" with
        | some (.list [_, .atom b]) => b
        | _ => ""
      pure { id := ← id.toNat?, mn, ps, tr, bc }
  | _ => none

def decodeCell (s : Sexp) : Option (MCell Float) := do
  match s with
  | .list (.atom "cell" :: .atom id :: rest) =>
      let r : Sexp := .list rest
      let expr ← match r.field? "geom" with
        | some (.list [_, e]) => decodeExpr e
        | _ => none
      let (mat, rho) ← match r.field? "mat" with
        | some (.list [_, .atom m, .atom rh]) => do
            let mm ← m.toNat?
            pure (mm, if rh == "void" then none else some rh)
        | _ => some (0, none)
      let imp := match r.field? "imp" with
        | some (.list [_, .atom "0"]) => false
        | _ => true
      let univ := match r.field? "u" with
        | some (.list [_, .atom u]) => u.toNat?.getD 0
        | _ => 0
      let trcl ← match r.field? "trcl" with
        | none => some none
        | some t => (decodeMotion t).map some
      let lat := match r.field? "lat" with
        | some (.list [_, .atom l]) => l.toNat?
        | _ => none
      let fill ← match r.field? "fill" with
        | none => some FillSpec.none
        | some f =>
            let tr ← match f.field? "tr" with
              | none => some none
              | some t => (decodeMotion t).map some
            match f.field? "ranges" with
            | some rs => do
                let ranges ← rs.args.mapM fun x => match x with
                  | .list [.atom a, .atom b] => do pure ((← a.toInt?), (← b.toInt?))
                  | _ => none
                let us ← (f.field? "us") >>= fun u => u.args.mapM fun a => a.atom? >>= String.toNat?
                pure (FillSpec.array ranges us tr)
            | none =>
                match f.args with
                | .atom u :: _ => do pure (FillSpec.one (← u.toNat?) tr)
                | _ => none
      pure { id := ← id.toNat?, expr, mat, rho, impNonzero := imp, univ, fill, lat, trcl }
  | _ => none

def decodeDeck (s : Sexp) : Option (Deck Float) := do
  let surfs ← (s.fields "surf").mapM decodeSurf
  let cells ← (s.fields "cell").mapM decodeCell
  pure { surfs, cells }

end T4V
