import T4V.Num
import T4V.Sexp
import T4V.Text.OptTokens
/-!
# Reference semantics of a TRIPOLI-4 geometry file (spec side, import-free)

* implicit functions of the TRIPOLI-4 surface catalogue (`TSurf.f`), `f > 0` = PLUS side;
* Boolean semantics of `VOLU` lines (`member`, fuel-indexed), `owners`;
* a reader for the text that `t4_geom_convert` writes, keeping declared counts so that the
  structural predicate `wellFormed` (property C08) is evaluated on the bytes.
Everything numeric is generic in the scalar type.
-/
namespace T4V

inductive TKind
  | planex | planey | planez | plane | sphere | cylx | cyly | cylz | cyl
  | conex | coney | conez | cone | quad | torusx | torusy | torusz
deriving Repr, DecidableEq, Inhabited

def TKind.ofString? : String → Option TKind
  | "PLANEX" => some .planex | "PLANEY" => some .planey | "PLANEZ" => some .planez
  | "PLANE" => some .plane | "SPHERE" => some .sphere
  | "CYLX" => some .cylx | "CYLY" => some .cyly | "CYLZ" => some .cylz | "CYL" => some .cyl
  | "CONEX" => some .conex | "CONEY" => some .coney | "CONEZ" => some .conez | "CONE" => some .cone
  | "QUAD" => some .quad
  | "TORUSX" => some .torusx | "TORUSY" => some .torusy | "TORUSZ" => some .torusz
  | _ => none

def TKind.toString : TKind → String
  | .planex => "PLANEX" | .planey => "PLANEY" | .planez => "PLANEZ" | .plane => "PLANE"
  | .sphere => "SPHERE" | .cylx => "CYLX" | .cyly => "CYLY" | .cylz => "CYLZ" | .cyl => "CYL"
  | .conex => "CONEX" | .coney => "CONEY" | .conez => "CONEZ" | .cone => "CONE" | .quad => "QUAD"
  | .torusx => "TORUSX" | .torusy => "TORUSY" | .torusz => "TORUSZ"

/-- number of parameters TRIPOLI-4 expects after the keyword -/
def TKind.arity : TKind → Nat
  | .planex | .planey | .planez => 1
  | .plane | .sphere => 4
  | .cylx | .cyly | .cylz => 3
  | .cyl => 7
  | .conex | .coney | .conez => 4
  | .cone => 7
  | .quad => 10
  | .torusx | .torusy | .torusz => 6

/-- a TRIPOLI-4 surface: keyword, parameters, optional `TRANSFORM` (translation, matrix) with
`x_global = M · x_local + t` -/
structure TSurf (α : Type) where
  kind : TKind
  ps : List α
  tr : Option (V3 α × M3 α) := none
deriving Repr, Inhabited

section
variable {α : Type} [Add α] [Sub α] [Mul α] [Div α] [Neg α] [OfNat α 0] [OfNat α 1] [Transc α]

/-- squared distance of `d` from the line through 0 with direction `u`, times `|u|²` -/
def perp2 (d u : V3 α) : α := d.norm2 * u.norm2 - sq (d.dot u)

/-- implicit function in the surface's local frame; `none` when the parameter count is wrong -/
def TSurf.fLocal (k : TKind) (ps : List α) (q : V3 α) : Option α :=
  match k, ps with
  | .planex, [a] => some (q.x - a)
  | .planey, [a] => some (q.y - a)
  | .planez, [a] => some (q.z - a)
  | .plane, [a, b, c, d] => some (a * q.x + b * q.y + c * q.z + d)
  | .sphere, [x, y, z, r] => some (sq (q.x - x) + sq (q.y - y) + sq (q.z - z) - sq r)
  | .cylx, [y, z, r] => some (sq (q.y - y) + sq (q.z - z) - sq r)
  | .cyly, [x, z, r] => some (sq (q.x - x) + sq (q.z - z) - sq r)
  | .cylz, [x, y, r] => some (sq (q.x - x) + sq (q.y - y) - sq r)
  | .cyl, [x, y, z, r, ux, uy, uz] =>
      let u : V3 α := ⟨ux, uy, uz⟩
      some (perp2 (q.sub ⟨x, y, z⟩) u - sq r * u.norm2)
  | .conex, [x, y, z, th] =>
      let t := Transc.tan (th * Transc.pi / (((1:α)+1+1) * ((1+1+1) * (1+1)) * ((1+1+1+1+1) * (1+1))))
      some (sq (q.y - y) + sq (q.z - z) - sq t * sq (q.x - x))
  | .coney, [x, y, z, th] =>
      let t := Transc.tan (th * Transc.pi / (((1:α)+1+1) * ((1+1+1) * (1+1)) * ((1+1+1+1+1) * (1+1))))
      some (sq (q.x - x) + sq (q.z - z) - sq t * sq (q.y - y))
  | .conez, [x, y, z, th] =>
      let t := Transc.tan (th * Transc.pi / (((1:α)+1+1) * ((1+1+1) * (1+1)) * ((1+1+1+1+1) * (1+1))))
      some (sq (q.x - x) + sq (q.y - y) - sq t * sq (q.z - z))
  | .cone, [x, y, z, th, ux, uy, uz] =>
      let t := Transc.tan (th * Transc.pi / (((1:α)+1+1) * ((1+1+1) * (1+1)) * ((1+1+1+1+1) * (1+1))))
      let u : V3 α := ⟨ux, uy, uz⟩
      let d := q.sub ⟨x, y, z⟩
      -- |d⊥|² − t² (d·û)², multiplied by |u|²
      some (perp2 d u - sq t * sq (d.dot u))
  | .quad, [a, b, c, d, e, f, g, h, j, k] =>
      some (a * sq q.x + b * sq q.y + c * sq q.z + d * q.x * q.y + e * q.y * q.z + f * q.z * q.x
            + g * q.x + h * q.y + j * q.z + k)
  | .torusx, [x, y, z, ra, rb, rc] =>
      let rho := Transc.sqrt (sq (q.y - y) + sq (q.z - z))
      some (sq (q.x - x) / sq rb + sq (rho - ra) / sq rc - 1)
  | .torusy, [x, y, z, ra, rb, rc] =>
      let rho := Transc.sqrt (sq (q.x - x) + sq (q.z - z))
      some (sq (q.y - y) / sq rb + sq (rho - ra) / sq rc - 1)
  | .torusz, [x, y, z, ra, rb, rc] =>
      let rho := Transc.sqrt (sq (q.x - x) + sq (q.y - y))
      some (sq (q.z - z) / sq rb + sq (rho - ra) / sq rc - 1)
  | _, _ => none

/-- implicit function at a point given in the global frame -/
def TSurf.f (s : TSurf α) (p : V3 α) : Option α :=
  match s.tr with
  | none => TSurf.fLocal s.kind s.ps p
  | some (t, m) => TSurf.fLocal s.kind s.ps (m.transpose.mulVec (p.sub t))
end

/-! ## File structure -/

inductive OpKind | union | inte deriving Repr, DecidableEq, Inhabited

structure TVol where
  id : Nat
  pluses : List Nat
  minuses : List Nat
  op : Option (OpKind × List Nat) := none
  fictive : Bool := false
  /-- provenance comment: list of (filler, container) pairs -/
  origin : List (Nat × Nat) := []
deriving Repr, Inhabited

structure TComp where
  kind : String          -- DENSITY | POINT_WISE
  name : String
  density : Option String
  nbAtom : Bool
  nuclides : List (String × String)
deriving Repr, Inhabited

structure T4File (α : Type) where
  surfs : List (Nat × TSurf α) := []
  vols : List TVol := []
  compDeclared : Option Nat := none
  comps : List TComp := []
  hasGeomcomp : Bool := false
  geomcomp : List (String × Nat × List Nat) := []   -- name, declared count, ids
  bcDeclared : Option Nat := none
  bcs : List (String × Nat) := []                   -- kind, surface id
  /-- structural problems met while reading (bad tokens, count mismatches, non-finite numbers…) -/
  errors : List String := []
deriving Inhabited

/-! ## Volume semantics -/

abbrev SenseFn := Nat → Option Bool     -- sense of surface `n` at the point under study (true = PLUS side)

def equaT (σ : SenseFn) (v : TVol) : Option Bool := do
  let ps ← v.pluses.mapM σ
  let ms ← v.minuses.mapM σ
  pure (ps.all id && ms.all (fun b => !b))

def findVol (vols : List TVol) (k : Nat) : Option TVol := vols.find? (·.id == k)

/-- does volume `k` contain the point whose surface senses are `σ`? (`none`: dangling reference,
wrong arity, or out of fuel) -/
def member (vols : List TVol) (σ : SenseFn) : Nat → Nat → Option Bool
  | 0, _ => none
  | fuel + 1, k => do
    let v ← findVol vols k
    let e ← equaT σ v
    match v.op with
    | none => pure e
    | some (.union, ids) =>
        let bs ← ids.mapM (member vols σ fuel)
        pure (e || bs.any id)
    | some (.inte, ids) =>
        let bs ← ids.mapM (member vols σ fuel)
        pure (e && bs.all id)

section
variable {α : Type} [Add α] [Sub α] [Mul α] [Div α] [Neg α] [OfNat α 0] [OfNat α 1] [Transc α]
  [LT α] [DecidableLT α]

def T4File.sense (f : T4File α) (p : V3 α) : SenseFn := fun n =>
  match f.surfs.find? (·.1 == n) with
  | none => none
  | some (_, s) => (s.f p).map fun v => decide ((0:α) < v)

/-- non-virtual volumes that contain `p` -/
def T4File.owners (f : T4File α) (p : V3 α) : List TVol :=
  let σ := f.sense p
  f.vols.filter fun v => !v.fictive && member f.vols σ (f.vols.length + 1) v.id == some true

/-- volumes whose membership could not be evaluated (dangling references etc.) -/
def T4File.undecided (f : T4File α) (p : V3 α) : List Nat :=
  let σ := f.sense p
  (f.vols.filter fun v => !v.fictive && (member f.vols σ (f.vols.length + 1) v.id).isNone).map (·.id)
end

/-! ## Structural validity (C08) -/

def dupFree : List Nat → Bool
  | [] => true
  | a :: r => !r.contains a && dupFree r

structure WFReport where
  dupSurf : List Nat := []
  dupVol : List Nat := []
  undefinedSurfRefs : List (Nat × Nat) := []     -- (volume, surface)
  undefinedVolRefs : List (Nat × Nat) := []      -- (volume, operand)
  bothSides : List (Nat × Nat) := []             -- (volume, surface)
  geomcompUndefined : List (String × Nat) := []
  geomcompCount : List String := []
  unassigned : List Nat := []                    -- non-virtual volumes in ≠ 1 composition
  compUndefined : List String := []              -- GEOMCOMP names without COMPOSITION entry
  compCountBad : Bool := false
  bcUndefined : List Nat := []
  bcCountBad : Bool := false
  readErrors : List String := []
deriving Repr, Inhabited

def dups (l : List Nat) : List Nat :=
  (l.filter fun a => (l.filter (· == a)).length > 1).eraseDups

def T4File.report {α} (f : T4File α) : WFReport :=
  let sids := f.surfs.map (·.1)
  let vids := f.vols.map (·.id)
  let realVols := (f.vols.filter (!·.fictive)).map (·.id)
  let gcIds := f.geomcomp.flatMap (·.2.2)
  { dupSurf := dups sids
    dupVol := dups vids
    undefinedSurfRefs := f.vols.flatMap fun v =>
      ((v.pluses ++ v.minuses).filter (!sids.contains ·)).map (v.id, ·)
    undefinedVolRefs := f.vols.flatMap fun v =>
      match v.op with
      | none => []
      | some (_, ids) => (ids.filter (!vids.contains ·)).map (v.id, ·)
    bothSides := f.vols.flatMap fun v => (v.pluses.filter (v.minuses.contains ·)).map (v.id, ·)
    geomcompUndefined := f.geomcomp.flatMap fun (n, _, ids) => (ids.filter (!realVols.contains ·)).map (n, ·)
    geomcompCount := (f.geomcomp.filter fun (_, c, ids) => c != ids.length).map (·.1)
    unassigned := if f.hasGeomcomp then realVols.filter fun k => (gcIds.filter (· == k)).length != 1 else []
    compUndefined :=
      if f.compDeclared.isSome then
        (f.geomcomp.map (·.1)).filter fun n => !(f.comps.map (·.name)).contains n
      else []
    compCountBad := match f.compDeclared with
      | none => false
      | some n => n != f.comps.length || !dupFree (f.comps.map fun c => c.name.hash.toNat)
    bcUndefined := (f.bcs.map (·.2)).filter (!sids.contains ·)
    bcCountBad := match f.bcDeclared with | none => false | some n => n != f.bcs.length
    readErrors := f.errors }

def WFReport.ok (r : WFReport) : Bool :=
  r.dupSurf.isEmpty && r.dupVol.isEmpty && r.undefinedSurfRefs.isEmpty && r.undefinedVolRefs.isEmpty
  && r.bothSides.isEmpty && r.geomcompUndefined.isEmpty && r.geomcompCount.isEmpty
  && r.unassigned.isEmpty && r.compUndefined.isEmpty && !r.compCountBad && r.bcUndefined.isEmpty
  && !r.bcCountBad && r.readErrors.isEmpty

def T4File.wellFormed {α} (f : T4File α) : Bool := f.report.ok

/-! ## Reader for the emitted text (Float instance) -/

/-- the blank-separated words of a line (the six ASCII blanks; `T4V.CC.splitWs`) -/
def words (s : String) : List String := (CC.splitWs s.toList).map String.ofList

def isKw (t : String) : Bool :=
  t == "PLUS" || t == "MINUS" || t == "UNION" || t == "INTE" || t == "FICTIVE" || t == "ENDV"

/-- read `n item…` up to the next keyword; returns (declared, items, rest) -/
def readCounted (ts : List String) : Option Nat × List String × List String :=
  match ts with
  | [] => (none, [], [])
  | n :: r => (n.toNat?, r.takeWhile (!isKw ·), r.dropWhile (!isKw ·))

/-- what the reader finds between `EQUA` and the end of a `VOLU` line (pure; property C08 proves that it
recovers exactly what `VolumeT4.__str__` was given) -/
structure VBody where
  pluses : List Nat := []
  minuses : List Nat := []
  op : Option (OpKind × List Nat) := none
  fictive : Bool := false
  ended : Bool := false
  errs : List String := []
deriving Repr, DecidableEq, Inhabited

/-- the ids among `items`, and one message per item that is not a natural number -/
def natItems (ctx : String) (items : List String) : List Nat × List String :=
  (items.filterMap (·.toNat?),
   (items.filter (·.toNat?.isNone)).map fun t => s!"bad id '{t}' in {ctx}")

def countErr (ctx kw : String) (d : Option Nat) (n : Nat) : List String :=
  if d != some n then [s!"{ctx}: {kw} count {d} ≠ {n}"] else []

/-- the body of a `VOLU` line, keyword by keyword; `fuel` ≥ number of tokens suffices -/
def readBody (ctx : String) : Nat → List String → VBody → VBody
  | 0, _, b => b
  | _ + 1, [], b => b
  | fuel + 1, t :: r, b =>
    if t == "PLUS" then
      let (d, items, rest) := readCounted r
      let (xs, es) := natItems ctx items
      readBody ctx fuel rest { b with pluses := b.pluses ++ xs, errs := b.errs ++ es ++ countErr ctx "PLUS" d items.length }
    else if t == "MINUS" then
      let (d, items, rest) := readCounted r
      let (xs, es) := natItems ctx items
      readBody ctx fuel rest { b with minuses := b.minuses ++ xs, errs := b.errs ++ es ++ countErr ctx "MINUS" d items.length }
    else if t == "UNION" || t == "INTE" then
      let (d, items, rest) := readCounted r
      let (xs, es) := natItems ctx items
      readBody ctx fuel rest
        { b with op := some (if t == "UNION" then .union else .inte, xs),
                 errs := b.errs ++ es ++ countErr ctx t d items.length
                           ++ (if b.op.isSome then [s!"{ctx}: two operators"] else []) }
    else if t == "FICTIVE" then readBody ctx fuel r { b with fictive := true }
    else if t == "ENDV" then
      { b with ended := true, errs := b.errs ++ (if !r.isEmpty then [s!"{ctx}: tokens after ENDV"] else []) }
    else readBody ctx fuel r { b with errs := b.errs ++ [s!"{ctx}: unexpected token '{t}'"] }

private def parsePairs (c : String) : List (Nat × Nat) :=
  -- "(5518, 6321); (33, 1)"  → [(5518,6321),(33,1)]; anything else is ignored
  (c.splitOn ";").filterMap fun part =>
    let t := part.trimAscii.toString
    if t.startsWith "(" && t.endsWith ")" then
      match ((t.drop 1).dropEnd 1).toString.splitOn "," with
      | [a, b] => match a.trimAscii.toString.toNat?, b.trimAscii.toString.toNat? with
        | some x, some y => some (x, y)
        | _, _ => none
      | _ => none
    else none

private def finite (x : Float) : Bool := !x.isNaN && !x.isInf

/-- a line of the GEOMCOMP block, `name count id …`: the entry (name, declared count, ids) and the complaints (pure;
property C08 proves that it recovers what `writeT4GeomComp` was given) -/
def gcLine (name cnt : String) (ids : List String) : Option (String × Nat × List Nat) × List String :=
  let (xs, es) := natItems s!"GEOMCOMP {name}" ids
  match cnt.toNat? with
  | some c => (some (name, c, xs), es)
  | none => (none, es ++ [s!"GEOMCOMP {name}: bad count"])

structure RState where
  file : T4File Float := {}
  pendingTr : List (Nat × (V3 Float × M3 Float)) := []
  mode : Nat := 0      -- 0 geometry, 1 composition, 2 geomcomp, 3 boundary
  compLeft : Nat := 0  -- nuclide lines still expected for the current composition
deriving Inhabited

private def err (st : RState) (m : String) : RState :=
  { st with file := { st.file with errors := st.file.errors ++ [m] } }

private def floats (st : RState) (ts : List String) (ctx : String) : RState × List Float :=
  ts.foldl (fun (st, acc) t =>
    match parseFloat? t with
    | some x => if finite x then (st, acc ++ [x]) else (err st s!"non-finite number {t} in {ctx}", acc ++ [x])
    | none => (err st s!"bad number '{t}' in {ctx}", acc)) (st, [])

private def nats (st : RState) (ts : List String) (ctx : String) : RState × List Nat :=
  ts.foldl (fun (st, acc) t =>
    match t.toNat? with
    | some x => (st, acc ++ [x])
    | none => (err st s!"bad id '{t}' in {ctx}", acc)) (st, [])

private def readVolu (st : RState) (idTok : String) (body : List String) (comment : String) : RState :=
  match idTok.toNat? with
  | none => err st s!"bad volume id '{idTok}'"
  | some id =>
    let ctx := s!"VOLU {id}"
    let (st, ts) := match body with
      | "EQUA" :: r => (st, r)
      | _ => (err st s!"{ctx}: EQUA expected", body)
    let b := readBody ctx (body.length + 5) ts {}
    let st := b.errs.foldl err st
    let st := if !b.ended then err st s!"{ctx}: ENDV missing" else st
    let v : TVol := { id, pluses := b.pluses, minuses := b.minuses, op := b.op, fictive := b.fictive,
                      origin := parsePairs comment }
    { st with file := { st.file with vols := st.file.vols ++ [v] } }

private def readSurf (st : RState) (idTok : String) (body : List String) : RState :=
  match idTok.toNat? with
  | none => err st s!"bad surface id '{idTok}'"
  | some id => Id.run do
    let mut st := st
    let mut body := body
    let mut tr : Option (V3 Float × M3 Float) := none
    match body with
    | "TRANSFORM" :: t :: r =>
        body := r
        match t.toNat? with
        | some tid =>
            match st.pendingTr.find? (·.1 == tid) with
            | some (_, x) => tr := some x
            | none => st := err st s!"SURF {id}: TRANSFORM {tid} undefined"
        | none => st := err st s!"SURF {id}: bad transform id"
    | _ => pure ()
    match body with
    | [] => return err st s!"SURF {id}: keyword missing"
    | kw :: ps =>
      match TKind.ofString? kw with
      | none => return err st s!"SURF {id}: unknown keyword {kw}"
      | some k =>
        let (st', xs) := floats st ps s!"SURF {id}"
        st := st'
        if xs.length != k.arity then st := err st s!"SURF {id}: {kw} expects {k.arity} parameters, got {xs.length}"
        return { st with file := { st.file with surfs := st.file.surfs ++ [(id, { kind := k, ps := xs, tr })] } }

/-- what the reader keeps of a BOUNDARY_CONDITION block -/
structure BCAcc where
  declared : Option Nat := none
  entries : List (String × Nat) := []      -- kind, surface id
  errs : List String := []
deriving Repr, DecidableEq

/-- one line of the block (not the END line) -/
def bcLine (a : BCAcc) (ws : List String) : BCAcc :=
  match ws with
  | [n] =>
      match n.toNat? with
      | some k => { a with declared := some k }
      | none => { a with errs := a.errs ++ [s!"BOUNDARY_CONDITION: bad count {n}"] }
  | ["ALL_COMPLETE", kind, id] =>
      match id.toNat? with
      | some k => { a with entries := a.entries ++ [(kind, k)] }
      | none => { a with errs := a.errs ++ [s!"BOUNDARY_CONDITION: bad surface id {id}"] }
  | _ => { a with errs := a.errs ++ [s!"BOUNDARY_CONDITION: unexpected line '{" ".intercalate ws}'"] }

/-- the words after an optional NB_ATOM flag -/
def dropNbAtom (r : List String) : List String := match r with | "NB_ATOM" :: r => r | r => r

/-- the counter of the COMPOSITION reader on one line of words: how many nuclide lines are still expected after it,
`none` when the line contradicts the count declared by the last header (a header or the end of the block while
nuclides are still expected, a nuclide line when none is) -/
def compCount (left : Nat) (ws : List String) : Option Nat :=
  match ws with
  | [] => some left
  | ["END_COMPOSITION"] => if left != 0 then none else some 0
  | [_] => some left
  | "POINT_WISE" :: _ :: _ :: [n] => if left != 0 then none else some (n.toNat?.getD 0)
  | "DENSITY" :: _ :: _ :: _ :: r =>
      if left != 0 then none else
      match dropNbAtom r with
      | [n] => some (n.toNat?.getD 0)
      | _ => some 0
  | [_, _] => if left == 0 then none else some (left - 1)
  | _ => some left

/-- the counter over the lines of a block -/
def compCountRun (left : Nat) : List (List String) → Option Nat
  | [] => some left
  | ws :: r => match compCount left ws with
    | none => none
    | some l => compCountRun l r

private def readLine (st : RState) (line : String) : RState :=
  let (code, comment) := match line.splitOn "//" with
    | [] => ("", "")
    | c :: r => (c, "//".intercalate r)
  let ts := words code
  match st.mode, ts with
  | _, [] => st
  | 0, "TRANSFORM" :: id :: "MATRIX" :: r =>
      let (st, xs) := floats st r s!"TRANSFORM {id}"
      match id.toNat?, xs with
      | some k, [a, b, c, m1, m2, m3, m4, m5, m6, m7, m8, m9] =>
          { st with pendingTr := (k, (⟨a, b, c⟩, ⟨⟨m1, m2, m3⟩, ⟨m4, m5, m6⟩, ⟨m7, m8, m9⟩⟩)) :: st.pendingTr }
      | _, _ => err st s!"TRANSFORM {id}: 12 numbers expected"
  | 0, "SURF" :: id :: r => readSurf st id r
  | 0, "VOLU" :: id :: r => readVolu st id r comment
  | 0, ["COMPOSITION"] => { st with mode := 1 }
  | 0, ["GEOMCOMP"] => { st with mode := 2, file := { st.file with hasGeomcomp := true } }
  | 0, ["BOUNDARY_CONDITION"] => { st with mode := 3 }
  | 0, _ => st          -- LANG, GEOMETRY, TITLE, HASH_TABLE, ENDG
  | 1, ["END_COMPOSITION"] =>
      let st := if (compCount st.compLeft ts).isNone then err st "COMPOSITION: nuclide count mismatch" else st
      { st with mode := 0, compLeft := 0 }
  | 1, [n] =>
      if st.file.compDeclared.isNone && st.file.comps.isEmpty then
        match n.toNat? with
        | some k => { st with file := { st.file with compDeclared := some k } }
        | none => err st s!"COMPOSITION: bad count {n}"
      else err st s!"COMPOSITION: stray token {n}"
  | 1, "POINT_WISE" :: _temp :: name :: [n] =>
      let cnt := compCount st.compLeft ts
      let st := if cnt.isNone then err st "COMPOSITION: nuclide count mismatch" else st
      let c : TComp := { kind := "POINT_WISE", name, density := none, nbAtom := false, nuclides := [] }
      { st with compLeft := cnt.getD (n.toNat?.getD 0), file := { st.file with comps := st.file.comps ++ [c] } }
  | 1, "DENSITY" :: _temp :: name :: dens :: r =>
      let cnt := compCount st.compLeft ts
      let st := if cnt.isNone then err st "COMPOSITION: nuclide count mismatch" else st
      let (nb, r) := match r with | "NB_ATOM" :: r => (true, r) | r => (false, r)
      let st := match parseFloat? dens with
        | some x => if finite x then st else err st s!"COMPOSITION {name}: non-finite density"
        | none => err st s!"COMPOSITION {name}: bad density '{dens}'"
      match r with
      | [n] =>
        let c : TComp := { kind := "DENSITY", name, density := some dens, nbAtom := nb, nuclides := [] }
        { st with compLeft := cnt.getD (n.toNat?.getD 0), file := { st.file with comps := st.file.comps ++ [c] } }
      | _ => err st s!"COMPOSITION {name}: malformed DENSITY line"
  | 1, [nuc, frac] =>
      if (compCount st.compLeft ts).isNone then err st s!"COMPOSITION: unexpected nuclide line {nuc}" else
      let st := match parseFloat? frac with
        | some x => if finite x then st else err st s!"COMPOSITION: non-finite amount for {nuc}"
        | none => err st s!"COMPOSITION: bad amount '{frac}' for {nuc}"
      let comps := match st.file.comps.reverse with
        | [] => []
        | c :: r => ({ c with nuclides := c.nuclides ++ [(nuc, frac)] } :: r).reverse
      { st with compLeft := st.compLeft - 1, file := { st.file with comps := comps } }
  | 1, _ => err st s!"COMPOSITION: unexpected line '{code}'"
  | 2, ["END_GEOMCOMP"] => { st with mode := 0 }
  | 2, name :: cnt :: ids =>
      let (e, errs) := gcLine name cnt ids
      let st := errs.foldl err st
      match e with
      | some g => { st with file := { st.file with geomcomp := st.file.geomcomp ++ [g] } }
      | none => st
  | 2, _ => err st s!"GEOMCOMP: unexpected line '{code}'"
  | 3, ["END_BOUNDARY_CONDITION"] => { st with mode := 0 }
  | 3, ws =>
      let a := bcLine { declared := st.file.bcDeclared, entries := st.file.bcs } ws
      let st := a.errs.foldl err st
      { st with file := { st.file with bcDeclared := a.declared, bcs := a.entries } }
  | _, _ => st

def T4File.read (text : String) : T4File Float :=
  let st := (text.splitOn "\n").foldl readLine ({} : RState)
  let st := if st.mode != 0 then err st "unterminated block" else st
  st.file

end T4V
