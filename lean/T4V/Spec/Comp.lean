import T4V.Sexp
import T4V.Spec.T4
import T4V.Spec.Monitor
import T4V.Text.NormFloat
/-!
# Material cards → compositions: reference semantics (C10) and monitor
-/
namespace T4V

/-- the periodic table, Z = 1 … 118 (a transcription, trusted as such; compared exhaustively with the
two Python enums on every run) -/
def elementSymbols : List String :=
  ["H", "HE", "LI", "BE", "B", "C", "N", "O", "F", "NE", "NA", "MG", "AL", "SI", "P", "S", "CL", "AR", "K", "CA",
   "SC", "TI", "V", "CR", "MN", "FE", "CO", "NI", "CU", "ZN", "GA", "GE", "AS", "SE", "BR", "KR", "RB", "SR", "Y",
   "ZR", "NB", "MO", "TC", "RU", "RH", "PD", "AG", "CD", "IN", "SN", "SB", "TE", "I", "XE", "CS", "BA", "LA", "CE",
   "PR", "ND", "PM", "SM", "EU", "GD", "TB", "DY", "HO", "ER", "TM", "YB", "LU", "HF", "TA", "W", "RE", "OS", "IR",
   "PT", "AU", "HG", "TL", "PB", "BI", "PO", "AT", "RN", "FR", "RA", "AC", "TH", "PA", "U", "NP", "PU", "AM", "CM",
   "BK", "CF", "ES", "FM", "MD", "NO", "LR", "RF", "DB", "SG", "BH", "HS", "MT", "DS", "RG", "CN", "NH", "FL", "MC",
   "LV", "TS", "OG"]

def elementSymbol? (z : Nat) : Option String := if z == 0 then none else elementSymbols[z - 1]?

/-- entries of a material card: ZAID (library suffix dropped, keyword entries skipped) and fraction literal -/
def matEntries : List String → List (String × String)
  | [] => []
  | [_] => []
  | z :: f :: r =>
      if z.contains '=' then matEntries (f :: r)
      else ((z.splitOn ".").headD z, f) :: matEntries r

/-- nuclide name for atomic number `z` and mass number `a`: symbol ++ mass number, `a = 0` = natural element -/
def nuclideOf (z a : Nat) : Option String :=
  (elementSymbol? z).map fun sym => sym ++ (if a == 0 then "-NAT" else toString a)

/-- nuclide name TRIPOLI-4 expects for a ZAID (`ZZZAAA`, at least four digits) -/
def nuclideName? (zaid : String) : Option String := do
  let n ← zaid.toNat?
  if zaid.length < 4 then none else nuclideOf (n / 1000) (n % 1000)

def isNegLit (s : String) : Bool := s.trimAscii.toString.startsWith "-"
def absLit (s : String) : String := let t := s.trimAscii.toString; if t.startsWith "-" then (t.drop 1).toString else t

structure CompExpect where
  nuclides : List String
  atomFracs : Bool                 -- entries positive
  fractions : List String          -- absolute values as written
deriving Repr

def compExpected (tokens : List String) : Except String CompExpect :=
  let es := matEntries tokens
  match es with
  | [] => .error "empty"
  | (_, f0) :: _ =>
    let pos := !isNegLit f0
    if es.any (fun e => (!isNegLit e.2) != pos) then .error "mixed-signs" else
    match es.mapM (fun e => nuclideName? e.1) with
    | none => .error "bad-zaid"
    | some ns => .ok { nuclides := ns, atomFracs := pos, fractions := es.map (absLit ·.2) }

/-- check one COMPOSITION entry against the card and the cell density; returns problems -/
def compCheck (exp : CompExpect) (densLit : String) (c : TComp) : List String :=
  let rho := (parseFortran? densLit).getD 0
  let names := c.nuclides.map (·.1)
  let amounts := c.nuclides.map (·.2)
  let p1 := if names != exp.nuclides then [s!"nuclides {names} ≠ {exp.nuclides}"] else []
  if rho < 0 then
    let p2 := if c.kind != "DENSITY" then [s!"mass density but kind {c.kind}"] else []
    let p3 := if c.nbAtom != exp.atomFracs then [s!"NB_ATOM flag {c.nbAtom} but card fractions positive = {exp.atomFracs}"] else []
    let p4 := match c.density.bind parseFortran? with
      | some d => if d == -rho then [] else [s!"density {d} ≠ {-rho}"]
      | none => ["density missing"]
    let vals := amounts.map parseFortran?
    let want := exp.fractions.map parseFortran?
    let p5 := if vals != want then [s!"fractions {amounts} ≠ card {exp.fractions}"] else []
    p1 ++ p2 ++ p3 ++ p4 ++ p5
  else
    let p2 := if c.kind != "POINT_WISE" then [s!"atom density but kind {c.kind}"] else []
    if !exp.atomFracs then p2   -- mass fractions with an atom density: outside the property (the converter warns and emits no nuclides)
    else
      let fr := exp.fractions.map fun f => (parseFortran? f).getD 0
      let tot := fr.foldl (· + ·) 0
      let got := amounts.map fun a => (parseFortran? a).getD (0/0)
      let okv := (fr.zip got).all fun (f, g) =>
        let w := f * rho / tot
        (g - w).abs ≤ 1e-12 * w.abs
      let sum := got.foldl (· + ·) 0
      let p3 := if fr.length != got.length || !okv then [s!"concentrations {amounts} not proportional to {exp.fractions} × {rho}"] else []
      let p4 := if (sum - rho).abs ≤ 1e-12 * rho.abs then [] else [s!"concentrations sum to {sum} ≠ {rho}"]
      p1 ++ p2 ++ p3 ++ p4

/-- `(compmon (mat N) (dens "lit") (tokens t…)) <hex t4>`: find composition m<N>_… in the file whose
density equals the literal numerically and check it -/
def runCompMon (s : Sexp) (t4 : String) : String :=
  let r : Option (Nat × String × List String) := do
    let m ← (s.field? "mat").bind fun x => x.args.head? >>= Sexp.atom? >>= String.toNat?
    let dl ← (s.field? "dens").bind fun x => x.args.head? >>= Sexp.atom?
    let toks ← (s.field? "tokens").map fun x => x.args.filterMap Sexp.atom?
    pure (m, dl, toks)
  match r with
  | none => "err bad-request"
  | some (m, dl, toks) =>
    let f := T4File.read t4
    match compExpected toks with
    | .error e => "ok expect-error " ++ e
    | .ok exp =>
      let rho := parseFortran? dl
      let cands := f.comps.filter fun c =>
        match parseCompName c.name with
        | some (mm, some d) => mm == m && some d == rho
        | _ => false
      match cands with
      | [] => "ok problems " ++ hex s!"no composition m{m}_<{dl}> in the file (have {f.comps.map (·.name)})"
      | [c] =>
        match compCheck exp dl c with
        | [] => "ok good"
        | ps => "ok problems " ++ hex ("; ".intercalate ps)
      | cs => "ok problems " ++ hex s!"{cs.length} compositions for one (material, density value): {cs.map (·.name)}"

end T4V
