import T4V.Spec.T4
import T4V.Spec.MCNP
import Std.Data.HashMap
/-!
# Point monitor: MCNP reference semantics vs the TRIPOLI-4 file that was actually written
(the executable form of the statement `convert_refines`: owners of a point on both sides agree
up to order, with provenance and composition).
-/
namespace T4V

structure Descr where
  /-- `[]` + cell for a level-0 cell, else the provenance chain -/
  cell : Nat
  chain : List (Nat × Nat)
  mat : Nat
  dens : Option Float
deriving Repr, Inhabited

def Descr.toString (d : Descr) : String :=
  let c := if d.chain.isEmpty then s!"cell {d.cell}" else
    "chain " ++ " ".intercalate (d.chain.map fun (a, b) => s!"({a},{b})")
  let m := match d.dens with | none => s!"m{d.mat}:void" | some x => s!"m{d.mat}:{x}"
  s!"[{c} {m}]"

def Descr.beq (a b : Descr) : Bool :=
  a.cell == b.cell && a.chain == b.chain && a.mat == b.mat &&
  match a.dens, b.dens with
  | none, none => true
  | some x, some y => x == y
  | _, _ => false

def Leaf.descr (l : Leaf) : Descr :=
  { cell := if l.chain.isEmpty then l.cell else 0, chain := l.chain, mat := l.mat,
    dens := match l.rho with | none => none | some r => parseFortran? r }

/-- composition name `m<mat>[_<density>]` → (mat, density) -/
def parseCompName (n : String) : Option (Nat × Option Float) :=
  if !n.startsWith "m" then none else
  match ((n.drop 1).toString.splitOn "_") with
  | [m] => m.toNat?.map fun k => (k, none)
  | [m, d] => do let k ← m.toNat?; let x ← parseFortran? d; pure (k, some x)
  | _ => none

def volDescr (f : T4File Float) (orig : List Nat) (v : TVol) (withComp : Bool) : Option Descr := do
  let gen (k : Nat) : Nat := if orig.contains k then k else 0
  let (mat, dens) ←
    if withComp then
      match f.geomcomp.filter (fun (_, _, ids) => ids.contains v.id) with
      | [(name, _, _)] => parseCompName name
      | _ => none
    else some (0, none)
  pure { cell := if v.origin.isEmpty then gen v.id else 0,
         chain := v.origin.map fun (a, b) => (gen a, gen b), mat, dens }

/-- remove one element equal to `a` -/
def removeOne (a : Descr) : List Descr → Option (List Descr)
  | [] => none
  | b :: r => if a.beq b then some r else (removeOne a r).map (b :: ·)

def permEq : List Descr → List Descr → Bool
  | [], [] => true
  | [], _ => false
  | a :: r, l => match removeOne a l with | some l' => permEq r l' | none => false

inductive PointResult
  | ok (n : Nat)                       -- agree; n owners
  | skip (why : String)                -- too close to a surface / not evaluable on the MCNP side
  | mismatch (mcnp t4 : String)
deriving Repr

def minAbsT4 (f : T4File Float) (p : V3 Float) : Float :=
  f.surfs.foldl (fun acc (_, s) => match s.f p with
    | some v => if v.abs < acc then v.abs else acc
    | none => acc) 1e300

/-! ## The same owners, with the senses of all surfaces at the point tabulated once
(`T4V.MonitorFast.ownersFast_eq`, `undecidedFast_eq`: equal to `T4File.owners` / `T4File.undecided` for every file and
point; first occurrence of a surface number wins in both). -/

def senseTable (f : T4File Float) (p : V3 Float) : Std.HashMap Nat (Option Bool) :=
  f.surfs.foldl (fun m ns => m.insertIfNew ns.1 ((ns.2.f p).map fun v => decide ((0:Float) < v))) ∅

/-- lookup in a table of senses (a function of the table, so that the table is built once per point) -/
def senseOf (t : Std.HashMap Nat (Option Bool)) : SenseFn := fun n =>
  match t[n]? with
  | none => none
  | some b => b

/-- volumes by number (first occurrence wins, as in `findVol`) -/
def volTable (vols : List TVol) : Std.HashMap Nat TVol :=
  vols.foldl (fun m v => m.insertIfNew v.id v) ∅

/-- `member` with the volume looked up in the table -/
def memberFast (t : Std.HashMap Nat TVol) (σ : SenseFn) : Nat → Nat → Option Bool
  | 0, _ => none
  | fuel + 1, k => do
    let v ← t[k]?
    let e ← equaT σ v
    match v.op with
    | none => pure e
    | some (.union, ids) =>
        let bs ← ids.mapM (memberFast t σ fuel)
        pure (e || bs.any id)
    | some (.inte, ids) =>
        let bs ← ids.mapM (memberFast t σ fuel)
        pure (e && bs.all id)

def T4File.ownersFast (f : T4File Float) (p : V3 Float) : List TVol :=
  let t := senseTable f p
  let vt := volTable f.vols
  f.vols.filter fun v => !v.fictive && memberFast vt (senseOf t) (f.vols.length + 1) v.id == some true

def T4File.undecidedFast (f : T4File Float) (p : V3 Float) : List Nat :=
  let t := senseTable f p
  let vt := volTable f.vols
  (f.vols.filter fun v => !v.fictive && (memberFast vt (senseOf t) (f.vols.length + 1) v.id).isNone).map (·.id)

/-- one pass for both: the verdict of every non-virtual volume at the point -/
def T4File.verdicts (f : T4File Float) (p : V3 Float) : List (TVol × Option Bool) :=
  let t := senseTable f p
  let vt := volTable f.vols
  (f.vols.filter fun v => !v.fictive).map fun v => (v, memberFast vt (senseOf t) (f.vols.length + 1) v.id)

def ownersOf (vs : List (TVol × Option Bool)) : List TVol := (vs.filter fun x => x.2 == some true).map (·.1)
def undecidedOf (vs : List (TVol × Option Bool)) : List Nat := (vs.filter fun x => x.2.isNone).map (·.1.id)

def monitorPoint (d : Deck Float) (f : T4File Float) (withComp : Bool) (eps : Float) (p : V3 Float) : PointResult :=
  let toNat : Float → Nat := fun x => x.toUInt64.toNat
  match locate toNat d p with
  | none => .skip "mcnp-side not evaluable"
  | some (leaves, m) =>
    let mm := match m with | some x => x | none => 1e300
    if mm < eps || minAbsT4 f p < eps then .skip "near surface" else
    let orig := d.cells.map (·.id)
    let spec := (leaves.filter (·.impNonzero)).map fun l =>
      let ds := l.descr
      if withComp then ds else { ds with mat := 0, dens := none }
    let vs := f.verdicts p
    let und := undecidedOf vs
    let owners := ownersOf vs
    match owners.mapM (volDescr f orig · withComp) with
    | none => .mismatch (" ".intercalate (spec.map Descr.toString)) "owner without unique composition"
    | some got =>
      if !und.isEmpty then .mismatch (" ".intercalate (spec.map Descr.toString)) s!"undecidable volumes {und}"
      else if permEq spec got then .ok got.length
      else .mismatch (" ".intercalate (spec.map Descr.toString)) (" ".intercalate (got.map Descr.toString))

end T4V
