import T4V.Proofs.Macro
import T4V.Proofs.RealOK
import T4V.Proofs.Transform
/-!
# Property C03 — macrobodies: interior, exterior and numbered facets

Model: `T4V.Model.Macro` (`MacroBodies.py`: body ↦ facets `(mnemonic, parameters, side)`, each converted
like an ordinary card, `SurfaceCollection.join`).  Spec: `bodyFacets` (`T4V.Spec.MCNP`): MCNP's facets in
MCNP's numbering as outward implicit functions.  `BodyOK coll gs`: the k-th emitted signed surface is the
k-th facet (same zero set, outward side positive).  Proved for RPP, SPH, BOX (either handedness), RCC,
RHP/HEX with 15 entries, WED and REC with 12 entries, any orientation; REC with 10 entries, ELL, TRC, ARB and
the 9-entry RHP are checked by the spec monitor and the `macromodel` correspondence only.
-/
set_option linter.unusedSectionVars false
set_option linter.unusedSimpArgs false
namespace T4V.C03
open T4V T4V.Surf T4V.Macro T4V.Tr
variable {α : Type} [Field α] [LinearOrder α] [IsStrictOrderedRing α] [Transc α]

/-- **negative reference to a body** = inside every facet; **positive reference** = outside some facet -/
theorem body_reference {coll : List (TSurf α × Int)} {gs : List (V3 α → α)} (h : BodyOK coll gs) (p : V3 α) :
    collNegative coll p = some (gs.all fun g => decide (g p < 0)) ∧
    collPositive coll p = some (gs.any fun g => decide (0 < g p)) := by
  induction h with
  | nil => exact ⟨rfl, rfl⟩
  | cons hf _ ih =>
    obtain ⟨v, hv, h1, h2⟩ := facetOK_neg_iff hf p
    obtain ⟨ihn, ihp⟩ := ih
    unfold collNegative at ihn; unfold collPositive at ihp
    unfold collNegative collPositive
    simp only [List.foldr_cons, hv, ihn, ihp, h1, h2, List.all_cons, List.any_cons, Bool.and_comm, Bool.or_comm, and_self]

/-- **facet reference `b.k`**: the k-th emitted surface, with its side, is MCNP's k-th facet -/
theorem facet_reference {coll : List (TSurf α × Int)} {gs : List (V3 α → α)} (h : BodyOK coll gs) (k : Nat)
    (ts : TSurf α × Int) (hk : facetOf coll k = some ts) : ∃ g, gs[k - 1]? = some g ∧ FacetOK ts g := by
  unfold facetOf at hk
  split at hk
  · cases hk
  · have hlen := h.length_eq
    have hlt : k - 1 < coll.length := by
      by_contra hc; rw [List.getElem?_eq_none (not_lt.mp hc)] at hk; cases hk
    rw [List.getElem?_eq_getElem hlt] at hk; cases hk
    exact ⟨gs[k - 1]'(hlen ▸ hlt), List.getElem?_eq_getElem _, List.Forall₂.get h hlt (hlen ▸ hlt)⟩

theorem rpp_ok (ok : TranscOK α) (toNat : α → Nat) (x0 x1 y0 y1 z0 z1 : α) :
    ∃ coll gs, convertMacro (0:α) 0 "rpp" [x0, x1, y0, y1, z0, z1] = some coll ∧
      bodyFacets "rpp" [x0, x1, y0, y1, z0, z1] toNat = some gs ∧ BodyOK coll gs := by
  have e100 : (0:α) < 1 * 1 + 0 * 0 + 0 * 0 := by norm_num
  have e010 : (0:α) < 0 * 0 + 1 * 1 + 0 * 0 := by norm_num
  have e001 : (0:α) < 0 * 0 + 0 * 0 + 1 * 1 := by norm_num
  obtain ⟨t1, h1, s1⟩ := plane_part ok 1 0 0 x1 e100
  obtain ⟨t2, h2, s2⟩ := plane_part ok 1 0 0 x0 e100
  obtain ⟨t3, h3, s3⟩ := plane_part ok 0 1 0 y1 e010
  obtain ⟨t4, h4, s4⟩ := plane_part ok 0 1 0 y0 e010
  obtain ⟨t5, h5, s5⟩ := plane_part ok 0 0 1 z1 e001
  obtain ⟨t6, h6, s6⟩ := plane_part ok 0 0 1 z0 e001
  refine ⟨[(t1, 1), (t2, -1), (t3, 1), (t4, -1), (t5, 1), (t6, -1)], _, ?_, rfl, ?_⟩
  · simp [convertMacro, macroParts, h1, h2, h3, h4, h5, h6]
  · refine .cons (facet_pos s1 fun p => by ring) (.cons (facet_neg s2 fun p => by ring)
      (.cons (facet_pos s3 fun p => by ring) (.cons (facet_neg s4 fun p => by ring)
      (.cons (facet_pos s5 fun p => by ring) (.cons (facet_neg s6 fun p => by ring) .nil)))))

theorem sph_ok (toNat : α → Nat) (x y z r : α) :
    ∃ coll gs, convertMacro (0:α) 0 "sph" [x, y, z, r] = some coll ∧
      bodyFacets "sph" [x, y, z, r] toNat = some gs ∧ BodyOK coll gs := by
  obtain ⟨t, hs, hsame⟩ := sphere_same (α := α) x y z r
  have hc : convertCard (0:α) 0 "s" [x, y, z, r] = some [(t, 1)] := hs
  exact ⟨[(t, 1)], _, by simp [convertMacro, macroParts, hc], rfl, .cons (Or.inl ⟨rfl, hsame⟩) .nil⟩

/-- BOX with mutually orthogonal edges of either handedness -/
theorem box_ok (ok : TranscOK α) (toNat : α → Nat) (vx vy vz ax ay az bx by' bz cx cy cz : α)
    (hab : (⟨ax, ay, az⟩ : V3 α).dot ⟨bx, by', bz⟩ = 0) (hac : (⟨ax, ay, az⟩ : V3 α).dot ⟨cx, cy, cz⟩ = 0)
    (hbc : (⟨bx, by', bz⟩ : V3 α).dot ⟨cx, cy, cz⟩ = 0)
    (ha : 0 < (⟨ax, ay, az⟩ : V3 α).dot ⟨ax, ay, az⟩) (hb : 0 < (⟨bx, by', bz⟩ : V3 α).dot ⟨bx, by', bz⟩)
    (hc : 0 < (⟨cx, cy, cz⟩ : V3 α).dot ⟨cx, cy, cz⟩)
    (hT : ((⟨bx, by', bz⟩ : V3 α).cross ⟨cx, cy, cz⟩).dot ⟨ax, ay, az⟩ ≠ 0) :
    ∃ coll gs, convertMacro (0:α) 0 "box" [vx, vy, vz, ax, ay, az, bx, by', bz, cx, cy, cz] = some coll ∧
      bodyFacets "box" [vx, vy, vz, ax, ay, az, bx, by', bz, cx, cy, cz] toNat = some gs ∧ BodyOK coll gs := by
  set v : V3 α := ⟨vx, vy, vz⟩ with hv
  set a : V3 α := ⟨ax, ay, az⟩ with ha'
  set b : V3 α := ⟨bx, by', bz⟩ with hb'
  set c : V3 α := ⟨cx, cy, cz⟩ with hc'
  have hba : b.dot a = 0 := by rw [← hab]; simp only [V3.dot]; ring
  have hca : c.dot a = 0 := by rw [← hac]; simp only [V3.dot]; ring
  have hcb : c.dot b = 0 := by rw [← hbc]; simp only [V3.dot]; ring
  have hT2 : (c.cross a).dot b ≠ 0 := by
    have : (c.cross a).dot b = (b.cross c).dot a := by simp only [V3.dot, V3.cross]; ring
    rw [this]; exact hT
  have hT3 : (a.cross b).dot c ≠ 0 := by
    have : (a.cross b).dot c = (b.cross c).dot a := by simp only [V3.dot, V3.cross]; ring
    rw [this]; exact hT
  obtain ⟨p1x, p1y, p1z⟩ := cross_parallel a b c hab hac ha
  obtain ⟨p2x, p2y, p2z⟩ := cross_parallel b c a hbc hba hb
  obtain ⟨p3x, p3y, p3z⟩ := cross_parallel c a b hca hcb hc
  obtain ⟨t1, t2, h1, h2, f1, f2⟩ := opposite_pair ok (b.cross c) a v _ (div_ne_zero hT ha.ne') ha p1x p1y p1z
  obtain ⟨t3, t4, h3, h4, f3, f4⟩ := opposite_pair ok (c.cross a) b v _ (div_ne_zero hT2 hb.ne') hb p2x p2y p2z
  obtain ⟨t5, t6, h5, h6, f5, f6⟩ := opposite_pair ok (a.cross b) c v _ (div_ne_zero hT3 hc.ne') hc p3x p3y p3z
  refine ⟨_, _, ?_, rfl, .cons f1 (.cons f2 (.cons f3 (.cons f4 (.cons f5 (.cons f6 .nil)))))⟩
  simp [convertMacro, macroParts, ← hv, ← ha', ← hb', ← hc', h1, h2, h3, h4, h5, h6]

theorem rcc_ok (ok : TranscOK α) (toNat : α → Nat) (vx vy vz hx hy hz r : α)
    (hh : 0 < (⟨hx, hy, hz⟩ : V3 α).dot ⟨hx, hy, hz⟩) :
    ∃ coll gs, convertMacro (0:α) 0 "rcc" [vx, vy, vz, hx, hy, hz, r] = some coll ∧
      bodyFacets "rcc" [vx, vy, vz, hx, hy, hz, r] toNat = some gs ∧ BodyOK coll gs := by
  obtain ⟨t1, t2, h1, h2, f1, f2⟩ := end_planes ok ⟨hx, hy, hz⟩ ⟨vx, vy, vz⟩ hh
  have hc : convertCard (0:α) 0 "c" [vx, vy, vz, r, hx, hy, hz] =
      some [(convertCylinder ⟨vx, vy, vz⟩ ⟨hx, hy, hz⟩ r, 1)] := rfl
  refine ⟨[(convertCylinder ⟨vx, vy, vz⟩ ⟨hx, hy, hz⟩ r, 1), (t1, 1), (t2, -1)], _, ?_, rfl,
    .cons (Or.inl ⟨rfl, by exact cyl_general_same ⟨vx, vy, vz⟩ ⟨hx, hy, hz⟩ r hh⟩) (.cons f1 (.cons f2 .nil))⟩
  simp [convertMacro, macroParts, hc, h1, h2]

theorem rhp_ok (ok : TranscOK α) (toNat : α → Nat) (vx vy vz hx hy hz rx ry rz sx sy sz tx ty tz : α)
    (hh : 0 < (⟨hx, hy, hz⟩ : V3 α).dot ⟨hx, hy, hz⟩) (hr : 0 < (⟨rx, ry, rz⟩ : V3 α).dot ⟨rx, ry, rz⟩)
    (hs : 0 < (⟨sx, sy, sz⟩ : V3 α).dot ⟨sx, sy, sz⟩) (ht : 0 < (⟨tx, ty, tz⟩ : V3 α).dot ⟨tx, ty, tz⟩) :
    ∃ coll gs, convertMacro (0:α) 0 "rhp" [vx, vy, vz, hx, hy, hz, rx, ry, rz, sx, sy, sz, tx, ty, tz] = some coll ∧
      bodyFacets "rhp" [vx, vy, vz, hx, hy, hz, rx, ry, rz, sx, sy, sz, tx, ty, tz] toNat = some gs ∧
      BodyOK coll gs := by
  obtain ⟨t1, t2, h1, h2, f1, f2⟩ := rhp_pair ok ⟨rx, ry, rz⟩ ⟨vx, vy, vz⟩ hr
  obtain ⟨t3, t4, h3, h4, f3, f4⟩ := rhp_pair ok ⟨sx, sy, sz⟩ ⟨vx, vy, vz⟩ hs
  obtain ⟨t5, t6, h5, h6, f5, f6⟩ := rhp_pair ok ⟨tx, ty, tz⟩ ⟨vx, vy, vz⟩ ht
  obtain ⟨t7, t8, h7, h8, f7, f8⟩ := end_planes ok ⟨hx, hy, hz⟩ ⟨vx, vy, vz⟩ hh
  refine ⟨_, _, ?_, rfl, .cons f1 (.cons f2 (.cons f3 (.cons f4 (.cons f5 (.cons f6 (.cons f7 (.cons f8 .nil)))))))⟩
  simp [convertMacro, macroParts, h1, h2, h3, h4, h5, h6, h7, h8]

theorem wed_ok (ok : TranscOK α) (toNat : α → Nat) (vx vy vz ax ay az bx by' bz hx hy hz : α)
    (ha : 0 < (⟨ax, ay, az⟩ : V3 α).dot ⟨ax, ay, az⟩) (hb : 0 < (⟨bx, by', bz⟩ : V3 α).dot ⟨bx, by', bz⟩)
    (hh : 0 < (⟨hx, hy, hz⟩ : V3 α).dot ⟨hx, hy, hz⟩)
    (hab : (⟨ax, ay, az⟩ : V3 α).dot ⟨bx, by', bz⟩ = 0)
    (hc : 0 < (((⟨ax, ay, az⟩ : V3 α).sub ⟨bx, by', bz⟩).cross ⟨hx, hy, hz⟩).dot
      (((⟨ax, ay, az⟩ : V3 α).sub ⟨bx, by', bz⟩).cross ⟨hx, hy, hz⟩)) :
    ∃ coll gs, convertMacro (0:α) 0 "wed" [vx, vy, vz, ax, ay, az, bx, by', bz, hx, hy, hz] = some coll ∧
      bodyFacets "wed" [vx, vy, vz, ax, ay, az, bx, by', bz, hx, hy, hz] toNat = some gs ∧ BodyOK coll gs := by
  set v : V3 α := ⟨vx, vy, vz⟩ with hv
  set a : V3 α := ⟨ax, ay, az⟩ with ha'
  set b : V3 α := ⟨bx, by', bz⟩ with hb'
  set h : V3 α := ⟨hx, hy, hz⟩ with hh'
  obtain ⟨t1, h1, s1⟩ := planeNP_part ok ((a.sub b).cross h) (v.add a) hc
  obtain ⟨t2, h2, s2⟩ := planeNP_part ok a (v.add b) ha
  obtain ⟨t3, h3, s3⟩ := planeNP_part ok b (v.add a) hb
  obtain ⟨t4, t5, h4, h5, f4, f5⟩ := end_planes ok h v hh
  have e : ((a.sub b).cross h).dot a.neg = -(a.dot ((a.sub b).cross h)) := by
    simp only [V3.dot, V3.neg]; ring
  have f1 : FacetOK (t1, if (0:α) < a.dot ((a.sub b).cross h) then (1:Int) else -1)
      (planeOut (if ((a.sub b).cross h).dot a.neg < 0 then (a.sub b).cross h else ((a.sub b).cross h).neg) (v.add a)) := by
    rw [e]
    by_cases hp : 0 < a.dot ((a.sub b).cross h)
    · simp only [hp, if_true, neg_lt_zero]; exact Or.inl ⟨rfl, s1⟩
    · simp only [hp, if_false, neg_lt_zero]
      exact Or.inr ⟨rfl, Same.congr s1 fun p => by simp only [planeOut, V3.dot, V3.sub, V3.neg]; ring⟩
  have f2 : FacetOK (t2, -1) (planeOut a.neg v) := Or.inr ⟨rfl, Same.congr s2 fun p => by
    simp only [planeOut, V3.dot, V3.sub, V3.neg, V3.add] at hab ⊢; linear_combination -hab⟩
  have f3 : FacetOK (t3, -1) (planeOut b.neg v) := Or.inr ⟨rfl, Same.congr s3 fun p => by
    simp only [planeOut, V3.dot, V3.sub, V3.neg, V3.add] at hab ⊢; linear_combination -hab⟩
  refine ⟨_, _, ?_, rfl, .cons f1 (.cons f2 (.cons f3 (.cons f4 (.cons f5 .nil))))⟩
  simp [convertMacro, macroParts, ← hv, ← ha', ← hb', ← hh', h1, h2, h3, h4, h5]

/-! ### REC: elliptical cylinder through `transformation_quad` -/

theorem renorm_some (ok : TranscOK α) (v : V3 α) (h : 0 < v.dot v) :
    renorm? v = some (V3.smul (1 / Transc.sqrt (v.dot v)) v) := by
  have := (ok.sqrt_pos _ h).ne'
  simp [renorm?, this]

theorem inv_some (x : α) (h : x ≠ 0) : inv? x = some (1 / x) := by simp [inv?, h]

/-- a GQ part: the emitted QUAD evaluates the ten coefficients -/
theorem gq_part (a b c d e f g h j k : α) :
    ∃ t, convertCard (0:α) 0 "gq" [a, b, c, d, e, f, g, h, j, k] = some [(t, 1)] ∧
      ∀ p, t.f p = evalQuadric [a, b, c, d, e, f, g, h, j, k] p := by
  refine ⟨{ kind := .quad, ps := [a, b, c, d, e, f, g, h, j, k] }, rfl, fun p => ?_⟩
  simp [TSurf.f, TSurf.fLocal, evalQuadric, sq]

/-- **REC with twelve entries** (base, height, the two semi-axis vectors): elliptical cylinder + end planes,
in any orientation -/
theorem rec12_ok (ok : TranscOK α) (toNat : α → Nat) (vx vy vz hx hy hz ax ay az bx by' bz : α)
    (ha : 0 < (⟨ax, ay, az⟩ : V3 α).dot ⟨ax, ay, az⟩) (hb : 0 < (⟨bx, by', bz⟩ : V3 α).dot ⟨bx, by', bz⟩)
    (hh : 0 < (⟨hx, hy, hz⟩ : V3 α).dot ⟨hx, hy, hz⟩) :
    ∃ coll gs, convertMacro (0:α) 0 "rec" [vx, vy, vz, hx, hy, hz, ax, ay, az, bx, by', bz] = some coll ∧
      bodyFacets "rec" [vx, vy, vz, hx, hy, hz, ax, ay, az, bx, by', bz] toNat = some gs ∧ BodyOK coll gs := by
  generalize hv : (⟨vx, vy, vz⟩ : V3 α) = v
  generalize hhh : (⟨hx, hy, hz⟩ : V3 α) = h at hh
  generalize haa : (⟨ax, ay, az⟩ : V3 α) = a at ha
  generalize hbb : (⟨bx, by', bz⟩ : V3 α) = b at hb
  obtain ⟨t1, t2, h1, h2, f1, f2⟩ := end_planes ok h v hh
  have hsa := ok.sqrt_pos _ ha; have hsa2 := ok.sqrt_sq _ ha.le
  have hsb := ok.sqrt_pos _ hb; have hsb2 := ok.sqrt_sq _ hb.le
  -- the quadric in its own frame, moved to the lab frame
  obtain ⟨q', hq, -⟩ := quad_transport (1 / a.dot a) (1 / b.dot b) 0 0 0 0 0 0 0 (-1)
    ⟨v, ⟨V3.smul (1 / Transc.sqrt (a.dot a)) a, V3.smul (1 / Transc.sqrt (b.dot b)) b,
      V3.smul (1 / Transc.sqrt (h.dot h)) h⟩⟩ ⟨0, 0, 0⟩
  have hconv : convertMacro (0:α) 0 "rec" [vx, vy, vz, hx, hy, hz, ax, ay, az, bx, by', bz] =
      ((convertCard (0:α) 0 "gq" q').map fun c => c.map fun (t, s) => (t, s * 1)).bind fun c1 =>
        some (c1 ++ [(t1, 1)] ++ [(t2, -1)]) := by
    have hq2 := hq
    simp only [one_div] at hq2
    simp [convertMacro, macroParts, hv, hhh, haa, hbb, inv_some _ ha.ne', inv_some _ hb.ne',
      renorm_some ok _ ha, renorm_some ok _ hb, renorm_some ok _ hh, quadInFrame, hq2, h1, h2]
    cases convertCard (0:α) 0 "gq" q' <;> simp
  -- make the ten coefficients explicit
  have hqt := fun p => quad_transport (1 / a.dot a) (1 / b.dot b) 0 0 0 0 0 0 0 (-1)
    ⟨v, ⟨V3.smul (1 / Transc.sqrt (a.dot a)) a, V3.smul (1 / Transc.sqrt (b.dot b)) b,
      V3.smul (1 / Transc.sqrt (h.dot h)) h⟩⟩ p
  simp only [transformQuad] at hq hqt
  cases hq
  obtain ⟨t, ht, hf⟩ := gq_part (α := α) _ _ _ _ _ _ _ _ _ _
  rw [ht] at hconv
  refine ⟨[(t, 1), (t1, 1), (t2, -1)],
    [fun p => let d := p.sub v; sq (d.dot a) / sq a.norm2 + sq (d.dot b) / sq b.norm2 - 1, planeOut h (v.add h),
     planeOut h.neg v], by rw [hconv]; simp, ?_, ?_⟩
  · rw [← hv, ← hhh, ← haa, ← hbb]; rfl
  · refine .cons (Or.inl ⟨rfl, 1, one_pos, fun p => ?_⟩) (.cons f1 (.cons f2 .nil))
    obtain ⟨q'', hq'', he⟩ := hqt p
    cases hq''
    rw [hf p, he, one_mul]
    have hsh := ok.sqrt_pos _ hh
    simp only [V3.norm2] at *
    generalize a.dot a = na at *
    generalize b.dot b = nb at *
    generalize h.dot h = nh at *
    generalize Transc.sqrt na = sa at *
    generalize Transc.sqrt nb = sb at *
    generalize Transc.sqrt nh = sh at *
    simp only [evalQuadric, Motion.toAux, M3.mulVec, V3.dot, V3.smul, V3.sub, sq]
    have hsa0 := hsa.ne'; have hsb0 := hsb.ne'; have hsh0 := hsh.ne'
    have ha0 := ha.ne'; have hb0 := hb.ne'
    congr 1
    subst hsa2 hsb2
    field_simp
    ring

/-- non-vacuity over ℝ: a left-handed box -/
example : ∃ coll gs, convertMacro (0:ℝ) 0 "box" [0, 0, 0, 1, 0, 0, 0, 0, 2, 0, 3, 0] = some coll ∧
    bodyFacets "box" [0, 0, 0, 1, 0, 0, 0, 0, 2, 0, 3, 0] (fun _ => 0) = some gs ∧ BodyOK coll gs :=
  box_ok transcOK_real _ 0 0 0 1 0 0 0 0 2 0 3 0 (by norm_num [V3.dot]) (by norm_num [V3.dot]) (by norm_num [V3.dot])
    (by norm_num [V3.dot]) (by norm_num [V3.dot]) (by norm_num [V3.dot]) (by norm_num [V3.dot, V3.cross])

end T4V.C03
