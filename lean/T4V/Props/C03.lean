import T4V.Proofs.Macro
import T4V.Proofs.RealOK
import T4V.Proofs.Transform
import T4V.Proofs.Rot
import T4V.Props.C02
/-!
# Property C03 — macrobodies: interior, exterior and numbered facets

Model: `T4V.Model.Macro` (`MacroBodies.py`: body ↦ facets `(mnemonic, parameters, side)`, each converted
like an ordinary card, `SurfaceCollection.join`).  Spec: `bodyFacets` (`T4V.Spec.MCNP`): MCNP's facets in
MCNP's numbering as outward implicit functions.  `BodyOK coll gs`: the k-th emitted signed surface is the
k-th facet (same zero set, outward side positive).  Proved for RPP, SPH, BOX (either handedness), RCC,
RHP/HEX with 9 and 15 entries, WED, REC with 10 and 12 entries, TRC and ELL in both forms, any orientation, and ARB
with any admissible descriptors: every macrobody of the converter.
-/
set_option linter.unusedSectionVars false
set_option linter.unusedSimpArgs false
namespace T4V.C03
open T4V T4V.Surf T4V.Macro T4V.Tr
variable {α : Type} [Field α] [LinearOrder α] [IsStrictOrderedRing α] [Transc α]

/-- **negative reference to a body** = inside every facet; **positive reference** = outside some facet -/
theorem body_reference {coll : List (TSurf α × Int)} {gs : List (V3 α → α)} (h : BodyOK coll gs) (p : V3 α) :
    collNegative coll p = some (gs.all fun g => decide (g p < 0)) ∧
    collPositive coll p = some (gs.any fun g => decide (0 < g p)) := by
  induction h with
  | nil => exact ⟨rfl, rfl⟩
  | cons hf _ ih =>
    obtain ⟨v, hv, h1, h2⟩ := facetOK_neg_iff hf p
    obtain ⟨ihn, ihp⟩ := ih
    unfold collNegative at ihn; unfold collPositive at ihp
    unfold collNegative collPositive
    simp only [List.foldr_cons, hv, ihn, ihp, h1, h2, List.all_cons, List.any_cons, Bool.and_comm, Bool.or_comm, and_self]

/-- **facet reference `b.k`**: the k-th emitted surface, with its side, is MCNP's k-th facet -/
theorem facet_reference {coll : List (TSurf α × Int)} {gs : List (V3 α → α)} (h : BodyOK coll gs) (k : Nat)
    (ts : TSurf α × Int) (hk : facetOf coll k = some ts) : ∃ g, gs[k - 1]? = some g ∧ FacetOK ts g := by
  unfold facetOf at hk
  split at hk
  · cases hk
  · have hlen := h.length_eq
    have hlt : k - 1 < coll.length := by
      by_contra hc; rw [List.getElem?_eq_none (not_lt.mp hc)] at hk; cases hk
    rw [List.getElem?_eq_getElem hlt] at hk; cases hk
    exact ⟨gs[k - 1]'(hlen ▸ hlt), List.getElem?_eq_getElem _, List.Forall₂.get h hlt (hlen ▸ hlt)⟩

theorem rpp_ok (ok : TranscOK α) (toNat : α → Nat) (x0 x1 y0 y1 z0 z1 : α) :
    ∃ coll gs, convertMacro (0:α) 0 "rpp" [x0, x1, y0, y1, z0, z1] = some coll ∧
      bodyFacets "rpp" [x0, x1, y0, y1, z0, z1] toNat = some gs ∧ BodyOK coll gs := by
  have e100 : (0:α) < 1 * 1 + 0 * 0 + 0 * 0 := by norm_num
  have e010 : (0:α) < 0 * 0 + 1 * 1 + 0 * 0 := by norm_num
  have e001 : (0:α) < 0 * 0 + 0 * 0 + 1 * 1 := by norm_num
  obtain ⟨t1, h1, s1⟩ := plane_part ok 1 0 0 x1 e100
  obtain ⟨t2, h2, s2⟩ := plane_part ok 1 0 0 x0 e100
  obtain ⟨t3, h3, s3⟩ := plane_part ok 0 1 0 y1 e010
  obtain ⟨t4, h4, s4⟩ := plane_part ok 0 1 0 y0 e010
  obtain ⟨t5, h5, s5⟩ := plane_part ok 0 0 1 z1 e001
  obtain ⟨t6, h6, s6⟩ := plane_part ok 0 0 1 z0 e001
  refine ⟨[(t1, 1), (t2, -1), (t3, 1), (t4, -1), (t5, 1), (t6, -1)], _, ?_, rfl, ?_⟩
  · simp [convertMacro, macroParts, h1, h2, h3, h4, h5, h6]
  · refine .cons (facet_pos s1 fun p => by ring) (.cons (facet_neg s2 fun p => by ring)
      (.cons (facet_pos s3 fun p => by ring) (.cons (facet_neg s4 fun p => by ring)
      (.cons (facet_pos s5 fun p => by ring) (.cons (facet_neg s6 fun p => by ring) .nil)))))

theorem sph_ok (toNat : α → Nat) (x y z r : α) :
    ∃ coll gs, convertMacro (0:α) 0 "sph" [x, y, z, r] = some coll ∧
      bodyFacets "sph" [x, y, z, r] toNat = some gs ∧ BodyOK coll gs := by
  obtain ⟨t, hs, hsame⟩ := sphere_same (α := α) x y z r
  have hc : convertCard (0:α) 0 "s" [x, y, z, r] = some [(t, 1)] := hs
  exact ⟨[(t, 1)], _, by simp [convertMacro, macroParts, hc], rfl, .cons (Or.inl ⟨rfl, hsame⟩) .nil⟩

/-- BOX with mutually orthogonal edges of either handedness -/
theorem box_ok (ok : TranscOK α) (toNat : α → Nat) (vx vy vz ax ay az bx by' bz cx cy cz : α)
    (hab : (⟨ax, ay, az⟩ : V3 α).dot ⟨bx, by', bz⟩ = 0) (hac : (⟨ax, ay, az⟩ : V3 α).dot ⟨cx, cy, cz⟩ = 0)
    (hbc : (⟨bx, by', bz⟩ : V3 α).dot ⟨cx, cy, cz⟩ = 0)
    (ha : 0 < (⟨ax, ay, az⟩ : V3 α).dot ⟨ax, ay, az⟩) (hb : 0 < (⟨bx, by', bz⟩ : V3 α).dot ⟨bx, by', bz⟩)
    (hc : 0 < (⟨cx, cy, cz⟩ : V3 α).dot ⟨cx, cy, cz⟩)
    (hT : ((⟨bx, by', bz⟩ : V3 α).cross ⟨cx, cy, cz⟩).dot ⟨ax, ay, az⟩ ≠ 0) :
    ∃ coll gs, convertMacro (0:α) 0 "box" [vx, vy, vz, ax, ay, az, bx, by', bz, cx, cy, cz] = some coll ∧
      bodyFacets "box" [vx, vy, vz, ax, ay, az, bx, by', bz, cx, cy, cz] toNat = some gs ∧ BodyOK coll gs := by
  set v : V3 α := ⟨vx, vy, vz⟩ with hv
  set a : V3 α := ⟨ax, ay, az⟩ with ha'
  set b : V3 α := ⟨bx, by', bz⟩ with hb'
  set c : V3 α := ⟨cx, cy, cz⟩ with hc'
  have hba : b.dot a = 0 := by rw [← hab]; simp only [V3.dot]; ring
  have hca : c.dot a = 0 := by rw [← hac]; simp only [V3.dot]; ring
  have hcb : c.dot b = 0 := by rw [← hbc]; simp only [V3.dot]; ring
  have hT2 : (c.cross a).dot b ≠ 0 := by
    have : (c.cross a).dot b = (b.cross c).dot a := by simp only [V3.dot, V3.cross]; ring
    rw [this]; exact hT
  have hT3 : (a.cross b).dot c ≠ 0 := by
    have : (a.cross b).dot c = (b.cross c).dot a := by simp only [V3.dot, V3.cross]; ring
    rw [this]; exact hT
  obtain ⟨p1x, p1y, p1z⟩ := cross_parallel a b c hab hac ha
  obtain ⟨p2x, p2y, p2z⟩ := cross_parallel b c a hbc hba hb
  obtain ⟨p3x, p3y, p3z⟩ := cross_parallel c a b hca hcb hc
  obtain ⟨t1, t2, h1, h2, f1, f2⟩ := opposite_pair ok (b.cross c) a v _ (div_ne_zero hT ha.ne') ha p1x p1y p1z
  obtain ⟨t3, t4, h3, h4, f3, f4⟩ := opposite_pair ok (c.cross a) b v _ (div_ne_zero hT2 hb.ne') hb p2x p2y p2z
  obtain ⟨t5, t6, h5, h6, f5, f6⟩ := opposite_pair ok (a.cross b) c v _ (div_ne_zero hT3 hc.ne') hc p3x p3y p3z
  refine ⟨_, _, ?_, rfl, .cons f1 (.cons f2 (.cons f3 (.cons f4 (.cons f5 (.cons f6 .nil)))))⟩
  simp [convertMacro, macroParts, ← hv, ← ha', ← hb', ← hc', h1, h2, h3, h4, h5, h6]

theorem rcc_ok (ok : TranscOK α) (toNat : α → Nat) (vx vy vz hx hy hz r : α)
    (hh : 0 < (⟨hx, hy, hz⟩ : V3 α).dot ⟨hx, hy, hz⟩) :
    ∃ coll gs, convertMacro (0:α) 0 "rcc" [vx, vy, vz, hx, hy, hz, r] = some coll ∧
      bodyFacets "rcc" [vx, vy, vz, hx, hy, hz, r] toNat = some gs ∧ BodyOK coll gs := by
  obtain ⟨t1, t2, h1, h2, f1, f2⟩ := end_planes ok ⟨hx, hy, hz⟩ ⟨vx, vy, vz⟩ hh
  have hc : convertCard (0:α) 0 "c" [vx, vy, vz, r, hx, hy, hz] =
      some [(convertCylinder ⟨vx, vy, vz⟩ ⟨hx, hy, hz⟩ r, 1)] := rfl
  refine ⟨[(convertCylinder ⟨vx, vy, vz⟩ ⟨hx, hy, hz⟩ r, 1), (t1, 1), (t2, -1)], _, ?_, rfl,
    .cons (Or.inl ⟨rfl, by exact cyl_general_same ⟨vx, vy, vz⟩ ⟨hx, hy, hz⟩ r hh⟩) (.cons f1 (.cons f2 .nil))⟩
  simp [convertMacro, macroParts, hc, h1, h2]

theorem rhp_ok (ok : TranscOK α) (toNat : α → Nat) (vx vy vz hx hy hz rx ry rz sx sy sz tx ty tz : α)
    (hh : 0 < (⟨hx, hy, hz⟩ : V3 α).dot ⟨hx, hy, hz⟩) (hr : 0 < (⟨rx, ry, rz⟩ : V3 α).dot ⟨rx, ry, rz⟩)
    (hs : 0 < (⟨sx, sy, sz⟩ : V3 α).dot ⟨sx, sy, sz⟩) (ht : 0 < (⟨tx, ty, tz⟩ : V3 α).dot ⟨tx, ty, tz⟩) :
    ∃ coll gs, convertMacro (0:α) 0 "rhp" [vx, vy, vz, hx, hy, hz, rx, ry, rz, sx, sy, sz, tx, ty, tz] = some coll ∧
      bodyFacets "rhp" [vx, vy, vz, hx, hy, hz, rx, ry, rz, sx, sy, sz, tx, ty, tz] toNat = some gs ∧
      BodyOK coll gs := by
  obtain ⟨t1, t2, h1, h2, f1, f2⟩ := rhp_pair ok ⟨rx, ry, rz⟩ ⟨vx, vy, vz⟩ hr
  obtain ⟨t3, t4, h3, h4, f3, f4⟩ := rhp_pair ok ⟨sx, sy, sz⟩ ⟨vx, vy, vz⟩ hs
  obtain ⟨t5, t6, h5, h6, f5, f6⟩ := rhp_pair ok ⟨tx, ty, tz⟩ ⟨vx, vy, vz⟩ ht
  obtain ⟨t7, t8, h7, h8, f7, f8⟩ := end_planes ok ⟨hx, hy, hz⟩ ⟨vx, vy, vz⟩ hh
  refine ⟨_, _, ?_, rfl, .cons f1 (.cons f2 (.cons f3 (.cons f4 (.cons f5 (.cons f6 (.cons f7 (.cons f8 .nil)))))))⟩
  simp [convertMacro, macroParts, h1, h2, h3, h4, h5, h6, h7, h8]

theorem wed_ok (ok : TranscOK α) (toNat : α → Nat) (vx vy vz ax ay az bx by' bz hx hy hz : α)
    (ha : 0 < (⟨ax, ay, az⟩ : V3 α).dot ⟨ax, ay, az⟩) (hb : 0 < (⟨bx, by', bz⟩ : V3 α).dot ⟨bx, by', bz⟩)
    (hh : 0 < (⟨hx, hy, hz⟩ : V3 α).dot ⟨hx, hy, hz⟩)
    (hab : (⟨ax, ay, az⟩ : V3 α).dot ⟨bx, by', bz⟩ = 0)
    (hc : 0 < (((⟨ax, ay, az⟩ : V3 α).sub ⟨bx, by', bz⟩).cross ⟨hx, hy, hz⟩).dot
      (((⟨ax, ay, az⟩ : V3 α).sub ⟨bx, by', bz⟩).cross ⟨hx, hy, hz⟩)) :
    ∃ coll gs, convertMacro (0:α) 0 "wed" [vx, vy, vz, ax, ay, az, bx, by', bz, hx, hy, hz] = some coll ∧
      bodyFacets "wed" [vx, vy, vz, ax, ay, az, bx, by', bz, hx, hy, hz] toNat = some gs ∧ BodyOK coll gs := by
  set v : V3 α := ⟨vx, vy, vz⟩ with hv
  set a : V3 α := ⟨ax, ay, az⟩ with ha'
  set b : V3 α := ⟨bx, by', bz⟩ with hb'
  set h : V3 α := ⟨hx, hy, hz⟩ with hh'
  obtain ⟨t1, h1, s1⟩ := planeNP_part ok ((a.sub b).cross h) (v.add a) hc
  obtain ⟨t2, h2, s2⟩ := planeNP_part ok a (v.add b) ha
  obtain ⟨t3, h3, s3⟩ := planeNP_part ok b (v.add a) hb
  obtain ⟨t4, t5, h4, h5, f4, f5⟩ := end_planes ok h v hh
  have e : ((a.sub b).cross h).dot a.neg = -(a.dot ((a.sub b).cross h)) := by
    simp only [V3.dot, V3.neg]; ring
  have f1 : FacetOK (t1, if (0:α) < a.dot ((a.sub b).cross h) then (1:Int) else -1)
      (planeOut (if ((a.sub b).cross h).dot a.neg < 0 then (a.sub b).cross h else ((a.sub b).cross h).neg) (v.add a)) := by
    rw [e]
    by_cases hp : 0 < a.dot ((a.sub b).cross h)
    · simp only [hp, if_true, neg_lt_zero]; exact Or.inl ⟨rfl, s1⟩
    · simp only [hp, if_false, neg_lt_zero]
      exact Or.inr ⟨rfl, Same.congr s1 fun p => by simp only [planeOut, V3.dot, V3.sub, V3.neg]; ring⟩
  have f2 : FacetOK (t2, -1) (planeOut a.neg v) := Or.inr ⟨rfl, Same.congr s2 fun p => by
    simp only [planeOut, V3.dot, V3.sub, V3.neg, V3.add] at hab ⊢; linear_combination -hab⟩
  have f3 : FacetOK (t3, -1) (planeOut b.neg v) := Or.inr ⟨rfl, Same.congr s3 fun p => by
    simp only [planeOut, V3.dot, V3.sub, V3.neg, V3.add] at hab ⊢; linear_combination -hab⟩
  refine ⟨_, _, ?_, rfl, .cons f1 (.cons f2 (.cons f3 (.cons f4 (.cons f5 .nil))))⟩
  simp [convertMacro, macroParts, ← hv, ← ha', ← hb', ← hh', h1, h2, h3, h4, h5]

/-! ### REC: elliptical cylinder through `transformation_quad` -/

theorem renorm_some (ok : TranscOK α) (v : V3 α) (h : 0 < v.dot v) :
    renorm? v = some (V3.smul (1 / Transc.sqrt (v.dot v)) v) := by
  have := (ok.sqrt_pos _ h).ne'
  simp [renorm?, this]

theorem inv_some (x : α) (h : x ≠ 0) : inv? x = some (1 / x) := by simp [inv?, h]

/-- a GQ part: the emitted QUAD evaluates the ten coefficients -/
theorem gq_part (a b c d e f g h j k : α) :
    ∃ t, convertCard (0:α) 0 "gq" [a, b, c, d, e, f, g, h, j, k] = some [(t, 1)] ∧
      ∀ p, t.f p = evalQuadric [a, b, c, d, e, f, g, h, j, k] p := by
  refine ⟨{ kind := .quad, ps := [a, b, c, d, e, f, g, h, j, k] }, rfl, fun p => ?_⟩
  simp [TSurf.f, TSurf.fLocal, evalQuadric, sq]

/-- **REC with twelve entries** (base, height, the two semi-axis vectors): elliptical cylinder + end planes,
in any orientation -/
theorem rec12_ok (ok : TranscOK α) (toNat : α → Nat) (vx vy vz hx hy hz ax ay az bx by' bz : α)
    (ha : 0 < (⟨ax, ay, az⟩ : V3 α).dot ⟨ax, ay, az⟩) (hb : 0 < (⟨bx, by', bz⟩ : V3 α).dot ⟨bx, by', bz⟩)
    (hh : 0 < (⟨hx, hy, hz⟩ : V3 α).dot ⟨hx, hy, hz⟩) :
    ∃ coll gs, convertMacro (0:α) 0 "rec" [vx, vy, vz, hx, hy, hz, ax, ay, az, bx, by', bz] = some coll ∧
      bodyFacets "rec" [vx, vy, vz, hx, hy, hz, ax, ay, az, bx, by', bz] toNat = some gs ∧ BodyOK coll gs := by
  generalize hv : (⟨vx, vy, vz⟩ : V3 α) = v
  generalize hhh : (⟨hx, hy, hz⟩ : V3 α) = h at hh
  generalize haa : (⟨ax, ay, az⟩ : V3 α) = a at ha
  generalize hbb : (⟨bx, by', bz⟩ : V3 α) = b at hb
  obtain ⟨t1, t2, h1, h2, f1, f2⟩ := end_planes ok h v hh
  have hsa := ok.sqrt_pos _ ha; have hsa2 := ok.sqrt_sq _ ha.le
  have hsb := ok.sqrt_pos _ hb; have hsb2 := ok.sqrt_sq _ hb.le
  -- the quadric in its own frame, moved to the lab frame
  obtain ⟨q', hq, -⟩ := quad_transport (1 / a.dot a) (1 / b.dot b) 0 0 0 0 0 0 0 (-1)
    ⟨v, ⟨V3.smul (1 / Transc.sqrt (a.dot a)) a, V3.smul (1 / Transc.sqrt (b.dot b)) b,
      V3.smul (1 / Transc.sqrt (h.dot h)) h⟩⟩ ⟨0, 0, 0⟩
  have hconv : convertMacro (0:α) 0 "rec" [vx, vy, vz, hx, hy, hz, ax, ay, az, bx, by', bz] =
      ((convertCard (0:α) 0 "gq" q').map fun c => c.map fun (t, s) => (t, s * 1)).bind fun c1 =>
        some (c1 ++ [(t1, 1)] ++ [(t2, -1)]) := by
    have hq2 := hq
    simp only [one_div] at hq2
    simp [convertMacro, macroParts, hv, hhh, haa, hbb, inv_some _ ha.ne', inv_some _ hb.ne',
      renorm_some ok _ ha, renorm_some ok _ hb, renorm_some ok _ hh, quadInFrame, hq2, h1, h2]
    cases convertCard (0:α) 0 "gq" q' <;> simp
  -- make the ten coefficients explicit
  have hqt := fun p => quad_transport (1 / a.dot a) (1 / b.dot b) 0 0 0 0 0 0 0 (-1)
    ⟨v, ⟨V3.smul (1 / Transc.sqrt (a.dot a)) a, V3.smul (1 / Transc.sqrt (b.dot b)) b,
      V3.smul (1 / Transc.sqrt (h.dot h)) h⟩⟩ p
  simp only [transformQuad] at hq hqt
  cases hq
  obtain ⟨t, ht, hf⟩ := gq_part (α := α) _ _ _ _ _ _ _ _ _ _
  rw [ht] at hconv
  refine ⟨[(t, 1), (t1, 1), (t2, -1)],
    [fun p => let d := p.sub v; sq (d.dot a) / sq a.norm2 + sq (d.dot b) / sq b.norm2 - 1, planeOut h (v.add h),
     planeOut h.neg v], by rw [hconv]; simp, ?_, ?_⟩
  · rw [← hv, ← hhh, ← haa, ← hbb]; rfl
  · refine .cons (Or.inl ⟨rfl, 1, one_pos, fun p => ?_⟩) (.cons f1 (.cons f2 .nil))
    obtain ⟨q'', hq'', he⟩ := hqt p
    cases hq''
    rw [hf p, he, one_mul]
    have hsh := ok.sqrt_pos _ hh
    simp only [V3.norm2] at *
    generalize a.dot a = na at *
    generalize b.dot b = nb at *
    generalize h.dot h = nh at *
    generalize Transc.sqrt na = sa at *
    generalize Transc.sqrt nb = sb at *
    generalize Transc.sqrt nh = sh at *
    simp only [evalQuadric, Motion.toAux, M3.mulVec, V3.dot, V3.smul, V3.sub, sq]
    have hsa0 := hsa.ne'; have hsb0 := hsb.ne'; have hsh0 := hsh.ne'
    have ha0 := ha.ne'; have hb0 := hb.ne'
    congr 1
    subst hsa2 hsb2
    field_simp
    ring

theorem renorm_some' (ok : TranscOK α) (v : V3 α) (n : α) (h : 0 < v.dot v) :
    renorm? v n = some (V3.smul (n / Transc.sqrt (v.dot v)) v) := by
  have := (ok.sqrt_pos _ h).ne'
  simp [renorm?, this]

/-- **REC with ten entries** (base, height, one semi-axis vector, the length of the other): the second axis is
`h × a` rescaled -/
theorem rec10_ok (ok : TranscOK α) (toNat : α → Nat) (vx vy vz hx hy hz ax ay az bl : α)
    (ha : 0 < (⟨ax, ay, az⟩ : V3 α).dot ⟨ax, ay, az⟩)
    (hh : 0 < (⟨hx, hy, hz⟩ : V3 α).dot ⟨hx, hy, hz⟩)
    (hc : 0 < ((⟨hx, hy, hz⟩ : V3 α).cross ⟨ax, ay, az⟩).dot ((⟨hx, hy, hz⟩ : V3 α).cross ⟨ax, ay, az⟩))
    (hbl : bl ≠ 0) :
    ∃ coll gs, convertMacro (0:α) 0 "rec" [vx, vy, vz, hx, hy, hz, ax, ay, az, bl] = some coll ∧
      bodyFacets "rec" [vx, vy, vz, hx, hy, hz, ax, ay, az, bl] toNat = some gs ∧ BodyOK coll gs := by
  generalize hv : (⟨vx, vy, vz⟩ : V3 α) = v
  generalize hhh : (⟨hx, hy, hz⟩ : V3 α) = h at hh hc
  generalize haa : (⟨ax, ay, az⟩ : V3 α) = a at ha hc
  generalize hcc : h.cross a = c at hc
  obtain ⟨t1, t2, h1, h2, f1, f2⟩ := end_planes ok h v hh
  have hsa := ok.sqrt_pos _ ha; have hsa2 := ok.sqrt_sq _ ha.le
  have hsc := ok.sqrt_pos _ hc; have hsc2 := ok.sqrt_sq _ hc.le
  generalize hbb : V3.smul (bl / Transc.sqrt (c.dot c)) c = b
  have hbv : b.dot b = bl * bl := by
    rw [← hbb]
    have : (V3.smul (bl / Transc.sqrt (c.dot c)) c).dot (V3.smul (bl / Transc.sqrt (c.dot c)) c) =
        (bl / Transc.sqrt (c.dot c)) * (bl / Transc.sqrt (c.dot c)) * c.dot c := by
      simp only [V3.dot, V3.smul]; ring
    rw [this]
    have hs0 := hsc.ne'
    generalize Transc.sqrt (c.dot c) = s at hsc hsc2 hs0
    rw [← hsc2]; field_simp
  have hb : 0 < b.dot b := by rw [hbv]; exact mul_self_pos.mpr hbl
  have hsb := ok.sqrt_pos _ hb; have hsb2 := ok.sqrt_sq _ hb.le
  obtain ⟨q', hq, -⟩ := quad_transport (1 / a.dot a) (1 / (bl * bl)) 0 0 0 0 0 0 0 (-1)
    ⟨v, ⟨V3.smul (1 / Transc.sqrt (a.dot a)) a, V3.smul (1 / Transc.sqrt (b.dot b)) b,
      V3.smul (1 / Transc.sqrt (h.dot h)) h⟩⟩ ⟨0, 0, 0⟩
  have hconv : convertMacro (0:α) 0 "rec" [vx, vy, vz, hx, hy, hz, ax, ay, az, bl] =
      ((convertCard (0:α) 0 "gq" q').map fun c => c.map fun (t, s) => (t, s * 1)).bind fun c1 =>
        some (c1 ++ [(t1, 1)] ++ [(t2, -1)]) := by
    have hq2 := hq
    simp only [one_div, mul_inv] at hq2
    simp [convertMacro, macroParts, hv, hhh, haa, hcc, hbb, inv_some _ ha.ne', inv_some _ (mul_self_pos.mpr hbl).ne',
      renorm_some ok _ ha, renorm_some ok _ hb, renorm_some ok _ hh, renorm_some' ok _ bl hc, quadInFrame, hq2, h1, h2]
    cases convertCard (0:α) 0 "gq" q' <;> simp
  have hqt := fun p => quad_transport (1 / a.dot a) (1 / (bl * bl)) 0 0 0 0 0 0 0 (-1)
    ⟨v, ⟨V3.smul (1 / Transc.sqrt (a.dot a)) a, V3.smul (1 / Transc.sqrt (b.dot b)) b,
      V3.smul (1 / Transc.sqrt (h.dot h)) h⟩⟩ p
  simp only [transformQuad] at hq hqt
  cases hq
  obtain ⟨t, ht, hf⟩ := gq_part (α := α) _ _ _ _ _ _ _ _ _ _
  rw [ht] at hconv
  refine ⟨[(t, 1), (t1, 1), (t2, -1)],
    [fun p => let d := p.sub v; sq (d.dot a) / sq a.norm2 + sq (d.dot c) / (c.norm2 * sq bl) - 1, planeOut h (v.add h),
     planeOut h.neg v], by rw [hconv]; simp, ?_, ?_⟩
  · rw [← hv, ← hcc, ← hhh, ← haa]; rfl
  · refine .cons (Or.inl ⟨rfl, 1, one_pos, fun p => ?_⟩) (.cons f1 (.cons f2 .nil))
    obtain ⟨q'', hq'', he⟩ := hqt p
    cases hq''
    rw [hf p, he, one_mul]
    have hsh := ok.sqrt_pos _ hh
    rw [hbv] at *
    subst hbb
    simp only [V3.norm2] at *
    generalize a.dot a = na at *
    generalize c.dot c = nc at *
    generalize h.dot h = nh at *
    generalize Transc.sqrt na = sa at *
    generalize Transc.sqrt nc = sc at *
    generalize Transc.sqrt (bl * bl) = sb at *
    generalize Transc.sqrt nh = sh at *
    simp only [evalQuadric, Motion.toAux, M3.mulVec, V3.dot, V3.smul, V3.sub, sq]
    have hsa0 := hsa.ne'; have hsb0 := hsb.ne'; have hsh0 := hsh.ne'; have hsc0 := hsc.ne'
    have ha0 := ha.ne'; have hc0 := hc.ne'
    congr 1
    subst hsa2 hsc2
    rw [show (1 / (bl * bl) : α) = 1 / (sb * sb) by rw [hsb2]]
    have hb2 : bl * bl = sb * sb := hsb2.symm
    field_simp
    linear_combination (sa ^ 4 * ((p.x - v.x) * c.x + (p.y - v.y) * c.y + (p.z - v.z) * c.z) ^ 2 * sh ^ 2 * (bl ^ 2 + sb ^ 2)) * hb2
/-- non-vacuity over ℝ: REC with ten entries, tilted axis -/
example : ∃ coll gs, convertMacro (0:ℝ) 0 "rec" [1, 2, 3, 0, 3, 4, 2, 0, 0, 1] = some coll ∧
    bodyFacets "rec" [1, 2, 3, 0, 3, 4, 2, 0, 0, 1] (fun _ => 0) = some gs ∧ BodyOK coll gs :=
  rec10_ok transcOK_real _ 1 2 3 0 3 4 2 0 0 1 (by norm_num [V3.dot]) (by norm_num [V3.dot])
    (by norm_num [V3.dot, V3.cross]) (by norm_num)

/-- a two-sheet cone card in generic form (`k`: apex, tangent of the half-angle, unit axis): all four branches of
`convert_cone` -/
theorem cone_general_same (ok : TranscOK α) (apex u : V3 α) (tanA : α) (hu : u.dot u = 1) :
    ∃ t, convertCard (0:α) 0 "k" [apex.x, apex.y, apex.z, tanA, u.x, u.y, u.z] = some [(t, 1)] ∧
      Same t fun p => (p.sub apex).norm2 - sq ((p.sub apex).dot u) - sq tanA * sq ((p.sub apex).dot u) := by
  have hth := theta_back ok tanA
  have hcad : cadOf (0:α) 0 "k" [apex.x, apex.y, apex.z, tanA, u.x, u.y, u.z] =
      some (mkCone apex.x apex.y apex.z tanA u.x u.y u.z none) := rfl
  simp only [convertCard, hcad, Option.bind_some, convertSurf, mkCone, convertCone]
  simp only [beq_iff_eq, Bool.and_eq_true, mul_zero, add_zero]
  unfold deg180 at hth
  split_ifs with h1 h2 h3
  · obtain ⟨hx, hy⟩ := h1
    have hz : u.z * u.z = 1 := by simpa [V3.dot, hx, hy] using hu
    refine ⟨_, rfl, 1, one_pos, fun p => ?_⟩
    simp only [TSurf.f, TSurf.fLocal, deg180, hth, V3.norm2, V3.dot, V3.sub, sq, hx, hy, one_mul]
    congr 1
    linear_combination ((p.z - apex.z) * (p.z - apex.z) * (1 + tanA * tanA)) * hz
  · obtain ⟨hy, hz⟩ := h2
    have hx : u.x * u.x = 1 := by simpa [V3.dot, hy, hz] using hu
    refine ⟨_, rfl, 1, one_pos, fun p => ?_⟩
    simp only [TSurf.f, TSurf.fLocal, deg180, hth, V3.norm2, V3.dot, V3.sub, sq, hy, hz, one_mul]
    congr 1
    linear_combination ((p.x - apex.x) * (p.x - apex.x) * (1 + tanA * tanA)) * hx
  · obtain ⟨hz, hx⟩ := h3
    have hy : u.y * u.y = 1 := by simpa [V3.dot, hz, hx] using hu
    refine ⟨_, rfl, 1, one_pos, fun p => ?_⟩
    simp only [TSurf.f, TSurf.fLocal, deg180, hth, V3.norm2, V3.dot, V3.sub, sq, hz, hx, one_mul]
    congr 1
    linear_combination ((p.y - apex.y) * (p.y - apex.y) * (1 + tanA * tanA)) * hy
  · refine ⟨_, rfl, 1, one_pos, fun p => ?_⟩
    simp only [TSurf.f, TSurf.fLocal, deg180, hth, perp2, V3.norm2, V3.dot, V3.sub, sq, one_mul] at hu ⊢
    congr 1
    linear_combination ((p.x - apex.x) * (p.x - apex.x) + (p.y - apex.y) * (p.y - apex.y) + (p.z - apex.z) * (p.z - apex.z)) * hu

theorem sq_fabs' (t : α) : sq (fabs t) = sq t := by
  unfold fabs sq; split <;> ring

set_option maxRecDepth 8000 in
/-- **TRC**: truncated cone with either radius larger, any axis -/
theorem trc_ok (ok : TranscOK α) (toNat : α → Nat) (vx vy vz hx hy hz r0 r1 : α)
    (hh : 0 < (⟨hx, hy, hz⟩ : V3 α).dot ⟨hx, hy, hz⟩) (hr : r0 - r1 ≠ 0) :
    ∃ coll gs, convertMacro (0:α) 0 "trc" [vx, vy, vz, hx, hy, hz, r0, r1] = some coll ∧
      bodyFacets "trc" [vx, vy, vz, hx, hy, hz, r0, r1] toNat = some gs ∧ BodyOK coll gs := by
  generalize hv : (⟨vx, vy, vz⟩ : V3 α) = v
  generalize hhh : (⟨hx, hy, hz⟩ : V3 α) = h at hh
  obtain ⟨t1, t2, h1, h2, f1, f2⟩ := end_planes ok h v hh
  have hs := ok.sqrt_pos _ hh
  have hs2 := ok.sqrt_sq _ hh.le
  have hu : (V3.smul (1 / Transc.sqrt (h.dot h)) h).dot (V3.smul (1 / Transc.sqrt (h.dot h)) h) = 1 := by
    have hs0 := hs.ne'
    have : (V3.smul (1 / Transc.sqrt (h.dot h)) h).dot (V3.smul (1 / Transc.sqrt (h.dot h)) h) =
        (1 / Transc.sqrt (h.dot h)) * (1 / Transc.sqrt (h.dot h)) * h.dot h := by
      simp only [V3.dot, V3.smul]; ring
    rw [this]
    generalize Transc.sqrt (h.dot h) = s at hs hs2 hs0
    rw [← hs2]; field_simp
  obtain ⟨t, ht, hsame⟩ := cone_general_same ok (v.add (V3.smul (r0 / (r0 - r1)) h))
    (V3.smul (1 / Transc.sqrt (h.dot h)) h) (fabs (r1 - r0) / Transc.sqrt (h.dot h)) hu
  refine ⟨[(t, 1), (t1, 1), (t2, -1)],
    [fun p => let d := p.sub v; let s := d.dot h / h.norm2; let rad := r0 + s * (r1 - r0)
              (d.norm2 - sq (d.dot h) / h.norm2) - sq rad, planeOut h (v.add h), planeOut h.neg v], ?_, ?_, ?_⟩
  · have hne : ((r0 - r1 == 0) || (Transc.sqrt (h.dot h) == 0)) = false := by simp [hr, hs.ne']
    have hparts : macroParts "trc" [vx, vy, vz, hx, hy, hz, r0, r1] =
        some [("k", [(v.add (V3.smul (r0 / (r0 - r1)) h)).x, (v.add (V3.smul (r0 / (r0 - r1)) h)).y,
                     (v.add (V3.smul (r0 / (r0 - r1)) h)).z, fabs (r1 - r0) / Transc.sqrt (h.dot h),
                     (V3.smul (1 / Transc.sqrt (h.dot h)) h).x, (V3.smul (1 / Transc.sqrt (h.dot h)) h).y,
                     (V3.smul (1 / Transc.sqrt (h.dot h)) h).z], 1),
              ("p", planeNP h (v.add h), 1), ("p", planeNP h v, -1)] := by
      simp only [macroParts, hv, hhh, V3.norm2, hne, Bool.false_eq_true, if_false]
    have hmn : (("trc" : String) == "arb") = false := by decide
    simp only [convertMacro, hmn, Bool.false_eq_true, if_false, hparts, Option.bind_eq_bind, Option.bind_some,
      List.mapM_cons, List.mapM_nil, ht, h1, h2, Option.map_some, Option.pure_def, List.map_cons, List.map_nil,
      List.flatten_cons, List.flatten_nil, List.cons_append, List.nil_append]
    simp
  · rw [← hv, ← hhh]; rfl
  · refine .cons (Or.inl ⟨rfl, Same.congr hsame fun p => ?_⟩) (.cons f1 (.cons f2 .nil))
    simp only [V3.norm2] at *
    have hnh : h.x * h.x + h.y * h.y + h.z * h.z = h.dot h := rfl
    generalize h.dot h = nh at *
    generalize Transc.sqrt nh = sh at *
    have hs0 := hs.ne'
    simp only [V3.dot, V3.smul, V3.sub, V3.add]
    have hfab : ∀ x y : α, sq (fabs x / y) = sq x / sq y := by
      intro x y; rw [show sq (fabs x / y) = sq (fabs x) / sq y by simp only [sq]; ring, sq_fabs']
    rw [hfab]
    simp only [sq]
    subst hs2
    have e3 : r0 + ((p.x - v.x) * h.x + (p.y - v.y) * h.y + (p.z - v.z) * h.z) / (sh * sh) * (r1 - r0) =
        (r1 - r0) * (((p.x - v.x) * h.x + (p.y - v.y) * h.y + (p.z - v.z) * h.z) - r0 / (r0 - r1) * (sh * sh)) / (sh * sh) := by
      field_simp; ring
    rw [e3]
    generalize r0 / (r0 - r1) = c
    have e1 : (p.x - (v.x + c * h.x)) * (1 / sh * h.x) + (p.y - (v.y + c * h.y)) * (1 / sh * h.y) +
        (p.z - (v.z + c * h.z)) * (1 / sh * h.z) =
        (((p.x - v.x) * h.x + (p.y - v.y) * h.y + (p.z - v.z) * h.z) - c * (sh * sh)) / sh := by
      rw [← hnh]; field_simp; ring
    have e2 : (p.x - (v.x + c * h.x)) * (p.x - (v.x + c * h.x)) + (p.y - (v.y + c * h.y)) * (p.y - (v.y + c * h.y)) +
        (p.z - (v.z + c * h.z)) * (p.z - (v.z + c * h.z)) =
        ((p.x - v.x) * (p.x - v.x) + (p.y - v.y) * (p.y - v.y) + (p.z - v.z) * (p.z - v.z))
          - 2 * c * ((p.x - v.x) * h.x + (p.y - v.y) * h.y + (p.z - v.z) * h.z) + c * c * (sh * sh) := by
      rw [← hnh]; ring
    rw [e1, e2]
    generalize (p.x - v.x) * h.x + (p.y - v.y) * h.y + (p.z - v.z) * h.z = D
    generalize (p.x - v.x) * (p.x - v.x) + (p.y - v.y) * (p.y - v.y) + (p.z - v.z) * (p.z - v.z) = N
    field_simp
    ring
/-- non-vacuity over ℝ: a slanted truncated cone that narrows -/
example : ∃ coll gs, convertMacro (0:ℝ) 0 "trc" [0, 0, 0, 1, 2, 2, 3, 1] = some coll ∧
    bodyFacets "trc" [0, 0, 0, 1, 2, 2, 3, 1] (fun _ => 0) = some gs ∧ BodyOK coll gs :=
  trc_ok transcOK_real _ 0 0 0 1 2 2 3 1 (by norm_num [V3.dot]) (by norm_num)

/-- non-vacuity over ℝ: a left-handed box -/
example : ∃ coll gs, convertMacro (0:ℝ) 0 "box" [0, 0, 0, 1, 0, 0, 0, 0, 2, 0, 3, 0] = some coll ∧
    bodyFacets "box" [0, 0, 0, 1, 0, 0, 0, 0, 2, 0, 3, 0] (fun _ => 0) = some gs ∧ BodyOK coll gs :=
  box_ok transcOK_real _ 0 0 0 1 0 0 0 0 2 0 3 0 (by norm_num [V3.dot]) (by norm_num [V3.dot]) (by norm_num [V3.dot])
    (by norm_num [V3.dot]) (by norm_num [V3.dot]) (by norm_num [V3.dot]) (by norm_num [V3.dot, V3.cross])

end T4V.C03

/-! ### ELL: spheroid of revolution through `transformation_quad`, in the frame chosen by the converter -/

namespace T4V.C03
open T4V T4V.Surf T4V.Macro T4V.Tr
variable {α : Type} [Field α] [LinearOrder α] [IsStrictOrderedRing α] [Transc α]

/-- an orthonormal frame resolves the square of a vector -/
theorem frame_resolves {b : M3 α} (h : Rot b) (d : V3 α) :
    sq (b.r1.dot d) + sq (b.r2.dot d) + sq (b.r3.dot d) = d.dot d := by
  have c11 := h.c11; have c22 := h.c22; have c33 := h.c33; have c12 := h.c12; have c13 := h.c13; have c23 := h.c23
  simp only [V3.dot, sq] at *
  linear_combination (d.x * d.x) * c11 + (d.y * d.y) * c22 + (d.z * d.z) * c33 + (2 * d.x * d.y) * c12 +
    (2 * d.x * d.z) * c13 + (2 * d.y * d.z) * c23

/-- spheroid of revolution with centre `c`, major semi-axis vector `va` and squared minor radius `min2`, in a
frame whose first axis is along `va` and whose second axis is any unit vector orthogonal to it -/
theorem ell_core (ok : TranscOK α) (c va ub : V3 α) (min2 : α) (hva : 0 < va.dot va) (hmin : min2 ≠ 0)
    (hub : ub.dot ub = 1) (hab : (V3.smul (1 / Transc.sqrt (va.dot va)) va).dot ub = 0) :
    ∃ q t, quadInFrame [1 / va.dot va, 1 / min2, 1 / min2, 0, 0, 0, 0, 0, 0, -1] c
        (V3.smul (1 / Transc.sqrt (va.dot va)) va) ub ((V3.smul (1 / Transc.sqrt (va.dot va)) va).cross ub) = some q ∧
      convertCard (0:α) 0 "gq" q = some [(t, 1)] ∧
      ∀ p, t.f p = some (let d := p.sub c; let par2 := sq (d.dot va) / va.norm2
                         par2 / va.norm2 + (d.norm2 - par2) / min2 - 1) := by
  have hs := ok.sqrt_pos _ hva
  have hs2 := ok.sqrt_sq _ hva.le
  generalize hua : V3.smul (1 / Transc.sqrt (va.dot va)) va = ua at hab
  have huu : ua.dot ua = 1 := by
    rw [← hua]
    have : (V3.smul (1 / Transc.sqrt (va.dot va)) va).dot (V3.smul (1 / Transc.sqrt (va.dot va)) va) =
        (1 / Transc.sqrt (va.dot va)) * (1 / Transc.sqrt (va.dot va)) * va.dot va := by
      simp only [V3.dot, V3.smul]; ring
    rw [this]
    have hs0 := hs.ne'
    generalize Transc.sqrt (va.dot va) = s at hs hs2 hs0
    rw [← hs2]; field_simp
  have hR := (cross_completion ua ub huu hub hab).1.1
  have hqt := fun p => quad_transport (1 / va.dot va) (1 / min2) (1 / min2) 0 0 0 0 0 0 (-1)
    ⟨c, ⟨ua, ub, ua.cross ub⟩⟩ p
  simp only [transformQuad] at hqt
  obtain ⟨t, ht, hf⟩ := gq_part (α := α) _ _ _ _ _ _ _ _ _ _
  refine ⟨_, t, rfl, ht, fun p => ?_⟩
  obtain ⟨q'', hq'', he⟩ := hqt p
  cases hq''
  rw [hf p, he]
  have hres := frame_resolves hR (p.sub c)
  have hpar : sq (ua.dot (p.sub c)) = sq ((p.sub c).dot va) / va.dot va := by
    rw [← hua]
    have : (V3.smul (1 / Transc.sqrt (va.dot va)) va).dot (p.sub c) =
        (1 / Transc.sqrt (va.dot va)) * (p.sub c).dot va := by simp only [V3.dot, V3.smul]; ring
    rw [this]
    have hs0 := hs.ne'
    generalize Transc.sqrt (va.dot va) = s at hs hs2 hs0
    rw [← hs2]; simp only [sq]; field_simp
  simp only [evalQuadric, Motion.toAux, M3.mulVec, V3.norm2] at *
  congr 1
  generalize (ua.cross ub).dot (p.sub c) = w at *
  generalize ub.dot (p.sub c) = y at *
  generalize ua.dot (p.sub c) = x at *
  generalize (p.sub c).dot (p.sub c) = dd at *
  generalize (p.sub c).dot va = dv at *
  have hva0 := hva.ne'
  simp only [sq] at *
  have hyw : y * y + w * w = dd - dv * dv / va.dot va := by rw [← hpar, ← hres]; ring
  rw [hpar] at *
  generalize va.dot va = n at *
  field_simp
  field_simp at hyw
  linear_combination (n) * hyw
end T4V.C03
namespace T4V.C03
open T4V T4V.Surf T4V.Macro T4V.Tr
variable {α : Type} [Field α] [LinearOrder α] [IsStrictOrderedRing α] [Transc α]

theorem fabs_eq_abs (t : α) : fabs t = |t| := by
  unfold fabs; split
  · rw [abs_of_neg ‹_›]
  · rw [abs_of_nonneg (not_lt.mp ‹_›)]

theorem unit_dot_self (ok : TranscOK α) (w : V3 α) (hw : 0 < w.dot w) :
    (V3.smul (1 / Transc.sqrt (w.dot w)) w).dot (V3.smul (1 / Transc.sqrt (w.dot w)) w) = 1 := by
  have hs := ok.sqrt_pos _ hw
  have hs2 := ok.sqrt_sq _ hw.le
  have : (V3.smul (1 / Transc.sqrt (w.dot w)) w).dot (V3.smul (1 / Transc.sqrt (w.dot w)) w) =
      (1 / Transc.sqrt (w.dot w)) * (1 / Transc.sqrt (w.dot w)) * w.dot w := by
    simp only [V3.dot, V3.smul]; ring
  rw [this]
  have hs0 := hs.ne'
  generalize Transc.sqrt (w.dot w) = s at hs hs2 hs0
  rw [← hs2]; field_simp

/-- a coordinate of a unit vector whose absolute value is not 1 leaves room: `1 - t² > 0` -/
theorem room_of_tol (tol t r : α) (htol : 0 ≤ tol) (hr : 0 ≤ r) (hu : t * t + r = 1)
    (h : tol < fabs (1 - fabs t)) : 0 < 1 - t * t := by
  rw [fabs_eq_abs, fabs_eq_abs] at h
  have h1 : t * t ≤ 1 := by linarith
  rcases (lt_or_eq_of_le h1) with h2 | h2
  · linarith
  · exfalso
    have : |t| = 1 := by
      have : |t| * |t| = 1 := by rw [abs_mul_abs_self]; exact h2
      have h0 := abs_nonneg t
      nlinarith
    rw [this] at h
    simp at h
    linarith

/-- the second axis chosen by the converter: the first coordinate axis that is not (within 1e-3) along `ua`,
made orthogonal to `ua` and normalised -/
theorem pick_ok (ok : TranscOK α) (ua e : V3 α) (comp : α) (huu : ua.dot ua = 1) (hcomp : e.dot ua = comp)
    (hroom : 0 < e.dot e - comp * comp) :
    ∃ ub, renorm? (e.sub (V3.smul comp ua)) = some ub ∧ ub.dot ub = 1 ∧ ua.dot ub = 0 := by
  have hw : 0 < (e.sub (V3.smul comp ua)).dot (e.sub (V3.smul comp ua)) := by
    have : (e.sub (V3.smul comp ua)).dot (e.sub (V3.smul comp ua)) = e.dot e - comp * comp := by
      simp only [V3.dot, V3.sub, V3.smul] at *
      linear_combination (comp * comp) * huu - (2 * comp) * hcomp
    rw [this]; exact hroom
  refine ⟨_, renorm_some ok _ hw, unit_dot_self ok _ hw, ?_⟩
  have : ua.dot (V3.smul (1 / Transc.sqrt ((e.sub (V3.smul comp ua)).dot (e.sub (V3.smul comp ua))))
      (e.sub (V3.smul comp ua))) =
      (1 / Transc.sqrt ((e.sub (V3.smul comp ua)).dot (e.sub (V3.smul comp ua)))) * (e.dot ua - comp * ua.dot ua) := by
    simp only [V3.dot, V3.sub, V3.smul]; ring
  rw [this, huu, hcomp]; ring
end T4V.C03
namespace T4V.C03
open T4V T4V.Surf T4V.Macro T4V.Tr
variable {α : Type} [Field α] [LinearOrder α] [IsStrictOrderedRing α] [Transc α]

theorem second_axis (ok : TranscOK α) (ua : V3 α) (tol : α) (h0 : 0 ≤ tol) (h1 : tol < 1) (huu : ua.dot ua = 1) :
    ∃ ub, (if tol < fabs (1 - fabs ua.x) then renorm? ((⟨1, 0, 0⟩ : V3 α).sub (V3.smul ua.x ua))
           else if tol < fabs (1 - fabs ua.y) then renorm? ((⟨0, 1, 0⟩ : V3 α).sub (V3.smul ua.y ua))
           else renorm? ((⟨0, 0, 1⟩ : V3 α).sub (V3.smul ua.z ua))) = some ub ∧ ub.dot ub = 1 ∧ ua.dot ub = 0 := by
  have hu : ua.x * ua.x + ua.y * ua.y + ua.z * ua.z = 1 := huu
  split_ifs with hx hy
  · exact pick_ok ok ua _ ua.x huu (by simp [V3.dot]) (by
      have := room_of_tol tol ua.x (ua.y * ua.y + ua.z * ua.z) h0
        (add_nonneg (mul_self_nonneg _) (mul_self_nonneg _)) (by linarith) hx
      simpa [V3.dot] using this)
  · exact pick_ok ok ua _ ua.y huu (by simp [V3.dot]) (by
      have := room_of_tol tol ua.y (ua.x * ua.x + ua.z * ua.z) h0
        (add_nonneg (mul_self_nonneg _) (mul_self_nonneg _)) (by linarith) hy
      simpa [V3.dot] using this)
  · refine pick_ok ok ua _ ua.z huu (by simp [V3.dot]) ?_
    rw [fabs_eq_abs, fabs_eq_abs] at hx
    have hx' := not_lt.mp hx
    have hax : 0 < |ua.x| := by
      have := (abs_le.mp hx').2
      linarith
    have : 0 < ua.x * ua.x := by rw [← abs_mul_abs_self]; exact mul_pos hax hax
    have hy2 := mul_self_nonneg ua.y
    simp only [V3.dot]
    linarith
end T4V.C03
namespace T4V.C03
open T4V T4V.Surf T4V.Macro T4V.Tr
variable {α : Type} [Field α] [LinearOrder α] [IsStrictOrderedRing α] [Transc α]

theorem ell_neg_ok (ok : TranscOK α) (toNat : α → Nat) (cx cy cz ax ay az rm : α)
    (ha : 0 < (⟨ax, ay, az⟩ : V3 α).dot ⟨ax, ay, az⟩) (hrm : rm < 0) :
    ∃ coll gs, convertMacro (0:α) 0 "ell" [cx, cy, cz, ax, ay, az, rm] = some coll ∧
      bodyFacets "ell" [cx, cy, cz, ax, ay, az, rm] toNat = some gs ∧ BodyOK coll gs := by
  generalize hc : (⟨cx, cy, cz⟩ : V3 α) = c
  generalize haa : (⟨ax, ay, az⟩ : V3 α) = va at ha
  have hpos : ¬ (0:α) < rm := not_lt.mpr hrm.le
  have huu := unit_dot_self ok va ha
  obtain ⟨ub, hub, hub1, hub2⟩ := second_axis ok (V3.smul (1 / Transc.sqrt (va.dot va)) va)
    (1 / (((1:α)+1+1+1+1) * (1+1) * (((1:α)+1+1+1+1) * (1+1)) * (((1:α)+1+1+1+1) * (1+1)))) (by positivity)
    (by rw [div_lt_one (by positivity)]; norm_num) huu
  have hmin : rm * rm ≠ 0 := (mul_self_pos.mpr hrm.ne).ne'
  obtain ⟨q, t, hq, ht, hf⟩ := ell_core ok c va ub (rm * rm) ha hmin hub1 hub2
  have hmn : (("ell" : String) == "arb") = false := by decide
  have hconv : convertMacro (0:α) 0 "ell" [cx, cy, cz, ax, ay, az, rm] = some [(t, 1)] := by
    simp only [convertMacro, hmn, Bool.false_eq_true, if_false, macroParts, hc, haa, if_neg hpos]
    simp only [Option.bind_eq_bind, Option.bind_some, Option.pure_def, renorm_some ok _ ha]
    split_ifs at hub ⊢ <;>
      (simp only [hub, inv_some _ ha.ne', inv_some _ hmin, hq, ht, Option.bind_eq_bind, Option.bind_some,
        List.mapM_cons, List.mapM_nil, Option.map_some, Option.pure_def, List.map_cons, List.map_nil,
        List.flatten_cons, List.flatten_nil, List.cons_append, List.nil_append]; simp)
  refine ⟨_, [fun p => let d := p.sub c; let par2 := sq (d.dot va) / va.norm2
                       par2 / va.norm2 + (d.norm2 - par2) / sq rm - 1], hconv, ?_, ?_⟩
  · rw [← hc, ← haa]
    simp only [bodyFacets, if_neg hpos]
  · exact .cons (Or.inl ⟨rfl, 1, one_pos, fun p => by rw [hf p, one_mul]; rfl⟩) .nil
end T4V.C03
namespace T4V.C03
open T4V T4V.Surf T4V.Macro T4V.Tr
variable {α : Type} [Field α] [LinearOrder α] [IsStrictOrderedRing α] [Transc α]

theorem ell_pos_ok (ok : TranscOK α) (toNat : α → Nat) (a1 a2 a3 b1 b2 b3 rm : α) (hrm : 0 < rm)
    (hrel : 0 < ((⟨a1, a2, a3⟩ : V3 α).sub (V3.smul (1 / two) ((⟨a1, a2, a3⟩ : V3 α).add ⟨b1, b2, b3⟩))).dot
                ((⟨a1, a2, a3⟩ : V3 α).sub (V3.smul (1 / two) ((⟨a1, a2, a3⟩ : V3 α).add ⟨b1, b2, b3⟩))))
    (hmin : rm * rm - (rm - Transc.sqrt (((⟨a1, a2, a3⟩ : V3 α).sub (V3.smul (1 / two) ((⟨a1, a2, a3⟩ : V3 α).add ⟨b1, b2, b3⟩))).dot
                ((⟨a1, a2, a3⟩ : V3 α).sub (V3.smul (1 / two) ((⟨a1, a2, a3⟩ : V3 α).add ⟨b1, b2, b3⟩))))) *
              (rm - Transc.sqrt (((⟨a1, a2, a3⟩ : V3 α).sub (V3.smul (1 / two) ((⟨a1, a2, a3⟩ : V3 α).add ⟨b1, b2, b3⟩))).dot
                ((⟨a1, a2, a3⟩ : V3 α).sub (V3.smul (1 / two) ((⟨a1, a2, a3⟩ : V3 α).add ⟨b1, b2, b3⟩))))) ≠ 0) :
    ∃ coll gs, convertMacro (0:α) 0 "ell" [a1, a2, a3, b1, b2, b3, rm] = some coll ∧
      bodyFacets "ell" [a1, a2, a3, b1, b2, b3, rm] toNat = some gs ∧ BodyOK coll gs := by
  generalize hf1 : (⟨a1, a2, a3⟩ : V3 α) = f1 at hrel hmin
  generalize hf2 : (⟨b1, b2, b3⟩ : V3 α) = f2 at hrel hmin
  generalize hcc : V3.smul (1 / two) (f1.add f2) = c at hrel hmin
  generalize hrr : f1.sub c = rel at hrel hmin
  have hs := ok.sqrt_pos _ hrel
  have hs2 := ok.sqrt_sq _ hrel.le
  generalize hvv : V3.smul (rm / Transc.sqrt (rel.dot rel)) rel = va
  have hvd : va.dot va = rm * rm := by
    rw [← hvv]
    have : (V3.smul (rm / Transc.sqrt (rel.dot rel)) rel).dot (V3.smul (rm / Transc.sqrt (rel.dot rel)) rel) =
        (rm / Transc.sqrt (rel.dot rel)) * (rm / Transc.sqrt (rel.dot rel)) * rel.dot rel := by
      simp only [V3.dot, V3.smul]; ring
    rw [this]
    have hs0 := hs.ne'
    generalize Transc.sqrt (rel.dot rel) = s at hs hs2 hs0
    rw [← hs2]; field_simp
  have ha : 0 < va.dot va := by rw [hvd]; exact mul_pos hrm hrm
  have huu := unit_dot_self ok va ha
  obtain ⟨ub, hub, hub1, hub2⟩ := second_axis ok (V3.smul (1 / Transc.sqrt (va.dot va)) va)
    (1 / (((1:α)+1+1+1+1) * (1+1) * (((1:α)+1+1+1+1) * (1+1)) * (((1:α)+1+1+1+1) * (1+1)))) (by positivity)
    (by rw [div_lt_one (by positivity)]; norm_num) huu
  obtain ⟨q, t, hq, ht, hf⟩ := ell_core ok c va ub _ ha hmin hub1 hub2
  have hmn : (("ell" : String) == "arb") = false := by decide
  have hconv : convertMacro (0:α) 0 "ell" [a1, a2, a3, b1, b2, b3, rm] = some [(t, 1)] := by
    simp only [convertMacro, hmn, Bool.false_eq_true, if_false, macroParts, hf1, hf2, hcc, hrr, if_pos hrm,
      renorm_some' ok _ rm hrel, hvv, Option.map_some]
    simp only [Option.bind_eq_bind, Option.bind_some, Option.pure_def, renorm_some ok _ ha]
    split_ifs at hub ⊢ <;>
      (simp only [hub, inv_some _ ha.ne', inv_some _ hmin, hq, ht, Option.bind_eq_bind, Option.bind_some,
        List.mapM_cons, List.mapM_nil, Option.map_some, Option.pure_def, List.map_cons, List.map_nil,
        List.flatten_cons, List.flatten_nil, List.cons_append, List.nil_append]; simp)
  have hva : V3.smul rm (unit rel) = va := by
    rw [← hvv]
    apply V3.ext' <;> simp only [unit, V3.smul, V3.norm2] <;> ring
  refine ⟨_, [fun p => let d := p.sub c; let par2 := sq (d.dot va) / va.norm2
                       par2 / va.norm2 + (d.norm2 - par2) / (sq rm - sq (rm - Transc.sqrt rel.norm2)) - 1], hconv, ?_, ?_⟩
  · rw [← hva, ← hrr, ← hcc, ← hf1, ← hf2]
    simp only [bodyFacets, if_pos hrm]
  · exact .cons (Or.inl ⟨rfl, 1, one_pos, fun p => by rw [hf p, one_mul]; rfl⟩) .nil
end T4V.C03
namespace T4V.C03
open T4V T4V.Surf T4V.Macro T4V.Tr
/-- non-vacuity over ℝ: centre / major-axis vector / minor radius, tilted -/
example : ∃ coll gs, convertMacro (0:ℝ) 0 "ell" [1, 2, 3, 0, 3, 4, -2] = some coll ∧
    bodyFacets "ell" [1, 2, 3, 0, 3, 4, -2] (fun _ => 0) = some gs ∧ BodyOK coll gs :=
  ell_neg_ok transcOK_real _ 1 2 3 0 3 4 (-2) (by norm_num [V3.dot]) (by norm_num)

/-- non-vacuity over ℝ: two foci and the major radius -/
example : ∃ coll gs, convertMacro (0:ℝ) 0 "ell" [0, 0, 2, 0, 0, -2, 3] = some coll ∧
    bodyFacets "ell" [0, 0, 2, 0, 0, -2, 3] (fun _ => 0) = some gs ∧ BodyOK coll gs := by
  have hrel : ((⟨0, 0, 2⟩ : V3 ℝ).sub (V3.smul (1 / two) ((⟨0, 0, 2⟩ : V3 ℝ).add ⟨0, 0, -2⟩))).dot
      ((⟨0, 0, 2⟩ : V3 ℝ).sub (V3.smul (1 / two) ((⟨0, 0, 2⟩ : V3 ℝ).add ⟨0, 0, -2⟩))) = 4 := by
    norm_num [V3.dot, V3.sub, V3.smul, V3.add, two]
  refine ell_pos_ok transcOK_real _ 0 0 2 0 0 (-2) 3 (by norm_num) (by rw [hrel]; norm_num) ?_
  rw [hrel]
  have h4 : Transc.sqrt (4:ℝ) = 2 := by
    show Real.sqrt 4 = 2
    rw [show (4:ℝ) = 2 * 2 by norm_num]; exact Real.sqrt_mul_self (by norm_num)
  rw [h4]; norm_num
end T4V.C03

/-! ### RHP / HEX with nine entries: `rotate` -/

namespace T4V.C03
open T4V T4V.Surf T4V.Macro T4V.Tr
variable {α : Type} [Field α] [LinearOrder α] [IsStrictOrderedRing α] [Transc α]

/-- the converter's `rotate` is Rodrigues' formula -/
theorem rotateV_eq (v k : V3 α) (angle : α) : rotateV v k angle = rotateAbout v k angle := by
  apply V3.ext' <;> simp only [rotateV, rotateAbout, V3.add, V3.smul] <;> ring

/-- a rotation about a unit axis keeps the length -/
theorem rotate_norm (ok : TranscOK α) (v k : V3 α) (angle : α) (hk : k.dot k = 1) :
    (rotateAbout v k angle).dot (rotateAbout v k angle) = v.dot v := by
  have hcs := ok.cos_sin angle
  simp only [rotateAbout, V3.add, V3.smul, V3.dot, V3.cross] at *
  generalize Transc.cos angle = c at *
  generalize Transc.sin angle = s at *
  linear_combination (s * s * (v.x * v.x + v.y * v.y + v.z * v.z) +
      (1 - c) * (1 - c) * ((k.x * v.x + k.y * v.y + k.z * v.z) * (k.x * v.x + k.y * v.y + k.z * v.z))) * hk +
    ((v.x * v.x + v.y * v.y + v.z * v.z) -
      (k.x * v.x + k.y * v.y + k.z * v.z) * (k.x * v.x + k.y * v.y + k.z * v.z)) * hcs

/-- **RHP/HEX with nine entries**: the second and third pairs of facets are the first pair turned by 60° and 120°
about the axis -/
theorem rhp9_ok (ok : TranscOK α) (toNat : α → Nat) (vx vy vz hx hy hz rx ry rz : α)
    (hh : 0 < (⟨hx, hy, hz⟩ : V3 α).dot ⟨hx, hy, hz⟩) (hr : 0 < (⟨rx, ry, rz⟩ : V3 α).dot ⟨rx, ry, rz⟩) :
    ∃ coll gs, convertMacro (0:α) 0 "rhp" [vx, vy, vz, hx, hy, hz, rx, ry, rz] = some coll ∧
      bodyFacets "rhp" [vx, vy, vz, hx, hy, hz, rx, ry, rz] toNat = some gs ∧ BodyOK coll gs := by
  generalize hv : (⟨vx, vy, vz⟩ : V3 α) = v
  generalize hhh : (⟨hx, hy, hz⟩ : V3 α) = h at hh
  generalize hrr : (⟨rx, ry, rz⟩ : V3 α) = r at hr
  have huh : (unit h).dot (unit h) = 1 := unit_dot_self ok h hh
  have hs : 0 < (rotateAbout r (unit h) (Transc.pi / (1 + 1 + 1))).dot (rotateAbout r (unit h) (Transc.pi / (1 + 1 + 1))) := by
    rw [rotate_norm ok _ _ _ huh]; exact hr
  have ht : 0 < (rotateAbout r (unit h) (two * (Transc.pi / (1 + 1 + 1)))).dot
      (rotateAbout r (unit h) (two * (Transc.pi / (1 + 1 + 1)))) := by
    rw [rotate_norm ok _ _ _ huh]; exact hr
  obtain ⟨t1, t2, h1, h2, f1, f2⟩ := rhp_pair ok r v hr
  obtain ⟨t3, t4, h3, h4, f3, f4⟩ := rhp_pair ok _ v hs
  obtain ⟨t5, t6, h5, h6, f5, f6⟩ := rhp_pair ok _ v ht
  obtain ⟨t7, t8, h7, h8, f7, f8⟩ := end_planes ok h v hh
  refine ⟨_, _, ?_, by rw [← hv, ← hhh, ← hrr]; rfl,
    .cons f1 (.cons f2 (.cons f3 (.cons f4 (.cons f5 (.cons f6 (.cons f7 (.cons f8 .nil)))))))⟩
  have e2 : two * Transc.pi / (1 + 1 + 1) = two * (Transc.pi / (1 + 1 + 1) : α) := by ring
  simp only [unit, V3.norm2, one_div] at h3 h4 h5 h6
  simp [convertMacro, macroParts, hv, hhh, hrr, renorm_some ok _ hh, rotateV_eq, e2, h1, h2, h3, h4, h5, h6, h7, h8]

/-- non-vacuity over ℝ: a nine-entry hexagonal prism along a tilted axis -/
example : ∃ coll gs, convertMacro (0:ℝ) 0 "rhp" [1, 2, 3, 0, 3, 4, 2, 0, 0] = some coll ∧
    bodyFacets "rhp" [1, 2, 3, 0, 3, 4, 2, 0, 0] (fun _ => 0) = some gs ∧ BodyOK coll gs :=
  rhp9_ok transcOK_real _ 1 2 3 0 3 4 2 0 0 (by norm_num [V3.dot]) (by norm_num [V3.dot])
end T4V.C03

/-! ### ARB: vertex table, facet descriptors, orientation by the centroid -/

namespace T4V.C03
open T4V T4V.Surf T4V.Macro T4V.Tr T4V.C02
variable {α : Type} [Field α] [LinearOrder α] [IsStrictOrderedRing α] [Transc α]

/-- one facet of `arb`, as computed inside `MacroBodies.arb`: the plane through three vertices, normal turned away from
the centroid -/
def arbFacetPart (cen p1 p2 p3 : V3 α) : Option (Part α) :=
  match planeFromPoints (0:α) 0 p1 p2 p3 with
  | some [a, b, c, d] =>
      let dist := cen.sub p1
      if (0:α) < dist.x * a + dist.y * b + dist.z * c then some ("p", [-a, -b, -c, -d], 1)
      else some ("p", [a, b, c, d], 1)
  | _ => none

/-- MCNP's facet: the plane through the three vertices, outward = away from the centroid -/
def arbFacetSpec (cen p1 p2 p3 : V3 α) : V3 α → α :=
  let g := planeOut ((p2.sub p1).cross (p3.sub p1)) p1
  if g cen < 0 then g else fun p => -(g p)

theorem planeFromPoints_eq (ok : TranscOK α) (p1 p2 p3 : V3 α)
    (h : 0 < ((p1.sub p2).cross (p1.sub p3)).norm2) :
    planeFromPoints (0:α) 0 p1 p2 p3 =
      (let n := (p1.sub p2).cross (p1.sub p3); let s := Transc.sqrt n.norm2
       some (if flip3 n (n.dot p1) then [-(1 / s * n.x), -(1 / s * n.y), -(1 / s * n.z), -(1 / s * n.dot p1)]
             else [1 / s * n.x, 1 / s * n.y, 1 / s * n.z, 1 / s * n.dot p1])) := by
  generalize hn : (p1.sub p2).cross (p1.sub p3) = n at h
  have hs := ok.sqrt_pos _ h
  have hc : 0 < 1 / Transc.sqrt n.norm2 := by positivity
  have hnz : ¬ (n.x = 0 ∧ n.y = 0 ∧ n.z = 0) := by
    rintro ⟨a, b, c⟩; simp [V3.norm2, V3.dot, a, b, c] at h
  have hl : ¬ (n.norm2 < 0 ∨ n.norm2 = 0) := by
    rintro (h' | h') <;> [exact absurd h (not_lt.mpr h'.le); exact absurd h (h' ▸ lt_irrefl _)]
  have hpos : (V3.smul (1 / Transc.sqrt n.norm2) n).dot p1 = 1 / Transc.sqrt n.norm2 * n.dot p1 := by
    simp only [V3.dot, V3.smul]; ring
  unfold planeFromPoints
  simp only [hn, Bool.or_eq_true, decide_eq_true_eq, beq_iff_eq, hl, if_false, hpos]
  exact orient_spec (1 / Transc.sqrt n.norm2) hc n (n.dot p1) hnz _ _

/-- **one ARB facet**: three vertices not on a line, centroid not in their plane: the emitted plane is the facet's plane
with the centroid on its negative side -/
theorem arb_facet (ok : TranscOK α) (cen p1 p2 p3 : V3 α)
    (h : 0 < ((p1.sub p2).cross (p1.sub p3)).norm2)
    (hcen : planeOut ((p2.sub p1).cross (p3.sub p1)) p1 cen ≠ 0) :
    ∃ part t, arbFacetPart cen p1 p2 p3 = some part ∧ part.2.2 = 1 ∧
      convertCard (0:α) 0 part.1 part.2.1 = some [(t, 1)] ∧ Same t (arbFacetSpec cen p1 p2 p3) := by
  have hpf := planeFromPoints_eq ok p1 p2 p3 h
  have hnS : (p2.sub p1).cross (p3.sub p1) = (p1.sub p2).cross (p1.sub p3) := by
    apply V3.ext' <;> simp only [V3.cross, V3.sub] <;> ring
  rw [hnS] at hcen
  unfold arbFacetSpec
  rw [hnS]
  generalize hn : (p1.sub p2).cross (p1.sub p3) = n at h hpf hcen
  have hs := ok.sqrt_pos _ h
  have hss := ok.sqrt_sq _ h.le
  simp only at hpf
  generalize hsd : Transc.sqrt n.norm2 = s at hs hss hpf
  have hc : 0 < 1 / s := by positivity
  have hs0 := hs.ne'
  have hsq : (1 / s * n.x) * (1 / s * n.x) + (1 / s * n.y) * (1 / s * n.y) + (1 / s * n.z) * (1 / s * n.z) = 1 := by
    have : n.x * n.x + n.y * n.y + n.z * n.z = s * s := by rw [hss]; rfl
    field_simp
    linear_combination this
  have hsq' : (-(1 / s * n.x)) * (-(1 / s * n.x)) + (-(1 / s * n.y)) * (-(1 / s * n.y)) + (-(1 / s * n.z)) * (-(1 / s * n.z)) = 1 := by
    linear_combination hsq
  have hg : ∀ p, planeOut n p1 p = n.x * (p.x - p1.x) + n.y * (p.y - p1.y) + n.z * (p.z - p1.z) := by
    intro p; simp only [planeOut, V3.dot, V3.sub]
  -- the two possible cards
  obtain ⟨tP, hP, sP⟩ := plane_part ok (1 / s * n.x) (1 / s * n.y) (1 / s * n.z) (1 / s * n.dot p1) (by rw [hsq]; exact one_pos)
  obtain ⟨tF, hF, sF⟩ := plane_part ok (-(1 / s * n.x)) (-(1 / s * n.y)) (-(1 / s * n.z)) (-(1 / s * n.dot p1))
    (by rw [hsq']; exact one_pos)
  have eP : ∀ p, (1 / s * n.x) * p.x + (1 / s * n.y) * p.y + (1 / s * n.z) * p.z - 1 / s * n.dot p1 = (1 / s) * planeOut n p1 p := by
    intro p; rw [hg]; simp only [V3.dot]; ring
  have eF : ∀ p, (-(1 / s * n.x)) * p.x + (-(1 / s * n.y)) * p.y + (-(1 / s * n.z)) * p.z - -(1 / s * n.dot p1) =
      (1 / s) * -(planeOut n p1 p) := by
    intro p; rw [hg]; simp only [V3.dot]; ring
  have sP' : Same tP (planeOut n p1) := same_scale sP (1 / s) hc eP
  have sF' : Same tF (fun p => -(planeOut n p1 p)) := same_scale sF (1 / s) hc eF
  -- the sign of the test `0 < dist · (a, b, c)` is the sign of ±g(centroid)
  have dP : (cen.sub p1).x * (1 / s * n.x) + (cen.sub p1).y * (1 / s * n.y) + (cen.sub p1).z * (1 / s * n.z) =
      (1 / s) * planeOut n p1 cen := by rw [hg]; simp only [V3.sub]; ring
  have dF : (cen.sub p1).x * -(1 / s * n.x) + (cen.sub p1).y * -(1 / s * n.y) + (cen.sub p1).z * -(1 / s * n.z) =
      -((1 / s) * planeOut n p1 cen) := by rw [hg]; simp only [V3.sub]; ring
  unfold arbFacetPart
  rw [hpf]
  rcases lt_or_gt_of_ne hcen with hneg | hposc
  · -- centroid on the negative side of g: the outward function is g
    have hm : (1 / s) * planeOut n p1 cen < 0 := mul_neg_of_pos_of_neg hc hneg
    rw [if_pos hneg]
    by_cases hf : flip3 n (n.dot p1) = true
    · simp only [hf, if_true, dF]
      rw [if_pos (by linarith)]
      exact ⟨_, tP, rfl, rfl, by simpa using hP, sP'⟩
    · simp only [hf, Bool.false_eq_true, if_false, dP]
      rw [if_neg (by linarith)]
      exact ⟨_, tP, rfl, rfl, hP, sP'⟩
  · have hm : 0 < (1 / s) * planeOut n p1 cen := mul_pos hc hposc
    rw [if_neg (not_lt.mpr hposc.le)]
    by_cases hf : flip3 n (n.dot p1) = true
    · simp only [hf, if_true, dF]
      rw [if_neg (by linarith)]
      exact ⟨_, tF, rfl, rfl, hF, sF'⟩
    · simp only [hf, Bool.false_eq_true, if_false, dP]
      rw [if_pos hm]
      exact ⟨_, tF, rfl, rfl, hF, sF'⟩
end T4V.C03

namespace T4V.C03
open T4V T4V.Surf T4V.Macro T4V.Tr T4V.C02
variable {α : Type} [Field α] [LinearOrder α] [IsStrictOrderedRing α] [Transc α]

/-! #### descriptors, vertices, centroid: the vocabulary of the ARB statement (MCNP's reading, `Spec.MCNP`) -/

def predNZ (l : List Nat) : List Nat := (l.filter (· != 0)).map (· - 1)

theorem facetDigits_go (fuel : Nat) : ∀ (m : Nat) (acc : List Nat),
    T4V.facetDigits.go fuel m (predNZ acc) = predNZ (digits.go fuel m acc) := by
  induction fuel with
  | zero => intro m acc; rfl
  | succ f ih =>
    intro m acc
    unfold T4V.facetDigits.go T4V.digits.go
    by_cases hm : (m == 0) = true
    · simp only [hm, if_true]
    · simp only [hm, Bool.false_eq_true, if_false]
      rw [← ih]
      congr 1
      by_cases hd : (m % 10 == 0) = true
      · have : (m % 10 != 0) = false := by simp [bne, hd]
        simp [predNZ, hd, List.filter_cons, this]
      · have : (m % 10 != 0) = true := by simp [bne, hd]
        simp [predNZ, hd, List.filter_cons, this]

theorem facetDigits_eq (n : Nat) : facetDigits n = predNZ (digits n) := by
  unfold facetDigits digits
  exact facetDigits_go 20 n []
end T4V.C03

namespace T4V.C03
open T4V T4V.Surf T4V.Macro T4V.Tr T4V.C02
variable {α : Type} [Field α] [LinearOrder α] [IsStrictOrderedRing α] [Transc α]

/-- the eight vertex triples of the card -/
def arbAllVerts (ps : List α) : List (V3 α) :=
  (List.range 8).filterMap fun i =>
    match ps.drop (3 * i) with
    | x :: y :: z :: _ => some ⟨x, y, z⟩
    | _ => none

/-- the non-empty facet descriptors, as lists of 1-based vertex numbers -/
def arbFacets (ps : List α) (toNat : α → Nat) : List (List Nat) :=
  ((ps.drop 24).map fun d => (digits (toNat d)).filter (· != 0)).filter (!·.isEmpty)

/-- the vertices in use (as many as there are distinct vertex numbers) and their centroid -/
def arbVerts (ps : List α) (toNat : α → Nat) : List (V3 α) :=
  (arbAllVerts ps).take ((arbFacets ps toNat).flatMap id).eraseDups.length
def arbCentroid (ps : List α) (toNat : α → Nat) : V3 α :=
  let vs := arbVerts ps toNat
  V3.smul (1 / vs.foldl (fun acc _ => acc + 1) (0:α)) (vs.foldl V3.add V3.zero)

/-- MCNP's reading of a facet descriptor (`Spec.MCNP.bodyFacets "arb"`) -/
def arbFacetOfS (vs : List (V3 α)) (cen : V3 α) (fc : List Nat) : Option (V3 α → α) :=
  match fc with
  | i :: j :: k :: _ =>
      match vs[i - 1]?, vs[j - 1]?, vs[k - 1]? with
      | some p1, some p2, some p3 => some (arbFacetSpec cen p1 p2 p3)
      | _, _, _ => none
  | _ => none

/-- the converter's reading (`MacroBodies.arb`, on 0-based vertex numbers) -/
def arbFacetOfM (vs : List (V3 α)) (cen : V3 α) (fc : List Nat) : Option (Part α) :=
  match fc with
  | i :: j :: k :: _ =>
      match vs[i]?, vs[j]?, vs[k]? with
      | some p1, some p2, some p3 => arbFacetPart cen p1 p2 p3
      | _, _, _ => none
  | _ => none

theorem bodyFacets_arb (ps : List α) (toNat : α → Nat) (hlen : ps.length = 30) :
    bodyFacets "arb" ps toNat =
      (arbFacets ps toNat).mapM (arbFacetOfS (arbVerts ps toNat) (arbCentroid ps toNat)) := by
  have h30 : (ps.length != 30) = false := by simp [hlen]
  show (if ps.length != 30 then none else _) = _
  rw [h30]
  rfl

theorem eraseDups_map_inj {f : Nat → Nat} : ∀ (l : List Nat), (∀ a ∈ l, ∀ b ∈ l, f a = f b → a = b) →
    (l.map f).eraseDups = l.eraseDups.map f
  | [], _ => rfl
  | a :: as, hinj => by
      rw [List.map_cons, List.eraseDups_cons, List.eraseDups_cons, List.map_cons]
      congr 1
      have hf : (as.map f).filter (fun b => !b == f a) = (as.filter fun b => !b == a).map f := by
        rw [List.filter_map]
        congr 1
        apply List.filter_congr
        intro b hb
        simp only [Function.comp]
        by_cases hba : b = a
        · subst hba; simp
        · have : f b ≠ f a := fun h => hba (hinj b (List.mem_cons_of_mem _ hb) a (List.mem_cons_self) h)
          simp [hba, this]
      rw [hf]
      have : (as.filter fun b => !b == a).length < as.length + 1 := Nat.lt_succ_of_le (List.length_filter_le _ _)
      exact eraseDups_map_inj _ (fun x hx y hy h =>
        hinj x (List.mem_cons_of_mem _ (List.mem_filter.mp hx).1) y (List.mem_cons_of_mem _ (List.mem_filter.mp hy).1) h)
termination_by l => l.length

theorem arbFacets_nonzero (ps : List α) (toNat : α → Nat) : ∀ fc ∈ arbFacets ps toNat, ∀ i ∈ fc, i ≠ 0 := by
  intro fc hfc i hi
  unfold arbFacets at hfc
  obtain ⟨hfc', _⟩ := List.mem_filter.mp hfc
  rw [List.mem_map] at hfc'
  obtain ⟨d, _, rfl⟩ := hfc'
  have := (List.mem_filter.mp hi).2
  simpa using this

/-- the converter's facet list is MCNP's, with 0-based numbers -/
theorem arbFacets_model (ps : List α) (toNat : α → Nat) :
    (((ps.drop 24).map fun d => facetDigits (toNat d)).filter (!·.isEmpty)) =
      (arbFacets ps toNat).map (fun fc => fc.map (· - 1)) := by
  unfold arbFacets
  have hd : ∀ d : α, facetDigits (toNat d) = ((digits (toNat d)).filter (· != 0)).map (· - 1) := fun d => facetDigits_eq _
  generalize ps.drop 24 = l
  induction l with
  | nil => rfl
  | cons d l ih =>
    simp only [List.map_cons, List.filter_cons]
    rw [hd d]
    by_cases he : ((digits (toNat d)).filter (· != 0)).isEmpty = true
    · simp only [List.isEmpty_map, he, Bool.not_true, Bool.false_eq_true, if_false]
      exact ih
    · simp only [List.isEmpty_map, he, Bool.not_false, if_true, List.map_cons]
      rw [ih]
end T4V.C03

namespace T4V.C03
open T4V T4V.Surf T4V.Macro T4V.Tr T4V.C02
variable {α : Type} [Field α] [LinearOrder α] [IsStrictOrderedRing α] [Transc α]

theorem used_eq (fs : List (List Nat)) (hnz : ∀ fc ∈ fs, ∀ i ∈ fc, i ≠ 0) :
    ((fs.map fun fc => fc.map (· - 1)).flatten.eraseDups).length = (fs.flatMap id).eraseDups.length := by
  have h1 : (fs.map fun fc => fc.map (· - 1)).flatten = fs.flatten.map (· - 1) := by
    rw [List.map_flatten]
  have h2 : fs.flatMap id = fs.flatten := by simp [List.flatMap_def]
  rw [h1, h2, eraseDups_map_inj, List.length_map]
  intro a ha b hb hab
  rw [List.mem_flatten] at ha hb
  obtain ⟨fa, hfa, haa⟩ := ha
  obtain ⟨fb, hfb, hbb⟩ := hb
  have := hnz fa hfa a haa
  have := hnz fb hfb b hbb
  omega

theorem arbParts_eq (ps : List α) (toNat : α → Nat) (hlen : ps.length = 30) :
    arbParts (0:α) 0 toNat ps =
      ((arbFacets ps toNat).map fun fc => fc.map (· - 1)).mapM
        (arbFacetOfM (arbVerts ps toNat) (arbCentroid ps toNat)) := by
  have h30 : (ps.length != 30) = false := by simp [hlen]
  unfold arbParts
  rw [h30]
  simp only [Bool.false_eq_true, if_false]
  rw [arbFacets_model, used_eq _ (arbFacets_nonzero ps toNat)]
  rfl
end T4V.C03

namespace T4V.C03
open T4V T4V.Surf T4V.Macro T4V.Tr T4V.C02
variable {α : Type} [Field α] [LinearOrder α] [IsStrictOrderedRing α] [Transc α]

/-- MCNP's admissibility of one facet descriptor: at least three vertex numbers, the first three designate vertices of
the card that are not on a line, and the centroid of the vertices is not in their plane -/
def FacetAdm (vs : List (V3 α)) (cen : V3 α) (fc : List Nat) : Prop :=
  ∃ i j k rest p1 p2 p3, fc = i :: j :: k :: rest ∧ vs[i - 1]? = some p1 ∧ vs[j - 1]? = some p2 ∧ vs[k - 1]? = some p3 ∧
    0 < ((p1.sub p2).cross (p1.sub p3)).norm2 ∧ planeOut ((p2.sub p1).cross (p3.sub p1)) p1 cen ≠ 0

theorem arb_list (ok : TranscOK α) (vs : List (V3 α)) (cen : V3 α) :
    ∀ (fs : List (List Nat)), (∀ fc ∈ fs, FacetAdm vs cen fc) →
    ∃ parts coll gs, (fs.map fun fc => fc.map (· - 1)).mapM (arbFacetOfM vs cen) = some parts ∧
      parts.mapM (fun (x : Part α) => (convertCard (0:α) 0 x.1 x.2.1).map fun coll => coll.map fun (t, s) => (t, s * x.2.2)) = some coll ∧
      fs.mapM (arbFacetOfS vs cen) = some gs ∧ BodyOK coll.flatten gs
  | [], _ => ⟨[], [], [], rfl, rfl, rfl, .nil⟩
  | fc :: fs, h => by
      obtain ⟨i, j, k, rest, p1, p2, p3, rfl, h1, h2, h3, hnc, hcen⟩ := h _ (List.mem_cons_self)
      obtain ⟨parts, coll, gs, e1, e2, e3, hb⟩ := arb_list ok vs cen fs (fun fc hfc => h fc (List.mem_cons_of_mem _ hfc))
      obtain ⟨part, t, hp, hside, hconv, hsame⟩ := arb_facet ok cen p1 p2 p3 hnc hcen
      refine ⟨part :: parts, [(t, 1)] :: coll, arbFacetSpec cen p1 p2 p3 :: gs, ?_, ?_, ?_, ?_⟩
      · simp only [List.map_cons, List.mapM_cons, arbFacetOfM, h1, h2, h3, hp, e1, Option.bind_eq_bind,
          Option.bind_some, Option.pure_def]
      · simp only [List.mapM_cons, hconv, hside, e2, Option.map_some, Option.bind_eq_bind, Option.bind_some,
          Option.pure_def, List.map_cons, List.map_nil, mul_one]
      · simp only [List.mapM_cons, arbFacetOfS, h1, h2, h3, e3, Option.bind_eq_bind, Option.bind_some, Option.pure_def]
      · simp only [List.flatten_cons, List.cons_append, List.nil_append]
        exact .cons (Or.inl ⟨rfl, hsame⟩) hb

/-- **ARB**: eight vertex triples and six facet descriptors (any number of them empty), every non-empty descriptor
admissible: the k-th emitted surface is the plane of the k-th non-empty descriptor, with the centroid inside -/
theorem arb_ok (ok : TranscOK α) (toNat : α → Nat) (ps : List α) (hlen : ps.length = 30)
    (hadm : ∀ fc ∈ arbFacets ps toNat, FacetAdm (arbVerts ps toNat) (arbCentroid ps toNat) fc) :
    ∃ coll gs, convertMacro (0:α) 0 "arb" ps toNat = some coll ∧ bodyFacets "arb" ps toNat = some gs ∧ BodyOK coll gs := by
  obtain ⟨parts, coll, gs, e1, e2, e3, hb⟩ := arb_list ok (arbVerts ps toNat) (arbCentroid ps toNat) (arbFacets ps toNat) hadm
  refine ⟨coll.flatten, gs, ?_, ?_, hb⟩
  · have hmn : (("arb" : String) == "arb") = true := by decide
    simp only [convertMacro, hmn, if_true, arbParts_eq ps toNat hlen, e1, Option.bind_eq_bind, Option.bind_some, e2,
      Option.pure_def]
  · rw [bodyFacets_arb ps toNat hlen, e3]
end T4V.C03

namespace T4V.C03
open T4V T4V.Surf T4V.Macro T4V.Tr T4V.C02

/-- non-vacuity over ℝ: a tetrahedron (four vertices in use, two empty descriptors) -/
noncomputable def tetraNat : ℝ → Nat := fun x =>
  if x = 123 then 123 else if x = 124 then 124 else if x = 134 then 134 else if x = 234 then 234 else 0

def tetra : List ℝ := [0, 0, 0, 1, 0, 0, 0, 1, 0, 0, 0, 1, 0, 0, 0, 0, 0, 0, 0, 0, 0, 0, 0, 0, 123, 124, 134, 234, 0, 0]

theorem tetra_facets : arbFacets tetra tetraNat = [[1, 2, 3], [1, 2, 4], [1, 3, 4], [2, 3, 4]] := by
  have e1 : tetraNat 123 = 123 := by simp [tetraNat]
  have e2 : tetraNat 124 = 124 := by norm_num [tetraNat]
  have e3 : tetraNat 134 = 134 := by norm_num [tetraNat]
  have e4 : tetraNat 234 = 234 := by norm_num [tetraNat]
  have e0 : tetraNat 0 = 0 := by norm_num [tetraNat]
  have d1 : (digits 123).filter (· != 0) = [1, 2, 3] := by decide
  have d2 : (digits 124).filter (· != 0) = [1, 2, 4] := by decide
  have d3 : (digits 134).filter (· != 0) = [1, 3, 4] := by decide
  have d4 : (digits 234).filter (· != 0) = [2, 3, 4] := by decide
  have d0 : (digits 0).filter (· != 0) = [] := by decide
  simp [arbFacets, tetra, e1, e2, e3, e4, e0, d1, d2, d3, d4, d0]

theorem tetra_verts : arbVerts tetra tetraNat = [⟨0, 0, 0⟩, ⟨1, 0, 0⟩, ⟨0, 1, 0⟩, ⟨0, 0, 1⟩] := by
  have hu : ((arbFacets tetra tetraNat).flatMap id).eraseDups.length = 4 := by rw [tetra_facets]; decide
  unfold arbVerts
  rw [hu]
  simp [arbAllVerts, tetra, List.range, List.range.loop]

example : ∃ coll gs, convertMacro (0:ℝ) 0 "arb" tetra tetraNat = some coll ∧ bodyFacets "arb" tetra tetraNat = some gs ∧
    BodyOK coll gs := by
  have hc : arbCentroid tetra tetraNat = ⟨1 / 4, 1 / 4, 1 / 4⟩ := by
    unfold arbCentroid
    rw [tetra_verts]
    simp [V3.smul, V3.add, V3.zero]
    norm_num
  refine arb_ok transcOK_real tetraNat tetra rfl ?_
  rw [tetra_facets, tetra_verts, hc]
  intro fc hfc
  simp only [List.mem_cons, List.mem_nil_iff, or_false] at hfc
  rcases hfc with rfl | rfl | rfl | rfl
  · exact ⟨1, 2, 3, [], _, _, _, rfl, rfl, rfl, rfl, by norm_num [V3.norm2, V3.dot, V3.cross, V3.sub],
      by norm_num [planeOut, V3.dot, V3.cross, V3.sub]⟩
  · exact ⟨1, 2, 4, [], _, _, _, rfl, rfl, rfl, rfl, by norm_num [V3.norm2, V3.dot, V3.cross, V3.sub],
      by norm_num [planeOut, V3.dot, V3.cross, V3.sub]⟩
  · exact ⟨1, 3, 4, [], _, _, _, rfl, rfl, rfl, rfl, by norm_num [V3.norm2, V3.dot, V3.cross, V3.sub],
      by norm_num [planeOut, V3.dot, V3.cross, V3.sub]⟩
  · exact ⟨2, 3, 4, [], _, _, _, rfl, rfl, rfl, rfl, by norm_num [V3.norm2, V3.dot, V3.cross, V3.sub],
      by norm_num [planeOut, V3.dot, V3.cross, V3.sub]⟩
end T4V.C03
