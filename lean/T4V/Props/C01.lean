import T4V.Proofs.ConvertAll
import T4V.Proofs.PostClosed
import T4V.Proofs.CompileClosed
import T4V.Proofs.PostKeys
import T4V.Model.Post
import T4V.Proofs.MonitorFast
/-!
# Property C01 — every point stays in the volume of the cell that owns it (Boolean core)

Model: `T4V.Model.Tree` (`pot_complement`), `T4V.Model.ToT4` (`pot_flag`, `pot_expand_surfs`,
`pot_optimise`, `pot_to_t4_cell`, `convert_surface`, `convert_cellref`, `pot_convert`, the conversion
loop of `construct_volume_t4`).  `σ` is the sense of every TRIPOLI-4 surface at an arbitrary point;
an MCNP surface (possibly a collection: one-sheet cone, macrobody) is positive when the point is on
the positive side of one of its members (`surfValOf`).  All statements hold for trees of any size and
depth, any number of cells and any `σ`.
-/
namespace T4V.C01
open T4V

/-- (a) `pot_flag` keeps the Boolean function (and numbers nodes with fresh, distinct ids). -/
theorem flag_preserves (m : Matching) (σ : TSense) (cv : Nat → Bool) (g : Geom) (k : Nat)
    (h : g.complFree = true) : (potFlag g k).1.eval m σ cv = g.eval (surfValOf m σ) cv :=
  potFlag_eval m σ cv g k h

/-- (b) `pot_expand_surfs`: `-b` ↦ intersection of the inward sides, `+b` ↦ union of the outward
sides, `b.k` ↦ the k-th member: same Boolean function. -/
theorem expand_preserves (m : Matching) (hm : MatchOK m) (σ : TSense) (cv : Nat → Bool) (t t' : FTree)
    (k k' : Nat) (hz : t.nonzero = true) (h : potExpand m t k = .ok (t', k')) :
    t'.eval m σ cv = t.eval m σ cv :=
  (potExpand_ok m hm σ cv t k t' k' hz h).eval

/-- (c) `pot_optimise`: flattening keeps the function; a tree is only declared empty (`None`) when
it is false for every sense assignment. -/
theorem optimise_sound (m : Matching) (σ : TSense) (cv : Nat → Bool) (t : FTree) (hx : t.expanded = true) :
    (∀ t', potOptimise t = some t' → t'.eval m σ cv = t.eval m σ cv) ∧
    (potOptimise t = none → t.eval m σ cv = false) :=
  let r := potOptimise_ok m σ cv t hx
  ⟨fun t' h => (r.some_ok t' h).1, r.none_ok⟩

/-- (d) `pot_convert` (with both caches, fresh ids, helper planes for unions, the
largest-pure-intersection shortcut, cell references to any depth): the returned volume denotes the
cell's expression; `None` is returned only for an expression that is false at this point
(`ResOK … (some id)` = `Denotes vols σ id b`, `ResOK … none` = `b = false`). -/
theorem convert_cell (env : CEnv) (σ : TSense) (cv : Nat → Bool) (hE : EnvOK env σ cv) (fuel : Nat)
    (c : CellIn) (st st' : CState) (r : Option Nat) (hst : StOK σ cv st)
    (hcf : c.geom.complFree = true) (hnz : c.geom.nonzero = true)
    (h : potConvert env fuel c st = .ok (r, st')) :
    ResOK σ st'.vols (c.geom.eval (surfValOf env.matching σ) cv) r :=
  (potConvert_ok env σ cv hE fuel c st r st' _ hst hcf hnz rfl h).res

/-- (e) the conversion loop: each live level-0 cell `c` ends up with a non-virtual volume numbered
`c` that contains the point iff the MCNP cell does, or with no volume when its expression is false
there.  Hence two cells whose MCNP regions are disjoint give disjoint volumes, and the volumes cover
exactly what the cells cover. -/
theorem loop (env : CEnv) (σ : TSense) (cv : Nat → Bool) (hE : EnvOK env σ cv) (fuel next0 : Nat)
    (keys : List Nat) (st' : CState) (hnd : keys.Nodup) (hle : ∀ c ∈ keys, c ≤ next0)
    (h : convertAll env fuel keys { next := next0 } = .ok st') :
    ∀ c ∈ keys, Good σ cv st'.vols c :=
  convertAll_ok env σ cv hE fuel next0 keys st' hnd hle h

/-- consequence: at a point where MCNP puts exactly one of the live cells, exactly one of the
emitted cell volumes contains it, and it carries that cell's number -/
theorem exactly_one (env : CEnv) (σ : TSense) (cv : Nat → Bool) (hE : EnvOK env σ cv) (fuel next0 : Nat)
    (keys : List Nat) (st' : CState) (hnd : keys.Nodup) (hle : ∀ c ∈ keys, c ≤ next0)
    (h : convertAll env fuel keys { next := next0 } = .ok st') (c : Nat) (hc : c ∈ keys)
    (hown : cv c = true) (huniq : ∀ c' ∈ keys, c' ≠ c → cv c' = false) :
    Denotes st'.vols σ c true ∧ ∀ c' ∈ keys, c' ≠ c → ¬ Denotes st'.vols σ c' true := by
  have hg := loop env σ cv hE fuel next0 keys st' hnd hle h
  constructor
  · have := hg c hc
    unfold Good at this
    cases hd : dictGet? st'.vols c with
    | none => simp [hd, hown] at this
    | some v => simp only [hd] at this; rw [← hown]; exact this.2
  · intro c' hc' hne hden
    have := hg c' hc'
    unfold Good at this
    cases hd : dictGet? st'.vols c' with
    | none =>
      obtain ⟨f, hf⟩ := hden
      cases f with
      | zero => simp [den] at hf
      | succ f => simp [den, hd] at hf
    | some v =>
      simp only [hd] at this
      have := Denotes.unique this.2 hden
      rw [huniq c' hc' hne] at this
      exact absurd this (by simp)

/-- **Post-processing (proved part)**: de-duplication + renumbering, `remove_empty_volumes` and
`remove_unused_volumes` keep the denotation of every surviving non-virtual volume and delete only volumes
that contain no point — for dictionaries with unique keys and every sense assignment at which equally
defined surfaces have equal senses and the two auxiliary union planes bound nothing.  `Denotes'` reads a
reference to a deleted volume as ∅; the full-strength statement is `postProcess_preserves` below. -/
theorem postProcess_preserves_partial (dedup : Bool) (surfs : List (Nat × String)) (u : Nat × Nat)
    (vols : List (Nat × Vol)) (σ : TSense) (hnd : KeysNodup vols) (hσu : ¬ (σ u.1 = true ∧ σ u.2 = false))
    (hσeq : ∀ a b ka kb, (a, ka) ∈ surfs → (b, kb) ∈ surfs → ka = kb → σ a = σ b)
    (k : Nat) (v : Vol) (b : Bool) (hk : dictGet? vols k = some v) (hf : v.fictive = false)
    (hd : Denotes vols σ k b) :
    match dictGet? (postProcess dedup surfs u vols).2 k with
    | some _ => Denotes' (postProcess dedup surfs u vols).2 σ k b
    | none => b = false :=
  postProcess_den' dedup surfs u vols σ hnd hσu hσeq k v b hk hf hd

/-- **Post-processing, full strength**: for a dictionary with unique keys and no dangling reference (what
the conversion loop produces; both are also checked at run time on the dictionaries captured from the
code), `postProcess` — de-duplication + renumbering, `remove_empty_volumes`, `remove_unused_volumes` —
keeps the (strict) denotation of every surviving non-virtual volume, deletes only volumes containing no
point, and leaves no dangling reference. -/
theorem postProcess_preserves (dedup : Bool) (surfs : List (Nat × String)) (u : Nat × Nat)
    (vols : List (Nat × Vol)) (σ : TSense) (hnd : KeysNodup vols) (hc : Closed vols)
    (hσu : ¬ (σ u.1 = true ∧ σ u.2 = false))
    (hσeq : ∀ a b ka kb, (a, ka) ∈ surfs → (b, kb) ∈ surfs → ka = kb → σ a = σ b)
    (k : Nat) (v : Vol) (b : Bool) (hk : dictGet? vols k = some v) (hf : v.fictive = false)
    (hd : Denotes vols σ k b) :
    Closed (postProcess dedup surfs u vols).2 ∧
    match dictGet? (postProcess dedup surfs u vols).2 k with
    | some _ => Denotes (postProcess dedup surfs u vols).2 σ k b
    | none => b = false := by
  have hcl := postProcess_closed dedup surfs u vols hc hnd
  refine ⟨hcl, ?_⟩
  have h := postProcess_den' dedup surfs u vols σ hnd hσu hσeq k v b hk hf hd
  cases hg : dictGet? (postProcess dedup surfs u vols).2 k with
  | none => simpa [hg] using h
  | some w =>
    simp only [hg] at h ⊢
    obtain ⟨f, hf'⟩ := h
    exact ⟨f, den_of_den'_closed _ σ hcl f k b (dictGet?_some_hasKey hg) hf'⟩

/-- (f) the dictionary produced by the conversion loop has unique keys and no dangling reference: the two
hypotheses of `postProcess_preserves` hold of what the compiler produces (syntactic invariant of
`convert_surface`, `pot_convert`, `convert_cellref`, `pot_to_t4_cell` and the loop). -/
theorem compiled_closed (env : CEnv) (fuel next0 : Nat) (keys : List Nat) (st' : CState)
    (h : convertAll env fuel keys { next := next0 } = .ok st') : Closed st'.vols ∧ KeysNodup st'.vols :=
  convertAll_closed_init env fuel next0 keys st' h

/-- **(e) + post-processing, end to end**: after the conversion loop *and* de-duplication, renumbering,
`remove_empty_volumes` and `remove_unused_volumes`, every live level-0 cell `c` either has a volume numbered `c`
that contains the point iff the MCNP cell does, or has no volume and does not contain the point; and no
reference dangles.  No hypothesis on the dictionary is left: closedness and unique keys are (f). -/
theorem loop_then_post (env : CEnv) (σ : TSense) (cv : Nat → Bool) (hE : EnvOK env σ cv) (fuel next0 : Nat)
    (keys : List Nat) (st' : CState) (hnd : keys.Nodup) (hle : ∀ c ∈ keys, c ≤ next0)
    (h : convertAll env fuel keys { next := next0 } = .ok st')
    (dedup : Bool) (surfs : List (Nat × String)) (u : Nat × Nat)
    (hσu : ¬ (σ u.1 = true ∧ σ u.2 = false))
    (hσeq : ∀ a b ka kb, (a, ka) ∈ surfs → (b, kb) ∈ surfs → ka = kb → σ a = σ b) :
    Closed (postProcess dedup surfs u st'.vols).2 ∧
    ∀ c ∈ keys,
      match dictGet? (postProcess dedup surfs u st'.vols).2 c with
      | some _ => Denotes (postProcess dedup surfs u st'.vols).2 σ c (cv c)
      | none => cv c = false := by
  obtain ⟨hcl, hkn⟩ := compiled_closed env fuel next0 keys st' h
  refine ⟨postProcess_closed dedup surfs u st'.vols hcl hkn, ?_⟩
  intro c hc
  have hg := loop env σ cv hE fuel next0 keys st' hnd hle h c hc
  unfold Good at hg
  cases hd : dictGet? st'.vols c with
  | none =>
    simp only [hd] at hg
    have hnone : dictGet? (postProcess dedup surfs u st'.vols).2 c = none := by
      rw [dictGet?_none_iff]
      intro hk
      exact (dictGet?_none_iff.mp hd) (postProcess_keys_subset dedup surfs u st'.vols c hk)
    rw [hnone]; exact hg
  | some v =>
    simp only [hd] at hg
    exact (postProcess_preserves dedup surfs u st'.vols σ hkn hcl hσu hσeq c v (cv c) hd hg.1 hg.2).2

/-- (m) The point monitor that the checks of C01, C03–C07, C09 run on the converter's written file tabulates, per
point, the senses of all surfaces and the volumes by number (hash tables) and evaluates every non-virtual volume once
(`T4File.verdicts`), instead of searching the surface and volume lists at every reference: the owners and the
undecidable volumes it reads off are exactly those of the specification (`T4File.owners`, `T4File.undecided`), for
every file — duplicate surface or volume numbers included — and every point. -/
theorem monitor_owners_are_spec_owners (f : T4File Float) (p : V3 Float) :
    ownersOf (f.verdicts p) = f.owners p ∧ undecidedOf (f.verdicts p) = f.undecided p :=
  ⟨MonitorFast.ownersOf_verdicts f p, MonitorFast.undecidedOf_verdicts f p⟩

end T4V.C01
