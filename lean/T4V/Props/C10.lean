import T4V.Model.Comp
import T4V.Model.Composition
import T4V.Spec.Comp
import Mathlib.Tactic.FieldSimp
import Mathlib.Tactic.Ring
import Mathlib.Algebra.Order.Field.Basic
/-!
# Property C10 — material cards become compositions with the same nuclides and amounts
-/
namespace T4V.C10
open T4V

section
variable {α : Type} [Field α]

theorem sumList_map_scale (c : α) : ∀ l : List α, sumList (l.map fun f => f * c) = sumList l * c
  | [] => by simp [sumList]
  | a :: l => by
      have ih := sumList_map_scale c l
      simp only [sumList, List.map_cons, List.foldr_cons] at ih ⊢
      rw [ih]; ring

/-- **atom density**: the concentrations sum to the cell density … -/
theorem concentrations_sum (fr : List α) (rho : α) (h : sumList fr ≠ 0) :
    sumList (rescaleFractions fr rho) = rho := by
  unfold rescaleFractions
  have : (fr.map fun f => f * rho / sumList fr) = fr.map fun f => f * (rho / sumList fr) := by
    congr 1; funext f; ring
  rw [this, sumList_map_scale]
  field_simp

/-- … and are proportional to the atom fractions of the card -/
theorem concentrations_proportional (fr : List α) (rho : α) (i j : Nat) (fi fj : α)
    (hi : fr[i]? = some fi) (hj : fr[j]? = some fj) :
    ∃ ci cj, (rescaleFractions fr rho)[i]? = some ci ∧ (rescaleFractions fr rho)[j]? = some cj ∧
      ci * fj = cj * fi := by
  refine ⟨fi * rho / sumList fr, fj * rho / sumList fr, ?_, ?_, by ring⟩
  · simp [rescaleFractions, hi]
  · simp [rescaleFractions, hj]
end

/-- the nuclide list follows the card: one entry per (ZAID, fraction) pair, in order, keyword entries
(`nlib=…`) skipped and library suffixes dropped -/
theorem nuclides_in_card_order (tokens : List String) (e : CompExpect) (h : compExpected tokens = .ok e) :
    (matEntries tokens).mapM (fun x => nuclideName? x.1) = some e.nuclides ∧
    e.fractions = (matEntries tokens).map (absLit ·.2) := by
  unfold compExpected at h
  cases hm : matEntries tokens with
  | nil => simp [hm] at h
  | cons x rest =>
    obtain ⟨z0, f0⟩ := x
    simp only [hm] at h
    split at h
    · simp at h
    · cases hn : List.mapM (fun e => nuclideName? e.1) ((z0, f0) :: rest) with
      | none => simp [hn] at h
      | some ns =>
        simp only [hn, Except.ok.injEq] at h
        subst h
        exact ⟨rfl, rfl⟩

/-- the NB_ATOM flag is set exactly when the card's fractions are positive -/
theorem atom_flag_iff_positive (tokens : List String) (e : CompExpect) (z0 f0 : String)
    (rest : List (String × String)) (hm : matEntries tokens = (z0, f0) :: rest)
    (h : compExpected tokens = .ok e) : e.atomFracs = !isNegLit f0 := by
  unfold compExpected at h
  simp only [hm] at h
  split at h
  · simp at h
  · cases hn : List.mapM (fun e => nuclideName? e.1) ((z0, f0) :: rest) with
    | none => simp [hn] at h
    | some ns =>
      simp only [hn, Except.ok.injEq] at h
      subst h; rfl

/-- mass number 000 designates the natural element; otherwise the name is symbol ++ mass number, with
the symbol of the periodic table for Z -/
theorem natural_element (z : Nat) (sym : String) (h : elementSymbol? z = some sym) :
    nuclideOf z 0 = some (sym ++ "-NAT") := by
  simp [nuclideOf, h]

theorem isotope_name (z a : Nat) (sym : String) (h : elementSymbol? z = some sym) (ha : a ≠ 0) :
    nuclideOf z a = some (sym ++ toString a) := by
  simp [nuclideOf, h, ha]

example : elementSymbol? 92 = some "U" := by decide
example : elementSymbol? 8 = some "O" := by decide
example : elementSymbols.length = 118 := by decide

/-! ### the pipeline model (`Model/Composition.lean`): cards → pairs → names and amounts → compositions -/
open T4V.CM

/-- an entry of a material card as the manual describes it: a keyword entry `key=value`, or a ZAID and its fraction -/
inductive Entry
  | kw (k : List Char)
  | pair (z f : List Char)

def Entry.tokens : Entry → List (List Char)
  | .kw k => [k]
  | .pair z f => [z, f]

def Entry.pair? : Entry → Option (List Char × List Char)
  | .kw _ => none
  | .pair z f => some (beforeDot z, f)

/-- **the composition lists exactly the card's (ZAID, fraction) pairs in order; keyword entries, wherever they stand,
are ignored and the library suffix is dropped** -/
theorem keyword_entries_ignored : ∀ (es : List Entry),
    (∀ k, Entry.kw k ∈ es → k.contains '=' = true) → (∀ z f, Entry.pair z f ∈ es → z.contains '=' = false) →
    pairs (es.flatMap Entry.tokens) = .ok (es.filterMap Entry.pair?)
  | [], _, _ => rfl
  | .kw k :: es, hk, hz => by
    have ih := keyword_entries_ignored es (fun k' h => hk k' (List.mem_cons_of_mem _ h)) (fun z f h => hz z f (List.mem_cons_of_mem _ h))
    have hkk := hk k List.mem_cons_self
    simp only [List.flatMap_cons, Entry.tokens, List.cons_append, List.nil_append, List.filterMap_cons, Entry.pair?]
    cases hrest : es.flatMap Entry.tokens with
    | nil =>
      rw [hrest] at ih
      simp only [pairs, hkk, if_true]
      simpa [pairs] using ih
    | cons t ts =>
      rw [hrest] at ih
      simp only [pairs, hkk, if_true]
      exact ih
  | .pair z f :: es, hk, hz => by
    have ih := keyword_entries_ignored es (fun k' h => hk k' (List.mem_cons_of_mem _ h)) (fun z f h => hz z f (List.mem_cons_of_mem _ h))
    have hzz := hz z f List.mem_cons_self
    simp only [List.flatMap_cons, Entry.tokens, List.cons_append, List.nil_append, List.filterMap_cons, Entry.pair?]
    simp only [pairs, hzz, Bool.false_eq_true, if_false, ih]

theorem digitsNat_append' (a b : List Char) : digitsNat (a ++ b) = digitsNat a * 10 ^ b.length + digitsNat b := by
  unfold digitsNat
  rw [List.foldl_append]
  generalize List.foldl (fun a d => a * 10 + (d.toNat - '0'.toNat)) 0 a = n
  induction b generalizing n with
  | nil => simp
  | cons c r ih =>
    simp only [List.foldl_cons, List.length_cons]
    rw [ih, ih (0 * 10 + (c.toNat - '0'.toNat))]
    simp only [Nat.zero_mul, Nat.zero_add, Nat.pow_succ]
    rw [Nat.add_mul, Nat.add_assoc]
    congr 1
    rw [Nat.mul_assoc, Nat.mul_comm 10]

theorem digit_val (c : Char) (h : isDig c = true) : c.toNat - '0'.toNat ≤ 9 := by
  simp only [isDig, Char.isDigit, Bool.and_eq_true, decide_eq_true_eq] at h
  have h2 : c.toNat ≤ 57 := UInt32.le_iff_toNat_le.mp h.2
  have h0 : '0'.toNat = 48 := rfl
  omega

theorem foldl_digits_lt : ∀ (l : List Char) (n : Nat), (∀ c ∈ l, isDig c = true) →
    l.foldl (fun a d => a * 10 + (d.toNat - '0'.toNat)) n < (n + 1) * 10 ^ l.length
  | [], n, _ => by simp
  | c :: r, n, h => by
    have hd := digit_val c (h c List.mem_cons_self)
    have ih := foldl_digits_lt r (n * 10 + (c.toNat - '0'.toNat)) (fun x hx => h x (List.mem_cons_of_mem _ hx))
    simp only [List.foldl_cons, List.length_cons, Nat.pow_succ]
    have : (n * 10 + (c.toNat - '0'.toNat) + 1) * 10 ^ r.length ≤ (n + 1) * (10 ^ r.length * 10) := by
      rw [Nat.mul_comm (10 ^ r.length) 10, ← Nat.mul_assoc]
      apply Nat.mul_le_mul_right
      omega
    omega

theorem digitsNat_lt (l : List Char) (h : ∀ c ∈ l, isDig c = true) : digitsNat l < 10 ^ l.length := by
  have := foldl_digits_lt l 0 h
  simpa [digitsNat] using this

theorem pyInt_spec (s : List Char) (n : Nat) (h : pyInt? s = some n) : s ≠ [] ∧ (∀ c ∈ s, isDig c = true) ∧ n = digitsNat s := by
  unfold pyInt? at h
  split at h
  · simp at h
  · rename_i hc
    simp only [Option.some.injEq] at h
    simp only [Bool.or_eq_true, Bool.not_eq_eq_eq_not, Bool.not_true, not_or, Bool.not_eq_true] at hc
    refine ⟨by intro he; simp [he] at hc, ?_, h.symm⟩
    have := hc.2
    simpa using this

/-- **a ZAID is 1000·Z + A** with `A < 1000` and `Z` an element (1 … 118); what follows a point (the library suffix)
plays no part -/
theorem zaid_decomposition (zaid : List Char) (z a : Nat) (h : isoParts zaid = .ok (z, a)) :
    digitsNat (beforeDot zaid) = 1000 * z + a ∧ a < 1000 ∧ 1 ≤ z ∧ z ≤ 118 := by
  unfold isoParts at h
  simp only at h
  split at h
  · simp at h
  · rename_i a' ha
    split at h
    · simp at h
    · rename_i z' hz
      split at h
      · simp at h
      · rename_i hr
        simp only [Except.ok.injEq, Prod.mk.injEq] at h
        obtain ⟨rfl, rfl⟩ := h
        obtain ⟨hne_a, hda, rfl⟩ := pyInt_spec _ _ ha
        obtain ⟨hne_z, hdz, rfl⟩ := pyInt_spec _ _ hz
        have hlen : 4 ≤ (beforeDot zaid).length := by
          by_contra hl
          apply hne_z
          have : (beforeDot zaid).length - 3 = 0 := by omega
          rw [this]; rfl
        have hdl : (List.drop ((beforeDot zaid).length - 3) (beforeDot zaid)).length = 3 := by
          rw [List.length_drop]; omega
        have hsplit := digitsNat_append' (List.take ((beforeDot zaid).length - 3) (beforeDot zaid))
          (List.drop ((beforeDot zaid).length - 3) (beforeDot zaid))
        rw [List.take_append_drop, hdl] at hsplit
        have hlt := digitsNat_lt _ hda
        rw [hdl] at hlt
        simp only [Bool.or_eq_true, beq_iff_eq, decide_eq_true_eq, not_or, Nat.not_lt] at hr
        refine ⟨by rw [hsplit]; omega, by omega, by omega, hr.2⟩

/-- mass number 000 designates the natural element -/
theorem natural_element_name (z : Nat) : isoName z 0 = symbols.getD (z - 1) "?" ++ "-NAT" := rfl

theorem isotope_name_mass (z a : Nat) (ha : a ≠ 0) : isoName z a = symbols.getD (z - 1) "?" ++ toString a := by
  simp [isoName, ha]

/-- the model's table of symbols is the reference table -/
theorem symbols_are_the_reference_table : CM.symbols = elementSymbols := rfl

theorem convLoop_spec (pos : Bool) : ∀ (ps : List (List Char × List Char)) (ns : List (String × List Char)),
    convLoop pos ps = .ok ns →
      (∀ p ∈ ps, (!isNeg p.2) = pos) ∧
      List.Forall₂ (fun p iso => ∃ z a, isoParts p.1 = .ok (z, a) ∧ iso = (isoName z a, normalizeFloat (strFabs p.2))) ps ns
  | [], ns, h => by
    simp only [convLoop, Except.ok.injEq] at h; subst h
    exact ⟨by intro p hp; simp at hp, List.Forall₂.nil⟩
  | (zaid, f) :: r, ns, h => by
    unfold convLoop at h
    split at h
    · simp at h
    · rename_i hs
      split at h
      · simp at h
      · rename_i z a hz
        split at h
        · simp at h
        · split at h
          · simp at h
          · rename_i ns' hr
            simp only [Except.ok.injEq] at h; subst h
            obtain ⟨ih1, ih2⟩ := convLoop_spec pos r ns' hr
            refine ⟨?_, List.Forall₂.cons ⟨z, a, hz, rfl⟩ ih2⟩
            intro p hp
            rcases List.mem_cons.mp hp with rfl | hp'
            · cases hf : isNeg f <;> cases pos <;> simp_all
            · exact ih1 p hp'

/-- **cards mixing signs are rejected, and the fractions are flagged as atom fractions exactly when the entries are
positive**: whenever a card is converted, every one of its entries has the sign the flag says -/
theorem signs_agree_with_flag (ps : List (List Char × List Char)) (ab : Abund) (h : convCard ps = .ok ab) :
    ∀ p ∈ ps, (!isNeg p.2) = ab.atomFracs := by
  unfold convCard at h
  split at h
  · intro p hp; simp at hp
  · split at h
    · simp at h
    · rename_i ns hl
      simp only [Except.ok.injEq] at h; subst h
      exact (convLoop_spec _ _ ns hl).1

theorem mixed_signs_rejected (ps : List (List Char × List Char)) (p q : List Char × List Char) (hp : p ∈ ps) (hq : q ∈ ps)
    (hne : isNeg p.2 ≠ isNeg q.2) : ∃ e, convCard ps = .error e := by
  cases h : convCard ps with
  | error e => exact ⟨e, rfl⟩
  | ok ab =>
    have h1 := signs_agree_with_flag ps ab h p hp
    have h2 := signs_agree_with_flag ps ab h q hq
    exfalso; apply hne
    have : (!isNeg p.2) = !isNeg q.2 := h1.trans h2.symm
    simpa using this

/-- **the nuclides of the card in order, each named after its ZAID, each with the absolute value of its fraction
(spelled as a plain number)** -/
theorem nuclides_in_card_order_model (ps : List (List Char × List Char)) (ab : Abund) (h : convCard ps = .ok ab) :
    List.Forall₂ (fun p iso => ∃ z a, isoParts p.1 = .ok (z, a) ∧ iso = (isoName z a, normalizeFloat (strFabs p.2)))
      ps ab.isotopes := by
  unfold convCard at h
  split at h
  · simp only [Except.ok.injEq] at h; subst h; exact List.Forall₂.nil
  · split at h
    · simp at h
    · rename_i ns hl
      simp only [Except.ok.injEq] at h; subst h
      exact (convLoop_spec _ _ ns hl).2

/-- **a mass density takes the card's fractions as they are** (with the flag of the card); an atom density takes the
same nuclides in the same order (their amounts are the rescaled concentrations), and none when the card gives mass
fractions; every composition carries the name of its material -/
theorem compositions_follow_the_card (key : Nat) (ab : Abund) : ∀ (cells : List CCell) (seen : List (List Char)) (cs : List Comp),
    compsOf key ab cells seen = .ok cs → ∀ c ∈ cs, c.name = "m" ++ toString key ∧
      (c.kind = "DENSITY" → c.isotopes = ab.isotopes ∧ c.nbAtom = ab.atomFracs) ∧
      (c.kind = "POINT_WISE" → c.isotopes.map (·.1) = if ab.atomFracs then ab.isotopes.map (·.1) else [])
  | [], seen, cs, h => by
    simp only [compsOf, Except.ok.injEq] at h; subst h; intro c hc; simp at hc
  | cell :: r, seen, cs, h => by
    unfold compsOf at h
    split at h
    · exact compositions_follow_the_card key ab r seen cs h
    · split at h
      · simp at h
      · rename_i neg hneg
        simp only at h
        split at h
        · simp at h
        · split at h
          · simp at h
          · split at h
            · simp at h
            · rename_i cs' hr
              simp only [Except.ok.injEq] at h; subst h
              intro c hc
              rcases List.mem_cons.mp hc with rfl | hc'
              · by_cases hn : neg = true
                · simp [hn]
                · by_cases haf : ab.atomFracs = true
                  · simp [hn, haf, Function.comp_def]
                  · simp [hn, haf]
              · exact compositions_follow_the_card key ab r (cell.density :: seen) cs' hr c hc'

/-- **every converted cell finds its composition**: a live cell that uses the material gets a composition of that
material with the cell's density literal (normalised) — the name GEOMCOMP files its volumes under -/
theorem every_used_density_has_a_composition (key : Nat) (ab : Abund) : ∀ (cells : List CCell) (seen : List (List Char)) (cs : List Comp),
    compsOf key ab cells seen = .ok cs → ∀ cell ∈ cells, cell.live = true → cell.mat = key → cell.density ∉ seen →
      ∃ c ∈ cs, c.name = "m" ++ toString key ∧ c.density = normalizeFloat cell.density
  | [], seen, cs, _, cell, hc, _, _, _ => by simp at hc
  | c0 :: r, seen, cs, h, cell, hc, hl, hm, hs => by
    unfold compsOf at h
    split at h
    · rename_i hskip
      rcases List.mem_cons.mp hc with rfl | hc'
      · exfalso
        simp only [Bool.or_eq_true, Bool.not_eq_eq_eq_not, Bool.not_true, bne_iff_ne, ne_eq,
          List.contains_iff_mem] at hskip
        rcases hskip with (h1 | h1) | h1
        · simp [hl] at h1
        · exact h1 hm
        · exact hs (by simpa using h1)
      · exact every_used_density_has_a_composition key ab r seen cs h cell hc' hl hm hs
    · split at h
      · simp at h
      · rename_i neg hneg
        simp only at h
        split at h
        · simp at h
        · split at h
          · simp at h
          · split at h
            · simp at h
            · rename_i cs' hr
              simp only [Except.ok.injEq] at h; subst h
              rcases List.mem_cons.mp hc with rfl | hc'
              · refine ⟨_, List.mem_cons_self, ?_⟩
                by_cases hn : neg = true <;> simp [hn]
              · by_cases hd : cell.density = c0.density
                · refine ⟨_, List.mem_cons_self, ?_⟩
                  by_cases hn : neg = true <;> simp [hn, hd]
                · obtain ⟨c, hcm, hp⟩ := every_used_density_has_a_composition key ab r (c0.density :: seen) cs' hr cell hc' hl hm
                    (by simp [hd, hs])
                  exact ⟨c, List.mem_cons_of_mem _ hcm, hp⟩

example : isoParts "92235.70c".toList = .ok (92, 235) := by decide
example : isoParts "1001".toList = .ok (1, 1) := by decide
example : isoParts "26000".toList = .ok (26, 0) := by decide
example : isoParts "119000".toList = .error .attr := by decide
example : isoParts "235".toList = .error .value := by decide
example : isoName 92 235 = "U235" := by decide
example : isoName 26 0 = "FE-NAT" := by decide
example : convCard [("1001".toList, "2".toList), ("8016".toList, "-1".toList)] = .error .mixed := by decide

end T4V.C10
