import T4V.Model.Comp
import T4V.Spec.Comp
import Mathlib.Tactic.FieldSimp
import Mathlib.Tactic.Ring
import Mathlib.Algebra.Order.Field.Basic
/-!
# Property C10 — material cards become compositions with the same nuclides and amounts
-/
namespace T4V.C10
open T4V

section
variable {α : Type} [Field α]

theorem sumList_map_scale (c : α) : ∀ l : List α, sumList (l.map fun f => f * c) = sumList l * c
  | [] => by simp [sumList]
  | a :: l => by
      have ih := sumList_map_scale c l
      simp only [sumList, List.map_cons, List.foldr_cons] at ih ⊢
      rw [ih]; ring

/-- **atom density**: the concentrations sum to the cell density … -/
theorem concentrations_sum (fr : List α) (rho : α) (h : sumList fr ≠ 0) :
    sumList (rescaleFractions fr rho) = rho := by
  unfold rescaleFractions
  have : (fr.map fun f => f * rho / sumList fr) = fr.map fun f => f * (rho / sumList fr) := by
    congr 1; funext f; ring
  rw [this, sumList_map_scale]
  field_simp

/-- … and are proportional to the atom fractions of the card -/
theorem concentrations_proportional (fr : List α) (rho : α) (i j : Nat) (fi fj : α)
    (hi : fr[i]? = some fi) (hj : fr[j]? = some fj) :
    ∃ ci cj, (rescaleFractions fr rho)[i]? = some ci ∧ (rescaleFractions fr rho)[j]? = some cj ∧
      ci * fj = cj * fi := by
  refine ⟨fi * rho / sumList fr, fj * rho / sumList fr, ?_, ?_, by ring⟩
  · simp [rescaleFractions, hi]
  · simp [rescaleFractions, hj]
end

/-- the nuclide list follows the card: one entry per (ZAID, fraction) pair, in order, keyword entries
(`nlib=…`) skipped and library suffixes dropped -/
theorem nuclides_in_card_order (tokens : List String) (e : CompExpect) (h : compExpected tokens = .ok e) :
    (matEntries tokens).mapM (fun x => nuclideName? x.1) = some e.nuclides ∧
    e.fractions = (matEntries tokens).map (absLit ·.2) := by
  unfold compExpected at h
  cases hm : matEntries tokens with
  | nil => simp [hm] at h
  | cons x rest =>
    obtain ⟨z0, f0⟩ := x
    simp only [hm] at h
    split at h
    · simp at h
    · cases hn : List.mapM (fun e => nuclideName? e.1) ((z0, f0) :: rest) with
      | none => simp [hn] at h
      | some ns =>
        simp only [hn, Except.ok.injEq] at h
        subst h
        exact ⟨rfl, rfl⟩

/-- the NB_ATOM flag is set exactly when the card's fractions are positive -/
theorem atom_flag_iff_positive (tokens : List String) (e : CompExpect) (z0 f0 : String)
    (rest : List (String × String)) (hm : matEntries tokens = (z0, f0) :: rest)
    (h : compExpected tokens = .ok e) : e.atomFracs = !isNegLit f0 := by
  unfold compExpected at h
  simp only [hm] at h
  split at h
  · simp at h
  · cases hn : List.mapM (fun e => nuclideName? e.1) ((z0, f0) :: rest) with
    | none => simp [hn] at h
    | some ns =>
      simp only [hn, Except.ok.injEq] at h
      subst h; rfl

/-- mass number 000 designates the natural element; otherwise the name is symbol ++ mass number, with
the symbol of the periodic table for Z -/
theorem natural_element (z : Nat) (sym : String) (h : elementSymbol? z = some sym) :
    nuclideOf z 0 = some (sym ++ "-NAT") := by
  simp [nuclideOf, h]

theorem isotope_name (z a : Nat) (sym : String) (h : elementSymbol? z = some sym) (ha : a ≠ 0) :
    nuclideOf z a = some (sym ++ toString a) := by
  simp [nuclideOf, h, ha]

example : elementSymbol? 92 = some "U" := by decide
example : elementSymbol? 8 = some "O" := by decide
example : elementSymbols.length = 118 := by decide

end T4V.C10
