import T4V.Model.Lattice
import T4V.Spec.MCNP
import Mathlib.Tactic.FieldSimp
import Mathlib.Tactic.Ring
import Mathlib.Tactic.LinearCombination
import Mathlib.Algebra.Order.Field.Basic
/-!
# Property C06 — rectangular lattices: index order, fill array, lattice vectors

Model: `T4V.Model.Lattice` (`LatticeBounds.indices / size`, `LatticeSpec.items`, `latticeVector`,
`squareLatticeReciprocalVecs`, `latticeReciprocal`).  Spec: `indexBox` (all index tuples of the declared
ranges, first index fastest).
-/
namespace T4V.C06
open T4V

theorem indexBox_snoc : ∀ (bs : List (Int × Int)) (t : Int × Int),
    indexBox (bs ++ [t]) = (rangeIncl t.1 t.2).flatMap fun e => (indexBox bs).map fun h => h ++ [e]
  | [], t => by
      obtain ⟨lo, hi⟩ := t
      simp only [List.nil_append, indexBox, rangeIncl, List.flatMap_cons, List.flatMap_nil, List.append_nil,
        List.map_cons, List.map_nil, List.nil_append, List.flatMap_map]
      induction List.range (hi - lo + 1).toNat with
      | nil => rfl
      | cons a r ih => simp at ih ⊢; exact ih
  | b :: bs, t => by
      obtain ⟨lo, hi⟩ := b
      have ih := indexBox_snoc bs t
      simp only [List.cons_append, indexBox, ih, List.flatMap_assoc, List.flatMap_map, List.map_flatMap,
        List.map_map, Function.comp_def, List.cons_append]

/-- **Index order**: `LatticeBounds.indices` enumerates exactly the declared box, first index
fastest — the order in which MCNP reads the FILL array — for any number of ranges, negative and
degenerate ranges included. -/
theorem indices_first_index_fastest (bs : List (Int × Int)) (h : bs ≠ []) : latIndices bs = indexBox bs := by
  have key : ∀ (r : List (Int × Int)), r ≠ [] → indicesRev r = indexBox r.reverse := by
    intro r
    induction r with
    | nil => intro h; exact absurd rfl h
    | cons t rest ih =>
      intro _
      obtain ⟨lo, hi⟩ := t
      cases rest with
      | nil => simp [indicesRev, indexBox, rangeIncl]
      | cons t2 rest2 =>
        have := ih (by simp)
        rw [List.reverse_cons, indexBox_snoc]
        simp only [indicesRev, this]
  unfold latIndices
  rw [key bs.reverse (by simpa using h)]
  simp

/-- membership: an index tuple is generated iff every component lies in its declared range — no
element outside the declared ranges is generated, none inside is missing -/
theorem mem_indexBox : ∀ (bs : List (Int × Int)) (idx : List Int),
    idx ∈ indexBox bs ↔ idx.length = bs.length ∧ ∀ k (hk : k < bs.length) (hk' : k < idx.length),
      bs[k].1 ≤ idx[k] ∧ idx[k] ≤ bs[k].2
  | [], idx => by
      simp only [indexBox, List.mem_singleton, List.length_nil]
      constructor
      · rintro rfl; exact ⟨rfl, fun k hk => absurd hk (by simp)⟩
      · rintro ⟨h, _⟩; exact List.eq_nil_of_length_eq_zero h
  | (lo, hi) :: rest, idx => by
      have ih := mem_indexBox rest
      simp only [indexBox, List.mem_flatMap, List.mem_map, List.mem_range]
      constructor
      · rintro ⟨tl, htl, i, hi', rfl⟩
        obtain ⟨hl, hb⟩ := (ih tl).mp htl
        refine ⟨by simp [hl], ?_⟩
        intro k hk hk'
        cases k with
        | zero =>
          simp only [List.getElem_cons_zero]
          have : (i : Int) < (hi - lo + 1).toNat := by exact_mod_cast hi'
          simp only [Int.ofNat_eq_natCast]
          constructor <;> omega
        | succ k =>
          simp only [List.getElem_cons_succ]
          exact hb k (by simpa using hk) (by simpa using hk')
      · rintro ⟨hl, hb⟩
        cases idx with
        | nil => simp at hl
        | cons x tl =>
          have h0 := hb 0 (by simp) (by simp)
          simp only [List.getElem_cons_zero] at h0
          refine ⟨tl, (ih tl).mpr ⟨by simpa using hl, fun k hk hk' => ?_⟩, (x - lo).toNat, ?_, ?_⟩
          · have := hb (k + 1) (by simpa using hk) (by simpa using hk')
            simpa using this
          · omega
          · have : ((x - lo).toNat : Int) = x - lo := by omega
            simp only [Int.ofNat_eq_natCast, this]; congr 1; omega

/-- the fill array is consumed in that order: element number `i` of the array belongs to the `i`-th
index tuple (`LatticeSpec.items` = zip) -/
theorem items_zip {β} (bs : List (Int × Int)) (spec : List β) (h : bs ≠ []) :
    latItems bs spec = (indexBox bs).zip spec := by
  unfold latItems; rw [indices_first_index_fastest bs h]

section
variable {α : Type} [Field α]

/-- dual basis in one dimension -/
theorem reciprocal_1d (v : V3 α) (h : v.dot v ≠ 0) :
    ∃ r, latticeReciprocal [v] = some [r] ∧ r.dot v = 1 := by
  refine ⟨_, rfl, ?_⟩
  generalize hd : v.dot v = d at h
  simp only [V3.dot, V3.smul] at hd ⊢
  field_simp
  linear_combination hd

/-- dual basis in two dimensions: `rᵢ · vⱼ = δᵢⱼ` -/
theorem reciprocal_2d (v1 v2 : V3 α) (h : v1.norm2 * v2.norm2 - v1.dot v2 * v1.dot v2 ≠ 0) :
    ∃ r1 r2, latticeReciprocal [v1, v2] = some [r1, r2] ∧
      r1.dot v1 = 1 ∧ r1.dot v2 = 0 ∧ r2.dot v1 = 0 ∧ r2.dot v2 = 1 := by
  refine ⟨_, _, rfl, ?_, ?_, ?_, ?_⟩ <;>
  · show V3.dot _ _ = _
    generalize hd : v1.norm2 * v2.norm2 - v1.dot v2 * v1.dot v2 = d at h
    simp only [V3.dot, V3.smul, V3.add, V3.norm2] at hd ⊢
    field_simp
    first | linear_combination hd | linear_combination (0:α) * hd

/-- dual basis in three dimensions: `rᵢ · vⱼ = δᵢⱼ` -/
theorem reciprocal_3d (v1 v2 v3 : V3 α) (h : v1.dot (v2.cross v3) ≠ 0) (h3 : (3 : α) ≠ 0) :
    ∃ r1 r2 r3, latticeReciprocal [v1, v2, v3] = some [r1, r2, r3] ∧
      r1.dot v1 = 1 ∧ r1.dot v2 = 0 ∧ r1.dot v3 = 0 ∧
      r2.dot v1 = 0 ∧ r2.dot v2 = 1 ∧ r2.dot v3 = 0 ∧
      r3.dot v1 = 0 ∧ r3.dot v2 = 0 ∧ r3.dot v3 = 1 := by
  have hsum : v1.dot (v2.cross v3) + v2.dot (v3.cross v1) + v3.dot (v1.cross v2) = 3 * v1.dot (v2.cross v3) := by
    simp only [V3.dot, V3.cross]; ring
  have hden : v1.dot (v2.cross v3) + v2.dot (v3.cross v1) + v3.dot (v1.cross v2) ≠ 0 := by
    rw [hsum]; exact mul_ne_zero h3 h
  refine ⟨_, _, _, rfl, ?_, ?_, ?_, ?_, ?_, ?_, ?_, ?_, ?_⟩ <;>
  · show V3.dot _ _ = _
    generalize hd : v1.dot (v2.cross v3) + v2.dot (v3.cross v1) + v3.dot (v1.cross v2) = d at hden
    simp only [V3.dot, V3.smul, V3.cross] at hd ⊢
    field_simp
    first | linear_combination hd | linear_combination (0:α) * hd

/-- one pair of planes `(p₁, n)`, `(p₂, ·)`: the base vector `a` carries the second plane onto the
first: `n · (p₂ + a − p₁) = 0` (whichever orientation the first-listed reference has) -/
theorem squareBase_1d (p1 n1 p2 n2 : V3 α) (s1 s2 : Int)
    (hn : n1.dot n1 ≠ 0) (hd : (p1.sub p2).dot n1 ≠ 0) :
    ∃ a, squareBaseVectors [((p1, n1), s1), ((p2, n2), s2)] = some [a] ∧
      n1.dot ((p2.add a).sub p1) = 0 := by
  by_cases hs : (s1 == 1) = true
  all_goals
    refine ⟨_, by simp [squareBaseVectors, squareReciprocal, latticeReciprocal, hs]; rfl, ?_⟩
    simp only [V3.dot, V3.smul, V3.sub, V3.add] at hn hd ⊢
    have hd' : (p1.x - p2.x) * -n1.x + (p1.y - p2.y) * -n1.y + (p1.z - p2.z) * -n1.z ≠ 0 := by
      intro h0; apply hd; linear_combination -h0
    have hn' : n1.x ^ 2 + n1.y ^ 2 + n1.z ^ 2 ≠ 0 := by
      intro h0; apply hn; linear_combination h0
    field_simp
    ring
end

example : latIndices [(-1, 1), (-2, 2)] =
    [[-1, -2], [0, -2], [1, -2], [-1, -1], [0, -1], [1, -1], [-1, 0], [0, 0], [1, 0], [-1, 1], [0, 1], [1, 1],
     [-1, 2], [0, 2], [1, 2]] := by decide

end T4V.C06
