import T4V.Model.Lattice
import T4V.Proofs.LatticeArg
import T4V.Spec.MCNP
import Mathlib.Tactic.FieldSimp
import Mathlib.Tactic.Ring
import Mathlib.Tactic.LinearCombination
import Mathlib.Algebra.Order.Field.Basic
/-!
# Property C06 — rectangular lattices: index order, fill array, lattice vectors

Model: `T4V.Model.Lattice` (`LatticeBounds.indices / size`, `LatticeSpec.items`, `latticeVector`,
`squareLatticeReciprocalVecs`, `latticeReciprocal`).  Spec: `indexBox` (all index tuples of the declared
ranges, first index fastest).
-/
namespace T4V.C06
open T4V

theorem indexBox_snoc : ∀ (bs : List (Int × Int)) (t : Int × Int),
    indexBox (bs ++ [t]) = (rangeIncl t.1 t.2).flatMap fun e => (indexBox bs).map fun h => h ++ [e]
  | [], t => by
      obtain ⟨lo, hi⟩ := t
      simp only [List.nil_append, indexBox, rangeIncl, List.flatMap_cons, List.flatMap_nil, List.append_nil,
        List.map_cons, List.map_nil, List.nil_append, List.flatMap_map]
      induction List.range (hi - lo + 1).toNat with
      | nil => rfl
      | cons a r ih => simp at ih ⊢; exact ih
  | b :: bs, t => by
      obtain ⟨lo, hi⟩ := b
      have ih := indexBox_snoc bs t
      simp only [List.cons_append, indexBox, ih, List.flatMap_assoc, List.flatMap_map, List.map_flatMap,
        List.map_map, Function.comp_def, List.cons_append]

/-- **Index order**: `LatticeBounds.indices` enumerates exactly the declared box, first index
fastest — the order in which MCNP reads the FILL array — for any number of ranges, negative and
degenerate ranges included. -/
theorem indices_first_index_fastest (bs : List (Int × Int)) (h : bs ≠ []) : latIndices bs = indexBox bs := by
  have key : ∀ (r : List (Int × Int)), r ≠ [] → indicesRev r = indexBox r.reverse := by
    intro r
    induction r with
    | nil => intro h; exact absurd rfl h
    | cons t rest ih =>
      intro _
      obtain ⟨lo, hi⟩ := t
      cases rest with
      | nil => simp [indicesRev, indexBox, rangeIncl]
      | cons t2 rest2 =>
        have := ih (by simp)
        rw [List.reverse_cons, indexBox_snoc]
        simp only [indicesRev, this]
  unfold latIndices
  rw [key bs.reverse (by simpa using h)]
  simp

/-- membership: an index tuple is generated iff every component lies in its declared range — no
element outside the declared ranges is generated, none inside is missing -/
theorem mem_indexBox : ∀ (bs : List (Int × Int)) (idx : List Int),
    idx ∈ indexBox bs ↔ idx.length = bs.length ∧ ∀ k (hk : k < bs.length) (hk' : k < idx.length),
      bs[k].1 ≤ idx[k] ∧ idx[k] ≤ bs[k].2
  | [], idx => by
      simp only [indexBox, List.mem_singleton, List.length_nil]
      constructor
      · rintro rfl; exact ⟨rfl, fun k hk => absurd hk (by simp)⟩
      · rintro ⟨h, _⟩; exact List.eq_nil_of_length_eq_zero h
  | (lo, hi) :: rest, idx => by
      have ih := mem_indexBox rest
      simp only [indexBox, List.mem_flatMap, List.mem_map, List.mem_range]
      constructor
      · rintro ⟨tl, htl, i, hi', rfl⟩
        obtain ⟨hl, hb⟩ := (ih tl).mp htl
        refine ⟨by simp [hl], ?_⟩
        intro k hk hk'
        cases k with
        | zero =>
          simp only [List.getElem_cons_zero]
          have : (i : Int) < (hi - lo + 1).toNat := by exact_mod_cast hi'
          simp only [Int.ofNat_eq_natCast]
          constructor <;> omega
        | succ k =>
          simp only [List.getElem_cons_succ]
          exact hb k (by simpa using hk) (by simpa using hk')
      · rintro ⟨hl, hb⟩
        cases idx with
        | nil => simp at hl
        | cons x tl =>
          have h0 := hb 0 (by simp) (by simp)
          simp only [List.getElem_cons_zero] at h0
          refine ⟨tl, (ih tl).mpr ⟨by simpa using hl, fun k hk hk' => ?_⟩, (x - lo).toNat, ?_, ?_⟩
          · have := hb (k + 1) (by simpa using hk) (by simpa using hk')
            simpa using this
          · omega
          · have : ((x - lo).toNat : Int) = x - lo := by omega
            simp only [Int.ofNat_eq_natCast, this]; congr 1; omega

/-- the fill array is consumed in that order: element number `i` of the array belongs to the `i`-th
index tuple (`LatticeSpec.items` = zip) -/
theorem items_zip {β} (bs : List (Int × Int)) (spec : List β) (h : bs ≠ []) :
    latItems bs spec = (indexBox bs).zip spec := by
  unfold latItems; rw [indices_first_index_fastest bs h]

section
variable {α : Type} [Field α]

/-- dual basis in one dimension -/
theorem reciprocal_1d (v : V3 α) (h : v.dot v ≠ 0) :
    ∃ r, latticeReciprocal [v] = some [r] ∧ r.dot v = 1 := by
  refine ⟨_, rfl, ?_⟩
  generalize hd : v.dot v = d at h
  simp only [V3.dot, V3.smul] at hd ⊢
  field_simp
  linear_combination hd

/-- dual basis in two dimensions: `rᵢ · vⱼ = δᵢⱼ` -/
theorem reciprocal_2d (v1 v2 : V3 α) (h : v1.norm2 * v2.norm2 - v1.dot v2 * v1.dot v2 ≠ 0) :
    ∃ r1 r2, latticeReciprocal [v1, v2] = some [r1, r2] ∧
      r1.dot v1 = 1 ∧ r1.dot v2 = 0 ∧ r2.dot v1 = 0 ∧ r2.dot v2 = 1 ∧
      (v1.cross v2).dot r1 = 0 ∧ (v1.cross v2).dot r2 = 0 := by
  refine ⟨_, _, rfl, ?_, ?_, ?_, ?_, ?_, ?_⟩ <;>
  · show V3.dot _ _ = _
    generalize hd : v1.norm2 * v2.norm2 - v1.dot v2 * v1.dot v2 = d at h
    simp only [V3.dot, V3.smul, V3.add, V3.norm2, V3.cross] at hd ⊢
    field_simp
    first | linear_combination hd | linear_combination (0:α) * hd | ring

/-- dual basis in three dimensions: `rᵢ · vⱼ = δᵢⱼ` -/
theorem reciprocal_3d (v1 v2 v3 : V3 α) (h : v1.dot (v2.cross v3) ≠ 0) (h3 : (3 : α) ≠ 0) :
    ∃ r1 r2 r3, latticeReciprocal [v1, v2, v3] = some [r1, r2, r3] ∧
      r1.dot v1 = 1 ∧ r1.dot v2 = 0 ∧ r1.dot v3 = 0 ∧
      r2.dot v1 = 0 ∧ r2.dot v2 = 1 ∧ r2.dot v3 = 0 ∧
      r3.dot v1 = 0 ∧ r3.dot v2 = 0 ∧ r3.dot v3 = 1 := by
  have hsum : v1.dot (v2.cross v3) + v2.dot (v3.cross v1) + v3.dot (v1.cross v2) = 3 * v1.dot (v2.cross v3) := by
    simp only [V3.dot, V3.cross]; ring
  have hden : v1.dot (v2.cross v3) + v2.dot (v3.cross v1) + v3.dot (v1.cross v2) ≠ 0 := by
    rw [hsum]; exact mul_ne_zero h3 h
  refine ⟨_, _, _, rfl, ?_, ?_, ?_, ?_, ?_, ?_, ?_, ?_, ?_⟩ <;>
  · show V3.dot _ _ = _
    generalize hd : v1.dot (v2.cross v3) + v2.dot (v3.cross v1) + v3.dot (v1.cross v2) = d at hden
    simp only [V3.dot, V3.smul, V3.cross] at hd ⊢
    field_simp
    first | linear_combination hd | linear_combination (0:α) * hd

/-- one pair of planes `(p₁, n)`, `(p₂, ·)`: the base vector `a` carries the second plane onto the
first: `n · (p₂ + a − p₁) = 0` (whichever orientation the first-listed reference has), and is normal to the planes -/
theorem squareBase_1d (p1 n1 p2 n2 : V3 α) (s1 s2 : Int)
    (hn : n1.dot n1 ≠ 0) (hd : (p1.sub p2).dot n1 ≠ 0) :
    ∃ a, squareBaseVectors [((p1, n1), s1), ((p2, n2), s2)] = some [a] ∧
      n1.dot ((p2.add a).sub p1) = 0 ∧ n1.cross a = V3.zero := by
  by_cases hs : (s1 == 1) = true
  all_goals
    refine ⟨_, by simp [squareBaseVectors, squareReciprocal, latticeReciprocal, hs]; rfl, ?_, ?_⟩
    rotate_left
    · simp only [V3.cross, V3.smul, V3.zero, V3.mk.injEq]
      refine ⟨by ring, by ring, by ring⟩
    simp only [V3.dot, V3.smul, V3.sub, V3.add] at hn hd ⊢
    have hd' : (p1.x - p2.x) * -n1.x + (p1.y - p2.y) * -n1.y + (p1.z - p2.z) * -n1.z ≠ 0 := by
      intro h0; apply hd; linear_combination -h0
    have hn' : n1.x ^ 2 + n1.y ^ 2 + n1.z ^ 2 ≠ 0 := by
      intro h0; apply hn; linear_combination h0
    field_simp
    ring
/-- the (oriented) normal used for a pair: `-n₁` when the first-listed reference is positive -/
def orientN (n1 : V3 α) (s1 : Int) : V3 α := if s1 == 1 then V3.smul (-1) n1 else n1

theorem orientN_dot (n1 : V3 α) (s1 : Int) (x : V3 α) : (orientN n1 s1).dot x = 0 ↔ n1.dot x = 0 := by
  unfold orientN
  split
  · simp only [V3.dot, V3.smul]
    constructor <;> intro h <;> linear_combination -h
  · rfl

theorem dot_smul_left (c : α) (u v : V3 α) : (V3.smul c u).dot v = c * u.dot v := by
  simp only [V3.dot, V3.smul]; ring
theorem dot_comm' (u v : V3 α) : u.dot v = v.dot u := by simp only [V3.dot]; ring

/-- **two pairs of planes**: the base vector of each pair carries its second plane onto its first and is parallel
to the planes of the other pair (so the unit cell moved by `i·a + j·b` is the `(i, j)`-th cell of the grid of planes);
both lie in the plane of the two normals — they have no component along the axis of the infinite prism, along which a
filling universe would otherwise slide -/
theorem squareBase_2d (p1 n1 p2 n2 q1 m1 q2 m2 : V3 α) (s1 s2 t1 t2 : Int)
    (hd1 : (p1.sub p2).dot n1 ≠ 0) (hd2 : (q1.sub q2).dot m1 ≠ 0)
    (hnp : n1.norm2 * m1.norm2 - n1.dot m1 * n1.dot m1 ≠ 0) :
    ∃ a b, squareBaseVectors [((p1, n1), s1), ((p2, n2), s2), ((q1, m1), t1), ((q2, m2), t2)] = some [a, b] ∧
      n1.dot ((p2.add a).sub p1) = 0 ∧ m1.dot a = 0 ∧ m1.dot ((q2.add b).sub q1) = 0 ∧ n1.dot b = 0 ∧
      (n1.cross m1).dot a = 0 ∧ (n1.cross m1).dot b = 0 := by
  -- oriented normals and distances
  have hn' : ∀ (n : V3 α) (s : Int) (x : V3 α), (orientN n s).dot x = (if s == 1 then -1 else 1) * n.dot x := by
    intro n s x; unfold orientN; split <;> simp only [V3.dot, V3.smul] <;> ring
  have hsgn : ∀ s : Int, ((if s == 1 then (-1 : α) else 1)) ≠ 0 := by intro s; split <;> simp
  have hD1 : (p1.sub p2).dot (orientN n1 s1) ≠ 0 := by
    rw [dot_comm', hn', dot_comm' n1]; exact mul_ne_zero (hsgn s1) hd1
  have hD2 : (q1.sub q2).dot (orientN m1 t1) ≠ 0 := by
    rw [dot_comm', hn', dot_comm' m1]; exact mul_ne_zero (hsgn t1) hd2
  generalize hN1 : orientN n1 s1 = N1 at hD1
  generalize hN2 : orientN m1 t1 = N2 at hD2
  have hrec : squareReciprocal [((p1, n1), s1), ((p2, n2), s2), ((q1, m1), t1), ((q2, m2), t2)] =
      some [V3.smul (1 / (p1.sub p2).dot N1) N1, V3.smul (1 / (q1.sub q2).dot N2) N2] := by
    simp only [squareReciprocal, Option.map_some, ← hN1, ← hN2, orientN]
  have hnp' : N1.norm2 * N2.norm2 - N1.dot N2 * N1.dot N2 ≠ 0 := by
    have e : N1.norm2 * N2.norm2 - N1.dot N2 * N1.dot N2 = n1.norm2 * m1.norm2 - n1.dot m1 * n1.dot m1 := by
      rw [← hN1, ← hN2]; unfold orientN
      split <;> split <;> simp only [V3.norm2, V3.dot, V3.smul] <;> ring
    rw [e]; exact hnp
  generalize hc1 : 1 / (p1.sub p2).dot N1 = c1 at hrec
  generalize hc2 : 1 / (q1.sub q2).dot N2 = c2 at hrec
  have hc1ne : c1 ≠ 0 := by rw [← hc1]; exact one_div_ne_zero hD1
  have hc2ne : c2 ≠ 0 := by rw [← hc2]; exact one_div_ne_zero hD2
  have hr : (V3.smul c1 N1).norm2 * (V3.smul c2 N2).norm2 - (V3.smul c1 N1).dot (V3.smul c2 N2) * (V3.smul c1 N1).dot (V3.smul c2 N2) ≠ 0 := by
    have e : (V3.smul c1 N1).norm2 * (V3.smul c2 N2).norm2 - (V3.smul c1 N1).dot (V3.smul c2 N2) * (V3.smul c1 N1).dot (V3.smul c2 N2)
        = (c1 * c1 * (c2 * c2)) * (N1.norm2 * N2.norm2 - N1.dot N2 * N1.dot N2) := by
      simp only [V3.norm2, V3.dot, V3.smul]; ring
    rw [e]
    exact mul_ne_zero (mul_ne_zero (mul_ne_zero hc1ne hc1ne) (mul_ne_zero hc2ne hc2ne)) hnp'
  obtain ⟨a, b, hab, ha1, ha2, hb1, hb2, hpa, hpb⟩ := reciprocal_2d (V3.smul c1 N1) (V3.smul c2 N2) hr
  have hcross : ∀ x : V3 α, ((V3.smul c1 N1).cross (V3.smul c2 N2)).dot x = 0 → (n1.cross m1).dot x = 0 := by
    intro x hx
    have e : ((V3.smul c1 N1).cross (V3.smul c2 N2)).dot x = (c1 * c2) * (N1.cross N2).dot x := by
      simp only [V3.cross, V3.dot, V3.smul]; ring
    rw [e] at hx
    have h0 : (N1.cross N2).dot x = 0 := (mul_eq_zero.mp hx).resolve_left (mul_ne_zero hc1ne hc2ne)
    have e2 : (N1.cross N2).dot x = ((if s1 == 1 then (-1 : α) else 1) * (if t1 == 1 then (-1 : α) else 1)) * (n1.cross m1).dot x := by
      rw [← hN1, ← hN2]; unfold orientN
      split <;> split <;> simp only [V3.cross, V3.dot, V3.smul] <;> ring
    rw [e2] at h0
    exact (mul_eq_zero.mp h0).resolve_left (mul_ne_zero (hsgn s1) (hsgn t1))
  refine ⟨a, b, ?_, ?_, ?_, ?_, ?_, hcross a hpa, hcross b hpb⟩
  · simp only [squareBaseVectors, List.length_cons, List.length_nil]
    rw [hrec]; simpa using hab
  · -- a · (c1 N1) = 1  ⇒  N1 · a = (p1 − p2) · N1
    rw [← orientN_dot n1 s1, hN1]
    have h1 : N1.dot a = (p1.sub p2).dot N1 := by
      have : c1 * N1.dot a = 1 := by rw [← dot_smul_left, dot_comm']; exact ha1
      rw [← hc1] at this
      field_simp at this
      exact this
    simp only [V3.dot, V3.sub, V3.add] at h1 ⊢
    linear_combination h1
  · rw [← orientN_dot m1 t1, hN2]
    have : c2 * N2.dot a = 0 := by rw [← dot_smul_left, dot_comm']; exact ha2
    exact (mul_eq_zero.mp this).resolve_left hc2ne
  · rw [← orientN_dot m1 t1, hN2]
    have h1 : N2.dot b = (q1.sub q2).dot N2 := by
      have : c2 * N2.dot b = 1 := by rw [← dot_smul_left, dot_comm']; exact hb2
      rw [← hc2] at this
      field_simp at this
      exact this
    simp only [V3.dot, V3.sub, V3.add] at h1 ⊢
    linear_combination h1
  · rw [← orientN_dot n1 s1, hN1]
    have : c1 * N1.dot b = 0 := by rw [← dot_smul_left, dot_comm']; exact hb1
    exact (mul_eq_zero.mp this).resolve_left hc1ne

/-- **three pairs of planes**: each base vector carries the second plane of its pair onto the first and is parallel to
the planes of the two other pairs -/
theorem squareBase_3d (p1 n1 p2 n2 q1 m1 q2 m2 w1 k1 w2 k2 : V3 α) (s1 s2 t1 t2 u1 u2 : Int)
    (hd1 : (p1.sub p2).dot n1 ≠ 0) (hd2 : (q1.sub q2).dot m1 ≠ 0) (hd3 : (w1.sub w2).dot k1 ≠ 0)
    (hnp : n1.dot (m1.cross k1) ≠ 0) (h3 : (3 : α) ≠ 0) :
    ∃ a b c, squareBaseVectors [((p1, n1), s1), ((p2, n2), s2), ((q1, m1), t1), ((q2, m2), t2),
        ((w1, k1), u1), ((w2, k2), u2)] = some [a, b, c] ∧
      n1.dot ((p2.add a).sub p1) = 0 ∧ m1.dot a = 0 ∧ k1.dot a = 0 ∧
      m1.dot ((q2.add b).sub q1) = 0 ∧ n1.dot b = 0 ∧ k1.dot b = 0 ∧
      k1.dot ((w2.add c).sub w1) = 0 ∧ n1.dot c = 0 ∧ m1.dot c = 0 := by
  have hn' : ∀ (n : V3 α) (s : Int) (x : V3 α), (orientN n s).dot x = (if s == 1 then -1 else 1) * n.dot x := by
    intro n s x; unfold orientN; split <;> simp only [V3.dot, V3.smul] <;> ring
  have hsgn : ∀ s : Int, ((if s == 1 then (-1 : α) else 1)) ≠ 0 := by intro s; split <;> simp
  have hD1 : (p1.sub p2).dot (orientN n1 s1) ≠ 0 := by
    rw [dot_comm', hn', dot_comm' n1]; exact mul_ne_zero (hsgn s1) hd1
  have hD2 : (q1.sub q2).dot (orientN m1 t1) ≠ 0 := by
    rw [dot_comm', hn', dot_comm' m1]; exact mul_ne_zero (hsgn t1) hd2
  have hD3 : (w1.sub w2).dot (orientN k1 u1) ≠ 0 := by
    rw [dot_comm', hn', dot_comm' k1]; exact mul_ne_zero (hsgn u1) hd3
  have hnp' : (orientN n1 s1).dot ((orientN m1 t1).cross (orientN k1 u1)) ≠ 0 := by
    have e : (orientN n1 s1).dot ((orientN m1 t1).cross (orientN k1 u1)) =
        ((if s1 == 1 then (-1 : α) else 1) * (if t1 == 1 then (-1 : α) else 1) * (if u1 == 1 then (-1 : α) else 1)) *
          n1.dot (m1.cross k1) := by
      unfold orientN
      split <;> split <;> split <;> simp only [V3.dot, V3.cross, V3.smul] <;> ring
    rw [e]; exact mul_ne_zero (mul_ne_zero (mul_ne_zero (hsgn s1) (hsgn t1)) (hsgn u1)) hnp
  generalize hN1 : orientN n1 s1 = N1 at hD1 hnp'
  generalize hN2 : orientN m1 t1 = N2 at hD2 hnp'
  generalize hN3 : orientN k1 u1 = N3 at hD3 hnp'
  have hrec : squareReciprocal [((p1, n1), s1), ((p2, n2), s2), ((q1, m1), t1), ((q2, m2), t2),
      ((w1, k1), u1), ((w2, k2), u2)] =
      some [V3.smul (1 / (p1.sub p2).dot N1) N1, V3.smul (1 / (q1.sub q2).dot N2) N2, V3.smul (1 / (w1.sub w2).dot N3) N3] := by
    simp only [squareReciprocal, Option.map_some, ← hN1, ← hN2, ← hN3, orientN]
  generalize hc1 : 1 / (p1.sub p2).dot N1 = c1 at hrec
  generalize hc2 : 1 / (q1.sub q2).dot N2 = c2 at hrec
  generalize hc3 : 1 / (w1.sub w2).dot N3 = c3 at hrec
  have hc1ne : c1 ≠ 0 := by rw [← hc1]; exact one_div_ne_zero hD1
  have hc2ne : c2 ≠ 0 := by rw [← hc2]; exact one_div_ne_zero hD2
  have hc3ne : c3 ≠ 0 := by rw [← hc3]; exact one_div_ne_zero hD3
  have hr : (V3.smul c1 N1).dot ((V3.smul c2 N2).cross (V3.smul c3 N3)) ≠ 0 := by
    have e : (V3.smul c1 N1).dot ((V3.smul c2 N2).cross (V3.smul c3 N3)) = (c1 * c2 * c3) * N1.dot (N2.cross N3) := by
      simp only [V3.dot, V3.cross, V3.smul]; ring
    rw [e]; exact mul_ne_zero (mul_ne_zero (mul_ne_zero hc1ne hc2ne) hc3ne) hnp'
  obtain ⟨a, b, c, habc, a1, a2, a3, b1, b2, b3, c1', c2', c3'⟩ :=
    reciprocal_3d (V3.smul c1 N1) (V3.smul c2 N2) (V3.smul c3 N3) hr h3
  have shift : ∀ (N x p q : V3 α) (cc : α), cc ≠ 0 → cc = 1 / (p.sub q).dot N → x.dot (V3.smul cc N) = 1 →
      N.dot ((q.add x).sub p) = 0 := by
    intro N x p q cc hcc hdef hx
    have hdd : (p.sub q).dot N ≠ 0 := by
      intro h0; rw [hdef, h0] at hcc; simp at hcc
    have h1 : N.dot x = (p.sub q).dot N := by
      have : cc * N.dot x = 1 := by rw [← dot_smul_left, dot_comm']; exact hx
      rw [hdef] at this
      field_simp at this
      exact this
    simp only [V3.dot, V3.sub, V3.add] at h1 ⊢
    linear_combination h1
  have par : ∀ (N x : V3 α) (cc : α), cc ≠ 0 → x.dot (V3.smul cc N) = 0 → N.dot x = 0 := by
    intro N x cc hcc hx
    have : cc * N.dot x = 0 := by rw [← dot_smul_left, dot_comm']; exact hx
    exact (mul_eq_zero.mp this).resolve_left hcc
  refine ⟨a, b, c, ?_, ?_, ?_, ?_, ?_, ?_, ?_, ?_, ?_, ?_⟩
  · simp only [squareBaseVectors, List.length_cons, List.length_nil]
    rw [hrec]; simpa using habc
  · rw [← orientN_dot n1 s1, hN1]; exact shift N1 a p1 p2 c1 hc1ne hc1.symm a1
  · rw [← orientN_dot m1 t1, hN2]; exact par N2 a c2 hc2ne a2
  · rw [← orientN_dot k1 u1, hN3]; exact par N3 a c3 hc3ne a3
  · rw [← orientN_dot m1 t1, hN2]; exact shift N2 b q1 q2 c2 hc2ne hc2.symm b2
  · rw [← orientN_dot n1 s1, hN1]; exact par N1 b c1 hc1ne b1
  · rw [← orientN_dot k1 u1, hN3]; exact par N3 b c3 hc3ne b3
  · rw [← orientN_dot k1 u1, hN3]; exact shift N3 c w1 w2 c3 hc3ne hc3.symm c3'
  · rw [← orientN_dot n1 s1, hN1]; exact par N1 c c1 hc1ne c1'
  · rw [← orientN_dot m1 t1, hN2]; exact par N2 c c2 hc2ne c2'
end

example : latIndices [(-1, 1), (-2, 2)] =
    [[-1, -2], [0, -2], [1, -2], [-1, -1], [0, -1], [1, -1], [-1, 0], [0, 0], [1, 0], [-1, 1], [0, 1], [1, 1],
     [-1, 2], [0, 2], [1, 2]] := by decide

/-! ### the ranges of `--lattice` -/

/-- **`--lattice cell,i_min:i_max[,j_min:j_max[,k_min:k_max]]` is read as written**: the cell number and the one to
three ranges, in order, for all integers (negative and degenerate ranges included) -/
theorem lattice_option_read_as_written (cell : Int) (rs : List (Int × Int)) (h1 : 1 ≤ rs.length) (h3 : rs.length ≤ 3) :
    LA.parseOption (LAP.optionText cell rs) = .ok (cell, rs) :=
  LAP.parseOption_optionText cell rs h1 h3

example : LAP.optionText 200 [(2, 5), (-4, 4)] = "200,2:5,-4:4".toList := by decide

end T4V.C06
