import T4V.Model.Hex
import T4V.Model.Lattice
import T4V.Props.C06
import Mathlib.Tactic.Ring
import Mathlib.Tactic.FieldSimp
import Mathlib.Tactic.LinearCombination
/-!
# Property C07 — hexagonal lattices follow MCNP's hexagonal index convention

Model: `T4V.Model.Hex` (vertex traversal of `hexVertices`, base vectors = `v[0] − v[2]` of the traversals
started at the first and at the third listed side), `T4V.Model.Lattice` (index enumeration, shared with
rectangular lattices: theorems of `Props/C06`).  The six side planes are listed as MCNP requires: (1st,
2nd) opposite, (3rd, 4th) opposite, (5th, 6th) opposite, the last pair in either order — labels 0…5.
-/
namespace T4V.C07
open T4V

/-- **the traversal goes round the hexagon**, whatever the cyclic arrangement of the listed planes (eight
arrangements per starting side: either neighbour pair, either order inside the pairs): starting from
side `first` it returns the six vertices in cyclic order, in one direction or the other, the first and
the last vertex lying on side `first` -/
theorem traversal_goes_round_0 : ∀ arr ∈ arrangements 0,
    hexTraverse (adjOfCycle arr) 0 = some (forward arr) ∨ hexTraverse (adjOfCycle arr) 0 = some (backward arr) := by
  decide

theorem traversal_goes_round_2 : ∀ arr ∈ arrangements 2,
    hexTraverse (adjOfCycle arr) 2 = some (forward arr) ∨ hexTraverse (adjOfCycle arr) 2 = some (backward arr) := by
  decide

/-- the two directions name the same vertices: `backward[k] = forward[5 − k]` -/
theorem backward_is_forward_reversed : ∀ first ∈ [0, 2], ∀ arr ∈ arrangements first,
    backward arr = (forward arr).reverse := by
  decide

section
variable {α : Type} [Field α]

theorem V3.ext' {a b : V3 α} (hx : a.x = b.x) (hy : a.y = b.y) (hz : a.z = b.z) : a = b := by
  cases a; cases b; simp_all

/-- **the base vector carries the unit cell across the starting side.**  `Q0 … Q5`: the vertices going
round, `Q5 Q0` being the starting side and `Q2 Q3` the opposite one; opposite sides parallel and equal
(the hexagon is centrally symmetric: `Q(k+3) + Qk` is the same point for `k = 0, 1, 2`) — regular or
not, in any orientation.  Then `a = v[0] − v[2]` is the same vector for both directions of the traversal
and the translation by `a` maps the opposite side onto the starting side. -/
theorem base_vector_carries (Q0 Q1 Q2 Q3 Q4 Q5 s : V3 α)
    (h0 : Q3.add Q0 = s) (h1 : Q4.add Q1 = s) (h2 : Q5.add Q2 = s) :
    let a := Q0.sub Q2
    Q2.add a = Q0 ∧ Q3.add a = Q5 ∧ Q5.sub Q3 = a := by
  have hx : Q3.x + Q0.x = Q5.x + Q2.x := by
    have := congrArg V3.x (h0.trans h2.symm); simpa [V3.add] using this
  have hy : Q3.y + Q0.y = Q5.y + Q2.y := by
    have := congrArg V3.y (h0.trans h2.symm); simpa [V3.add] using this
  have hz : Q3.z + Q0.z = Q5.z + Q2.z := by
    have := congrArg V3.z (h0.trans h2.symm); simpa [V3.add] using this
  refine ⟨?_, ?_, ?_⟩ <;> apply V3.ext' <;> simp only [V3.add, V3.sub]
  · ring
  · ring
  · ring
  · linear_combination hx
  · linear_combination hy
  · linear_combination hz
  · linear_combination -hx
  · linear_combination -hy
  · linear_combination -hz

/-- **`hexLatticeBaseVectors`, first two vectors**: with vertex positions `pos` (named by the pair of
sides they lie on) of a centrally symmetric hexagon, the vector `pos v[0] − pos v[2]` computed from the
traversal started at side `first` is the translation that maps the side opposite to `first` onto
`first` — for every arrangement of the listed planes -/
theorem hex_base_vector (first : Nat) (hf : first = 0 ∨ first = 2) (arr : List Nat) (harr : arr ∈ arrangements first)
    (pos : Nat × Nat → V3 α) (s : V3 α)
    (hsym : ∀ k, k < 3 → (pos ((forward arr).getD (k + 3) (0, 0))).add (pos ((forward arr).getD k (0, 0))) = s) :
    ∃ vs, hexTraverse (adjOfCycle arr) first = some vs ∧
      let a := (pos (vs.getD 0 (0, 0))).sub (pos (vs.getD 2 (0, 0)))
      let Q := fun k => pos ((forward arr).getD k (0, 0))
      (Q 2).add a = Q 0 ∧ (Q 3).add a = Q 5 := by
  have key := base_vector_carries (pos ((forward arr).getD 0 (0, 0))) (pos ((forward arr).getD 1 (0, 0)))
    (pos ((forward arr).getD 2 (0, 0))) (pos ((forward arr).getD 3 (0, 0))) (pos ((forward arr).getD 4 (0, 0)))
    (pos ((forward arr).getD 5 (0, 0))) s (hsym 0 (by omega)) (hsym 1 (by omega)) (hsym 2 (by omega))
  have hrev : backward arr = (forward arr).reverse := by
    rcases hf with rfl | rfl
    · exact backward_is_forward_reversed 0 (by simp) arr harr
    · exact backward_is_forward_reversed 2 (by simp) arr harr
  have hlen : (forward arr).length = 6 := by simp [forward]
  have hround : hexTraverse (adjOfCycle arr) first = some (forward arr) ∨
      hexTraverse (adjOfCycle arr) first = some (backward arr) := by
    rcases hf with rfl | rfl
    · exact traversal_goes_round_0 arr harr
    · exact traversal_goes_round_2 arr harr
  rcases hround with h | h
  · exact ⟨_, h, key.1, key.2.1⟩
  · refine ⟨_, h, ?_⟩
    -- backward[0] = forward[5], backward[2] = forward[3]
    have rev6 : ∀ l : List (Nat × Nat), l.length = 6 →
        l.reverse.getD 0 (0, 0) = l.getD 5 (0, 0) ∧ l.reverse.getD 2 (0, 0) = l.getD 3 (0, 0) := by
      intro l hl
      rcases l with _ | ⟨a, _ | ⟨b, _ | ⟨c, _ | ⟨d, _ | ⟨e, _ | ⟨f, _ | ⟨g, r⟩⟩⟩⟩⟩⟩⟩ <;> simp at hl ⊢
    have e0 : (backward arr).getD 0 (0, 0) = (forward arr).getD 5 (0, 0) := by rw [hrev]; exact (rev6 _ hlen).1
    have e2 : (backward arr).getD 2 (0, 0) = (forward arr).getD 3 (0, 0) := by rw [hrev]; exact (rev6 _ hlen).2
    simp only [e0, e2]
    rw [key.2.2]
    exact ⟨key.1, key.2.1⟩
end

/-- universes are assigned to the elements of a hexagonal lattice as for rectangular ones: same index
enumeration (first index fastest), same pairing with the FILL array -/
theorem hex_fill_array_order {β} (bs : List (Int × Int)) (spec : List β) (h : bs ≠ []) :
    latItems bs spec = (indexBox bs).zip spec :=
  C06.items_zip bs spec h


section
variable {α : Type} [Field α]

/-- the projection lies on the plane -/
theorem projection_on_plane (point plPt normal dir : V3 α) (h : dir.dot normal ≠ 0) :
    normal.dot ((projectPointOnPlane point plPt normal dir).sub plPt) = 0 := by
  simp only [projectPointOnPlane, V3.dot, V3.sub, V3.add, V3.smul] at h ⊢
  generalize hd : dir.x * normal.x + dir.y * normal.y + dir.z * normal.z = d at h ⊢
  field_simp
  linear_combination ((plPt.x - point.x) * normal.x + (plPt.y - point.y) * normal.y + (plPt.z - point.z) * normal.z) * hd

/-- **the third base vector of an eight-plane hexagonal prism**: for parallel end planes (`n8 = μ·n7`) it is the
multiple of the prism axis that carries the eighth-listed plane onto the seventh-listed one, whatever vertex the
construction starts from -/
theorem hex_axial_vector (v p7 n7 p8 n8 axis : V3 α) (μ : α) (hμ : μ ≠ 0) (hn : n8 = V3.smul μ n7)
    (hax : axis.dot n7 ≠ 0) :
    hexAxialVector v p7 n7 p8 n8 axis = V3.smul (n7.dot (p7.sub p8) / n7.dot axis) axis ∧
    ∀ x : V3 α, n8.dot (x.sub p8) = 0 → n7.dot ((x.add (hexAxialVector v p7 n7 p8 n8 axis)).sub p7) = 0 := by
  subst hn
  have e1 : n7.dot axis = axis.dot n7 := by simp only [V3.dot]; ring
  have e2 : axis.dot (V3.smul μ n7) = μ * axis.dot n7 := by simp only [V3.dot, V3.smul]; ring
  have key : hexAxialVector v p7 n7 p8 (V3.smul μ n7) axis = V3.smul (n7.dot (p7.sub p8) / n7.dot axis) axis := by
    unfold hexAxialVector projectPointOnPlane
    rw [e1, e2]
    generalize axis.dot n7 = d at hax
    have e3 : ((p8.sub v).dot (V3.smul μ n7)) / (μ * d) = ((p8.sub v).dot n7) / d := by
      have : (p8.sub v).dot (V3.smul μ n7) = μ * (p8.sub v).dot n7 := by simp only [V3.dot, V3.smul]; ring
      rw [this]; field_simp
    rw [e3]
    apply V3.ext' <;> simp only [V3.dot, V3.sub, V3.add, V3.smul] <;> field_simp <;> ring
  refine ⟨key, fun x hx => ?_⟩
  rw [key, e1]
  have hx' : n7.dot (x.sub p8) = 0 := by
    have : (V3.smul μ n7).dot (x.sub p8) = μ * n7.dot (x.sub p8) := by simp only [V3.dot, V3.smul]; ring
    rw [this] at hx
    exact (mul_eq_zero.mp hx).resolve_left hμ
  have hd : axis.dot n7 = axis.x * n7.x + axis.y * n7.y + axis.z * n7.z := rfl
  generalize axis.dot n7 = d at hax hd
  simp only [V3.dot, V3.sub, V3.add, V3.smul] at hx' ⊢
  field_simp
  linear_combination d * hx' - (n7.x * (p7.x - p8.x) + n7.y * (p7.y - p8.y) + n7.z * (p7.z - p8.z)) * hd
end

end T4V.C07
