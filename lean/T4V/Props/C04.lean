import T4V.Proofs.Transform
import T4V.Proofs.RealOK
import T4V.Proofs.Rot
import T4V.Model.TRCard
import T4V.Proofs.PotTransform
/-!
# Property C04 — coordinate transformations move surfaces by the MCNP rigid motion

Model: `T4V.Model.Transform` (`transformation()`, `transform_point/vector`, `transformation_quad`,
`special_quadric_to_quadric`) composed with the surface model of C02.  Spec: `Motion.toAux` (MCNP: the
auxiliary coordinates of a main-frame point, `B (p − O)`) and `elemSense`.  `Rot b`: rows and columns of
the matrix orthonormal.  All theorems hold for every such matrix, every displacement and every point.
-/
set_option linter.unusedSectionVars false
set_option linter.unusedSimpArgs false
set_option linter.unusedTactic false
set_option linter.unreachableTactic false
set_option linter.unnecessarySeqFocus false
namespace T4V.C04
open T4V T4V.Surf T4V.Tr
variable {α : Type} [Field α] [LinearOrder α] [IsStrictOrderedRing α] [Transc α]

/-- `transform_point` is MCNP's auxiliary → main map and `toAux` inverts it -/
theorem motion_invertible (m : Motion α) (h : Rot m.b) (q p : V3 α) :
    trPoint m q = m.toMain q ∧ m.toAux (m.toMain q) = q ∧ m.toMain (m.toAux p) = p :=
  ⟨trPoint_eq_toMain m q, toAux_toMain m h q, toMain_toAux m h p⟩

/-- quadric coefficients transported by `transformation_quad` (any matrix, any displacement) -/
theorem quadric_transport (a b c d e f g h j k : α) (m : Motion α) (p : V3 α) :
    ∃ q', transformQuad [a, b, c, d, e, f, g, h, j, k] m = some q' ∧
      evalQuadric q' p = evalQuadric [a, b, c, d, e, f, g, h, j, k] (m.toAux p) :=
  quad_transport a b c d e f g h j k m p

/-- frames (plane, sphere, cylinder, cone) transported by `transform_frame` -/
theorem frames_transport (m : Motion α) (h : Rot m.b) (s : MSurf α)
    (hk : s.kind = .p ∨ s.kind = .s ∨ s.kind = .c ∨ s.kind = .k) :
    ∃ s', transformSurf m s = some s' ∧ s'.kind = s.kind ∧ s'.compl = s.compl ∧ s'.nappe = s.nappe ∧
      s'.ax.dot s'.ax = s.ax.dot s.ax ∧ ∀ t2 p, frameF s' t2 p = frameF s t2 (m.toAux p) :=
  frame_transport m h s hk

/-- **C04 for surface cards carrying a transformation number**: for every rigid motion (rows and columns
of the matrix orthonormal, any displacement) the converted surface is the image of the untransformed
one: sense at `p` = MCNP's sense of the card at the auxiliary coordinates of `p` -/
theorem transformed_card (ok : TranscOK α) (m : Motion α) (hR : Rot m.b) {mn : String} {ps : List α}
    (h : TrAdmissible mn ps) : TrConverted mn ps m := by
  have one : (0:α) < 1 := one_pos
  cases h with
  | px d =>
    exact tr_card_of_frame m hR (s := mkPlane ⟨d, 0, 0⟩ ⟨1, 0, 0⟩) rfl (Or.inl rfl) (fun q => q.x - d) 1 one
      (fun q => by simp [frameF, mkPlane, V3.dot, V3.sub]) (fun s' hk _ _ => plane_conv _ rfl s' hk) (fun _ => rfl)
  | py d =>
    exact tr_card_of_frame m hR (s := mkPlane ⟨0, d, 0⟩ ⟨0, 1, 0⟩) rfl (Or.inl rfl) (fun q => q.y - d) 1 one
      (fun q => by simp [frameF, mkPlane, V3.dot, V3.sub]) (fun s' hk _ _ => plane_conv _ rfl s' hk) (fun _ => rfl)
  | pz d =>
    exact tr_card_of_frame m hR (s := mkPlane ⟨0, 0, d⟩ ⟨0, 0, 1⟩) rfl (Or.inl rfl) (fun q => q.z - d) 1 one
      (fun q => by simp [frameF, mkPlane, V3.dot, V3.sub]) (fun s' hk _ _ => plane_conv _ rfl s' hk) (fun _ => rfl)
  | p4 a b c d h =>
    have hn := ok.sqrt_pos _ h
    have hnn := ok.sqrt_sq _ h.le
    refine tr_card_of_frame m hR (s := cadPlane4 a b c d) (planeCard_convert ok a b c d h) (Or.inl rfl)
      (fun q => a * q.x + b * q.y + c * q.z - d) (1 / Transc.sqrt (a * a + b * b + c * c)) (by positivity)
      (fun q => ?_) (fun s' hk _ _ => plane_conv _ rfl s' hk) (fun _ => rfl)
    simp only [frameF, cadPlane4, mkPlane, V3.dot, V3.sub]
    generalize Transc.sqrt (a * a + b * b + c * c) = n at hn hnn
    have hn0 : n ≠ 0 := hn.ne'
    have hnn' : n ^ 2 = a * a + b * b + c * c := by rw [pow_two]; exact hnn
    congr 1
    field_simp
    first | linear_combination d * hnn' | linear_combination (-d) * hnn'
  | so r =>
    exact tr_card_of_frame m hR (s := mkSphere 0 0 0 r) rfl (Or.inr (Or.inl rfl))
      (fun q => sq q.x + sq q.y + sq q.z - sq r) 1 one
      (fun q => by simp [frameF, mkSphere, V3.norm2, V3.dot, V3.sub, sq])
      (fun s' hk hc _ => sphere_conv _ r rfl rfl s' hk hc) (fun _ => rfl)
  | s a b c r =>
    exact tr_card_of_frame m hR (s := mkSphere a b c r) rfl (Or.inr (Or.inl rfl))
      (fun q => sq (q.x - a) + sq (q.y - b) + sq (q.z - c) - sq r) 1 one
      (fun q => by simp [frameF, mkSphere, V3.norm2, V3.dot, V3.sub, sq])
      (fun s' hk hc _ => sphere_conv _ r rfl rfl s' hk hc) (fun _ => rfl)
  | sx a r =>
    exact tr_card_of_frame m hR (s := mkSphere a 0 0 r) rfl (Or.inr (Or.inl rfl))
      (fun q => sq (q.x - a) + sq q.y + sq q.z - sq r) 1 one
      (fun q => by simp [frameF, mkSphere, V3.norm2, V3.dot, V3.sub, sq])
      (fun s' hk hc _ => sphere_conv _ r rfl rfl s' hk hc) (fun _ => rfl)
  | sy b r =>
    exact tr_card_of_frame m hR (s := mkSphere 0 b 0 r) rfl (Or.inr (Or.inl rfl))
      (fun q => sq q.x + sq (q.y - b) + sq q.z - sq r) 1 one
      (fun q => by simp [frameF, mkSphere, V3.norm2, V3.dot, V3.sub, sq])
      (fun s' hk hc _ => sphere_conv _ r rfl rfl s' hk hc) (fun _ => rfl)
  | sz c r =>
    exact tr_card_of_frame m hR (s := mkSphere 0 0 c r) rfl (Or.inr (Or.inl rfl))
      (fun q => sq q.x + sq q.y + sq (q.z - c) - sq r) 1 one
      (fun q => by simp [frameF, mkSphere, V3.norm2, V3.dot, V3.sub, sq])
      (fun s' hk hc _ => sphere_conv _ r rfl rfl s' hk hc) (fun _ => rfl)
  | c_x b c r =>
    exact tr_card_of_frame m hR (s := mkCyl 0 b c r 1 0 0) rfl (Or.inr (Or.inr (Or.inl rfl)))
      (fun q => sq (q.y - b) + sq (q.z - c) - sq r) 1 one
      (fun q => by simp [frameF, mkCyl, V3.norm2, V3.dot, V3.sub, sq] <;> ring)
      (fun s' hk hc hax => cyl_conv _ r rfl rfl (by simp [mkCyl, V3.dot]) s' hk hc hax) (fun _ => rfl)
  | c_y a c r =>
    exact tr_card_of_frame m hR (s := mkCyl a 0 c r 0 1 0) rfl (Or.inr (Or.inr (Or.inl rfl)))
      (fun q => sq (q.x - a) + sq (q.z - c) - sq r) 1 one
      (fun q => by simp [frameF, mkCyl, V3.norm2, V3.dot, V3.sub, sq] <;> ring)
      (fun s' hk hc hax => cyl_conv _ r rfl rfl (by simp [mkCyl, V3.dot]) s' hk hc hax) (fun _ => rfl)
  | c_z a b r =>
    exact tr_card_of_frame m hR (s := mkCyl a b 0 r 0 0 1) rfl (Or.inr (Or.inr (Or.inl rfl)))
      (fun q => sq (q.x - a) + sq (q.y - b) - sq r) 1 one
      (fun q => by simp [frameF, mkCyl, V3.norm2, V3.dot, V3.sub, sq] <;> ring)
      (fun s' hk hc hax => cyl_conv _ r rfl rfl (by simp [mkCyl, V3.dot]) s' hk hc hax) (fun _ => rfl)
  | cx r =>
    exact tr_card_of_frame m hR (s := mkCyl 0 0 0 r 1 0 0) rfl (Or.inr (Or.inr (Or.inl rfl)))
      (fun q => sq q.y + sq q.z - sq r) 1 one
      (fun q => by simp [frameF, mkCyl, V3.norm2, V3.dot, V3.sub, sq] <;> ring)
      (fun s' hk hc hax => cyl_conv _ r rfl rfl (by simp [mkCyl, V3.dot]) s' hk hc hax) (fun _ => rfl)
  | cy r =>
    exact tr_card_of_frame m hR (s := mkCyl 0 0 0 r 0 1 0) rfl (Or.inr (Or.inr (Or.inl rfl)))
      (fun q => sq q.x + sq q.z - sq r) 1 one
      (fun q => by simp [frameF, mkCyl, V3.norm2, V3.dot, V3.sub, sq] <;> ring)
      (fun s' hk hc hax => cyl_conv _ r rfl rfl (by simp [mkCyl, V3.dot]) s' hk hc hax) (fun _ => rfl)
  | cz r =>
    exact tr_card_of_frame m hR (s := mkCyl 0 0 0 r 0 0 1) rfl (Or.inr (Or.inr (Or.inl rfl)))
      (fun q => sq q.x + sq q.y - sq r) 1 one
      (fun q => by simp [frameF, mkCyl, V3.norm2, V3.dot, V3.sub, sq] <;> ring)
      (fun s' hk hc hax => cyl_conv _ r rfl rfl (by simp [mkCyl, V3.dot]) s' hk hc hax) (fun _ => rfl)

/-- a GQ card carrying a transformation: any matrix, any displacement -/
theorem transformed_gq (m : Motion α) (a b c d e f g h j k : α) : TrConverted "gq" [a, b, c, d, e, f, g, h, j, k] m := by
  obtain ⟨q', hq, he⟩ := quad_transport a b c d e f g h j k m ⟨0, 0, 0⟩
  refine trconverted_of_same m (t := { kind := .quad, ps := q' })
    (g := fun q => a * sq q.x + b * sq q.y + c * sq q.z + d * q.x * q.y + e * q.y * q.z + f * q.z * q.x
      + g * q.x + h * q.y + j * q.z + k) ?_ ⟨1, one_pos, fun p => ?_⟩ (fun _ => rfl)
  · have hc : cadOf (0:α) 0 "gq" [a, b, c, d, e, f, g, h, j, k] =
        some { kind := .gq, pt := V3.zero, ax := V3.zero, compl := [a, b, c, d, e, f, g, h, j, k] } := rfl
    simp [convertCardTr, hc, transformSurf, hq, convertSurf]
  · obtain ⟨q'', hq'', he'⟩ := quad_transport a b c d e f g h j k m p
    rw [hq] at hq''; cases hq''
    have : TSurf.f { kind := .quad, ps := q' } p = evalQuadric q' p := by
      simp only [transformQuad] at hq; cases hq
      simp [TSurf.f, TSurf.fLocal, evalQuadric, sq]
    rw [this, he', one_mul]
    simp [evalQuadric, sq]

/-- an SQ card carrying a transformation is expanded to GQ coefficients *without* the sign test of the
untransformed path: MCNP's sense is kept for every constant term -/
theorem transformed_sq (m : Motion α) (a b c d e f g x y z : α) : TrConverted "sq" [a, b, c, d, e, f, g, x, y, z] m := by
  obtain ⟨q', hq, -⟩ := quad_transport a b c 0 0 0 (two * d - two * a * x) (two * e - two * b * y) (two * f - two * c * z)
    (a * (x * x) + b * (y * y) + c * (z * z) - two * (d * x + e * y + f * z) + g) m ⟨0, 0, 0⟩
  refine trconverted_of_same m (t := { kind := .quad, ps := q' })
    (g := fun q => a * sq (q.x - x) + b * sq (q.y - y) + c * sq (q.z - z)
      + two * d * (q.x - x) + two * e * (q.y - y) + two * f * (q.z - z) + g) ?_ ⟨1, one_pos, fun p => ?_⟩ (fun _ => rfl)
  · have hc : cadOf (0:α) 0 "sq" [a, b, c, d, e, f, g, x, y, z] =
        some { kind := .sq, pt := V3.zero, ax := V3.zero, compl := [a, b, c, d, e, f, g, x, y, z] } := rfl
    simp [convertCardTr, hc, transformSurf, sqToGq, hq, convertSurf]
  · obtain ⟨q'', hq'', he'⟩ := quad_transport a b c 0 0 0 (two * d - two * a * x) (two * e - two * b * y)
      (two * f - two * c * z) (a * (x * x) + b * (y * y) + c * (z * z) - two * (d * x + e * y + f * z) + g) m p
    rw [hq] at hq''; cases hq''
    have : TSurf.f { kind := .quad, ps := q' } p = evalQuadric q' p := by
      simp only [transformQuad] at hq; cases hq
      simp [TSurf.f, TSurf.fLocal, evalQuadric, sq]
    rw [this, he', one_mul]
    simp only [evalQuadric, sq, two]
    congr 1; ring

/-- **one-sheet cone whose axis is `±z` after a transformation** (axis flipped or not): the apex plane's
side accounts for the direction of the axis: a negative reference selects the points inside the cone on
the sheet where `s · (u · (p − apex)) > 0` -/
theorem flipped_cone_z (pt : V3 α) (uz tana at_ s : α) (huz : uz ≠ 0) (hs : s = 1 ∨ s = -1) (p : V3 α) :
    ∃ coll cone, convertSurf { kind := .k, pt := pt, ax := ⟨0, 0, uz⟩, compl := [tana, at_], nappe := some s } = some coll ∧
      coll.length = 2 ∧ coll[0]? = some (cone, 1) ∧
      ∃ v, cone.f p = some v ∧
        collNegative coll p = some (decide (v < 0) && decide (0 < s * (uz * (p.z - pt.z)))) := by
  have h10 : ¬ (1:α) < 0 := not_lt.mpr zero_le_one
  have hb : (uz == 0) = false := by simpa using huz
  rcases hs with rfl | rfl <;> rcases lt_or_gt_of_ne huz with hu | hu
  all_goals
    refine ⟨_, _, by simp [convertSurf, convertCone, hb]; rfl, rfl, rfl, _, rfl, ?_⟩
    simp [collNegative, TSurf.f, TSurf.fLocal, h10, hu, not_lt.mpr hu.le, Bool.and_comm, mul_div_cancel_left₀ _ huz]
    try (congr 1; simp only [decide_eq_decide]; constructor <;> intro h <;> nlinarith)

/-- **one-sheet cone whose axis is `±x` after a transformation** (axis flipped or not): the apex plane's
side accounts for the direction of the axis: a negative reference selects the points inside the cone on
the sheet where `s · (u · (p − apex)) > 0` -/
theorem flipped_cone_x (pt : V3 α) (ux tana at_ s : α) (hux : ux ≠ 0) (hs : s = 1 ∨ s = -1) (p : V3 α) :
    ∃ coll cone, convertSurf { kind := .k, pt := pt, ax := ⟨ux, 0, 0⟩, compl := [tana, at_], nappe := some s } = some coll ∧
      coll.length = 2 ∧ coll[0]? = some (cone, 1) ∧
      ∃ v, cone.f p = some v ∧
        collNegative coll p = some (decide (v < 0) && decide (0 < s * (ux * (p.x - pt.x)))) := by
  have h10 : ¬ (1:α) < 0 := not_lt.mpr zero_le_one
  have hb : (ux == 0) = false := by simpa using hux
  rcases hs with rfl | rfl <;> rcases lt_or_gt_of_ne hux with hu | hu
  all_goals
    refine ⟨_, _, by simp [convertSurf, convertCone, hb]; rfl, rfl, rfl, _, rfl, ?_⟩
    simp [collNegative, TSurf.f, TSurf.fLocal, h10, hu, not_lt.mpr hu.le, Bool.and_comm, mul_div_cancel_left₀ _ hux]
    try (congr 1; simp only [decide_eq_decide]; constructor <;> intro h <;> nlinarith)

/-- **one-sheet cone whose axis is `±y` after a transformation** (axis flipped or not): the apex plane's
side accounts for the direction of the axis: a negative reference selects the points inside the cone on
the sheet where `s · (u · (p − apex)) > 0` -/
theorem flipped_cone_y (pt : V3 α) (uy tana at_ s : α) (huy : uy ≠ 0) (hs : s = 1 ∨ s = -1) (p : V3 α) :
    ∃ coll cone, convertSurf { kind := .k, pt := pt, ax := ⟨0, uy, 0⟩, compl := [tana, at_], nappe := some s } = some coll ∧
      coll.length = 2 ∧ coll[0]? = some (cone, 1) ∧
      ∃ v, cone.f p = some v ∧
        collNegative coll p = some (decide (v < 0) && decide (0 < s * (uy * (p.y - pt.y)))) := by
  have h10 : ¬ (1:α) < 0 := not_lt.mpr zero_le_one
  have hb : (uy == 0) = false := by simpa using huy
  rcases hs with rfl | rfl <;> rcases lt_or_gt_of_ne huy with hu | hu
  all_goals
    refine ⟨_, _, by simp [convertSurf, convertCone, hb]; rfl, rfl, rfl, _, rfl, ?_⟩
    simp [collNegative, TSurf.f, TSurf.fLocal, h10, hu, not_lt.mpr hu.le, Bool.and_comm, mul_div_cancel_left₀ _ huy]
    try (congr 1; simp only [decide_eq_decide]; constructor <;> intro h <;> nlinarith)

/-! ### TR cards: abbreviated matrices, m = −1 -/

/-- **TR cards with two rows given** (six entries, or nine with three `J`): the missing row is the vector
product of the two given ones in cyclic order; every supplied entry is reproduced -/
theorem two_rows_completed (a b : V3 α) :
    normMatrix (row9 a ++ row9 b) = .ok (row9 a ++ row9 b ++ row9 (a.cross b)) ∧
    normMatrix (row9 a ++ row9 b ++ [none, none, none]) = .ok (row9 a ++ row9 b ++ row9 (a.cross b)) ∧
    normMatrix ([none, none, none] ++ row9 a ++ row9 b) = .ok (row9 (a.cross b) ++ row9 a ++ row9 b) ∧
    normMatrix (row9 b ++ [none, none, none] ++ row9 a) = .ok (row9 b ++ row9 (a.cross b) ++ row9 a) := by
  refine ⟨?_, ?_, ?_, ?_⟩ <;>
    simp [normMatrix, normMatrix6, rows3, row9, v3?, isRowwise, List.replicate]

/-- **two columns given** (`J` in the third place of every row): the missing column is the vector product -/
theorem two_columns_completed (a b : V3 α) :
    normMatrix [some a.x, some b.x, none, some a.y, some b.y, none, some a.z, some b.z, none] =
      .ok [some a.x, some b.x, some (a.cross b).x, some a.y, some b.y, some (a.cross b).y,
           some a.z, some b.z, some (a.cross b).z] := by
  simp [normMatrix, normMatrix6, rows3, row9, v3?, isRowwise, transpose9, List.replicate]

/-- … and the completed matrix is a proper rotation whenever the two given vectors are orthonormal -/
theorem completed_matrix_is_rotation (a b : V3 α) (haa : a.dot a = 1) (hbb : b.dot b = 1) (hab : a.dot b = 0) :
    (Rot ⟨a, b, a.cross b⟩ ∧ det3 ⟨a, b, a.cross b⟩ = 1) ∧
    (Rot ⟨a.cross b, a, b⟩ ∧ det3 ⟨a.cross b, a, b⟩ = 1) ∧
    (Rot ⟨b, a.cross b, a⟩ ∧ det3 ⟨b, a.cross b, a⟩ = 1) :=
  cross_completion a b haa hbb hab

/-- a 13th entry other than 1 (m = −1: the displacement is given in the auxiliary frame) is rejected -/
theorem m_minus_one_rejected (snap : α) (tr : List (Option α)) (m : α) (h12 : tr.length = 12) (hm : m ≠ 1) :
    normTransform snap (tr ++ [some m]) = .error .mMinusOne := by
  have hlen : (tr ++ [some m]).length = 13 := by simp [h12]
  have hbeq : (m == 1) = false := by simpa using hm
  simp [normTransform, hlen, hbeq]

/-- three entries: a pure displacement -/
theorem displacement_only (snap x y z : α) :
    normTransform snap [some x, some y, some z] = .ok [x, y, z, 1, 0, 0, 0, 1, 0, 0, 0, 1] := by
  simp [normTransform, identity9]

theorem sqrt_one (ok : TranscOK α) : Transc.sqrt (1:α) = 1 := by
  have h1 := ok.sqrt_sq 1 zero_le_one
  have h2 := ok.sqrt_pos 1 one_pos
  have : (Transc.sqrt (1:α) - 1) * (Transc.sqrt (1:α) + 1) = 0 := by linear_combination h1
  rcases mul_eq_zero.mp this with h | h
  · linear_combination h
  · exfalso; have : (0:α) < Transc.sqrt 1 + 1 := by positivity
    exact this.ne' h

theorem renorm_unit (ok : TranscOK α) (v : V3 α) (h : v.dot v = 1) : renorm? v = some v := by
  unfold renorm?
  simp only [h, sqrt_one ok]
  have : ((1:α) == 0) = false := by simp
  simp only [this, Bool.false_eq_true, if_false, div_one]
  congr 1
  cases v; simp [V3.smul]

/-- for a proper rotation every row is the vector product of the two that follow it -/
theorem row_is_cross (m : M3 α) (hR : Rot m) (hdet : det3 m = 1) : m.r2.cross m.r3 = m.r1 := by
  obtain ⟨-, -, -, -, -, -, c11, c22, c33, c12, c13, c23⟩ := hR
  simp only [det3, V3.dot, V3.cross] at hdet
  apply T4V.Tr.V3.ext' <;> simp only [V3.cross]
  · linear_combination (-(m.r2.y * m.r3.z - m.r2.z * m.r3.y)) * c11 - (m.r3.x * m.r2.z - m.r2.x * m.r3.z) * c12
      - (m.r2.x * m.r3.y - m.r2.y * m.r3.x) * c13 + m.r1.x * hdet
  · linear_combination (-(m.r2.y * m.r3.z - m.r2.z * m.r3.y)) * c12 - (m.r3.x * m.r2.z - m.r2.x * m.r3.z) * c22
      - (m.r2.x * m.r3.y - m.r2.y * m.r3.x) * c23 + m.r1.y * hdet
  · linear_combination (-(m.r2.y * m.r3.z - m.r2.z * m.r3.y)) * c13 - (m.r3.x * m.r2.z - m.r2.x * m.r3.z) * c23
      - (m.r2.x * m.r3.y - m.r2.y * m.r3.x) * c33 + m.r1.z * hdet
/-- **`adjust_matrix` leaves a proper rotation unchanged** (exact arithmetic, no snapping): a full nine-entry
matrix that is a rotation is used as given -/
theorem adjust_keeps_rotation (ok : TranscOK α) (m : M3 α) (hR : Rot m) (hdet : det3 m = 1) :
    adjustMatrix (0:α) m.toList = some m.toList := by
  obtain ⟨a, b, c⟩ := m
  -- the columns
  have hc0 : (⟨a.x, b.x, c.x⟩ : V3 α).dot ⟨a.x, b.x, c.x⟩ = 1 := by simpa [V3.dot] using hR.c11
  have hc1 : (⟨a.y, b.y, c.y⟩ : V3 α).dot ⟨a.y, b.y, c.y⟩ = 1 := by simpa [V3.dot] using hR.c22
  have hc2 : (⟨a.z, b.z, c.z⟩ : V3 α).dot ⟨a.z, b.z, c.z⟩ = 1 := by simpa [V3.dot] using hR.c33
  have hc01 : (⟨a.x, b.x, c.x⟩ : V3 α).dot ⟨a.y, b.y, c.y⟩ = 0 := by simpa [V3.dot] using hR.c12
  have hc02 : (⟨a.x, b.x, c.x⟩ : V3 α).dot ⟨a.z, b.z, c.z⟩ = 0 := by simpa [V3.dot] using hR.c13
  have hc12 : (⟨a.y, b.y, c.y⟩ : V3 α).dot ⟨a.z, b.z, c.z⟩ = 0 := by simpa [V3.dot] using hR.c23
  have hcross : (⟨a.x, b.x, c.x⟩ : V3 α).cross ⟨a.y, b.y, c.y⟩ = ⟨a.z, b.z, c.z⟩ := by
    have hRot : Rot (⟨⟨a.z, b.z, c.z⟩, ⟨a.x, b.x, c.x⟩, ⟨a.y, b.y, c.y⟩⟩ : M3 α) :=
      Rot.of_rows _ hc2 hc0 hc1 (by rw [← hc02]; simp only [V3.dot]; ring) (by rw [← hc12]; simp only [V3.dot]; ring) hc01
    have hd : det3 (⟨⟨a.z, b.z, c.z⟩, ⟨a.x, b.x, c.x⟩, ⟨a.y, b.y, c.y⟩⟩ : M3 α) = 1 := by
      rw [← hdet]; simp only [det3, V3.dot, V3.cross]; ring
    exact row_is_cross _ hRot hd
  have ha := renorm_unit ok a hR.r11
  have hb := renorm_unit ok b hR.r22
  have hcn := renorm_unit ok c hR.r33
  have hv1 : (V3.smul ((⟨a.x, b.x, c.x⟩ : V3 α).dot ⟨a.x, b.x, c.x⟩) ⟨a.y, b.y, c.y⟩).sub
      (V3.smul ((⟨a.x, b.x, c.x⟩ : V3 α).dot ⟨a.y, b.y, c.y⟩) ⟨a.x, b.x, c.x⟩) = ⟨a.y, b.y, c.y⟩ := by
    rw [hc0, hc01]; simp [V3.smul, V3.sub]
  have h10 : ∀ x : α, ¬ (fabs x < 0) := by
    intro x; unfold fabs; split <;> rename_i h <;> simp only [not_lt]
    · exact (neg_pos.mpr h).le
    · exact not_lt.mp h
  simp only [adjustMatrix, M3.toList, V3.toList, List.cons_append, List.nil_append, rows3, vrow, Option.bind_eq_bind,
    Option.bind_some, ha, hb, hcn, hv1, renorm_unit ok _ hc1, renorm_unit ok _ hc0, hcross,
    renorm_unit ok _ hc2, hc2, zero_lt_one, if_true, h10, if_false, transpose9]

/-- a full TR card (displacement and the nine cosines of a proper rotation) is taken as written -/
theorem full_rotation_kept (ok : TranscOK α) (o : V3 α) (m : M3 α) (hR : Rot m) (hdet : det3 m = 1) :
    normTransform (0:α) ((o.toList ++ m.toList).map some) = .ok (o.toList ++ m.toList) := by
  have hadj := adjust_keeps_rotation ok m hR hdet
  obtain ⟨a, b, c⟩ := m
  simp only [M3.toList, V3.toList, List.cons_append, List.nil_append] at hadj
  simp [normTransform, normMatrix, M3.toList, V3.toList, hadj]

/-- non-vacuity over ℝ: the permutation x → y → z → x with a displacement -/
example : TrConverted "c/z" [1, 2, 3] (⟨⟨5, -1, 2⟩, ⟨⟨0, 1, 0⟩, ⟨0, 0, 1⟩, ⟨1, 0, 0⟩⟩⟩ : Motion ℝ) :=
  transformed_card transcOK_real _ (by constructor <;> norm_num [V3.dot]) (TrAdmissible.c_z 1 2 3)

end T4V.C04

/-! ### TR cards: one row and one column given (five entries, Euler angles) -/

namespace T4V.C04
open T4V T4V.Surf T4V.Macro T4V.Tr
variable {α : Type} [Field α] [LinearOrder α] [IsStrictOrderedRing α] [Transc α]

/-- the Euler-angle matrix of `normalize_matrix5` is a proper rotation -/
theorem euler_rot (cA sA cB sB cG sG : α) (hA : cA * cA + sA * sA = 1) (hB : cB * cB + sB * sB = 1)
    (hG : cG * cG + sG * sG = 1) :
    Rot ⟨⟨cB, -cG * sB, sG * sB⟩, ⟨cA * sB, cA * cB * cG - sA * sG, -cG * sA - cA * cB * sG⟩,
         ⟨sA * sB, cA * sG + cB * cG * sA, cA * cG - cB * sA * sG⟩⟩ ∧
    det3 ⟨⟨cB, -cG * sB, sG * sB⟩, ⟨cA * sB, cA * cB * cG - sA * sG, -cG * sA - cA * cB * sG⟩,
         ⟨sA * sB, cA * sG + cB * cG * sA, cA * cG - cB * sA * sG⟩⟩ = 1 := by
  refine ⟨Rot.of_rows _ ?_ ?_ ?_ ?_ ?_ ?_, ?_⟩ <;> simp only [V3.dot, det3, V3.cross]
  · linear_combination hB + (sB ^ 2) * hG
  · linear_combination (cB^2*cG^2 + cB^2*sG^2 + sB^2) * hA + (-cG^2*sA^2 + cG^2 - sA^2*sG^2 + sG^2) * hB +
      (sA^2*sB^2 - sB^2 + 1) * hG
  · linear_combination (cG^2 + sG^2) * hA + (cG^2*sA^2 + sA^2*sG^2) * hB + (-sA^2*sB^2 + 1) * hG
  · linear_combination (-cA*cB*sB) * hG
  · linear_combination (-cB*sA*sB) * hG
  · linear_combination (cA*cG^2*sA + cA*sA*sG^2) * hB + (-cA*sA*sB^2) * hG
  · linear_combination (cB^2*cG^2 + cB^2*sG^2 + cG^2*sB^2 + sB^2*sG^2) * hA + (cG^2 + sG^2) * hB + hG
end T4V.C04
namespace T4V.C04
open T4V T4V.Surf T4V.Macro T4V.Tr
variable {α : Type} [Field α] [LinearOrder α] [IsStrictOrderedRing α] [Transc α]

def flat9 (m : M3 α) : List (Option α) :=
  [some m.r1.x, some m.r1.y, some m.r1.z, some m.r2.x, some m.r2.y, some m.r2.z, some m.r3.x, some m.r3.y, some m.r3.z]

end T4V.C04
namespace T4V.C04
open T4V T4V.Surf T4V.Macro T4V.Tr
variable {α : Type} [Field α] [LinearOrder α] [IsStrictOrderedRing α] [Transc α]

/-- `np.roll(…, shift=1, axis=0)` and `np.roll(…, shift=1, axis=1)`: cyclic shift of the rows down / of the columns
to the right -/
def rowRoll (m : M3 α) : M3 α := ⟨m.r3, m.r1, m.r2⟩
def colRoll (m : M3 α) : M3 α := ⟨⟨m.r1.z, m.r1.x, m.r1.y⟩, ⟨m.r2.z, m.r2.x, m.r2.y⟩, ⟨m.r3.z, m.r3.x, m.r3.y⟩⟩
def rollCols (m : M3 α) : Nat → M3 α
  | 0 => m
  | 1 => colRoll m
  | _ => colRoll (colRoll m)
def rollM (m : M3 α) (i j : Nat) : M3 α :=
  match i with
  | 0 => rollCols m j
  | 1 => rowRoll (rollCols m j)
  | _ => rowRoll (rowRoll (rollCols m j))

theorem rowRoll_rot (m : M3 α) (h : Rot m ∧ det3 m = 1) : Rot (rowRoll m) ∧ det3 (rowRoll m) = 1 := by
  obtain ⟨⟨r11, r22, r33, r12, r13, r23, c11, c22, c33, c12, c13, c23⟩, hd⟩ := h
  refine ⟨Rot.of_rows _ ?_ ?_ ?_ ?_ ?_ ?_, ?_⟩ <;> simp only [rowRoll, V3.dot, det3, V3.cross] at * <;>
      first | linear_combination r11 | linear_combination r22 | linear_combination r33 | linear_combination r12
            | linear_combination r13 | linear_combination r23 | linear_combination hd

theorem colRoll_rot (m : M3 α) (h : Rot m ∧ det3 m = 1) : Rot (colRoll m) ∧ det3 (colRoll m) = 1 := by
  obtain ⟨⟨r11, r22, r33, r12, r13, r23, c11, c22, c33, c12, c13, c23⟩, hd⟩ := h
  refine ⟨Rot.of_rows _ ?_ ?_ ?_ ?_ ?_ ?_, ?_⟩ <;> simp only [colRoll, V3.dot, det3, V3.cross] at * <;>
      first | linear_combination r11 | linear_combination r22 | linear_combination r33 | linear_combination r12
            | linear_combination r13 | linear_combination r23 | linear_combination hd

/-- a cyclic shift of the rows and of the columns of a proper rotation is a proper rotation -/
theorem roll_rot (m : M3 α) (h : Rot m ∧ det3 m = 1) (i j : Nat) : Rot (rollM m i j) ∧ det3 (rollM m i j) = 1 := by
  have hc : Rot (rollCols m j) ∧ det3 (rollCols m j) = 1 := by
    rcases j with _ | _ | j
    · exact h
    · exact colRoll_rot _ h
    · exact colRoll_rot _ (colRoll_rot _ h)
  rcases i with _ | _ | i
  · exact hc
  · exact rowRoll_rot _ hc
  · exact rowRoll_rot _ (rowRoll_rot _ hc)
end T4V.C04
namespace T4V.C04
open T4V T4V.Surf T4V.Macro T4V.Tr
variable {α : Type} [Field α] [LinearOrder α] [IsStrictOrderedRing α] [Transc α]

def flatO (m : M3 (Option α)) : List (Option α) :=
  [m.r1.x, m.r1.y, m.r1.z, m.r2.x, m.r2.y, m.r2.z, m.r3.x, m.r3.y, m.r3.z]

/-- the five supplied entries (a full row `rx ry rz`, the rest `cy cz` of a full column), with the row in position
`i` and the column in position `j` -/
def pattern5 (rx ry rz cy cz : α) (i j : Nat) : List (Option α) :=
  flatO (rollM ⟨⟨some rx, some ry, some rz⟩, ⟨some cy, none, none⟩, ⟨some cz, none, none⟩⟩ i j)

def euler5 (rx ry rz cy cz : α) : M3 α :=
  let s := Transc.sqrt (ry * ry + rz * rz)
  let t : α × α × α × α := if s == 0 then (1, 0, 1, 0) else (-ry / s, rz / s, cy / s, cz / s)
  ⟨⟨rx, ry, rz⟩, ⟨cy, t.2.2.1 * rx * t.1 - t.2.2.2 * t.2.1, -t.1 * t.2.2.2 - t.2.2.1 * rx * t.2.1⟩,
   ⟨cz, t.2.2.1 * t.2.1 + rx * t.1 * t.2.2.2, t.2.2.1 * t.1 - rx * t.2.2.2 * t.2.1⟩⟩

theorem normMatrix5_eval_00 (rx ry rz cy cz : α) :
    normMatrix (pattern5 rx ry rz cy cz 0 0) = .ok (flat9 (rollM (euler5 rx ry rz cy cz) 0 0)) := by
  simp [pattern5, flatO, rollM, rollCols, rowRoll, colRoll, euler5, normMatrix, normMatrix5, rows3, transpose9, v3?, rotL,
    flat9, List.replicate, isRowwise]

theorem normMatrix5_eval_01 (rx ry rz cy cz : α) :
    normMatrix (pattern5 rx ry rz cy cz 0 1) = .ok (flat9 (rollM (euler5 rx ry rz cy cz) 0 1)) := by
  simp [pattern5, flatO, rollM, rollCols, rowRoll, colRoll, euler5, normMatrix, normMatrix5, rows3, transpose9, v3?, rotL,
    flat9, List.replicate, isRowwise]

theorem normMatrix5_eval_02 (rx ry rz cy cz : α) :
    normMatrix (pattern5 rx ry rz cy cz 0 2) = .ok (flat9 (rollM (euler5 rx ry rz cy cz) 0 2)) := by
  simp [pattern5, flatO, rollM, rollCols, rowRoll, colRoll, euler5, normMatrix, normMatrix5, rows3, transpose9, v3?, rotL,
    flat9, List.replicate, isRowwise]

theorem normMatrix5_eval_10 (rx ry rz cy cz : α) :
    normMatrix (pattern5 rx ry rz cy cz 1 0) = .ok (flat9 (rollM (euler5 rx ry rz cy cz) 1 0)) := by
  simp [pattern5, flatO, rollM, rollCols, rowRoll, colRoll, euler5, normMatrix, normMatrix5, rows3, transpose9, v3?, rotL,
    flat9, List.replicate, isRowwise]

theorem normMatrix5_eval_11 (rx ry rz cy cz : α) :
    normMatrix (pattern5 rx ry rz cy cz 1 1) = .ok (flat9 (rollM (euler5 rx ry rz cy cz) 1 1)) := by
  simp [pattern5, flatO, rollM, rollCols, rowRoll, colRoll, euler5, normMatrix, normMatrix5, rows3, transpose9, v3?, rotL,
    flat9, List.replicate, isRowwise]

theorem normMatrix5_eval_12 (rx ry rz cy cz : α) :
    normMatrix (pattern5 rx ry rz cy cz 1 2) = .ok (flat9 (rollM (euler5 rx ry rz cy cz) 1 2)) := by
  simp [pattern5, flatO, rollM, rollCols, rowRoll, colRoll, euler5, normMatrix, normMatrix5, rows3, transpose9, v3?, rotL,
    flat9, List.replicate, isRowwise]

theorem normMatrix5_eval_20 (rx ry rz cy cz : α) :
    normMatrix (pattern5 rx ry rz cy cz 2 0) = .ok (flat9 (rollM (euler5 rx ry rz cy cz) 2 0)) := by
  simp [pattern5, flatO, rollM, rollCols, rowRoll, colRoll, euler5, normMatrix, normMatrix5, rows3, transpose9, v3?, rotL,
    flat9, List.replicate, isRowwise]

theorem normMatrix5_eval_21 (rx ry rz cy cz : α) :
    normMatrix (pattern5 rx ry rz cy cz 2 1) = .ok (flat9 (rollM (euler5 rx ry rz cy cz) 2 1)) := by
  simp [pattern5, flatO, rollM, rollCols, rowRoll, colRoll, euler5, normMatrix, normMatrix5, rows3, transpose9, v3?, rotL,
    flat9, List.replicate, isRowwise]

theorem normMatrix5_eval_22 (rx ry rz cy cz : α) :
    normMatrix (pattern5 rx ry rz cy cz 2 2) = .ok (flat9 (rollM (euler5 rx ry rz cy cz) 2 2)) := by
  simp [pattern5, flatO, rollM, rollCols, rowRoll, colRoll, euler5, normMatrix, normMatrix5, rows3, transpose9, v3?, rotL,
    flat9, List.replicate, isRowwise]

theorem normMatrix5_eval_any (rx ry rz cy cz : α) (i j : Nat)
    (hi : i < 3) (hj : j < 3) :
    normMatrix (pattern5 rx ry rz cy cz i j) = .ok (flat9 (rollM (euler5 rx ry rz cy cz) i j)) := by
  have hi' : i = 0 ∨ i = 1 ∨ i = 2 := by omega
  have hj' : j = 0 ∨ j = 1 ∨ j = 2 := by omega
  rcases hi' with rfl | rfl | rfl <;> rcases hj' with rfl | rfl | rfl
  · exact normMatrix5_eval_00 rx ry rz cy cz
  · exact normMatrix5_eval_01 rx ry rz cy cz
  · exact normMatrix5_eval_02 rx ry rz cy cz
  · exact normMatrix5_eval_10 rx ry rz cy cz
  · exact normMatrix5_eval_11 rx ry rz cy cz
  · exact normMatrix5_eval_12 rx ry rz cy cz
  · exact normMatrix5_eval_20 rx ry rz cy cz
  · exact normMatrix5_eval_21 rx ry rz cy cz
  · exact normMatrix5_eval_22 rx ry rz cy cz
end T4V.C04
namespace T4V.C04
open T4V T4V.Surf T4V.Macro T4V.Tr
variable {α : Type} [Field α] [LinearOrder α] [IsStrictOrderedRing α] [Transc α]

/-- every supplied entry (`some`) of the card is found at its place in the completed matrix -/
def Agrees : List (Option α) → List (Option α) → Prop
  | [], [] => True
  | p :: ps, q :: qs => (p = none ∨ p = q) ∧ Agrees ps qs
  | _, _ => False

theorem sq_sum_zero (a b : α) (h : a * a + b * b = 0) : a = 0 ∧ b = 0 := by
  have ha := mul_self_nonneg a; have hb := mul_self_nonneg b
  exact ⟨mul_self_eq_zero.mp (by linarith), mul_self_eq_zero.mp (by linarith)⟩

/-- the completed matrix is a proper rotation, also in the degenerate case `sin β = 0` (the row is `(±1, 0, 0)`) -/
theorem euler5_rot (ok : TranscOK α) (r c : V3 α) (hx : c.x = r.x) (hr : r.dot r = 1) (hc : c.dot c = 1) :
    Rot (euler5 r.x r.y r.z c.y c.z) ∧ det3 (euler5 r.x r.y r.z c.y c.z) = 1 := by
  obtain ⟨rx, ry, rz⟩ := r
  obtain ⟨cx, cy, cz⟩ := c
  simp only at hx
  subst hx
  simp only [V3.dot] at hr hc
  have hnn : 0 ≤ ry * ry + rz * rz := add_nonneg (mul_self_nonneg _) (mul_self_nonneg _)
  rcases hnn.lt_or_eq with hs | hs
  · have hsp := ok.sqrt_pos _ hs
    have hs2 := ok.sqrt_sq _ hs.le
    have hne : (Transc.sqrt (ry * ry + rz * rz) == 0) = false := by simpa using hsp.ne'
    simp only [euler5, hne, Bool.false_eq_true, if_false]
    generalize Transc.sqrt (ry * ry + rz * rz) = s at *
    have hs0 := hsp.ne'
    have hB : cx * cx + s * s = 1 := by rw [hs2]; linear_combination hr
    have hG : (-ry / s) * (-ry / s) + (rz / s) * (rz / s) = 1 := by field_simp; linear_combination (-1 : α) * hs2
    have hA : (cy / s) * (cy / s) + (cz / s) * (cz / s) = 1 := by field_simp; linear_combination hc - hB
    obtain ⟨hR, hdet⟩ := euler_rot (cy / s) (cz / s) cx s (-ry / s) (rz / s) hA hB hG
    have e1 : -(-ry / s) * s = ry := by field_simp
    have e2 : rz / s * s = rz := by field_simp
    have e3 : cy / s * s = cy := by field_simp
    have e4 : cz / s * s = cz := by field_simp
    rw [e1, e2, e3, e4] at hR hdet
    exact ⟨hR, hdet⟩
  · obtain ⟨hy, hz⟩ := sq_sum_zero ry rz hs.symm
    subst hy hz
    have hxx : cx * cx = 1 := by linear_combination hr
    obtain ⟨hcy, hcz⟩ := sq_sum_zero cy cz (by linear_combination hc - hxx)
    subst hcy hcz
    have h00 : Transc.sqrt ((0:α) * 0 + 0 * 0) = 0 := by
      have := ok.sqrt_sq ((0:α) * 0 + 0 * 0) (by simp)
      simpa using this
    have hne : (Transc.sqrt ((0:α) * 0 + 0 * 0) == 0) = true := by simpa using h00
    simp only [euler5, hne, if_true]
    refine ⟨Rot.of_rows _ ?_ ?_ ?_ ?_ ?_ ?_, ?_⟩ <;> simp [V3.dot, det3, V3.cross, hxx]

/-- **one row and one column given, in any of the nine positions** (five entries: the Euler-angle form): the card is
completed to a proper rotation that reproduces every supplied entry -/
theorem row_column_completed (ok : TranscOK α) (r c : V3 α) (hx : c.x = r.x) (hr : r.dot r = 1) (hc : c.dot c = 1)
    (i j : Nat) (hi : i < 3) (hj : j < 3) :
    ∃ m : M3 α, normMatrix (pattern5 r.x r.y r.z c.y c.z i j) = .ok (flat9 m) ∧ Rot m ∧ det3 m = 1 ∧
      Agrees (pattern5 r.x r.y r.z c.y c.z i j) (flat9 m) := by
  obtain ⟨hR', hdet'⟩ := roll_rot _ (euler5_rot ok r c hx hr hc) i j
  refine ⟨_, normMatrix5_eval_any r.x r.y r.z c.y c.z i j hi hj, hR', hdet', ?_⟩
  have hi' : i = 0 ∨ i = 1 ∨ i = 2 := by omega
  have hj' : j = 0 ∨ j = 1 ∨ j = 2 := by omega
  rcases hi' with rfl | rfl | rfl <;> rcases hj' with rfl | rfl | rfl <;>
    simp [Agrees, pattern5, flatO, flat9, rollM, rollCols, rowRoll, colRoll, euler5]

/-- non-vacuity over ℝ: second row and third column given -/
example : ∃ m : M3 ℝ, normMatrix (pattern5 (0:ℝ) 1 0 0 1 1 2) = .ok (flat9 m) ∧ Rot m ∧ det3 m = 1 ∧
    Agrees (pattern5 (0:ℝ) 1 0 0 1 1 2) (flat9 m) :=
  row_column_completed transcOK_real ⟨0, 1, 0⟩ ⟨0, 0, 1⟩ rfl (by norm_num [V3.dot]) (by norm_num [V3.dot]) 1 2
    (by norm_num) (by norm_num)
/-! ### cells: TRCL and FILL transformations move whole cells (`pot_transform`, `cell_transform`)

`q` is a point in the frame of the cell that is moved, `p` its image; `v.σ`, `v.cv` are the senses of the surfaces and
the membership in the cells at `q`, `v.σ'`, `v.cv'` the same at `p`.  `Agree tr st' v`: every surface number created
by the walk has at `p` the sense its source (surface, facet) has at `q` — which is what `transformed_card` shows for
the definition `transformation()` gives it, with `q = m.toAux p` — and every cell number created stands at `p` for its
source at `q`. -/

/-- **the tree `pot_transform` returns holds at the image point exactly when the original tree holds at the original
point**: any tree without `#` (they are eliminated before), cell references followed to any depth, the cache in any
state reached by earlier calls, the same or other transformations before -/
theorem transformed_tree (tr fuel : Nat) (g g' : Geom) (st st' : PTSt)
    (h : potTransform tr fuel g st = .ok (g', st')) (hc : CacheInMade st) (v : Vals) (ha : Agree tr st' v)
    (hs : MadeSound tr st v) (hz : g.nonzero = true) (hf : g.complFree = true) :
    g'.eval v.σ' v.cv' = g.eval v.σ v.cv :=
  (((pt_all tr fuel).1 g st g' st' h hc).2.2 v ha hs).2 hz hf

/-- **every cell `cell_transform` creates is the image of its source**: it is stored in the cell dictionary under a
number of its own, and its tree holds at the image point exactly when the source tree holds at the original point;
with the cache switched on or off -/
theorem transformed_cell (tr fuel : Nat) (useCache : Bool) (c k : Nat) (st st' : PTSt)
    (h : cellTransform tr useCache fuel c st = .ok (k, st')) (hc : CacheInMade st) (hm : MadeInCells st) :
    ∃ e ∈ st'.made, e.cell = c ∧ e.tr = tr ∧ e.new = k ∧ (k, e.dst) ∈ st'.cells ∧ (c, e.src) ∈ st'.cells ∧
      ∀ v, Agree tr st' v → MadeSound tr st v → e.src.nonzero = true → e.src.complFree = true →
        e.dst.eval v.σ' v.cv' = e.src.eval v.σ v.cv := by
  obtain ⟨-, -, ⟨e, he, h1, h2, h3⟩, hv⟩ := (pt_all tr (fuel)).2.2 useCache c st k st' h hc
  have hmc := ((mc_all tr fuel).2.2 useCache c st k st' h hm).1 e he
  exact ⟨e, he, h1, h2, h3, h3 ▸ hmc.1, h1 ▸ hmc.2, fun v ha hs hz hf => hv v ha hs e he h2 hz hf⟩

/-- the numbers handed out (surfaces and cells) are pairwise different, so `Agree` never asks one number to stand
for two things -/
theorem new_numbers_fresh (tr fuel : Nat) (g g' : Geom) (st st' : PTSt)
    (h : potTransform tr fuel g st = .ok (g', st')) (hf : Fresh st) :
    (st'.newSurfs.map (·.1)).Nodup ∧ (st'.made.map (·.new)).Nodup :=
  let r := ((fr_all tr fuel).1 g st g' st' h hf).1
  ⟨r.2.1, r.2.2.2⟩

/-- the state a conversion starts from meets every hypothesis above -/
theorem initial_state_ok (ns nc : Nat) (cells : List (Nat × Geom)) (tr : Nat) (v : Vals) :
    let st : PTSt := { nextSurf := ns, nextCell := nc, cells := cells }
    CacheInMade st ∧ MadeInCells st ∧ Fresh st ∧ MadeSound tr st v := by
  refine ⟨?_, ?_, ⟨?_, ?_, ?_, ?_⟩, ?_⟩ <;> simp [CacheInMade, MadeInCells, MadeSound]

/-- a run: cell 5 (`2.1`) is referenced from the tree `-3 ∩ cell 5`; the walk creates surfaces 101, 102 and cell 51 -/
example : ((potTransform 7 9 (.node .inter [.surf (-3) none, .cref 5])
      { nextSurf := 100, nextCell := 50, cells := [(5, .surf 2 (some 1))] }).toOption.map
      fun r => (r.2.newSurfs, r.2.cache, r.2.nextCell))
    = some ([(101, (3, none, 7)), (102, (2, some 1, 7))], [((5, 7), 51)], 51) := by rfl

end T4V.C04
