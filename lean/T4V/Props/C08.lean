import T4V.Proofs.PostClosed
import T4V.Proofs.CompileClosed
import T4V.Proofs.Optimise
/-!
# Property C08 — structural validity of the written file (the clauses that are logic of the model)
-/
namespace T4V.C08
open T4V

/-- after `pot_optimise`, no intersection node lists one surface with both signs among its literals
(so the EQUA part built from it has disjoint PLUS / MINUS lists) -/
theorem optimise_no_both_sides (m : Matching) (σ : TSense) (cv : Nat → Bool) (t t' : FTree)
    (hx : t.expanded = true) (h : potOptimise t = some t') : t'.noBoth = true :=
  ((potOptimise_ok m σ cv t hx).some_ok t' h).2.2.1

/-- **no volume lists one surface on both sides** after `remove_empty_volumes` (which runs after
de-duplication has possibly merged surface numbers), for any volume dictionary -/
theorem no_surface_on_both_sides (u : Nat × Nat) (hu : u.1 ≠ u.2) (vols : List (Nat × Vol)) :
    ∀ p ∈ removeEmpty u vols, p.2.empty = false :=
  removeEmpty_noEmpty u hu vols

/-- … and `remove_unused_volumes` only deletes entries, so the final dictionary inherits it -/
theorem final_no_surface_on_both_sides (u : Nat × Nat) (hu : u.1 ≠ u.2) (vols : List (Nat × Vol)) :
    ∀ p ∈ removeUnused (removeEmpty u vols), p.2.empty = false :=
  fun p hp => removeEmpty_noEmpty u hu vols p (removeUnused_sub _ p hp)

/-- **closedness after post-processing**: every UNION/INTE operand of the final dictionary is a key of it
(for a dictionary with unique keys, as Python's `dict` is); the loop of `remove_empty_volumes` is shown to
end with an empty queue (every round after the first deletes a volume) -/
theorem closed_after_post (dedup : Bool) (surfs : List (Nat × String)) (u : Nat × Nat) (vols : List (Nat × Vol))
    (hnd : KeysNodup vols)
    (hc : ∀ p ∈ vols, ∀ op ids, p.2.ops = some (op, ids) → ∀ k ∈ ids, hasKey vols k) :
    ∀ p ∈ (postProcess dedup surfs u vols).2, ∀ op ids, p.2.ops = some (op, ids) →
      ∀ k ∈ ids, hasKey (postProcess dedup surfs u vols).2 k := by
  have hc' : Closed vols := by
    intro p hp r hr
    unfold idsOf at hr
    cases ho : p.2.ops with
    | none => simp [ho] at hr
    | some x => obtain ⟨op, ids⟩ := x; exact hc p hp op ids ho r (by simpa [ho] using hr)
  intro p hp op ids ho k hk
  exact postProcess_closed dedup surfs u vols hc' hnd p hp k (by simp [idsOf, ho, hk])

example : ((8 : Nat), (9 : Nat)).1 ≠ ((8 : Nat), (9 : Nat)).2 := by decide

/-- **no dangling reference in what is written, end to end**: the dictionary produced by the conversion loop (any
deck, any number of cells) and then post-processed has every UNION/INTE operand among its own keys — no hypothesis
on the dictionary is left -/
theorem closed_end_to_end (env : CEnv) (fuel next0 : Nat) (keys : List Nat) (st' : CState)
    (h : convertAll env fuel keys { next := next0 } = .ok st')
    (dedup : Bool) (surfs : List (Nat × String)) (u : Nat × Nat) :
    ∀ p ∈ (postProcess dedup surfs u st'.vols).2, ∀ op ids, p.2.ops = some (op, ids) →
      ∀ k ∈ ids, hasKey (postProcess dedup surfs u st'.vols).2 k := by
  obtain ⟨hcl, hkn⟩ := convertAll_closed_init env fuel next0 keys st' h
  have := postProcess_closed dedup surfs u st'.vols hcl hkn
  intro p hp op ids ho k hk
  exact this p hp k (by simp [idsOf, ho, hk])

end T4V.C08
