import T4V.Proofs.PostClosed
import T4V.Proofs.CompileClosed
import T4V.Proofs.Optimise
import T4V.Proofs.WriteRead
import T4V.Proofs.Composition
import T4V.Proofs.SurfArity
/-!
# Property C08 — structural validity of the written file (the clauses that are logic of the model)
-/
namespace T4V.C08
open T4V

/-- after `pot_optimise`, no intersection node lists one surface with both signs among its literals
(so the EQUA part built from it has disjoint PLUS / MINUS lists) -/
theorem optimise_no_both_sides (m : Matching) (σ : TSense) (cv : Nat → Bool) (t t' : FTree)
    (hx : t.expanded = true) (h : potOptimise t = some t') : t'.noBoth = true :=
  ((potOptimise_ok m σ cv t hx).some_ok t' h).2.2.1

/-- **no volume lists one surface on both sides** after `remove_empty_volumes` (which runs after
de-duplication has possibly merged surface numbers), for any volume dictionary -/
theorem no_surface_on_both_sides (u : Nat × Nat) (hu : u.1 ≠ u.2) (vols : List (Nat × Vol)) :
    ∀ p ∈ removeEmpty u vols, p.2.empty = false :=
  removeEmpty_noEmpty u hu vols

/-- … and `remove_unused_volumes` only deletes entries, so the final dictionary inherits it -/
theorem final_no_surface_on_both_sides (u : Nat × Nat) (hu : u.1 ≠ u.2) (vols : List (Nat × Vol)) :
    ∀ p ∈ removeUnused (removeEmpty u vols), p.2.empty = false :=
  fun p hp => removeEmpty_noEmpty u hu vols p (removeUnused_sub _ p hp)

/-- **closedness after post-processing**: every UNION/INTE operand of the final dictionary is a key of it
(for a dictionary with unique keys, as Python's `dict` is); the loop of `remove_empty_volumes` is shown to
end with an empty queue (every round after the first deletes a volume) -/
theorem closed_after_post (dedup : Bool) (surfs : List (Nat × String)) (u : Nat × Nat) (vols : List (Nat × Vol))
    (hnd : KeysNodup vols)
    (hc : ∀ p ∈ vols, ∀ op ids, p.2.ops = some (op, ids) → ∀ k ∈ ids, hasKey vols k) :
    ∀ p ∈ (postProcess dedup surfs u vols).2, ∀ op ids, p.2.ops = some (op, ids) →
      ∀ k ∈ ids, hasKey (postProcess dedup surfs u vols).2 k := by
  have hc' : Closed vols := by
    intro p hp r hr
    unfold idsOf at hr
    cases ho : p.2.ops with
    | none => simp [ho] at hr
    | some x => obtain ⟨op, ids⟩ := x; exact hc p hp op ids ho r (by simpa [ho] using hr)
  intro p hp op ids ho k hk
  exact postProcess_closed dedup surfs u vols hc' hnd p hp k (by simp [idsOf, ho, hk])

example : ((8 : Nat), (9 : Nat)).1 ≠ ((8 : Nat), (9 : Nat)).2 := by decide

/-- **no dangling reference in what is written, end to end**: the dictionary produced by the conversion loop (any
deck, any number of cells) and then post-processed has every UNION/INTE operand among its own keys — no hypothesis
on the dictionary is left -/
theorem closed_end_to_end (env : CEnv) (fuel next0 : Nat) (keys : List Nat) (st' : CState)
    (h : convertAll env fuel keys { next := next0 } = .ok st')
    (dedup : Bool) (surfs : List (Nat × String)) (u : Nat × Nat) :
    ∀ p ∈ (postProcess dedup surfs u st'.vols).2, ∀ op ids, p.2.ops = some (op, ids) →
      ∀ k ∈ ids, hasKey (postProcess dedup surfs u st'.vols).2 k := by
  obtain ⟨hcl, hkn⟩ := convertAll_closed_init env fuel next0 keys st' h
  have := postProcess_closed dedup surfs u st'.vols hcl hkn
  intro p hp op ids ho k hk
  exact this p hp k (by simp [idsOf, ho, hk])

/-! ### `VOLU` lines: the reader inverts the writer (`VolumeT4.__str__`, `Spec.T4.readBody`) -/
open T4V.WR in
/-- the words of `VolumeT4.__str__` followed by `ENDV` are: `EQUA`, the PLUS section, the MINUS section, the operator
section, `FICTIVE`, `ENDV` -/
theorem volWords_sections (P M : List Nat) (ops : Option (OpKind × List Nat)) (fict : Bool) :
    volWords P M (ops.map fun x => (opName x.1, x.2)) fict ++ ["ENDV"]
      = "EQUA" :: (sect "PLUS" P ++ (sect "MINUS" M ++ (opWords ops ++ tailE fict))) := by
  cases ops with
  | none => simp [volWords, sect, opWords, tailE]
  | some x => obtain ⟨o, ids⟩ := x; simp [volWords, sect, opWords, tailE]

open T4V.WR in
/-- **every `VOLU` line the writer can produce is read back exactly, without a single complaint**: for all PLUS and
MINUS sets (in any enumeration order), every operator with any operand list and either value of the FICTIVE flag,
the reader applied to the words that follow `EQUA` finds the sorted PLUS and MINUS lists, the operator with its
operands in order, the flag, the closing `ENDV`, and reports no error — so the declared counts equal the number of
ids that follow, every id is a natural number, and nothing follows `ENDV`. -/
theorem volume_line_roundtrip (ctx : String) (P M : List Nat) (ops : Option (OpKind × List Nat)) (fict : Bool)
    (fuel : Nat) (hf : 5 ≤ fuel) :
    readBody ctx fuel ((volWords P M (ops.map fun x => (opName x.1, x.2)) fict ++ ["ENDV"]).tail) {}
      = { pluses := P.mergeSort natLe, minuses := M.mergeSort natLe, op := ops, fictive := fict, ended := true,
          errs := [] } := by
  obtain ⟨f, rfl⟩ : ∃ f, fuel = f + 5 := ⟨fuel - 5, by omega⟩
  rw [volWords_sections, List.tail_cons, stageP ctx P M ops fict f {} rfl]
  simp

/-- what is read back has the written sets: same members, same multiplicities -/
theorem volume_line_sets (P : List Nat) : (P.mergeSort natLe).Perm P := List.mergeSort_perm P _

/-- the fuel the file reader uses (number of words + 5) is enough -/
theorem reader_fuel_enough (ws : List String) : 5 ≤ ws.length + 5 := by omega

open T4V.WR in
/-- **from the bytes of the line**: the text `VolumeT4.__str__` produces, followed by a blank and `ENDV`, splits at
blanks into the words of the volume and `ENDV`; hence the reader recovers the volume from the text itself (the
`VOLU id` prefix and the `//` comment are cut off by the line reader before) -/
theorem volume_line_text_roundtrip (ctx : String) (P M : List Nat) (ops : Option (OpKind × List Nat)) (fict : Bool)
    (fuel : Nat) (hf : 5 ≤ fuel) :
    readBody ctx fuel (words (volLine P M (ops.map fun x => (opName x.1, x.2)) fict ++ " ENDV")).tail {}
      = { pluses := P.mergeSort natLe, minuses := M.mergeSort natLe, op := ops, fictive := fict, ended := true,
          errs := [] } := by
  rw [words_volLine]
  exact volume_line_roundtrip ctx P M ops fict fuel hf

/-- **a GEOMCOMP line is read back exactly**: name, declared count = number of volumes, the volumes in order, no
complaint — for every composition name and every list of volume numbers -/
theorem geomcomp_line_roundtrip (name : String) (ids : List Nat) :
    gcLine name (toString ids.length) (ids.map toString) = (some (name, ids.length, ids), []) := by
  simp only [gcLine, WR.natItems_ids, WR.toNat_toString]

/-! ### the COMPOSITION block (writer model `Model/Composition.lean`, reader `Spec/T4.lean`) -/
open T4V.CM T4V.CMP

/-- **every declared nuclide count equals the number of nuclide lines that follow**: whatever the material cards and
the cells are, the reader — splitting the text of each written line into words — finds after every composition header
exactly as many nuclide lines as the header declares, and none are left over at END_COMPOSITION.  The hypotheses only
say that the tokens of the cards and the density literals contain no white space (they come out of `str.split()`). -/
theorem composition_counts_fit (cards : List (Nat × List (List Char))) (cells : List CCell) (lines : List String)
    (hc : ∀ e ∈ cards, ∀ t ∈ e.2, ∀ c ∈ t, CC.cws c = false) (hd : ∀ c ∈ cells, TokL c.density)
    (h : CM.run cards cells = .ok lines) :
    compCountRun 0 (lines.map words ++ [["END_COMPOSITION"]]) = some 0 :=
  block_reads_back cards cells lines hc hd h

/-- a header line of the block: POINT_WISE / DENSITY followed by at least three more words -/
def isCompHeader (ws : List String) : Bool :=
  (ws.head? == some "POINT_WISE" || ws.head? == some "DENSITY") && decide (4 ≤ ws.length)

theorem headers_of_comp (c : Comp) : ((compWordLines c).filter isCompHeader).length = 1 := by
  unfold compWordLines
  have h1 : isCompHeader (headerWords c) = true := by
    unfold headerWords isCompHeader
    by_cases hk : (c.kind == "POINT_WISE") = true
    · simp [hk]
    · by_cases hn : c.nbAtom = true <;> simp [hk, hn]
  have h2 : ∀ l : List (String × List Char), (l.map fun (p : String × List Char) => [p.1, String.ofList p.2]).filter isCompHeader = [] := by
    intro l
    induction l with
    | nil => rfl
    | cons p r ih => simp [List.filter_cons, isCompHeader, ih]
  rw [List.filter_cons, if_pos h1, List.length_cons]
  by_cases he : c.isotopes.isEmpty = true
  · rw [if_pos he]; rfl
  · rw [if_neg he]
    rw [h2 c.isotopes]; rfl

theorem headers_of_comps : ∀ cs : List Comp, ((cs.flatMap compWordLines).filter isCompHeader).length = cs.length
  | [] => rfl
  | c :: cs => by
    simp only [List.flatMap_cons, List.filter_append, List.length_append, headers_of_comp, headers_of_comps cs,
      List.length_cons]
    omega

/-- **the COMPOSITION count equals the number of compositions written** (the converted ones and the void
composition `m0`) -/
theorem composition_count_line (mats : List (Nat × List Comp)) :
    ∃ rest, blockWordLines mats = [toString ((rest.filter isCompHeader).length)] :: rest := by
  refine ⟨(mats.flatMap (·.2)).flatMap compWordLines ++ [["POINT_WISE", "300", "m0", "1"], ["HE4", "1E-30"], []], ?_⟩
  unfold blockWordLines
  simp only
  congr 2
  rw [List.filter_append, List.length_append, headers_of_comps]
  rfl

/-! ### SURF lines -/
section
variable {α : Type} [Add α] [Sub α] [Mul α] [Div α] [Neg α] [OfNat α 0] [OfNat α 1]
  [LT α] [DecidableLT α] [BEq α] [Transc α]

/-- **every surface written for an elementary surface card has the number of parameters its TRIPOLI-4 keyword expects**
(1 for PLANEX/Y/Z, 4 for PLANE and SPHERE, 3 for CYLX/Y/Z, 7 for CYL and CONE, 4 for CONEX/Y/Z, 10 for QUAD, 6 for
TORUSX/Y/Z) — for every mnemonic, every admissible parameter list and every value, including the auxiliary plane of a
one-sheet cone -/
theorem surface_parameters_fit (e1 e2 : α) (mn : String) (ps : List α) (coll : List (TSurf α × Int))
    (h : convertCard e1 e2 mn ps = some coll) : ∀ t ∈ coll, t.1.ps.length = t.1.kind.arity :=
  SA.arity_convertCard e1 e2 mn ps coll h

/-- … and so has every facet of every macrobody (RPP, BOX, SPH, RCC, RHP/HEX, REC, TRC, ELL, WED, ARB) -/
theorem macrobody_parameters_fit (e1 e2 : α) (mn : String) (ps : List α) (toNat : α → Nat) (coll : List (TSurf α × Int))
    (h : convertMacro e1 e2 mn ps toNat = some coll) : ∀ t ∈ coll, t.1.ps.length = t.1.kind.arity :=
  SA.arity_convertMacro e1 e2 mn ps toNat coll h
end

end T4V.C08
