import T4V.Proofs.Post
import T4V.Proofs.Optimise
/-!
# Property C08 — structural validity of the written file (the clauses that are logic of the model)
-/
namespace T4V.C08
open T4V

/-- after `pot_optimise`, no intersection node lists one surface with both signs among its literals
(so the EQUA part built from it has disjoint PLUS / MINUS lists) -/
theorem optimise_no_both_sides (m : Matching) (σ : TSense) (cv : Nat → Bool) (t t' : FTree)
    (hx : t.expanded = true) (h : potOptimise t = some t') : t'.noBoth = true :=
  ((potOptimise_ok m σ cv t hx).some_ok t' h).2.2.1

/-- **no volume lists one surface on both sides** after `remove_empty_volumes` (which runs after
de-duplication has possibly merged surface numbers), for any volume dictionary -/
theorem no_surface_on_both_sides (u : Nat × Nat) (hu : u.1 ≠ u.2) (vols : List (Nat × Vol)) :
    ∀ p ∈ removeEmpty u vols, p.2.empty = false :=
  removeEmpty_noEmpty u hu vols

/-- … and `remove_unused_volumes` only deletes entries, so the final dictionary inherits it -/
theorem final_no_surface_on_both_sides (u : Nat × Nat) (hu : u.1 ≠ u.2) (vols : List (Nat × Vol)) :
    ∀ p ∈ removeUnused (removeEmpty u vols), p.2.empty = false :=
  fun p hp => removeEmpty_noEmpty u hu vols p (removeUnused_sub _ p hp)

/-- Full-strength closedness (every UNION/INTE operand of the final dictionary is a key of it),
**not yet proved**: kept as a definition. -/
def closed_after_post : Prop :=
  ∀ (u : Nat × Nat) (vols : List (Nat × Vol)),
    (∀ p ∈ vols, ∀ op ids, p.2.ops = some (op, ids) → ∀ k ∈ ids, hasKey vols k) →
    ∀ p ∈ removeUnused (removeEmpty u vols), ∀ op ids, p.2.ops = some (op, ids) →
      ∀ k ∈ ids, hasKey (removeUnused (removeEmpty u vols)) k

example : ((8 : Nat), (9 : Nat)).1 ≠ ((8 : Nat), (9 : Nat)).2 := by decide

end T4V.C08
