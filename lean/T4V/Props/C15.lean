import T4V.Model.Keywords
import T4V.Proofs.KwArray
import T4V.Proofs.OptTokens
/-!
# Property C15 — LIKE n BUT equals the explicit cell card it abbreviates
-/
namespace T4V.C15
open T4V

/-- the value of a scalar option as the item that set it -/
def get (k : KW) : Field → Option Item
  | .u => k.u.map .u
  | .mat => k.mat.map .mat
  | .rho => k.rho.map .rho
  | .lat => k.lat.map .lat
  | .fill => k.fill.map fun | .simple s u ps => .fill s u ps | .arr s rs us ps => .fillArr s rs us ps
  | .trcl => k.trcl.map fun (s, ps) => .trcl s ps
  | .imp => none

/-- the last item of a list that assigns field `f` -/
def lastOf (f : Field) (is : List Item) : Option Item := is.reverse.find? (·.field == f)

theorem get_set (k : KW) (i : Item) (f : Field) (hf : f ≠ .imp) :
    get (k.set i) f = if i.field = f then some i else get k f := by
  cases i <;> cases f <;> simp_all [KW.set, get, Item.field]

/-- **the later keyword wins** (every scalar option: U, MAT, RHO, LAT, FILL, TRCL): after any list of
option items the value of a field is the one set by the last item naming it, else the earlier value -/
theorem later_keyword_wins (f : Field) (hf : f ≠ .imp) : ∀ (is : List Item) (k : KW),
    get (applyFrom k is) f = (lastOf f is).orElse fun _ => get k f
  | [], k => by simp [applyFrom, lastOf]
  | i :: rest, k => by
      have ih := later_keyword_wins f hf rest (k.set i)
      have : applyFrom k (i :: rest) = applyFrom (k.set i) rest := rfl
      rw [this, ih, get_set k i f hf]
      unfold lastOf
      simp only [List.reverse_cons, List.find?_append]
      cases h : List.find? (fun x => x.field == f) rest.reverse with
      | some j => simp
      | none =>
        by_cases hi : i.field = f
        · simp [hi]
        · simp [hi]

/-- `LIKE n BUT opts` (= `apply_but`: the options of cell n followed by `opts`): an option named in
`opts` takes its value from `opts`, every other option keeps the value it has in cell n -/
theorem like_but (f : Field) (hf : f ≠ .imp) (base but : List Item) :
    get (applyItems (base ++ but)) f =
      match lastOf f but with
      | some i => some i
      | none => get (applyItems base) f := by
  have h1 : applyItems (base ++ but) = applyFrom (applyItems base) but := by
    simp [applyItems, applyFrom, List.foldl_append]
  rw [h1, later_keyword_wins f hf]
  cases lastOf f but <;> rfl

/-- the explicit card the LIKE-BUT card abbreviates: cell n's options with the overridden ones removed,
followed by the new ones — same value for every scalar option -/
theorem like_but_equals_explicit (f : Field) (hf : f ≠ .imp) (base but : List Item) :
    get (applyItems (base ++ but)) f =
      get (applyItems (base.filter (fun i => !(but.any fun j => j.field == i.field)) ++ but)) f := by
  rw [like_but f hf, like_but f hf]
  cases hb : lastOf f but with
  | some i => rfl
  | none =>
    -- `but` does not name `f`: the filter keeps every item of `base` that names `f`
    have hnone : ∀ j ∈ but, (j.field == f) = false := by
      intro j hj
      unfold lastOf at hb
      have := List.find?_eq_none.mp hb j (by simpa using hj)
      simpa using this
    simp only [applyItems]
    rw [later_keyword_wins f hf, later_keyword_wins f hf]
    congr 1
    unfold lastOf
    rw [← List.filter_reverse]
    induction base.reverse with
    | nil => rfl
    | cons i rest ih =>
      by_cases hi : (i.field == f) = true
      · have hkeep : (!(but.any fun j => j.field == i.field)) = true := by
          simp only [Bool.not_eq_true', List.any_eq_false]
          intro j hj
          have := hnone j hj
          have hif : i.field = f := by simpa using hi
          simpa [hif] using this
        simp [List.filter_cons, hkeep, hi]
      · by_cases hk : (!(but.any fun j => j.field == i.field)) = true
        · simp only [List.filter_cons, hk, if_true, List.find?_cons, hi]; exact ih
        · simp only [List.filter_cons, hk, List.find?_cons, hi]; exact ih

/-- chains of LIKE cells: the options are concatenated in order, so the statement iterates -/
theorem like_chain (f : Field) (hf : f ≠ .imp) (base : List Item) (buts : List (List Item)) :
    get (applyItems (buts.foldl (· ++ ·) base)) f =
      (buts.foldl (fun acc but => match lastOf f but with | some i => some i | none => acc) (get (applyItems base) f)) := by
  induction buts generalizing base with
  | nil => rfl
  | cons b rest ih =>
    simp only [List.foldl_cons]
    rw [ih (base ++ b), like_but f hf]

def lookup (d : List (String × String)) (p : String) : Option String := (d.find? (·.1 == p)).map (·.2)

theorem lookup_assoc (d : List (String × String)) (p v q : String) :
    lookup (assoc d p v) q = if q = p then some v else lookup d q := by
  unfold assoc lookup
  by_cases hany : d.any (·.1 == p) = true
  · simp only [hany, if_true]
    have key : ∀ e : String × String, ((if e.1 == p then (p, v) else e).1 == q) = (e.1 == q) := by
      intro e; by_cases he : e.1 = p <;> simp [he]
    rw [List.find?_map]
    have : ((fun x : String × String => x.1 == q) ∘ fun e => if e.1 == p then (p, v) else e) = fun e => e.1 == q := by
      funext e; exact key e
    rw [this]
    by_cases hq : q = p
    · subst hq
      obtain ⟨e, he, hep⟩ := List.any_eq_true.mp hany
      cases hf : d.find? (fun e => e.1 == q) with
      | none => exact absurd hep (by simpa using List.find?_eq_none.mp hf e he)
      | some e' =>
        have := List.find?_some hf
        simp only [beq_iff_eq] at this
        simp [this]
    · cases hf : d.find? (fun e => e.1 == q) with
      | none => simp [hq]
      | some e' =>
        have := List.find?_some hf
        simp only [beq_iff_eq] at this
        have hne : ¬ e'.1 = p := fun h => hq (this ▸ h)
        simp [hq, hne]
  · simp only [hany, Bool.false_eq_true, if_false, List.find?_append]
    have hno : ∀ e ∈ d, ¬ e.1 = p := by
      intro e he hp
      exact hany (List.any_eq_true.mpr ⟨e, he, by simpa using hp⟩)
    by_cases hq : q = p
    · subst hq
      have : d.find? (fun e => e.1 == q) = none := List.find?_eq_none.mpr (by simpa using hno)
      simp [this]
    · have : ¬ p = q := fun h => hq h.symm
      cases hf : d.find? (fun e => e.1 == q) <;> simp [hq, this]

/-- importances are kept per particle; one `IMP:a,b=v` item sets every particle it lists -/
theorem lookup_set_imp (k : KW) (ps : List String) (v q : String) :
    lookup (k.set (.imp ps v)).imp q = if q ∈ ps then some v else lookup k.imp q := by
  simp only [KW.set]
  generalize k.imp = d
  induction ps generalizing d with
  | nil => simp
  | cons p rest ih =>
    simp only [List.foldl_cons, ih, lookup_assoc, List.mem_cons]
    by_cases h1 : q ∈ rest <;> by_cases h2 : q = p <;> simp [h1, h2]

/-- an item that is not an importance leaves the importances alone -/
theorem imp_set_other (k : KW) (i : Item) (h : i.field ≠ .imp) : (k.set i).imp = k.imp := by
  cases i <;> simp_all [KW.set, Item.field]

/-- **importance of a particle after LIKE n BUT**: the last `IMP` item (of cell n's options followed by
the BUT options) that lists the particle gives its value -/
theorem later_importance_wins (q : String) : ∀ (is : List Item) (k : KW),
    lookup (applyFrom k is).imp q =
      ((is.reverse.findSome? fun i => match i with
          | .imp ps v => if q ∈ ps then some v else none
          | _ => none).orElse fun _ => lookup k.imp q)
  | [], k => by simp [applyFrom]
  | i :: rest, k => by
      have ih := later_importance_wins q rest (k.set i)
      have : applyFrom k (i :: rest) = applyFrom (k.set i) rest := rfl
      rw [this, ih]
      simp only [List.reverse_cons, List.findSome?_append]
      cases hr : rest.reverse.findSome? (fun i => match i with
          | .imp ps v => if q ∈ ps then some v else none
          | _ => none) with
      | some v => simp
      | none =>
        cases i with
        | imp ps v => simp [lookup_set_imp]; split <;> simp_all
        | _ => simp [KW.set]

/-! ### token level -/

theorem kwRun_append : ∀ (a b : List String) (st : KwState × List Item),
    kwRun st (a ++ b) = match kwRun st a with | .ok st' => kwRun st' b | .error e => .error e
  | [], b, st => by simp [kwRun]
  | t :: a, b, st => by
      simp only [List.cons_append, kwRun]
      cases h : kwStep st t with
      | error e => rfl
      | ok st' => exact kwRun_append a b st'

theorem arrNums_acc (star : Bool) (rs us : List String) (acc acc0 : List Item) (tok : String) (ns : List String) :
    arrNums star rs us (acc0 ++ acc) tok ns = (arrNums star rs us acc tok ns).map fun r => (r.1, acc0 ++ r.2) := by
  unfold arrNums
  split <;> simp [Except.map, List.append_assoc]

theorem arrTok_acc (star : Bool) (rs : List String) (need : Int) (us : List String) (acc acc0 : List Item) (tok : String) :
    arrTok star rs need us (acc0 ++ acc) tok = (arrTok star rs need us acc tok).map fun r => (r.1, acc0 ++ r.2) := by
  unfold arrTok
  cases classifyU tok with
  | num => simp only; split <;> (try split) <;> simp [Except.map]
  | rep n =>
    simp only
    cases us.getLast? with
    | none => simp [Except.map]
    | some v => simp only; split <;> (try split) <;> simp [Except.map]
  | shorthand => simp [Except.map]
  | bad => simp [Except.map]

/-- the items already emitted do not influence what is emitted next -/
theorem kwStep_acc (s : KwState) (acc acc0 : List Item) (tok : String) :
    kwStep (s, acc0 ++ acc) tok = (kwStep (s, acc) tok).map fun r => (r.1, acc0 ++ r.2) := by
  cases s with
  | fillRng star rs =>
    simp only [kwStep]
    split
    · simp [Except.map]
    · cases rangesSize rs with
      | error e => simp [Except.map]
      | ok need =>
        simp only
        split
        · split <;> simp [Except.map]
        · exact arrTok_acc star rs need [] acc acc0 tok
  | fillArr star rs need us => simp only [kwStep]; exact arrTok_acc star rs need us acc acc0 tok
  | fillArrNums star rs us ns => simp only [kwStep]; exact arrNums_acc star rs us acc acc0 tok ns
  | fillDrop star rs => simp [kwStep, Except.map]
  | _ => simp [kwStep, Except.map, List.append_assoc] <;> (try split) <;> simp_all [Except.map, List.append_assoc]

theorem kwRun_acc : ∀ (toks : List String) (s : KwState) (acc acc0 : List Item),
    kwRun (s, acc0 ++ acc) toks = (kwRun (s, acc) toks).map fun r => (r.1, acc0 ++ r.2)
  | [], s, acc, acc0 => by simp [kwRun, Except.map]
  | t :: ts, s, acc, acc0 => by
      simp only [kwRun, kwStep_acc]
      cases h : kwStep (s, acc) t with
      | error e => simp [Except.map]
      | ok r =>
        obtain ⟨s', acc'⟩ := r
        simp only [Except.map]
        exact kwRun_acc ts s' acc' acc0
theorem kwFinish_acc (s : KwState) (acc acc0 : List Item) :
    kwFinish (s, acc0 ++ acc) = (kwFinish (s, acc)).map fun r => acc0 ++ r := by
  cases s with
  | fillRng star rs =>
    simp only [kwFinish]
    cases rangesSize rs with
    | error e => simp [Except.map]
    | ok need => simp only; split <;> simp [Except.map, List.append_assoc]
  | _ => simp [kwFinish, Except.map, List.append_assoc]

/-- states reached only through index ranges that have no element (`fill=1:0 …`): the code then empties its token list
(`del kw_list[-0:]`), so whatever follows — the BUT options included — is lost -/
def degenerate : KwState → Bool
  | .fillRng .. => true
  | .fillDrop .. => true
  | _ => false

theorem finish_run_from (s : KwState) (acc0 : List Item) (ts : List String) (ib : List Item)
    (h : (match kwRun (s, []) ts with | .ok st => kwFinish st | .error e => .error e) = .ok ib) :
    (match kwRun (s, acc0) ts with | .ok st => kwFinish st | .error e => .error e) = .ok (acc0 ++ ib) := by
  have hr := kwRun_acc ts s [] acc0
  simp only [List.append_nil] at hr
  rw [hr]
  cases hk : kwRun (s, []) ts with
  | error e => simp [hk] at h
  | ok r =>
    obtain ⟨s', acc'⟩ := r
    simp only [hk] at h
    simp only [Except.map, kwFinish_acc, h]

/-- **the token-level reading commutes with `apply_but`**: if the options of cell n and the BUT options
each read as item lists, and the BUT options begin with a keyword (not with a number, which a trailing
FILL/TRCL of cell n would swallow), then the concatenated options read as the concatenated items — so
the item-level theorems above apply to what `parse_keywords` does on the tokens -/
theorem grouping_commutes_with_but (a b : List String) (ia ib : List Item)
    (ha : groupTokens a = .ok ia) (hb : groupTokens b = .ok ib)
    (hb0 : ∀ t, b.head? = some t → numericLead t = false)
    (hz : ∀ s acc, kwRun (.idle, []) a = .ok (s, acc) → degenerate s = false) :
    groupTokens (applyBut a b) = .ok (ia ++ ib) := by
  unfold groupTokens applyBut at *
  rw [kwRun_append]
  cases hka : kwRun (KwState.idle, []) a with
  | error e => simp [hka] at ha
  | ok r =>
    obtain ⟨s, acc⟩ := r
    have hdeg : degenerate s = false := hz s acc hka
    simp only [hka] at ha ⊢
    cases b with
    | nil =>
      simp only [kwRun, kwFinish] at hb
      cases hb
      simp only [kwRun, ha, List.append_nil]
    | cons t ts =>
      have ht : numericLead t = false := hb0 t rfl
      simp only [kwRun] at hb ⊢
      have hstep0 : kwStep (KwState.idle, []) t = .ok (startKeyword t, []) := rfl
      rw [hstep0] at hb
      simp only at hb
      cases s with
      | idle =>
        simp only [kwFinish] at ha
        cases ha
        have : ∀ x : List Item, kwStep (KwState.idle, x) t = .ok (startKeyword t, x) := fun _ => rfl
        rw [this]
        exact finish_run_from (startKeyword t) _ ts ib hb
      | fillNums star u ns =>
        simp only [kwFinish] at ha
        cases ha
        have : kwStep (KwState.fillNums star u ns, acc) t = .ok (startKeyword t, acc ++ [.fill star u ns]) := by
          simp [kwStep, ht]
        rw [this]
        exact finish_run_from (startKeyword t) _ ts ib hb
      | trclNums star ns =>
        simp only [kwFinish] at ha
        cases ha
        have : kwStep (KwState.trclNums star ns, acc) t = .ok (startKeyword t, acc ++ [.trcl star ns]) := by
          simp [kwStep, ht]
        rw [this]
        exact finish_run_from (startKeyword t) _ ts ib hb
      | wantImp ps => simp [kwFinish] at ha
      | wantU => simp [kwFinish] at ha
      | wantMat => simp [kwFinish] at ha
      | wantRho => simp [kwFinish] at ha
      | wantLat => simp [kwFinish] at ha
      | fillFirst star => simp [kwFinish] at ha
      | fillArrNums star rs us ns =>
        simp only [kwFinish] at ha
        cases ha
        have : kwStep (KwState.fillArrNums star rs us ns, acc) t = .ok (startKeyword t, acc ++ [.fillArr star rs us ns]) := by
          simp [kwStep, arrNums, ht]
        rw [this]
        exact finish_run_from (startKeyword t) _ ts ib hb
      | fillArr star rs need us => simp [kwFinish] at ha
      | fillRng star rs => simp [degenerate] at hdeg
      | fillDrop star rs => simp [degenerate] at hdeg

/-- hence, at the token level: an option of the LIKE-BUT card has the value the BUT tokens give it, else the
value of cell n's tokens -/
theorem like_but_tokens (f : Field) (hf : f ≠ .imp) (a b : List String) (ia ib : List Item)
    (ha : groupTokens a = .ok ia) (hb : groupTokens b = .ok ib)
    (hb0 : ∀ t, b.head? = some t → numericLead t = false)
    (hz : ∀ s acc, kwRun (.idle, []) a = .ok (s, acc) → degenerate s = false) :
    ∃ k, parseKeywords (applyBut a b) = .ok k ∧
      get k f = match lastOf f ib with
        | some i => some i
        | none => get (applyItems ia) f := by
  refine ⟨applyItems (ia ++ ib), ?_, like_but f hf ia ib⟩
  simp [parseKeywords, grouping_commutes_with_but a b ia ib ha hb hb0 hz, Except.map]

example : get (applyItems ([.mat "1", .rho "-2.5", .u "3", .imp ["n"] "1"] ++ [.rho "-1.0", .u "4"])) .rho
    = some (.rho "-1.0") := by decide

/-! ### from the text of the cards to the tokens -/
open T4V.CC in
/-- **`apply_but` on the text is `applyBut` on the tokens**: the code appends a blank and the BUT options to the
options text of cell n; tokenising the result (`parse_one_cell_worker`) gives the tokens of cell n's options followed
by the tokens of the BUT options — so the token-level theorems above (`like_but_tokens`, `like_chain`) speak about
what the code does with the card texts -/
theorem apply_but_on_text (a b : List Char) (ha : a ≠ []) (hb : b ≠ [])
    (hlast : ∀ c, a.getLast? = some c → c ≠ ':' ∧ c ≠ ' ')
    (hfirst : ∀ c, b.head? = some c → c ≠ ':' ∧ c ≠ ' ') :
    (optTokens (a ++ ' ' :: b)).map String.ofList
      = applyBut ((optTokens a).map String.ofList) ((optTokens b).map String.ofList) := by
  rw [optTokens_append a b ha hb hlast hfirst, List.map_append]
  rfl

/-- **an array FILL is read as it is written** (`parse_fill_kw`, array form): after the keyword, the index ranges,
exactly as many plain numbers as the ranges have elements, and any numbers, the cell's FILL holds these ranges, these
universes in this order, and the numbers as its transformation arguments — the same record whether the text stands
on an explicit card or comes out of `LIKE n BUT` -/
theorem array_fill_read_as_written (star : Bool) (kw r : String) (rs us ps : List String) (need : Int)
    (hkw : startKeyword kw = .fillFirst star)
    (hr : contains r ":" = true) (hrs : ∀ x ∈ rs, contains x ":" = true)
    (hsz : rangesSize (r :: rs) = .ok need)
    (hus : ∀ u ∈ us, classifyU u = .num ∧ contains u ":" = false)
    (hlen : (us.length : Int) = need) (hpos : 0 < need)
    (hps : ∀ p ∈ ps, numericLead p = true) :
    (parseKeywords (kw :: r :: (rs ++ us ++ ps))).map (·.fill) = .ok (some (.arr star (r :: rs) us ps)) := by
  unfold parseKeywords groupTokens
  rw [array_fill_reads star kw r rs us ps need [] hkw hr hrs hsz hus hlen hpos hps]
  simp [kwFinish, Except.map, applyItems, applyFrom, KW.set]

end T4V.C15
