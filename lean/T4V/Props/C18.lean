import T4V.Model.Write
import T4V.Model.Post
import T4V.Proofs.PostOrder
/-!
# Property C18 — conversion is deterministic and leaves no state between runs  (partial)

The model is a pure function of the deck: every definition of `T4V.Model` is a Lean function, there is no
state to leak and no iteration order to depend on — *except* where the code iterates over a `set`, whose
order is a runtime fact (insertion history, hash seed).  What is proved here is the part that is logic:
at the places where a set reaches the output, the writers sort, so the text does not depend on the
enumeration order, and the one pass that iterates over a set of keys (`remove_empty_volumes`) gives the same
dictionary for every enumeration of it.  That CPython's set iteration and module state behave as assumed is probed by the
`hashseed` and `history` streams, not proved.
-/
namespace T4V.C18
open T4V

theorem natLe_trans (a b c : Nat) : natLe a b = true → natLe b c = true → natLe a c = true := by
  simp only [natLe, decide_eq_true_eq]; omega

theorem natLe_total (a b : Nat) : (natLe a b || natLe b a) = true := by
  simp only [natLe, Bool.or_eq_true, decide_eq_true_eq]; omega

/-- sorting forgets the enumeration order -/
theorem sort_order_independent (l₁ l₂ : List Nat) (h : l₁.Perm l₂) :
    l₁.mergeSort natLe = l₂.mergeSort natLe := by
  apply List.Perm.eq_of_pairwise (le := fun a b => natLe a b = true)
  · intro a b _ _ hab hba
    simp only [natLe, decide_eq_true_eq] at hab hba; omega
  · exact List.pairwise_mergeSort natLe_trans natLe_total l₁
  · exact List.pairwise_mergeSort natLe_trans natLe_total l₂
  · exact (List.mergeSort_perm l₁ natLe).trans (h.trans (List.mergeSort_perm l₂ natLe).symm)

/-- **`VolumeT4.__str__` does not depend on the iteration order of its two sets** -/
theorem volume_line_order_independent (p₁ p₂ m₁ m₂ : List Nat) (hp : p₁.Perm p₂) (hm : m₁.Perm m₂)
    (ops : Option (String × List Nat)) (fictive : Bool) :
    volLine p₁ m₁ ops fictive = volLine p₂ m₂ ops fictive := by
  unfold volLine volWords
  rw [sort_order_independent p₁ p₂ hp, sort_order_independent m₁ m₂ hm, hp.length_eq, hm.length_eq]
  have e1 : p₁.isEmpty = p₂.isEmpty := by
    cases p₁ <;> cases p₂ <;> simp_all
  have e2 : m₁.isEmpty = m₂.isEmpty := by
    cases m₁ <;> cases m₂ <;> simp_all
  rw [e1, e2]

/-- **the order in which surfaces are written does not depend on the iteration order of the set of
surfaces in use** -/
theorem surface_order_independent (u₁ u₂ : List Nat) (h : u₁.Perm u₂) : surfOrder u₁ = surfOrder u₂ :=
  sort_order_independent u₁ u₂ h

/-- **the clean-up of empty volumes does not depend on how its sets are enumerated**: `remove_empty_volumes` keeps the
keys still to remove and the keys removed so far in Python sets; whatever the order in which the first is iterated (any
permutation `q` of the empty volumes), and whatever the order of the second, the dictionary that results is the one
of the model — deleted volumes, neutralised unions and pruned operand lists included -/
theorem empty_volume_cleanup_order_independent (u : Nat × Nat) (vols : List (Nat × Vol)) (q : List Nat)
    (hq : q.Perm ((vols.filter (·.2.empty)).map (·.1))) :
    removeEmpty.loop u (vols.length + 2) vols q [] = removeEmpty u vols := by
  unfold removeEmpty
  exact loop_order_independent u _ vols _ _ _ _ hq (fun _ => Iff.rfl)

/-- one round: the same volumes are deleted (as a set) and the same dictionary is left, whatever the order of the
queue -/
theorem cleanup_round_order_independent (u : Nat × Nat) (vols : List (Nat × Vol)) (q₁ q₂ : List Nat) (hq : q₁.Perm q₂) :
    (removeEmptyRound u vols q₁).1 = (removeEmptyRound u vols q₂).1 ∧
    (removeEmptyRound u vols q₁).2.Perm (removeEmptyRound u vols q₂).2 := by
  rw [removeEmptyRound_eq, removeEmptyRound_eq]
  exact fold_perm u hq (AccEq.refl _)

example : [7, 3, 5].Perm [5, 7, 3] ∧ surfOrder [7, 3, 5] = [3, 5, 7] := by
  refine ⟨?_, by simp [surfOrder, List.mergeSort, natLe]⟩
  exact (List.perm_append_comm (l₁ := [7, 3]) (l₂ := [5]))

end T4V.C18
