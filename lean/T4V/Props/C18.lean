import T4V.Model.Write
import T4V.Model.Post
/-!
# Property C18 — conversion is deterministic and leaves no state between runs  (partial)

The model is a pure function of the deck: every definition of `T4V.Model` is a Lean function, there is no
state to leak and no iteration order to depend on — *except* where the code iterates over a `set`, whose
order is a runtime fact (insertion history, hash seed).  What is proved here is the part that is logic:
at the places where a set reaches the output, the writers sort, so the text does not depend on the
enumeration order.  That CPython's set iteration and module state behave as assumed is probed by the
`hashseed` and `history` streams, not proved.
-/
namespace T4V.C18
open T4V

theorem natLe_trans (a b c : Nat) : natLe a b = true → natLe b c = true → natLe a c = true := by
  simp only [natLe, decide_eq_true_eq]; omega

theorem natLe_total (a b : Nat) : (natLe a b || natLe b a) = true := by
  simp only [natLe, Bool.or_eq_true, decide_eq_true_eq]; omega

/-- sorting forgets the enumeration order -/
theorem sort_order_independent (l₁ l₂ : List Nat) (h : l₁.Perm l₂) :
    l₁.mergeSort natLe = l₂.mergeSort natLe := by
  apply List.Perm.eq_of_pairwise (le := fun a b => natLe a b = true)
  · intro a b _ _ hab hba
    simp only [natLe, decide_eq_true_eq] at hab hba; omega
  · exact List.pairwise_mergeSort natLe_trans natLe_total l₁
  · exact List.pairwise_mergeSort natLe_trans natLe_total l₂
  · exact (List.mergeSort_perm l₁ natLe).trans (h.trans (List.mergeSort_perm l₂ natLe).symm)

/-- **`VolumeT4.__str__` does not depend on the iteration order of its two sets** -/
theorem volume_line_order_independent (p₁ p₂ m₁ m₂ : List Nat) (hp : p₁.Perm p₂) (hm : m₁.Perm m₂)
    (ops : Option (String × List Nat)) (fictive : Bool) :
    volLine p₁ m₁ ops fictive = volLine p₂ m₂ ops fictive := by
  unfold volLine volWords
  rw [sort_order_independent p₁ p₂ hp, sort_order_independent m₁ m₂ hm, hp.length_eq, hm.length_eq]
  have e1 : p₁.isEmpty = p₂.isEmpty := by
    cases p₁ <;> cases p₂ <;> simp_all
  have e2 : m₁.isEmpty = m₂.isEmpty := by
    cases m₁ <;> cases m₂ <;> simp_all
  rw [e1, e2]

/-- **the order in which surfaces are written does not depend on the iteration order of the set of
surfaces in use** -/
theorem surface_order_independent (u₁ u₂ : List Nat) (h : u₁.Perm u₂) : surfOrder u₁ = surfOrder u₂ :=
  sort_order_independent u₁ u₂ h

example : [7, 3, 5].Perm [5, 7, 3] ∧ surfOrder [7, 3, 5] = [3, 5, 7] := by
  refine ⟨?_, by simp [surfOrder, List.mergeSort, natLe]⟩
  exact (List.perm_append_comm (l₁ := [7, 3]) (l₂ := [5]))

end T4V.C18
