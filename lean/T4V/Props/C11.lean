import T4V.Proofs.GeomParse
import T4V.Proofs.GeomFuel
import T4V.Proofs.NormLayoutTree
/-!
# Property C11 — cell expressions denote the Boolean function MCNP assigns to them

Model: `T4V.Text.GeomParse` (`normalize`, PEG parser, `GeomSemantics`), `T4V.Model.Tree`
(`GeomExpression.inverse`, `pot_complement`).  All statements are for every expression of every
size, every legal spacing and every assignment of senses.
-/
namespace T4V.C11
open T4V

/-- (1) Parsing: the canonical spelling of any well-formed source expression (union of
intersections of operands, signed surfaces with optional facet, `#( … )`, `#n`, parentheses at any
depth) is parsed completely, to the left-associated tree MCNP's precedence rules prescribe. -/
theorem parse_canonical (u : SU) (g : Geom) (hw : u.WF) (ht : u.tree = some g) :
    pUnion u.cost u.chars = .ok (g, []) :=
  parse_render u g hw ht u.cost (Nat.le_refl _)

/-- (2) Meaning of the parsed tree: for every assignment of senses `σ` to the surfaces and of truth
values `cv` to the cells referenced by `#n`, the tree evaluates to MCNP's reading of the expression
(blank binds tighter than colon; `#( … )` complements the sub-expression, via De Morgan). -/
theorem parsed_tree_meaning (σ : SurfVal) (cv : Nat → Bool) (u : SU) (g : Geom) (hz : u.NZ)
    (ht : u.tree = some g) : g.eval σ cv = u.eval σ cv :=
  (SU.tree_sound σ cv u g hz ht).2

/-- (1)+(2): parse the canonical text, evaluate the result: MCNP's Boolean function. -/
theorem parse_meaning (σ : SurfVal) (cv : Nat → Bool) (u : SU) (g : Geom) (hw : u.WF) (hz : u.NZ)
    (ht : u.tree = some g) :
    ∃ g', pUnion u.cost u.chars = .ok (g', []) ∧ g'.eval σ cv = u.eval σ cv :=
  ⟨g, parse_canonical u g hw ht, parsed_tree_meaning σ cv u g hz ht⟩

/-- (3) De Morgan inverse (`GeomExpression.inverse`): negates the Boolean function. -/
theorem inverse_negates (σ : SurfVal) (cv : Nat → Bool) (g g' : Geom) (hz : g.nonzero = true)
    (h : g.inverse = some g') : g'.eval σ cv = !g.eval σ cv :=
  inverse_eval σ cv g g' hz h

/-- (4) Complement elimination (`pot_complement`): when it succeeds, the result contains no `#`
any more and, for every sense assignment, has the value MCNP assigns to the original expression
with every `#n` read as "not in cell n" (cells referring to cells, to any depth). -/
theorem complement_elimination (cells : List CellGeom) (hc : CellsOK cells) (σ : SurfVal)
    (cv : Nat → Bool) (fuel : Nat) (g g' : Geom) (hz : g.nonzero = true) (hn : g.noCref = true)
    (h : potComplement cells fuel g = .ok g') :
    g'.pure = true ∧ ∀ f2 b, cellRegion.regionOf cells σ f2 g = some b → g'.eval σ cv = b :=
  let r := potComplement_eval cells hc σ cv fuel g g' hz h
  ⟨r.1 hn, r.2.2⟩

/-- (0) **Spacing**: `normalize` (the nine regex passes of `parsegeom.normalize`, character by character) maps every
legal layout of an expression — any run of the six ASCII blanks, possibly empty, after every token and in front;
at least one blank between two surface literals, or between a cell number `#n` and a literal, that follow each other
— to the canonical spelling of the expression: `*` for the implicit intersection, `_(`/`^(n)` for the complements. -/
theorem normalize_any_layout (u : NL.LU) (g0 : List Char) (hw : u.erase.WF) (hg : u.GapsWs) (h0 : NL.AllWs g0)
    (hl : NL.LegalFrom none g0 u.toks) : normalize (u.text g0) = u.erase.chars :=
  NL.normalize_layout u g0 hw hg h0 hl

/-- (0)+(1)+(2): **any legal spacing of the expression** is normalised and parsed to a tree that evaluates to MCNP's
Boolean function of the expression, for every assignment of senses -/
theorem layout_meaning (σ : SurfVal) (cv : Nat → Bool) (u : NL.LU) (g0 : List Char) (g : Geom) (hw : u.erase.WF)
    (hz : u.erase.NZ) (hg : u.GapsWs) (h0 : NL.AllWs g0) (hl : NL.LegalFrom none g0 u.toks)
    (ht : u.erase.tree = some g) :
    ∃ g', pUnion u.erase.cost (normalize (u.text g0)) = .ok (g', []) ∧ g'.eval σ cv = u.erase.eval σ cv := by
  rw [normalize_any_layout u g0 hw hg h0 hl]
  exact parse_meaning σ cv u.erase g hw hz ht

/-- (1′) **the parser entry point itself** (`parseGeom` = `get_ast`: normalise, parse with the fuel the model
provides, demand that the whole text is consumed): whenever a text normalises to the canonical spelling of a
well-formed expression, the result is the tree MCNP's reading prescribes — the fuel `3·length + 3` is enough for
every expression. -/
theorem parseGeom_canonical (s : String) (u : SU) (g : Geom) (hw : u.WF) (ht : u.tree = some g)
    (hs : normalize s.toList = u.chars) : parseGeom s = .ok g := by
  have hf : u.cost ≤ 3 * u.chars.length + 3 := Nat.le_succ_of_le (SU.cost_le u hw)
  simp only [parseGeom, hs, parse_render u g hw ht _ hf]

/-- (0)+(1′): **`get_ast` on any legal layout** of the expression returns MCNP's tree -/
theorem parseGeom_any_layout (u : NL.LU) (g0 : List Char) (g : Geom) (hw : u.erase.WF) (hg : u.GapsWs)
    (h0 : NL.AllWs g0) (hl : NL.LegalFrom none g0 u.toks) (ht : u.erase.tree = some g) :
    parseGeom (String.ofList (u.text g0)) = .ok g :=
  parseGeom_canonical _ u.erase g hw ht (by rw [String.toList_ofList]; exact normalize_any_layout u g0 hw hg h0 hl)

/-- (0)+(1′)+(2): the tree `get_ast` returns for any legal layout evaluates to MCNP's Boolean function of the
expression, for every assignment of senses -/
theorem parseGeom_meaning (σ : SurfVal) (cv : Nat → Bool) (u : NL.LU) (g0 : List Char) (g : Geom) (hw : u.erase.WF)
    (hz : u.erase.NZ) (hg : u.GapsWs) (h0 : NL.AllWs g0) (hl : NL.LegalFrom none g0 u.toks)
    (ht : u.erase.tree = some g) :
    parseGeom (String.ofList (u.text g0)) = .ok g ∧ g.eval σ cv = u.erase.eval σ cv :=
  ⟨parseGeom_any_layout u g0 g hw hg h0 hl ht, parsed_tree_meaning σ cv u.erase g hz ht⟩

/-! Non-vacuity: a concrete expression `-1 (2:-3.1) #(4 5) #7` meets every hypothesis. -/
def exLit (neg : Bool) (d : Char) (facet : Option Char) : Lit :=
  { sign := if neg then some true else none, ds := [d], facet }

def exU : SU :=
  .mk (.mk (.lit (exLit true '1' none))
        [ .par (.mk (.mk (.lit (exLit false '2' none)) []) [.mk (.lit (exLit true '3' (some '1'))) []]),
          .compl (.mk (.mk (.lit (exLit false '4' none)) [.lit (exLit false '5' none)]) []),
          .ccell ['7'] ]) []

example : exU.chars = "-1*(2:-3.1)*_(4*5)*^(7)".toList := by decide
example : exU.WF := by
  simp [exU, SU.WF, SI.WF, SO.WF, wfIs, wfOs, Lit.WF, exLit, Char.isDigit]
example : exU.NZ := by
  simp [exU, SU.NZ, SI.NZ, SO.NZ, nzIs, nzOs, exLit, digitsVal]
example : exU.tree.isSome = true := by
  simp [exU, SU.tree, SI.tree, SO.tree, treesIs, treesOs, Geom.inverse, Geom.inverseList, foldUnion,
    foldInter, Lit.geom]

/-! Non-vacuity of the spacing theorem: `  -1(2 :\t-3.1 )#  ( 4  5)# 7 ` is a legal layout of `exU`
(no blank between `-1` and `(`, between `)` and `#`; a tab after the colon; blanks inside `#  (` and `# 7`). -/
def exL : NL.LU :=
  .mk (.mk [] (.lit (exLit true '1' none) [])
        [ .par [] (.mk (.mk [] (.lit (exLit false '2' none) [' ']) [])
                      [.mk ['\t'] (.lit (exLit true '3' (some '1')) [' ']) []]) [],
          .compl [' ', ' '] [' '] (.mk (.mk [] (.lit (exLit false '4' none) [' ', ' ']) [.lit (exLit false '5' none) []]) []) [],
          .ccell [' '] ['7'] [' '] ]) []

example : exL.erase = exU := rfl
example : exL.text [' ', ' '] = "  -1(2 :\t-3.1 )#  ( 4  5)# 7 ".toList := by decide
example : normalize (exL.text [' ', ' ']) = exU.chars :=
  normalize_any_layout exL [' ', ' ']
    (by simp [exL, NL.LU.erase, NL.LI.erase, NL.LO.erase, NL.eraseIs, NL.eraseOs, SU.WF, SI.WF, SO.WF, wfIs, wfOs, Lit.WF,
      exLit, Char.isDigit])
    (by simp [exL, NL.LU.GapsWs, NL.LI.GapsWs, NL.LO.GapsWs, NL.gapsWsIs, NL.gapsWsOs, NL.AllWs, NL.LI.gc, isWs])
    (by simp [NL.AllWs, isWs])
    (by simp [exL, NL.LU.toks, NL.LI.toks, NL.LO.toks, NL.toksIs, NL.toksOs, NL.LegalFrom, NL.isLitO, NL.LI.gc, exLit,
      Lit.chars, Char.isDigit])

end T4V.C11
