import T4V.Proofs.Surface
import T4V.Proofs.RealOK
import Mathlib.Tactic.LinearCombination
/-!
# Property C02 — elementary surfaces keep their locus and their sense

Model: `T4V.Model.Surface` (`normalize_surface`, the `mcnp2cad` table of `MIP/geom/forcad.py`,
`conversion_surface_params`).  Spec: `elemSense` (`T4V.Spec.MCNP`, MCNP manual surface table) and the
TRIPOLI-4 implicit functions `TSurf.f` (`T4V.Spec.T4`).  Every theorem is over an arbitrary linearly
ordered field and for every point.
-/
set_option linter.unusedSectionVars false
set_option linter.unusedSimpArgs false
namespace T4V.C02
open T4V T4V.Surf
variable {α : Type} [Field α] [LinearOrder α] [IsStrictOrderedRing α] [Transc α]

theorem coneCard_some {t2 : α} (h : 0 ≤ t2) (mk : α → MSurf α) : coneCard t2 mk = some (mk (Transc.sqrt t2)) := by
  simp [coneCard, not_lt.mpr h]

theorem cone_card_eq {mn : String} {ps : List α} {t2 : α} (mk : α → MSurf α) (h : 0 ≤ t2)
    (hcad : cadOf (0:α) 0 mn ps = coneCard t2 mk) :
    cadOf (0:α) 0 mn ps = some (mk (Transc.sqrt t2)) ∧ convertCard (0:α) 0 mn ps = convertSurf (mk (Transc.sqrt t2)) := by
  have := hcad.trans (coneCard_some h mk)
  exact ⟨this, by simp [convertCard, this]⟩

/-- a cone card with negative `t²` is rejected (the code raises `TypeError`) -/
theorem coneCard_none {t2 : α} (h : t2 < 0) (mk : α → MSurf α) : coneCard t2 mk = none := by
  simp [coneCard, h]

/-- the admissible cards of the elementary mnemonics covered by the theorem -/
inductive Admissible : String → List α → Prop
  | px (d : α)  : Admissible "px" [d]
  | py (d : α)  : Admissible "py" [d]
  | pz (d : α)  : Admissible "pz" [d]
  | p4 (a b c d : α) (h : 0 < a * a + b * b + c * c) : Admissible "p" [a, b, c, d]
  | so (r : α)  : Admissible "so" [r]
  | s (a b c r : α)  : Admissible "s" [a, b, c, r]
  | sx (a r : α)  : Admissible "sx" [a, r]
  | sy (b r : α)  : Admissible "sy" [b, r]
  | sz (c r : α)  : Admissible "sz" [c, r]
  | cx_ (b c r : α)  : Admissible "c/x" [b, c, r]
  | cy_ (a c r : α)  : Admissible "c/y" [a, c, r]
  | cz_ (a b r : α)  : Admissible "c/z" [a, b, r]
  | cx (r : α)  : Admissible "cx" [r]
  | cy (r : α)  : Admissible "cy" [r]
  | cz (r : α)  : Admissible "cz" [r]
  | kx_ (a b c t2 : α) (h : 0 ≤ t2) : Admissible "k/x" [a, b, c, t2]
  | kx_1 (a b c t2 s : α) (h : 0 ≤ t2) (hs : s = 1 ∨ s = -1) : Admissible "k/x" [a, b, c, t2, s]
  | ky_ (a b c t2 : α) (h : 0 ≤ t2) : Admissible "k/y" [a, b, c, t2]
  | ky_1 (a b c t2 s : α) (h : 0 ≤ t2) (hs : s = 1 ∨ s = -1) : Admissible "k/y" [a, b, c, t2, s]
  | kz_ (a b c t2 : α) (h : 0 ≤ t2) : Admissible "k/z" [a, b, c, t2]
  | kz_1 (a b c t2 s : α) (h : 0 ≤ t2) (hs : s = 1 ∨ s = -1) : Admissible "k/z" [a, b, c, t2, s]
  | kx (a t2 : α) (h : 0 ≤ t2) : Admissible "kx" [a, t2]
  | kx1 (a t2 s : α) (h : 0 ≤ t2) (hs : s = 1 ∨ s = -1) : Admissible "kx" [a, t2, s]
  | ky (b t2 : α) (h : 0 ≤ t2) : Admissible "ky" [b, t2]
  | ky1 (b t2 s : α) (h : 0 ≤ t2) (hs : s = 1 ∨ s = -1) : Admissible "ky" [b, t2, s]
  | kz (c t2 : α) (h : 0 ≤ t2) : Admissible "kz" [c, t2]
  | kz1 (c t2 s : α) (h : 0 ≤ t2) (hs : s = 1 ∨ s = -1) : Admissible "kz" [c, t2, s]
  | sq (a b c d e f g x y z : α) (hg : ¬ 0 < g) : Admissible "sq" [a, b, c, d, e, f, g, x, y, z]
  | gq (a b c d e f g h j k : α)  : Admissible "gq" [a, b, c, d, e, f, g, h, j, k]
  | tx (x y z ra rb rc : α)  : Admissible "tx" [x, y, z, ra, rb, rc]
  | ty (x y z ra rb rc : α)  : Admissible "ty" [x, y, z, ra, rb, rc]
  | tz (x y z ra rb rc : α)  : Admissible "tz" [x, y, z, ra, rb, rc]

/-- **C02 for every card of the table**: the card converts, and the emitted surface(s) have the card's
zero set and MCNP's sense at every point -/
theorem elementary_card (ok : TranscOK α) {mn : String} {ps : List α} (h : Admissible mn ps) :
    Converted (0:α) 0 mn ps := by
  cases h with
  | px d  =>
    exact card_of_same (fun p => p.x - d) rfl rfl
        ((convertPlane_same (α := α) ⟨d, 0, 0⟩ ⟨1, 0, 0⟩).congr (fun p => by simp [V3.dot, V3.sub])) (fun _ => rfl)
  | py d  =>
    exact card_of_same (fun p => p.y - d) rfl rfl
        ((convertPlane_same (α := α) ⟨0, d, 0⟩ ⟨0, 1, 0⟩).congr (fun p => by simp [V3.dot, V3.sub])) (fun _ => rfl)
  | pz d  =>
    exact card_of_same (fun p => p.z - d) rfl rfl
        ((convertPlane_same (α := α) ⟨0, 0, d⟩ ⟨0, 0, 1⟩).congr (fun p => by simp [V3.dot, V3.sub])) (fun _ => rfl)
  | p4 a b c d h =>
    exact by
      obtain ⟨t, hs, hsame⟩ := plane4_same ok a b c d h
      exact card_of_same _ (planeCard_convert ok a b c d h) hs hsame (fun _ => rfl)
  | so r  =>
    exact by
      obtain ⟨t, hs, hsame⟩ := sphere_same (α := α) 0 0 0 r
      exact card_of_same _ rfl hs (hsame.congr (fun p => by simp)) (fun _ => rfl)
  | s a b c r  =>
    exact by
      obtain ⟨t, hs, hsame⟩ := sphere_same (α := α) a b c r
      exact card_of_same _ rfl hs (hsame.congr (fun p => by simp)) (fun _ => rfl)
  | sx a r  =>
    exact by
      obtain ⟨t, hs, hsame⟩ := sphere_same (α := α) a 0 0 r
      exact card_of_same _ rfl hs (hsame.congr (fun p => by simp)) (fun _ => rfl)
  | sy b r  =>
    exact by
      obtain ⟨t, hs, hsame⟩ := sphere_same (α := α) 0 b 0 r
      exact card_of_same _ rfl hs (hsame.congr (fun p => by simp)) (fun _ => rfl)
  | sz c r  =>
    exact by
      obtain ⟨t, hs, hsame⟩ := sphere_same (α := α) 0 0 c r
      exact card_of_same _ rfl hs (hsame.congr (fun p => by simp)) (fun _ => rfl)
  | cx_ b c r  =>
    exact by
      obtain ⟨t, hs, hsame⟩ := cylx_same (α := α) b c r
      exact card_of_same _ rfl hs (hsame.congr (fun p => by simp)) (fun _ => rfl)
  | cy_ a c r  =>
    exact by
      obtain ⟨t, hs, hsame⟩ := cyly_same (α := α) a c r
      exact card_of_same _ rfl hs (hsame.congr (fun p => by simp)) (fun _ => rfl)
  | cz_ a b r  =>
    exact by
      obtain ⟨t, hs, hsame⟩ := cylz_same (α := α) a b r
      exact card_of_same _ rfl hs (hsame.congr (fun p => by simp)) (fun _ => rfl)
  | cx r  =>
    exact by
      obtain ⟨t, hs, hsame⟩ := cylx_same (α := α) 0 0 r
      exact card_of_same _ rfl hs (hsame.congr (fun p => by simp)) (fun _ => rfl)
  | cy r  =>
    exact by
      obtain ⟨t, hs, hsame⟩ := cyly_same (α := α) 0 0 r
      exact card_of_same _ rfl hs (hsame.congr (fun p => by simp)) (fun _ => rfl)
  | cz r  =>
    exact by
      obtain ⟨t, hs, hsame⟩ := cylz_same (α := α) 0 0 r
      exact card_of_same _ rfl hs (hsame.congr (fun p => by simp)) (fun _ => rfl)
  | kx_ a b c t2 h =>
    exact by
      obtain ⟨t, hs, hsame⟩ := conex_same ok a b c t2 h
      exact card_of_same _ (cone_card_eq (fun tana => mkCone a b c tana 1 0 0 none) h rfl).1 hs (hsame.congr (fun p => by simp)) (fun _ => rfl)
  | kx_1 a b c t2 s h hs =>
    exact by
      refine sheet_card (fun p => ?_)
      obtain ⟨coll, hc, hl, hn⟩ := conex_sheet (Transc.sqrt t2) a b c t2 s hs p (tan_theta ok t2 h)
      exact ⟨coll, _, (cone_card_eq (fun tana => mkCone a b c tana 1 0 0 (some s)) h rfl).2.trans hc, hl, rfl, by simpa using hn⟩
  | ky_ a b c t2 h =>
    exact by
      obtain ⟨t, hs, hsame⟩ := coney_same ok a b c t2 h
      exact card_of_same _ (cone_card_eq (fun tana => mkCone a b c tana 0 1 0 none) h rfl).1 hs (hsame.congr (fun p => by simp)) (fun _ => rfl)
  | ky_1 a b c t2 s h hs =>
    exact by
      refine sheet_card (fun p => ?_)
      obtain ⟨coll, hc, hl, hn⟩ := coney_sheet (Transc.sqrt t2) a b c t2 s hs p (tan_theta ok t2 h)
      exact ⟨coll, _, (cone_card_eq (fun tana => mkCone a b c tana 0 1 0 (some s)) h rfl).2.trans hc, hl, rfl, by simpa using hn⟩
  | kz_ a b c t2 h =>
    exact by
      obtain ⟨t, hs, hsame⟩ := conez_same ok a b c t2 h
      exact card_of_same _ (cone_card_eq (fun tana => mkCone a b c tana 0 0 1 none) h rfl).1 hs (hsame.congr (fun p => by simp)) (fun _ => rfl)
  | kz_1 a b c t2 s h hs =>
    exact by
      refine sheet_card (fun p => ?_)
      obtain ⟨coll, hc, hl, hn⟩ := conez_sheet (Transc.sqrt t2) a b c t2 s hs p (tan_theta ok t2 h)
      exact ⟨coll, _, (cone_card_eq (fun tana => mkCone a b c tana 0 0 1 (some s)) h rfl).2.trans hc, hl, rfl, by simpa using hn⟩
  | kx a t2 h =>
    exact by
      obtain ⟨t, hs, hsame⟩ := conex_same ok a 0 0 t2 h
      exact card_of_same _ (cone_card_eq (fun tana => mkCone a 0 0 tana 1 0 0 none) h rfl).1 hs (hsame.congr (fun p => by simp)) (fun _ => rfl)
  | kx1 a t2 s h hs =>
    exact by
      refine sheet_card (fun p => ?_)
      obtain ⟨coll, hc, hl, hn⟩ := conex_sheet (Transc.sqrt t2) a 0 0 t2 s hs p (tan_theta ok t2 h)
      exact ⟨coll, _, (cone_card_eq (fun tana => mkCone a 0 0 tana 1 0 0 (some s)) h rfl).2.trans hc, hl, rfl, by simpa using hn⟩
  | ky b t2 h =>
    exact by
      obtain ⟨t, hs, hsame⟩ := coney_same ok 0 b 0 t2 h
      exact card_of_same _ (cone_card_eq (fun tana => mkCone 0 b 0 tana 0 1 0 none) h rfl).1 hs (hsame.congr (fun p => by simp)) (fun _ => rfl)
  | ky1 b t2 s h hs =>
    exact by
      refine sheet_card (fun p => ?_)
      obtain ⟨coll, hc, hl, hn⟩ := coney_sheet (Transc.sqrt t2) 0 b 0 t2 s hs p (tan_theta ok t2 h)
      exact ⟨coll, _, (cone_card_eq (fun tana => mkCone 0 b 0 tana 0 1 0 (some s)) h rfl).2.trans hc, hl, rfl, by simpa using hn⟩
  | kz c t2 h =>
    exact by
      obtain ⟨t, hs, hsame⟩ := conez_same ok 0 0 c t2 h
      exact card_of_same _ (cone_card_eq (fun tana => mkCone 0 0 c tana 0 0 1 none) h rfl).1 hs (hsame.congr (fun p => by simp)) (fun _ => rfl)
  | kz1 c t2 s h hs =>
    exact by
      refine sheet_card (fun p => ?_)
      obtain ⟨coll, hc, hl, hn⟩ := conez_sheet (Transc.sqrt t2) 0 0 c t2 s hs p (tan_theta ok t2 h)
      exact ⟨coll, _, (cone_card_eq (fun tana => mkCone 0 0 c tana 0 0 1 (some s)) h rfl).2.trans hc, hl, rfl, by simpa using hn⟩
  | sq a b c d e f g x y z hg =>
    exact by
      obtain ⟨t, hs, hsame⟩ := sq_same a b c d e f g x y z hg
      exact card_of_same _ rfl (by simp [convertSurf, hs]) hsame (fun _ => rfl)
  | gq a b c d e f g h j k  =>
    exact by
      obtain ⟨t, hs, hsame⟩ := gq_same a b c d e f g h j k
      exact card_of_same _ rfl hs hsame (fun _ => rfl)
  | tx x y z ra rb rc  =>
    exact by
      obtain ⟨t, hs, hsame⟩ := torusx_same (α := α) x y z ra rb rc
      exact card_of_same _ rfl hs hsame (fun _ => rfl)
  | ty x y z ra rb rc  =>
    exact by
      obtain ⟨t, hs, hsame⟩ := torusy_same (α := α) x y z ra rb rc
      exact card_of_same _ rfl hs hsame (fun _ => rfl)
  | tz x y z ra rb rc  =>
    exact by
      obtain ⟨t, hs, hsame⟩ := torusz_same (α := α) x y z ra rb rc
      exact card_of_same _ rfl hs hsame (fun _ => rfl)

/-! ### point-defined axisymmetric surfaces `X`, `Y`, `Z` -/

theorem axisym_x1 (a1 r1 : α) : Converted (0:α) 0 "x" [a1, r1] :=
  card_of_same (fun p => p.x - a1) rfl rfl
    ((convertPlane_same (α := α) ⟨a1, 0, 0⟩ ⟨1, 0, 0⟩).congr (fun p => by simp [V3.dot, V3.sub])) (fun _ => rfl)

theorem axisym_x2 (ok : TranscOK α) (a1 r1 a2 r2 : α) : Converted (0:α) 0 "x" [a1, r1, a2, r2] := by
  by_cases h1 : a1 = a2
  · have hc : cadOf (0:α) 0 "x" [a1, r1, a2, r2] = some (mkPlane ⟨a1, 0, 0⟩ ⟨1, 0, 0⟩) := by
      change cadAxisym 0 [a1, r1, a2, r2] = _
      simp [cadAxisym, h1]
    exact card_of_same (fun p => p.x - a1) hc rfl
      ((convertPlane_same (α := α) ⟨a1, 0, 0⟩ ⟨1, 0, 0⟩).congr (fun p => by simp [V3.dot, V3.sub]))
      (fun p => by change axisym [a1, r1, a2, r2] p.x (sq p.y + sq p.z) = _; simp [axisym, h1])
  by_cases h2 : r1 = r2
  · have hc : cadOf (0:α) 0 "x" [a1, r1, a2, r2] = some (mkCyl 0 0 0 r1 1 0 0) := by
      change cadAxisym 0 [a1, r1, a2, r2] = _
      simp [cadAxisym, h1, h2]
    obtain ⟨t, hs, hsame⟩ := cylx_same (α := α) 0 0 r1
    exact card_of_same (fun p => sq p.y + sq p.z - sq r1) hc hs (hsame.congr (fun p => by simp))
      (fun p => by change axisym [a1, r1, a2, r2] p.x (sq p.y + sq p.z) = _; simp [axisym, h1, h2])
  · refine sheet_card (fun p => ?_)
    have hc : cadOf (0:α) 0 "x" [a1, r1, a2, r2] =
        some (mkCone (a1 - r1 / ((r1 - r2) / (a1 - a2))) 0 0 (fabs ((r1 - r2) / (a1 - a2))) 1 0 0
          (some (if a1 - r1 / ((r1 - r2) / (a1 - a2)) < a1 then 1 else -1))) := by
      change cadAxisym 0 [a1, r1, a2, r2] = _
      simp [cadAxisym, h1, h2]
    have hS : (if a1 - r1 / ((r1 - r2) / (a1 - a2)) < a1 then (1:α) else -1) = 1 ∨
        (if a1 - r1 / ((r1 - r2) / (a1 - a2)) < a1 then (1:α) else -1) = -1 := by
      split <;> simp
    have hT : sq (Transc.tan (deg180 * Transc.atan (fabs ((r1 - r2) / (a1 - a2))) / Transc.pi * Transc.pi /
        (((1:α) + 1 + 1) * ((1 + 1 + 1) * (1 + 1)) * ((1 + 1 + 1 + 1 + 1) * (1 + 1))))) = sq ((r1 - r2) / (a1 - a2)) := by
      have := theta_back ok (fabs ((r1 - r2) / (a1 - a2)))
      unfold deg180 at this ⊢
      rw [this, sq_fabs]
    obtain ⟨coll, hcs, hl, hn⟩ := conex_sheet (fabs ((r1 - r2) / (a1 - a2))) (a1 - r1 / ((r1 - r2) / (a1 - a2))) 0 0
      (sq ((r1 - r2) / (a1 - a2))) _ hS p hT
    simp only [sub_zero] at hn
    refine ⟨coll, _, by rw [convertCard, hc]; exact hcs, hl, ?_, hn⟩
    change axisym [a1, r1, a2, r2] p.x (sq p.y + sq p.z) = _
    simp only [axisym, beq_iff_eq, h1, h2, if_false]

theorem axisym_y1 (a1 r1 : α) : Converted (0:α) 0 "y" [a1, r1] :=
  card_of_same (fun p => p.y - a1) rfl rfl
    ((convertPlane_same (α := α) ⟨0, a1, 0⟩ ⟨0, 1, 0⟩).congr (fun p => by simp [V3.dot, V3.sub])) (fun _ => rfl)

theorem axisym_y2 (ok : TranscOK α) (a1 r1 a2 r2 : α) : Converted (0:α) 0 "y" [a1, r1, a2, r2] := by
  by_cases h1 : a1 = a2
  · have hc : cadOf (0:α) 0 "y" [a1, r1, a2, r2] = some (mkPlane ⟨0, a1, 0⟩ ⟨0, 1, 0⟩) := by
      change cadAxisym 1 [a1, r1, a2, r2] = _
      simp [cadAxisym, h1]
    exact card_of_same (fun p => p.y - a1) hc rfl
      ((convertPlane_same (α := α) ⟨0, a1, 0⟩ ⟨0, 1, 0⟩).congr (fun p => by simp [V3.dot, V3.sub]))
      (fun p => by change axisym [a1, r1, a2, r2] p.y (sq p.x + sq p.z) = _; simp [axisym, h1])
  by_cases h2 : r1 = r2
  · have hc : cadOf (0:α) 0 "y" [a1, r1, a2, r2] = some (mkCyl 0 0 0 r1 0 1 0) := by
      change cadAxisym 1 [a1, r1, a2, r2] = _
      simp [cadAxisym, h1, h2]
    obtain ⟨t, hs, hsame⟩ := cyly_same (α := α) 0 0 r1
    exact card_of_same (fun p => sq p.x + sq p.z - sq r1) hc hs (hsame.congr (fun p => by simp))
      (fun p => by change axisym [a1, r1, a2, r2] p.y (sq p.x + sq p.z) = _; simp [axisym, h1, h2])
  · refine sheet_card (fun p => ?_)
    have hc : cadOf (0:α) 0 "y" [a1, r1, a2, r2] =
        some (mkCone 0 (a1 - r1 / ((r1 - r2) / (a1 - a2))) 0 (fabs ((r1 - r2) / (a1 - a2))) 0 1 0
          (some (if a1 - r1 / ((r1 - r2) / (a1 - a2)) < a1 then 1 else -1))) := by
      change cadAxisym 1 [a1, r1, a2, r2] = _
      simp [cadAxisym, h1, h2]
    have hS : (if a1 - r1 / ((r1 - r2) / (a1 - a2)) < a1 then (1:α) else -1) = 1 ∨
        (if a1 - r1 / ((r1 - r2) / (a1 - a2)) < a1 then (1:α) else -1) = -1 := by
      split <;> simp
    have hT : sq (Transc.tan (deg180 * Transc.atan (fabs ((r1 - r2) / (a1 - a2))) / Transc.pi * Transc.pi /
        (((1:α) + 1 + 1) * ((1 + 1 + 1) * (1 + 1)) * ((1 + 1 + 1 + 1 + 1) * (1 + 1))))) = sq ((r1 - r2) / (a1 - a2)) := by
      have := theta_back ok (fabs ((r1 - r2) / (a1 - a2)))
      unfold deg180 at this ⊢
      rw [this, sq_fabs]
    obtain ⟨coll, hcs, hl, hn⟩ := coney_sheet (fabs ((r1 - r2) / (a1 - a2))) 0 (a1 - r1 / ((r1 - r2) / (a1 - a2))) 0
      (sq ((r1 - r2) / (a1 - a2))) _ hS p hT
    simp only [sub_zero] at hn
    refine ⟨coll, _, by rw [convertCard, hc]; exact hcs, hl, ?_, hn⟩
    change axisym [a1, r1, a2, r2] p.y (sq p.x + sq p.z) = _
    simp only [axisym, beq_iff_eq, h1, h2, if_false]

theorem axisym_z1 (a1 r1 : α) : Converted (0:α) 0 "z" [a1, r1] :=
  card_of_same (fun p => p.z - a1) rfl rfl
    ((convertPlane_same (α := α) ⟨0, 0, a1⟩ ⟨0, 0, 1⟩).congr (fun p => by simp [V3.dot, V3.sub])) (fun _ => rfl)

theorem axisym_z2 (ok : TranscOK α) (a1 r1 a2 r2 : α) : Converted (0:α) 0 "z" [a1, r1, a2, r2] := by
  by_cases h1 : a1 = a2
  · have hc : cadOf (0:α) 0 "z" [a1, r1, a2, r2] = some (mkPlane ⟨0, 0, a1⟩ ⟨0, 0, 1⟩) := by
      change cadAxisym 2 [a1, r1, a2, r2] = _
      simp [cadAxisym, h1]
    exact card_of_same (fun p => p.z - a1) hc rfl
      ((convertPlane_same (α := α) ⟨0, 0, a1⟩ ⟨0, 0, 1⟩).congr (fun p => by simp [V3.dot, V3.sub]))
      (fun p => by change axisym [a1, r1, a2, r2] p.z (sq p.x + sq p.y) = _; simp [axisym, h1])
  by_cases h2 : r1 = r2
  · have hc : cadOf (0:α) 0 "z" [a1, r1, a2, r2] = some (mkCyl 0 0 0 r1 0 0 1) := by
      change cadAxisym 2 [a1, r1, a2, r2] = _
      simp [cadAxisym, h1, h2]
    obtain ⟨t, hs, hsame⟩ := cylz_same (α := α) 0 0 r1
    exact card_of_same (fun p => sq p.x + sq p.y - sq r1) hc hs (hsame.congr (fun p => by simp))
      (fun p => by change axisym [a1, r1, a2, r2] p.z (sq p.x + sq p.y) = _; simp [axisym, h1, h2])
  · refine sheet_card (fun p => ?_)
    have hc : cadOf (0:α) 0 "z" [a1, r1, a2, r2] =
        some (mkCone 0 0 (a1 - r1 / ((r1 - r2) / (a1 - a2))) (fabs ((r1 - r2) / (a1 - a2))) 0 0 1
          (some (if a1 - r1 / ((r1 - r2) / (a1 - a2)) < a1 then 1 else -1))) := by
      change cadAxisym 2 [a1, r1, a2, r2] = _
      simp [cadAxisym, h1, h2]
    have hS : (if a1 - r1 / ((r1 - r2) / (a1 - a2)) < a1 then (1:α) else -1) = 1 ∨
        (if a1 - r1 / ((r1 - r2) / (a1 - a2)) < a1 then (1:α) else -1) = -1 := by
      split <;> simp
    have hT : sq (Transc.tan (deg180 * Transc.atan (fabs ((r1 - r2) / (a1 - a2))) / Transc.pi * Transc.pi /
        (((1:α) + 1 + 1) * ((1 + 1 + 1) * (1 + 1)) * ((1 + 1 + 1 + 1 + 1) * (1 + 1))))) = sq ((r1 - r2) / (a1 - a2)) := by
      have := theta_back ok (fabs ((r1 - r2) / (a1 - a2)))
      unfold deg180 at this ⊢
      rw [this, sq_fabs]
    obtain ⟨coll, hcs, hl, hn⟩ := conez_sheet (fabs ((r1 - r2) / (a1 - a2))) 0 0 (a1 - r1 / ((r1 - r2) / (a1 - a2)))
      (sq ((r1 - r2) / (a1 - a2))) _ hS p hT
    simp only [sub_zero] at hn
    refine ⟨coll, _, by rw [convertCard, hc]; exact hcs, hl, ?_, hn⟩
    change axisym [a1, r1, a2, r2] p.z (sq p.x + sq p.y) = _
    simp only [axisym, beq_iff_eq, h1, h2, if_false]

/-! ### `P` with nine entries: the plane through three points -/

/-- MCNP's orientation rule for a plane through three points, as in `Spec.elemSense` -/
def flip3 (n : V3 α) (d : α) : Bool :=
  if d < 0 then true else if (0:α) < d then false
  else if n.z < 0 then true else if (0:α) < n.z then false
  else if n.y < 0 then true else if (0:α) < n.y then false
  else decide (n.x < 0)

theorem scaled_neg (c x : α) (hc : 0 < c) : (c * x < -0 ↔ x < 0) := by
  rw [neg_zero]
  exact ⟨fun h => by by_contra hx; exact absurd h (not_lt.mpr (mul_nonneg hc.le (not_lt.mp hx))),
         fun h => mul_neg_of_pos_of_neg hc h⟩
theorem scaled_pos (c x : α) (hc : 0 < c) : (0 < c * x ↔ 0 < x) :=
  ⟨fun h => by by_contra hx; exact absurd h (not_lt.mpr (mul_nonpos_of_nonneg_of_nonpos hc.le (not_lt.mp hx))),
   fun h => mul_pos hc h⟩

/-- the cascade on the normalised numbers decides as MCNP's rule on the raw ones -/
theorem orient_spec (c : α) (hc : 0 < c) (n : V3 α) (d : α) (hn : ¬ (n.x = 0 ∧ n.y = 0 ∧ n.z = 0)) (P F : List α) :
    orient 0 (c * d) (c * n.x) (c * n.y) (c * n.z) P F = some (if flip3 n d then F else P) := by
  unfold orient flip3
  simp only [scaled_neg _ _ hc, scaled_pos _ _ hc]
  rcases lt_trichotomy d 0 with hd | hd | hd
  · simp [hd]
  · rcases lt_trichotomy n.z 0 with hz | hz | hz
    · simp [hd, hz]
    · rcases lt_trichotomy n.y 0 with hy | hy | hy
      · simp [hd, hz, hy]
      · rcases lt_trichotomy n.x 0 with hx | hx | hx
        · simp [hd, hz, hy, hx]
        · exact absurd ⟨hx, hy, hz⟩ hn
        · simp [hd, hz, hy, hx, not_lt.mpr hx.le]
      · simp [hd, hz, hy, not_lt.mpr hy.le]
    · simp [hd, hz, not_lt.mpr hz.le]
  · simp [hd, not_lt.mpr hd.le]

theorem same_scale {t : TSurf α} {g g' : V3 α → α} (h : Same t g) (c : α) (hc : 0 < c) (e : ∀ p, g p = c * g' p) :
    Same t g' := by
  obtain ⟨k, hk, hf⟩ := h
  exact ⟨k * c, mul_pos hk hc, fun p => by rw [hf p, e p, mul_assoc]⟩

/-- **`P` with nine entries** (three points, not collinear): the plane through the points, oriented by
MCNP's rule (origin negative; else (0,0,∞), (0,∞,0), (∞,0,0) positive), in exact arithmetic -/
theorem plane3 (ok : TranscOK α) (x1 y1 z1 x2 y2 z2 x3 y3 z3 : α)
    (h : 0 < ((V3.sub ⟨x1, y1, z1⟩ ⟨x2, y2, z2⟩).cross (V3.sub (⟨x1, y1, z1⟩ : V3 α) ⟨x3, y3, z3⟩)).norm2) :
    Converted (0:α) 0 "p" [x1, y1, z1, x2, y2, z2, x3, y3, z3] := by
  generalize hp1 : (⟨x1, y1, z1⟩ : V3 α) = p1 at h
  generalize hp2 : (⟨x2, y2, z2⟩ : V3 α) = p2 at h
  generalize hp3 : (⟨x3, y3, z3⟩ : V3 α) = p3 at h
  generalize hn : (p1.sub p2).cross (p1.sub p3) = n at h
  have hs := ok.sqrt_pos _ h
  have hss := ok.sqrt_sq _ h.le
  generalize hsd : Transc.sqrt n.norm2 = s at hs hss
  have hc : 0 < 1 / s := by positivity
  have hnz : ¬ (n.x = 0 ∧ n.y = 0 ∧ n.z = 0) := by
    rintro ⟨a, b, c⟩; simp [V3.norm2, V3.dot, a, b, c] at h
  have hpf : planeFromPoints (0:α) 0 p1 p2 p3 =
      some (if flip3 n (n.dot p1) then [-(1 / s * n.x), -(1 / s * n.y), -(1 / s * n.z), -(1 / s * n.dot p1)]
            else [1 / s * n.x, 1 / s * n.y, 1 / s * n.z, 1 / s * n.dot p1]) := by
    have hl : ¬ (n.norm2 < 0 ∨ n.norm2 = 0) := by
      rintro (h' | h') <;> [exact absurd h (not_lt.mpr h'.le); exact absurd h (h' ▸ lt_irrefl _)]
    have hpos : (V3.smul (1 / s) n).dot p1 = 1 / s * n.dot p1 := by simp only [V3.dot, V3.smul]; ring
    unfold planeFromPoints
    simp only [hn, hsd, Bool.or_eq_true, decide_eq_true_eq, beq_iff_eq, hl, if_false, hpos]
    exact orient_spec (1 / s) hc n (n.dot p1) hnz _ _
  have hcadeq : cadOf (0:α) 0 "p" [x1, y1, z1, x2, y2, z2, x3, y3, z3] =
      (match planeFromPoints (0:α) 0 p1 p2 p3 with
       | some [a, b, c, d] => planeCard a b c d
       | _ => none) := by
    rw [← hp1, ← hp2, ← hp3]; rfl
  -- the spec's normal (p2 − p1) × (p3 − p1) is the code's (p1 − p2) × (p1 − p3)
  have hnS : (V3.sub ⟨x2, y2, z2⟩ ⟨x1, y1, z1⟩).cross (V3.sub (⟨x3, y3, z3⟩ : V3 α) ⟨x1, y1, z1⟩) = n := by
    rw [← hn, ← hp1, ← hp2, ← hp3]
    simp only [V3.cross, V3.sub, V3.mk.injEq]
    refine ⟨by ring, by ring, by ring⟩
  have hspec : ∀ p, elemSense "p" [x1, y1, z1, x2, y2, z2, x3, y3, z3] p =
      some (smOf (if flip3 n (n.dot p1) then -(n.dot p - n.dot p1) else n.dot p - n.dot p1)) := by
    intro p
    rw [← hnS, ← hp1]
    rfl
  have hsq : (1 / s * n.x) * (1 / s * n.x) + (1 / s * n.y) * (1 / s * n.y) + (1 / s * n.z) * (1 / s * n.z) = 1 := by
    have : n.x * n.x + n.y * n.y + n.z * n.z = s * s := by rw [hss]; rfl
    have hs0 : s ≠ 0 := hs.ne'
    field_simp
    linear_combination this
  by_cases hf : flip3 n (n.dot p1) = true
  · have hcad : cadOf (0:α) 0 "p" [x1, y1, z1, x2, y2, z2, x3, y3, z3] =
        some (cadPlane4 (-(1 / s * n.x)) (-(1 / s * n.y)) (-(1 / s * n.z)) (-(1 / s * n.dot p1))) := by
      rw [hcadeq, hpf]; simp only [hf, if_true]
      exact planeCard_some ok _ _ _ _ (by rw [show (-(1 / s * n.x)) * (-(1 / s * n.x)) + (-(1 / s * n.y)) * (-(1 / s * n.y)) + (-(1 / s * n.z)) * (-(1 / s * n.z)) = 1 by linear_combination hsq]; exact one_pos)
    obtain ⟨t, hst, hsame⟩ := plane4_same ok (-(1 / s * n.x)) (-(1 / s * n.y)) (-(1 / s * n.z)) (-(1 / s * n.dot p1))
      (by rw [show (-(1 / s * n.x)) * (-(1 / s * n.x)) + (-(1 / s * n.y)) * (-(1 / s * n.y)) + (-(1 / s * n.z)) * (-(1 / s * n.z)) = 1 by linear_combination hsq]; exact one_pos)
    refine card_of_same _ hcad hst (same_scale hsame (1 / s) hc fun p => ?_) (fun p => by rw [hspec p])
    rw [if_pos hf]; simp only [V3.dot]; ring
  · have hcad : cadOf (0:α) 0 "p" [x1, y1, z1, x2, y2, z2, x3, y3, z3] =
        some (cadPlane4 (1 / s * n.x) (1 / s * n.y) (1 / s * n.z) (1 / s * n.dot p1)) := by
      rw [hcadeq, hpf]; simp only [hf, Bool.false_eq_true, if_false]
      exact planeCard_some ok _ _ _ _ (by rw [hsq]; exact one_pos)
    obtain ⟨t, hst, hsame⟩ := plane4_same ok (1 / s * n.x) (1 / s * n.y) (1 / s * n.z) (1 / s * n.dot p1)
      (by rw [hsq]; exact one_pos)
    refine card_of_same _ hcad hst (same_scale hsame (1 / s) hc fun p => ?_) (fun p => by rw [hspec p])
    rw [if_neg hf]; simp only [V3.dot]; ring

/-- **finding F14** (kept as a theorem about the model, replayed on the code by the `probe` stream):
an SQ card whose constant term is positive is emitted with the opposite orientation -/
theorem sq_positive_centre_is_reversed (a b c d e f g x y z : α) (hg : 0 < g) :
    ∃ t, convertSQ [a, b, c, d, e, f, g, x, y, z] = some t ∧
      ∀ p, t.f p = some (-(a * sq (p.x - x) + b * sq (p.y - y) + c * sq (p.z - z)
        + two * d * (p.x - x) + two * e * (p.y - y) + two * f * (p.z - z) + g)) :=
  sq_positive_centre_reversed a b c d e f g x y z hg

/-- the hypotheses on the transcendental functions hold of ℝ, and the card table is inhabited -/
example : Converted (0:ℝ) 0 "k/z" [1, 2, 3, 4, -1] :=
  elementary_card transcOK_real (Admissible.kz_1 1 2 3 4 (-1) (by norm_num) (Or.inr rfl))

end T4V.C02
