import T4V.Text.NormFloat
import T4V.Proofs.GeomComp
import T4V.Props.C05
import T4V.Props.C10
import Mathlib.Data.List.Nodup
import Mathlib.Tactic.Ring
import Mathlib.Tactic.NormNum
import Mathlib.Tactic.Conv
/-!
# Property C09 — density spellings (the `normalize_float` part)

Model: `T4V.Text.NormFloat`.  The ownership part of C09 (the composition is that of the leaf cell of
the universe hierarchy) is carried by the point monitor and by the FILL theorems of C05.
-/
namespace T4V.C09
open T4V

theorem takeWhile_append_stop' {p : Char → Bool} : ∀ (ds rest : List Char),
    (∀ c ∈ ds, p c = true) → (∀ c r, rest = c :: r → p c = false) →
    (ds ++ rest).takeWhile p = ds ∧ (ds ++ rest).dropWhile p = rest
  | [], rest, _, hr => by
      cases rest with
      | nil => simp
      | cons c r => simp [hr c r rfl]
  | d :: ds, rest, hd, hr => by
      have h1 : p d = true := hd d (by simp)
      have := takeWhile_append_stop' ds rest (fun c hc => hd c (by simp [hc])) hr
      simp [h1, this.1, this.2]

/-- a plain decimal literal: optional sign, integer digits, point, fraction digits -/
structure PlainDec where
  sign : Option Char
  ip : List Char
  fp : List Char

def PlainDec.WF (d : PlainDec) : Prop :=
  (∀ c, d.sign = some c → isSign c = true) ∧ (∀ c ∈ d.ip, isDig c = true) ∧ (∀ c ∈ d.fp, isDig c = true)

def PlainDec.chars (d : PlainDec) : List Char :=
  (match d.sign with | some c => [c] | none => []) ++ d.ip ++ '.' :: d.fp

theorem stripZerosR_append_zeros (l : List Char) (k : Nat) :
    stripZerosR (l ++ List.replicate k '0') = stripZerosR l := by
  unfold stripZerosR
  rw [List.reverse_append, List.reverse_replicate]
  have : ∀ (k : Nat) (r : List Char), (List.replicate k '0' ++ r).dropWhile (· == '0') = r.dropWhile (· == '0') := by
    intro k
    induction k with
    | zero => intro r; rfl
    | succ k ih => intro r; simp [List.replicate_succ, ih]
  rw [this]

theorem digit_not_sign (c : Char) (h : isDig c = true) : isSign c = false := by
  unfold isSign
  unfold isDig Char.isDigit at h
  have h1 : c ≠ '-' := by intro e; subst e; simp at h
  have h2 : c ≠ '+' := by intro e; subst e; simp at h
  simp [h1, h2]

theorem splitSign_chars (d : PlainDec) (hw : d.WF) :
    splitSign d.chars = ((match d.sign with | some c => [c] | none => []), d.ip ++ '.' :: d.fp) := by
  obtain ⟨hs, hi, _⟩ := hw
  unfold PlainDec.chars
  cases hsg : d.sign with
  | some c =>
    have := hs c hsg
    simp [splitSign, this]
  | none =>
    simp only [List.nil_append]
    cases hip : d.ip with
    | nil => simp [splitSign, isSign]
    | cons a r =>
      have : isSign a = false := digit_not_sign a (hi a (by simp [hip]))
      simp [splitSign, this]

/-- what the first pass of `normalize_float` does to a plain decimal -/
theorem nfStripZeros_plain (d : PlainDec) (hw : d.WF) :
    nfStripZeros d.chars =
      if d.fp.getLast? = some '0' then
        (match d.sign with | some c => [c] | none => []) ++ d.ip ++ ['.'] ++ stripZerosR d.fp
      else d.chars := by
  unfold nfStripZeros
  rw [splitSign_chars d hw]
  obtain ⟨_, hi, hf⟩ := hw
  have ht := takeWhile_append_stop' (p := isDig) d.ip ('.' :: d.fp) hi
    (by intro c r h; simp at h; obtain ⟨rfl, _⟩ := h; decide)
  simp only [ht.1, ht.2]
  have hall : d.fp.all isDig = true := by simpa [List.all_eq_true] using hf
  simp only [hall, Bool.true_and]
  by_cases hl : d.fp.getLast? = some '0'
  · simp [hl]
  · simp [hl]

/-- **Trailing zeros of the fractional part are immaterial**: `1.50`, `1.500`, … are normalised like
`1.5`, and `1.`, `1.0`, `1.00` alike (for any sign, any digits). -/
theorem trailing_zeros_immaterial (d : PlainDec) (hw : d.WF) (k : Nat) :
    normalizeFloat ({ d with fp := d.fp ++ List.replicate k '0' } : PlainDec).chars = normalizeFloat d.chars := by
  have hw' : ({ d with fp := d.fp ++ List.replicate k '0' } : PlainDec).WF := by
    refine ⟨hw.1, hw.2.1, ?_⟩
    intro c hc
    simp only [List.mem_append, List.mem_replicate] at hc
    rcases hc with hc | ⟨_, rfl⟩
    · exact hw.2.2 c hc
    · decide
  have e1 := nfStripZeros_plain _ hw'
  have e2 := nfStripZeros_plain d hw
  suffices h : nfStripZeros ({ d with fp := d.fp ++ List.replicate k '0' } : PlainDec).chars = nfStripZeros d.chars by
    unfold normalizeFloat; rw [h]
  rw [e1, e2]
  simp only [stripZerosR_append_zeros]
  cases k with
  | zero => simp
  | succ k =>
    have hlast : (d.fp ++ List.replicate (k + 1) '0').getLast? = some '0' := by
      simp [List.getLast?_append, List.replicate_succ']
    simp only [hlast, if_true]
    by_cases hl : d.fp.getLast? = some '0'
    · simp [hl]
    · simp only [hl, if_false]
      -- fp has no trailing zero: stripping gives fp back
      have hs : stripZerosR d.fp = d.fp := by
        unfold stripZerosR
        cases hr : d.fp.reverse with
        | nil =>
          have : d.fp = [] := by simpa using hr
          simp [this]
        | cons a r =>
          have ha : d.fp.getLast? = some a := by
            have : d.fp = (a :: r).reverse := by rw [← hr]; simp
            rw [this]; simp
          have hne : a ≠ '0' := by intro e; subst e; exact hl ha
          have : ((a :: r).dropWhile (· == '0')) = a :: r := by simp [hne]
          rw [this, ← hr]; simp
      rw [hs]
      simp [PlainDec.chars]

/-- every exponent marker is written `e` in the normal form -/
theorem markers_normalised (s : List Char) : ∀ c ∈ nfMarkers s, c ≠ 'E' ∧ c ≠ 'd' ∧ c ≠ 'D' := by
  intro c hc
  simp only [nfMarkers, List.mem_map] at hc
  obtain ⟨a, _, rfl⟩ := hc
  by_cases h : (a == 'E' || a == 'd' || a == 'D') = true
  · simp [h]
  · simp only [h, if_false]
    simp only [Bool.or_eq_true, beq_iff_eq, not_or] at h
    exact ⟨h.1.1, h.1.2, h.2⟩

example : normalizeFloat "-1.00".toList = "-1.0".toList := by decide
example : normalizeFloat "-2.7e0".toList = "-2.7e0".toList := by decide
example : normalizeFloat "6.40875-2".toList = "6.40875e-2".toList := by decide
example : normalizeFloat "1.23000".toList = "1.23".toList := by decide
example : normalizeFloat "-5D4".toList = "-5e4".toList := by decide

/-! ### the key of a plain decimal, and what number it stands for -/

/-- the fraction digits the key keeps: trailing zeros stripped, a lone `0` if nothing is left -/
def keyFrac (fp : List Char) : List Char := if stripZerosR fp = [] then ['0'] else stripZerosR fp

def signChars (d : PlainDec) : List Char := match d.sign with | some c => [c] | none => []

theorem stripZerosR_digits (fp : List Char) (h : ∀ c ∈ fp, isDig c = true) : ∀ c ∈ stripZerosR fp, isDig c = true := by
  intro c hc
  unfold stripZerosR at hc
  have : c ∈ fp.reverse := List.dropWhile_subset _ (by simpa using hc)
  exact h c (by simpa using this)

theorem stripZerosR_decomp (fp : List Char) : ∃ k, fp = stripZerosR fp ++ List.replicate k '0' := by
  unfold stripZerosR
  have key : ∀ l : List Char, ∃ k, l = List.replicate k '0' ++ l.dropWhile (· == '0') := by
    intro l
    induction l with
    | nil => exact ⟨0, rfl⟩
    | cons a r ih =>
      by_cases ha : (a == '0') = true
      · obtain ⟨k, hk⟩ := ih
        have : a = '0' := by simpa using ha
        exact ⟨k + 1, by simp only [List.dropWhile_cons, ha, if_true, List.replicate_succ, List.cons_append]; rw [← hk, this]⟩
      · exact ⟨0, by simp [ha]⟩
  obtain ⟨k, hk⟩ := key fp.reverse
  refine ⟨k, ?_⟩
  have := congrArg List.reverse hk
  simpa [List.reverse_append] using this

theorem stripZerosR_last (fp : List Char) : (stripZerosR fp).getLast? ≠ some '0' := by
  unfold stripZerosR
  rw [List.getLast?_reverse]
  cases h : fp.reverse.dropWhile (· == '0') with
  | nil => simp
  | cons a r =>
    have := List.head?_dropWhile_not (· == '0') fp.reverse
    simp only [h, List.head?_cons, Option.all_some] at this
    simp only [List.head?_cons, ne_eq, Option.some.injEq]
    intro e; subst e; simp at this

theorem not_marker_of_dig (c : Char) (h : isDig c = true) : (c == 'E' || c == 'd' || c == 'D') = false := by
  unfold isDig Char.isDigit at h
  have h1 : c ≠ 'E' := by intro e; subst e; simp at h
  have h2 : c ≠ 'd' := by intro e; subst e; simp at h
  have h3 : c ≠ 'D' := by intro e; subst e; simp at h
  simp [h1, h2, h3]
theorem stripZerosR_noop (fp : List Char) (h : fp.getLast? ≠ some '0') : stripZerosR fp = fp := by
  unfold stripZerosR
  cases hr : fp.reverse with
  | nil =>
    have : fp = [] := by simpa using hr
    simp [this]
  | cons a r =>
    have ha : fp.getLast? = some a := by
      have : fp = (a :: r).reverse := by rw [← hr]; simp
      rw [this]; simp
    have hne : a ≠ '0' := by intro e; subst e; exact h ha
    have : ((a :: r).dropWhile (· == '0')) = a :: r := by simp [hne]
    rw [this, ← hr]; simp

/-- the canonical plain decimal a key stands for -/
def keyDec (d : PlainDec) : PlainDec := { d with fp := keyFrac d.fp }

theorem keyDec_WF (d : PlainDec) (hw : d.WF) : (keyDec d).WF := by
  refine ⟨hw.1, hw.2.1, ?_⟩
  intro c hc
  simp only [keyDec, keyFrac] at hc
  split at hc
  · simp at hc; subst hc; decide
  · exact stripZerosR_digits d.fp hw.2.2 c hc

theorem chars_eq (d : PlainDec) : d.chars = signChars d ++ d.ip ++ '.' :: d.fp := by
  unfold PlainDec.chars signChars; cases d.sign <;> rfl

theorem getLast_dot (pre fp : List Char) (hf : ∀ c ∈ fp, isDig c = true) :
    (pre ++ '.' :: fp).getLast? = some '.' ↔ fp = [] := by
  constructor
  · intro h
    cases hr : fp.reverse with
    | nil => simpa using hr
    | cons a r =>
      exfalso
      have hfp : fp = r.reverse ++ [a] := by
        have := congrArg List.reverse hr; simpa using this
      rw [hfp] at h
      have : (pre ++ '.' :: (r.reverse ++ [a])).getLast? = some a := by
        rw [show pre ++ '.' :: (r.reverse ++ [a]) = (pre ++ '.' :: r.reverse) ++ [a] by simp]
        exact List.getLast?_concat
      rw [this] at h
      have ha : a = '.' := by simpa using h
      have := hf a (by rw [hfp]; simp)
      rw [ha] at this
      simp [isDig, Char.isDigit] at this
  · intro h; subst h; simp

theorem pass12_plain (d : PlainDec) (hw : d.WF) : nfPointZero (nfStripZeros d.chars) = (keyDec d).chars := by
  have h1 : nfStripZeros d.chars = signChars d ++ d.ip ++ '.' :: stripZerosR d.fp := by
    rw [nfStripZeros_plain d hw, chars_eq]
    unfold signChars
    by_cases hl : d.fp.getLast? = some '0'
    · cases d.sign <;> simp [hl]
    · cases d.sign <;> simp [hl, stripZerosR_noop d.fp hl]
  rw [h1, chars_eq]
  unfold nfPointZero
  simp only [keyDec, keyFrac]
  have hd := stripZerosR_digits d.fp hw.2.2
  have hsg : signChars (⟨d.sign, d.ip, if stripZerosR d.fp = [] then ['0'] else stripZerosR d.fp⟩ : PlainDec) = signChars d := rfl
  rw [hsg]
  by_cases he : stripZerosR d.fp = []
  · have := (getLast_dot (signChars d ++ d.ip) (stripZerosR d.fp) hd).mpr he
    rw [he] at this
    simp only [List.append_assoc] at this
    simp only [beq_iff_eq, he, List.append_assoc, List.cons_append, List.nil_append, this, if_true]
  · have := mt (getLast_dot (signChars d ++ d.ip) (stripZerosR d.fp) hd).mp he
    simp only [List.append_assoc] at this ⊢
    simp only [beq_iff_eq, this, if_false, he]
theorem takeWhile_all {p : Char → Bool} (l : List Char) (h : ∀ c ∈ l, p c = true) :
    l.takeWhile p = l ∧ l.dropWhile p = [] := by
  induction l with
  | nil => simp
  | cons a r ih =>
    have ha := h a (by simp)
    have := ih (fun c hc => h c (by simp [hc]))
    simp [ha, this.1, this.2]

theorem nfInsertE_plain (d : PlainDec) (hw : d.WF) (hne : d.fp ≠ []) : nfInsertE d.chars = d.chars := by
  unfold nfInsertE
  rw [splitSign_chars d hw]
  have ht := takeWhile_append_stop' (p := isDig) d.ip ('.' :: d.fp) hw.2.1
    (by intro c r h; simp at h; obtain ⟨rfl, _⟩ := h; decide)
  have hf := takeWhile_all (p := isDig) d.fp hw.2.2
  simp only [ht.1, ht.2, hf.1, hf.2]
  have : d.fp.isEmpty = false := by simpa using hne
  simp [this]

theorem nfMarkers_plain (d : PlainDec) (hw : d.WF) : nfMarkers d.chars = d.chars := by
  unfold nfMarkers
  have : ∀ c ∈ d.chars, (c == 'E' || c == 'd' || c == 'D') = false := by
    intro c hc
    rw [chars_eq] at hc
    simp only [List.mem_append, List.mem_cons] at hc
    rcases hc with (hc | hc) | hc | hc
    · unfold signChars at hc
      cases hs : d.sign with
      | none => simp [hs] at hc
      | some sg =>
        simp [hs] at hc
        have := hw.1 sg hs
        rw [← hc] at this
        unfold isSign at this
        simp only [Bool.or_eq_true, beq_iff_eq] at this
        rcases this with h | h <;> (subst h; decide)
    · exact not_marker_of_dig c (hw.2.1 c hc)
    · subst hc; decide
    · exact not_marker_of_dig c (hw.2.2 c hc)
  calc d.chars.map (fun c => if (c == 'E' || c == 'd' || c == 'D') = true then 'e' else c)
      = d.chars.map id := List.map_congr_left (fun c hc => by simp [this c hc])
    _ = d.chars := by simp

/-- **the key of a plain decimal**: sign and integer digits as written, the fraction without its trailing
zeros (a lone 0 if nothing is left) -/
theorem normalizeFloat_plain (d : PlainDec) (hw : d.WF) : normalizeFloat d.chars = (keyDec d).chars := by
  unfold normalizeFloat
  rw [pass12_plain d hw]
  have hw' := keyDec_WF d hw
  have hne : (keyDec d).fp ≠ [] := by
    simp only [keyDec, keyFrac]; split <;> simp_all
  rw [nfInsertE_plain _ hw' hne, nfMarkers_plain _ hw']
theorem chars_injective (d1 d2 : PlainDec) (h1 : d1.WF) (h2 : d2.WF) (h : d1.chars = d2.chars) :
    d1.sign = d2.sign ∧ d1.ip = d2.ip ∧ d1.fp = d2.fp := by
  have s1 := splitSign_chars d1 h1
  have s2 := splitSign_chars d2 h2
  rw [h, s2] at s1
  simp only [Prod.mk.injEq] at s1
  obtain ⟨hs, hr⟩ := s1
  have hsign : d1.sign = d2.sign := by
    cases e1 : d1.sign <;> cases e2 : d2.sign <;> simp [e1, e2] at hs ⊢
    exact hs.symm
  have t1 := takeWhile_append_stop' (p := isDig) d1.ip ('.' :: d1.fp) h1.2.1
    (by intro c r h; simp at h; obtain ⟨rfl, _⟩ := h; decide)
  have t2 := takeWhile_append_stop' (p := isDig) d2.ip ('.' :: d2.fp) h2.2.1
    (by intro c r h; simp at h; obtain ⟨rfl, _⟩ := h; decide)
  rw [hr] at t2
  have hip : d1.ip = d2.ip := t1.1.symm.trans t2.1 |>.symm |>.symm
  have hfp : '.' :: d1.fp = '.' :: d2.fp := t1.2.symm.trans t2.2
  exact ⟨hsign, by rw [← t1.1, t2.1], by simpa using hfp⟩
theorem digitsNat_append (a b : List Char) : digitsNat (a ++ b) = digitsNat a * 10 ^ b.length + digitsNat b := by
  unfold digitsNat
  rw [List.foldl_append]
  generalize List.foldl (fun a d => a * 10 + (d.toNat - '0'.toNat)) 0 a = n
  induction b generalizing n with
  | nil => simp
  | cons c r ih =>
    simp only [List.foldl_cons, List.length_cons]
    rw [ih, ih (0 * 10 + (c.toNat - '0'.toNat))]
    simp only [Nat.zero_mul, Nat.zero_add, Nat.pow_succ]
    rw [Nat.add_mul, Nat.add_assoc]
    congr 1
    rw [Nat.mul_assoc, Nat.mul_comm 10]

theorem digitsNat_zeros (k : Nat) : digitsNat (List.replicate k '0') = 0 := by
  induction k with
  | zero => rfl
  | succ k ih =>
    rw [List.replicate_succ', digitsNat_append, ih]
    rfl

/-- numerator and number of fraction digits: the literal denotes `num / 10^den` -/
def decValue (d : PlainDec) : Int × Nat :=
  ((if d.sign = some '-' then -(digitsNat (d.ip ++ d.fp) : Int) else (digitsNat (d.ip ++ d.fp) : Int)), d.fp.length)

/-- `a.1 / 10^a.2 = b.1 / 10^b.2` -/
def sameValue (a b : Int × Nat) : Prop := a.1 * (10:Int) ^ b.2 = b.1 * (10:Int) ^ a.2

theorem sameValue_symm {a b : Int × Nat} (h : sameValue a b) : sameValue b a := h.symm

theorem sameValue_trans {a b c : Int × Nat} (h1 : sameValue a b) (h2 : sameValue b c) : sameValue a c := by
  unfold sameValue at *
  have hpos : ((10:Int) ^ b.2) ≠ 0 := by
    apply Int.ne_of_gt; exact Int.pow_pos (by decide)
  apply Int.eq_of_mul_eq_mul_right hpos
  calc a.1 * 10 ^ c.2 * 10 ^ b.2 = (a.1 * 10 ^ b.2) * 10 ^ c.2 := by
        rw [Int.mul_assoc, Int.mul_comm (10 ^ c.2), ← Int.mul_assoc]
    _ = (b.1 * 10 ^ a.2) * 10 ^ c.2 := by rw [h1]
    _ = (b.1 * 10 ^ c.2) * 10 ^ a.2 := by
        rw [Int.mul_assoc, Int.mul_comm (10 ^ a.2), ← Int.mul_assoc]
    _ = (c.1 * 10 ^ b.2) * 10 ^ a.2 := by rw [h2]
    _ = c.1 * 10 ^ a.2 * 10 ^ b.2 := by
        rw [Int.mul_assoc, Int.mul_comm (10 ^ b.2), ← Int.mul_assoc]

/-- the key denotes the same number as the literal -/
theorem key_keeps_value (d : PlainDec) : sameValue (decValue d) (decValue (keyDec d)) := by
  obtain ⟨k, hk⟩ := stripZerosR_decomp d.fp
  have hnum : digitsNat (d.ip ++ d.fp) = digitsNat (d.ip ++ stripZerosR d.fp) * 10 ^ k := by
    conv_lhs => rw [hk]
    rw [← List.append_assoc, digitsNat_append, digitsNat_zeros]
    simp
  have hlen : d.fp.length = (stripZerosR d.fp).length + k := by
    conv_lhs => rw [hk]
    simp
  unfold sameValue decValue keyDec keyFrac
  by_cases he : stripZerosR d.fp = []
  · simp only [he, if_true, List.length_cons, List.length_nil]
    have hn0 : digitsNat (d.ip ++ ['0']) = digitsNat d.ip * 10 := by
      rw [digitsNat_append]; simp [digitsNat]
    rw [he] at hnum hlen
    simp only [List.append_nil, List.length_nil, Nat.zero_add] at hnum hlen
    rw [hnum, hn0, hlen]
    by_cases hs : d.sign = some '-'
    · simp only [hs, if_true]; push_cast; ring
    · simp only [hs, if_false]; push_cast; ring
  · simp only [he, if_false]
    rw [hnum, hlen]
    by_cases hs : d.sign = some '-'
    · simp only [hs, if_true]; push_cast; ring
    · simp only [hs, if_false]; push_cast; ring

/-- **cells whose densities get the same key have numerically equal densities** (plain decimals of any length):
so numerically different densities never share a composition -/
theorem same_key_same_value (d1 d2 : PlainDec) (h1 : d1.WF) (h2 : d2.WF)
    (h : normalizeFloat d1.chars = normalizeFloat d2.chars) : sameValue (decValue d1) (decValue d2) := by
  rw [normalizeFloat_plain d1 h1, normalizeFloat_plain d2 h2] at h
  obtain ⟨hs, hi, hf⟩ := chars_injective _ _ (keyDec_WF d1 h1) (keyDec_WF d2 h2) h
  have hk : decValue (keyDec d1) = decValue (keyDec d2) := by
    unfold decValue; rw [hs, hi, hf]
  exact sameValue_trans (key_keeps_value d1) (hk ▸ sameValue_symm (key_keeps_value d2))


/-! ### literals with an exponent part -/

/-- a literal with an exponent part: mantissa sign, integer digits, optional point + fraction digits, exponent marker
(`e E d D`, or none before a signed exponent), exponent sign, exponent digits -/
structure ExpLit where
  sign : Option Char
  ip : List Char
  fp : List Char
  hasPoint : Bool
  marker : Option Char
  esign : Option Char
  ed : List Char

def isMarker (c : Char) : Bool := c == 'e' || c == 'E' || c == 'd' || c == 'D'

def ExpLit.WF (l : ExpLit) : Prop :=
  (∀ c, l.sign = some c → isSign c = true) ∧ (∀ c, l.esign = some c → isSign c = true) ∧
  (∀ c ∈ l.ip, isDig c = true) ∧ (∀ c ∈ l.fp, isDig c = true) ∧ (∀ c ∈ l.ed, isDig c = true) ∧ l.ed ≠ [] ∧
  (l.ip ≠ [] ∨ l.fp ≠ []) ∧ (l.hasPoint = false → l.fp = []) ∧ (∀ c, l.marker = some c → isMarker c = true) ∧
  (l.marker = none → l.esign ≠ none)

def optC (o : Option Char) : List Char := match o with | some c => [c] | none => []

def ExpLit.mant (l : ExpLit) : List Char := l.ip ++ (if l.hasPoint then '.' :: l.fp else [])
def ExpLit.tail (l : ExpLit) : List Char := optC l.marker ++ optC l.esign ++ l.ed
def ExpLit.chars (l : ExpLit) : List Char := optC l.sign ++ l.mant ++ l.tail

theorem marker_props (c : Char) (h : isMarker c = true) : isDig c = false ∧ isSign c = false ∧ (c == '.') = false := by
  simp only [isMarker, Bool.or_eq_true, beq_iff_eq] at h
  rcases h with ((rfl | rfl) | rfl) | rfl <;> decide

theorem sign_props (c : Char) (h : isSign c = true) : isDig c = false ∧ (c == '.') = false ∧ isMarker c = false := by
  simp only [isSign, Bool.or_eq_true, beq_iff_eq] at h
  rcases h with rfl | rfl <;> decide

theorem dig_props (c : Char) (h : isDig c = true) : isSign c = false ∧ (c == '.') = false ∧ isMarker c = false := by
  refine ⟨digit_not_sign c h, ?_, ?_⟩
  · cases hc : (c == '.') with
    | false => rfl
    | true => rw [beq_iff_eq.mp hc] at h; exact absurd h (by decide)
  · cases hm : isMarker c with
    | false => rfl
    | true => rw [(marker_props c hm).1] at h; cases h

/-- the tail (marker, exponent sign, exponent digits) starts with a character that is not a digit -/
theorem tail_head (l : ExpLit) (hw : l.WF) : ∃ c r, l.tail = c :: r ∧ isDig c = false ∧ (c == '.') = false := by
  obtain ⟨_, hes, _, _, _, hne, _, _, hm, hmn⟩ := hw
  unfold ExpLit.tail
  cases hmk : l.marker with
  | some m => exact ⟨m, _, rfl, (marker_props m (hm m hmk)).1, (marker_props m (hm m hmk)).2.2⟩
  | none =>
    cases hsg : l.esign with
    | none => exact absurd hsg (hmn hmk)
    | some s => exact ⟨s, _, rfl, (sign_props s (hes s hsg)).1, (sign_props s (hes s hsg)).2.1⟩

theorem splitSign_exp (l : ExpLit) (hw : l.WF) : splitSign l.chars = (optC l.sign, l.mant ++ l.tail) := by
  obtain ⟨hs, _, hi, hf, _, _, hne, hp, _, _⟩ := hw
  unfold ExpLit.chars
  cases hsg : l.sign with
  | some c => simp [optC, splitSign, hs c hsg]
  | none =>
    simp only [optC, List.nil_append]
    -- the first character of the mantissa is a digit or the point
    unfold ExpLit.mant
    cases hip : l.ip with
    | cons a r => simp [splitSign, digit_not_sign a (hi a (by simp [hip]))]
    | nil =>
      have hfp : l.fp ≠ [] := by rcases hne with h | h; exact absurd hip h; exact h
      have hpt : l.hasPoint = true := by
        cases h : l.hasPoint with
        | true => rfl
        | false => exact absurd (hp h) hfp
      simp [hpt, splitSign, isSign]

theorem mant_split (l : ExpLit) (hw : l.WF) :
    (l.mant ++ l.tail).takeWhile isDig = l.ip ∧
    (l.mant ++ l.tail).dropWhile isDig = (if l.hasPoint then '.' :: (l.fp ++ l.tail) else l.tail) := by
  obtain ⟨c, r, htl, hcd, _⟩ := tail_head l hw
  obtain ⟨_, _, hi, _, _, _, _, _, _, _⟩ := hw
  unfold ExpLit.mant
  cases hpt : l.hasPoint with
  | true =>
    simp only [if_true, List.append_assoc, List.cons_append]
    exact takeWhile_append_stop' l.ip _ hi (fun c' r' h => by injection h with h1 _; subst h1; decide)
  | false =>
    simp only [Bool.false_eq_true, if_false, List.append_nil]
    exact takeWhile_append_stop' l.ip _ hi (fun c' r' h => by rw [htl] at h; injection h with h1 _; subst h1; exact hcd)

theorem frac_split (l : ExpLit) (hw : l.WF) :
    (l.fp ++ l.tail).takeWhile isDig = l.fp ∧ (l.fp ++ l.tail).dropWhile isDig = l.tail := by
  obtain ⟨c, r, htl, hcd, _⟩ := tail_head l hw
  exact takeWhile_append_stop' l.fp _ hw.2.2.2.1 (fun c' r' h => by rw [htl] at h; injection h with h1 _; subst h1; exact hcd)

/-- pass 1 leaves a literal with an exponent alone -/
theorem nfStripZeros_exp (l : ExpLit) (hw : l.WF) : nfStripZeros l.chars = l.chars := by
  obtain ⟨c, r, htl, hcd, _⟩ := tail_head l hw
  unfold nfStripZeros
  rw [splitSign_exp l hw]
  simp only [(mant_split l hw).1, (mant_split l hw).2]
  cases hpt : l.hasPoint with
  | false =>
    simp only [Bool.false_eq_true, if_false]
    rw [htl]
    split
    · rename_i fp heq
      injection heq with h1 _
      subst h1
      simp at *
    · rfl
  | true =>
    simp only [if_true]
    have : (l.fp ++ l.tail).all isDig = false := by
      rw [htl, List.all_append]
      simp [hcd]
    simp [this]

theorem chars_last (l : ExpLit) (hw : l.WF) : ∃ d, l.chars.getLast? = some d ∧ isDig d = true := by
  obtain ⟨_, _, _, _, hed, hne, _⟩ := hw
  cases hl : l.ed.getLast? with
  | none => exact absurd (List.getLast?_eq_none_iff.mp hl) hne
  | some d =>
    refine ⟨d, ?_, hed d (List.mem_of_getLast? hl)⟩
    unfold ExpLit.chars ExpLit.tail
    simp [List.getLast?_append, hl]

theorem nfPointZero_exp (l : ExpLit) (hw : l.WF) : nfPointZero l.chars = l.chars := by
  obtain ⟨d, hd, hdd⟩ := chars_last l hw
  unfold nfPointZero
  rw [hd]
  have : d ≠ '.' := by intro h; subst h; exact absurd hdd (by decide)
  simp [this]

/-- the literal with the marker `e` written out -/
def ExpLit.withE (l : ExpLit) : ExpLit := { l with marker := some 'e' }

/-- pass 3: a bare signed exponent gets its `e`; a literal that has a marker is left alone -/
theorem nfInsertE_exp (l : ExpLit) (hw : l.WF) :
    nfInsertE l.chars = (match l.marker with | some _ => l.chars | none => l.withE.chars) := by
  obtain ⟨hs, hes, hi, hf, hed, hne, hmant, hp, hm, hmn⟩ := hw
  have hw' : l.WF := ⟨hs, hes, hi, hf, hed, hne, hmant, hp, hm, hmn⟩
  unfold nfInsertE
  rw [splitSign_exp l hw']
  simp only [(mant_split l hw').1, (mant_split l hw').2]
  have hnot : (l.ip.isEmpty && l.fp.isEmpty) = false := by
    rcases hmant with h | h
    · cases hh : l.ip with
      | nil => exact absurd hh h
      | cons a r => rfl
    · cases hh : l.fp with
      | nil => exact absurd hh h
      | cons a r => simp
  cases hpt : l.hasPoint with
  | true =>
    simp only [if_true, (frac_split l hw').1, (frac_split l hw').2, hnot, Bool.false_eq_true, if_false]
    cases hmk : l.marker with
    | some m =>
      have hmm := marker_props m (hm m hmk)
      simp [ExpLit.tail, hmk, optC, hmm.2.1]
    | none =>
      cases hsg : l.esign with
      | none => exact absurd hsg (hmn hmk)
      | some c =>
        have hc := hes c hsg
        have hall : l.ed.all isDig = true := List.all_eq_true.mpr hed
        have hemp : l.ed.isEmpty = false := by cases hh : l.ed with | nil => exact absurd hh hne | cons a r => rfl
        simp [ExpLit.tail, hmk, hsg, optC, hc, hall, hemp, ExpLit.withE, ExpLit.chars, ExpLit.mant, hpt]
  | false =>
    have hfp : l.fp = [] := hp hpt
    obtain ⟨c0, r0, htl, hcd, hcp⟩ := tail_head l hw'
    have hnot' : (l.ip.isEmpty && ([] : List Char).isEmpty) = false := by rw [hfp] at hnot; exact hnot
    have hipne : ¬ l.ip = [] := by
      intro h; rw [h] at hnot'; simp at hnot'
    simp only [Bool.false_eq_true, if_false]
    cases hmk : l.marker with
    | some m =>
      have hmm := hm m hmk
      simp only [isMarker, Bool.or_eq_true, beq_iff_eq] at hmm
      rcases hmm with ((rfl | rfl) | rfl) | rfl <;>
        simp [ExpLit.tail, hmk, optC, hnot', isSign, hipne]
    | none =>
      cases hsg : l.esign with
      | none => exact absurd hsg (hmn hmk)
      | some c =>
        have hc := hes c hsg
        have hall : l.ed.all isDig = true := List.all_eq_true.mpr hed
        have hemp : l.ed.isEmpty = false := by cases hh : l.ed with | nil => exact absurd hh hne | cons a r => rfl
        simp only [isSign, Bool.or_eq_true, beq_iff_eq] at hc
        rcases hc with rfl | rfl <;>
          simp [ExpLit.tail, hmk, hsg, optC, hnot', isSign, hall, hemp, ExpLit.withE, ExpLit.chars, ExpLit.mant, hpt, hipne]

theorem withE_WF (l : ExpLit) (hw : l.WF) : l.withE.WF := by
  obtain ⟨hs, hes, hi, hf, hed, hne, hmant, hp, hm, hmn⟩ := hw
  exact ⟨hs, hes, hi, hf, hed, hne, hmant, hp, fun c hc => by cases hc; decide, fun h => by cases h⟩

theorem nfMarkers_keep (l : List Char) (h : ∀ c ∈ l, isMarker c = false) : nfMarkers l = l := by
  unfold nfMarkers
  induction l with
  | nil => rfl
  | cons c r ih =>
    have hc := h c (by simp)
    have : (c == 'E' || c == 'd' || c == 'D') = false := by
      simp only [isMarker, Bool.or_eq_false_iff] at hc
      simp [hc.1.1.2, hc.1.2, hc.2]
    simp only [List.map_cons, this, Bool.false_eq_true, if_false]
    rw [ih (fun x hx => h x (by simp [hx]))]

/-- pass 4 on a literal with an exponent: the marker becomes `e`, nothing else changes -/
theorem nfMarkers_exp (l : ExpLit) (hw : l.WF) (hmk : l.marker ≠ none) : nfMarkers l.chars = l.withE.chars := by
  obtain ⟨hs, hes, hi, hf, hed, hne, hmant, hp, hm, hmn⟩ := hw
  have k1 : nfMarkers (optC l.sign) = optC l.sign := nfMarkers_keep _ (by
    intro c hc; cases hsg : l.sign with
    | none => simp [optC, hsg] at hc
    | some x => simp only [optC, hsg, List.mem_singleton] at hc; rw [hc]; exact (sign_props x (hs x hsg)).2.2)
  have k2 : nfMarkers l.mant = l.mant := nfMarkers_keep _ (by
    intro c hc
    unfold ExpLit.mant at hc
    rcases List.mem_append.mp hc with h | h
    · exact (dig_props c (hi c h)).2.2
    · cases hpt : l.hasPoint with
      | false => simp [hpt] at h
      | true =>
        simp only [hpt, if_true, List.mem_cons] at h
        rcases h with rfl | h
        · decide
        · exact (dig_props c (hf c h)).2.2)
  have k3 : nfMarkers (optC l.esign ++ l.ed) = optC l.esign ++ l.ed := nfMarkers_keep _ (by
    intro c hc
    rcases List.mem_append.mp hc with h | h
    · cases hsg : l.esign with
      | none => simp [optC, hsg] at h
      | some x => simp only [optC, hsg, List.mem_singleton] at h; rw [h]; exact (sign_props x (hes x hsg)).2.2
    · exact (dig_props c (hed c h)).2.2)
  have happ : ∀ a b : List Char, nfMarkers (a ++ b) = nfMarkers a ++ nfMarkers b := by
    intro a b; simp [nfMarkers]
  cases hmk' : l.marker with
  | none => exact absurd hmk' hmk
  | some m =>
    have hmm := hm m hmk'
    have km : nfMarkers [m] = ['e'] := by
      simp only [isMarker, Bool.or_eq_true, beq_iff_eq] at hmm
      rcases hmm with ((rfl | rfl) | rfl) | rfl <;> decide
    have km' : nfMarkers (optC (some m)) = optC (some 'e') := km
    have hmant' : ({ l with marker := some 'e' } : ExpLit).mant = l.mant := rfl
    unfold ExpLit.chars ExpLit.tail ExpLit.withE
    simp only [hmk', hmant']
    rw [happ, happ, k1, k2, List.append_assoc (optC (some m)), happ, km', k3, List.append_assoc (optC (some 'e'))]

/-- **`normalize_float` on a literal with an exponent**: the marker (`e`, `E`, `d`, `D` or none before a signed
exponent) becomes `e`; sign, digits, point, exponent sign and exponent digits are kept as written -/
theorem normalizeFloat_exp (l : ExpLit) (hw : l.WF) : normalizeFloat l.chars = l.withE.chars := by
  unfold normalizeFloat
  rw [nfStripZeros_exp l hw, nfPointZero_exp l hw, nfInsertE_exp l hw]
  cases hmk : l.marker with
  | some m => exact nfMarkers_exp l hw (by rw [hmk]; simp)
  | none =>
    have := nfMarkers_exp l.withE (withE_WF l hw) (by simp [ExpLit.withE])
    simpa [ExpLit.withE] using this

/-- what the literal denotes (the reading of `parseRealLit`, the spec of Fortran real literals) -/
def ExpLit.lit (l : ExpLit) : RealLit :=
  { neg := optC l.sign == ['-'], ip := l.ip, fp := l.fp, hasPoint := l.hasPoint,
    exp := some (optC l.esign == ['-'], l.ed), marker := l.marker }

theorem parse_exp (l : ExpLit) (hw : l.WF) : parseRealLit l.chars = some l.lit := by
  obtain ⟨hs, hes, hi, hf, hed, hne, hmant, hp, hm, hmn⟩ := hw
  have hw' : l.WF := ⟨hs, hes, hi, hf, hed, hne, hmant, hp, hm, hmn⟩
  have hnot : (l.ip.isEmpty && l.fp.isEmpty) = false := by
    rcases hmant with h | h
    · cases hh : l.ip with
      | nil => exact absurd hh h
      | cons a r => rfl
    · cases hh : l.fp with
      | nil => exact absurd hh h
      | cons a r => simp
  have hall : l.ed.all isDig = true := List.all_eq_true.mpr hed
  have hemp : l.ed.isEmpty = false := by cases hh : l.ed with | nil => exact absurd hh hne | cons a r => rfl
  -- the exponent digits do not start with a sign
  have hsplit : splitSign (optC l.esign ++ l.ed) = (optC l.esign, l.ed) := by
    cases hsg : l.esign with
    | some c => simp [optC, splitSign, hes c hsg]
    | none =>
      cases hh : l.ed with
      | nil => exact absurd hh hne
      | cons a r => simp [optC, splitSign, digit_not_sign a (hed a (by simp [hh]))]
  have hsplit' := hsplit
  simp only [optC] at hsplit'
  unfold parseRealLit
  rw [splitSign_exp l hw']
  simp only [(mant_split l hw').1, (mant_split l hw').2]
  cases hpt : l.hasPoint with
  | true =>
    simp only [if_true, (frac_split l hw').1, (frac_split l hw').2, hnot, Bool.false_eq_true, if_false]
    cases hmk : l.marker with
    | some m =>
      have hmm := hm m hmk
      simp only [isMarker, Bool.or_eq_true, beq_iff_eq] at hmm
      rcases hmm with ((rfl | rfl) | rfl) | rfl <;>
        simp [ExpLit.tail, hmk, optC, hsplit', hall, hemp, ExpLit.lit, hpt]
    | none =>
      cases hsg : l.esign with
      | none => exact absurd hsg (hmn hmk)
      | some c =>
        have hc := hes c hsg
        simp only [isSign, Bool.or_eq_true, beq_iff_eq] at hc
        rcases hc with rfl | rfl <;>
          simp [ExpLit.tail, hmk, hsg, optC, splitSign, isSign, hall, hemp, ExpLit.lit, hpt]
  | false =>
    have hfp : l.fp = [] := hp hpt
    have hipne : ¬ l.ip = [] := by
      intro h; rw [h, hfp] at hnot; simp at hnot
    simp only [Bool.false_eq_true, if_false]
    cases hmk : l.marker with
    | some m =>
      have hmm := hm m hmk
      simp only [isMarker, Bool.or_eq_true, beq_iff_eq] at hmm
      rcases hmm with ((rfl | rfl) | rfl) | rfl <;>
        simp [ExpLit.tail, hmk, optC, hsplit', hall, hemp, ExpLit.lit, hpt, hipne, hfp]
    | none =>
      cases hsg : l.esign with
      | none => exact absurd hsg (hmn hmk)
      | some c =>
        have hc := hes c hsg
        simp only [isSign, Bool.or_eq_true, beq_iff_eq] at hc
        rcases hc with rfl | rfl <;>
          simp [ExpLit.tail, hmk, hsg, optC, splitSign, isSign, hall, hemp, ExpLit.lit, hpt, hipne, hfp]

/-- **the key of a literal with an exponent denotes the same number**: both spellings are read (by the spec reader
`parseRealLit`) to the same mantissa, the same power of ten -/
theorem exp_key_keeps_value (l : ExpLit) (hw : l.WF) :
    ∃ a b, parseRealLit l.chars = some a ∧ parseRealLit (normalizeFloat l.chars) = some b ∧ a.value = b.value := by
  refine ⟨l.lit, l.withE.lit, parse_exp l hw, ?_, rfl⟩
  rw [normalizeFloat_exp l hw]
  exact parse_exp l.withE (withE_WF l hw)

/-- all marker spellings of one exponent literal share one key -/
theorem exp_markers_share_key (l : ExpLit) (hw : l.WF) (m : Option Char) (hm : ∀ c, m = some c → isMarker c = true)
    (hmn : m = none → l.esign ≠ none) :
    normalizeFloat ({ l with marker := m } : ExpLit).chars = normalizeFloat l.chars := by
  have hw2 : ({ l with marker := m } : ExpLit).WF := by
    obtain ⟨hs, hes, hi, hf, hed, hne, hmant, hp, _, _⟩ := hw
    exact ⟨hs, hes, hi, hf, hed, hne, hmant, hp, hm, hmn⟩
  rw [normalizeFloat_exp _ hw2, normalizeFloat_exp l hw]
  rfl

/-- non-vacuity: `-1.5d+2` -/
example : (⟨some '-', ['1'], ['5'], true, some 'd', some '+', ['2']⟩ : ExpLit).WF := by
  refine ⟨?_, ?_, ?_, ?_, ?_, ?_, ?_, ?_, ?_, ?_⟩ <;> simp [isSign, isDig, isMarker, Char.isDigit]
example : normalizeFloat "-1.5d+2".toList = "-1.5e+2".toList := by decide
/-! ### GEOMCOMP: which composition a volume is attached to (`constructGeomCompT4`, model `T4V.Model.GeomComp`)

`cells k` = (material number, density as normalised by `normalize_float`) of MCNP cell `k`; the name of a
composition is `m ++ "_" ++ density`, or `m` alone for a void cell.  A volume's *owner* is the first component of the
first pair of its provenance list — the cell at the bottom of the FILL chain (C05 `provenance`), the filler and not
the container — or the volume's own number when it has no provenance. -/

/-- **the GEOMCOMP block, name by name**: under a name are filed exactly the non-fictive volumes whose owner has that
material and density, in the order of the volume dictionary -/
theorem geomcomp_attachment (cells : Nat → Option GCell) (vols : List GVol) (gs : List (String × List Nat))
    (h : geomComp cells vols = some gs) (name : String) :
    filedUnder gs name = (vols.filter fun v => fileName cells v == some name).map (·.id) := by
  simpa [filedUnder] using geomCompFrom_spec cells vols [] gs h name

/-- every non-fictive volume is attached to the composition of its owner -/
theorem attached_to_owner (cells : Nat → Option GCell) (vols : List GVol) (gs : List (String × List Nat))
    (h : geomComp cells vols = some gs) (v : GVol) (hv : v ∈ vols) (hnf : v.fictive = false) :
    ∃ c, cells v.owner = some c ∧ v.id ∈ filedUnder gs (compName c) := by
  obtain ⟨c, hc⟩ := geomCompFrom_owner cells vols [] gs h v hv hnf
  refine ⟨c, hc, ?_⟩
  rw [geomcomp_attachment cells vols gs h]
  exact List.mem_map.mpr ⟨v, List.mem_filter.mpr ⟨hv, by simp [fileName, hnf, hc]⟩, rfl⟩

/-- nothing else is attached: a number filed under a name is a non-fictive volume whose owner has that name; so
fictive (virtual) volumes are attached to nothing -/
theorem attached_only_to_owner (cells : Nat → Option GCell) (vols : List GVol) (gs : List (String × List Nat))
    (h : geomComp cells vols = some gs) (name : String) (k : Nat) (hk : k ∈ filedUnder gs name) :
    ∃ v ∈ vols, v.id = k ∧ v.fictive = false ∧ (cells v.owner).map compName = some name := by
  rw [geomcomp_attachment cells vols gs h] at hk
  obtain ⟨v, hv, rfl⟩ := List.mem_map.mp hk
  obtain ⟨hv1, hv2⟩ := List.mem_filter.mp hv
  refine ⟨v, hv1, rfl, ?_⟩
  unfold fileName at hv2
  by_cases hf : v.fictive = true
  · simp [hf] at hv2
  · simp only [hf, Bool.false_eq_true, if_false, beq_iff_eq] at hv2
    exact ⟨by simpa using hf, hv2⟩

/-- one composition per volume: with distinct volume numbers, a volume is filed under one name only, once -/
theorem one_composition_per_volume (cells : Nat → Option GCell) (vols : List GVol) (gs : List (String × List Nat))
    (h : geomComp cells vols = some gs) (hnd : (vols.map (·.id)).Nodup) (n1 n2 : String) (k : Nat)
    (h1 : k ∈ filedUnder gs n1) (h2 : k ∈ filedUnder gs n2) : n1 = n2 ∧ (filedUnder gs n1).count k = 1 := by
  obtain ⟨v1, hv1, e1, -, hn1⟩ := attached_only_to_owner cells vols gs h n1 k h1
  obtain ⟨v2, hv2, e2, -, hn2⟩ := attached_only_to_owner cells vols gs h n2 k h2
  have hinj : ∀ a ∈ vols, ∀ b ∈ vols, a.id = b.id → a = b := fun a ha b hb hab =>
    List.inj_on_of_nodup_map hnd ha hb hab
  have : v1 = v2 := hinj v1 hv1 v2 hv2 (e1.trans e2.symm)
  subst this
  refine ⟨Option.some.inj (hn1.symm.trans hn2), ?_⟩
  rw [geomcomp_attachment cells vols gs h]
  have hsub : ((vols.filter fun v => fileName cells v == some n1).map (·.id)).Nodup :=
    (List.Nodup.sublist (List.Sublist.map _ List.filter_sublist) hnd)
  exact List.count_eq_one_of_mem hsub (by rw [← geomcomp_attachment cells vols gs h]; exact h1)

/-- **cells that share a material but differ in (normalised) density get different compositions, void cells the bare
material name**: the name determines material and density (material numbers contain no underscore) -/
theorem composition_name_determines_cell (c1 c2 : GCell) (h1 : '_' ∉ c1.mat.toList) (h2 : '_' ∉ c2.mat.toList)
    (h : compName c1 = compName c2) : c1 = c2 := compName_injective c1 c2 h1 h2 h

/-- the material and density of a volume made by `pot_fill` are those of the cell at the bottom of the chain (the
filler), whatever the containers carry: the leaf's `base` is an unfilled cell of the deck with that material and
density -/
theorem leaf_material_is_filler (cells : List FCell) (fuel : Nat) (c : FCell) (leaves : List FLeaf)
    (h : fillCells cells fuel c = some leaves) (l : FLeaf) (hl : l ∈ leaves) :
    ∃ b ∈ c :: cells, b.id = l.base ∧ b.fill = none ∧ l.mat = b.mat ∧ l.rho = b.rho :=
  (C05.provenance cells fuel c leaves h l hl).2.1

/-! ### the name GEOMCOMP files a volume under is a composition declared in COMPOSITION -/

theorem keyFrac_idem (fp : List Char) : keyFrac (keyFrac fp) = keyFrac fp := by
  unfold keyFrac
  by_cases h : stripZerosR fp = []
  · simp only [h, if_true]
    decide
  · simp only [h, if_false]
    have : stripZerosR (stripZerosR fp) = stripZerosR fp := stripZerosR_noop _ (stripZerosR_last fp)
    simp [this, h]

/-- `normalize_float` leaves its own results alone: plain decimals … -/
theorem normalizeFloat_idem_plain (d : PlainDec) (hw : d.WF) :
    normalizeFloat (normalizeFloat d.chars) = normalizeFloat d.chars := by
  rw [normalizeFloat_plain d hw, normalizeFloat_plain (keyDec d) (keyDec_WF d hw)]
  simp [keyDec, keyFrac_idem]

/-- … literals with an exponent … -/
theorem normalizeFloat_idem_exp (l : ExpLit) (hw : l.WF) :
    normalizeFloat (normalizeFloat l.chars) = normalizeFloat l.chars := by
  rw [normalizeFloat_exp l hw, normalizeFloat_exp l.withE (withE_WF l hw)]
  rfl

/-- … and integers (sign? digits), which it does not touch at all -/
theorem normalizeFloat_int (sg : Option Char) (ds : List Char) (hsg : ∀ c, sg = some c → isSign c = true)
    (hds : ∀ c ∈ ds, isDig c = true) (hne : ds ≠ []) : normalizeFloat (optC sg ++ ds) = optC sg ++ ds := by
  obtain ⟨d0, dr, rfl⟩ : ∃ a r, ds = a :: r := by cases ds with | nil => exact absurd rfl hne | cons a r => exact ⟨a, r, rfl⟩
  have hd0 : isDig d0 = true := hds d0 (by simp)
  have hss : splitSign (optC sg ++ d0 :: dr) = (optC sg, d0 :: dr) := by
    cases hs : sg with
    | some c => have := hsg c hs; simp [optC, splitSign, this]
    | none => simp [optC, splitSign, digit_not_sign d0 hd0]
  have htw := takeWhile_all (p := isDig) (d0 :: dr) hds
  have h1 : nfStripZeros (optC sg ++ d0 :: dr) = optC sg ++ d0 :: dr := by
    unfold nfStripZeros
    rw [hss]
    simp only [htw.2]
  have hlast : ∃ z, (optC sg ++ d0 :: dr).getLast? = some z ∧ isDig z = true := by
    have : (optC sg ++ d0 :: dr).getLast? = (d0 :: dr).getLast? := by
      rw [List.getLast?_append]
      cases hl : (d0 :: dr).getLast? with
      | none => simp at hl
      | some z => rfl
    rw [this]
    cases hl : (d0 :: dr).getLast? with
    | none => simp at hl
    | some z => exact ⟨z, rfl, hds z (List.mem_of_getLast? hl)⟩
  have h2 : nfPointZero (optC sg ++ d0 :: dr) = optC sg ++ d0 :: dr := by
    unfold nfPointZero
    obtain ⟨z, hz, hzd⟩ := hlast
    have : z ≠ '.' := by intro e; subst e; exact absurd hzd (by decide)
    simp [hz, this]
  have h3 : nfInsertE (optC sg ++ d0 :: dr) = optC sg ++ d0 :: dr := by
    unfold nfInsertE
    rw [hss]
    simp only [htw.1, htw.2]
    simp
  have h4 : nfMarkers (optC sg ++ d0 :: dr) = optC sg ++ d0 :: dr := by
    apply nfMarkers_keep
    intro c hc
    rcases List.mem_append.mp hc with h | h
    · cases hs : sg with
      | none => simp [optC, hs] at h
      | some c0 =>
        simp only [optC, hs, List.mem_singleton] at h; subst h
        exact (sign_props c (hsg c hs)).2.2
    · exact (dig_props c (hds c h)).2.2
  unfold normalizeFloat
  rw [h1, h2, h3, h4]

/-- a density literal as the cell parser hands it on: `normalize_float` of a plain decimal or of a literal with an
exponent, or an integer -/
inductive Normalised : List Char → Prop
  | plain (d : PlainDec) (hw : d.WF) : Normalised (normalizeFloat d.chars)
  | exp (l : ExpLit) (hw : l.WF) : Normalised (normalizeFloat l.chars)
  | int (sg : Option Char) (ds : List Char) (hsg : ∀ c, sg = some c → isSign c = true)
      (hds : ∀ c ∈ ds, isDig c = true) (hne : ds ≠ []) : Normalised (optC sg ++ ds)

theorem normalised_fixed (x : List Char) (h : Normalised x) : normalizeFloat x = x := by
  cases h with
  | plain d hw => exact normalizeFloat_idem_plain d hw
  | exp l hw => exact normalizeFloat_idem_exp l hw
  | int sg ds hsg hds hne => exact normalizeFloat_int sg ds hsg hds hne

open T4V.CM in
/-- **the name GEOMCOMP uses is declared in COMPOSITION**: GEOMCOMP files the volumes of a cell under
`m<material>_<density>`, the density as the cell parser normalised it; for every live cell that uses a material with a
card, the COMPOSITION block built from the same cells has a composition of exactly that name (`normalize_float` is
applied once more there, and leaves a normalised literal alone) -/
theorem geomcomp_name_is_declared (key : Nat) (ab : Abund) (cells : List CCell) (cs : List Comp)
    (h : compsOf key ab cells [] = .ok cs) (cell : CCell) (hc : cell ∈ cells) (hl : cell.live = true)
    (hm : cell.mat = key) (hn : Normalised cell.density) :
    ∃ c ∈ cs, c.name ++ "_" ++ String.ofList c.density = "m" ++ toString key ++ "_" ++ String.ofList cell.density := by
  obtain ⟨c, hcm, hname, hdens⟩ := C10.every_used_density_has_a_composition key ab cells [] cs h cell hc hl hm (by simp)
  exact ⟨c, hcm, by rw [hname, hdens, normalised_fixed _ hn]⟩

example : geomComp (fun k => if k == 5 then some ⟨"1", some "-2.7"⟩ else if k == 7 then some ⟨"0", none⟩ else none)
      [⟨20, false, [(5, 9)]⟩, ⟨21, true, []⟩, ⟨7, false, []⟩, ⟨22, false, [(5, 8)]⟩]
    = some [("1_-2.7", [20, 22]), ("0", [7])] := by decide

end T4V.C09
