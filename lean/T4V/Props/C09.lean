import T4V.Text.NormFloat
/-!
# Property C09 — density spellings (the `normalize_float` part)

Model: `T4V.Text.NormFloat`.  The ownership part of C09 (the composition is that of the leaf cell of
the universe hierarchy) is carried by the point monitor and by the FILL theorems of C05.
-/
namespace T4V.C09
open T4V

theorem takeWhile_append_stop' {p : Char → Bool} : ∀ (ds rest : List Char),
    (∀ c ∈ ds, p c = true) → (∀ c r, rest = c :: r → p c = false) →
    (ds ++ rest).takeWhile p = ds ∧ (ds ++ rest).dropWhile p = rest
  | [], rest, _, hr => by
      cases rest with
      | nil => simp
      | cons c r => simp [hr c r rfl]
  | d :: ds, rest, hd, hr => by
      have h1 : p d = true := hd d (by simp)
      have := takeWhile_append_stop' ds rest (fun c hc => hd c (by simp [hc])) hr
      simp [h1, this.1, this.2]

/-- a plain decimal literal: optional sign, integer digits, point, fraction digits -/
structure PlainDec where
  sign : Option Char
  ip : List Char
  fp : List Char

def PlainDec.WF (d : PlainDec) : Prop :=
  (∀ c, d.sign = some c → isSign c = true) ∧ (∀ c ∈ d.ip, isDig c = true) ∧ (∀ c ∈ d.fp, isDig c = true)

def PlainDec.chars (d : PlainDec) : List Char :=
  (match d.sign with | some c => [c] | none => []) ++ d.ip ++ '.' :: d.fp

theorem stripZerosR_append_zeros (l : List Char) (k : Nat) :
    stripZerosR (l ++ List.replicate k '0') = stripZerosR l := by
  unfold stripZerosR
  rw [List.reverse_append, List.reverse_replicate]
  have : ∀ (k : Nat) (r : List Char), (List.replicate k '0' ++ r).dropWhile (· == '0') = r.dropWhile (· == '0') := by
    intro k
    induction k with
    | zero => intro r; rfl
    | succ k ih => intro r; simp [List.replicate_succ, ih]
  rw [this]

theorem digit_not_sign (c : Char) (h : isDig c = true) : isSign c = false := by
  unfold isSign
  unfold isDig Char.isDigit at h
  have h1 : c ≠ '-' := by intro e; subst e; simp at h
  have h2 : c ≠ '+' := by intro e; subst e; simp at h
  simp [h1, h2]

theorem splitSign_chars (d : PlainDec) (hw : d.WF) :
    splitSign d.chars = ((match d.sign with | some c => [c] | none => []), d.ip ++ '.' :: d.fp) := by
  obtain ⟨hs, hi, _⟩ := hw
  unfold PlainDec.chars
  cases hsg : d.sign with
  | some c =>
    have := hs c hsg
    simp [splitSign, this]
  | none =>
    simp only [List.nil_append]
    cases hip : d.ip with
    | nil => simp [splitSign, isSign]
    | cons a r =>
      have : isSign a = false := digit_not_sign a (hi a (by simp [hip]))
      simp [splitSign, this]

/-- what the first pass of `normalize_float` does to a plain decimal -/
theorem nfStripZeros_plain (d : PlainDec) (hw : d.WF) :
    nfStripZeros d.chars =
      if d.fp.getLast? = some '0' then
        (match d.sign with | some c => [c] | none => []) ++ d.ip ++ ['.'] ++ stripZerosR d.fp
      else d.chars := by
  unfold nfStripZeros
  rw [splitSign_chars d hw]
  obtain ⟨_, hi, hf⟩ := hw
  have ht := takeWhile_append_stop' (p := isDig) d.ip ('.' :: d.fp) hi
    (by intro c r h; simp at h; obtain ⟨rfl, _⟩ := h; decide)
  simp only [ht.1, ht.2]
  have hall : d.fp.all isDig = true := by simpa [List.all_eq_true] using hf
  simp only [hall, Bool.true_and]
  by_cases hl : d.fp.getLast? = some '0'
  · simp [hl]
  · simp [hl]

/-- **Trailing zeros of the fractional part are immaterial**: `1.50`, `1.500`, … are normalised like
`1.5`, and `1.`, `1.0`, `1.00` alike (for any sign, any digits). -/
theorem trailing_zeros_immaterial (d : PlainDec) (hw : d.WF) (k : Nat) :
    normalizeFloat ({ d with fp := d.fp ++ List.replicate k '0' } : PlainDec).chars = normalizeFloat d.chars := by
  have hw' : ({ d with fp := d.fp ++ List.replicate k '0' } : PlainDec).WF := by
    refine ⟨hw.1, hw.2.1, ?_⟩
    intro c hc
    simp only [List.mem_append, List.mem_replicate] at hc
    rcases hc with hc | ⟨_, rfl⟩
    · exact hw.2.2 c hc
    · decide
  have e1 := nfStripZeros_plain _ hw'
  have e2 := nfStripZeros_plain d hw
  suffices h : nfStripZeros ({ d with fp := d.fp ++ List.replicate k '0' } : PlainDec).chars = nfStripZeros d.chars by
    unfold normalizeFloat; rw [h]
  rw [e1, e2]
  simp only [stripZerosR_append_zeros]
  cases k with
  | zero => simp
  | succ k =>
    have hlast : (d.fp ++ List.replicate (k + 1) '0').getLast? = some '0' := by
      simp [List.getLast?_append, List.replicate_succ']
    simp only [hlast, if_true]
    by_cases hl : d.fp.getLast? = some '0'
    · simp [hl]
    · simp only [hl, if_false]
      -- fp has no trailing zero: stripping gives fp back
      have hs : stripZerosR d.fp = d.fp := by
        unfold stripZerosR
        cases hr : d.fp.reverse with
        | nil =>
          have : d.fp = [] := by simpa using hr
          simp [this]
        | cons a r =>
          have ha : d.fp.getLast? = some a := by
            have : d.fp = (a :: r).reverse := by rw [← hr]; simp
            rw [this]; simp
          have hne : a ≠ '0' := by intro e; subst e; exact hl ha
          have : ((a :: r).dropWhile (· == '0')) = a :: r := by simp [hne]
          rw [this, ← hr]; simp
      rw [hs]
      simp [PlainDec.chars]

/-- every exponent marker is written `e` in the normal form -/
theorem markers_normalised (s : List Char) : ∀ c ∈ nfMarkers s, c ≠ 'E' ∧ c ≠ 'd' ∧ c ≠ 'D' := by
  intro c hc
  simp only [nfMarkers, List.mem_map] at hc
  obtain ⟨a, _, rfl⟩ := hc
  by_cases h : (a == 'E' || a == 'd' || a == 'D') = true
  · simp [h]
  · simp only [h, if_false]
    simp only [Bool.or_eq_true, beq_iff_eq, not_or] at h
    exact ⟨h.1.1, h.1.2, h.2⟩

example : normalizeFloat "-1.00".toList = "-1.0".toList := by decide
example : normalizeFloat "-2.7e0".toList = "-2.7e0".toList := by decide
example : normalizeFloat "6.40875-2".toList = "6.40875e-2".toList := by decide
example : normalizeFloat "1.23000".toList = "1.23".toList := by decide
example : normalizeFloat "-5D4".toList = "-5e4".toList := by decide

end T4V.C09
