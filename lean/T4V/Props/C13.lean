import T4V.Proofs.Post
import T4V.Proofs.Inline
import T4V.Proofs.ConvertAll
import T4V.Proofs.PostDedup
/-!
# Property C13 — de-duplication and inlining options never change the geometry
-/
namespace T4V.C13
open T4V

/-- **De-duplication merges two surface numbers only if they describe the same surface**: `a ↦ b` in
the renumbering implies that cards `a` and `b` have the same definition (type, parameters, transform),
and `b` survives. -/
theorem dedup_merges_equal_definitions (surfs : List (Nat × String)) (a b : Nat)
    (h : (a, b) ∈ (removeDuplicates surfs).2) :
    ∃ k, (a, k) ∈ surfs ∧ (b, k) ∈ surfs ∧ b ∈ (removeDuplicates surfs).1 :=
  removeDuplicates_sound surfs a b h

/-- every surface of the table is renumbered to a representative (no reference is left dangling by the
renumbering of the volumes) -/
theorem dedup_every_surface_has_representative (surfs : List (Nat × String)) (a : Nat) (k : String)
    (h : (a, k) ∈ surfs) : ∃ b, (a, b) ∈ (removeDuplicates surfs).2 :=
  removeDuplicates_total surfs a k h

/-- after de-duplication **no two written surfaces have the same definition** -/
theorem dedup_survivors_pairwise_different (surfs : List (Nat × String)) (hnd : (surfs.map (·.1)).Nodup)
    (b1 b2 : Nat) (k : String) (h1 : b1 ∈ (removeDuplicates surfs).1) (h2 : b2 ∈ (removeDuplicates surfs).1)
    (d1 : (b1, k) ∈ surfs) (d2 : (b2, k) ∈ surfs) : b1 = b2 :=
  removeDuplicates_survivors_distinct surfs hnd b1 b2 k h1 h2 d1 d2

/-- of a group of identical surfaces the lowest number survives -/
theorem dedup_lowest_number_survives (surfs : List (Nat × String)) (a b : Nat)
    (h : (a, b) ∈ (removeDuplicates surfs).2) : b ≤ a :=
  removeDuplicates_lowest surfs a b h

/-- renumbering the surfaces of all volumes keeps the denotation of every volume, for every point
(sense assignment) at which merged surfaces have the same sense — which (by the theorem above) is
every point, since merged surfaces have the same definition -/
theorem renumbering_preserves (σ : TSense) (ren : List (Nat × Nat)) (hσ : ∀ s, σ (renumOf ren s) = σ s)
    (vols : List (Nat × Vol)) (f k : Nat) : den (renumberVols ren vols) σ f k = den vols σ f k :=
  den_renumber σ ren hσ vols f k

/-- **Inlining**: replacing any selection `toInline` of cell references by the referenced trees
(recursively) keeps the Boolean function of the tree.  The inline score (`--max-inline-score`,
`--always-inline-*`) only decides *which* references are selected; the statement holds for every
selection. -/
theorem inlining_preserves (cells : List (Nat × Geom)) (toInline : List Nat) (σ : SurfVal) (cv : Nat → Bool)
    (hfix : CVFix cells σ cv) (fuel : Nat) (g g' : Geom) (h : inlineWorker cells toInline fuel g = some g') :
    g'.eval σ cv = g.eval σ cv :=
  inlineWorker_eval cells toInline σ cv hfix fuel g g' h

/-- whatever tree a cell ends up with after inlining, the conversion loop gives it a volume with the
tree's denotation (C01 `loop`), so two option sets that produce trees of equal meaning produce
volumes of equal meaning -/
theorem options_agree (env₁ env₂ : CEnv) (σ : TSense) (cv : Nat → Bool) (h₁ : EnvOK env₁ σ cv)
    (h₂ : EnvOK env₂ σ cv) (fuel₁ fuel₂ n₁ n₂ : Nat) (keys : List Nat) (st₁ st₂ : CState)
    (hnd : keys.Nodup) (hl₁ : ∀ c ∈ keys, c ≤ n₁) (hl₂ : ∀ c ∈ keys, c ≤ n₂)
    (c₁ : convertAll env₁ fuel₁ keys { next := n₁ } = .ok st₁)
    (c₂ : convertAll env₂ fuel₂ keys { next := n₂ } = .ok st₂) (c : Nat) (hc : c ∈ keys) :
    Good σ cv st₁.vols c ∧ Good σ cv st₂.vols c :=
  ⟨convertAll_ok env₁ σ cv h₁ fuel₁ n₁ keys st₁ hnd hl₁ c₁ c hc,
   convertAll_ok env₂ σ cv h₂ fuel₂ n₂ keys st₂ hnd hl₂ c₂ c hc⟩

example : ([(1, "B"), (2, "A"), (3, "A")].foldl dedupStep ([], [], [])).2.2 = [(1, 1), (2, 2), (3, 2)] := by decide

end T4V.C13
