import T4V.Model.BC
/-!
# Property C16 — reflecting and white surfaces become boundary conditions (entry logic)

Model: `T4V.Model.BC` (`recuperateBoundaryCondition`, `conversionBoundCond`).  The *designation*
clause (the entry's number is a surface of the written file with the flagged locus) is false on the
current tree after de-duplication / for unused surfaces (known findings F2a, F2b): what is proved
here is the `_partial` statement about which entries are produced, with the number of the MCNP card.
-/
namespace T4V.C16
open T4V

/-- entries are produced exactly for the flagged surfaces, in order, one each, with the kind of the
flag; unflagged surfaces produce none -/
theorem entries_partial : ∀ (surfs : List BCSurf) (es : List (Nat × String)), bcEntries surfs = .ok es →
    es = (surfs.filter (·.flag != "")).filterMap fun s => (bcKind? s.flag).map fun k => (s.id, k)
  | [], es, h => by simp only [bcEntries, Except.ok.injEq] at h; subst h; rfl
  | s :: rest, es, h => by
      simp only [bcEntries] at h
      by_cases hf : (s.flag == "") = true
      · simp only [hf, if_true] at h
        have := entries_partial rest es h
        have hb : (s.flag != "") = false := by simp [bne, hf]
        simp [List.filter, hb, this]
      · have hf' : (s.flag == "") = false := by simpa using hf
        simp only [hf', Bool.false_eq_true, if_false] at h
        by_cases hp : s.parts > 1
        · simp [hp] at h
        · simp only [hp, if_false] at h
          cases hk : bcKind? s.flag with
          | none => simp [hk] at h
          | some k =>
            simp only [hk] at h
            cases hr : bcEntries rest with
            | error e => simp [hr] at h
            | ok es' =>
              simp only [hr, Except.ok.injEq] at h
              subst h
              have := entries_partial rest es' hr
              have hb : (s.flag != "") = true := by simp [bne, hf']
              simp [List.filter, hb, hk, this]

/-- every flagged single surface among successfully converted input gets exactly one entry -/
theorem one_entry_per_flagged (surfs : List BCSurf) (es : List (Nat × String)) (h : bcEntries surfs = .ok es) :
    es.length = (surfs.filter (·.flag != "")).length := by
  have key : ∀ (surfs : List BCSurf) (es : List (Nat × String)), bcEntries surfs = .ok es →
      es.length = (surfs.filter (·.flag != "")).length := by
    intro surfs
    induction surfs with
    | nil => intro es h; simp only [bcEntries, Except.ok.injEq] at h; subst h; rfl
    | cons s rest ih =>
      intro es h
      simp only [bcEntries] at h
      by_cases hf : (s.flag == "") = true
      · simp only [hf, if_true] at h
        have hb : (s.flag != "") = false := by simp [bne, hf]
        simp [List.filter, hb, ih es h]
      · have hf' : (s.flag == "") = false := by simpa using hf
        simp only [hf', Bool.false_eq_true, if_false] at h
        by_cases hp : s.parts > 1
        · simp [hp] at h
        · simp only [hp, if_false] at h
          cases hk : bcKind? s.flag with
          | none => simp [hk] at h
          | some k =>
            simp only [hk] at h
            cases hr : bcEntries rest with
            | error e => simp [hr] at h
            | ok es' =>
              simp only [hr, Except.ok.injEq] at h
              subst h
              have hb : (s.flag != "") = true := by simp [bne, hf']
              simp [List.filter, hb, ih es' hr]
  exact key surfs es h

/-- a flag on a surface made of several members (a macrobody with more than one facet) is rejected -/
theorem macrobody_flag_rejected (pre post : List BCSurf) (s : BCSurf) (hpre : ∀ x ∈ pre, x.flag = "")
    (hf : s.flag ≠ "") (hp : s.parts > 1) : bcEntries (pre ++ s :: post) = .error .macrobody := by
  induction pre with
  | nil =>
    have : (s.flag == "") = false := by simpa using hf
    simp [bcEntries, this, hp]
  | cons x xs ih =>
    have hx : (x.flag == "") = true := by simpa using hpre x (by simp)
    simp only [List.cons_append, bcEntries, hx, if_true]
    exact ih (fun y hy => hpre y (by simp [hy]))

/-- Full-strength designation clause, **false on the current tree** (known findings F2a/F2b), kept as a
definition: every entry designates a surface that is written and has the flagged surface's definition. -/
def designates (written : List (Nat × String)) (defs : Nat → Option String) (es : List (Nat × String)) : Prop :=
  ∀ e ∈ es, ∃ d, (e.1, d) ∈ written ∧ defs e.1 = some d

example : bcEntries [⟨1, "", 1⟩, ⟨2, "*", 1⟩, ⟨3, "+", 1⟩] = .ok [(2, "REFLECTION"), (3, "COSINUS")] := by
  simp [bcEntries, bcKind?]
example : bcEntries [⟨1, "*", 6⟩] = .error .macrobody := by simp [bcEntries]

end T4V.C16
