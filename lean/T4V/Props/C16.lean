import T4V.Model.BC
import T4V.Spec.T4
import T4V.Proofs.Composition
/-!
# Property C16 — reflecting and white surfaces become boundary conditions (entry logic)

Model: `T4V.Model.BC` (`recuperateBoundaryCondition`, `conversionBoundCond`).  The *designation*
clause (the entry's number is a surface of the written file with the flagged locus) is false on the
current tree after de-duplication / for unused surfaces (known findings F2a, F2b): what is proved
here is the `_partial` statement about which entries are produced, with the number of the MCNP card.
-/
namespace T4V.C16
open T4V

/-- entries are produced exactly for the flagged surfaces, in order, one each, with the kind of the
flag; unflagged surfaces produce none -/
theorem entries_partial : ∀ (surfs : List BCSurf) (es : List (Nat × String)), bcEntries surfs = .ok es →
    es = (surfs.filter (·.flag != "")).filterMap fun s => (bcKind? s.flag).map fun k => (s.id, k)
  | [], es, h => by simp only [bcEntries, Except.ok.injEq] at h; subst h; rfl
  | s :: rest, es, h => by
      simp only [bcEntries] at h
      by_cases hf : (s.flag == "") = true
      · simp only [hf, if_true] at h
        have := entries_partial rest es h
        have hb : (s.flag != "") = false := by simp [bne, hf]
        simp [List.filter, hb, this]
      · have hf' : (s.flag == "") = false := by simpa using hf
        simp only [hf', Bool.false_eq_true, if_false] at h
        by_cases hp : s.parts > 1
        · simp [hp] at h
        · simp only [hp, if_false] at h
          cases hk : bcKind? s.flag with
          | none => simp [hk] at h
          | some k =>
            simp only [hk] at h
            cases hr : bcEntries rest with
            | error e => simp [hr] at h
            | ok es' =>
              simp only [hr, Except.ok.injEq] at h
              subst h
              have := entries_partial rest es' hr
              have hb : (s.flag != "") = true := by simp [bne, hf']
              simp [List.filter, hb, hk, this]

/-- every flagged single surface among successfully converted input gets exactly one entry -/
theorem one_entry_per_flagged (surfs : List BCSurf) (es : List (Nat × String)) (h : bcEntries surfs = .ok es) :
    es.length = (surfs.filter (·.flag != "")).length := by
  have key : ∀ (surfs : List BCSurf) (es : List (Nat × String)), bcEntries surfs = .ok es →
      es.length = (surfs.filter (·.flag != "")).length := by
    intro surfs
    induction surfs with
    | nil => intro es h; simp only [bcEntries, Except.ok.injEq] at h; subst h; rfl
    | cons s rest ih =>
      intro es h
      simp only [bcEntries] at h
      by_cases hf : (s.flag == "") = true
      · simp only [hf, if_true] at h
        have hb : (s.flag != "") = false := by simp [bne, hf]
        simp [List.filter, hb, ih es h]
      · have hf' : (s.flag == "") = false := by simpa using hf
        simp only [hf', Bool.false_eq_true, if_false] at h
        by_cases hp : s.parts > 1
        · simp [hp] at h
        · simp only [hp, if_false] at h
          cases hk : bcKind? s.flag with
          | none => simp [hk] at h
          | some k =>
            simp only [hk] at h
            cases hr : bcEntries rest with
            | error e => simp [hr] at h
            | ok es' =>
              simp only [hr, Except.ok.injEq] at h
              subst h
              have hb : (s.flag != "") = true := by simp [bne, hf']
              simp [List.filter, hb, ih es' hr]
  exact key surfs es h

/-- a flag on a surface made of several members (a macrobody with more than one facet) is rejected -/
theorem macrobody_flag_rejected (pre post : List BCSurf) (s : BCSurf) (hpre : ∀ x ∈ pre, x.flag = "")
    (hf : s.flag ≠ "") (hp : s.parts > 1) : bcEntries (pre ++ s :: post) = .error .macrobody := by
  induction pre with
  | nil =>
    have : (s.flag == "") = false := by simpa using hf
    simp [bcEntries, this, hp]
  | cons x xs ih =>
    have hx : (x.flag == "") = true := by simpa using hpre x (by simp)
    simp only [List.cons_append, bcEntries, hx, if_true]
    exact ih (fun y hy => hpre y (by simp [hy]))

/-- Full-strength designation clause, **false on the current tree** (known findings F2a/F2b), kept as a
definition: every entry designates a surface that is written and has the flagged surface's definition. -/
def designates (written : List (Nat × String)) (defs : Nat → Option String) (es : List (Nat × String)) : Prop :=
  ∀ e ∈ es, ∃ d, (e.1, d) ∈ written ∧ defs e.1 = some d

/-- the ids that get an entry are exactly the ids of the flagged surfaces -/
theorem entry_ids : ∀ (surfs : List BCSurf) (es : List (Nat × String)), bcEntries surfs = .ok es →
    ∀ i, (∃ k, (i, k) ∈ es) ↔ ∃ s ∈ surfs, s.flag ≠ "" ∧ s.id = i
  | [], es, h, i => by
    simp only [bcEntries, Except.ok.injEq] at h
    subst h; simp
  | s :: rest, es, h, i => by
    unfold bcEntries at h
    by_cases hf : (s.flag == "") = true
    · simp only [hf, if_true] at h
      rw [entry_ids rest es h i]
      have : s.flag = "" := by simpa using hf
      constructor
      · rintro ⟨x, hx, h1, h2⟩; exact ⟨x, List.mem_cons_of_mem _ hx, h1, h2⟩
      · rintro ⟨x, hx, h1, h2⟩
        rcases List.mem_cons.mp hx with rfl | hx'
        · exact absurd this h1
        · exact ⟨x, hx', h1, h2⟩
    · simp only [hf, Bool.false_eq_true, if_false] at h
      have hne : s.flag ≠ "" := by simpa using hf
      by_cases hp : s.parts > 1
      · simp [hp] at h
      · simp only [hp, if_false] at h
        cases hk : bcKind? s.flag with
        | none => simp [hk] at h
        | some k =>
          simp only [hk] at h
          cases hr : bcEntries rest with
          | error e => simp [hr] at h
          | ok es' =>
            simp only [hr, Except.ok.injEq] at h
            subst h
            have ih := entry_ids rest es' hr i
            constructor
            · rintro ⟨k', hk'⟩
              rcases List.mem_cons.mp hk' with heq | hm
              · cases heq; exact ⟨s, List.mem_cons_self, hne, rfl⟩
              · obtain ⟨x, hx, h1, h2⟩ := ih.mp ⟨k', hm⟩
                exact ⟨x, List.mem_cons_of_mem _ hx, h1, h2⟩
            · rintro ⟨x, hx, h1, h2⟩
              rcases List.mem_cons.mp hx with rfl | hx'
              · exact ⟨k, by rw [← h2]; exact List.mem_cons_self⟩
              · obtain ⟨k', hk'⟩ := ih.mpr ⟨x, hx', h1, h2⟩
                exact ⟨k', List.mem_cons_of_mem _ hk'⟩

/-- **designation, partial**: the entries designate written surfaces with the flagged surfaces' definitions exactly
when every flagged surface of the dictionary is itself written under its own number — which the current tree does
not guarantee (a flagged surface that bounds no converted cell, or one merged into a lower-numbered duplicate, is not
written: findings F2a / F2b) -/
theorem designates_iff_flagged_written_partial (surfs : List BCSurf) (es : List (Nat × String))
    (h : bcEntries surfs = .ok es) (written : List (Nat × String)) (defs : Nat → Option String) :
    designates written defs es ↔ ∀ s ∈ surfs, s.flag ≠ "" → ∃ d, (s.id, d) ∈ written ∧ defs s.id = some d := by
  unfold designates
  constructor
  · intro hd s hs hf
    obtain ⟨k, hk⟩ := (entry_ids surfs es h s.id).mpr ⟨s, hs, hf, rfl⟩
    exact hd (s.id, k) hk
  · intro hw e he
    obtain ⟨s, hs, hf, hid⟩ := (entry_ids surfs es h e.1).mp ⟨e.2, he⟩
    rw [← hid]
    exact hw s hs hf

/-- the full-strength clause is false of the model (as of the code): a flagged surface that is not written still
gets its entry -/
theorem designation_fails_when_a_flagged_surface_is_not_written :
    ∃ (surfs : List BCSurf) (es : List (Nat × String)) (written : List (Nat × String)) (defs : Nat → Option String),
      bcEntries surfs = .ok es ∧ ¬ designates written defs es :=
  ⟨[⟨9, "*", 1⟩], [(9, "REFLECTION")], [], fun _ => none, by simp [bcEntries, bcKind?], by simp [designates]⟩

example : bcEntries [⟨1, "", 1⟩, ⟨2, "*", 1⟩, ⟨3, "+", 1⟩] = .ok [(2, "REFLECTION"), (3, "COSINUS")] := by
  simp [bcEntries, bcKind?]
example : bcEntries [⟨1, "*", 6⟩] = .error .macrobody := by simp [bcEntries]

/-! ### the block as written and as read back (C08: declared count = entries; C16: kind and number of each entry) -/
open T4V.CMP T4V.WR

theorem bcEntries_kinds : ∀ (surfs : List BCSurf) (es : List (Nat × String)), bcEntries surfs = .ok es →
    ∀ e ∈ es, e.2 = "REFLECTION" ∨ e.2 = "COSINUS" := by
  intro surfs es h e he
  rw [entries_partial surfs es h] at he
  obtain ⟨s, _, hs⟩ := List.mem_filterMap.mp he
  cases hk : bcKind? s.flag with
  | none => simp [hk] at hs
  | some k =>
    simp only [hk, Option.map_some, Option.some.injEq] at hs
    subst hs
    unfold bcKind? at hk
    split at hk <;> simp_all

theorem bcLine_entries : ∀ (es : List (Nat × String)) (a : BCAcc), (∀ e ∈ es, e.2 = "REFLECTION" ∨ e.2 = "COSINUS") →
    ((es.map fun (p : Nat × String) => "ALL_COMPLETE" ++ " " ++ p.2 ++ " " ++ toString p.1).map words).foldl bcLine a =
      { a with entries := a.entries ++ es.map fun p => (p.2, p.1) }
  | [], a, _ => by simp
  | (i, k) :: r, a, h => by
    have hk : Tok k := by
      rcases h (i, k) List.mem_cons_self with rfl | rfl <;> exact ⟨by decide, by decide⟩
    have hw : words ("ALL_COMPLETE" ++ " " ++ k ++ " " ++ toString i) = ["ALL_COMPLETE", k, toString i] := by
      simp only [words_append_blank]
      rw [words_tok _ (⟨by decide, by decide⟩ : Tok "ALL_COMPLETE"), words_tok _ hk, words_tok _ (tok_nat i)]
      rfl
    simp only [List.map_cons, List.foldl_cons, hw]
    have hb : bcLine a ["ALL_COMPLETE", k, toString i] = { a with entries := a.entries ++ [(k, i)] } := by
      simp [bcLine]
    rw [hb, bcLine_entries r _ (fun e he => h e (List.mem_cons_of_mem _ he))]
    simp [List.append_assoc]

/-- **the BOUNDARY_CONDITION block is read back exactly**: from the text of the lines between the keyword and
END_BOUNDARY_CONDITION the reader recovers the declared count — which is the number of entries — and, in order, the
kind and the surface number of every entry, without a complaint -/
theorem bc_block_roundtrip (surfs : List BCSurf) (es : List (Nat × String)) (h : bcEntries surfs = .ok es) (hne : es ≠ []) :
    ∃ inner, bcTextLines es = ["", "BOUNDARY_CONDITION"] ++ inner ++ ["END_BOUNDARY_CONDITION"] ∧
      (inner.map words).foldl bcLine {} =
        { declared := some es.length, entries := es.map fun p => (p.2, p.1), errs := [] } := by
  refine ⟨toString es.length :: es.map (fun (p : Nat × String) => "ALL_COMPLETE" ++ " " ++ p.2 ++ " " ++ toString p.1), ?_, ?_⟩
  · unfold bcTextLines
    have : es.isEmpty = false := by cases es with | nil => exact absurd rfl hne | cons _ _ => rfl
    simp [this]
  · simp only [List.map_cons, List.foldl_cons, words_tok _ (tok_nat _)]
    have h0 : bcLine {} [toString es.length] = { declared := some es.length } := by
      simp [bcLine]
    rw [h0, bcLine_entries es _ (bcEntries_kinds surfs es h)]
    simp

/-- no flagged surface, no block -/
theorem no_entries_no_block : bcTextLines [] = [] := rfl

end T4V.C16
