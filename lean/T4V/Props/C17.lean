import T4V.Proofs.KwArray
import T4V.Proofs.Expand
import T4V.Proofs.LatticeArg
import T4V.Text.DataCard
import T4V.Spec.Comp
import T4V.Model.Macro
import T4V.Model.TRCard
import T4V.Model.Keywords
import T4V.Model.Lattice
/-!
# Property C17 — unsupported or malformed input stops the run (decision logic, stated outright)

Each theorem says: *whenever the input has the fault, the modelled stage returns an error — for
every deck around it*.  The modelled stages are the ones the property lists whose logic lives in
pure functions: facet range check (`pot_expand_surfs`), FILL-array length (`expand_data_card` with
`expected`), IMP cards of unequal length (`parse_importance_cards`), mixed-sign material fractions
(`compositionConversionMCNPToT4`), parameter counts and unknown mnemonics (`normalize_surface`), m = −1
(`normalize_transform`), lattice dimensionality (`develop_lattice`), keywords without value and LAT values
(`parse_keywords`).  `--lattice` option syntax and macrobody parameter counts are tied to the check by fault
injection only (see evidence, `not_proved`).
-/
namespace T4V.C17
open T4V

/-- a facet index larger than the number of facets of the body is rejected, whatever the rest of the
tree, the numbering state and the other surfaces -/
theorem facet_beyond_rejected (m : Matching) (n : Int) (j : Nat) (k : Nat) (ids : List Int)
    (hm : m.get? n.natAbs = some ids) (hj : j > ids.length) :
    potExpand m (.msurf n (some j)) k = .error (.badFacet n j ids.length) := by
  simp [potExpand, hm, hj]

/-- … and the error propagates through any enclosing node (first failing argument wins) -/
theorem facet_beyond_rejected_in_node (m : Matching) (nid : Nat) (op : Op) (pre post : List FTree) (t : FTree)
    (k : Nat) (pre' : List FTree) (k' : Nat) (e : Err)
    (hpre : potExpandList m pre k = .ok (pre', k')) (ht : potExpand m t k' = .error e) :
    potExpand m (.node nid op (pre ++ t :: post)) k = .error e := by
  have key : ∀ (pre pre' : List FTree) (k k' : Nat), potExpandList m pre k = .ok (pre', k') →
      potExpand m t k' = .error e → potExpandList m (pre ++ t :: post) k = .error e := by
    intro pre
    induction pre with
    | nil =>
      intro pre' k k' h ht
      simp only [potExpandList, Except.ok.injEq, Prod.mk.injEq] at h
      obtain ⟨_, rfl⟩ := h
      simp [potExpandList, ht, bind, Except.bind]
    | cons x xs ih =>
      intro pre' k k' h ht
      simp only [potExpandList] at h
      cases h1 : potExpand m x k with
      | error e1 => simp [h1, bind, Except.bind] at h
      | ok r1 =>
        obtain ⟨x1, k1⟩ := r1
        simp only [h1, bind, Except.bind] at h
        cases h2 : potExpandList m xs k1 with
        | error e2 => simp [h2] at h
        | ok r2 =>
          obtain ⟨xs2, k2⟩ := r2
          simp only [h2, Except.ok.injEq, Prod.mk.injEq] at h
          obtain ⟨_, rfl⟩ := h
          have := ih xs2 k1 k2 h2 ht
          simp [potExpandList, h1, this, bind, Except.bind]
  simp [potExpand, key pre pre' k k' hpre ht, bind, Except.bind]

/-- a FILL array (or any data card read with `expected = n`) that expands to fewer than `n` entries is
rejected -/
theorem fill_array_too_short (n : Nat) (ts : List (DTok Float)) (r : List (Option Float)) (c : Nat)
    (h : expandData (some n) ts [] 0 = .ok (r, c)) (hl : r.length ≠ n) :
    expandChecked (some n) ts = .error .expected := by
  simp [expandChecked, h, hl]

/-- IMP:x data cards of different lengths are rejected -/
theorem imp_cards_unequal_rejected (c : List (Option Float)) (cs : List (List (Option Float)))
    (hne : cs ≠ []) (h : ∃ d ∈ cs, d.length ≠ c.length) : importanceCards (c :: cs) = .error "unequal" := by
  obtain ⟨d, hd, hl⟩ := h
  cases cs with
  | nil => exact absurd rfl hne
  | cons x xs =>
    have : (x :: xs).any (fun y => y.length != c.length) = true := by
      rw [List.any_eq_true]
      exact ⟨d, hd, by simpa using hl⟩
    simp [importanceCards, importanceCardsG, this]

/-- a material card that mixes positive and negative fractions is rejected (whatever nuclides it lists) -/
theorem mixed_sign_rejected (tokens : List String) (z0 f0 : String) (rest : List (String × String))
    (he : matEntries tokens = (z0, f0) :: rest)
    (hmix : ∃ e ∈ rest, isNegLit e.2 ≠ isNegLit f0) :
    compExpected tokens = .error "mixed-signs" := by
  obtain ⟨e, hmem, hne⟩ := hmix
  have : ((z0, f0) :: rest).any (fun x => (!isNegLit x.2) != !isNegLit f0) = true := by
    rw [List.any_eq_true]
    refine ⟨e, List.mem_cons_of_mem _ hmem, ?_⟩
    cases h1 : isNegLit e.2 <;> cases h2 : isNegLit f0 <;> simp_all
  unfold compExpected
  rw [he]
  simp only [this, if_true]

/-! Non-vacuity: concrete inputs meeting the hypotheses. -/
example : potExpand [(7, [1, -2, 3])] (.msurf 7 (some 4)) 10 = .error (.badFacet 7 4 3) :=
  facet_beyond_rejected [(7, [1, -2, 3])] 7 4 10 [1, -2, 3] rfl (by decide)
example : importanceCards [[some 1, some 0], [some 1]] = .error "unequal" :=
  imp_cards_unequal_rejected _ _ (by simp) ⟨[some 1], by simp, by simp⟩

set_option linter.unusedSimpArgs false

section
variable {α : Type} [Add α] [Sub α] [Mul α] [Div α] [Neg α] [OfNat α 0] [OfNat α 1]
  [LT α] [DecidableLT α] [BEq α] [Transc α]

/-- **wrong parameter count / unknown mnemonic**: a surface card is converted only if its mnemonic is in the
table `N_PARAMS` and the number of entries is one the table allows — whatever the values -/
theorem surface_card_arity (e1 e2 : α) (mn : String) (ps : List α) (h : (cadOf e1 e2 mn ps).isSome = true) :
    ∃ ns, surfaceArity mn = some ns ∧ ps.length ∈ ns := by
  unfold cadOf at h
  cases hs : surfaceArity mn with
  | none => simp [hs] at h
  | some ns =>
    simp only [hs] at h
    by_cases hc : ns.contains ps.length = true
    · exact ⟨ns, rfl, by simpa using hc⟩
    · rw [if_neg hc] at h; simp at h

theorem unknown_mnemonic_rejected (e1 e2 : α) (mn : String) (ps : List α) (h : surfaceArity mn = none) :
    cadOf e1 e2 mn ps = none := by
  simp [cadOf, h]

/-- a TR card / inline transformation with a 13th entry other than 1 (m = −1) is rejected -/
theorem tr_m_not_one_rejected (snap : α) (tr : List (Option α)) (m : α) (h12 : tr.length = 12)
    (hm : (m == 1) = false) : normTransform snap (tr ++ [some m]) = .error .mMinusOne := by
  have hlen : (tr ++ [some m]).length = 13 := by simp [h12]
  simp [normTransform, hlen, hm]

/-- a lattice whose number of non-trivial FILL ranges differs from the number of lattice vectors (`--lattice` or
FILL array of the wrong dimensionality) is rejected -/
theorem lattice_dimension_mismatch_rejected (base : List (V3 α)) (bounds : List (Int × Int)) (spec : List Nat)
    (univ : Nat) (filltr trcl : Option (List α)) (h1 : base.length ≠ bounds.length) (h2 : base.length ≠ latDims bounds) :
    developLattice base bounds spec univ filltr trcl = .error .dims := by
  have e1 : (base.length != bounds.length) = true := by simpa using h1
  have e2 : (base.length != latDims bounds) = true := by simpa using h2
  simp [developLattice, e1, e2]
end

/-- a keyword at the end of the cell options without its value (`U`, `MAT`, `RHO`, `LAT`, `IMP:…`, `FILL`) stops
the run -/
theorem keyword_without_value_rejected (toks : List String) (st : KwState × List Item)
    (h : kwRun (.idle, []) toks = .ok st)
    (hw : st.1 = .wantU ∨ st.1 = .wantMat ∨ st.1 = .wantRho ∨ st.1 = .wantLat ∨ (∃ ps, st.1 = .wantImp ps) ∨
      (∃ s, st.1 = .fillFirst s)) :
    parseKeywords toks = .error .pop := by
  obtain ⟨s, acc⟩ := st
  simp only [parseKeywords, groupTokens, h]
  rcases hw with h' | h' | h' | h' | ⟨ps, h'⟩ | ⟨b, h'⟩ <;> simp only at h' <;> subst h' <;> simp [kwFinish, Except.map]

/-- `LAT=n` with `n` other than 1 or 2 stops the run, whatever follows -/
theorem lat_value_rejected (pre rest : List String) (acc : List Item) (v : String)
    (hpre : kwRun (.idle, []) pre = .ok (.wantLat, acc))
    (hv : (v.toInt? == some 1 || v.toInt? == some 2) = false) :
    parseKeywords (pre ++ v :: rest) = .error .badLat := by
  have hrun : ∀ (a b : List String) (st : KwState × List Item),
      kwRun st (a ++ b) = match kwRun st a with | .ok st' => kwRun st' b | .error e => .error e := by
    intro a
    induction a with
    | nil => intro b st; simp [kwRun]
    | cons t a ih =>
      intro b st
      simp only [List.cons_append, kwRun]
      cases h : kwStep st t with
      | error e => rfl
      | ok st' => exact ih b st'
  simp [parseKeywords, groupTokens, hrun, hpre, kwRun, kwStep, hv, Except.map]

/-! ### wrong number of macrobody parameters -/
section
variable {α : Type} [Add α] [Sub α] [Mul α] [Div α] [Neg α] [OfNat α 0] [OfNat α 1]
  [LT α] [DecidableLT α] [BEq α] [Transc α]

/-- the parameter counts each macrobody accepts -/
def macroTable : List (String × Nat) :=
  [("rpp", 6), ("box", 12), ("sph", 4), ("rcc", 7), ("rhp", 15), ("rhp", 9), ("wed", 12), ("trc", 8), ("rec", 12),
   ("rec", 10), ("ell", 7)]

/-- **a macrobody card is converted only with a parameter count its mnemonic allows** — whatever the values
(`HEX` is `RHP` under another name and is renamed before) -/
theorem macrobody_parameter_count (mn : String) (ps : List α) (h : (macroParts mn ps).isSome = true) :
    (mn, ps.length) ∈ macroTable := by
  unfold macroParts at h
  split at h
  all_goals first | (simp [macroTable]; done) | (simp at h; done)

/-- … and an ARB with its thirty entries only -/
theorem arb_parameter_count (e1 e2 : α) (toNat : α → Nat) (ps : List α) (h : (arbParts e1 e2 toNat ps).isSome = true) :
    ps.length = 30 := by
  unfold arbParts at h
  by_cases hl : ps.length = 30
  · exact hl
  · simp [hl] at h
end

/-! ### a malformed `--lattice` argument (model `Text/LatticeArg` = `main.parse_lattice` / `parse_ranges`) -/

/-- **an option is accepted only with a cell number followed by one, two or three ranges** (comma-separated fields: the
number of fields is the number of ranges plus one) -/
theorem lattice_option_needs_one_to_three_ranges (opt : List Char) (cell : Int) (rs : List (Int × Int))
    (h : LA.parseOption opt = .ok (cell, rs)) :
    1 ≤ rs.length ∧ rs.length ≤ 3 ∧ (LA.splitOn ',' opt).length = rs.length + 1 :=
  LAP.parseOption_range_count opt cell rs h

/-- **a range is accepted only with exactly two colon-separated bounds** -/
theorem lattice_range_needs_two_bounds (r : List Char) (x : Int × Int) (h : LA.parseRange r = .ok x) :
    (LA.splitOn ':' r).length = 2 :=
  LAP.parseRange_two_bounds r x h

example : LA.parseLattice ["malformed".toList] = .error .noRanges := by rfl
example : LA.parseLattice ["100,0:4,0:4,0:4,0:4".toList] = .error .tooMany := by rfl

/-- **a FILL array with too few universes is rejected** when the cell options are read (`parse_fill_kw`): index
ranges with `need` elements, fewer plain numbers than that, then the end of the options -/
theorem fill_array_too_few_universes_rejected (star : Bool) (kw r : String) (rs us : List String) (need : Int)
    (hkw : startKeyword kw = .fillFirst star)
    (hr : contains r ":" = true) (hrs : ∀ x ∈ rs, contains x ":" = true)
    (hsz : rangesSize (r :: rs) = .ok need)
    (hus : ∀ u ∈ us, classifyU u = .num ∧ contains u ":" = false)
    (hlen : (us.length : Int) < need) :
    parseKeywords (kw :: r :: (rs ++ us)) = .error .arrayCount := by
  simp [parseKeywords, array_fill_too_short star kw r rs us need hkw hr hrs hsz hus hlen, Except.map]

/-- … while **surplus entries are not rejected there** (the model-level form of findings F17a–c): whatever numbers
follow the last expected universe are taken as the numeric arguments of the FILL keyword — a transformation number
when there is one of them, a translation when there are three — since the tokeniser has already dropped the parentheses
that would tell a transformation from further array entries -/
theorem fill_array_surplus_is_read_as_transformation (star : Bool) (kw r : String) (rs us extra : List String) (need : Int)
    (hkw : startKeyword kw = .fillFirst star)
    (hr : contains r ":" = true) (hrs : ∀ x ∈ rs, contains x ":" = true)
    (hsz : rangesSize (r :: rs) = .ok need)
    (hus : ∀ u ∈ us, classifyU u = .num ∧ contains u ":" = false)
    (hlen : (us.length : Int) = need) (hpos : 0 < need)
    (hex : ∀ p ∈ extra, numericLead p = true) :
    groupTokens (kw :: r :: (rs ++ us ++ extra)) = .ok [.fillArr star (r :: rs) us extra] := by
  unfold groupTokens
  rw [array_fill_reads star kw r rs us extra need [] hkw hr hrs hsz hus hlen hpos hex]
  simp [kwFinish]

-- (`kwmodel fill 0:1 0:0 3 4 7` on the driver answers `fill=A0,0:1;0:0,3;4,7`: the hypotheses are met by the tokens the
-- `kwmodel` stream of C15 draws; the kernel cannot evaluate `String.toNat?` inside `rangesSize`, so no `example` here)

end T4V.C17
