import T4V.Proofs.Expand
import T4V.Text.DataCard
import T4V.Spec.Comp
/-!
# Property C17 — unsupported or malformed input stops the run (decision logic, stated outright)

Each theorem says: *whenever the input has the fault, the modelled stage returns an error — for
every deck around it*.  The modelled stages are the ones the property lists whose logic lives in
pure functions: facet range check (`pot_expand_surfs`), FILL-array length (`expand_data_card` with
`expected`), IMP cards of unequal length (`parse_importance_cards`), mixed-sign material fractions
(`compositionConversionMCNPToT4`).  The remaining fault classes (m = -1, --lattice syntax, lattice
dimensionality, parameter counts, unknown mnemonic) are raised by code that is tied to the check by
fault injection only (see evidence, `not_proved`).
-/
namespace T4V.C17
open T4V

/-- a facet index larger than the number of facets of the body is rejected, whatever the rest of the
tree, the numbering state and the other surfaces -/
theorem facet_beyond_rejected (m : Matching) (n : Int) (j : Nat) (k : Nat) (ids : List Int)
    (hm : m.get? n.natAbs = some ids) (hj : j > ids.length) :
    potExpand m (.msurf n (some j)) k = .error (.badFacet n j ids.length) := by
  simp [potExpand, hm, hj]

/-- … and the error propagates through any enclosing node (first failing argument wins) -/
theorem facet_beyond_rejected_in_node (m : Matching) (nid : Nat) (op : Op) (pre post : List FTree) (t : FTree)
    (k : Nat) (pre' : List FTree) (k' : Nat) (e : Err)
    (hpre : potExpandList m pre k = .ok (pre', k')) (ht : potExpand m t k' = .error e) :
    potExpand m (.node nid op (pre ++ t :: post)) k = .error e := by
  have key : ∀ (pre pre' : List FTree) (k k' : Nat), potExpandList m pre k = .ok (pre', k') →
      potExpand m t k' = .error e → potExpandList m (pre ++ t :: post) k = .error e := by
    intro pre
    induction pre with
    | nil =>
      intro pre' k k' h ht
      simp only [potExpandList, Except.ok.injEq, Prod.mk.injEq] at h
      obtain ⟨_, rfl⟩ := h
      simp [potExpandList, ht, bind, Except.bind]
    | cons x xs ih =>
      intro pre' k k' h ht
      simp only [potExpandList] at h
      cases h1 : potExpand m x k with
      | error e1 => simp [h1, bind, Except.bind] at h
      | ok r1 =>
        obtain ⟨x1, k1⟩ := r1
        simp only [h1, bind, Except.bind] at h
        cases h2 : potExpandList m xs k1 with
        | error e2 => simp [h2] at h
        | ok r2 =>
          obtain ⟨xs2, k2⟩ := r2
          simp only [h2, Except.ok.injEq, Prod.mk.injEq] at h
          obtain ⟨_, rfl⟩ := h
          have := ih xs2 k1 k2 h2 ht
          simp [potExpandList, h1, this, bind, Except.bind]
  simp [potExpand, key pre pre' k k' hpre ht, bind, Except.bind]

/-- a FILL array (or any data card read with `expected = n`) that expands to fewer than `n` entries is
rejected -/
theorem fill_array_too_short (n : Nat) (ts : List (DTok Float)) (r : List (Option Float)) (c : Nat)
    (h : expandData (some n) ts [] 0 = .ok (r, c)) (hl : r.length ≠ n) :
    expandChecked (some n) ts = .error .expected := by
  simp [expandChecked, h, hl]

/-- IMP:x data cards of different lengths are rejected -/
theorem imp_cards_unequal_rejected (c : List (Option Float)) (cs : List (List (Option Float)))
    (hne : cs ≠ []) (h : ∃ d ∈ cs, d.length ≠ c.length) : importanceCards (c :: cs) = .error "unequal" := by
  obtain ⟨d, hd, hl⟩ := h
  cases cs with
  | nil => exact absurd rfl hne
  | cons x xs =>
    have : (x :: xs).any (fun y => y.length != c.length) = true := by
      rw [List.any_eq_true]
      exact ⟨d, hd, by simpa using hl⟩
    simp [importanceCards, this]

/-- a material card that mixes positive and negative fractions is rejected (whatever nuclides it lists) -/
theorem mixed_sign_rejected (tokens : List String) (z0 f0 : String) (rest : List (String × String))
    (he : matEntries tokens = (z0, f0) :: rest)
    (hmix : ∃ e ∈ rest, isNegLit e.2 ≠ isNegLit f0) :
    compExpected tokens = .error "mixed-signs" := by
  obtain ⟨e, hmem, hne⟩ := hmix
  have : ((z0, f0) :: rest).any (fun x => (!isNegLit x.2) != !isNegLit f0) = true := by
    rw [List.any_eq_true]
    refine ⟨e, List.mem_cons_of_mem _ hmem, ?_⟩
    cases h1 : isNegLit e.2 <;> cases h2 : isNegLit f0 <;> simp_all
  unfold compExpected
  rw [he]
  simp only [this, if_true]

/-! Non-vacuity: concrete inputs meeting the hypotheses. -/
example : potExpand [(7, [1, -2, 3])] (.msurf 7 (some 4)) 10 = .error (.badFacet 7 4 3) :=
  facet_beyond_rejected [(7, [1, -2, 3])] 7 4 10 [1, -2, 3] rfl (by decide)
example : importanceCards [[some 1, some 0], [some 1]] = .error "unequal" :=
  imp_cards_unequal_rejected _ _ (by simp) ⟨[some 1], by simp, by simp⟩

end T4V.C17
