import T4V.Text.DataCard
import Mathlib.Order.MinMax
import Mathlib.Order.Lattice
/-!
# Property C12 — exactly the zero-importance cells are left out (data-card expansion logic)

Model: `T4V.Text.DataCard` (`expand_data_card` as a stack machine, per-rank maximum over IMP:x cards).
Theorems are over an arbitrary scalar type (importances are only tested for being zero).
-/
namespace T4V.C12
open T4V

section
variable {α : Type} [Add α] [Sub α] [Mul α] [Div α] [OfNat α 0] [OfNat α 1]

/-- a card without shorthand expands to itself: entry `i` of the IMP card is the importance of the
`i`-th cell of the cell block -/
theorem plain_card_is_identity : ∀ (xs : List α) (acc : List (Option α)) (c : Nat),
    expandData none (xs.map DTok.num) acc c = .ok (acc ++ xs.map some, c + xs.length)
  | [], acc, c => by simp [expandData]
  | x :: xs, acc, c => by
      simp only [List.map_cons, expandData, Bool.false_eq_true, if_false]
      rw [plain_card_is_identity xs (acc ++ [some x]) (c + 1)]
      simp [Nat.add_assoc, Nat.add_comm 1]

/-- `x nR`: the value and `n` further copies of it (MCNP manual: "repeat the preceding entry n times") -/
theorem repeat_spec (x : α) (n : Nat) (rest : List (DTok α)) (acc : List (Option α)) (c : Nat) :
    expandData none (.num x :: .rep n :: rest) acc c =
      expandData none rest (acc ++ some x :: List.replicate n (some x)) (c + 2) := by
  simp [expandData, List.getLast?_append]

/-- `x fM`: the value followed by `x * f` -/
theorem multiply_spec (x f : α) (rest : List (DTok α)) (acc : List (Option α)) (c : Nat) :
    expandData none (.num x :: .mul f :: rest) acc c =
      expandData none rest (acc ++ [some x, some (x * f)]) (c + 2) := by
  simp [expandData, List.getLast?_append]

/-- `a nI b`: `a`, then `n` equally spaced interior values, then `b` -/
theorem interpolate_spec (a b : α) (n : Nat) (rest : List (DTok α)) (acc : List (Option α)) (c : Nat) :
    expandData none (.num a :: .interp n :: .num b :: rest) acc c =
      expandData none rest (acc ++ some a :: (linspace a b n).map some) (c + 3) := by
  simp [expandData, List.getLast?_append]

/-- the interpolation contributes exactly `n + 1` entries, the last one being the upper bound: cell
positions after an `nI` are not shifted -/
theorem linspace_length (a b : α) (n : Nat) : (linspace a b n).length = n + 1 := by
  simp [linspace]

theorem linspace_last (a b : α) (n : Nat) : (linspace a b n).getLast? = some b := by
  simp [linspace]

/-- a repeated zero stays zero: cells covered by `0 nR` all have zero importance -/
theorem repeat_zero (n : Nat) (i : Nat) (h : i < n + 1) :
    ((some (0 : α)) :: List.replicate n (some (0 : α)))[i]? = some (some 0) := by
  cases i with
  | zero => rfl
  | succ j =>
    simp only [List.getElem?_cons_succ]
    rw [List.getElem?_replicate]
    simp; omega
end

/-! ### which cells are left out: the importance of a cell and when it is zero -/
section
variable {β : Type} [LinearOrder β]

theorem ifmax_eq (a b : β) : (if a < b then b else a) = max a b := by
  rcases lt_trichotomy a b with h | h | h
  · simp [h, max_eq_right h.le]
  · subst h; simp
  · simp [not_lt.mpr h.le, max_eq_left h.le]

theorem maxOpt_some (a b : β) : maxOpt (some a) (some b) = some (max a b) := by
  simp [maxOpt, ifmax_eq]

theorem foldl_maxOpt_some (x : β) : ∀ (cs : List (List (Option β))) (xs : List β) (i : Nat),
    cs.map (·.getD i none) = xs.map some →
      cs.foldl (fun acc card => maxOpt acc (card.getD i none)) (some x) = some (xs.foldl max x)
  | [], xs, i, h => by
    cases xs with
    | nil => rfl
    | cons _ _ => simp at h
  | c :: cs, xs, i, h => by
    cases xs with
    | nil => simp at h
    | cons y ys =>
      simp only [List.map_cons, List.cons.injEq] at h
      simp only [List.foldl_cons, h.1, maxOpt_some]
      exact foldl_maxOpt_some (max x y) cs ys i h.2

/-- **with several `IMP:x` cards the importance of the cell in position `i` is the maximum of the entries `i`** -/
theorem cards_rank_maximum (c : List (Option β)) (cs : List (List (Option β))) (i : Nat) (x : β) (xs : List β)
    (hc : c.getD i none = some x) (hcs : cs.map (·.getD i none) = xs.map some) :
    rankMax c cs i = some (xs.foldl max x) := by
  unfold rankMax
  simp only [List.foldl_cons, hc, maxOpt_some, max_self]
  exact foldl_maxOpt_some x cs xs i hcs

theorem foldl_max_ge (xs : List β) (x : β) : x ≤ xs.foldl max x ∧ ∀ v ∈ xs, v ≤ xs.foldl max x := by
  induction xs generalizing x with
  | nil => simp
  | cons y ys ih =>
    obtain ⟨h1, h2⟩ := ih (max x y)
    refine ⟨le_trans (le_max_left x y) h1, ?_⟩
    intro v hv
    rcases List.mem_cons.mp hv with rfl | hv'
    · exact le_trans (le_max_right x v) h1
    · exact h2 v hv'

theorem foldl_max_mem (xs : List β) (x : β) : xs.foldl max x = x ∨ xs.foldl max x ∈ xs := by
  induction xs generalizing x with
  | nil => left; rfl
  | cons y ys ih =>
    rw [List.foldl_cons]
    rcases ih (max x y) with h | h
    · rw [h]
      rcases max_choice x y with hm | hm
      · left; exact hm
      · right; rw [hm]; exact List.mem_cons_self
    · right; exact List.mem_cons_of_mem _ h

/-- **the maximum of non-negative importances is zero exactly when every one of them is zero**: a cell is left out
iff its importance is zero for every particle type -/
theorem maximum_zero_iff_all_zero [Zero β] (x : β) (xs : List β) (hnn : ∀ v ∈ x :: xs, 0 ≤ v) :
    xs.foldl max x = 0 ↔ ∀ v ∈ x :: xs, v = 0 := by
  constructor
  · intro h v hv
    obtain ⟨h1, h2⟩ := foldl_max_ge xs x
    have hle : v ≤ 0 := by
      rcases List.mem_cons.mp hv with rfl | hv'
      · rw [← h]; exact h1
      · rw [← h]; exact h2 v hv'
    exact le_antisymm hle (hnn v hv)
  · intro h
    rcases foldl_max_mem xs x with e | e
    · rw [e]; exact h x List.mem_cons_self
    · exact h _ (List.mem_cons_of_mem _ e)

/-- the decision for one cell, keywords on the card first: with `IMP` keywords the cell is left out iff all of
them are zero, whatever the data cards say -/
theorem keyword_importance_zero_iff [Zero β] (v : β) (vs : List β) (cards : List (Option β)) (rank : Nat)
    (hnn : ∀ w ∈ v :: vs, 0 ≤ w) :
    cellImportance (v :: vs) cards rank = some 0 ↔ ∀ w ∈ v :: vs, w = 0 := by
  have : cellImportance (v :: vs) cards rank = some (vs.foldl max v) := by
    simp only [cellImportance, ifmax_eq]
  rw [this, Option.some.injEq]
  exact maximum_zero_iff_all_zero v vs hnn

/-- without `IMP` keywords the importance is the entry of the data cards at the position of the card -/
theorem data_card_importance (cards : List (Option β)) (rank : Nat) :
    cellImportance ([] : List β) cards rank = cards.getD rank none := rfl
end

/-- the model the driver runs is the generic one at `Float` -/
theorem two_cards_maximum (a b : Float) :
    importanceCards [[some a], [some b]] = .ok [some (if a < b then b else a)] := by
  simp [importanceCards, importanceCardsG, rankMax, maxOpt]

example : expandData (α := Nat) none [.num 1, .rep 2, .num 0, .rep 1] [] 0 =
    .ok ([some 1, some 1, some 1, some 0, some 0], 4) := by
  simp [expandData, List.replicate]

end T4V.C12
