import T4V.Text.DataCard
/-!
# Property C12 — exactly the zero-importance cells are left out (data-card expansion logic)

Model: `T4V.Text.DataCard` (`expand_data_card` as a stack machine, per-rank maximum over IMP:x cards).
Theorems are over an arbitrary scalar type (importances are only tested for being zero).
-/
namespace T4V.C12
open T4V

section
variable {α : Type} [Add α] [Sub α] [Mul α] [Div α] [OfNat α 0] [OfNat α 1]

/-- a card without shorthand expands to itself: entry `i` of the IMP card is the importance of the
`i`-th cell of the cell block -/
theorem plain_card_is_identity : ∀ (xs : List α) (acc : List (Option α)) (c : Nat),
    expandData none (xs.map DTok.num) acc c = .ok (acc ++ xs.map some, c + xs.length)
  | [], acc, c => by simp [expandData]
  | x :: xs, acc, c => by
      simp only [List.map_cons, expandData, Bool.false_eq_true, if_false]
      rw [plain_card_is_identity xs (acc ++ [some x]) (c + 1)]
      simp [Nat.add_assoc, Nat.add_comm 1]

/-- `x nR`: the value and `n` further copies of it (MCNP manual: "repeat the preceding entry n times") -/
theorem repeat_spec (x : α) (n : Nat) (rest : List (DTok α)) (acc : List (Option α)) (c : Nat) :
    expandData none (.num x :: .rep n :: rest) acc c =
      expandData none rest (acc ++ some x :: List.replicate n (some x)) (c + 2) := by
  simp [expandData, List.getLast?_append]

/-- `x fM`: the value followed by `x * f` -/
theorem multiply_spec (x f : α) (rest : List (DTok α)) (acc : List (Option α)) (c : Nat) :
    expandData none (.num x :: .mul f :: rest) acc c =
      expandData none rest (acc ++ [some x, some (x * f)]) (c + 2) := by
  simp [expandData, List.getLast?_append]

/-- `a nI b`: `a`, then `n` equally spaced interior values, then `b` -/
theorem interpolate_spec (a b : α) (n : Nat) (rest : List (DTok α)) (acc : List (Option α)) (c : Nat) :
    expandData none (.num a :: .interp n :: .num b :: rest) acc c =
      expandData none rest (acc ++ some a :: (linspace a b n).map some) (c + 3) := by
  simp [expandData, List.getLast?_append]

/-- the interpolation contributes exactly `n + 1` entries, the last one being the upper bound: cell
positions after an `nI` are not shifted -/
theorem linspace_length (a b : α) (n : Nat) : (linspace a b n).length = n + 1 := by
  simp [linspace]

theorem linspace_last (a b : α) (n : Nat) : (linspace a b n).getLast? = some b := by
  simp [linspace]

/-- a repeated zero stays zero: cells covered by `0 nR` all have zero importance -/
theorem repeat_zero (n : Nat) (i : Nat) (h : i < n + 1) :
    ((some (0 : α)) :: List.replicate n (some (0 : α)))[i]? = some (some 0) := by
  cases i with
  | zero => rfl
  | succ j =>
    simp only [List.getElem?_cons_succ]
    rw [List.getElem?_replicate]
    simp; omega
end

/-- with several IMP:x cards the importance of a cell is the maximum over the particle types (so,
for non-negative importances, zero iff zero for every type) -/
theorem two_cards_maximum (a b : Float) :
    importanceCards [[some a], [some b]] = .ok [some (if a < b then b else a)] := by
  simp [importanceCards]

example : expandData (α := Nat) none [.num 1, .rep 2, .num 0, .rep 1] [] 0 =
    .ok ([some 1, some 1, some 1, some 0, some 0], 4) := by
  simp [expandData, List.replicate]

end T4V.C12
