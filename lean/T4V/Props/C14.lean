import T4V.Text.Lex
import T4V.Text.Blocks
import T4V.Proofs.CellCard
import T4V.Proofs.CardSplit
import T4V.Proofs.OptTokens
/-!
# Property C14 — output does not depend on MCNP-insignificant formatting of the deck

Model: `T4V.Lex` (`get_cards(skipcomments=True)`, `is_continuation`, `expand_tabs`, `Card.content`).
Everything downstream of `Card.content` splits the one-line content at white space (`str.split`), so what a
card means to the converter is the word sequence of its content.
-/
namespace T4V.C14
open T4V.Lex

/-- `str.split()`: maximal runs of non-blank characters (`cur` = the word being read, reversed) -/
def wordsAux : List Char → List Char → List (List Char)
  | cur, [] => if cur.isEmpty then [] else [cur.reverse]
  | cur, c :: rest =>
      if isWs c then (if cur.isEmpty then wordsAux [] rest else cur.reverse :: wordsAux [] rest)
      else wordsAux (c :: cur) rest

def words (s : List Char) : List (List Char) := wordsAux [] s

theorem wordsAux_append_blank (b : List Char) : ∀ (a cur : List Char),
    wordsAux cur (a ++ ' ' :: b) = wordsAux cur a ++ words b
  | [], cur => by
      have : isWs ' ' = true := by decide
      by_cases h : cur.isEmpty <;> simp [wordsAux, words, this, h]
  | c :: a, cur => by
      by_cases hc : isWs c = true
      · by_cases h : cur.isEmpty <;> simp [wordsAux, hc, h, wordsAux_append_blank b a []]
      · simp [wordsAux, hc, wordsAux_append_blank b a (c :: cur)]

theorem words_append_blank (a b : List Char) : words (a ++ ' ' :: b) = words a ++ words b :=
  wordsAux_append_blank b a []

/-- collapsing white space does not change the words -/
theorem wordsAux_collapse : ∀ (s : List Char) (inWs : Bool) (cur : List Char), (inWs = true → cur = []) →
    wordsAux cur (collapseAux inWs s) = wordsAux cur s
  | [], _, _, _ => by simp [collapseAux]
  | c :: rest, inWs, cur, h => by
      have hsp : isWs ' ' = true := by decide
      by_cases hc : isWs c = true
      · cases inWs with
        | true =>
          have hcur := h rfl
          subst hcur
          simp [collapseAux, hc, wordsAux, wordsAux_collapse rest true [] (fun _ => rfl)]
        | false =>
          by_cases he : cur.isEmpty <;>
            simp [collapseAux, hc, wordsAux, hsp, he, wordsAux_collapse rest true [] (fun _ => rfl)]
      · simp [collapseAux, hc, wordsAux, wordsAux_collapse rest false (c :: cur) (by simp)]

theorem words_collapse (s : List Char) : words (collapse s) = words s :=
  wordsAux_collapse s false [] (by simp)

theorem words_join : ∀ (ps : List (List Char)), words ((ps.intersperse [' ']).flatten) = ps.flatMap words
  | [] => rfl
  | [p] => by simp
  | p :: q :: rest => by
      have ih := words_join (q :: rest)
      have e : ((p :: q :: rest).intersperse [' ']).flatten = p ++ ' ' :: ((q :: rest).intersperse [' ']).flatten := by
        simp [List.intersperse]
      rw [e, words_append_blank, ih]
      simp

theorem truncate_of_no_marker (l : List Char) (h : hasMarker l = false) : truncate l = l := by
  unfold truncate hasMarker at *
  induction l with
  | nil => rfl
  | cons x rest ih =>
    simp only [List.any_cons, Bool.or_eq_false_iff] at h
    have hx : (x != '$' && x != '&') = true := by
      have := h.1; simp only [Bool.or_eq_false_iff, beq_eq_false_iff_ne] at this
      simp [this.1, this.2]
    simp only [List.takeWhile_cons, hx, if_true, ih h.2]

/-- **what a card means**: the word sequence of `Card.content` is, line after line, the words standing
before the first `$` or `&` of the line -/
theorem content_words (card : List (List Char)) :
    words (content card) = card.flatMap fun l => words (truncate l) := by
  unfold content
  simp only [words_collapse, words_join, List.flatMap_assoc]
  congr 1
  funext l
  by_cases h : hasMarker l = true
  · simp [h, words, wordsAux]
  · have h' : hasMarker l = false := by simpa using h
    simp [h', truncate_of_no_marker l h']

/-- in-line comments: whatever follows a `$` is immaterial -/
theorem truncate_dollar_comment (l c : List Char) : truncate (l ++ '$' :: c) = truncate l := by
  unfold truncate
  induction l with
  | nil => simp
  | cons x rest ih =>
    by_cases hx : (x != '$' && x != '&') = true
    · simp only [List.cons_append, List.takeWhile_cons, hx, if_true, ih]
    · simp [List.takeWhile_cons, hx]

theorem dollar_comment_immaterial (pre post : List (List Char)) (l c : List Char) :
    words (content (pre ++ [l ++ '$' :: c] ++ post)) = words (content (pre ++ [l] ++ post)) := by
  simp only [content_words, List.flatMap_append, List.flatMap_cons, List.flatMap_nil, truncate_dollar_comment]

/-- blank space: lines with the same words before their first marker give the same card
(amount and kind of white space, tabs, trailing blanks) -/
theorem spacing_immaterial (card card' : List (List Char))
    (h : card.map (fun l => words (truncate l)) = card'.map (fun l => words (truncate l))) :
    words (content card) = words (content card') := by
  simp only [content_words, List.flatMap_def, h]

/-- continuation by a trailing `&` or by leading blanks: the same words -/
theorem continuation_forms_agree (l1 l2 : List Char) (h : hasMarker l1 = false) :
    words (content [l1 ++ [' ', '&'], l2]) = words (content [l1, List.replicate 5 ' ' ++ l2]) := by
  simp only [content_words, List.flatMap_cons, List.flatMap_nil, List.append_nil]
  have e1 : truncate (l1 ++ [' ', '&']) = l1 ++ [' '] := by
    unfold truncate
    have : ∀ c ∈ l1, (c != '$' && c != '&') = true := by
      intro c hc
      have := List.any_eq_false.mp h c hc
      simpa [Bool.or_eq_false_iff] using this
    rw [List.takeWhile_append_of_pos this]
    simp
  have e2 : words (l1 ++ [' ']) = words l1 := by
    have := words_append_blank l1 []
    simpa [words, wordsAux] using this
  have e3 : ∀ n, words (truncate (List.replicate n ' ' ++ l2)) = words (truncate l2) := by
    intro n
    induction n with
    | zero => simp
    | succ n ih =>
      have : truncate (List.replicate (n + 1) ' ' ++ l2) = ' ' :: truncate (List.replicate n ' ' ++ l2) := by
        simp [truncate, List.replicate_succ]
      rw [this]
      have hw := words_append_blank [] (truncate (List.replicate n ' ' ++ l2))
      simp only [List.nil_append] at hw
      rw [hw, ih]; simp [words, wordsAux]
  rw [e1, e2, e3 5, truncate_of_no_marker l1 h]

/-- full-line comments (`c` / `C` within the first five columns) anywhere in a block — between cards or
inside a card — do not change the cards -/
theorem comment_lines_immaterial (pre post : List (List Char)) (c : List Char) (hc : isCommentLine c = true) :
    getCards (pre ++ [c] ++ post) = getCards (pre ++ post) := by
  unfold getCards
  simp only [List.foldl_append, List.foldl_cons, List.foldl_nil]
  have : step (List.foldl step {} pre) c = List.foldl step {} pre := by simp [step, hc]
  rw [this]

/-- a blank run at the start of a line: five or more blanks (after tab expansion) continue the card,
whatever the previous line -/
theorem five_blanks_continue (l : List Char) (prev : Option (List Char)) (h : leading5 (expandTabs l) = true) :
    isContinuation l prev = true := by
  simp [isContinuation, h]

example : (contents ["1 0  -1 $ first".toList, "c a comment".toList, "     imp:n=1 &".toList, "u=2".toList,
    "2 0 1".toList]).map String.ofList = ["1 0 -1 imp:n=1 u=2", "2 0 1"] := by decide


/-! ### blocks: blank-line delimiters and the message block (`get_block_positions`) -/


/-- scanning a run of non-blank lines: they are added to the current block -/
theorem blocksAux_nonblank : ∀ (b : List (List Char)), (∀ l ∈ b, blankLine l = false) → ∀ rest cur acc inDelim,
    b ≠ [] → blocksAux (b ++ rest) cur acc inDelim = blocksAux rest (b.reverse ++ cur) acc false
  | [], _, _, _, _, _, h => absurd rfl h
  | [l], hb, rest, cur, acc, inDelim, _ => by
      have := hb l (by simp)
      simp [blocksAux, this]
  | l :: l2 :: b, hb, rest, cur, acc, inDelim, _ => by
      have h1 := hb l (by simp)
      have ih := blocksAux_nonblank (l2 :: b) (fun x hx => hb x (by simp [hx])) rest (l :: cur) acc false (by simp)
      simp only [List.cons_append, blocksAux, h1, Bool.false_eq_true, if_false] at ih ⊢
      rw [ih]
      simp

/-- scanning a non-empty run of blank lines after a block: the block is closed, once -/
theorem blocksAux_blank : ∀ (g : List (List Char)), (∀ l ∈ g, blankLine l = true) → g ≠ [] → ∀ rest cur acc,
    blocksAux (g ++ rest) cur acc false = blocksAux rest [] (cur.reverse :: acc) true
  | [], _, h, _, _, _ => absurd rfl h
  | [l], hg, _, rest, cur, acc => by
      have := hg l (by simp)
      simp [blocksAux, this]
  | l :: l2 :: g, hg, _, rest, cur, acc => by
      have h1 := hg l (by simp)
      have h2 := hg l2 (by simp)
      have key : ∀ (g' : List (List Char)), (∀ x ∈ g', blankLine x = true) → ∀ acc',
          blocksAux (g' ++ rest) [] acc' true = blocksAux rest [] acc' true := by
        intro g' hg' acc'
        induction g' with
        | nil => rfl
        | cons x g'' ih =>
          have hx := hg' x (by simp)
          simp only [List.cons_append, blocksAux, hx, if_true]
          exact ih (fun y hy => hg' y (by simp [hy]))
      simp only [List.cons_append, blocksAux, h1, if_true, Bool.false_eq_true, if_false]
      exact key (l2 :: g) (fun x hx => hg x (by simp [hx])) _

/-- **the delimiter between two blocks may be any non-empty run of blank lines** (empty lines, lines of blanks or
tabs, in any number): the blocks are the same -/
theorem delimiter_immaterial (g g' rest : List (List Char))
    (hg : ∀ l ∈ g, blankLine l = true) (hg' : ∀ l ∈ g', blankLine l = true) (hne : g ≠ []) (hne' : g' ≠ [])
    (cur : List (List Char)) (acc : List (List (List Char))) :
    blocksAux (g ++ rest) cur acc false = blocksAux (g' ++ rest) cur acc false := by
  rw [blocksAux_blank g hg hne, blocksAux_blank g' hg' hne']

/-- a message block in front: the blocks are the message block followed by the blocks of the rest -/
theorem message_block_split (msg : List (List Char)) (g rest : List (List Char))
    (hm : ∀ l ∈ msg, blankLine l = false) (hmne : msg ≠ []) (hg : ∀ l ∈ g, blankLine l = true) (hgne : g ≠ [])
    (hrest : ∀ l, rest.head? = some l → blankLine l = false) (hrne : rest ≠ []) :
    blocksOf (msg ++ g ++ rest) = msg :: blocksOf rest := by
  unfold blocksOf
  rw [List.append_assoc, blocksAux_nonblank msg hm _ _ _ _ hmne, blocksAux_blank g hg hgne]
  simp only [List.append_nil, List.reverse_reverse]
  -- after the delimiter the scan of `rest` proceeds as from the start, with the message block already recorded
  have gen : ∀ (ls : List (List Char)) (cur : List (List Char)) (acc : List (List (List Char))) (d : Bool),
      blocksAux ls cur (acc ++ [msg]) d = msg :: blocksAux ls cur acc d := by
    intro ls
    induction ls with
    | nil => intro cur acc d; cases d <;> simp [blocksAux]
    | cons l ls ih =>
      intro cur acc d
      by_cases hb : blankLine l = true
      · cases d
        · simp only [blocksAux, hb, if_true, Bool.false_eq_true, if_false]
          rw [← List.cons_append, ih]
        · simp only [blocksAux, hb, if_true]
          exact ih _ _ _
      · have hb' : blankLine l = false := by simpa using hb
        simp only [blocksAux, hb', Bool.false_eq_true, if_false]
        exact ih _ _ _
  cases rest with
  | nil => exact absurd rfl hrne
  | cons r rs =>
    have hr := hrest r rfl
    have := gen (r :: rs) [] [] true
    simp only [List.nil_append] at this
    rw [this]
    simp [blocksAux, hr]

/-- **a leading message block is immaterial**: title, cell, surface and data blocks are those of the deck without it -/
theorem message_block_immaterial (msg g rest : List (List Char))
    (hm : ∀ l ∈ msg, blankLine l = false) (hmne : msg ≠ []) (hg : ∀ l ∈ g, blankLine l = true) (hgne : g ≠ [])
    (hrest : ∀ l, rest.head? = some l → blankLine l = false) (hrne : rest ≠ [])
    (hmsg : startsWithMessage (joinLines (msg ++ g ++ rest)) = true)
    (hno : startsWithMessage (joinLines rest) = false) :
    (getBlocks (msg ++ g ++ rest)).map (fun b => (b.t, b.c, b.s, b.d)) =
      (getBlocks rest).map (fun b => (b.t, b.c, b.s, b.d)) := by
  unfold getBlocks
  rw [message_block_split msg g rest hm hmne hg hgne hrest hrne]
  simp only [hmsg, hno, if_true, Bool.false_eq_true, if_false, List.drop_succ_cons, List.drop_zero]
  generalize blocksOf rest = bs
  rcases bs with _ | ⟨b1, _ | ⟨b2, _ | ⟨b3, _ | ⟨b4, r⟩⟩⟩⟩ <;> rfl

/-! ### cell cards: number, material, geometry, options (`cellcard.split` on the one-line content of a card)

The content of a card has its blanks already normalised (one blank between words).  `OptsAt body o`: the options `o`
start with a letter or `*` right after the final `)` or blank of the text in front, which has no earlier place where
a blank or `)` is followed by a letter or `*` — or there are no options at all. -/
open T4V.CC in
/-- **a cell with a material**: for every cell number, every spelling of a non-zero material number, every density
(any word without `(`), every geometry that begins with a blank or `(`, and every options text, the split returns
exactly these pieces -/
theorem cell_card_split_material (ds m r g o : List Char)
    (hds : ds ≠ [] ∧ ∀ c ∈ ds, isDigit c = true)
    (hm : m ≠ [] ∧ ∀ c ∈ m, cws c = false) (hz : floatZero? m = some false)
    (hr : r ≠ [] ∧ ∀ c ∈ r, cws c = false ∧ c ≠ '(')
    (hg : ∀ c rest, g = c :: rest → cws c = true ∨ c = '(')
    (hopt : OptsAt (bodyNonvoid ds m r g) o) :
    splitCell (bodyNonvoid ds m r g ++ o) = .ok { name := ds, mat := ' ' :: m ++ ' ' :: r, geom := g, opts := o } :=
  split_nonvoid ds m r g o hds hm hz hr hg hopt

open T4V.CC in
/-- **a void cell**: any spelling of zero (`0`, `0.0`, `-0`, `0e5` …) is followed directly by the geometry -/
theorem cell_card_split_void (ds m g o : List Char)
    (hds : ds ≠ [] ∧ ∀ c ∈ ds, isDigit c = true)
    (hm : m ≠ [] ∧ ∀ c ∈ m, cws c = false) (hz : floatZero? m = some true)
    (hthird : ((g ++ o).dropWhile cws).isEmpty = false)
    (hopt : OptsAt (bodyVoid ds m (' ' :: g)) o) :
    splitCell (bodyVoid ds m (' ' :: g) ++ o) = .ok { name := ds, mat := ' ' :: m, geom := ' ' :: g, opts := o } :=
  split_void ds m g o hds hm hz hthird hopt

open T4V.CC in
/-- **which material numbers are "zero"**: `cellcard.split` decides void / non-void with `float(token) == 0`, i.e. on
the *double* the token rounds to.  A decimal written without exponent and with at most 323 fractional digits is zero
exactly when all its digits are zero (no underflow is possible there: 10^-323 > 2^-1075) … -/
theorem plain_decimal_zero_iff (ds : List Char) (nfrac : Nat) (h : nfrac ≤ 323) :
    underflows ds nfrac [] = (digitsNat ds == 0) := by
  unfold underflows
  by_cases hd : digitsNat ds = 0
  · simp [hd]
  · have hb : (digitsNat ds == 0) = false := by simpa using hd
    simp only [hb, List.drop_nil]
    by_cases hn : nfrac ≤ digitsNat (stripSign [])
    · simp [hn]
    · have h1 : 10 ^ nfrac ≤ 10 ^ 323 := Nat.pow_le_pow_right (by decide) h
      have h2 : 10 ^ 323 < 2 ^ 1075 := by decide +kernel
      have h3 : 2 ^ 1075 ≤ digitsNat ds * 2 ^ 1075 := Nat.le_mul_of_pos_left _ (Nat.pos_of_ne_zero hd)
      have he : digitsNat (stripSign []) = 0 := rfl
      have : ¬ (digitsNat ds * 2 ^ 1075 ≤ 10 ^ (nfrac - digitsNat (stripSign []))) := by
        rw [he, Nat.sub_zero]; omega
      simp [hn, this]

open T4V.CC in
/-- … while a non-zero decimal that underflows is "zero" for the split as it is for Python: `1.2e-431` is read as a
void cell's material, `4.9e-324` (the smallest subnormal) and `2.5e-324` (which rounds up to it) are not, `2.4e-324`
(below half of it) is -/
theorem underflowing_material_is_void :
    floatZero? "1.2e-431".toList = some true ∧ floatZero? "4.9e-324".toList = some false ∧
    floatZero? "2.5e-324".toList = some false ∧ floatZero? "2.4e-324".toList = some true ∧
    floatZero? "0.0e5".toList = some true ∧ floatZero? "1e-400".toList = some true := by
  refine ⟨?_, ?_, ?_, ?_, ?_, ?_⟩ <;> decide +kernel

open T4V.CC in
/-- **`LIKE n BUT`**: whatever the letter case of `like` and of `but`, the options are what follows the last `but` -/
theorem cell_card_split_like (ds mid o : List Char) (l i k e x y z : Char)
    (hds : ds ≠ [] ∧ ∀ c ∈ ds, isDigit c = true)
    (hlk : [l, i, k, e].map lower = "like".toList) (hb : isBut x y z = true)
    (ho : lastBut o = none)
    (ho1 : ∀ a b rest, o = a :: b :: rest → isBut z a b = false)
    (ho2 : ∀ a rest, o = a :: rest → isBut y z a = false) :
    splitCell (ds ++ ' ' :: l :: i :: k :: e :: ' ' :: (mid ++ x :: y :: z :: o))
      = .ok { name := ds, mat := [], geom := ' ' :: l :: i :: k :: e :: ' ' :: (mid ++ [x, y, z]), opts := o } :=
  split_like ds mid o l i k e x y z hds hlk hb ho ho1 ho2

open T4V.CC in
/-- a text without letters and `*` has no place where options could start (so `OptsAt` holds for cards whose
density has no exponent letter as soon as the options follow a blank or `)`) -/
theorem no_options_in_plain_text (cs : List Char) (h : ∀ c ∈ cs, (c == '*' || isLetter c) = false) :
    findOptions cs = none := findOptions_none_of_plain cs h

open T4V.CC in
example : splitCell "5 1 -2.7e0 -1 (2:3) #4 imp:n=1 u=2".toList
    = .ok { name := "5".toList, mat := " 1 -2.7e0".toList, geom := " -1 (2:3) #4 ".toList, opts := "imp:n=1 u=2".toList } := by rfl
open T4V.CC in
example : splitCell "7 0.0 (1 2)*trcl=(1 0 0)".toList
    = .ok { name := "7".toList, mat := " 0.0".toList, geom := " (1 2)".toList, opts := "*trcl=(1 0 0)".toList } := by rfl
open T4V.CC in
example : splitCell "12 LiKe 5 bUt imp:n=0".toList
    = .ok { name := "12".toList, mat := [], geom := " LiKe 5 bUt".toList, opts := " imp:n=0".toList } := by rfl

/-! ### surface and data cards (`surfacecard.split`, `datacard.split` on the one-line content) -/
open T4V.CC in
/-- **a surface card** `[*+]n mnemonic parameters` is cut into exactly these fields: any boundary flags, any number,
any mnemonic of letters and `/` in any letter case, any parameter text -/
theorem surface_card_split (flags ds mn params : List Char)
    (hf : ∀ c ∈ flags, isFlag c = true) (hds : ds ≠ [] ∧ ∀ c ∈ ds, isDigit c = true)
    (hmn : mn ≠ [] ∧ ∀ c ∈ mn, isMnChar c = true) (hp : ∀ c r, params = c :: r → cws c = false) :
    splitSurface (flags ++ (ds ++ ' ' :: (mn ++ ' ' :: params)))
      = some { name := flags ++ ds, tr := [], mn := mn, params := params } :=
  split_surface_plain flags ds mn params hf hds hmn hp

open T4V.CC in
/-- **the letter case of a surface mnemonic is immaterial**: the card is cut at the same places whatever the case of
the mnemonic, and the reader lower-cases the mnemonic it gets (`get_surfaces`: `t.strip().lower()`), so `PX`, `Px`
and `px` are the same card -/
theorem surface_mnemonic_case_immaterial (flags ds mn mn' params : List Char)
    (hf : ∀ c ∈ flags, isFlag c = true) (hds : ds ≠ [] ∧ ∀ c ∈ ds, isDigit c = true)
    (hmn : mn ≠ [] ∧ ∀ c ∈ mn, isMnChar c = true) (hmn' : mn' ≠ [] ∧ ∀ c ∈ mn', isMnChar c = true)
    (hp : ∀ c r, params = c :: r → cws c = false) (h : mn.map lower = mn'.map lower) :
    (splitSurface (flags ++ (ds ++ ' ' :: (mn ++ ' ' :: params)))).map (fun p => { p with mn := p.mn.map lower }) =
    (splitSurface (flags ++ (ds ++ ' ' :: (mn' ++ ' ' :: params)))).map (fun p => { p with mn := p.mn.map lower }) := by
  rw [split_surface_plain flags ds mn params hf hds hmn hp, split_surface_plain flags ds mn' params hf hds hmn' hp]
  simp [h]

open T4V.CC in
/-- **a surface card with a transformation number** `[*+]n [±]t mnemonic parameters` -/
theorem surface_card_split_tr (flags ds sg td mn params : List Char)
    (hf : ∀ c ∈ flags, isFlag c = true) (hds : ds ≠ [] ∧ ∀ c ∈ ds, isDigit c = true)
    (hsg : ∀ c ∈ sg, isSign c = true) (htd : td ≠ [] ∧ ∀ c ∈ td, isDigit c = true)
    (hmn : mn ≠ [] ∧ ∀ c ∈ mn, isMnChar c = true) (hp : ∀ c r, params = c :: r → cws c = false) :
    splitSurface (flags ++ (ds ++ ' ' :: (sg ++ (td ++ ' ' :: (mn ++ ' ' :: params)))))
      = some { name := flags ++ ds, tr := sg ++ td ++ [' '], mn := mn, params := params } :=
  split_surface_tr flags ds sg td mn params hf hds hsg htd hmn hp

open T4V.CC in
/-- **a numbered data card** (`m1 …`, `tr5 …`, `*TR5 …`): type (with its stars, any letter case), number, the rest -/
theorem data_card_split (stars ls ds rest : List Char)
    (hst : ∀ c ∈ stars, (c == '*') = true) (hls : ls ≠ [] ∧ ∀ c ∈ ls, isLetter c = true)
    (hds : ds ≠ [] ∧ ∀ c ∈ ds, isDigit c = true) :
    splitData (stars ++ (ls ++ (ds ++ ' ' :: rest)))
      = some { typ := stars ++ ls, name := ds, star := [], params := ' ' :: rest } :=
  split_data_numbered stars ls ds rest hst hls hds

open T4V.CC in
example : splitSurface "*12 -3 c/Z 1.5 -2 4".toList
    = some { name := "*12".toList, tr := "-3 ".toList, mn := "c/Z".toList, params := "1.5 -2 4".toList } := by decide
open T4V.CC in
example : splitData "*TR5 0 0 1 30 60 90".toList
    = some { typ := "*TR".toList, name := "5".toList, star := [], params := " 0 0 1 30 60 90".toList } := by decide
-- observation O3 as the model shows it: the first entry `.5` of an `IMP:N` card loses its point to the card name
open T4V.CC in
example : splitData "imp:n .5 1 1".toList
    = some { typ := "imp:n .".toList, name := "5".toList, star := [], params := " 1 1".toList } := by decide

/-! ### keyword tokens of a cell card (`parse_one_cell_worker`: colons squeezed, lower-cased, `( ) =` → blank, split) -/
open T4V.CC in
/-- **letter case of the cell keywords is immaterial**: option texts that differ only in the case of their letters
give the same tokens to `parse_keywords` -/
theorem keyword_case_immaterial (s s' : List Char) (h : s.map lower = s'.map lower) : optTokens s = optTokens s' :=
  optTokens_case_insensitive s s' h

open T4V.CC in
/-- `str.split()` returns the words of a text whose words are separated by single blanks (what `Card.content`
produces) -/
theorem split_returns_the_words (words : List (List Char)) (h : ∀ x ∈ words, x ≠ [] ∧ ∀ c ∈ x, cws c = false) :
    splitWs (joinSp words) = words := splitWs_join words h

open T4V.CC in
example : optTokens "IMP : N=1 *Fill=3 (1 0 0)  TrCl=( 0 0 1 )U=2".toList
    = ["imp:n", "1", "*fill", "3", "1", "0", "0", "trcl", "0", "0", "1", "u", "2"].map String.toList := by decide

end T4V.C14
