import T4V.Model.Fill
/-!
# Property C05 — universes and FILL: points are located through the hierarchy

Model: `T4V.Model.Fill` (`pot_fill`).  `inCell k p`: the point `p`, given in the frame of cell `k`'s
universe, lies in cell `k`'s own region; `move c p`: the coordinates of `p` in the frame of the universe
filling container `c` (the FILL transformation, or the container's TRCL when the FILL has none — which
of the two is decided in `pot_fill` and checked by the monitor).  Both are arbitrary here: the theorems
hold for every geometry and every transformation at every level.
-/
namespace T4V.C05
open T4V
variable {P : Type}

/-- a new cell = container ∧ filler leaf seen through the container's frame map -/
theorem wrap_contains (inCell : Nat → P → Bool) (move : Nat → P → P) (l : FLeaf) (c : FCell) (p : P) :
    (l.wrap c).contains inCell move p = (inCell c.id p && l.contains inCell move (move c.id p)) := by
  simp [FLeaf.contains, FLeaf.wrap, containsPath]

theorem mapM_some_cons {f : FCell → Option (List FLeaf)} {e : FCell} {es : List FCell} {ls : List (List FLeaf)}
    (h : (e :: es).mapM f = some ls) : ∃ l rest, f e = some l ∧ es.mapM f = some rest ∧ ls = l :: rest := by
  simp only [List.mapM_cons, bind, Option.bind] at h
  cases hf : f e with
  | none => simp [hf] at h
  | some l =>
    simp only [hf] at h
    cases hr : es.mapM f with
    | none => simp [hr] at h
    | some rest => simp [hr] at h; exact ⟨l, rest, rfl, rfl, h.symm⟩

/-- **the part of a universe lying outside its container produces nothing**, and a leaf that contains a
point lies inside the cell it was generated from -/
theorem leaf_inside (cells : List FCell) (inCell : Nat → P → Bool) (move : Nat → P → P) :
    ∀ (fuel : Nat) (c : FCell) (leaves : List FLeaf), fillCells cells fuel c = some leaves →
      ∀ l ∈ leaves, ∀ p, l.contains inCell move p = true → inCell c.id p = true
  | 0, _, _, h => by simp [fillCells] at h
  | fuel + 1, c, leaves, h => by
      intro l hl p hp
      unfold fillCells at h
      cases hf : c.fill with
      | none =>
        simp only [hf, Option.some.injEq] at h
        subst h
        simp only [List.mem_singleton] at hl
        subst hl
        simpa [FLeaf.contains, containsPath] using hp
      | some u =>
        simp only [hf, Option.map_eq_some_iff] at h
        obtain ⟨ls, -, rfl⟩ := h
        obtain ⟨l', -, rfl⟩ := List.mem_map.mp hl
        rw [wrap_contains] at hp
        exact (Bool.and_eq_true _ _ ▸ hp).1

theorem count_flatten {f : FCell → Option (List FLeaf)} (pred : FLeaf → Bool) (g : FCell → Bool) :
    ∀ (es : List FCell) (ls : List (List FLeaf)), es.mapM f = some ls →
      (∀ e ∈ es, ∀ l, f e = some l → (l.filter pred).length = if g e then 1 else 0) →
      (ls.flatten.filter pred).length = (es.filter g).length
  | [], ls, h, _ => by
      simp only [List.mapM_nil, pure, Option.some.injEq] at h
      subst h; rfl
  | e :: es, ls, h, hall => by
      obtain ⟨l, rest, hl, hrest, rfl⟩ := mapM_some_cons h
      have ih := count_flatten pred g es rest hrest (fun e' he' => hall e' (List.mem_cons_of_mem _ he'))
      have h1 := hall e (List.mem_cons_self) l hl
      simp only [List.flatten_cons, List.filter_append, List.length_append, ih, h1, List.filter_cons]
      by_cases hg : g e = true <;> simp [hg]; omega

/-- **exactly-one location through the hierarchy**: if in every universe every point lies in exactly one
cell, then every point of a (filled or unfilled) cell lies in exactly one of the cells `pot_fill`
generates from it — at any nesting depth, with any transformation at each level, with one universe
filling any number of containers -/
theorem located_in_exactly_one (cells : List FCell) (inCell : Nat → P → Bool) (move : Nat → P → P)
    (hpart : ∀ (u : Nat) (q : P), ((cells.filter (·.univ == u)).filter fun e => inCell e.id q).length = 1) :
    ∀ (fuel : Nat) (c : FCell) (leaves : List FLeaf), fillCells cells fuel c = some leaves → ∀ p,
      (leaves.filter fun l => l.contains inCell move p).length = if inCell c.id p then 1 else 0
  | 0, _, _, h => by simp [fillCells] at h
  | fuel + 1, c, leaves, h => by
      intro p
      unfold fillCells at h
      cases hf : c.fill with
      | none =>
        simp only [hf, Option.some.injEq] at h
        subst h
        by_cases hc : inCell c.id p = true <;> simp [FLeaf.contains, containsPath, hc]
      | some u =>
        simp only [hf, Option.map_eq_some_iff] at h
        obtain ⟨ls, hls, rfl⟩ := h
        rw [List.filter_map, List.length_map]
        by_cases hc : inCell c.id p = true
        · have e : ((fun l : FLeaf => l.contains inCell move p) ∘ fun l : FLeaf => l.wrap c) =
              fun l : FLeaf => l.contains inCell move (move c.id p) := by
            funext l; simp [wrap_contains, hc]
          rw [e, count_flatten _ (fun e => inCell e.id (move c.id p)) _ ls hls
            (fun e _ l hl => located_in_exactly_one cells inCell move hpart fuel e l hl (move c.id p))]
          rw [hpart u (move c.id p)]; simp [hc]
        · have e : ((fun l : FLeaf => l.contains inCell move p) ∘ fun l : FLeaf => l.wrap c) = fun _ => false := by
            funext l; simp [wrap_contains, hc]
          rw [e]
          have : ∀ (xs : List FLeaf), xs.filter (fun _ => false) = [] := fun xs => by induction xs <;> simp_all
          rw [this]; simp [hc]

/-- **provenance**: the comment of a generated cell lists (filler cell, container) for every level, the
filler being the unfilled cell at the bottom of the chain; material and density are the filler's -/
theorem provenance (cells : List FCell) :
    ∀ (fuel : Nat) (c : FCell) (leaves : List FLeaf), fillCells cells fuel c = some leaves →
      ∀ l ∈ leaves, l.origin = l.path.map (fun k => (l.base, k)) ∧
        (∃ b ∈ c :: cells, b.id = l.base ∧ b.fill = none ∧ l.mat = b.mat ∧ l.rho = b.rho) ∧
        (l.path = [] ∨ l.path.getLast? = some c.id)
  | 0, _, _, h => by simp [fillCells] at h
  | fuel + 1, c, leaves, h => by
      intro l hl
      unfold fillCells at h
      cases hf : c.fill with
      | none =>
        simp only [hf, Option.some.injEq] at h
        subst h
        simp only [List.mem_singleton] at hl
        subst hl
        exact ⟨rfl, ⟨c, List.mem_cons_self, rfl, hf, rfl, rfl⟩, Or.inl rfl⟩
      | some u =>
        simp only [hf, Option.map_eq_some_iff] at h
        obtain ⟨ls, hls, rfl⟩ := h
        obtain ⟨l', hl', rfl⟩ := List.mem_map.mp hl
        -- l' comes from some cell e of universe u
        have : ∃ e ∈ cells, ∃ le, fillCells cells fuel e = some le ∧ l' ∈ le := by
          clear hl
          generalize hes : cells.filter (·.univ == u) = es at hls
          have hsub : ∀ e ∈ es, e ∈ cells := fun e he => (List.mem_filter.mp (hes ▸ he)).1
          clear hes
          induction es generalizing ls with
          | nil =>
            simp only [List.mapM_nil, pure, Option.some.injEq] at hls
            subst hls; simp at hl'
          | cons e es ih =>
            obtain ⟨le, rest, hle, hrest, rfl⟩ := mapM_some_cons hls
            simp only [List.flatten_cons, List.mem_append] at hl'
            rcases hl' with h1 | h2
            · exact ⟨e, hsub e List.mem_cons_self, le, hle, h1⟩
            · exact ih rest h2 hrest (fun e' he' => hsub e' (List.mem_cons_of_mem _ he'))
        obtain ⟨e, he, le, hle, hmem⟩ := this
        obtain ⟨ho, ⟨b, hb, hbid, hbf, hbm, hbr⟩, _⟩ := provenance cells fuel e le hle l' hmem
        refine ⟨?_, ⟨b, ?_, hbid, hbf, hbm, hbr⟩, Or.inr (by simp [FLeaf.wrap])⟩
        · simp only [FLeaf.wrap, List.map_append, List.map_cons, List.map_nil, ho]
          congr 2
          cases hp : l'.path with
          | nil => simp
          | cons k ks => simp
        · rcases List.mem_cons.mp hb with rfl | hb'
          · exact List.mem_cons_of_mem _ he
          · exact List.mem_cons_of_mem _ hb'

/-! ### which frame: the FILL transformation, or else the container's TRCLs -/

/-- **the FILL transformation takes precedence**: when a cell has both, its TRCL does not enter the frame of the
filling universe -/
theorem fill_transformation_overrides_trcl (c : FCell) (t : Nat) (h : c.filltr = some t) : c.frameTrs = [t] := by
  simp [FCell.frameTrs, h]

/-- when the FILL has no transformation the universe is placed by the container's TRCLs, in their order -/
theorem trcl_places_the_universe (c : FCell) (h : c.filltr = none) : c.frameTrs = c.trcl := by
  simp [FCell.frameTrs, h]

/-- **the transformations a generated cell has gone through**: for the containers on its path, innermost first, the
frame transformations of each, in that order — at any nesting depth -/
theorem frame_choice (cells : List FCell) :
    ∀ (fuel : Nat) (c : FCell) (leaves : List FLeaf), fillCells cells fuel c = some leaves →
      ∀ l ∈ leaves, ∃ cs : List FCell, cs.map (·.id) = l.path ∧ (∀ x ∈ cs, x ∈ c :: cells) ∧
        l.moves = cs.flatMap FCell.frameTrs
  | 0, _, _, h => by simp [fillCells] at h
  | fuel + 1, c, leaves, h => by
      intro l hl
      unfold fillCells at h
      cases hf : c.fill with
      | none =>
        simp only [hf, Option.some.injEq] at h
        subst h
        simp only [List.mem_singleton] at hl
        subst hl
        exact ⟨[], rfl, by simp, rfl⟩
      | some u =>
        simp only [hf, Option.map_eq_some_iff] at h
        obtain ⟨ls, hls, rfl⟩ := h
        obtain ⟨l', hl', rfl⟩ := List.mem_map.mp hl
        have : ∃ e ∈ cells, ∃ le, fillCells cells fuel e = some le ∧ l' ∈ le := by
          clear hl
          generalize hes : cells.filter (·.univ == u) = es at hls
          have hsub : ∀ e ∈ es, e ∈ cells := fun e he => (List.mem_filter.mp (hes ▸ he)).1
          clear hes
          induction es generalizing ls with
          | nil =>
            simp only [List.mapM_nil, pure, Option.some.injEq] at hls
            subst hls; simp at hl'
          | cons e es ih =>
            obtain ⟨le, rest, hle, hrest, rfl⟩ := mapM_some_cons hls
            simp only [List.flatten_cons, List.mem_append] at hl'
            rcases hl' with h1 | h2
            · exact ⟨e, hsub e List.mem_cons_self, le, hle, h1⟩
            · exact ih rest h2 hrest (fun e' he' => hsub e' (List.mem_cons_of_mem _ he'))
        obtain ⟨e, he, le, hle, hmem⟩ := this
        obtain ⟨cs, hcs, hin, hmv⟩ := frame_choice cells fuel e le hle l' hmem
        refine ⟨cs ++ [c], by simp [FLeaf.wrap, hcs], ?_, by simp [FLeaf.wrap, hmv]⟩
        intro x hx
        rcases List.mem_append.mp hx with h1 | h2
        · rcases List.mem_cons.mp (hin x h1) with rfl | h3
          · exact List.mem_cons_of_mem _ he
          · exact List.mem_cons_of_mem _ h3
        · simp only [List.mem_singleton] at h2
          subst h2; exact List.mem_cons_self

section
variable {P : Type}
/-- a point of the outermost container's frame, carried through the containers (outermost first) into the frame of
the base cell: each container maps it by its frame transformations (`act t p`: the coordinates of `p` before the
move `t`, MCNP's `toAux`; the last move applied is undone first) -/
def transportCells (act : Nat → P → P) : List FCell → P → P
  | [], p => p
  | c :: inner, p => transportCells act inner (c.frameTrs.foldr act p)

/-- **the recorded moves realise the nested frame maps**: undoing the moves of a generated cell, last one first, is
the same as walking the point through the containers from the outside in -/
theorem moves_transport (act : Nat → P → P) (cs : List FCell) (p : P) :
    transportCells act cs.reverse p = (cs.flatMap FCell.frameTrs).foldr act p := by
  induction cs generalizing p with
  | nil => rfl
  | cons c cs ih =>
    have happ : ∀ (a : List FCell) (q : P),
        transportCells act (a ++ [c]) q = c.frameTrs.foldr act (transportCells act a q) := by
      intro a
      induction a with
      | nil => intro q; rfl
      | cons x xs ihx => intro q; simp only [List.cons_append, transportCells]; exact ihx _
    rw [List.reverse_cons, happ, ih, List.flatMap_cons, List.foldr_append]
end

example : fillCells [{ id := 1, univ := 0, fill := some 5, filltr := some 71, trcl := [72] },
      { id := 2, univ := 5, mat := "3", rho := "-1.0" },
      { id := 3, univ := 5, fill := some 6, trcl := [73, 74] }, { id := 4, univ := 6, mat := "7", rho := "-2" }] 5
    { id := 1, univ := 0, fill := some 5, filltr := some 71, trcl := [72] } =
    some [{ base := 2, path := [1], origin := [(2, 1)], mat := "3", rho := "-1.0", moves := [71] },
          { base := 4, path := [3, 1], origin := [(4, 3), (4, 1)], mat := "7", rho := "-2", moves := [73, 74, 71] }] := by
  decide

end T4V.C05
