import T4V.Model.Transform
import T4V.Proofs.Macro
/-!
# Rigid motions applied to surfaces: lemmas for `Props/C04`
-/
set_option linter.unusedSectionVars false
set_option linter.unusedSimpArgs false
set_option linter.unusedTactic false
set_option linter.unreachableTactic false
set_option linter.unnecessarySeqFocus false
namespace T4V.Tr
open T4V T4V.Surf
variable {α : Type} [Field α] [LinearOrder α] [IsStrictOrderedRing α] [Transc α]

/-- the matrix of a rigid motion: rows and columns orthonormal -/
structure Rot (b : M3 α) : Prop where
  r11 : b.r1.dot b.r1 = 1
  r22 : b.r2.dot b.r2 = 1
  r33 : b.r3.dot b.r3 = 1
  r12 : b.r1.dot b.r2 = 0
  r13 : b.r1.dot b.r3 = 0
  r23 : b.r2.dot b.r3 = 0
  c11 : b.r1.x * b.r1.x + b.r2.x * b.r2.x + b.r3.x * b.r3.x = 1
  c22 : b.r1.y * b.r1.y + b.r2.y * b.r2.y + b.r3.y * b.r3.y = 1
  c33 : b.r1.z * b.r1.z + b.r2.z * b.r2.z + b.r3.z * b.r3.z = 1
  c12 : b.r1.x * b.r1.y + b.r2.x * b.r2.y + b.r3.x * b.r3.y = 0
  c13 : b.r1.x * b.r1.z + b.r2.x * b.r2.z + b.r3.x * b.r3.z = 0
  c23 : b.r1.y * b.r1.z + b.r2.y * b.r2.z + b.r3.y * b.r3.z = 0

theorem V3.ext' {a b : V3 α} (hx : a.x = b.x) (hy : a.y = b.y) (hz : a.z = b.z) : a = b := by
  cases a; cases b; simp_all

/-- `transform_point` is MCNP's "auxiliary → main" map -/
theorem trPoint_eq_toMain (m : Motion α) (q : V3 α) : trPoint m q = m.toMain q := by
  apply V3.ext' <;> simp [trPoint, trVector, Motion.toMain, Motion.toMainVec, M3.mulVec, M3.transpose, V3.dot, V3.add] <;> ring

/-- **the motion is invertible**: main → auxiliary → main and back -/
theorem toAux_toMain (m : Motion α) (h : Rot m.b) (q : V3 α) : m.toAux (m.toMain q) = q := by
  obtain ⟨h11, h22, h33, h12, h13, h23, -, -, -, -, -, -⟩ := h
  simp only [V3.dot] at *
  apply V3.ext' <;>
    simp only [Motion.toAux, Motion.toMain, Motion.toMainVec, M3.mulVec, M3.transpose, V3.dot, V3.add, V3.sub]
  · linear_combination q.x * h11 + q.y * h12 + q.z * h13
  · linear_combination q.x * h12 + q.y * h22 + q.z * h23
  · linear_combination q.x * h13 + q.y * h23 + q.z * h33

theorem toMain_toAux (m : Motion α) (h : Rot m.b) (p : V3 α) : m.toMain (m.toAux p) = p := by
  obtain ⟨-, -, -, -, -, -, c11, c22, c33, c12, c13, c23⟩ := h
  apply V3.ext' <;>
    simp only [Motion.toAux, Motion.toMain, Motion.toMainVec, M3.mulVec, M3.transpose, V3.dot, V3.add, V3.sub]
  · linear_combination (p.x - m.o.x) * c11 + (p.y - m.o.y) * c12 + (p.z - m.o.z) * c13
  · linear_combination (p.x - m.o.x) * c12 + (p.y - m.o.y) * c22 + (p.z - m.o.z) * c23
  · linear_combination (p.x - m.o.x) * c13 + (p.y - m.o.y) * c23 + (p.z - m.o.z) * c33

/-- `transform_vector` preserves scalar products -/
theorem dot_trVector (m : Motion α) (h : Rot m.b) (a b : V3 α) : (trVector m a).dot (trVector m b) = a.dot b := by
  obtain ⟨h11, h22, h33, h12, h13, h23, -, -, -, -, -, -⟩ := h
  simp only [V3.dot, trVector] at *
  linear_combination (a.x * b.x) * h11 + (a.y * b.y) * h22 + (a.z * b.z) * h33 + (a.x * b.y + a.y * b.x) * h12 +
    (a.x * b.z + a.z * b.x) * h13 + (a.y * b.z + a.z * b.y) * h23

theorem sub_trPoint (m : Motion α) (q pt : V3 α) : (m.toMain q).sub (trPoint m pt) = trVector m (q.sub pt) := by
  apply V3.ext' <;>
    simp [trPoint, trVector, Motion.toMain, Motion.toMainVec, M3.mulVec, M3.transpose, V3.dot, V3.add, V3.sub] <;> ring

/-- **quadrics**: the transformed coefficients evaluate, at any point, to the original quadric at the
point's auxiliary coordinates (any matrix, any displacement) -/
theorem quad_transport (a b c d e f g h j k : α) (m : Motion α) (p : V3 α) :
    ∃ q', transformQuad [a, b, c, d, e, f, g, h, j, k] m = some q' ∧
      evalQuadric q' p = evalQuadric [a, b, c, d, e, f, g, h, j, k] (m.toAux p) := by
  refine ⟨_, rfl, ?_⟩
  simp only [evalQuadric, mm4, Motion.toAux, M3.mulVec, V3.dot, V3.sub, half, two]
  congr 1
  ring

theorem norm2_trVector (m : Motion α) (h : Rot m.b) (a : V3 α) : (trVector m a).norm2 = a.norm2 :=
  dot_trVector m h a a

/-- **frames**: plane, sphere, cylinder and cone frames moved by `transform_frame` describe, at any
point `p`, what the original frame describes at the auxiliary coordinates of `p` -/
theorem frame_transport (m : Motion α) (h : Rot m.b) (s : MSurf α)
    (hk : s.kind = .p ∨ s.kind = .s ∨ s.kind = .c ∨ s.kind = .k) :
    ∃ s', transformSurf m s = some s' ∧ s'.kind = s.kind ∧ s'.compl = s.compl ∧ s'.nappe = s.nappe ∧
      s'.ax.dot s'.ax = s.ax.dot s.ax ∧ ∀ t2 p, frameF s' t2 p = frameF s t2 (m.toAux p) := by
  refine ⟨{ s with pt := trPoint m s.pt, ax := trVector m s.ax }, ?_, rfl, rfl, rfl, dot_trVector m h _ _, ?_⟩
  · rcases hk with hk | hk | hk | hk <;> simp [transformSurf, hk]
  · intro t2 p
    have hp : p = m.toMain (m.toAux p) := (toMain_toAux m h p).symm
    generalize m.toAux p = q at hp
    subst hp
    rcases hk with hk | hk | hk | hk <;>
      simp only [frameF, hk, sub_trPoint, dot_trVector m h, norm2_trVector m h] <;>
      (cases s.compl with | nil => rfl | cons r rest => cases rest <;> rfl)

theorem sphere_frame_same (s : MSurf α) (r : α) (hk : s.kind = .s) (hc : s.compl = [r]) :
    ∃ t, convertSurf s = some [(t, 1)] ∧ Same t fun p => (p.sub s.pt).norm2 - sq r := by
  refine ⟨{ kind := .sphere, ps := [s.pt.x, s.pt.y, s.pt.z, r] }, by simp [convertSurf, hk, hc], 1, one_pos, fun p => ?_⟩
  simp [TSurf.f, TSurf.fLocal, V3.norm2, V3.dot, V3.sub, sq]

theorem plane_frame_same (s : MSurf α) (hk : s.kind = .p) :
    ∃ t, convertSurf s = some [(t, 1)] ∧ Same t fun p => s.ax.dot (p.sub s.pt) :=
  ⟨convertPlane s.pt s.ax, by simp [convertSurf, hk], convertPlane_same s.pt s.ax⟩

/-- `t`'s implicit function is a positive multiple of the (partial) function `F` wherever `F` is defined -/
def SameOpt (t : TSurf α) (F : V3 α → Option α) : Prop := ∃ k, 0 < k ∧ ∀ p v, F p = some v → t.f p = some (k * v)

/-- what is shown for a card carrying a transformation: it converts, and at every point `p` off the
surface a negative reference selects `p` iff MCNP's sense of the card **at the auxiliary coordinates of
`p`** is negative — the converted surface is the image of the untransformed one under the motion -/
def TrConverted (mn : String) (ps : List α) (m : Motion α) : Prop :=
  ∃ coll, convertCardTr (0:α) 0 mn ps m = some coll ∧
    ∀ p sm, elemSense mn ps (m.toAux p) = some sm → sm.2 ≠ 0 → collNegative coll p = some (!sm.1)

theorem trconverted_of_same {mn : String} {ps : List α} (m : Motion α) {t : TSurf α} {g : V3 α → α}
    (hconv : convertCardTr (0:α) 0 mn ps m = some [(t, 1)]) (hsame : Same t fun p => g (m.toAux p))
    (hspec : ∀ q, elemSense mn ps q = some (smOf (g q))) : TrConverted mn ps m := by
  refine ⟨[(t, 1)], hconv, fun p sm hsm hne => ?_⟩
  obtain ⟨k', hk', hf'⟩ := hsame
  rw [hspec] at hsm; cases hsm
  simp only [smOf, ne_eq, absv_eq_zero] at hne
  simp only [collNegative, List.foldr, hf' p, smOf, pos?, Bool.true_and]
  have : ¬ ((1 : Int) < 0) := by decide
  simp only [this, if_false]
  congr 1
  rcases lt_or_gt_of_ne hne with h | h
  · have : k' * g (m.toAux p) < 0 := mul_neg_of_pos_of_neg hk' h
    simp [this, not_lt.mpr h.le]
  · have : ¬ k' * g (m.toAux p) < 0 := not_lt.mpr (mul_pos hk' h).le
    simp [this, h]

theorem tr_card_of_frame {mn : String} {ps : List α} {s : MSurf α} (m : Motion α) (hR : Rot m.b)
    (hcad : cadOf (0:α) 0 mn ps = some s) (hk : s.kind = .p ∨ s.kind = .s ∨ s.kind = .c ∨ s.kind = .k)
    (g : V3 α → α) (c : α) (hc : 0 < c) (hframe : ∀ q, frameF s 0 q = some (c * g q))
    (hconv : ∀ s' : MSurf α, s'.kind = s.kind → s'.compl = s.compl → s'.ax.dot s'.ax = s.ax.dot s.ax →
      ∃ t, convertSurf s' = some [(t, 1)] ∧ SameOpt t (frameF s' 0))
    (hspec : ∀ q, elemSense mn ps q = some (smOf (g q))) : TrConverted mn ps m := by
  obtain ⟨s', hs', hk', hc', -, hax, hF⟩ := frame_transport m hR s hk
  obtain ⟨t, ht, k, hk0, hf⟩ := hconv s' hk' hc' hax
  have hsame : Same t fun p => g (m.toAux p) :=
    ⟨k * c, mul_pos hk0 hc, fun p => by
      rw [hf p (c * g (m.toAux p)) (by rw [hF 0 p, hframe]), mul_assoc]⟩
  exact trconverted_of_same m (by simp [convertCardTr, hcad, hs', ht]) hsame hspec

theorem plane_conv (s : MSurf α) (hs : s.kind = .p) (s' : MSurf α) (hk : s'.kind = s.kind) :
    ∃ t, convertSurf s' = some [(t, 1)] ∧ SameOpt t (frameF s' 0) := by
  obtain ⟨t, ht, k, hk0, hf⟩ := plane_frame_same s' (hk.trans hs)
  refine ⟨t, ht, k, hk0, fun p v hv => ?_⟩
  simp only [frameF, hk.trans hs] at hv
  cases hv; exact hf p

theorem sphere_conv (s : MSurf α) (r : α) (hs : s.kind = .s) (hc : s.compl = [r]) (s' : MSurf α)
    (hk : s'.kind = s.kind) (hc' : s'.compl = s.compl) :
    ∃ t, convertSurf s' = some [(t, 1)] ∧ SameOpt t (frameF s' 0) := by
  obtain ⟨t, ht, k, hk0, hf⟩ := sphere_frame_same s' r (hk.trans hs) (hc'.trans hc)
  refine ⟨t, ht, k, hk0, fun p v hv => ?_⟩
  simp only [frameF, hk.trans hs, hc'.trans hc] at hv
  cases hv; exact hf p

theorem cyl_conv (s : MSurf α) (r : α) (hs : s.kind = .c) (hc : s.compl = [r]) (hax : 0 < s.ax.dot s.ax)
    (s' : MSurf α) (hk : s'.kind = s.kind) (hc' : s'.compl = s.compl) (hax' : s'.ax.dot s'.ax = s.ax.dot s.ax) :
    ∃ t, convertSurf s' = some [(t, 1)] ∧ SameOpt t (frameF s' 0) := by
  obtain ⟨k, hk0, hf⟩ := Macro.cyl_general_same s'.pt s'.ax r (hax' ▸ hax)
  refine ⟨convertCylinder s'.pt s'.ax r, by simp [convertSurf, hk.trans hs, hc'.trans hc], k, hk0, fun p v hv => ?_⟩
  simp only [frameF, hk.trans hs, hc'.trans hc] at hv
  cases hv; exact hf p

/-- cards for which the transformed conversion is proved -/
inductive TrAdmissible : String → List α → Prop
  | px (d : α) : TrAdmissible "px" [d]
  | py (d : α) : TrAdmissible "py" [d]
  | pz (d : α) : TrAdmissible "pz" [d]
  | p4 (a b c d : α) (h : 0 < a * a + b * b + c * c) : TrAdmissible "p" [a, b, c, d]
  | so (r : α) : TrAdmissible "so" [r]
  | s (a b c r : α) : TrAdmissible "s" [a, b, c, r]
  | sx (a r : α) : TrAdmissible "sx" [a, r]
  | sy (b r : α) : TrAdmissible "sy" [b, r]
  | sz (c r : α) : TrAdmissible "sz" [c, r]
  | c_x (b c r : α) : TrAdmissible "c/x" [b, c, r]
  | c_y (a c r : α) : TrAdmissible "c/y" [a, c, r]
  | c_z (a b r : α) : TrAdmissible "c/z" [a, b, r]
  | cx (r : α) : TrAdmissible "cx" [r]
  | cy (r : α) : TrAdmissible "cy" [r]
  | cz (r : α) : TrAdmissible "cz" [r]

end T4V.Tr
