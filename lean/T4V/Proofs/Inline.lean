import T4V.Model.Inline
import T4V.Proofs.Tree
/-!
# Inlining a cell reference keeps the Boolean function, whichever references are selected
-/
namespace T4V

/-- `cv` gives every cell of the dictionary the value of its own tree -/
def CVFix (cells : List (Nat × Geom)) (σ : SurfVal) (cv : Nat → Bool) : Prop :=
  ∀ c g, geomOf cells c = some g → cv c = g.eval σ cv

mutual
theorem inlineWorker_eval (cells : List (Nat × Geom)) (toInline : List Nat) (σ : SurfVal) (cv : Nat → Bool)
    (hfix : CVFix cells σ cv) : ∀ (fuel : Nat) (g g' : Geom), inlineWorker cells toInline fuel g = some g' →
      g'.eval σ cv = g.eval σ cv
  | 0, _, _, h => by simp [inlineWorker] at h
  | _ + 1, .surf n sub, g', h => by simp only [inlineWorker, Option.some.injEq] at h; subst h; rfl
  | _ + 1, .cref c, g', h => by simp only [inlineWorker, Option.some.injEq] at h; subst h; rfl
  | _ + 1, .compl c, g', h => by simp only [inlineWorker, Option.some.injEq] at h; subst h; rfl
  | fuel + 1, .node op args, g', h => by
      simp only [inlineWorker, Option.map_eq_some_iff] at h
      obtain ⟨args', ha, rfl⟩ := h
      have := inlineArgs_eval cells toInline σ cv hfix fuel args args' ha
      cases op <;> simp [Geom.eval, this.1, this.2]
theorem inlineArg_eval (cells : List (Nat × Geom)) (toInline : List Nat) (σ : SurfVal) (cv : Nat → Bool)
    (hfix : CVFix cells σ cv) : ∀ (fuel : Nat) (a a' : Geom), inlineArg cells toInline fuel a = some a' →
      a'.eval σ cv = a.eval σ cv
  | 0, _, _, h => by simp [inlineArg] at h
  | fuel + 1, .cref c, a', h => by
      simp only [inlineArg] at h
      by_cases hc : toInline.contains c = true
      · simp only [hc, if_true] at h
        cases hg : geomOf cells c with
        | none => simp [hg] at h
        | some g =>
          simp only [hg] at h
          rw [inlineWorker_eval cells toInline σ cv hfix fuel g a' h]
          simp [Geom.eval, hfix c g hg]
      · simp only [hc, Bool.false_eq_true, if_false, Option.some.injEq] at h
        subst h; rfl
  | _ + 1, .surf n sub, a', h => by simp only [inlineArg, Option.some.injEq] at h; subst h; rfl
  | fuel + 1, .compl c, a', h => by
      simp only [inlineArg] at h
      exact inlineWorker_eval cells toInline σ cv hfix fuel _ _ h
  | fuel + 1, .node op args, a', h => by
      simp only [inlineArg] at h
      exact inlineWorker_eval cells toInline σ cv hfix fuel _ _ h
theorem inlineArgs_eval (cells : List (Nat × Geom)) (toInline : List Nat) (σ : SurfVal) (cv : Nat → Bool)
    (hfix : CVFix cells σ cv) : ∀ (fuel : Nat) (as as' : List Geom), inlineArgs cells toInline fuel as = some as' →
      Geom.evalAll σ cv as' = Geom.evalAll σ cv as ∧ Geom.evalAny σ cv as' = Geom.evalAny σ cv as
  | 0, _, _, h => by simp [inlineArgs] at h
  | _ + 1, [], as', h => by
      simp only [inlineArgs, Option.some.injEq] at h; subst h; exact ⟨rfl, rfl⟩
  | fuel + 1, a :: as, as', h => by
      simp only [inlineArgs] at h
      cases h1 : inlineArg cells toInline fuel a with
      | none => simp [h1] at h
      | some a' =>
        cases h2 : inlineArgs cells toInline fuel as with
        | none => simp [h1, h2] at h
        | some r' =>
          simp only [h1, h2, Option.some.injEq] at h
          subst h
          have hae := inlineArg_eval cells toInline σ cv hfix fuel a a' h1
          have ih := inlineArgs_eval cells toInline σ cv hfix fuel as r' h2
          simp [Geom.evalAll, Geom.evalAny, hae, ih.1, ih.2]
end

end T4V
