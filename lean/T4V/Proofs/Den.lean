import T4V.Model.ToT4
/-!
# Denotation of a volume dictionary and of flagged trees (semantics used by the C01/C08 theorems)
-/
namespace T4V

/-- sense of TRIPOLI-4 surface `n` at the point under study (`true` = PLUS side) -/
abbrev TSense := Nat → Bool

def litT (σ : TSense) (s : Int) : Bool := if s > 0 then σ s.natAbs else !σ s.natAbs

/-- `EQUA` part of a volume -/
def equa (σ : TSense) (v : Vol) : Bool := v.pluses.all σ && v.minuses.all (fun s => !σ s)

def combine (op : Op) (e : Bool) (bs : List Bool) : Bool :=
  match op with
  | .inter => e && bs.all id
  | .union => e || bs.any id

/-- does volume `k` of the dictionary contain the point? (fuel-indexed; `none` = dangling / cyclic) -/
def den (vols : List (Nat × Vol)) (σ : TSense) : Nat → Nat → Option Bool
  | 0, _ => none
  | f + 1, k =>
    match dictGet? vols k with
    | none => none
    | some v =>
      match v.ops with
      | none => some (equa σ v)
      | some (op, ids) => (ids.mapM (den vols σ f)).map (combine op (equa σ v))

def Denotes (vols : List (Nat × Vol)) (σ : TSense) (k : Nat) (b : Bool) : Prop := ∃ f, den vols σ f k = some b

def DenotesL (vols : List (Nat × Vol)) (σ : TSense) (ks : List Nat) (bs : List Bool) : Prop :=
  ∃ f, ks.mapM (den vols σ f) = some bs

/-! ### dictionary lemmas -/

def hasKey {β} (d : List (Nat × β)) (k : Nat) : Prop := ∃ p ∈ d, p.1 = k

theorem dictGet?_some_hasKey {β} {d : List (Nat × β)} {k : Nat} {v : β} (h : dictGet? d k = some v) :
    hasKey d k := by
  unfold dictGet? at h
  cases hf : d.find? (·.1 == k) with
  | none => simp [hf] at h
  | some p =>
    refine ⟨p, List.mem_of_find?_eq_some hf, ?_⟩
    have := List.find?_some hf
    simpa using this

theorem not_hasKey_any {β} {d : List (Nat × β)} {k : Nat} (h : ¬ hasKey d k) :
    d.any (·.1 == k) = false := by
  rw [Bool.eq_false_iff]
  intro ha
  rw [List.any_eq_true] at ha
  obtain ⟨p, hp, hk⟩ := ha
  exact h ⟨p, hp, by simpa using hk⟩

theorem dictSet_fresh {β} {d : List (Nat × β)} {k : Nat} (v : β) (h : ¬ hasKey d k) :
    dictSet d k v = d ++ [(k, v)] := by
  unfold dictSet
  simp [not_hasKey_any h]

theorem dictGet?_append_ne {β} {d : List (Nat × β)} {k k' : Nat} {v : β} (hne : k' ≠ k) :
    dictGet? (d ++ [(k, v)]) k' = dictGet? d k' := by
  unfold dictGet?
  rw [List.find?_append]
  cases hf : d.find? (·.1 == k') with
  | some p => simp
  | none =>
    have : ((k == k') = false) := by simpa using fun e => hne e.symm
    simp [List.find?, this]

theorem dictGet?_append_self {β} {d : List (Nat × β)} {k : Nat} {v : β} (h : ¬ hasKey d k) :
    dictGet? (d ++ [(k, v)]) k = some v := by
  unfold dictGet?
  rw [List.find?_append]
  have : d.find? (·.1 == k) = none := by
    rw [List.find?_eq_none]
    intro p hp hk
    exact h ⟨p, hp, by simpa using hk⟩
  simp [this, List.find?]

theorem hasKey_append {β} {d : List (Nat × β)} {k k' : Nat} {v : β} :
    hasKey (d ++ [(k, v)]) k' ↔ hasKey d k' ∨ k' = k := by
  unfold hasKey
  constructor
  · rintro ⟨p, hp, rfl⟩
    rw [List.mem_append] at hp
    rcases hp with hp | hp
    · exact Or.inl ⟨p, hp, rfl⟩
    · simp at hp; subst hp; exact Or.inr rfl
  · rintro (⟨p, hp, rfl⟩ | rfl)
    · exact ⟨p, List.mem_append_left _ hp, rfl⟩
    · exact ⟨(k', v), by simp, rfl⟩

/-! ### denotation lemmas -/

theorem mapM_congr_some {α β} {f g : α → Option β} {l : List α} {r : List β}
    (h : ∀ a b, f a = some b → g a = some b) (hl : l.mapM f = some r) : l.mapM g = some r := by
  induction l generalizing r with
  | nil => simpa using hl
  | cons a as ih =>
    simp only [List.mapM_cons, Option.bind_eq_bind, Option.pure_def] at hl ⊢
    cases hfa : f a with
    | none => simp [hfa] at hl
    | some b =>
      simp only [hfa, Option.bind_some] at hl
      cases hr : as.mapM f with
      | none => simp [hr] at hl
      | some r' =>
        simp only [hr, Option.bind_some] at hl
        simp [h a b hfa, ih hr, ← hl]

/-- adding a binding under a fresh key changes no existing denotation -/
theorem den_ext_fresh {vols : List (Nat × Vol)} {σ : TSense} {n : Nat} (hn : ¬ hasKey vols n) (v' : Vol) :
    ∀ f k b, den vols σ f k = some b → den (vols ++ [(n, v')]) σ f k = some b := by
  intro f
  induction f with
  | zero => intro k b h; simp [den] at h
  | succ f ih =>
    intro k b h
    unfold den at h ⊢
    cases hg : dictGet? vols k with
    | none => simp [hg] at h
    | some v =>
      have hne : k ≠ n := by
        intro e; subst e; exact hn (dictGet?_some_hasKey hg)
      rw [dictGet?_append_ne hne, hg]
      simp only [hg] at h
      cases ho : v.ops with
      | none => simpa [ho] using h
      | some p =>
        obtain ⟨op, ids⟩ := p
        simp only [ho, Option.map_eq_some_iff] at h ⊢
        obtain ⟨bs, hbs, rfl⟩ := h
        exact ⟨bs, mapM_congr_some ih hbs, rfl⟩

theorem den_mono {vols : List (Nat × Vol)} {σ : TSense} :
    ∀ f k b, den vols σ f k = some b → den vols σ (f + 1) k = some b := by
  intro f
  induction f with
  | zero => intro k b h; simp [den] at h
  | succ f ih =>
    intro k b h
    unfold den at h ⊢
    cases hg : dictGet? vols k with
    | none => simp [hg] at h
    | some v =>
      simp only [hg] at h ⊢
      cases ho : v.ops with
      | none => simpa [ho] using h
      | some p =>
        obtain ⟨op, ids⟩ := p
        simp only [ho, Option.map_eq_some_iff] at h ⊢
        obtain ⟨bs, hbs, rfl⟩ := h
        exact ⟨bs, mapM_congr_some ih hbs, rfl⟩

theorem den_mono_le {vols : List (Nat × Vol)} {σ : TSense} {f g k b} (h : den vols σ f k = some b)
    (hle : f ≤ g) : den vols σ g k = some b := by
  induction hle with
  | refl => exact h
  | step _ ih => exact den_mono _ _ _ ih

/-- a volume has at most one denotation -/
theorem Denotes.unique {vols σ k b b'} (h : Denotes vols σ k b) (h' : Denotes vols σ k b') : b = b' := by
  obtain ⟨f, hf⟩ := h
  obtain ⟨g, hg⟩ := h'
  have e1 := den_mono_le hf (Nat.le_max_left f g)
  have e2 := den_mono_le hg (Nat.le_max_right f g)
  rw [e1] at e2
  exact Option.some.inj e2

theorem Denotes.ext_fresh {vols σ n k b} (hn : ¬ hasKey vols n) (v' : Vol) (h : Denotes vols σ k b) :
    Denotes (vols ++ [(n, v')]) σ k b := by
  obtain ⟨f, hf⟩ := h; exact ⟨f, den_ext_fresh hn v' f k b hf⟩

theorem DenotesL.ext_fresh {vols σ n ks bs} (hn : ¬ hasKey vols n) (v' : Vol) (h : DenotesL vols σ ks bs) :
    DenotesL (vols ++ [(n, v')]) σ ks bs := by
  obtain ⟨f, hf⟩ := h
  exact ⟨f, mapM_congr_some (fun a b => den_ext_fresh hn v' f a b) hf⟩

theorem DenotesL.nil {vols σ} : DenotesL vols σ [] [] := ⟨0, rfl⟩

theorem DenotesL.cons {vols σ k b ks bs} (h : Denotes vols σ k b) (hs : DenotesL vols σ ks bs) :
    DenotesL vols σ (k :: ks) (b :: bs) := by
  obtain ⟨f1, hf1⟩ := h
  obtain ⟨f2, hf2⟩ := hs
  refine ⟨max f1 f2, ?_⟩
  have e1 := den_mono_le hf1 (Nat.le_max_left f1 f2)
  have e2 := mapM_congr_some (fun a b hab => den_mono_le hab (Nat.le_max_right f1 f2)) hf2
  simp [List.mapM_cons, e1, e2]

theorem DenotesL.append {vols σ ks bs ks' bs'} (h : DenotesL vols σ ks bs) (h' : DenotesL vols σ ks' bs') :
    DenotesL vols σ (ks ++ ks') (bs ++ bs') := by
  induction ks generalizing bs with
  | nil =>
    obtain ⟨f, hf⟩ := h
    simp at hf; subst hf; simpa using h'
  | cons k ks ih =>
    obtain ⟨f, hf⟩ := h
    simp only [List.mapM_cons, Option.bind_eq_bind, Option.pure_def, Option.bind_eq_some_iff,
      Option.some.injEq] at hf
    obtain ⟨b, hb, bs1, hbs1, rfl⟩ := hf
    exact DenotesL.cons ⟨f, hb⟩ (ih ⟨f, hbs1⟩)

/-- denotation of a freshly added volume -/
theorem Denotes.new {vols σ n} {v : Vol} (hn : ¬ hasKey vols n) :
    (v.ops = none → Denotes (vols ++ [(n, v)]) σ n (equa σ v)) ∧
    (∀ op ids bs, v.ops = some (op, ids) → DenotesL vols σ ids bs →
      Denotes (vols ++ [(n, v)]) σ n (combine op (equa σ v) bs)) := by
  constructor
  · intro ho
    refine ⟨1, ?_⟩
    simp [den, dictGet?_append_self hn, ho]
  · intro op ids bs ho hd
    obtain ⟨f, hf⟩ := hd
    refine ⟨f + 1, ?_⟩
    simp only [den, dictGet?_append_self hn, ho, Option.map_eq_some_iff]
    exact ⟨bs, mapM_congr_some (fun a b => den_ext_fresh hn v f a b) hf, rfl⟩

end T4V
