import Mathlib.Analysis.SpecialFunctions.Trigonometric.Arctan
import Mathlib.Analysis.SpecialFunctions.Sqrt
import T4V.Proofs.Surface
/-!
# The hypotheses `TranscOK` hold of the real numbers (non-vacuity of the surface theorems)
-/
namespace T4V
noncomputable instance : Transc ℝ where
  sqrt := Real.sqrt
  atan := Real.arctan
  tan := Real.tan
  cos := Real.cos
  sin := Real.sin
  pi := Real.pi

theorem transcOK_real : Surf.TranscOK ℝ where
  sqrt_sq := fun _ h => Real.mul_self_sqrt h
  sqrt_pos := fun _ h => Real.sqrt_pos.2 h
  tan_atan := fun x => Real.tan_arctan x
  pi_ne := Real.pi_ne_zero
  cos_sin := fun x => by have := Real.cos_sq_add_sin_sq x; rw [pow_two, pow_two] at this; exact this
end T4V
