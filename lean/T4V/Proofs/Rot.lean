import T4V.Proofs.Transform
import Mathlib.LinearAlgebra.Matrix.NonsingularInverse
import Mathlib.LinearAlgebra.Matrix.Notation
/-!
# Rotation matrices: rows orthonormal ⇒ columns orthonormal; completion of a matrix by a vector product
-/
set_option linter.unusedSimpArgs false
namespace T4V.Tr
open T4V Matrix
variable {α : Type} [Field α]

def toMat (b : M3 α) : Matrix (Fin 3) (Fin 3) α :=
  !![b.r1.x, b.r1.y, b.r1.z; b.r2.x, b.r2.y, b.r2.z; b.r3.x, b.r3.y, b.r3.z]

/-- rows orthonormal ⇒ `Rot` (a left inverse of a square matrix is a right inverse) -/
theorem Rot.of_rows (b : M3 α)
    (h11 : b.r1.dot b.r1 = 1) (h22 : b.r2.dot b.r2 = 1) (h33 : b.r3.dot b.r3 = 1)
    (h12 : b.r1.dot b.r2 = 0) (h13 : b.r1.dot b.r3 = 0) (h23 : b.r2.dot b.r3 = 0) : Rot b := by
  have hM : toMat b * (toMat b)ᵀ = 1 := by
    simp only [V3.dot] at *
    ext i j
    fin_cases i <;> fin_cases j <;>
      simp [toMat, Matrix.mul_apply, Fin.sum_univ_three, Matrix.one_apply] <;>
      first | linear_combination h11 | linear_combination h22 | linear_combination h33 | linear_combination h12
            | linear_combination h13 | linear_combination h23
  have hT := mul_eq_one_comm.mp hM
  have e := fun i j => congrFun (congrFun hT i) j
  have e00 := e 0 0; have e11 := e 1 1; have e22 := e 2 2; have e01 := e 0 1; have e02 := e 0 2; have e12 := e 1 2
  simp [toMat, Matrix.mul_apply, Fin.sum_univ_three, Matrix.one_apply] at e00 e11 e22 e01 e02 e12
  exact ⟨h11, h22, h33, h12, h13, h23, e00, e11, e22, e01, e02, e12⟩

def det3 (b : M3 α) : α := b.r1.dot (b.r2.cross b.r3)

/-- two orthonormal vectors and their vector product, in any cyclic position, form a proper rotation -/
theorem cross_completion (a b : V3 α) (haa : a.dot a = 1) (hbb : b.dot b = 1) (hab : a.dot b = 0) :
    (Rot ⟨a, b, a.cross b⟩ ∧ det3 ⟨a, b, a.cross b⟩ = 1) ∧
    (Rot ⟨a.cross b, a, b⟩ ∧ det3 ⟨a.cross b, a, b⟩ = 1) ∧
    (Rot ⟨b, a.cross b, a⟩ ∧ det3 ⟨b, a.cross b, a⟩ = 1) := by
  have hcc : (a.cross b).dot (a.cross b) = 1 := by
    simp only [V3.dot, V3.cross] at *
    linear_combination (b.x * b.x + b.y * b.y + b.z * b.z) * haa + hbb - (a.x * b.x + a.y * b.y + a.z * b.z + 0) * hab
  have hca : (a.cross b).dot a = 0 := by simp only [V3.dot, V3.cross]; ring
  have hcb : (a.cross b).dot b = 0 := by simp only [V3.dot, V3.cross]; ring
  have hac : a.dot (a.cross b) = 0 := by simp only [V3.dot, V3.cross]; ring
  have hbc : b.dot (a.cross b) = 0 := by simp only [V3.dot, V3.cross]; ring
  have hba : b.dot a = 0 := by rw [← hab]; simp only [V3.dot]; ring
  refine ⟨⟨Rot.of_rows _ haa hbb hcc hab hac hbc, ?_⟩, ⟨Rot.of_rows _ hcc haa hbb hca hcb hab, ?_⟩,
    ⟨Rot.of_rows _ hbb hcc haa hbc hba hca, ?_⟩⟩
  · simp only [det3, V3.dot, V3.cross] at *
    linear_combination (b.x * b.x + b.y * b.y + b.z * b.z) * haa + hbb - (a.x * b.x + a.y * b.y + a.z * b.z + 0) * hab
  · simp only [det3]; exact hcc
  · simp only [det3, V3.dot, V3.cross] at *
    linear_combination (b.x * b.x + b.y * b.y + b.z * b.z) * haa + hbb - (a.x * b.x + a.y * b.y + a.z * b.z + 0) * hab

end T4V.Tr
