import T4V.Model.Surface
import T4V.Spec.MCNP
import Mathlib.Tactic.FieldSimp
import Mathlib.Tactic.Ring
import Mathlib.Tactic.Linarith
import Mathlib.Tactic.LinearCombination
import Mathlib.Tactic.Positivity
import Mathlib.Algebra.Order.Field.Basic
/-!
# Elementary surfaces: family lemmas (helper file for `Props/C02`, `Props/C03`, `Props/C04`)

Every lemma is over an arbitrary linearly ordered field `α`; the transcendental functions enter only
through the hypotheses collected in `TranscOK` (true of ℝ: `T4V/Proofs/RealOK.lean`).
-/
set_option linter.unusedSectionVars false
set_option linter.unusedSimpArgs false
namespace T4V.Surf
open T4V
variable {α : Type} [Field α] [LinearOrder α] [IsStrictOrderedRing α] [Transc α]

/-- the TRIPOLI-4 surface `t` has the zero set and the orientation of the implicit function `g`:
its own implicit function is a positive multiple of `g` at every point -/
def Same (t : TSurf α) (g : V3 α → α) : Prop := ∃ k, 0 < k ∧ ∀ p, t.f p = some (k * g p)

/-- a signed collection agrees with the MCNP card: wherever MCNP's sense is defined and the point is
off the surface, a negative reference selects the point iff MCNP's sense is negative -/
def Agrees (coll : List (TSurf α × Int)) (mn : String) (ps : List α) : Prop :=
  ∀ p sm, elemSense mn ps p = some sm → sm.2 ≠ 0 → collNegative coll p = some (!sm.1)

/-- same zero set as the MCNP card -/
def SameLocus (t : TSurf α) (mn : String) (ps : List α) : Prop :=
  ∀ p sm v, elemSense mn ps p = some sm → t.f p = some v → (v = 0 ↔ sm.2 = 0)

theorem absv_eq_zero (a : α) : absv a = 0 ↔ a = 0 := by
  unfold absv; split <;> simp

theorem same_agrees (t : TSurf α) (g : V3 α → α) (mn : String) (ps : List α) (h : Same t g)
    (hs : ∀ p, elemSense mn ps p = some (smOf (g p))) : Agrees [(t, 1)] mn ps ∧ SameLocus t mn ps := by
  obtain ⟨k, hk, hf⟩ := h
  constructor
  · intro p sm hsm hne
    rw [hs p] at hsm; cases hsm
    simp only [smOf, ne_eq, absv_eq_zero] at hne
    simp only [collNegative, List.foldr, hf p, smOf, pos?, Bool.true_and]
    have : ¬ ((1 : Int) < 0) := by decide
    simp only [this, if_false]
    congr 1
    rcases lt_or_gt_of_ne hne with h | h
    · have : k * g p < 0 := mul_neg_of_pos_of_neg hk h
      simp [this, not_lt.mpr h.le]
    · have : ¬ k * g p < 0 := not_lt.mpr (mul_pos hk h).le
      simp [this, h]
  · intro p sm v hsm hv
    rw [hs p] at hsm; cases hsm
    rw [hf p] at hv; cases hv
    simp only [smOf, absv_eq_zero, mul_eq_zero, hk.ne', false_or]

/-- `convert_plane`: positive multiple of `u · (p − pt)` for every non-zero normal -/
theorem convertPlane_same (pt u : V3 α) : Same (convertPlane pt u) fun p => u.dot (p.sub pt) := by
  unfold convertPlane
  simp only [beq_iff_eq, Bool.and_eq_true, decide_eq_true_eq]
  split_ifs with h1 h2 h3
  · obtain ⟨⟨hx, hy⟩, hz⟩ := h1
    refine ⟨1 / u.z, by positivity, fun p => ?_⟩
    simp only [TSurf.f, TSurf.fLocal, V3.dot, V3.sub, hx, hy]
    congr 1; field_simp; ring
  · obtain ⟨⟨hy, hz⟩, hx⟩ := h2
    refine ⟨1 / u.x, by positivity, fun p => ?_⟩
    simp only [TSurf.f, TSurf.fLocal, V3.dot, V3.sub, hz, hy]
    congr 1; field_simp; ring
  · obtain ⟨⟨hz, hx⟩, hy⟩ := h3
    refine ⟨1 / u.y, by positivity, fun p => ?_⟩
    simp only [TSurf.f, TSurf.fLocal, V3.dot, V3.sub, hz, hx]
    congr 1; field_simp; ring
  · refine ⟨1, one_pos, fun p => ?_⟩
    simp only [TSurf.f, TSurf.fLocal, V3.dot, V3.sub]
    congr 1; ring

/-- what the proofs need to know about the transcendental functions (true of ℝ, see `transcOK_real`) -/
structure TranscOK (α : Type) [Field α] [LinearOrder α] [Transc α] : Prop where
  sqrt_sq : ∀ x : α, 0 ≤ x → Transc.sqrt x * Transc.sqrt x = x
  sqrt_pos : ∀ x : α, 0 < x → 0 < Transc.sqrt x
  tan_atan : ∀ x : α, Transc.tan (Transc.atan x) = x
  pi_ne : (Transc.pi : α) ≠ 0
  cos_sin : ∀ x : α, Transc.cos x * Transc.cos x + Transc.sin x * Transc.sin x = 1

theorem deg180_ne : (deg180 : α) ≠ 0 := by
  unfold deg180; positivity

theorem theta_back (ok : TranscOK α) (x : α) :
    Transc.tan (deg180 * Transc.atan x / Transc.pi * Transc.pi / deg180) = x := by
  have h1 := ok.pi_ne
  have h2 := deg180_ne (α := α)
  have : deg180 * Transc.atan x / Transc.pi * Transc.pi / deg180 = Transc.atan x := by
    field_simp
  rw [this, ok.tan_atan]

theorem sphere_same (x y z r : α) :
    ∃ t, convertSurf (mkSphere x y z r) = some [(t, 1)] ∧
      Same t fun p => sq (p.x - x) + sq (p.y - y) + sq (p.z - z) - sq r :=
  ⟨_, rfl, 1, one_pos, fun p => by simp [mkSphere, TSurf.f, TSurf.fLocal]⟩

theorem cylx_same (y z r : α) :
    ∃ t, convertSurf (mkCyl 0 y z r 1 0 0) = some [(t, 1)] ∧ Same t fun p => sq (p.y - y) + sq (p.z - z) - sq r :=
  ⟨_, rfl, 1, one_pos, fun p => by simp [mkCyl, convertCylinder, TSurf.f, TSurf.fLocal]⟩
theorem cyly_same (x z r : α) :
    ∃ t, convertSurf (mkCyl x 0 z r 0 1 0) = some [(t, 1)] ∧ Same t fun p => sq (p.x - x) + sq (p.z - z) - sq r :=
  ⟨_, rfl, 1, one_pos, fun p => by simp [mkCyl, convertCylinder, TSurf.f, TSurf.fLocal]⟩
theorem cylz_same (x y r : α) :
    ∃ t, convertSurf (mkCyl x y 0 r 0 0 1) = some [(t, 1)] ∧ Same t fun p => sq (p.x - x) + sq (p.y - y) - sq r :=
  ⟨_, rfl, 1, one_pos, fun p => by simp [mkCyl, convertCylinder, TSurf.f, TSurf.fLocal]⟩


theorem tan_theta (ok : TranscOK α) (t2 : α) (h : 0 ≤ t2) :
    sq (Transc.tan (deg180 * Transc.atan (Transc.sqrt t2) / Transc.pi * Transc.pi /
      (((1:α) + 1 + 1) * ((1 + 1 + 1) * (1 + 1)) * ((1 + 1 + 1 + 1 + 1) * (1 + 1))))) = t2 := by
  have := theta_back ok (Transc.sqrt t2)
  unfold deg180 at this ⊢
  rw [this]; exact ok.sqrt_sq t2 h


theorem conex_same (ok : TranscOK α) (x y z t2 : α) (h : 0 ≤ t2) :
    ∃ t, convertSurf (mkCone x y z (Transc.sqrt t2) 1 0 0 none) = some [(t, 1)] ∧
      Same t fun p => sq (p.y - y) + sq (p.z - z) - t2 * sq (p.x - x) := by
  refine ⟨_, rfl, 1, one_pos, fun p => ?_⟩
  simp [mkCone, convertSurf, convertCone, TSurf.f, TSurf.fLocal]
  exact Or.inl (tan_theta ok t2 h)

/-- one-sheet cone along x: the pair (cone, apex plane with its side) selects, for a negative
reference, exactly the points inside the sheet on which `s·(x − x₀) > 0` -/
theorem conex_sheet (tana x y z t2 s : α) (hs : s = 1 ∨ s = -1) (p : V3 α)
    (ht : sq (Transc.tan (deg180 * Transc.atan tana / Transc.pi * Transc.pi /
      (((1:α) + 1 + 1) * ((1 + 1 + 1) * (1 + 1)) * ((1 + 1 + 1 + 1 + 1) * (1 + 1))))) = t2) :
    ∃ coll, convertSurf (mkCone x y z tana 1 0 0 (some s)) = some coll ∧ coll.length = 2 ∧
      collNegative coll p =
        some (!(oneSheet (sq (p.y - y) + sq (p.z - z) - t2 * sq (p.x - x)) (p.x - x) s).1) := by
  have h10 : ¬ (1:α) < 0 := not_lt.mpr zero_le_one
  rcases hs with rfl | rfl
  · refine ⟨_, by simp [convertSurf, convertCone, mkCone]; rfl, rfl, ?_⟩
    simp [collNegative, TSurf.f, TSurf.fLocal, oneSheet, pos?, ht, h10, Bool.and_comm]
  · refine ⟨_, by simp [convertSurf, convertCone, mkCone]; rfl, rfl, ?_⟩
    simp [collNegative, TSurf.f, TSurf.fLocal, oneSheet, pos?, ht, Bool.and_comm]

theorem coney_same (ok : TranscOK α) (x y z t2 : α) (h : 0 ≤ t2) :
    ∃ t, convertSurf (mkCone x y z (Transc.sqrt t2) 0 1 0 none) = some [(t, 1)] ∧
      Same t fun p => sq (p.x - x) + sq (p.z - z) - t2 * sq (p.y - y) := by
  refine ⟨_, rfl, 1, one_pos, fun p => ?_⟩
  simp [mkCone, convertSurf, convertCone, TSurf.f, TSurf.fLocal]
  exact Or.inl (tan_theta ok t2 h)

/-- one-sheet cone along y: the pair (cone, apex plane with its side) selects, for a negative
reference, exactly the points inside the sheet on which `s·(y − y₀) > 0` -/
theorem coney_sheet (tana x y z t2 s : α) (hs : s = 1 ∨ s = -1) (p : V3 α)
    (ht : sq (Transc.tan (deg180 * Transc.atan tana / Transc.pi * Transc.pi /
      (((1:α) + 1 + 1) * ((1 + 1 + 1) * (1 + 1)) * ((1 + 1 + 1 + 1 + 1) * (1 + 1))))) = t2) :
    ∃ coll, convertSurf (mkCone x y z tana 0 1 0 (some s)) = some coll ∧ coll.length = 2 ∧
      collNegative coll p =
        some (!(oneSheet (sq (p.x - x) + sq (p.z - z) - t2 * sq (p.y - y)) (p.y - y) s).1) := by
  have h10 : ¬ (1:α) < 0 := not_lt.mpr zero_le_one
  rcases hs with rfl | rfl
  · refine ⟨_, by simp [convertSurf, convertCone, mkCone]; rfl, rfl, ?_⟩
    simp [collNegative, TSurf.f, TSurf.fLocal, oneSheet, pos?, ht, h10, Bool.and_comm]
  · refine ⟨_, by simp [convertSurf, convertCone, mkCone]; rfl, rfl, ?_⟩
    simp [collNegative, TSurf.f, TSurf.fLocal, oneSheet, pos?, ht, Bool.and_comm]

theorem conez_same (ok : TranscOK α) (x y z t2 : α) (h : 0 ≤ t2) :
    ∃ t, convertSurf (mkCone x y z (Transc.sqrt t2) 0 0 1 none) = some [(t, 1)] ∧
      Same t fun p => sq (p.x - x) + sq (p.y - y) - t2 * sq (p.z - z) := by
  refine ⟨_, rfl, 1, one_pos, fun p => ?_⟩
  simp [mkCone, convertSurf, convertCone, TSurf.f, TSurf.fLocal]
  exact Or.inl (tan_theta ok t2 h)

/-- one-sheet cone along z: the pair (cone, apex plane with its side) selects, for a negative
reference, exactly the points inside the sheet on which `s·(z − z₀) > 0` -/
theorem conez_sheet (tana x y z t2 s : α) (hs : s = 1 ∨ s = -1) (p : V3 α)
    (ht : sq (Transc.tan (deg180 * Transc.atan tana / Transc.pi * Transc.pi /
      (((1:α) + 1 + 1) * ((1 + 1 + 1) * (1 + 1)) * ((1 + 1 + 1 + 1 + 1) * (1 + 1))))) = t2) :
    ∃ coll, convertSurf (mkCone x y z tana 0 0 1 (some s)) = some coll ∧ coll.length = 2 ∧
      collNegative coll p =
        some (!(oneSheet (sq (p.x - x) + sq (p.y - y) - t2 * sq (p.z - z)) (p.z - z) s).1) := by
  have h10 : ¬ (1:α) < 0 := not_lt.mpr zero_le_one
  rcases hs with rfl | rfl
  · refine ⟨_, by simp [convertSurf, convertCone, mkCone]; rfl, rfl, ?_⟩
    simp [collNegative, TSurf.f, TSurf.fLocal, oneSheet, pos?, ht, h10, Bool.and_comm]
  · refine ⟨_, by simp [convertSurf, convertCone, mkCone]; rfl, rfl, ?_⟩
    simp [collNegative, TSurf.f, TSurf.fLocal, oneSheet, pos?, ht, Bool.and_comm]

/-- `p` with four entries: normalisation by `√(a²+b²+c²)` and the choice of the foot point keep the
plane and its orientation -/
theorem plane4_same (ok : TranscOK α) (a b c d : α) (h : 0 < a * a + b * b + c * c) :
    ∃ t, convertSurf (cadPlane4 a b c d) = some [(t, 1)] ∧ Same t fun p => a * p.x + b * p.y + c * p.z - d := by
  refine ⟨_, rfl, ?_⟩
  obtain ⟨k, hk, hf⟩ := convertPlane_same (cadPlane4 a b c d).pt (cadPlane4 a b c d).ax
  have hn := ok.sqrt_pos _ h
  have hnn := ok.sqrt_sq _ h.le
  refine ⟨k / Transc.sqrt (a * a + b * b + c * c), div_pos hk hn, fun p => ?_⟩
  show TSurf.f (convertPlane (cadPlane4 a b c d).pt (cadPlane4 a b c d).ax) p = _
  rw [hf p]
  congr 1
  simp only [cadPlane4, mkPlane, V3.dot, V3.sub]
  generalize Transc.sqrt (a * a + b * b + c * c) = n at hn hnn
  have hn0 : n ≠ 0 := hn.ne'
  have hnn' : n ^ 2 = a * a + b * b + c * c := by rw [pow_two]; exact hnn
  field_simp
  first | linear_combination d * hnn' | linear_combination (-d) * hnn'

/-- `convert_special_quadric`: the SQ card expanded to general-quadric coefficients; the value at the
reference point is `g` -/
theorem sq_same (a b c d e f g x y z : α) (hg : ¬ 0 < g) :
    ∃ t, convertSQ [a, b, c, d, e, f, g, x, y, z] = some t ∧
      Same t fun p => a * sq (p.x - x) + b * sq (p.y - y) + c * sq (p.z - z)
        + two * d * (p.x - x) + two * e * (p.y - y) + two * f * (p.z - z) + g := by
  have hv : a * (x * x) + b * (y * y) + c * (z * z) + 0 * x * y + 0 * y * z + 0 * z * x
      + (two * d - two * a * x) * x + (two * e - two * b * y) * y + (two * f - two * c * z) * z
      + (a * (x * x) + b * (y * y) + c * (z * z) - two * (d * x + e * y + f * z) + g) = g := by
    unfold two; ring
  refine ⟨_, by simp only [convertSQ, evalQuadric, hv, if_neg hg]; rfl, 1, one_pos, fun p => ?_⟩
  simp only [TSurf.f, TSurf.fLocal, sq, two, one_mul]
  congr 1; ring

/-- **finding F14**: when the card's constant term is positive (the quadric is positive at its
reference point) `convert_special_quadric` negates all coefficients: the emitted surface has the
same zero set but the *opposite* orientation -/
theorem sq_positive_centre_reversed (a b c d e f g x y z : α) (hg : 0 < g) :
    ∃ t, convertSQ [a, b, c, d, e, f, g, x, y, z] = some t ∧
      ∀ p, t.f p = some (-(a * sq (p.x - x) + b * sq (p.y - y) + c * sq (p.z - z)
        + two * d * (p.x - x) + two * e * (p.y - y) + two * f * (p.z - z) + g)) := by
  have hv : a * (x * x) + b * (y * y) + c * (z * z) + 0 * x * y + 0 * y * z + 0 * z * x
      + (two * d - two * a * x) * x + (two * e - two * b * y) * y + (two * f - two * c * z) * z
      + (a * (x * x) + b * (y * y) + c * (z * z) - two * (d * x + e * y + f * z) + g) = g := by
    unfold two; ring
  refine ⟨_, by simp only [convertSQ, evalQuadric, hv, if_pos hg]; rfl, fun p => ?_⟩
  simp only [TSurf.f, TSurf.fLocal, List.map, sq, two]
  congr 1; ring

theorem gq_same (a b c d e f g h j k : α) :
    ∃ t, convertSurf { kind := .gq, pt := V3.zero, ax := V3.zero, compl := [a, b, c, d, e, f, g, h, j, k] } = some [(t, 1)] ∧
      Same t fun p => a * sq p.x + b * sq p.y + c * sq p.z + d * p.x * p.y + e * p.y * p.z + f * p.z * p.x
        + g * p.x + h * p.y + j * p.z + k :=
  ⟨_, rfl, 1, one_pos, fun p => by simp [TSurf.f, TSurf.fLocal]⟩

theorem Same.congr {t : TSurf α} {g g' : V3 α → α} (h : Same t g) (e : ∀ p, g p = g' p) : Same t g' := by
  obtain ⟨k, hk, hf⟩ := h
  exact ⟨k, hk, fun p => by rw [hf p, e p]⟩

/-- what is shown for a card: it converts, a negative reference selects MCNP's negative side at every
point off the surface, and a single emitted surface has exactly the card's zero set -/
def Converted (e1 e2 : α) (mn : String) (ps : List α) : Prop :=
  ∃ coll, convertCard e1 e2 mn ps = some coll ∧ Agrees coll mn ps ∧ ∀ t, coll = [(t, 1)] → SameLocus t mn ps

theorem card_of_same {e1 e2 : α} {mn : String} {ps : List α} {s : MSurf α} {t : TSurf α} (g : V3 α → α)
    (hc : cadOf e1 e2 mn ps = some s) (hs : convertSurf s = some [(t, 1)]) (hsame : Same t g)
    (hspec : ∀ p, elemSense mn ps p = some (smOf (g p))) : Converted e1 e2 mn ps := by
  obtain ⟨ha, hl⟩ := same_agrees t g mn ps hsame hspec
  refine ⟨[(t, 1)], by simp [convertCard, hc, hs], ha, fun t' ht' => ?_⟩
  have : t' = t := by simpa using ht'.symm
  rw [this]; exact hl

theorem torusx_same (x y z ra rb rc : α) :
    ∃ t, convertSurf (mkTorus x y z 1 0 0 ra rb rc) = some [(t, 1)] ∧
      Same t fun p => sq (p.x - x) / sq rb + sq (Transc.sqrt (sq (p.y - y) + sq (p.z - z)) - ra) / sq rc - 1 := by
  have h10 : ¬ (1:α) < 0 := not_lt.mpr zero_le_one
  refine ⟨_, by simp [convertSurf, convertTorus, mkTorus, fabs, h10]; rfl, 1, one_pos, fun p => ?_⟩
  simp [TSurf.f, TSurf.fLocal]

theorem torusy_same (x y z ra rb rc : α) :
    ∃ t, convertSurf (mkTorus x y z 0 1 0 ra rb rc) = some [(t, 1)] ∧
      Same t fun p => sq (p.y - y) / sq rb + sq (Transc.sqrt (sq (p.x - x) + sq (p.z - z)) - ra) / sq rc - 1 := by
  have h10 : ¬ (1:α) < 0 := not_lt.mpr zero_le_one
  refine ⟨_, by simp [convertSurf, convertTorus, mkTorus, fabs, h10]; rfl, 1, one_pos, fun p => ?_⟩
  simp [TSurf.f, TSurf.fLocal]

theorem torusz_same (x y z ra rb rc : α) :
    ∃ t, convertSurf (mkTorus x y z 0 0 1 ra rb rc) = some [(t, 1)] ∧
      Same t fun p => sq (p.z - z) / sq rb + sq (Transc.sqrt (sq (p.x - x) + sq (p.y - y)) - ra) / sq rc - 1 := by
  have h10 : ¬ (1:α) < 0 := not_lt.mpr zero_le_one
  refine ⟨_, by simp [convertSurf, convertTorus, mkTorus, fabs, h10]; rfl, 1, one_pos, fun p => ?_⟩
  simp [TSurf.f, TSurf.fLocal]

/-- cards emitted as a pair (cone, apex plane): agreement shown point by point -/
theorem sheet_card {e1 e2 : α} {mn : String} {ps : List α}
    (h : ∀ p, ∃ coll sm, convertCard e1 e2 mn ps = some coll ∧ coll.length = 2 ∧ elemSense mn ps p = some sm ∧
      collNegative coll p = some (!sm.1)) :
    Converted e1 e2 mn ps := by
  obtain ⟨coll, sm, hc, hlen, -, -⟩ := h ⟨0, 0, 0⟩
  refine ⟨coll, hc, fun p sm' hsm' _ => ?_, fun t ht => ?_⟩
  · obtain ⟨coll', sm'', hc', -, hsm'', hn⟩ := h p
    rw [hc] at hc'; cases hc'
    rw [hsm'] at hsm''; cases hsm''
    exact hn
  · rw [ht] at hlen; simp at hlen

theorem sq_fabs (t : α) : sq (fabs t) = sq t := by
  unfold fabs sq; split <;> ring


theorem planeCard_some (ok : TranscOK α) (a b c d : α) (h : 0 < a * a + b * b + c * c) :
    planeCard a b c d = some (cadPlane4 a b c d) := by
  have := (ok.sqrt_pos _ h).ne'
  simp [planeCard, this]

theorem planeCard_convert (ok : TranscOK α) (a b c d : α) (h : 0 < a * a + b * b + c * c) :
    cadOf (0:α) 0 "p" [a, b, c, d] = some (cadPlane4 a b c d) :=
  (show cadOf (0:α) 0 "p" [a, b, c, d] = planeCard a b c d from rfl).trans (planeCard_some ok a b c d h)

end T4V.Surf
