import T4V.Text.GeomParse
import T4V.Proofs.Tree
/-!
# Parser round trip on canonical strings (property C11, text level)

Source expressions are given in the precedence-stratified form the MCNP manual describes
(union of intersections of operands); `chars` renders them to the canonical spelling
(`*` for the blank, no redundant blanks) that `normalize` produces; `tree` is the tree MCNP's
reading prescribes (left-associative, `#( … )` = De Morgan inverse).  `parse_render` shows the
PEG parser returns exactly that tree, for every expression of every size.
-/
namespace T4V

/-- a surface literal as spelled: optional sign character, digits, optional one-digit facet -/
structure Lit where
  sign : Option Bool          -- some true = '-', some false = '+', none = no sign
  ds : List Char
  facet : Option Char
deriving Repr

def Lit.chars (l : Lit) : List Char :=
  (match l.sign with | some true => ['-'] | some false => ['+'] | none => []) ++ l.ds ++
  (match l.facet with | some d => ['.', d] | none => [])

def Lit.geom (l : Lit) : Geom :=
  let n : Int := digitsVal l.ds
  .surf (if l.sign = some true then -n else n) (l.facet.map fun d => d.toNat - '0'.toNat)

def Lit.WF (l : Lit) : Prop :=
  l.ds ≠ [] ∧ (∀ c ∈ l.ds, c.isDigit = true) ∧ (∀ d, l.facet = some d → d.isDigit = true)

mutual
inductive SU | mk (first : SI) (rest : List SI)
inductive SI | mk (first : SO) (rest : List SO)
inductive SO
  | lit (l : Lit)
  | par (u : SU)
  | compl (u : SU)            -- `#( u )`
  | ccell (ds : List Char)    -- `#n`
end

mutual
def SU.chars : SU → List Char
  | .mk i is => i.chars ++ charsIs is
def charsIs : List SI → List Char
  | [] => []
  | i :: is => ':' :: i.chars ++ charsIs is
def SI.chars : SI → List Char
  | .mk o os => o.chars ++ charsOs os
def charsOs : List SO → List Char
  | [] => []
  | o :: os => '*' :: o.chars ++ charsOs os
def SO.chars : SO → List Char
  | .lit l => l.chars
  | .par u => '(' :: u.chars ++ [')']
  | .compl u => '_' :: '(' :: u.chars ++ [')']
  | .ccell ds => '^' :: '(' :: ds ++ [')']
end

/-- the tree MCNP's reading prescribes; `none` where the converter has no inverse (`#n` under `#(`) -/
def foldUnion (acc : Geom) : List Geom → Geom
  | [] => acc
  | g :: gs => foldUnion (.node .union [acc, g]) gs
def foldInter (acc : Geom) : List Geom → Geom
  | [] => acc
  | g :: gs => foldInter (.node .inter [acc, g]) gs

mutual
def SU.tree : SU → Option Geom
  | .mk i is => do let a ← i.tree; let bs ← treesIs is; pure (foldUnion a bs)
def treesIs : List SI → Option (List Geom)
  | [] => some []
  | i :: is => do let a ← i.tree; let bs ← treesIs is; pure (a :: bs)
def SI.tree : SI → Option Geom
  | .mk o os => do let a ← o.tree; let bs ← treesOs os; pure (foldInter a bs)
def treesOs : List SO → Option (List Geom)
  | [] => some []
  | o :: os => do let a ← o.tree; let bs ← treesOs os; pure (a :: bs)
def SO.tree : SO → Option Geom
  | .lit l => some l.geom
  | .par u => u.tree
  | .compl u => do let a ← u.tree; a.inverse
  | .ccell ds => some (.compl (digitsVal ds))
end

mutual
def SU.WF : SU → Prop
  | .mk i is => i.WF ∧ wfIs is
def wfIs : List SI → Prop
  | [] => True
  | i :: is => i.WF ∧ wfIs is
def SI.WF : SI → Prop
  | .mk o os => o.WF ∧ wfOs os
def wfOs : List SO → Prop
  | [] => True
  | o :: os => o.WF ∧ wfOs os
def SO.WF : SO → Prop
  | .lit l => l.WF
  | .par u => u.WF
  | .compl u => u.WF
  | .ccell ds => ds ≠ [] ∧ ∀ c ∈ ds, c.isDigit = true
end

mutual
def SU.cost : SU → Nat
  | .mk i is => 1 + i.cost + costIs is
def costIs : List SI → Nat
  | [] => 1
  | i :: is => 1 + i.cost + costIs is
def SI.cost : SI → Nat
  | .mk o os => 1 + o.cost + costOs os
def costOs : List SO → Nat
  | [] => 1
  | o :: os => 1 + o.cost + costOs os
def SO.cost : SO → Nat
  | .lit _ => 1
  | .par u => 1 + u.cost
  | .compl u => 1 + u.cost
  | .ccell _ => 1
end

/-- what may follow a complete phrase: end of text, `)`, `:` or `*` -/
def Sep : List Char → Prop
  | [] => True
  | c :: _ => c = ')' ∨ c = ':' ∨ c = '*'
def NoStar : List Char → Prop
  | c :: _ => c ≠ '*'
  | [] => True
def NoColon : List Char → Prop
  | c :: _ => c ≠ ':'
  | [] => True

theorem takeWhile_append_stop {p : Char → Bool} : ∀ (ds rest : List Char),
    (∀ c ∈ ds, p c = true) → (∀ c r, rest = c :: r → p c = false) →
    (ds ++ rest).takeWhile p = ds ∧ (ds ++ rest).dropWhile p = rest
  | [], rest, _, hr => by
      cases rest with
      | nil => simp
      | cons c r => simp [hr c r rfl]
  | d :: ds, rest, hd, hr => by
      have h1 : p d = true := hd d (by simp)
      have := takeWhile_append_stop ds rest (fun c hc => hd c (by simp [hc])) hr
      simp [h1, this.1, this.2]

theorem sep_not_digit {rest : List Char} (h : Sep rest) : ∀ c r, rest = c :: r → c.isDigit = false := by
  intro c r hcr
  subst hcr
  simp only [Sep] at h
  rcases h with h | h | h <;> subst h <;> decide

theorem lexSurface_lit (l : Lit) (hl : l.WF) (rest : List Char) (hs : Sep rest) :
    lexSurface (l.chars ++ rest) = some (l.geom, rest) := by
  obtain ⟨hne, hdig, hfac⟩ := hl
  obtain ⟨sign, ds, facet⟩ := l
  simp only at hne hdig hfac
  -- first digit exists
  obtain ⟨d0, ds', rfl⟩ : ∃ d0 ds', ds = d0 :: ds' := by
    cases ds with
    | nil => exact absurd rfl hne
    | cons a b => exact ⟨a, b, rfl⟩
  have hd0 : d0.isDigit = true := hdig d0 (by simp)
  have hd0m : d0 ≠ '-' := by intro h; subst h; simp [Char.isDigit] at hd0
  have hd0p : d0 ≠ '+' := by intro h; subst h; simp [Char.isDigit] at hd0
  -- what follows the digits
  have key : ∀ (tail : List Char), (∀ c r, tail = c :: r → c.isDigit = false) →
      ((d0 :: ds') ++ tail).takeWhile Char.isDigit = d0 :: ds' ∧
      ((d0 :: ds') ++ tail).dropWhile Char.isDigit = tail :=
    fun tail ht => takeWhile_append_stop (d0 :: ds') tail hdig ht
  cases facet with
  | none =>
    have ht := key rest (sep_not_digit hs)
    have hrest : ∀ (x : Geom × List Char),
        (match rest with
          | '.' :: d :: r3 => if d.isDigit then some x else some (Geom.surf (if sign = some true then -(digitsVal (d0 :: ds') : Int) else digitsVal (d0 :: ds')) none, rest)
          | _ => some (Geom.surf (if sign = some true then -(digitsVal (d0 :: ds') : Int) else digitsVal (d0 :: ds')) none, rest))
        = some (Geom.surf (if sign = some true then -(digitsVal (d0 :: ds') : Int) else digitsVal (d0 :: ds')) none, rest) := by
      intro x
      cases rest with
      | nil => rfl
      | cons c r =>
        simp only [Sep] at hs
        rcases hs with h | h | h <;> subst h <;> rfl
    cases sign with
    | none =>
      simp only [Lit.chars, List.nil_append, List.append_nil, Lit.geom, Option.map_none]
      unfold lexSurface
      simp only [List.cons_append] at ht ⊢
      simp [hd0m, hd0p, ht.1, ht.2]
      cases rest with
      | nil => simp
      | cons c r =>
        simp only [Sep] at hs
        rcases hs with h | h | h <;> subst h <;> simp
    | some b =>
      cases b with
      | true =>
        simp only [Lit.chars, List.append_nil, Lit.geom, Option.map_none]
        unfold lexSurface
        simp only [List.cons_append, List.nil_append] at ht ⊢
        simp [ht.1, ht.2]
        cases rest with
        | nil => simp
        | cons c r =>
          simp only [Sep] at hs
          rcases hs with h | h | h <;> subst h <;> simp
      | false =>
        simp only [Lit.chars, List.append_nil, Lit.geom, Option.map_none]
        unfold lexSurface
        simp only [List.cons_append, List.nil_append] at ht ⊢
        simp [ht.1, ht.2]
        cases rest with
        | nil => simp
        | cons c r =>
          simp only [Sep] at hs
          rcases hs with h | h | h <;> subst h <;> simp
  | some fd =>
    have hfd : fd.isDigit = true := hfac fd rfl
    have ht := key ('.' :: fd :: rest) (by intro c r h; simp at h; obtain ⟨rfl, _⟩ := h; decide)
    cases sign with
    | none =>
      simp only [Lit.chars, List.nil_append, Lit.geom, Option.map_some]
      unfold lexSurface
      simp only [List.cons_append, List.append_assoc, List.nil_append] at ht ⊢
      simp [hd0m, hd0p, ht.1, ht.2, hfd]
    | some b =>
      cases b with
      | true =>
        simp only [Lit.chars, Lit.geom, Option.map_some]
        unfold lexSurface
        simp only [List.cons_append, List.append_assoc, List.nil_append] at ht ⊢
        simp [ht.1, ht.2, hfd]
      | false =>
        simp only [Lit.chars, Lit.geom, Option.map_some]
        unfold lexSurface
        simp only [List.cons_append, List.append_assoc, List.nil_append] at ht ⊢
        simp [ht.1, ht.2, hfd]

end T4V

namespace T4V

theorem pIsectLoop_stop (f : Nat) (acc : Geom) (rest : List Char) (h : NoStar rest) :
    pIsectLoop (f + 1) acc rest = .ok (acc, rest) := by
  cases rest with
  | nil => simp [pIsectLoop]
  | cons t ts =>
    simp only [NoStar] at h
    unfold pIsectLoop
    split
    · rename_i heq; simp at heq
    · rename_i heq; simp at heq; exact absurd heq.1 h
    · rfl

theorem pUnionLoop_stop (f : Nat) (acc : Geom) (rest : List Char) (h : NoColon rest) :
    pUnionLoop (f + 1) acc rest = .ok (acc, rest) := by
  cases rest with
  | nil => simp [pUnionLoop]
  | cons t ts =>
    simp only [NoColon] at h
    unfold pUnionLoop
    split
    · rename_i heq; simp at heq
    · rename_i heq; simp at heq; exact absurd heq.1 h
    · rfl

theorem sep_colon (r : List Char) : Sep (':' :: r) := by simp [Sep]
theorem sep_star (r : List Char) : Sep ('*' :: r) := by simp [Sep]
theorem sep_rp (r : List Char) : Sep (')' :: r) := by simp [Sep]

theorem sep_charsIs (is : List SI) (rest : List Char) (h : Sep rest) : Sep (charsIs is ++ rest) := by
  cases is with
  | nil => simpa [charsIs] using h
  | cons _ _ => simp [charsIs, Sep]

theorem sep_charsOs (os : List SO) (rest : List Char) (h : Sep rest) : Sep (charsOs os ++ rest) := by
  cases os with
  | nil => simpa [charsOs] using h
  | cons _ _ => simp [charsOs, Sep]

theorem noStar_charsIs (is : List SI) (rest : List Char) (h : NoStar rest) : NoStar (charsIs is ++ rest) := by
  cases is with
  | nil => simpa [charsIs] using h
  | cons _ _ => simp [charsIs, NoStar]

mutual
theorem pUnion_ok : ∀ (u : SU) (g : Geom) (f : Nat) (rest : List Char), u.WF → u.tree = some g →
    u.cost ≤ f → Sep rest → NoStar rest → NoColon rest →
    pUnion f (u.chars ++ rest) = .ok (g, rest)
  | .mk i is, g, f, rest, hw, ht, hf, hsep, hs, hc => by
    simp only [SU.cost] at hf
    obtain ⟨f, rfl⟩ : ∃ k, f = k + 1 := ⟨f - 1, by omega⟩
    simp only [SU.WF] at hw
    simp only [SU.tree, Option.bind_eq_bind, Option.pure_def, Option.bind_eq_some_iff,
      Option.some.injEq] at ht
    obtain ⟨a, ha, bs, hbs, rfl⟩ := ht
    have h1 := pIsect_ok i a f (charsIs is ++ rest) hw.1 ha (by omega) (sep_charsIs is rest hsep)
      (noStar_charsIs is rest hs)
    simp only [SU.chars, List.append_assoc, pUnion, h1, bind, Except.bind]
    exact pUnionLoop_ok is bs f a rest hw.2 hbs (by omega) hsep hs hc
theorem pUnionLoop_ok : ∀ (is : List SI) (bs : List Geom) (f : Nat) (acc : Geom) (rest : List Char),
    wfIs is → treesIs is = some bs → costIs is ≤ f → Sep rest → NoStar rest → NoColon rest →
    pUnionLoop f acc (charsIs is ++ rest) = .ok (foldUnion acc bs, rest)
  | [], bs, f, acc, rest, _, ht, hf, _, _, hc => by
    simp only [costIs] at hf
    obtain ⟨f, rfl⟩ : ∃ k, f = k + 1 := ⟨f - 1, by omega⟩
    simp only [treesIs, Option.some.injEq] at ht
    subst ht
    simpa [charsIs, foldUnion] using pUnionLoop_stop f acc rest hc
  | i :: is, bs, f, acc, rest, hw, ht, hf, hsep, hs, hc => by
    simp only [costIs] at hf
    obtain ⟨f, rfl⟩ : ∃ k, f = k + 1 := ⟨f - 1, by omega⟩
    simp only [wfIs] at hw
    simp only [treesIs, Option.bind_eq_bind, Option.pure_def, Option.bind_eq_some_iff,
      Option.some.injEq] at ht
    obtain ⟨a, ha, bs', hbs, rfl⟩ := ht
    have h1 := pIsect_ok i a f (charsIs is ++ rest) hw.1 ha (by omega) (sep_charsIs is rest hsep)
      (noStar_charsIs is rest hs)
    simp only [charsIs, List.cons_append, List.append_assoc, pUnionLoop, h1, foldUnion]
    exact pUnionLoop_ok is bs' f _ rest hw.2 hbs (by omega) hsep hs hc
theorem pIsect_ok : ∀ (i : SI) (g : Geom) (f : Nat) (rest : List Char), i.WF → i.tree = some g →
    i.cost ≤ f → Sep rest → NoStar rest →
    pIsect f (i.chars ++ rest) = .ok (g, rest)
  | .mk o os, g, f, rest, hw, ht, hf, hsep, hs => by
    simp only [SI.cost] at hf
    obtain ⟨f, rfl⟩ : ∃ k, f = k + 1 := ⟨f - 1, by omega⟩
    simp only [SI.WF] at hw
    simp only [SI.tree, Option.bind_eq_bind, Option.pure_def, Option.bind_eq_some_iff,
      Option.some.injEq] at ht
    obtain ⟨a, ha, bs, hbs, rfl⟩ := ht
    have h1 := pOperand_ok o a f (charsOs os ++ rest) hw.1 ha (by omega) (sep_charsOs os rest hsep)
    simp only [SI.chars, List.append_assoc, pIsect, h1, bind, Except.bind]
    exact pIsectLoop_ok os bs f a rest hw.2 hbs (by omega) hsep hs
theorem pIsectLoop_ok : ∀ (os : List SO) (bs : List Geom) (f : Nat) (acc : Geom) (rest : List Char),
    wfOs os → treesOs os = some bs → costOs os ≤ f → Sep rest → NoStar rest →
    pIsectLoop f acc (charsOs os ++ rest) = .ok (foldInter acc bs, rest)
  | [], bs, f, acc, rest, _, ht, hf, _, hs => by
    simp only [costOs] at hf
    obtain ⟨f, rfl⟩ : ∃ k, f = k + 1 := ⟨f - 1, by omega⟩
    simp only [treesOs, Option.some.injEq] at ht
    subst ht
    simpa [charsOs, foldInter] using pIsectLoop_stop f acc rest hs
  | o :: os, bs, f, acc, rest, hw, ht, hf, hsep, hs => by
    simp only [costOs] at hf
    obtain ⟨f, rfl⟩ : ∃ k, f = k + 1 := ⟨f - 1, by omega⟩
    simp only [wfOs] at hw
    simp only [treesOs, Option.bind_eq_bind, Option.pure_def, Option.bind_eq_some_iff,
      Option.some.injEq] at ht
    obtain ⟨a, ha, bs', hbs, rfl⟩ := ht
    have h1 := pOperand_ok o a f (charsOs os ++ rest) hw.1 ha (by omega) (sep_charsOs os rest hsep)
    simp only [charsOs, List.cons_append, List.append_assoc, pIsectLoop, h1, foldInter]
    exact pIsectLoop_ok os bs' f _ rest hw.2 hbs (by omega) hsep hs
theorem pOperand_ok : ∀ (o : SO) (g : Geom) (f : Nat) (rest : List Char), o.WF → o.tree = some g →
    o.cost ≤ f → Sep rest →
    pOperand f (o.chars ++ rest) = .ok (g, rest)
  | .lit l, g, f, rest, hw, ht, hf, hsep => by
    simp only [SO.cost] at hf
    obtain ⟨f, rfl⟩ : ∃ k, f = k + 1 := ⟨f - 1, by omega⟩
    simp only [SO.WF] at hw
    simp only [SO.tree, Option.some.injEq] at ht
    subst ht
    have hlex := lexSurface_lit l hw rest hsep
    -- a literal starts with a sign or a digit: none of the other alternatives applies
    obtain ⟨hne, hdig, _⟩ := hw
    obtain ⟨sign, ds, facet⟩ := l
    obtain ⟨d0, ds', rfl⟩ : ∃ d0 ds', ds = d0 :: ds' := by
      cases ds with
      | nil => exact absurd rfl hne
      | cons a b => exact ⟨a, b, rfl⟩
    have hd0 : d0.isDigit = true := hdig d0 (by simp)
    have e1 : d0 ≠ '_' := by intro h; subst h; simp [Char.isDigit] at hd0
    have e2 : d0 ≠ '(' := by intro h; subst h; simp [Char.isDigit] at hd0
    have e3 : d0 ≠ '^' := by intro h; subst h; simp [Char.isDigit] at hd0
    unfold pOperand
    cases sign with
    | none =>
      simp only [SO.chars, Lit.chars, List.nil_append, List.cons_append, List.append_assoc] at hlex ⊢
      split
      · rename_i heq; simp at heq; exact absurd heq.1 e1
      · rename_i heq; simp at heq; exact absurd heq.1 e2
      · rename_i heq; simp at heq; exact absurd heq.1 e3
      · simp [hlex]
    | some b =>
      cases b <;>
      · simp only [SO.chars, Lit.chars, List.nil_append, List.cons_append, List.append_assoc] at hlex ⊢
        split
        · rename_i heq; simp at heq
        · rename_i heq; simp at heq
        · rename_i heq; simp at heq
        · simp [hlex]
  | .par u, g, f, rest, hw, ht, hf, _ => by
    simp only [SO.cost] at hf
    obtain ⟨f, rfl⟩ : ∃ k, f = k + 1 := ⟨f - 1, by omega⟩
    simp only [SO.WF] at hw
    simp only [SO.tree] at ht
    have h := pUnion_ok u g f (')' :: rest) hw ht (by omega) (sep_rp rest) (by simp [NoStar]) (by simp [NoColon])
    simp only [SO.chars, List.cons_append, List.append_assoc, List.nil_append] at h ⊢
    simp [pOperand, h]
  | .compl u, g, f, rest, hw, ht, hf, _ => by
    simp only [SO.cost] at hf
    obtain ⟨f, rfl⟩ : ∃ k, f = k + 1 := ⟨f - 1, by omega⟩
    simp only [SO.WF] at hw
    simp only [SO.tree, Option.bind_eq_bind, Option.bind_eq_some_iff] at ht
    obtain ⟨a, ha, hinv⟩ := ht
    have h := pUnion_ok u a f (')' :: rest) hw ha (by omega) (sep_rp rest) (by simp [NoStar]) (by simp [NoColon])
    simp only [SO.chars, List.cons_append, List.append_assoc, List.nil_append] at h ⊢
    simp [pOperand, h, hinv]
  | .ccell ds, g, f, rest, hw, ht, hf, _ => by
    simp only [SO.cost] at hf
    obtain ⟨f, rfl⟩ : ∃ k, f = k + 1 := ⟨f - 1, by omega⟩
    simp only [SO.WF] at hw
    simp only [SO.tree, Option.some.injEq] at ht
    subst ht
    have ht := takeWhile_append_stop (p := Char.isDigit) ds (')' :: rest) hw.2
      (by intro c r h; simp at h; obtain ⟨rfl, _⟩ := h; decide)
    simp only [SO.chars, List.cons_append, List.append_assoc, List.nil_append]
    unfold pOperand
    simp only [ht.1, ht.2]
    have : ds.isEmpty = false := by
      cases ds with
      | nil => exact absurd rfl hw.1
      | cons _ _ => rfl
    simp [this]
end

/-- **Round trip on canonical strings**: for every well-formed source expression whose complement
structure the converter supports, the parser consumes exactly the canonical spelling and returns the
tree MCNP's reading prescribes. -/
theorem parse_render (u : SU) (g : Geom) (hw : u.WF) (ht : u.tree = some g) (f : Nat) (hf : u.cost ≤ f) :
    pUnion f u.chars = .ok (g, []) := by
  simpa using pUnion_ok u g f [] hw ht hf (by simp [Sep]) (by simp [NoStar]) (by simp [NoColon])

end T4V

namespace T4V

/-! ## Meaning of the parsed tree -/

mutual
/-- MCNP's reading of a source expression: blank = intersection (binds tighter), `:` = union,
`#( … )` and `#n` = complements. -/
def SU.eval (σ : SurfVal) (cv : Nat → Bool) : SU → Bool
  | .mk i is => i.eval σ cv || evalIs σ cv is
def evalIs (σ : SurfVal) (cv : Nat → Bool) : List SI → Bool
  | [] => false
  | i :: is => i.eval σ cv || evalIs σ cv is
def SI.eval (σ : SurfVal) (cv : Nat → Bool) : SI → Bool
  | .mk o os => o.eval σ cv && evalOs σ cv os
def evalOs (σ : SurfVal) (cv : Nat → Bool) : List SO → Bool
  | [] => true
  | o :: os => o.eval σ cv && evalOs σ cv os
def SO.eval (σ : SurfVal) (cv : Nat → Bool) : SO → Bool
  | .lit l => l.geom.eval σ cv
  | .par u => u.eval σ cv
  | .compl u => !u.eval σ cv
  | .ccell ds => !cv (digitsVal ds)
end

mutual
def SU.NZ : SU → Prop
  | .mk i is => i.NZ ∧ nzIs is
def nzIs : List SI → Prop
  | [] => True
  | i :: is => i.NZ ∧ nzIs is
def SI.NZ : SI → Prop
  | .mk o os => o.NZ ∧ nzOs os
def nzOs : List SO → Prop
  | [] => True
  | o :: os => o.NZ ∧ nzOs os
def SO.NZ : SO → Prop
  | .lit l => digitsVal l.ds ≠ 0
  | .par u => u.NZ
  | .compl u => u.NZ
  | .ccell _ => True
end

theorem foldUnion_eval (σ : SurfVal) (cv : Nat → Bool) : ∀ (bs : List Geom) (acc : Geom),
    (foldUnion acc bs).eval σ cv = (acc.eval σ cv || Geom.evalAny σ cv bs)
  | [], acc => by simp [foldUnion, Geom.evalAny]
  | b :: bs, acc => by
      rw [foldUnion, foldUnion_eval σ cv bs]
      simp [Geom.eval, Geom.evalAny, Bool.or_assoc]

theorem foldInter_eval (σ : SurfVal) (cv : Nat → Bool) : ∀ (bs : List Geom) (acc : Geom),
    (foldInter acc bs).eval σ cv = (acc.eval σ cv && Geom.evalAll σ cv bs)
  | [], acc => by simp [foldInter, Geom.evalAll]
  | b :: bs, acc => by
      rw [foldInter, foldInter_eval σ cv bs]
      simp [Geom.eval, Geom.evalAll, Bool.and_assoc]

theorem foldUnion_nonzero : ∀ (bs : List Geom) (acc : Geom), acc.nonzero = true →
    Geom.nonzeroList bs = true → (foldUnion acc bs).nonzero = true
  | [], acc, h, _ => by simpa [foldUnion] using h
  | b :: bs, acc, h, hb => by
      simp only [Geom.nonzeroList, Bool.and_eq_true] at hb
      rw [foldUnion]
      exact foldUnion_nonzero bs _ (by simp [Geom.nonzero, Geom.nonzeroList, h, hb.1]) hb.2

theorem foldInter_nonzero : ∀ (bs : List Geom) (acc : Geom), acc.nonzero = true →
    Geom.nonzeroList bs = true → (foldInter acc bs).nonzero = true
  | [], acc, h, _ => by simpa [foldInter] using h
  | b :: bs, acc, h, hb => by
      simp only [Geom.nonzeroList, Bool.and_eq_true] at hb
      rw [foldInter]
      exact foldInter_nonzero bs _ (by simp [Geom.nonzero, Geom.nonzeroList, h, hb.1]) hb.2

mutual
theorem SU.tree_sound (σ : SurfVal) (cv : Nat → Bool) : ∀ (u : SU) (g : Geom), u.NZ → u.tree = some g →
    g.nonzero = true ∧ g.eval σ cv = u.eval σ cv
  | .mk i is, g, hz, ht => by
    simp only [SU.NZ] at hz
    simp only [SU.tree, Option.bind_eq_bind, Option.pure_def, Option.bind_eq_some_iff,
      Option.some.injEq] at ht
    obtain ⟨a, ha, bs, hbs, rfl⟩ := ht
    have h1 := SI.tree_sound σ cv i a hz.1 ha
    have h2 := treesIs_sound σ cv is bs hz.2 hbs
    exact ⟨foldUnion_nonzero bs a h1.1 h2.1, by simp [foldUnion_eval, SU.eval, h1.2, h2.2]⟩
theorem treesIs_sound (σ : SurfVal) (cv : Nat → Bool) : ∀ (is : List SI) (bs : List Geom), nzIs is →
    treesIs is = some bs → Geom.nonzeroList bs = true ∧ Geom.evalAny σ cv bs = evalIs σ cv is
  | [], bs, _, ht => by
    simp only [treesIs, Option.some.injEq] at ht; subst ht
    simp [Geom.nonzeroList, Geom.evalAny, evalIs]
  | i :: is, bs, hz, ht => by
    simp only [nzIs] at hz
    simp only [treesIs, Option.bind_eq_bind, Option.pure_def, Option.bind_eq_some_iff,
      Option.some.injEq] at ht
    obtain ⟨a, ha, bs', hbs, rfl⟩ := ht
    have h1 := SI.tree_sound σ cv i a hz.1 ha
    have h2 := treesIs_sound σ cv is bs' hz.2 hbs
    simp [Geom.nonzeroList, Geom.evalAny, evalIs, h1.1, h1.2, h2.1, h2.2]
theorem SI.tree_sound (σ : SurfVal) (cv : Nat → Bool) : ∀ (i : SI) (g : Geom), i.NZ → i.tree = some g →
    g.nonzero = true ∧ g.eval σ cv = i.eval σ cv
  | .mk o os, g, hz, ht => by
    simp only [SI.NZ] at hz
    simp only [SI.tree, Option.bind_eq_bind, Option.pure_def, Option.bind_eq_some_iff,
      Option.some.injEq] at ht
    obtain ⟨a, ha, bs, hbs, rfl⟩ := ht
    have h1 := SO.tree_sound σ cv o a hz.1 ha
    have h2 := treesOs_sound σ cv os bs hz.2 hbs
    exact ⟨foldInter_nonzero bs a h1.1 h2.1, by simp [foldInter_eval, SI.eval, h1.2, h2.2]⟩
theorem treesOs_sound (σ : SurfVal) (cv : Nat → Bool) : ∀ (os : List SO) (bs : List Geom), nzOs os →
    treesOs os = some bs → Geom.nonzeroList bs = true ∧ Geom.evalAll σ cv bs = evalOs σ cv os
  | [], bs, _, ht => by
    simp only [treesOs, Option.some.injEq] at ht; subst ht
    simp [Geom.nonzeroList, Geom.evalAll, evalOs]
  | o :: os, bs, hz, ht => by
    simp only [nzOs] at hz
    simp only [treesOs, Option.bind_eq_bind, Option.pure_def, Option.bind_eq_some_iff,
      Option.some.injEq] at ht
    obtain ⟨a, ha, bs', hbs, rfl⟩ := ht
    have h1 := SO.tree_sound σ cv o a hz.1 ha
    have h2 := treesOs_sound σ cv os bs' hz.2 hbs
    simp [Geom.nonzeroList, Geom.evalAll, evalOs, h1.1, h1.2, h2.1, h2.2]
theorem SO.tree_sound (σ : SurfVal) (cv : Nat → Bool) : ∀ (o : SO) (g : Geom), o.NZ → o.tree = some g →
    g.nonzero = true ∧ g.eval σ cv = o.eval σ cv
  | .lit l, g, hz, ht => by
    simp only [SO.NZ] at hz
    simp only [SO.tree, Option.some.injEq] at ht; subst ht
    refine ⟨?_, by simp [SO.eval]⟩
    simp only [Lit.geom, Geom.nonzero, bne_iff_ne, ne_eq]
    split <;> omega
  | .par u, g, hz, ht => by
    simp only [SO.NZ] at hz
    simp only [SO.tree] at ht
    simpa [SO.eval] using SU.tree_sound σ cv u g hz ht
  | .compl u, g, hz, ht => by
    simp only [SO.NZ] at hz
    simp only [SO.tree, Option.bind_eq_bind, Option.bind_eq_some_iff] at ht
    obtain ⟨a, ha, hinv⟩ := ht
    have h := SU.tree_sound σ cv u a hz ha
    exact ⟨inverse_nonzero a g h.1 hinv, by simp [SO.eval, inverse_eval σ cv a g h.1 hinv, h.2]⟩
  | .ccell ds, g, _, ht => by
    simp only [SO.tree, Option.some.injEq] at ht; subst ht
    simp [Geom.nonzero, Geom.eval, SO.eval]
end

end T4V
