import T4V.Proofs.ToT4c
/-!
# Main theorem: every volume produced by the conversion denotes the cell expression it came from
-/
namespace T4V

section
variable (env : CEnv) (σ : TSense) (cv : Nat → Bool) (hE : EnvOK env σ cv)
include hE

/-- composing the steps of an intersection / union node with the final insertion of `pid` -/
theorem finish_node {ids : List Nat} {st st2 : CState} {pid : Nat} (v : Vol)
    (hst2 : StOK σ cv st2) (hs : Step σ ids st st2)
    (hpid : pid ≤ st.next ∧ ¬ hasKey st.vols pid) (hnot : pid ∉ ids) :
    ¬ hasKey st2.vols pid ∧
    StOK σ cv { st2 with vols := dictSet st2.vols pid v } ∧
    Step σ (pid :: ids) st { st2 with vols := dictSet st2.vols pid v } := by
  have hk : ¬ hasKey st2.vols pid := by
    intro hk
    rcases hs.keys pid hk with h | h | h
    · exact hpid.2 h
    · exact hnot h
    · omega
  obtain ⟨a1, a2, a3, _⟩ := add_fresh (σ := σ) v hk
  refine ⟨hk, ⟨?_, ?_, ?_⟩, ⟨hs.le, fun k b h => a1 k b (hs.pres k b h), fun k v' h => a2 k v' (hs.get k v' h), ?_⟩⟩
  · intro k hk'
    rcases (a3 k).mp hk' with h | h
    · exact hst2.below k h
    · subst h; exact Nat.le_trans hpid.1 hs.le
  · intro s id hm
    obtain ⟨hz, v2, hg, ho, he⟩ := hst2.surf s id hm
    exact ⟨hz, v2, a2 _ _ hg, ho, he⟩
  · intro c id hm
    exact a1 _ _ (hst2.cell c id hm)
  · intro k hk'
    rcases (a3 k).mp hk' with h | h
    · rcases hs.keys k h with h' | h' | h'
      · exact Or.inl h'
      · exact Or.inr (Or.inl (List.mem_cons_of_mem _ h'))
      · exact Or.inr (Or.inr h')
    · subst h; exact Or.inr (Or.inl (by simp))

mutual
theorem potConvert_ok : ∀ (fuel : Nat) (c : CellIn) (st : CState) (r : Option Nat) (st' : CState) (val : Bool),
    StOK σ cv st → c.geom.complFree = true → c.geom.nonzero = true →
    val = c.geom.eval (surfValOf env.matching σ) cv →
    potConvert env fuel c st = .ok (r, st') → Out σ cv [] st st' val r
  | 0, _, _, _, _, _, _, _, _, _, h => by simp [potConvert] at h
  | fuel + 1, c, st, r, st', val, hst, hcf, hnz, hval, h => by
      simp only [potConvert] at h
      have hfl := potFlag_ids c.geom st.next
      have hfe := potFlag_eval env.matching σ cv c.geom st.next hcf
      have hfz := potFlag_nonzero c.geom st.next hnz
      generalize potFlag c.geom st.next = pf at h hfl hfe hfz
      obtain ⟨t, k1⟩ := pf
      simp only at h hfl hfe hfz
      cases hx : potExpand env.matching t k1 with
      | error e => simp [hx, bind, Except.bind] at h
      | ok p =>
        obtain ⟨t2, k2⟩ := p
        simp only [hx, bind, Except.bind] at h
        have hxp := potExpand_ok env.matching hE.matchOK σ cv t k1 t2 k2 hfz hx
        have hop := potOptimise_ok env.matching σ cv t2 hxp.expanded
        have hst2 : StOK σ cv { st with next := k2 } :=
          ⟨fun k hk => by have := hst.below k hk; have := hfl.1; have := hxp.le; simp; omega, hst.surf, hst.cell⟩
        have hle : st.next ≤ k2 := Nat.le_trans hfl.1 hxp.le
        cases ho : potOptimise t2 with
        | none =>
          simp only [ho, Except.ok.injEq, Prod.mk.injEq] at h
          obtain ⟨rfl, rfl⟩ := h
          refine ⟨hst2, ⟨hle, fun _ _ h => h, fun _ _ h => h, fun _ h => Or.inl h⟩, ?_⟩
          show val = false
          rw [hval, ← hfe, ← hxp.eval]
          exact hop.none_ok ho
        | some t3 =>
          simp only [ho] at h
          obtain ⟨he3, hx3, _, hsub⟩ := hop.some_ok t3 ho
          have hnd2 : t2.ids.Nodup := hxp.nodup hfl.2.1 (fun i hi => (hfl.2.2 i hi).2)
          have hin : ∀ i ∈ t3.ids, st.next < i ∧ i ≤ k2 := by
            intro i hi
            rcases hxp.ids i (hsub.subset hi) with h' | h'
            · have := hfl.2.2 i h'; have := hxp.le; omega
            · have := hfl.1; omega
          have htree : TreeOK t3 { st with next := k2 } :=
            ⟨hx3, hsub.nodup hnd2, fun i hi => ⟨(hin i hi).2, fun hk => by
              have := hst.below i hk; have := (hin i hi).1; omega⟩⟩
          obtain ⟨o, _⟩ := toT4_ok fuel t3 c.origin { st with next := k2 } r st' hst2 htree h
          refine ⟨o.ok, ⟨Nat.le_trans hle o.step.le, o.step.pres, o.step.get, ?_⟩, ?_⟩
          · intro k hk
            rcases o.step.keys k hk with h' | h' | h'
            · exact Or.inl h'
            · exact Or.inr (Or.inr (hin k h').1)
            · exact Or.inr (Or.inr (by simp at h'; omega))
          · have : val = t3.eval env.matching σ cv := by rw [hval, ← hfe, ← hxp.eval, he3]
            rw [this]; exact o.res

theorem convertCellref_ok : ∀ (fuel : Nat) (c : Nat) (st : CState) (r : Option Nat) (st' : CState),
    StOK σ cv st → convertCellref env fuel c st = .ok (r, st') → Out σ cv [] st st' (cv c) r
  | 0, _, _, _, _, _, h => by simp [convertCellref] at h
  | fuel + 1, c, st, r, st', hst, h => by
      simp only [convertCellref] at h
      cases hf : st.cellCache.find? (·.1 == c) with
      | some p =>
        obtain ⟨c', id⟩ := p
        have hmem := List.mem_of_find?_eq_some hf
        have hc' : c' = c := by simpa using List.find?_some hf
        subst hc'
        simp only [hf, Option.map_some, Except.ok.injEq, Prod.mk.injEq] at h
        obtain ⟨rfl, rfl⟩ := h
        exact ⟨hst, Step.refl σ [] st, hst.cell c' id hmem⟩
      | none =>
        simp only [hf, Option.map_none] at h
        cases hc : env.cell? c with
        | none => simp [hc] at h
        | some cell =>
          simp only [hc] at h
          obtain ⟨hcf, hnz, hval⟩ := hE.cells c cell hc
          cases hp : potConvert env fuel cell st with
          | error e => simp [hp, bind, Except.bind] at h
          | ok p =>
            obtain ⟨r1, st1⟩ := p
            simp only [hp, bind, Except.bind] at h
            have o := potConvert_ok fuel cell st r1 st1 (cv c) hst hcf hnz hval hp
            cases r1 with
            | none =>
              simp only [Except.ok.injEq, Prod.mk.injEq] at h
              obtain ⟨rfl, rfl⟩ := h
              exact o
            | some id =>
              simp only [Except.ok.injEq, Prod.mk.injEq] at h
              obtain ⟨rfl, rfl⟩ := h
              have hd : Denotes st1.vols σ id (cv c) := o.res
              refine ⟨⟨o.ok.below, o.ok.surf, ?_⟩, ⟨o.step.le, o.step.pres, o.step.get, o.step.keys⟩, hd⟩
              intro c2 id2 hm
              simp only [List.mem_append, List.mem_singleton, Prod.mk.injEq] at hm
              rcases hm with hm | ⟨rfl, rfl⟩
              · exact o.ok.cell c2 id2 hm
              · exact hd

theorem toT4_ok : ∀ (fuel : Nat) (t : FTree) (origin : List (Nat × Nat)) (st : CState) (r : Option Nat)
    (st' : CState), StOK σ cv st → TreeOK t st → toT4 env fuel t origin st = .ok (r, st') →
    Out σ cv t.ids st st' (t.eval env.matching σ cv) r ∧
    (t.isPureMain = true → ∃ id, r = some id ∧ PlainVol σ st'.vols id (t.eval env.matching σ cv))
  | 0, _, _, _, _, _, _, _, h => by simp [toT4] at h
  | fuel + 1, .lit s, origin, st, r, st', hst, htree, h => by
      simp only [toT4, Except.ok.injEq, Prod.mk.injEq] at h
      obtain ⟨rfl, rfl⟩ := h
      have hs : s ≠ 0 := by simpa [FTree.expanded] using htree.expanded
      obtain ⟨a, b, c⟩ := convertSurface_ok (cv := cv) hst s hs origin
      exact ⟨⟨a, b, c.denotes⟩, fun _ => ⟨_, rfl, c⟩⟩
  | fuel + 1, .msurf n sub, origin, st, r, st', _, htree, _ => by
      have := htree.expanded; simp [FTree.expanded] at this
  | fuel + 1, .cref c, origin, st, r, st', hst, _, h => by
      simp only [toT4] at h
      exact ⟨convertCellref_ok fuel c st r st' hst h, fun hp => by simp [FTree.isPureMain] at hp⟩
  | fuel + 1, .node pid op args, origin, st, r, st', hst, htree, h => by
      have hxa : FTree.expandedList args = true := by simpa [FTree.expanded] using htree.expanded
      have hnd : pid ∉ FTree.idsList args ∧ (FTree.idsList args).Nodup := by
        simpa [FTree.ids] using htree.nodup
      have hpid : pid ≤ st.next ∧ ¬ hasKey st.vols pid := htree.fresh pid (by simp [FTree.ids])
      have hfr : ∀ i ∈ FTree.idsList args, i ≤ st.next ∧ ¬ hasKey st.vols i :=
        fun i hi => htree.fresh i (by simp [FTree.ids, hi])
      cases op with
      | inter =>
        simp only [toT4] at h
        have hids : FTree.idsList (nodesOf args) = FTree.idsList args :=
          idsList_filter_noids _ args (fun t _ ht => ids_of_surface_or_cref t ht)
        have hlok : ListOK (nodesOf args) st :=
          ⟨expandedList_filter _ args hxa, by rw [hids]; exact hnd.2, by rw [hids]; exact hfr⟩
        cases h1 : toT4List env fuel (nodesOf args) origin st with
        | error e => simp [h1, bind, Except.bind] at h
        | ok p1 =>
          obtain ⟨ids1, st1⟩ := p1
          simp only [h1, bind, Except.bind] at h
          obtain ⟨ok1, step1, rv1⟩ := toT4List_ok fuel (nodesOf args) origin st ids1 st1 hst hlok h1
          cases h2 : cellrefList env fuel (crefsOf args) st1 with
          | error e => simp [h2] at h
          | ok p2 =>
            obtain ⟨ids2, st2⟩ := p2
            simp only [h2] at h
            obtain ⟨ok2, step2, rv2⟩ := cellrefList_ok fuel (crefsOf args) st1 ids2 st2 ok1 h2
            have rv := ResVals.append _ _ _ _ (ResVals.lift step2.pres _ _ rv1) rv2
            have hstep : Step σ (FTree.idsList args) st st2 := by
              have := Step.trans step1 step2
              rw [hids, List.append_nil] at this; exact this
            have hsplit := evalAll_split env.matching σ cv args hxa
            have hall := ResVals.all _ _ rv
            by_cases hnone : (ids1 ++ ids2).any Option.isNone = true
            · simp only [hnone, if_true, Except.ok.injEq, Prod.mk.injEq] at h
              obtain ⟨rfl, rfl⟩ := h
              have hf := hall.1 hnone
              rw [List.all_append] at hf
              refine ⟨⟨ok2, hstep.mono (fun i hi => by simp [FTree.ids, hi]), ?_⟩, ?_⟩
              · show FTree.eval env.matching σ cv (.node pid .inter args) = false
                simp only [FTree.eval, hsplit]
                revert hf
                generalize (args.filterMap litOf).all (litT σ) = A
                generalize ((nodesOf args).map (FTree.eval env.matching σ cv)).all id = B
                generalize ((crefsOf args).map cv).all id = C
                cases A <;> cases B <;> cases C <;> simp
              · intro hp
                simp only [FTree.isPureMain] at hp
                obtain ⟨e1, e2⟩ := pureMain_parts args hp
                have l1 := resVals_length _ _ rv1
                have l2 := resVals_length _ _ rv2
                rw [e1] at l1; rw [e2] at l2
                simp only [List.map_nil, List.length_nil] at l1 l2
                have : ids1 = [] := List.eq_nil_of_length_eq_zero l1.symm
                have : ids2 = [] := List.eq_nil_of_length_eq_zero l2.symm
                subst_vars
                simp at hnone
            · have hnone' : (ids1 ++ ids2).any Option.isNone = false := by
                cases hq : (ids1 ++ ids2).any Option.isNone with
                | true => exact absurd hq hnone
                | false => rfl
              simp only [hnone', Bool.false_eq_true, if_false, Except.ok.injEq, Prod.mk.injEq] at h
              obtain ⟨rfl, rfl⟩ := h
              have hdl := hall.2 hnone'
              generalize hv : ({ pluses := (convEqua (args.filterMap litOf)).1,
                                 minuses := (convEqua (args.filterMap litOf)).2,
                                 ops := if ((ids1 ++ ids2).filterMap id).isEmpty then none
                                        else some (Op.inter, (ids1 ++ ids2).filterMap id),
                                 origin := origin } : Vol) = v
              have hequa : equa σ v = (args.filterMap litOf).all (litT σ) := by
                subst hv
                exact equa_convEqua σ _ (lits_nonzero args hxa) _ origin true
              obtain ⟨hk, okf, stepf⟩ := finish_node env σ cv hE v ok2 hstep hpid hnd.1
              have hget := (add_fresh (σ := σ) v hk).2.2.2
              have hval : FTree.eval env.matching σ cv (.node pid .inter args) =
                  ((args.filterMap litOf).all (litT σ) &&
                    (((nodesOf args).map (FTree.eval env.matching σ cv)) ++ ((crefsOf args).map cv)).all id) := by
                simp only [FTree.eval, hsplit, List.all_append, Bool.and_assoc]
              by_cases hemp : ((ids1 ++ ids2).filterMap id).isEmpty = true
              · have hops : v.ops = none := by subst hv; exact if_pos hemp
                have hlen := filterMap_id_length_of_no_none _ hnone'
                have hl0 : (ids1 ++ ids2).length = 0 := by
                  rw [← hlen]; simpa using hemp
                have hbs : (((nodesOf args).map (FTree.eval env.matching σ cv)) ++ ((crefsOf args).map cv)) = [] := by
                  apply List.eq_nil_of_length_eq_zero
                  rw [resVals_length _ _ rv]; exact hl0
                have hd := (Denotes.new (σ := σ) (v := v) hk).1 hops
                rw [← dictSet_fresh v hk] at hd
                refine ⟨⟨okf, stepf, ?_⟩, fun _ => ⟨pid, rfl, v, hget, hops, ?_⟩⟩
                · show Denotes _ σ pid _
                  rw [hval, hbs]; simpa [hequa] using hd
                · rw [hval, hbs]; simp [hequa]
              · have hemp' : ((ids1 ++ ids2).filterMap id).isEmpty = false := by
                  cases hq : ((ids1 ++ ids2).filterMap id).isEmpty with
                  | true => exact absurd hq hemp
                  | false => rfl
                have hops : v.ops = some (Op.inter, (ids1 ++ ids2).filterMap id) := by
                  subst hv; exact if_neg hemp
                have hd := (Denotes.new (σ := σ) (v := v) hk).2 _ _ _ hops hdl
                rw [← dictSet_fresh v hk] at hd
                refine ⟨⟨okf, stepf, ?_⟩, fun hp => ?_⟩
                · show Denotes _ σ pid _
                  rw [hval]; simpa [combine, hequa] using hd
                · -- a pure main part has no operands at all
                  simp only [FTree.isPureMain] at hp
                  obtain ⟨e1, e2⟩ := pureMain_parts args hp
                  have l := resVals_length _ _ rv
                  rw [e1, e2] at l
                  simp only [List.map_nil, List.append_nil, List.length_nil] at l
                  have : ids1 ++ ids2 = [] := List.eq_nil_of_length_eq_zero l.symm
                  rw [this] at hemp'; simp at hemp'
      | union =>
        simp only [toT4] at h
        cases hl : largestPure args with
        | none =>
          simp only [hl] at h
          have hids : FTree.idsList (nonCrefs args) = FTree.idsList args :=
            idsList_filter_noids _ args (fun t _ ht => ids_of_cref t ht)
          have hlok : ListOK (nonCrefs args) st :=
            ⟨expandedList_filter _ args hxa, by rw [hids]; exact hnd.2, by rw [hids]; exact hfr⟩
          cases h1 : toT4List env fuel (nonCrefs args) origin st with
          | error e => simp [h1, bind, Except.bind] at h
          | ok p1 =>
            obtain ⟨ids1, st1⟩ := p1
            simp only [h1, bind, Except.bind] at h
            obtain ⟨ok1, step1, rv1⟩ := toT4List_ok fuel (nonCrefs args) origin st ids1 st1 hst hlok h1
            cases h2 : cellrefList env fuel (crefsOf args) st1 with
            | error e => simp [h2] at h
            | ok p2 =>
              obtain ⟨ids2, st2⟩ := p2
              simp only [h2] at h
              obtain ⟨ok2, step2, rv2⟩ := cellrefList_ok fuel (crefsOf args) st1 ids2 st2 ok1 h2
              have rv := ResVals.append _ _ _ _ (ResVals.lift step2.pres _ _ rv1) rv2
              have hstep : Step σ (FTree.idsList args) st st2 := by
                have := Step.trans step1 step2
                rw [hids, List.append_nil] at this; exact this
              obtain ⟨cs, hdl, hany⟩ := ResVals.any _ _ rv
              have hval : FTree.eval env.matching σ cv (.node pid .union args) = cs.any id := by
                simp only [FTree.eval, evalAny_split env.matching σ cv args, hany, List.any_append]
              by_cases hemp : ((ids1 ++ ids2).filterMap id).isEmpty = true
              · simp only [hemp, if_true, Except.ok.injEq, Prod.mk.injEq] at h
                obtain ⟨rfl, rfl⟩ := h
                refine ⟨⟨ok2, hstep.mono (fun i hi => by simp [FTree.ids, hi]), ?_⟩,
                  fun hp => by simp [FTree.isPureMain] at hp⟩
                show FTree.eval env.matching σ cv (.node pid .union args) = false
                have he : (ids1 ++ ids2).filterMap id = [] := by simpa using hemp
                rw [he] at hdl
                have hcs : cs = [] := by
                  obtain ⟨f, hf⟩ := hdl
                  simp only [List.mapM_nil, Option.pure_def, Option.some.injEq] at hf
                  exact hf.symm
                rw [hval, hcs]; rfl
              · have hemp' : ((ids1 ++ ids2).filterMap id).isEmpty = false := by
                  cases hq : ((ids1 ++ ids2).filterMap id).isEmpty with
                  | true => exact absurd hq hemp
                  | false => rfl
                simp only [hemp', Bool.false_eq_true, if_false, Except.ok.injEq, Prod.mk.injEq] at h
                obtain ⟨rfl, rfl⟩ := h
                generalize hv : ({ pluses := (convEqua [(env.unionIds.1 : Int), -(env.unionIds.2 : Int)]).1,
                                   minuses := (convEqua [(env.unionIds.1 : Int), -(env.unionIds.2 : Int)]).2,
                                   ops := some (Op.union, (ids1 ++ ids2).filterMap id),
                                   origin := origin } : Vol) = v
                have hequa : equa σ v = false := by
                  subst hv
                  obtain ⟨u1, u2, hu⟩ := hE.helper
                  have hz : ∀ s ∈ [(env.unionIds.1 : Int), -(env.unionIds.2 : Int)], s ≠ 0 := by
                    intro s hs
                    simp only [List.mem_cons, List.mem_nil_iff, or_false] at hs
                    rcases hs with rfl | rfl <;> omega
                  rw [equa_convEqua σ _ hz]
                  have p1 : (env.unionIds.1 : Int) > 0 := by omega
                  have p2 : ¬ (-(env.unionIds.2 : Int) > 0) := by omega
                  simp only [List.all_cons, List.all_nil, Bool.and_true, litT, p1, p2, if_true, if_false,
                    Int.natAbs_natCast, Int.natAbs_neg]
                  cases h1' : σ env.unionIds.1 <;> cases h2' : σ env.unionIds.2 <;> simp_all
                obtain ⟨hk, okf, stepf⟩ := finish_node env σ cv hE v ok2 hstep hpid hnd.1
                have hops : v.ops = some (Op.union, (ids1 ++ ids2).filterMap id) := by subst hv; rfl
                have hd := (Denotes.new (σ := σ) (v := v) hk).2 _ _ _ hops hdl
                rw [← dictSet_fresh v hk] at hd
                refine ⟨⟨okf, stepf, ?_⟩, fun hp => by simp [FTree.isPureMain] at hp⟩
                show Denotes _ σ pid _
                rw [hval]; simpa [combine, hequa] using hd
        | some i =>
          simp only [hl] at h
          obtain ⟨main, hmain, hpm⟩ := largestPure_spec args hxa i hl
          obtain ⟨pre, post, hsplit, herase⟩ := split_at args i main hmain
          have hgetD : args.getD i (.lit 0) = main := by
            rw [List.getD_eq_getElem?_getD, hmain]; rfl
          rw [hgetD, herase] at h
          -- ids of the parts
          have hidsA : FTree.idsList args = FTree.idsList pre ++ (main.ids ++ FTree.idsList post) := by
            rw [hsplit, idsList_append]; simp [FTree.idsList]
          have hidsR : FTree.idsList (pre ++ post) = FTree.idsList pre ++ FTree.idsList post :=
            idsList_append pre post
          have hndA := hnd.2
          rw [hidsA] at hndA
          have hmem_main : ∀ i ∈ main.ids, i ∈ FTree.idsList args := by
            intro i hi; rw [hidsA]; simp [hi]
          have hmem_rest : ∀ i ∈ FTree.idsList (pre ++ post), i ∈ FTree.idsList args := by
            intro i hi; rw [hidsR] at hi; rw [hidsA]
            simp only [List.mem_append] at hi ⊢
            rcases hi with hi | hi
            · exact Or.inl hi
            · exact Or.inr (Or.inr hi)
          have hdisj : ∀ i ∈ FTree.idsList (pre ++ post), i ∉ main.ids := by
            intro i hi hm
            rw [hidsR] at hi
            rw [List.nodup_append] at hndA
            obtain ⟨_, n2, d1⟩ := hndA
            rw [List.nodup_append] at n2
            obtain ⟨_, _, d2⟩ := n2
            simp only [List.mem_append] at hi
            rcases hi with hi | hi
            · exact d1 i hi i (by simp [hm]) rfl
            · exact d2 i hm i hi rfl
          have hxm : main.expanded = true := expanded_of_mem args main hxa (by rw [hsplit]; simp)
          have htm : TreeOK main st :=
            ⟨hxm, by
              rw [List.nodup_append] at hndA
              have := hndA.2.1
              rw [List.nodup_append] at this
              exact this.1, fun i hi => hfr i (hmem_main i hi)⟩
          cases h0 : toT4 env fuel main origin st with
          | error e => simp [h0, bind, Except.bind] at h
          | ok p0 =>
            obtain ⟨mid, st0⟩ := p0
            simp only [h0, bind, Except.bind] at h
            obtain ⟨o0, pm0⟩ := toT4_ok fuel main origin st mid st0 hst htm h0
            obtain ⟨mid', hmid, mv, hmg, hmo, hme⟩ := pm0 hpm
            subst hmid
            simp only at h
            have hxr : FTree.expandedList (pre ++ post) = true := by
              have := hxa
              rw [hsplit, expandedList_append] at this
              simp only [FTree.expandedList, Bool.and_eq_true] at this
              rw [expandedList_append]; simp [this.1, this.2.2]
            have hlok : ListOK (pre ++ post) st0 :=
              ⟨hxr, by
                rw [hidsR]
                rw [List.nodup_append] at hndA ⊢
                obtain ⟨n1, n2, d1⟩ := hndA
                rw [List.nodup_append] at n2
                exact ⟨n1, n2.2.1, fun a ha b hb => d1 a ha b (by simp [hb])⟩,
               fresh_step o0.step (fun i hi => hfr i (hmem_rest i hi)) hdisj⟩
            cases h1 : toT4List env fuel (pre ++ post) origin st0 with
            | error e => simp [h1] at h
            | ok p1 =>
              obtain ⟨ids1, st1⟩ := p1
              simp only [h1] at h
              obtain ⟨ok1, step1, rv1⟩ := toT4List_ok fuel (pre ++ post) origin st0 ids1 st1 o0.ok hlok h1
              cases h2 : cellrefList env fuel (crefsOf args) st1 with
              | error e => simp [h2] at h
              | ok p2 =>
                obtain ⟨ids2, st2⟩ := p2
                simp only [h2, Except.ok.injEq, Prod.mk.injEq] at h
                obtain ⟨rfl, rfl⟩ := h
                obtain ⟨ok2, step2, rv2⟩ := cellrefList_ok fuel (crefsOf args) st1 ids2 st2 ok1 h2
                have rv := ResVals.append _ _ _ _ (ResVals.lift step2.pres _ _ rv1) rv2
                have hstep : Step σ (FTree.idsList args) st st2 := by
                  have := Step.trans (Step.trans o0.step step1) step2
                  refine this.mono ?_
                  intro i hi
                  simp only [List.append_nil, List.mem_append] at hi
                  rcases hi with hi | hi
                  · exact hmem_main i hi
                  · exact hmem_rest i hi
                obtain ⟨cs, hdl, hany⟩ := ResVals.any _ _ rv
                have hmv : (dictGet? st0.vols mid').getD { pluses := [], minuses := [] } = mv := by
                  rw [hmg]; rfl
                rw [hmv]
                generalize hv : ({ pluses := mv.pluses, minuses := mv.minuses,
                                   ops := if ((ids1 ++ ids2).filterMap id).isEmpty then none
                                          else some (Op.union, (ids1 ++ ids2).filterMap id),
                                   origin := origin } : Vol) = v
                have hequa : equa σ v = main.eval env.matching σ cv := by
                  rw [← hme]; subst hv; exact equa_congr σ _ _ rfl rfl
                obtain ⟨hk, okf, stepf⟩ := finish_node env σ cv hE v ok2 hstep hpid hnd.1
                have hval : FTree.eval env.matching σ cv (.node pid .union args) =
                    (main.eval env.matching σ cv || cs.any id) := by
                  have e1 : FTree.evalAny env.matching σ cv args =
                      (FTree.evalAny env.matching σ cv pre || (main.eval env.matching σ cv ||
                        FTree.evalAny env.matching σ cv post)) := by
                    rw [hsplit, evalAny_append]; simp [FTree.evalAny]
                  have e2 : cs.any id = (FTree.evalAny env.matching σ cv (pre ++ post) ||
                      ((crefsOf args).map cv).any id) := by
                    rw [hany, List.any_append, evalAny_map]
                  have e3 := crefs_le_evalAny env.matching σ cv args
                  simp only [FTree.eval]
                  rw [e2, evalAny_append]
                  rw [e1] at e3 ⊢
                  revert e3
                  generalize FTree.evalAny env.matching σ cv pre = A
                  generalize main.eval env.matching σ cv = B
                  generalize FTree.evalAny env.matching σ cv post = C
                  generalize ((crefsOf args).map cv).any id = D
                  cases A <;> cases B <;> cases C <;> cases D <;> simp
                refine ⟨⟨okf, stepf, ?_⟩, fun hp => by simp [FTree.isPureMain] at hp⟩
                show Denotes _ σ pid _
                rw [hval]
                by_cases hemp : ((ids1 ++ ids2).filterMap id).isEmpty = true
                · have hops : v.ops = none := by subst hv; exact if_pos hemp
                  have hd := (Denotes.new (σ := σ) (v := v) hk).1 hops
                  rw [← dictSet_fresh v hk] at hd
                  have he : (ids1 ++ ids2).filterMap id = [] := by simpa using hemp
                  rw [he] at hdl
                  have hcs : cs = [] := by
                    obtain ⟨f, hf⟩ := hdl
                    simp only [List.mapM_nil, Option.pure_def, Option.some.injEq] at hf
                    exact hf.symm
                  rw [hcs]
                  simpa [hequa] using hd
                · have hemp' : ((ids1 ++ ids2).filterMap id).isEmpty = false := by
                    cases hq : ((ids1 ++ ids2).filterMap id).isEmpty with
                    | true => exact absurd hq hemp
                    | false => rfl
                  have hops : v.ops = some (Op.union, (ids1 ++ ids2).filterMap id) := by
                    subst hv; exact if_neg hemp
                  have hd := (Denotes.new (σ := σ) (v := v) hk).2 _ _ _ hops hdl
                  rw [← dictSet_fresh v hk] at hd
                  simpa [combine, hequa] using hd

theorem toT4List_ok : ∀ (fuel : Nat) (ts : List FTree) (origin : List (Nat × Nat)) (st : CState)
    (rs : List (Option Nat)) (st' : CState), StOK σ cv st → ListOK ts st →
    toT4List env fuel ts origin st = .ok (rs, st') →
    StOK σ cv st' ∧ Step σ (FTree.idsList ts) st st' ∧
    ResVals σ st'.vols (ts.map (FTree.eval env.matching σ cv)) rs
  | 0, _, _, _, _, _, _, _, h => by simp [toT4List] at h
  | fuel + 1, [], origin, st, rs, st', hst, _, h => by
      simp only [toT4List, Except.ok.injEq, Prod.mk.injEq] at h
      obtain ⟨rfl, rfl⟩ := h
      exact ⟨hst, Step.refl σ _ st, trivial⟩
  | fuel + 1, t :: ts, origin, st, rs, st', hst, hl, h => by
      simp only [toT4List] at h
      have hxl := hl.expanded
      simp only [FTree.expandedList, Bool.and_eq_true] at hxl
      have hndl := hl.nodup
      simp only [FTree.idsList] at hndl
      rw [List.nodup_append] at hndl
      obtain ⟨n1, n2, dj⟩ := hndl
      have ht : TreeOK t st := ⟨hxl.1, n1, fun i hi => hl.fresh i (by simp [FTree.idsList, hi])⟩
      cases h1 : toT4 env fuel t origin st with
      | error e => simp [h1, bind, Except.bind] at h
      | ok p1 =>
        obtain ⟨r1, st1⟩ := p1
        simp only [h1, bind, Except.bind] at h
        obtain ⟨o1, _⟩ := toT4_ok fuel t origin st r1 st1 hst ht h1
        have hl2 : ListOK ts st1 :=
          ⟨hxl.2, n2, fresh_step o1.step (fun i hi => hl.fresh i (by simp [FTree.idsList, hi]))
            (fun i hi hm => dj i hm i hi rfl)⟩
        cases h2 : toT4List env fuel ts origin st1 with
        | error e => simp [h2] at h
        | ok p2 =>
          obtain ⟨rs2, st2⟩ := p2
          simp only [h2, Except.ok.injEq, Prod.mk.injEq] at h
          obtain ⟨rfl, rfl⟩ := h
          obtain ⟨ok2, step2, rv2⟩ := toT4List_ok fuel ts origin st1 rs2 st2 o1.ok hl2 h2
          exact ⟨ok2, by simpa [FTree.idsList] using Step.trans o1.step step2,
            ⟨o1.res.lift step2.pres, rv2⟩⟩

theorem cellrefList_ok : ∀ (fuel : Nat) (cs : List Nat) (st : CState) (rs : List (Option Nat)) (st' : CState),
    StOK σ cv st → cellrefList env fuel cs st = .ok (rs, st') →
    StOK σ cv st' ∧ Step σ [] st st' ∧ ResVals σ st'.vols (cs.map cv) rs
  | 0, _, _, _, _, _, h => by simp [cellrefList] at h
  | fuel + 1, [], st, rs, st', hst, h => by
      simp only [cellrefList, Except.ok.injEq, Prod.mk.injEq] at h
      obtain ⟨rfl, rfl⟩ := h
      exact ⟨hst, Step.refl σ _ st, trivial⟩
  | fuel + 1, c :: cs, st, rs, st', hst, h => by
      simp only [cellrefList] at h
      cases h1 : convertCellref env fuel c st with
      | error e => simp [h1, bind, Except.bind] at h
      | ok p1 =>
        obtain ⟨r1, st1⟩ := p1
        simp only [h1, bind, Except.bind] at h
        have o1 := convertCellref_ok fuel c st r1 st1 hst h1
        cases h2 : cellrefList env fuel cs st1 with
        | error e => simp [h2] at h
        | ok p2 =>
          obtain ⟨rs2, st2⟩ := p2
          simp only [h2, Except.ok.injEq, Prod.mk.injEq] at h
          obtain ⟨rfl, rfl⟩ := h
          obtain ⟨ok2, step2, rv2⟩ := cellrefList_ok fuel cs st1 rs2 st2 o1.ok h2
          exact ⟨ok2, by simpa using Step.trans o1.step step2, ⟨o1.res.lift step2.pres, rv2⟩⟩
end

end
end T4V
