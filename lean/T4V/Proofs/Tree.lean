import T4V.Model.Tree
/-!
# Proofs about geometry trees: De Morgan inverse and complement elimination
-/
namespace T4V

theorem litSurf_neg (σ : SurfVal) (n : Int) (sub : Option Nat) (h : n ≠ 0) :
    litSurf σ (-n) sub = !litSurf σ n sub := by
  unfold litSurf
  by_cases hp : n > 0
  · have : ¬ (-n > 0) := by omega
    simp [hp]; omega
  · have : -n > 0 := by omega
    simp [hp]; omega

mutual
/-- all surface ids in the tree are non-zero (a reference to surface 0 does not exist in MCNP) -/
def Geom.nonzero : Geom → Bool
  | .surf n _ => n != 0
  | .cref _ => true
  | .compl _ => true
  | .node _ args => Geom.nonzeroList args
def Geom.nonzeroList : List Geom → Bool
  | [] => true
  | g :: gs => g.nonzero && Geom.nonzeroList gs
end

mutual
theorem inverse_eval (σ : SurfVal) (cv : Nat → Bool) :
    ∀ (g g' : Geom), g.nonzero = true → g.inverse = some g' → g'.eval σ cv = !g.eval σ cv
  | .surf n sub, g', hz, h => by
      simp only [Geom.inverse, Option.some.injEq] at h
      subst h
      simp only [Geom.nonzero, bne_iff_ne, ne_eq] at hz
      simp [Geom.eval, litSurf_neg σ n sub hz]
  | .cref _, _, _, h => by simp [Geom.inverse] at h
  | .compl _, _, _, h => by simp [Geom.inverse] at h
  | .node op args, g', hz, h => by
      simp only [Geom.inverse, Option.map_eq_some_iff] at h
      obtain ⟨args', hargs, rfl⟩ := h
      simp only [Geom.nonzero] at hz
      have := inverseList_eval σ cv args args' hz hargs
      cases op with
      | inter => simp [Op.dual, Geom.eval, this.1]
      | union => simp [Op.dual, Geom.eval, this.2]
theorem inverseList_eval (σ : SurfVal) (cv : Nat → Bool) :
    ∀ (gs gs' : List Geom), Geom.nonzeroList gs = true → Geom.inverseList gs = some gs' →
      Geom.evalAny σ cv gs' = !Geom.evalAll σ cv gs ∧ Geom.evalAll σ cv gs' = !Geom.evalAny σ cv gs
  | [], gs', _, h => by
      simp only [Geom.inverseList, Option.some.injEq] at h
      subst h
      simp [Geom.evalAll, Geom.evalAny]
  | g :: gs, gs', hz, h => by
      simp only [Geom.nonzeroList, Bool.and_eq_true] at hz
      simp only [Geom.inverseList, Option.bind_eq_bind, Option.pure_def, Option.bind_eq_some_iff] at h
      obtain ⟨g1, hg1, r1, hr1, h⟩ := h
      simp only [Option.some.injEq] at h
      subst h
      have h1 := inverse_eval σ cv g g1 hz.1 hg1
      have h2 := inverseList_eval σ cv gs r1 hz.2 hr1
      simp [Geom.evalAll, Geom.evalAny, h1, h2.1, h2.2]
end

mutual
theorem inverse_pure : ∀ (g g' : Geom), g.inverse = some g' → g'.pure = true ∧ g.pure = true
  | .surf n sub, g', h => by
      simp only [Geom.inverse, Option.some.injEq] at h; subst h; simp [Geom.pure]
  | .cref _, _, h => by simp [Geom.inverse] at h
  | .compl _, _, h => by simp [Geom.inverse] at h
  | .node op args, g', h => by
      simp only [Geom.inverse, Option.map_eq_some_iff] at h
      obtain ⟨args', hargs, rfl⟩ := h
      simpa [Geom.pure] using inverseList_pure args args' hargs
theorem inverseList_pure : ∀ (gs gs' : List Geom), Geom.inverseList gs = some gs' →
    Geom.pureList gs' = true ∧ Geom.pureList gs = true
  | [], gs', h => by
      simp only [Geom.inverseList, Option.some.injEq] at h; subst h; simp [Geom.pureList]
  | g :: gs, gs', h => by
      simp only [Geom.inverseList, Option.bind_eq_bind, Option.pure_def, Option.bind_eq_some_iff] at h
      obtain ⟨g1, hg1, r1, hr1, h⟩ := h
      simp only [Option.some.injEq] at h
      subst h
      have h1 := inverse_pure g g1 hg1
      have h2 := inverseList_pure gs r1 hr1
      simp [Geom.pureList, h1.1, h1.2, h2.1, h2.2]
end

mutual
theorem inverse_nonzero : ∀ (g g' : Geom), g.nonzero = true → g.inverse = some g' → g'.nonzero = true
  | .surf n sub, g', hz, h => by
      simp only [Geom.inverse, Option.some.injEq] at h; subst h
      simp only [Geom.nonzero, bne_iff_ne, ne_eq] at hz ⊢; omega
  | .cref _, _, _, h => by simp [Geom.inverse] at h
  | .compl _, _, _, h => by simp [Geom.inverse] at h
  | .node op args, g', hz, h => by
      simp only [Geom.inverse, Option.map_eq_some_iff] at h
      obtain ⟨args', hargs, rfl⟩ := h
      simp only [Geom.nonzero] at hz ⊢
      exact inverseList_nonzero args args' hz hargs
theorem inverseList_nonzero : ∀ (gs gs' : List Geom), Geom.nonzeroList gs = true →
    Geom.inverseList gs = some gs' → Geom.nonzeroList gs' = true
  | [], gs', _, h => by
      simp only [Geom.inverseList, Option.some.injEq] at h; subst h; simp [Geom.nonzeroList]
  | g :: gs, gs', hz, h => by
      simp only [Geom.nonzeroList, Bool.and_eq_true] at hz
      simp only [Geom.inverseList, Option.bind_eq_bind, Option.pure_def, Option.bind_eq_some_iff] at h
      obtain ⟨g1, hg1, r1, hr1, h⟩ := h
      simp only [Option.some.injEq] at h
      subst h
      simp [Geom.nonzeroList, inverse_nonzero g g1 hz.1 hg1, inverseList_nonzero gs r1 hz.2 hr1]
end

theorem surfaces_nonzero : ∀ g : Geom, g.nonzero = true → ∀ p ∈ g.surfaces, p.1 ≠ 0 := by
  intro g
  refine Geom.rec (motive_1 := fun g => g.nonzero = true → ∀ p ∈ g.surfaces, p.1 ≠ 0)
    (motive_2 := fun gs => Geom.nonzeroList gs = true → ∀ p ∈ Geom.surfaces.surfacesList gs, p.1 ≠ 0)
    ?_ ?_ ?_ ?_ ?_ ?_ g
  · intro n sub h p hp
    simp only [Geom.surfaces, List.mem_singleton] at hp
    subst hp
    simpa [Geom.nonzero] using h
  · intro c _ p hp; simp [Geom.surfaces] at hp
  · intro c _ p hp; simp [Geom.surfaces] at hp
  · intro op args ih h p hp
    simp only [Geom.nonzero] at h
    simp only [Geom.surfaces] at hp
    exact ih h p hp
  · intro _ p hp; simp [Geom.surfaces.surfacesList] at hp
  · intro g gs ih1 ih2 h p hp
    simp only [Geom.nonzeroList, Bool.and_eq_true] at h
    simp only [Geom.surfaces.surfacesList, List.mem_append] at hp
    rcases hp with hp | hp
    · exact ih1 h.1 p hp
    · exact ih2 h.2 p hp

/-- a pure tree's value does not depend on the cell valuation -/
theorem eval_pure_irrel (σ : SurfVal) (cv cv' : Nat → Bool) :
    ∀ g : Geom, g.pure = true → g.eval σ cv = g.eval σ cv' := by
  intro g
  refine Geom.rec (motive_1 := fun g => g.pure = true → g.eval σ cv = g.eval σ cv')
    (motive_2 := fun gs => Geom.pureList gs = true →
      Geom.evalAll σ cv gs = Geom.evalAll σ cv' gs ∧ Geom.evalAny σ cv gs = Geom.evalAny σ cv' gs)
    ?_ ?_ ?_ ?_ ?_ ?_ g
  · intro n sub _; simp [Geom.eval]
  · intro c h; simp [Geom.pure] at h
  · intro c h; simp [Geom.pure] at h
  · intro op args ih h
    simp only [Geom.pure] at h
    cases op <;> simp [Geom.eval, (ih h).1, (ih h).2]
  · intro _; simp [Geom.evalAll, Geom.evalAny]
  · intro g gs ih1 ih2 h
    simp only [Geom.pureList, Bool.and_eq_true] at h
    simp [Geom.evalAll, Geom.evalAny, ih1 h.1, (ih2 h.2).1, (ih2 h.2).2]

/-- every cell of the deck only mentions non-zero surface numbers and no CellRef -/
def CellsOK (cells : List CellGeom) : Prop :=
  ∀ c ∈ cells, c.geom.nonzero = true

mutual
/-- no `CellRef` leaves (they only appear after `pot_fill`) -/
def Geom.noCref : Geom → Bool
  | .surf .. => true
  | .cref _ => false
  | .compl _ => true
  | .node _ args => Geom.noCrefList args
def Geom.noCrefList : List Geom → Bool
  | [] => true
  | g :: gs => g.noCref && Geom.noCrefList gs
end

theorem findCell_mem {cells : List CellGeom} {c : Nat} {cell : CellGeom}
    (h : findCell cells c = some cell) : cell ∈ cells := by
  unfold findCell at h
  exact List.mem_of_find?_eq_some h

mutual
/-- **Complement elimination is sound**: whenever `pot_complement` succeeds on a tree and MCNP's
meaning of that tree (with `#c` = complement of cell `c`'s region) is defined, the resulting tree is
pure (operators and surfaces only), mentions no surface 0 and has exactly that meaning, for every
assignment of senses. -/
theorem potComplement_eval (cells : List CellGeom) (hc : CellsOK cells) (σ : SurfVal) (cv : Nat → Bool) :
    ∀ (fuel : Nat) (g g' : Geom), g.nonzero = true → potComplement cells fuel g = .ok g' →
      (g.noCref = true → g'.pure = true) ∧ g'.nonzero = true ∧
      ∀ f2 b, cellRegion.regionOf cells σ f2 g = some b → g'.eval σ cv = b
  | 0, _, _, _, h => by simp [potComplement] at h
  | fuel + 1, .surf n sub, g', hz, h => by
      simp only [potComplement, Except.ok.injEq] at h
      subst h
      refine ⟨fun _ => by simp [Geom.pure], hz, ?_⟩
      intro f2 b hb
      simp only [cellRegion.regionOf, Option.some.injEq] at hb
      simp [Geom.eval, hb]
  | fuel + 1, .cref c, g', hz, h => by
      simp only [potComplement, Except.ok.injEq] at h
      subst h
      refine ⟨fun hn => by simp [Geom.noCref] at hn, hz, ?_⟩
      intro f2 b hb
      simp [cellRegion.regionOf] at hb
  | fuel + 1, .compl c, g', _, h => by
      simp only [potComplement] at h
      cases hf : findCell cells c with
      | none => simp [hf] at h
      | some cell =>
        simp only [hf] at h
        by_cases hl : cell.isLattice = true
        · -- complement of a lattice: MCNP meaning undefined in the spec (`cellRegion` = none)
          simp only [hl, if_true] at h
          cases hs : cell.geom.surfaces with
          | nil => simp [hs] at h
          | cons p ps =>
            obtain ⟨n, sub⟩ := p
            simp only [hs, Except.ok.injEq] at h
            subst h
            have hcell := hc cell (findCell_mem hf)
            have hn : n ≠ 0 := by
              -- first listed surface of a cell whose tree has no zero ids
              have := surfaces_nonzero cell.geom hcell
              have hm : (n, sub) ∈ cell.geom.surfaces := by simp [hs]
              exact this (n, sub) hm
            refine ⟨fun _ => by simp [Geom.pure, Geom.pureList], ?_, ?_⟩
            · simp only [Geom.nonzero, Geom.nonzeroList, bne_iff_ne, ne_eq, Bool.and_true,
                Bool.and_eq_true, decide_eq_true_eq]
              omega
            · intro f2 b hb
              cases f2 with
              | zero => simp [cellRegion.regionOf, cellRegion] at hb
              | succ k => simp [cellRegion.regionOf, cellRegion, hf, hl] at hb
        · simp only [hl, Bool.false_eq_true, if_false] at h
          cases hp : potComplement cells fuel cell.geom with
          | error e => simp [hp, bind, Except.bind] at h
          | ok g1 =>
            simp only [hp, bind, Except.bind] at h
            cases hi : g1.inverse with
            | none => simp [hi] at h
            | some r =>
              simp only [hi, Except.ok.injEq] at h
              subst h
              have hcell := hc cell (findCell_mem hf)
              obtain ⟨_, hz1, hev⟩ := potComplement_eval cells hc σ cv fuel cell.geom g1 hcell hp
              have hpure := inverse_pure g1 _ hi
              refine ⟨fun _ => hpure.1, inverse_nonzero g1 _ hz1 hi, ?_⟩
              intro f2 b hb
              cases f2 with
              | zero => simp [cellRegion.regionOf, cellRegion] at hb
              | succ k =>
                simp only [cellRegion.regionOf, cellRegion, hf, hl, Bool.false_eq_true, if_false,
                  Option.map_eq_some_iff] at hb
                obtain ⟨b', hb', rfl⟩ := hb
                rw [inverse_eval σ cv g1 _ hz1 hi, hev k b' hb']
  | fuel + 1, .node op args, g', hz, h => by
      simp only [potComplement] at h
      cases hp : potComplementList cells fuel args with
      | error e => simp [hp, bind, Except.bind] at h
      | ok args' =>
        simp only [hp, bind, Except.bind, Except.ok.injEq] at h
        subst h
        simp only [Geom.nonzero] at hz
        obtain ⟨hpu, hnz, hall, hany⟩ := potComplementList_eval cells hc σ cv fuel args args' hz hp
        refine ⟨fun hn => by simpa [Geom.pure] using hpu (by simpa [Geom.noCref] using hn),
          by simpa [Geom.nonzero] using hnz, ?_⟩
        intro f2 b hb
        cases op with
        | inter => simpa [Geom.eval] using hall f2 b (by simpa [cellRegion.regionOf] using hb)
        | union => simpa [Geom.eval] using hany f2 b (by simpa [cellRegion.regionOf] using hb)
theorem potComplementList_eval (cells : List CellGeom) (hc : CellsOK cells) (σ : SurfVal) (cv : Nat → Bool) :
    ∀ (fuel : Nat) (gs gs' : List Geom), Geom.nonzeroList gs = true →
      potComplementList cells fuel gs = .ok gs' →
      (Geom.noCrefList gs = true → Geom.pureList gs' = true) ∧ Geom.nonzeroList gs' = true ∧
      (∀ f2 b, cellRegion.regionAll cells σ f2 gs = some b → Geom.evalAll σ cv gs' = b) ∧
      (∀ f2 b, cellRegion.regionAny cells σ f2 gs = some b → Geom.evalAny σ cv gs' = b)
  | 0, _, _, _, h => by simp [potComplementList] at h
  | fuel + 1, [], gs', _, h => by
      simp only [potComplementList, Except.ok.injEq] at h
      subst h
      refine ⟨fun _ => by simp [Geom.pureList], by simp [Geom.nonzeroList], ?_, ?_⟩
      · intro f2 b hb; simp only [cellRegion.regionAll, Option.some.injEq] at hb; simp [Geom.evalAll, hb]
      · intro f2 b hb; simp only [cellRegion.regionAny, Option.some.injEq] at hb; simp [Geom.evalAny, hb]
  | fuel + 1, g :: gs, gs', hz, h => by
      simp only [Geom.nonzeroList, Bool.and_eq_true] at hz
      simp only [potComplementList] at h
      cases hp : potComplement cells (fuel + 1) g with
      | error e => simp [hp, bind, Except.bind] at h
      | ok g1 =>
        simp only [hp, bind, Except.bind] at h
        cases hq : potComplementList cells fuel gs with
        | error e => simp [hq] at h
        | ok r1 =>
          simp only [hq, Except.ok.injEq] at h
          subst h
          obtain ⟨hp1, hz1, he1⟩ := potComplement_eval cells hc σ cv (fuel + 1) g g1 hz.1 hp
          obtain ⟨hp2, hz2, hall, hany⟩ := potComplementList_eval cells hc σ cv fuel gs r1 hz.2 hq
          refine ⟨?_, by simp [Geom.nonzeroList, hz1, hz2], ?_, ?_⟩
          · intro hn
            simp only [Geom.noCrefList, Bool.and_eq_true] at hn
            simp [Geom.pureList, hp1 hn.1, hp2 hn.2]
          · intro f2 b hb
            simp only [cellRegion.regionAll, Option.bind_eq_bind, Option.pure_def,
              Option.bind_eq_some_iff, Option.some.injEq] at hb
            obtain ⟨a, ha, c, hc', rfl⟩ := hb
            simp [Geom.evalAll, he1 f2 a ha, hall f2 c hc']
          · intro f2 b hb
            simp only [cellRegion.regionAny, Option.bind_eq_bind, Option.pure_def,
              Option.bind_eq_some_iff, Option.some.injEq] at hb
            obtain ⟨a, ha, c, hc', rfl⟩ := hb
            simp [Geom.evalAny, he1 f2 a ha, hany f2 c hc']
end

end T4V
