import T4V.Model.Surface
import T4V.Model.Macro
/-!
# Every TRIPOLI-4 surface the converter model emits carries the number of parameters its keyword expects
-/
set_option linter.unusedSectionVars false
namespace T4V.SA
open T4V

section
variable {α : Type} [Add α] [Sub α] [Mul α] [Div α] [Neg α] [OfNat α 0] [OfNat α 1]
  [LT α] [DecidableLT α] [BEq α] [Transc α]

/-- what `convert_quadric` / `convert_torus` rely on: ten coefficients, three radii -/
def WFM (s : MSurf α) : Prop :=
  (s.kind = .gq → s.compl.length = 10) ∧ (s.kind = .t → s.compl.length = 3)

theorem wfm_plane (p u : V3 α) : WFM (mkPlane p u) := ⟨by simp [mkPlane], by simp [mkPlane]⟩
theorem wfm_sphere (x y z r : α) : WFM (mkSphere x y z r) := ⟨by simp [mkSphere], by simp [mkSphere]⟩
theorem wfm_cyl (x y z r a b c : α) : WFM (mkCyl x y z r a b c) := ⟨by simp [mkCyl], by simp [mkCyl]⟩
theorem wfm_cone (x y z t a b c : α) (n : Option α) : WFM (mkCone x y z t a b c n) := ⟨by simp [mkCone], by simp [mkCone]⟩
theorem wfm_torus (x y z a b c r1 r2 r3 : α) : WFM (mkTorus x y z a b c r1 r2 r3) := ⟨by simp [mkTorus], by simp [mkTorus]⟩

theorem wfm_coneCard (t2 : α) (mk : α → MSurf α) (h : ∀ t, WFM (mk t)) (s : MSurf α) (hs : coneCard t2 mk = some s) : WFM s := by
  unfold coneCard at hs
  split at hs
  · simp at hs
  · simp only [Option.some.injEq] at hs; subst hs; exact h _

theorem wfm_planeCard (a b c d : α) (s : MSurf α) (hs : planeCard a b c d = some s) : WFM s := by
  unfold planeCard at hs
  split at hs
  · simp at hs
  · simp only [Option.some.injEq] at hs; subst hs; exact wfm_plane _ _

theorem wfm_axisym (axis : Nat) (ps : List α) (s : MSurf α) (hs : cadAxisym axis ps = some s) : WFM s := by
  unfold cadAxisym at hs
  simp only at hs
  repeat' (split at hs)
  all_goals first
    | (simp only [Option.some.injEq] at hs; subst hs
       first | exact wfm_plane _ _ | exact wfm_cyl .. | exact wfm_cone ..)
    | simp at hs

set_option maxHeartbeats 2000000 in
theorem wfm_cadOfRaw (e1 e2 : α) (mn : String) (ps : List α) (s : MSurf α) (hs : cadOfRaw e1 e2 mn ps = some s) : WFM s := by
  unfold cadOfRaw at hs
  split at hs
  all_goals first
    | exact wfm_axisym _ _ s hs
    | (split at hs
       all_goals first
         | (simp only [Option.some.injEq] at hs; subst hs
            first
              | exact wfm_plane _ _ | exact wfm_sphere .. | exact wfm_cyl .. | exact wfm_cone .. | exact wfm_torus ..
              | exact ⟨by simp, by simp⟩)
         | exact wfm_planeCard _ _ _ _ s hs
         | exact wfm_coneCard _ _ (fun t => wfm_cone ..) s hs
         | (split at hs
            · exact wfm_planeCard _ _ _ _ s hs
            · simp at hs)
         | simp at hs)
    | simp at hs

theorem wfm_cadOf (e1 e2 : α) (mn : String) (ps : List α) (s : MSurf α) (hs : cadOf e1 e2 mn ps = some s) : WFM s := by
  unfold cadOf at hs
  split at hs
  · split at hs
    · exact wfm_cadOfRaw e1 e2 mn ps s hs
    · simp at hs
  · simp at hs

theorem arity_convertPlane (p u : V3 α) : (convertPlane p u).ps.length = (convertPlane p u).kind.arity := by
  unfold convertPlane
  simp only
  split
  · rfl
  · split
    · rfl
    · split <;> rfl

theorem arity_convertCylinder (p u : V3 α) (r : α) : (convertCylinder p u r).ps.length = (convertCylinder p u r).kind.arity := by
  unfold convertCylinder
  split
  · rfl
  · split
    · rfl
    · split <;> rfl

theorem arity_convertSQ (ps : List α) (t : TSurf α) (h : convertSQ ps = some t) : t.ps.length = t.kind.arity := by
  unfold convertSQ at h
  split at h
  · simp only at h
    split at h
    · split at h <;> (simp only [Option.some.injEq] at h; subst h; rfl)
    · simp at h
  · simp at h

theorem arity_convertCone (s : MSurf α) (coll : List (TSurf α × Int)) (h : convertCone s = some coll) :
    ∀ t ∈ coll, t.1.ps.length = t.1.kind.arity := by
  unfold convertCone at h
  split at h
  · simp only at h
    have hc : ∀ (u : V3 α) (p : V3 α) (th : α),
        (if (u.x == 0 && u.y == 0) = true then ({ kind := .conez, ps := [p.x, p.y, p.z, th] } : TSurf α)
         else if (u.y == 0 && u.z == 0) = true then { kind := .conex, ps := [p.x, p.y, p.z, th] }
         else if (u.z == 0 && u.x == 0) = true then { kind := .coney, ps := [p.x, p.y, p.z, th] }
         else { kind := .cone, ps := [p.x, p.y, p.z, th, u.x, u.y, u.z] }).ps.length =
        (if (u.x == 0 && u.y == 0) = true then ({ kind := .conez, ps := [p.x, p.y, p.z, th] } : TSurf α)
         else if (u.y == 0 && u.z == 0) = true then { kind := .conex, ps := [p.x, p.y, p.z, th] }
         else if (u.z == 0 && u.x == 0) = true then { kind := .coney, ps := [p.x, p.y, p.z, th] }
         else { kind := .cone, ps := [p.x, p.y, p.z, th, u.x, u.y, u.z] }).kind.arity := by
      intro u p th
      split
      · rfl
      · split
        · rfl
        · split <;> rfl
    split at h
    · simp only [Option.some.injEq] at h; subst h
      intro t ht; simp only [List.mem_singleton] at ht; subst ht; exact hc _ _ _
    · split at h
      · simp only [Option.some.injEq] at h; subst h
        intro t ht; simp only [List.mem_singleton] at ht; subst ht; exact hc _ _ _
      · simp only [Option.some.injEq] at h; subst h
        intro t ht
        simp only [List.mem_cons, List.not_mem_nil, or_false] at ht
        rcases ht with rfl | rfl
        · exact hc _ _ _
        · simp only
          split
          · rfl
          · split
            · rfl
            · split <;> rfl
  · simp at h

theorem arity_convertTorus (s : MSurf α) (hw : WFM s) (hk : s.kind = .t) (t : TSurf α) (h : convertTorus s = some t) :
    t.ps.length = t.kind.arity := by
  have hl := hw.2 hk
  unfold convertTorus at h
  simp only at h
  split at h
  · simp only [Option.some.injEq] at h; subst h; simp [TKind.arity, hl]
  · split at h
    · simp only [Option.some.injEq] at h; subst h; simp [TKind.arity, hl]
    · split at h
      · simp only [Option.some.injEq] at h; subst h; simp [TKind.arity, hl]
      · simp at h

/-- **every surface of the collection a card is converted to has the number of parameters TRIPOLI-4 expects for its
keyword** -/
theorem arity_convertSurf (s : MSurf α) (hw : WFM s) (coll : List (TSurf α × Int)) (h : convertSurf s = some coll) :
    ∀ t ∈ coll, t.1.ps.length = t.1.kind.arity := by
  unfold convertSurf at h
  split at h
  · exact arity_convertCone s coll h
  · simp only [Option.some.injEq] at h; subst h
    intro t ht; simp only [List.mem_singleton] at ht; subst ht; exact arity_convertPlane _ _
  · split at h
    · simp only [Option.some.injEq] at h; subst h
      intro t ht; simp only [List.mem_singleton] at ht; subst ht; exact arity_convertCylinder _ _ _
    · simp at h
  · split at h
    · simp only [Option.some.injEq] at h; subst h
      intro t ht; simp only [List.mem_singleton] at ht; subst ht; rfl
    · simp at h
  · cases hq : convertSQ s.compl with
    | none => simp [hq] at h
    | some q =>
      simp only [hq, Option.map_some, Option.some.injEq] at h; subst h
      intro t ht; simp only [List.mem_singleton] at ht; subst ht; exact arity_convertSQ _ _ hq
  · rename_i hk
    simp only [Option.some.injEq] at h; subst h
    intro t ht; simp only [List.mem_singleton] at ht; subst ht
    simp [TKind.arity, hw.1 hk]
  · rename_i hk
    cases hq : convertTorus s with
    | none => simp [hq] at h
    | some q =>
      simp only [hq, Option.map_some, Option.some.injEq] at h; subst h
      intro t ht; simp only [List.mem_singleton] at ht; subst ht; exact arity_convertTorus s hw hk _ hq

theorem arity_convertCard (e1 e2 : α) (mn : String) (ps : List α) (coll : List (TSurf α × Int))
    (h : convertCard e1 e2 mn ps = some coll) : ∀ t ∈ coll, t.1.ps.length = t.1.kind.arity := by
  unfold convertCard at h
  cases hc : cadOf e1 e2 mn ps with
  | none => simp [hc] at h
  | some s =>
    simp only [hc, Option.bind_some] at h
    exact arity_convertSurf s (wfm_cadOf e1 e2 mn ps s hc) coll h

theorem mapM_mem {β γ : Type} (f : β → Option γ) : ∀ (l : List β) (r : List γ), l.mapM f = some r →
    ∀ y ∈ r, ∃ x ∈ l, f x = some y
  | [], r, h, y, hy => by simp at h; subst h; simp at hy
  | a :: l, r, h, y, hy => by
    simp only [List.mapM_cons] at h
    cases ha : f a with
    | none => simp [ha] at h
    | some b =>
      cases hl : l.mapM f with
      | none => simp [ha, hl] at h
      | some bs =>
        simp [ha, hl] at h
        subst h
        rcases List.mem_cons.mp hy with rfl | hy'
        · exact ⟨a, List.mem_cons_self, ha⟩
        · obtain ⟨x, hx, hfx⟩ := mapM_mem f l bs hl y hy'
          exact ⟨x, List.mem_cons_of_mem _ hx, hfx⟩

theorem arity_parts (e1 e2 : α) (op : Option (List (Part α))) (coll : List (TSurf α × Int))
    (h : (do
            let parts ← op
            let colls ← parts.mapM fun (m, q, side) => (convertCard e1 e2 m q).map fun coll => coll.map fun (t, s) => (t, s * side)
            pure colls.flatten) = some coll) : ∀ t ∈ coll, t.1.ps.length = t.1.kind.arity := by
  cases op with
  | none => simp at h
  | some parts =>
    simp only [Option.bind_eq_bind, Option.bind_some] at h
    cases hc : (parts.mapM fun (x : Part α) =>
        (convertCard e1 e2 x.1 x.2.1).map fun coll => coll.map fun (x_1 : TSurf α × Int) => (x_1.1, x_1.2 * x.2.2)) with
    | none => rw [hc] at h; simp at h
    | some colls =>
      rw [hc] at h
      simp only [Option.bind_some, pure, Option.some.injEq] at h
      subst h
      intro t ht
      obtain ⟨c, hcm, htc⟩ := List.mem_flatten.mp ht
      obtain ⟨⟨m, q, side⟩, _, hf⟩ := mapM_mem _ parts colls hc c hcm
      cases hcc : convertCard e1 e2 m q with
      | none => simp [hcc] at hf
      | some cc =>
        simp only [hcc, Option.map_some, Option.some.injEq] at hf
        subst hf
        obtain ⟨⟨t0, s0⟩, ht0, rfl⟩ := List.mem_map.mp htc
        exact arity_convertCard e1 e2 m q cc hcc (t0, s0) ht0

/-- the same for every facet of every macrobody -/
theorem arity_convertMacro (e1 e2 : α) (mn : String) (ps : List α) (toNat : α → Nat) (coll : List (TSurf α × Int))
    (h : convertMacro e1 e2 mn ps toNat = some coll) : ∀ t ∈ coll, t.1.ps.length = t.1.kind.arity := by
  unfold convertMacro at h
  by_cases hm : (mn == "arb") = true
  · simp only [hm, if_true] at h
    exact arity_parts e1 e2 (arbParts e1 e2 toNat ps) coll h
  · simp only [hm, Bool.false_eq_true, if_false] at h
    exact arity_parts e1 e2 (macroParts mn ps) coll h

end
end T4V.SA
