import T4V.Proofs.PostClosed
import T4V.Proofs.ConvertAll
/-!
# The dictionary built by the conversion loop is closed: every operand of every volume is a key

Syntactic invariant of `convert_surface`, `pot_convert`, `convert_cellref`, `pot_to_t4_cell` and the loop of
`construct_volume_t4`: keys only grow, every cached id is a key, every id returned is a key, and a volume is only
ever stored with operands that were returned before.  This discharges the hypothesis `Closed` of
`postProcess_preserves` for the dictionaries the compiler produces.
-/
namespace T4V

theorem mem_dictSet {β} {d : List (Nat × β)} {k : Nat} {v : β} {p : Nat × β} (h : p ∈ dictSet d k v) :
    p ∈ d ∨ p = (k, v) := by
  unfold dictSet at h
  split at h
  · rw [List.mem_map] at h
    obtain ⟨q, hq, rfl⟩ := h
    split
    · exact Or.inr rfl
    · exact Or.inl hq
  · rw [List.mem_append, List.mem_singleton] at h
    exact h

theorem hasKey_dictSet {β} {d : List (Nat × β)} {k j : Nat} {v : β} :
    hasKey (dictSet d k v) j ↔ hasKey d j ∨ j = k := by
  constructor
  · rintro ⟨p, hp, rfl⟩
    rcases mem_dictSet hp with h | h
    · exact Or.inl ⟨p, h, rfl⟩
    · subst h; exact Or.inr rfl
  · rintro (⟨p, hp, rfl⟩ | rfl)
    · unfold dictSet
      split
      · by_cases hk : (p.1 == k) = true
        · exact ⟨(k, v), List.mem_map.mpr ⟨p, hp, by simp [hk]⟩, by simpa using (beq_iff_eq.mp hk).symm⟩
        · exact ⟨p, List.mem_map.mpr ⟨p, hp, by simp [hk]⟩, rfl⟩
      · exact ⟨p, List.mem_append_left _ hp, rfl⟩
    · unfold dictSet
      split
      · rename_i ha
        rw [List.any_eq_true] at ha
        obtain ⟨q, hq, hqk⟩ := ha
        exact ⟨(j, v), List.mem_map.mpr ⟨q, hq, by simp [hqk]⟩, rfl⟩
      · exact ⟨(j, v), by simp, rfl⟩

theorem Closed.dictSet {d : List (Nat × Vol)} {k : Nat} {v : Vol} (h : Closed d)
    (hv : ∀ r ∈ idsOf v, hasKey d r ∨ r = k) : Closed (dictSet d k v) := by
  intro p hp r hr
  rw [hasKey_dictSet]
  rcases mem_dictSet hp with h' | h'
  · exact Or.inl (h p h' r hr)
  · subst h'; exact hv r hr

theorem KeysNodup.dictSet {d : List (Nat × Vol)} {k : Nat} {v : Vol} (h : KeysNodup d) : KeysNodup (dictSet d k v) := by
  unfold KeysNodup at *
  unfold T4V.dictSet
  split
  · have : (d.map fun p => if p.1 == k then (k, v) else p).map (·.1) = d.map (·.1) := by
      rw [List.map_map]
      apply List.map_congr_left
      intro p _
      show (if (p.1 == k) = true then (k, v) else p).1 = p.1
      by_cases hk : (p.1 == k) = true
      · rw [if_pos hk]; exact (beq_iff_eq.mp hk).symm
      · rw [if_neg hk]
    rw [this]; exact h
  · rename_i hn
    rw [List.map_append, List.nodup_append]
    refine ⟨h, by simp, ?_⟩
    intro a ha b hb
    simp only [List.map_cons, List.map_nil, List.mem_singleton] at hb
    subst hb
    intro hab; subst hab
    apply hn
    rw [List.mem_map] at ha
    obtain ⟨q, hq, hqk⟩ := ha
    rw [List.any_eq_true]
    exact ⟨q, hq, by simp [hqk]⟩

/-- keys only grow -/
def KMono (st st' : CState) : Prop := ∀ k, hasKey st.vols k → hasKey st'.vols k

structure CGood (st : CState) : Prop where
  closed : Closed st.vols
  nodup : KeysNodup st.vols
  surf : ∀ p ∈ st.surfCache, hasKey st.vols p.2
  cell : ∀ p ∈ st.cellCache, hasKey st.vols p.2

structure COut (st st' : CState) (r : Option Nat) : Prop where
  good : CGood st'
  mono : KMono st st'
  res : ∀ id, r = some id → hasKey st'.vols id

structure COutL (st st' : CState) (rs : List (Option Nat)) : Prop where
  good : CGood st'
  mono : KMono st st'
  res : ∀ id, some id ∈ rs → hasKey st'.vols id

theorem KMono.refl (st : CState) : KMono st st := fun _ h => h
theorem KMono.trans {a b c : CState} (h1 : KMono a b) (h2 : KMono b c) : KMono a c := fun k h => h2 k (h1 k h)

theorem idsOf_none {v : Vol} (h : v.ops = none) : idsOf v = [] := by simp [idsOf, h]

theorem convertSurface_closed (s : Int) (origin : List (Nat × Nat)) (st : CState) (hg : CGood st) :
    COut st (convertSurface s origin st).2 (some (convertSurface s origin st).1) := by
  unfold convertSurface
  cases hf : st.surfCache.find? (·.1 == s) with
  | some p =>
    simp only [hf, Option.map_some]
    exact ⟨hg, KMono.refl st, fun id h => by
      cases h; exact hg.surf p (List.mem_of_find?_eq_some hf)⟩
  | none =>
    simp only [hf, Option.map_none]
    refine ⟨⟨?_, hg.nodup.dictSet, ?_, ?_⟩, ?_, ?_⟩
    · exact hg.closed.dictSet (fun r hr => by simp [idsOf] at hr)
    · intro p hp
      simp only [List.mem_append, List.mem_singleton] at hp
      rw [hasKey_dictSet]
      rcases hp with hp | rfl
      · exact Or.inl (hg.surf p hp)
      · exact Or.inr rfl
    · intro p hp
      rw [hasKey_dictSet]; exact Or.inl (hg.cell p hp)
    · intro k hk; rw [hasKey_dictSet]; exact Or.inl hk
    · intro id h; cases h; rw [hasKey_dictSet]; exact Or.inr rfl

/-- storing the node `pid` with operands that are keys -/
theorem store_closed {st : CState} (hg : CGood st) (pid : Nat) (v : Vol)
    (hv : ∀ r ∈ idsOf v, hasKey st.vols r) :
    COut st { st with vols := dictSet st.vols pid v } (some pid) := by
  refine ⟨⟨hg.closed.dictSet (fun r hr => Or.inl (hv r hr)), hg.nodup.dictSet, ?_, ?_⟩, ?_, ?_⟩
  · intro p hp; show hasKey (dictSet st.vols pid v) p.2; rw [hasKey_dictSet]; exact Or.inl (hg.surf p hp)
  · intro p hp; show hasKey (dictSet st.vols pid v) p.2; rw [hasKey_dictSet]; exact Or.inl (hg.cell p hp)
  · intro k hk; show hasKey (dictSet st.vols pid v) k; rw [hasKey_dictSet]; exact Or.inl hk
  · intro id h; cases h; show hasKey (dictSet st.vols pid v) pid; rw [hasKey_dictSet]; exact Or.inr rfl

theorem filterMap_id_mem {rs : List (Option Nat)} {r : Nat} (h : r ∈ rs.filterMap id) : some r ∈ rs := by
  rw [List.mem_filterMap] at h
  obtain ⟨a, ha, he⟩ := h
  simp only [id] at he
  subst he; exact ha

section
variable (env : CEnv)

mutual
theorem potConvert_closed : ∀ (fuel : Nat) (c : CellIn) (st : CState) (r : Option Nat) (st' : CState),
    CGood st → potConvert env fuel c st = .ok (r, st') → COut st st' r
  | 0, _, _, _, _, _, h => by simp [potConvert] at h
  | fuel + 1, c, st, r, st', hg, h => by
      simp only [potConvert] at h
      generalize potFlag c.geom st.next = pf at h
      obtain ⟨t, k1⟩ := pf
      simp only at h
      cases hx : potExpand env.matching t k1 with
      | error e => simp [hx, bind, Except.bind] at h
      | ok p =>
        obtain ⟨t2, k2⟩ := p
        simp only [hx, bind, Except.bind] at h
        have hg2 : CGood { st with next := k2 } := ⟨hg.closed, hg.nodup, hg.surf, hg.cell⟩
        cases ho : potOptimise t2 with
        | none =>
          simp only [ho, Except.ok.injEq, Prod.mk.injEq] at h
          obtain ⟨rfl, rfl⟩ := h
          exact ⟨hg2, fun _ h => h, fun _ h => by cases h⟩
        | some t3 =>
          simp only [ho] at h
          have o := toT4_closed fuel t3 c.origin { st with next := k2 } r st' hg2 h
          exact ⟨o.good, fun k hk => o.mono k hk, o.res⟩

theorem convertCellref_closed : ∀ (fuel : Nat) (c : Nat) (st : CState) (r : Option Nat) (st' : CState),
    CGood st → convertCellref env fuel c st = .ok (r, st') → COut st st' r
  | 0, _, _, _, _, _, h => by simp [convertCellref] at h
  | fuel + 1, c, st, r, st', hg, h => by
      simp only [convertCellref] at h
      cases hf : st.cellCache.find? (·.1 == c) with
      | some p =>
        simp only [hf, Option.map_some, Except.ok.injEq, Prod.mk.injEq] at h
        obtain ⟨rfl, rfl⟩ := h
        exact ⟨hg, KMono.refl _, fun id hid => by cases hid; exact hg.cell p (List.mem_of_find?_eq_some hf)⟩
      | none =>
        simp only [hf, Option.map_none] at h
        cases hc : env.cell? c with
        | none => simp [hc] at h
        | some cell =>
          simp only [hc] at h
          cases hp : potConvert env fuel cell st with
          | error e => simp [hp, bind, Except.bind] at h
          | ok p =>
            obtain ⟨r1, st1⟩ := p
            simp only [hp, bind, Except.bind] at h
            have o := potConvert_closed fuel cell st r1 st1 hg hp
            cases r1 with
            | none =>
              simp only [Except.ok.injEq, Prod.mk.injEq] at h
              obtain ⟨rfl, rfl⟩ := h
              exact o
            | some id =>
              simp only [Except.ok.injEq, Prod.mk.injEq] at h
              obtain ⟨rfl, rfl⟩ := h
              refine ⟨⟨o.good.closed, o.good.nodup, o.good.surf, ?_⟩, o.mono, o.res⟩
              intro p hp
              simp only [List.mem_append, List.mem_singleton] at hp
              rcases hp with hp | rfl
              · exact o.good.cell p hp
              · exact o.res id rfl

theorem toT4_closed : ∀ (fuel : Nat) (t : FTree) (origin : List (Nat × Nat)) (st : CState) (r : Option Nat)
    (st' : CState), CGood st → toT4 env fuel t origin st = .ok (r, st') → COut st st' r
  | 0, _, _, _, _, _, _, h => by simp [toT4] at h
  | fuel + 1, .lit s, origin, st, r, st', hg, h => by
      simp only [toT4, Except.ok.injEq, Prod.mk.injEq] at h
      obtain ⟨rfl, rfl⟩ := h
      exact convertSurface_closed s origin st hg
  | fuel + 1, .msurf n sub, origin, st, r, st', _, h => by simp [toT4] at h
  | fuel + 1, .cref c, origin, st, r, st', hg, h => by
      simp only [toT4] at h
      exact convertCellref_closed fuel c st r st' hg h
  | fuel + 1, .node pid op args, origin, st, r, st', hg, h => by
      cases op with
      | inter =>
        simp only [toT4] at h
        cases h1 : toT4List env fuel (nodesOf args) origin st with
        | error e => simp [h1, bind, Except.bind] at h
        | ok p1 =>
          obtain ⟨ids1, st1⟩ := p1
          simp only [h1, bind, Except.bind] at h
          have o1 := toT4List_closed fuel (nodesOf args) origin st ids1 st1 hg h1
          cases h2 : cellrefList env fuel (crefsOf args) st1 with
          | error e => simp [h2] at h
          | ok p2 =>
            obtain ⟨ids2, st2⟩ := p2
            simp only [h2] at h
            have o2 := cellrefList_closed fuel (crefsOf args) st1 ids2 st2 o1.good h2
            have hres : ∀ id, some id ∈ ids1 ++ ids2 → hasKey st2.vols id := by
              intro id hid
              rw [List.mem_append] at hid
              rcases hid with hid | hid
              · exact o2.mono id (o1.res id hid)
              · exact o2.res id hid
            by_cases hnone : (ids1 ++ ids2).any Option.isNone = true
            · simp only [hnone, if_true, Except.ok.injEq, Prod.mk.injEq] at h
              obtain ⟨rfl, rfl⟩ := h
              exact ⟨o2.good, o1.mono.trans o2.mono, fun _ h => by cases h⟩
            · simp only [hnone, Bool.false_eq_true, if_false, Except.ok.injEq, Prod.mk.injEq] at h
              obtain ⟨rfl, rfl⟩ := h
              have o3 := store_closed o2.good pid
                { pluses := (convEqua (args.filterMap litOf)).1, minuses := (convEqua (args.filterMap litOf)).2,
                  ops := if ((ids1 ++ ids2).filterMap id).isEmpty then none
                         else some (Op.inter, (ids1 ++ ids2).filterMap id), origin := origin }
                (by
                  intro r hr
                  simp only [idsOf] at hr
                  split at hr
                  · rename_i op ids hops
                    split at hops
                    · cases hops
                    · cases hops; exact hres r (filterMap_id_mem hr)
                  · cases hr)
              exact ⟨o3.good, (o1.mono.trans o2.mono).trans o3.mono, o3.res⟩
      | union =>
        simp only [toT4] at h
        cases hl : largestPure args with
        | none =>
          simp only [hl] at h
          cases h1 : toT4List env fuel (nonCrefs args) origin st with
          | error e => simp [h1, bind, Except.bind] at h
          | ok p1 =>
            obtain ⟨ids1, st1⟩ := p1
            simp only [h1, bind, Except.bind] at h
            have o1 := toT4List_closed fuel (nonCrefs args) origin st ids1 st1 hg h1
            cases h2 : cellrefList env fuel (crefsOf args) st1 with
            | error e => simp [h2] at h
            | ok p2 =>
              obtain ⟨ids2, st2⟩ := p2
              simp only [h2] at h
              have o2 := cellrefList_closed fuel (crefsOf args) st1 ids2 st2 o1.good h2
              have hres : ∀ id, some id ∈ ids1 ++ ids2 → hasKey st2.vols id := by
                intro id hid
                rw [List.mem_append] at hid
                rcases hid with hid | hid
                · exact o2.mono id (o1.res id hid)
                · exact o2.res id hid
              by_cases hemp : ((ids1 ++ ids2).filterMap id).isEmpty = true
              · simp only [hemp, if_true, Except.ok.injEq, Prod.mk.injEq] at h
                obtain ⟨rfl, rfl⟩ := h
                exact ⟨o2.good, o1.mono.trans o2.mono, fun _ h => by cases h⟩
              · simp only [hemp, Bool.false_eq_true, if_false, Except.ok.injEq, Prod.mk.injEq] at h
                obtain ⟨rfl, rfl⟩ := h
                have o3 := store_closed o2.good pid
                  { pluses := (convEqua [(env.unionIds.1 : Int), -(env.unionIds.2 : Int)]).1,
                    minuses := (convEqua [(env.unionIds.1 : Int), -(env.unionIds.2 : Int)]).2,
                    ops := some (Op.union, (ids1 ++ ids2).filterMap id), origin := origin }
                  (by intro r hr; simp only [idsOf] at hr; exact hres r (filterMap_id_mem hr))
                exact ⟨o3.good, (o1.mono.trans o2.mono).trans o3.mono, o3.res⟩
        | some i =>
          simp only [hl] at h
          generalize hm : args.getD i (FTree.lit 0) = main at h
          cases h0 : toT4 env fuel main origin st with
          | error e => simp [h0, bind, Except.bind] at h
          | ok p0 =>
            obtain ⟨mid, st0⟩ := p0
            simp only [h0, bind, Except.bind] at h
            have o0 := toT4_closed fuel main origin st mid st0 hg h0
            cases mid with
            | none => simp at h
            | some mid =>
              simp only at h
              cases h1 : toT4List env fuel (args.eraseIdx i) origin st0 with
              | error e => simp [h1] at h
              | ok p1 =>
                obtain ⟨ids1, st1⟩ := p1
                simp only [h1] at h
                have o1 := toT4List_closed fuel (args.eraseIdx i) origin st0 ids1 st1 o0.good h1
                cases h2 : cellrefList env fuel (crefsOf args) st1 with
                | error e => simp [h2] at h
                | ok p2 =>
                  obtain ⟨ids2, st2⟩ := p2
                  simp only [h2, Except.ok.injEq, Prod.mk.injEq] at h
                  obtain ⟨rfl, rfl⟩ := h
                  have o2 := cellrefList_closed fuel (crefsOf args) st1 ids2 st2 o1.good h2
                  have hres : ∀ id, some id ∈ ids1 ++ ids2 → hasKey st2.vols id := by
                    intro id hid
                    rw [List.mem_append] at hid
                    rcases hid with hid | hid
                    · exact o2.mono id (o1.res id hid)
                    · exact o2.res id hid
                  have o3 := store_closed o2.good pid
                    { pluses := ((dictGet? st0.vols mid).getD { pluses := [], minuses := [] }).pluses,
                      minuses := ((dictGet? st0.vols mid).getD { pluses := [], minuses := [] }).minuses,
                      ops := if ((ids1 ++ ids2).filterMap id).isEmpty then none
                             else some (Op.union, (ids1 ++ ids2).filterMap id), origin := origin }
                    (by
                      intro r hr
                      simp only [idsOf] at hr
                      split at hr
                      · rename_i op ids hops
                        split at hops
                        · cases hops
                        · cases hops; exact hres r (filterMap_id_mem hr)
                      · cases hr)
                  exact ⟨o3.good, ((o0.mono.trans o1.mono).trans o2.mono).trans o3.mono, o3.res⟩

theorem toT4List_closed : ∀ (fuel : Nat) (ts : List FTree) (origin : List (Nat × Nat)) (st : CState)
    (rs : List (Option Nat)) (st' : CState), CGood st → toT4List env fuel ts origin st = .ok (rs, st') →
    COutL st st' rs
  | 0, _, _, _, _, _, _, h => by simp [toT4List] at h
  | fuel + 1, [], origin, st, rs, st', hg, h => by
      simp only [toT4List, Except.ok.injEq, Prod.mk.injEq] at h
      obtain ⟨rfl, rfl⟩ := h
      exact ⟨hg, KMono.refl _, fun _ h => by cases h⟩
  | fuel + 1, t :: ts, origin, st, rs, st', hg, h => by
      simp only [toT4List] at h
      cases h1 : toT4 env fuel t origin st with
      | error e => simp [h1, bind, Except.bind] at h
      | ok p1 =>
        obtain ⟨r1, st1⟩ := p1
        simp only [h1, bind, Except.bind] at h
        have o1 := toT4_closed fuel t origin st r1 st1 hg h1
        cases h2 : toT4List env fuel ts origin st1 with
        | error e => simp [h2] at h
        | ok p2 =>
          obtain ⟨rs2, st2⟩ := p2
          simp only [h2, Except.ok.injEq, Prod.mk.injEq] at h
          obtain ⟨rfl, rfl⟩ := h
          have o2 := toT4List_closed fuel ts origin st1 rs2 st2 o1.good h2
          refine ⟨o2.good, o1.mono.trans o2.mono, ?_⟩
          intro id hid
          rw [List.mem_cons] at hid
          rcases hid with hid | hid
          · exact o2.mono id (o1.res id hid.symm)
          · exact o2.res id hid

theorem cellrefList_closed : ∀ (fuel : Nat) (cs : List Nat) (st : CState) (rs : List (Option Nat)) (st' : CState),
    CGood st → cellrefList env fuel cs st = .ok (rs, st') → COutL st st' rs
  | 0, _, _, _, _, _, h => by simp [cellrefList] at h
  | fuel + 1, [], st, rs, st', hg, h => by
      simp only [cellrefList, Except.ok.injEq, Prod.mk.injEq] at h
      obtain ⟨rfl, rfl⟩ := h
      exact ⟨hg, KMono.refl _, fun _ h => by cases h⟩
  | fuel + 1, c :: cs, st, rs, st', hg, h => by
      simp only [cellrefList] at h
      cases h1 : convertCellref env fuel c st with
      | error e => simp [h1, bind, Except.bind] at h
      | ok p1 =>
        obtain ⟨r1, st1⟩ := p1
        simp only [h1, bind, Except.bind] at h
        have o1 := convertCellref_closed fuel c st r1 st1 hg h1
        cases h2 : cellrefList env fuel cs st1 with
        | error e => simp [h2] at h
        | ok p2 =>
          obtain ⟨rs2, st2⟩ := p2
          simp only [h2, Except.ok.injEq, Prod.mk.injEq] at h
          obtain ⟨rfl, rfl⟩ := h
          have o2 := cellrefList_closed fuel cs st1 rs2 st2 o1.good h2
          refine ⟨o2.good, o1.mono.trans o2.mono, ?_⟩
          intro id hid
          rw [List.mem_cons] at hid
          rcases hid with hid | hid
          · exact o2.mono id (o1.res id hid.symm)
          · exact o2.res id hid
end

/-- the loop of `construct_volume_t4`: the copy of a converted volume under the cell's own number has the same
operands -/
theorem convertAll_closed (fuel : Nat) : ∀ (keys : List Nat) (st st' : CState),
    CGood st → convertAll env fuel keys st = .ok st' → CGood st'
  | [], st, st', hg, h => by
      simp only [convertAll, Except.ok.injEq] at h
      subst h; exact hg
  | c :: cs, st, st', hg, h => by
      simp only [convertAll] at h
      cases hc : env.cell? c with
      | none => simp [hc] at h
      | some cell =>
        simp only [hc] at h
        cases hp : potConvert env fuel cell st with
        | error e => simp [hp, bind, Except.bind] at h
        | ok p =>
          obtain ⟨r, st1⟩ := p
          simp only [hp, bind, Except.bind] at h
          have o := potConvert_closed env fuel cell st r st1 hg hp
          cases r with
          | none => exact convertAll_closed fuel cs st1 st' o.good h
          | some j =>
            simp only at h
            cases hj : dictGet? st1.vols j with
            | none => simp [hj] at h
            | some v =>
              simp only [hj] at h
              have hmem : (j, v) ∈ st1.vols := by
                unfold dictGet? at hj
                cases hf : st1.vols.find? (·.1 == j) with
                | none => simp [hf] at hj
                | some q =>
                  simp only [hf, Option.map_some, Option.some.injEq] at hj
                  have hq := List.mem_of_find?_eq_some hf
                  have hqk : q.1 = j := by simpa using List.find?_some hf
                  obtain ⟨q1, q2⟩ := q
                  simp only at hj hqk
                  subst hj hqk; exact hq
              have o3 := store_closed o.good c { v with fictive := false }
                (fun r hr => o.good.closed (j, v) hmem r (by simpa [idsOf] using hr))
              exact convertAll_closed fuel cs _ st' o3.good h

/-- **the dictionary the conversion loop produces is closed and has unique keys** -/
theorem convertAll_closed_init (fuel next0 : Nat) (keys : List Nat) (st' : CState)
    (h : convertAll env fuel keys { next := next0 } = .ok st') : Closed st'.vols ∧ KeysNodup st'.vols := by
  have g0 : CGood { next := next0 } :=
    ⟨fun p hp => by simp at hp, by simp [KeysNodup], fun p hp => by simp at hp, fun p hp => by simp at hp⟩
  have := convertAll_closed env fuel keys _ st' g0 h
  exact ⟨this.closed, this.nodup⟩

end
end T4V
