import T4V.Spec.Monitor
/-!
# The point monitor's tabulated senses are the specification's senses
-/
namespace T4V.MonitorFast
open T4V

private def ins (p : V3 Float) (m : Std.HashMap Nat (Option Bool)) (ns : Nat × TSurf Float) :=
  m.insertIfNew ns.1 ((ns.2.f p).map fun v => decide ((0:Float) < v))

private theorem foldl_get (p : V3 Float) (l : List (Nat × TSurf Float)) (m : Std.HashMap Nat (Option Bool)) (n : Nat) :
    (l.foldl (ins p) m)[n]? =
      match m[n]? with
      | some b => some b
      | none => (l.find? (·.1 == n)).map fun ns => (ns.2.f p).map fun v => decide ((0:Float) < v) := by
  induction l generalizing m with
  | nil => cases h : m[n]? <;> simp [h]
  | cons a r ih =>
    rw [List.foldl_cons, ih]
    unfold ins
    rw [Std.HashMap.getElem?_insertIfNew]
    by_cases hk : a.1 = n
    · subst hk
      by_cases hm : a.1 ∈ m
      · simp [hm]
      · simp [hm]
    · have hb : (a.1 == n) = false := by simpa using hk
      simp [hb]

theorem senseFast_eq (f : T4File Float) (p : V3 Float) : senseOf (senseTable f p) = f.sense p := by
  funext n
  unfold senseOf T4File.sense senseTable
  have := foldl_get p f.surfs ∅ n
  unfold ins at this
  simp only [this]
  cases h : f.surfs.find? (·.1 == n) <;> simp

private theorem vol_foldl_get (l : List TVol) (m : Std.HashMap Nat TVol) (n : Nat) :
    (l.foldl (fun m v => m.insertIfNew v.id v) m)[n]? =
      match m[n]? with
      | some b => some b
      | none => l.find? (·.id == n) := by
  induction l generalizing m with
  | nil => cases h : m[n]? <;> simp [h]
  | cons a r ih =>
    rw [List.foldl_cons, ih, Std.HashMap.getElem?_insertIfNew]
    by_cases hk : a.id = n
    · subst hk
      by_cases hm : a.id ∈ m
      · simp [hm]
      · simp [hm]
    · have hb : (a.id == n) = false := by simpa using hk
      simp [hb]

theorem volTable_get (vols : List TVol) (n : Nat) : (volTable vols)[n]? = findVol vols n := by
  unfold volTable findVol
  rw [vol_foldl_get]
  simp

theorem memberFast_eq (vols : List TVol) (σ : SenseFn) (fuel k : Nat) :
    memberFast (volTable vols) σ fuel k = member vols σ fuel k := by
  induction fuel generalizing k with
  | zero => rfl
  | succ n ih =>
    have hf : memberFast (volTable vols) σ n = member vols σ n := funext ih
    unfold memberFast member
    rw [volTable_get, hf]
    cases findVol vols k with
    | none => rfl
    | some v =>
      cases equaT σ v with
      | none => rfl
      | some e =>
        simp only [Option.bind_eq_bind, Option.bind_some]
        cases hv : v.op with
        | none => rfl
        | some o => obtain ⟨kd, ids⟩ := o; cases kd <;> rfl

theorem ownersFast_eq (f : T4File Float) (p : V3 Float) : f.ownersFast p = f.owners p := by
  unfold T4File.ownersFast T4File.owners; simp only [senseFast_eq, memberFast_eq]

theorem undecidedFast_eq (f : T4File Float) (p : V3 Float) : f.undecidedFast p = f.undecided p := by
  unfold T4File.undecidedFast T4File.undecided; simp only [senseFast_eq, memberFast_eq]

theorem ownersOf_verdicts (f : T4File Float) (p : V3 Float) : ownersOf (f.verdicts p) = f.owners p := by
  rw [← ownersFast_eq]
  unfold ownersOf T4File.verdicts T4File.ownersFast
  simp [List.filter_map, List.filter_filter, Function.comp_def, Bool.and_comm]

theorem undecidedOf_verdicts (f : T4File Float) (p : V3 Float) : undecidedOf (f.verdicts p) = f.undecided p := by
  rw [← undecidedFast_eq]
  unfold undecidedOf T4File.verdicts T4File.undecidedFast
  simp [List.filter_map, List.filter_filter, Function.comp_def, Bool.and_comm]

end T4V.MonitorFast
