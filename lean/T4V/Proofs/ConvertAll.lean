import T4V.Proofs.ToT4d
/-!
# The conversion loop: every live cell gets a non-virtual volume, under its own number, that
denotes the cell's expression (or no volume at all when the expression is patently empty)
-/
namespace T4V

theorem dictGet?_none_iff {β} {d : List (Nat × β)} {k : Nat} : dictGet? d k = none ↔ ¬ hasKey d k := by
  constructor
  · intro h hk
    obtain ⟨p, hp, hk'⟩ := hk
    unfold dictGet? at h
    have : d.find? (·.1 == k) = none := by
      cases hf : d.find? (·.1 == k) with
      | none => rfl
      | some q => simp [hf] at h
    rw [List.find?_eq_none] at this
    exact this p hp (by simp [hk'])
  · intro h
    cases hg : dictGet? d k with
    | none => rfl
    | some v => exact absurd (dictGet?_some_hasKey hg) h

/-- copying a volume under a fresh number (the top-level copy made non-virtual) keeps its denotation -/
theorem Denotes.copy {vols : List (Nat × Vol)} {σ : TSense} {j c : Nat} {b : Bool} {v v' : Vol}
    (hd : Denotes vols σ j b) (hg : dictGet? vols j = some v) (hc : ¬ hasKey vols c)
    (hp : v'.pluses = v.pluses) (hm : v'.minuses = v.minuses) (ho : v'.ops = v.ops) :
    Denotes (vols ++ [(c, v')]) σ c b := by
  obtain ⟨f, hf⟩ := hd
  cases f with
  | zero => simp [den] at hf
  | succ f =>
    unfold den at hf
    simp only [hg] at hf
    have he : equa σ v' = equa σ v := equa_congr σ v' v hp hm
    cases hops : v.ops with
    | none =>
      simp only [hops, Option.some.injEq] at hf
      refine ⟨1, ?_⟩
      simp [den, dictGet?_append_self hc, ho, hops, he, hf]
    | some p =>
      obtain ⟨op, ids⟩ := p
      simp only [hops, Option.map_eq_some_iff] at hf
      obtain ⟨bs, hbs, rfl⟩ := hf
      refine ⟨f + 1, ?_⟩
      simp only [den, dictGet?_append_self hc, ho, hops, Option.map_eq_some_iff]
      exact ⟨bs, mapM_congr_some (fun a b => den_ext_fresh hc v' f a b) hbs, by rw [he]⟩

/-- what the loop guarantees for a processed cell `c` -/
def Good (σ : TSense) (cv : Nat → Bool) (vols : List (Nat × Vol)) (c : Nat) : Prop :=
  match dictGet? vols c with
  | some v => v.fictive = false ∧ Denotes vols σ c (cv c)
  | none => cv c = false

structure LoopInv (σ : TSense) (cv : Nat → Bool) (next0 : Nat) (done : List Nat) (st : CState) : Prop where
  ok : StOK σ cv st
  le : next0 ≤ st.next
  keys : ∀ k, hasKey st.vols k → next0 < k ∨ k ∈ done
  good : ∀ c ∈ done, Good σ cv st.vols c

theorem Good.step {σ cv ids st st' c} (h : Good σ cv st.vols c) (hs : Step σ ids st st')
    (hc : c ≤ st.next) (hi : c ∉ ids) : Good σ cv st'.vols c := by
  unfold Good at h ⊢
  cases hg : dictGet? st.vols c with
  | some v =>
    simp only [hg] at h
    rw [hs.get c v hg]
    exact ⟨h.1, hs.pres c _ h.2⟩
  | none =>
    simp only [hg] at h
    have : dictGet? st'.vols c = none := by
      rw [dictGet?_none_iff]
      intro hk
      rcases hs.keys c hk with h' | h' | h'
      · exact (dictGet?_none_iff.mp hg) h'
      · exact hi h'
      · omega
    rw [this]; exact h

section
variable (env : CEnv) (σ : TSense) (cv : Nat → Bool) (hE : EnvOK env σ cv)
include hE

theorem convertAll_inv (fuel next0 : Nat) : ∀ (keys done : List Nat) (st st' : CState),
    LoopInv σ cv next0 done st → (done ++ keys).Nodup → (∀ c ∈ done ++ keys, c ≤ next0) →
    convertAll env fuel keys st = .ok st' → LoopInv σ cv next0 (done ++ keys) st'
  | [], done, st, st', inv, _, _, h => by
      simp only [convertAll, Except.ok.injEq] at h
      subst h; simpa using inv
  | c :: cs, done, st, st', inv, hnd, hle, h => by
      simp only [convertAll] at h
      cases hc : env.cell? c with
      | none => simp [hc] at h
      | some cell =>
        simp only [hc] at h
        obtain ⟨hcf, hnz, hval⟩ := hE.cells c cell hc
        have hcle : c ≤ next0 := hle c (by simp)
        have hcnd : c ∉ done := by
          intro hm
          rw [List.nodup_append] at hnd
          exact hnd.2.2 c hm c (by simp) rfl
        have hnd' : (done ++ [c] ++ cs).Nodup := by simpa using hnd
        have hle' : ∀ x ∈ done ++ [c] ++ cs, x ≤ next0 := by
          intro x hx; exact hle x (by simpa using hx)
        cases hp : potConvert env fuel cell st with
        | error e => simp [hp, bind, Except.bind] at h
        | ok p =>
          obtain ⟨r, st1⟩ := p
          simp only [hp, bind, Except.bind] at h
          have o := potConvert_ok env σ cv hE fuel cell st r st1 (cv c) inv.ok hcf hnz hval hp
          have hkeys1 : ∀ k, hasKey st1.vols k → next0 < k ∨ k ∈ done := by
            intro k hk
            rcases o.step.keys k hk with h' | h' | h'
            · exact inv.keys k h'
            · simp at h'
            · exact Or.inl (Nat.lt_of_le_of_lt inv.le h')
          have hfresh : ¬ hasKey st1.vols c := by
            intro hk
            rcases hkeys1 c hk with h' | h'
            · omega
            · exact hcnd h'
          have hgood1 : ∀ x ∈ done, Good σ cv st1.vols x := fun x hx =>
            (inv.good x hx).step o.step (Nat.le_trans (hle x (by simp [hx])) inv.le) (by simp)
          cases r with
          | none =>
            simp only at h
            have hcv : cv c = false := o.res
            have inv1 : LoopInv σ cv next0 (done ++ [c]) st1 := by
              refine ⟨o.ok, Nat.le_trans inv.le o.step.le, ?_, ?_⟩
              · intro k hk
                rcases hkeys1 k hk with h' | h'
                · exact Or.inl h'
                · exact Or.inr (by simp [h'])
              · intro x hx
                simp only [List.mem_append, List.mem_singleton] at hx
                rcases hx with hx | rfl
                · exact hgood1 x hx
                · unfold Good
                  rw [dictGet?_none_iff.mpr hfresh]; exact hcv
            have := convertAll_inv fuel next0 cs (done ++ [c]) st1 st' inv1 hnd' hle' h
            simpa using this
          | some j =>
            simp only at h
            have hd : Denotes st1.vols σ j (cv c) := o.res
            cases hg : dictGet? st1.vols j with
            | none => simp [hg] at h
            | some v =>
              simp only [hg] at h
              generalize hv' : ({ v with fictive := false } : Vol) = v' at h
              have hp' : v'.pluses = v.pluses := by subst hv'; rfl
              have hm' : v'.minuses = v.minuses := by subst hv'; rfl
              have ho' : v'.ops = v.ops := by subst hv'; rfl
              have hf' : v'.fictive = false := by subst hv'; rfl
              obtain ⟨a1, a2, a3, a4⟩ := add_fresh (σ := σ) v' hfresh
              have hdc : Denotes (dictSet st1.vols c v') σ c (cv c) := by
                rw [dictSet_fresh v' hfresh]
                exact Denotes.copy hd hg hfresh hp' hm' ho'
              have inv1 : LoopInv σ cv next0 (done ++ [c]) { st1 with vols := dictSet st1.vols c v' } := by
                refine ⟨⟨?_, ?_, ?_⟩, Nat.le_trans inv.le o.step.le, ?_, ?_⟩
                · intro k hk
                  rcases (a3 k).mp hk with h' | h'
                  · exact o.ok.below k h'
                  · subst h'; exact Nat.le_trans hcle (Nat.le_trans inv.le o.step.le)
                · intro s id hm
                  obtain ⟨hz, v2, hg2, ho2, he2⟩ := o.ok.surf s id hm
                  exact ⟨hz, v2, a2 _ _ hg2, ho2, he2⟩
                · intro c2 id hm
                  exact a1 _ _ (o.ok.cell c2 id hm)
                · intro k hk
                  rcases (a3 k).mp hk with h' | h'
                  · rcases hkeys1 k h' with h'' | h''
                    · exact Or.inl h''
                    · exact Or.inr (by simp [h''])
                  · subst h'; exact Or.inr (by simp)
                · intro x hx
                  simp only [List.mem_append, List.mem_singleton] at hx
                  rcases hx with hx | rfl
                  · have hne : x ≠ c := fun e => hcnd (e ▸ hx)
                    have g := hgood1 x hx
                    unfold Good at g ⊢
                    cases hgx : dictGet? st1.vols x with
                    | some vx =>
                      simp only [hgx] at g
                      show (match dictGet? (dictSet st1.vols c v') x with
                        | some v => v.fictive = false ∧ Denotes (dictSet st1.vols c v') σ x (cv x)
                        | none => cv x = false)
                      rw [a2 x vx hgx]
                      exact ⟨g.1, a1 _ _ g.2⟩
                    | none =>
                      simp only [hgx] at g
                      have : dictGet? (dictSet st1.vols c v') x = none := by
                        rw [dictGet?_none_iff]
                        intro hk
                        rcases (a3 x).mp hk with h' | h'
                        · exact (dictGet?_none_iff.mp hgx) h'
                        · exact hne h'
                      show (match dictGet? (dictSet st1.vols c v') x with
                        | some v => v.fictive = false ∧ Denotes (dictSet st1.vols c v') σ x (cv x)
                        | none => cv x = false)
                      rw [this]; exact g
                  · show (match dictGet? (dictSet st1.vols x v') x with
                        | some v => v.fictive = false ∧ Denotes (dictSet st1.vols x v') σ x (cv x)
                        | none => cv x = false)
                    rw [a4]; exact ⟨hf', hdc⟩
              have := convertAll_inv fuel next0 cs (done ++ [c]) _ st' inv1 hnd' hle' h
              simpa using this

/-- **C01, Boolean core.** Starting from the empty volume dictionary with the id counter above all
cell numbers, the conversion loop gives every live cell `c` either a non-virtual volume numbered `c`
that contains exactly the points of the cell's region (`cv c`, for this and every other sense
assignment `σ`), or no volume when the region is empty at that point. -/
theorem convertAll_ok (fuel next0 : Nat) (keys : List Nat) (st' : CState)
    (hnd : keys.Nodup) (hle : ∀ c ∈ keys, c ≤ next0)
    (h : convertAll env fuel keys { next := next0 } = .ok st') :
    ∀ c ∈ keys, Good σ cv st'.vols c := by
  have inv0 : LoopInv σ cv next0 [] { next := next0 } :=
    ⟨⟨fun k hk => by obtain ⟨p, hp, _⟩ := hk; simp at hp, fun s id hm => by simp at hm,
      fun c id hm => by simp at hm⟩, Nat.le_refl _, fun k hk => by obtain ⟨p, hp, _⟩ := hk; simp at hp,
      fun c hc => by simp at hc⟩
  have := convertAll_inv env σ cv hE fuel next0 keys [] _ st' inv0 (by simpa using hnd) (by simpa using hle) h
  intro c hc
  exact this.good c (by simpa using hc)

end
end T4V
