import T4V.Proofs.Den
import T4V.Model.Post
import T4V.Proofs.Post
/-!
# `remove_empty_volumes` preserves what the surviving volumes denote

Semantics used here: `den'` reads a reference to a key that is *not in the dictionary* as the empty
volume (`false`).  With this reading every single step of `remove_empty_volumes` (neutralising an empty
union, deleting an empty volume, dropping deleted operands from unions, queueing intersections with a
deleted operand) preserves the denotation of every volume still present, and only volumes that denote ∅
are deleted.  On a dictionary without dangling references `den'` is `den` (`den_imp_den'`).
-/
namespace T4V

/-- like `den`, a missing key denoting the empty volume -/
def den' (vols : List (Nat × Vol)) (σ : TSense) : Nat → Nat → Option Bool
  | 0, _ => none
  | f + 1, k =>
    match dictGet? vols k with
    | none => some false
    | some v =>
      match v.ops with
      | none => some (equa σ v)
      | some (op, ids) => (ids.mapM (den' vols σ f)).map (combine op (equa σ v))

def Denotes' (vols : List (Nat × Vol)) (σ : TSense) (k : Nat) (b : Bool) : Prop := ∃ f, den' vols σ f k = some b

theorem den_imp_den' (vols : List (Nat × Vol)) (σ : TSense) :
    ∀ f k b, den vols σ f k = some b → den' vols σ f k = some b := by
  intro f
  induction f with
  | zero => intro k b h; simp [den] at h
  | succ f ih =>
    intro k b h
    unfold den at h
    unfold den'
    cases hg : dictGet? vols k with
    | none => simp [hg] at h
    | some v =>
      simp only [hg] at h ⊢
      cases ho : v.ops with
      | none => simpa [ho] using h
      | some p =>
        obtain ⟨op, ids⟩ := p
        simp only [ho, Option.map_eq_some_iff] at h ⊢
        obtain ⟨bs, hbs, rfl⟩ := h
        exact ⟨bs, mapM_congr_some ih hbs, rfl⟩

/-- pointwise transfer of `den'` between two dictionaries -/
theorem den'_transfer {vs vs' : List (Nat × Vol)} {σ : TSense}
    (hstep : ∀ f, (∀ j b, den' vs σ f j = some b → den' vs' σ f j = some b) →
      ∀ j b, den' vs σ (f + 1) j = some b → den' vs' σ (f + 1) j = some b) :
    ∀ f j b, den' vs σ f j = some b → den' vs' σ f j = some b := by
  intro f
  induction f with
  | zero => intro j b h; simp [den'] at h
  | succ f ih => exact hstep f ih

theorem mapM_some_length {α β} {f : α → Option β} : ∀ {l : List α} {r : List β}, l.mapM f = some r → r.length = l.length
  | [], r, h => by simp at h; subst h; rfl
  | a :: as, r, h => by
      simp only [List.mapM_cons, Option.bind_eq_bind, Option.pure_def] at h
      cases hfa : f a with
      | none => simp [hfa] at h
      | some b =>
        simp only [hfa, Option.bind_some] at h
        cases hr : as.mapM f with
        | none => simp [hr] at h
        | some r' =>
          simp only [hr, Option.bind_some, Option.some.injEq] at h
          subst h
          simp [mapM_some_length hr]

/-! ### dictionary operations used by the loop -/

def updAt (vs : List (Nat × Vol)) (k : Nat) (v' : Vol) : List (Nat × Vol) :=
  vs.map fun p => if p.1 == k then (k, v') else p

def delKey (vs : List (Nat × Vol)) (k : Nat) : List (Nat × Vol) := vs.filter (·.1 != k)

theorem dictGet?_cons {β} (p : Nat × β) (rest : List (Nat × β)) (k : Nat) :
    dictGet? (p :: rest) k = if (p.1 == k) = true then some p.2 else dictGet? rest k := by
  unfold dictGet?
  by_cases hp : (p.1 == k) = true
  · simp [List.find?_cons, hp]
  · have hp' : (p.1 == k) = false := by simpa using hp
    simp [List.find?_cons, hp']

theorem updAt_cons (p : Nat × Vol) (rest : List (Nat × Vol)) (k : Nat) (v' : Vol) :
    updAt (p :: rest) k v' = (if (p.1 == k) = true then (k, v') else p) :: updAt rest k v' := rfl

theorem delKey_cons (p : Nat × Vol) (rest : List (Nat × Vol)) (k : Nat) :
    delKey (p :: rest) k = if (p.1 == k) = true then delKey rest k else p :: delKey rest k := by
  unfold delKey
  by_cases hp : (p.1 == k) = true
  · have : (p.1 != k) = false := by simpa using hp
    simp [List.filter_cons, hp, this]
  · have hp' : (p.1 == k) = false := by simpa using hp
    have : (p.1 != k) = true := by simpa using hp
    simp [List.filter_cons, hp', this]

theorem dictGet?_updAt_self {vs : List (Nat × Vol)} {k : Nat} {v v' : Vol} (h : dictGet? vs k = some v) :
    dictGet? (updAt vs k v') k = some v' := by
  induction vs with
  | nil => simp [dictGet?] at h
  | cons p rest ih =>
    rw [updAt_cons, dictGet?_cons]
    rw [dictGet?_cons] at h
    by_cases hp : (p.1 == k) = true
    · rw [if_pos hp]; simp
    · rw [if_neg hp] at h ⊢
      rw [if_neg hp]
      exact ih h

theorem dictGet?_updAt_ne {vs : List (Nat × Vol)} {k j : Nat} {v' : Vol} (hne : j ≠ k) :
    dictGet? (updAt vs k v') j = dictGet? vs j := by
  induction vs with
  | nil => rfl
  | cons p rest ih =>
    rw [updAt_cons, dictGet?_cons, dictGet?_cons]
    by_cases hp : (p.1 == k) = true
    · have hpk : p.1 = k := by simpa using hp
      have h1 : ¬ ((k == j) = true) := by simpa using fun e => hne e.symm
      have h2 : ¬ ((p.1 == j) = true) := by rw [hpk]; exact h1
      rw [if_pos hp, if_neg h2]
      show (if ((k, v').1 == j) = true then _ else _) = _
      rw [if_neg h1]
      exact ih
    · rw [if_neg hp]
      by_cases hj : (p.1 == j) = true
      · rw [if_pos hj, if_pos hj]
      · rw [if_neg hj, if_neg hj]; exact ih

theorem dictGet?_delKey_self (vs : List (Nat × Vol)) (k : Nat) : dictGet? (delKey vs k) k = none := by
  induction vs with
  | nil => rfl
  | cons p rest ih =>
    rw [delKey_cons]
    by_cases hp : (p.1 == k) = true
    · rw [if_pos hp]; exact ih
    · rw [if_neg hp, dictGet?_cons, if_neg hp]; exact ih

theorem dictGet?_delKey_ne {vs : List (Nat × Vol)} {k j : Nat} (hne : j ≠ k) :
    dictGet? (delKey vs k) j = dictGet? vs j := by
  induction vs with
  | nil => rfl
  | cons p rest ih =>
    rw [delKey_cons, dictGet?_cons]
    by_cases hp : (p.1 == k) = true
    · have hpk : p.1 = k := by simpa using hp
      have h2 : ¬ ((p.1 == j) = true) := by rw [hpk]; simpa using fun e => hne e.symm
      rw [if_pos hp, if_neg h2]
      exact ih
    · rw [if_neg hp, dictGet?_cons]
      by_cases hj : (p.1 == j) = true
      · rw [if_pos hj, if_pos hj]
      · rw [if_neg hj, if_neg hj]; exact ih

theorem hasKey_of_dictGet? {β} {d : List (Nat × β)} {k : Nat} : hasKey d k ↔ ∃ v, dictGet? d k = some v := by
  constructor
  · rintro ⟨p, hp, rfl⟩
    unfold dictGet?
    cases hf : d.find? (·.1 == p.1) with
    | none => exact absurd (List.find?_eq_none.mp hf p hp) (by simp)
    | some q => exact ⟨q.2, rfl⟩
  · rintro ⟨v, hv⟩; exact dictGet?_some_hasKey hv

/-! ### L1: replacing the EQUA part of a volume by one with the same truth value -/

theorem den'_updAt {vs : List (Nat × Vol)} {σ : TSense} {k : Nat} {v v' : Vol} (hk : dictGet? vs k = some v)
    (hops : v'.ops = v.ops) (heq : equa σ v' = equa σ v) :
    ∀ f j b, den' vs σ f j = some b → den' (updAt vs k v') σ f j = some b := by
  apply den'_transfer
  intro f ih j b h
  unfold den' at h ⊢
  by_cases hj : j = k
  · subst hj
    rw [dictGet?_updAt_self hk]
    simp only [hk] at h
    simp only [hops, heq]
    cases ho : v.ops with
    | none => simpa [ho] using h
    | some p =>
      obtain ⟨op, ids⟩ := p
      simp only [ho, Option.map_eq_some_iff] at h ⊢
      obtain ⟨bs, hbs, rfl⟩ := h
      exact ⟨bs, mapM_congr_some ih hbs, rfl⟩
  · rw [dictGet?_updAt_ne hj]
    cases hg : dictGet? vs j with
    | none => simpa [hg] using h
    | some w =>
      simp only [hg] at h ⊢
      cases ho : w.ops with
      | none => simpa [ho] using h
      | some p =>
        obtain ⟨op, ids⟩ := p
        simp only [ho, Option.map_eq_some_iff] at h ⊢
        obtain ⟨bs, hbs, rfl⟩ := h
        exact ⟨bs, mapM_congr_some ih hbs, rfl⟩

/-! ### L2: deleting a volume that denotes ∅ -/

def Dead' (vs : List (Nat × Vol)) (σ : TSense) (k : Nat) : Prop := ∀ f b, den' vs σ f k = some b → b = false

theorem den'_delKey {vs : List (Nat × Vol)} {σ : TSense} {k : Nat} (hd : Dead' vs σ k) :
    ∀ f j b, den' vs σ f j = some b → den' (delKey vs k) σ f j = some b := by
  apply den'_transfer
  intro f ih j b h
  by_cases hj : j = k
  · subst hj
    have := hd _ _ h
    subst this
    unfold den'
    rw [dictGet?_delKey_self]
  · unfold den' at h ⊢
    rw [dictGet?_delKey_ne hj]
    cases hg : dictGet? vs j with
    | none => simpa [hg] using h
    | some w =>
      simp only [hg] at h ⊢
      cases ho : w.ops with
      | none => simpa [ho] using h
      | some p =>
        obtain ⟨op, ids⟩ := p
        simp only [ho, Option.map_eq_some_iff] at h ⊢
        obtain ⟨bs, hbs, rfl⟩ := h
        exact ⟨bs, mapM_congr_some ih hbs, rfl⟩

/-! ### L3: unions drop deleted operands -/

def dropRemoved (removed : List Nat) (v : Vol) : Vol :=
  match v.ops with
  | some (.union, ids) =>
      let ids' := ids.filter (!removed.contains ·)
      { v with ops := if ids'.isEmpty then none else some (.union, ids') }
  | _ => v

theorem afterRound_fst (vs : List (Nat × Vol)) (removed : List Nat) :
    (afterRound vs removed).1 = vs.map fun p => (p.1, dropRemoved removed p.2) := by
  unfold afterRound dropRemoved
  simp only
  apply List.map_congr_left
  intro p _
  obtain ⟨k, v⟩ := p
  cases ho : v.ops with
  | none => simp [ho]
  | some q =>
    obtain ⟨op, ids⟩ := q
    cases op <;> simp [ho]

theorem den'_missing {vs : List (Nat × Vol)} {σ : TSense} {r : Nat} (h : ¬ hasKey vs r) :
    ∀ f b, den' vs σ f r = some b → b = false := by
  intro f b hb
  cases f with
  | zero => simp [den'] at hb
  | succ f =>
    unfold den' at hb
    have : dictGet? vs r = none := by
      cases hg : dictGet? vs r with
      | none => rfl
      | some v => exact absurd (dictGet?_some_hasKey hg) h
    simp [this] at hb
    exact hb

theorem mapM_filter_any {F F' : Nat → Option Bool} (removed : List Nat)
    (hdead : ∀ r, r ∈ removed → ∀ b, F r = some b → b = false) (hFF' : ∀ j b, F j = some b → F' j = some b) :
    ∀ (ids : List Nat) (bs : List Bool), ids.mapM F = some bs →
      ∃ bs', (ids.filter (!removed.contains ·)).mapM F' = some bs' ∧ bs'.any id = bs.any id
  | [], bs, h => by
      simp only [List.mapM_nil, Option.pure_def, Option.some.injEq] at h
      subst h; exact ⟨[], rfl, rfl⟩
  | a :: as, bs, h => by
      simp only [List.mapM_cons, Option.bind_eq_bind, Option.pure_def] at h
      cases hfa : F a with
      | none => simp [hfa] at h
      | some b =>
        simp only [hfa, Option.bind_some] at h
        cases hr : as.mapM F with
        | none => simp [hr] at h
        | some r' =>
          simp only [hr, Option.bind_some, Option.some.injEq] at h
          subst h
          obtain ⟨bs', hbs', hany⟩ := mapM_filter_any removed hdead hFF' as r' hr
          by_cases hrem : removed.contains a = true
          · have hb : b = false := hdead a (by simpa using hrem) b hfa
            refine ⟨bs', ?_, ?_⟩
            · simp only [List.filter_cons, hrem, Bool.not_true, Bool.false_eq_true, if_false]; exact hbs'
            · simp [hb, hany]
          · have hrem' : removed.contains a = false := by simpa using hrem
            refine ⟨b :: bs', ?_, ?_⟩
            · simp only [List.filter_cons, hrem', Bool.not_false, if_true, List.mapM_cons, Option.bind_eq_bind,
                Option.pure_def, hFF' a b hfa, Option.bind_some, hbs']
            · simp [hany]

theorem den'_afterRound {vs : List (Nat × Vol)} {σ : TSense} {removed : List Nat}
    (hmiss : ∀ r ∈ removed, ¬ hasKey vs r) :
    ∀ f j b, den' vs σ f j = some b → den' (afterRound vs removed).1 σ f j = some b := by
  rw [afterRound_fst]
  apply den'_transfer
  intro f ih j b h
  unfold den' at h ⊢
  rw [dictGet?_map]
  cases hg : dictGet? vs j with
  | none => simpa [hg] using h
  | some w =>
    simp only [hg, Option.map_some] at h ⊢
    cases ho : w.ops with
    | none => simpa [dropRemoved, ho] using h
    | some q =>
      obtain ⟨op, ids⟩ := q
      simp only [ho, Option.map_eq_some_iff] at h
      obtain ⟨bs, hbs, rfl⟩ := h
      cases op with
      | inter =>
        have : dropRemoved removed w = w := by simp [dropRemoved, ho]
        simp only [this, ho, Option.map_eq_some_iff]
        exact ⟨bs, mapM_congr_some ih hbs, rfl⟩
      | union =>
        obtain ⟨bs', hbs', hany⟩ := mapM_filter_any (F := den' vs σ f)
          (F' := den' (vs.map fun p => (p.1, dropRemoved removed p.2)) σ f) removed
          (fun r hr b' hb' => den'_missing (hmiss r hr) f b' hb') ih ids bs hbs
        have heq : equa σ (dropRemoved removed w) = equa σ w := by
          simp only [dropRemoved, ho, equa]
        by_cases hemp : (ids.filter (!removed.contains ·)).isEmpty = true
        · have hops : (dropRemoved removed w).ops = none := by
            simp only [dropRemoved, ho]; rw [if_pos hemp]
          have hnil : ids.filter (!removed.contains ·) = [] := List.isEmpty_iff.mp hemp
          rw [hnil] at hbs'
          simp only [List.mapM_nil, Option.pure_def, Option.some.injEq] at hbs'
          subst hbs'
          simp only [List.any_nil] at hany
          simp only [hops, heq, combine, ← hany, Bool.or_false]
        · have hops : (dropRemoved removed w).ops = some (.union, ids.filter (!removed.contains ·)) := by
            simp only [dropRemoved, ho]; rw [if_neg hemp]
          simp only [hops, heq, Option.map_eq_some_iff]
          exact ⟨bs', hbs', by simp [combine, hany]⟩

/-! ### keys -/

theorem hasKey_updAt {vs : List (Nat × Vol)} {k j : Nat} {v v' : Vol} (hk : dictGet? vs k = some v) :
    hasKey (updAt vs k v') j ↔ hasKey vs j := by
  rw [hasKey_of_dictGet?, hasKey_of_dictGet?]
  by_cases hj : j = k
  · subst hj; rw [dictGet?_updAt_self hk]; exact ⟨fun _ => ⟨v, hk⟩, fun _ => ⟨v', rfl⟩⟩
  · rw [dictGet?_updAt_ne hj]

theorem hasKey_delKey {vs : List (Nat × Vol)} {k j : Nat} : hasKey (delKey vs k) j ↔ j ≠ k ∧ hasKey vs j := by
  rw [hasKey_of_dictGet?, hasKey_of_dictGet?]
  by_cases hj : j = k
  · subst hj; rw [dictGet?_delKey_self]; simp
  · rw [dictGet?_delKey_ne hj]; simp [hj]

theorem hasKey_map_snd {vs : List (Nat × Vol)} (g : Vol → Vol) {j : Nat} :
    hasKey (vs.map fun p => (p.1, g p.2)) j ↔ hasKey vs j := by
  rw [hasKey_of_dictGet?, hasKey_of_dictGet?, dictGet?_map]
  cases dictGet? vs j <;> simp

/-! ### the invariant of `remove_empty_volumes` -/

theorem equa_of_empty (σ : TSense) (v : Vol) (h : v.empty = true) : equa σ v = false := by
  unfold Vol.empty at h
  rw [List.any_eq_true] at h
  obtain ⟨s, hs, hm⟩ := h
  have hm' : s ∈ v.minuses := by simpa using hm
  unfold equa
  by_cases hσ : σ s = true
  · have : v.minuses.all (fun s => !σ s) = false := by
      rw [Bool.eq_false_iff]; intro hall
      have := List.all_eq_true.mp hall s hm'
      simp [hσ] at this
    simp [this]
  · have : v.pluses.all σ = false := by
      rw [Bool.eq_false_iff]; intro hall
      exact hσ (List.all_eq_true.mp hall s hs)
    simp [this]

/-- what is known of a queued key when its turn comes -/
def Pre (vs : List (Nat × Vol)) (σ : TSense) (k : Nat) : Prop :=
  ∀ v, dictGet? vs k = some v →
    equa σ v = false ∨ ∃ ids, v.ops = some (.inter, ids) ∧ ∃ r ∈ ids, ¬ hasKey vs r

theorem dead_of_pre {vs : List (Nat × Vol)} {σ : TSense} {k : Nat} {v : Vol} (hk : dictGet? vs k = some v)
    (hnu : ∀ ids, v.ops ≠ some (.union, ids)) (hp : Pre vs σ k) : Dead' vs σ k := by
  intro f b hb
  cases f with
  | zero => simp [den'] at hb
  | succ f =>
    unfold den' at hb
    simp only [hk] at hb
    rcases hp v hk with he | ⟨ids, hops, r, hr, hmiss⟩
    · cases ho : v.ops with
      | none => simp [ho, he] at hb; exact hb
      | some q =>
        obtain ⟨op, ids⟩ := q
        cases op with
        | union => exact absurd ho (hnu ids)
        | inter =>
          simp only [ho, Option.map_eq_some_iff] at hb
          obtain ⟨bs, -, rfl⟩ := hb
          simp [combine, he]
    · simp only [hops, Option.map_eq_some_iff] at hb
      obtain ⟨bs, hbs, rfl⟩ := hb
      -- the operand r is missing: its entry in bs is false
      have : bs.all id = false := by
        clear hk hops
        induction ids generalizing bs with
        | nil => simp at hr
        | cons a as ih =>
          simp only [List.mapM_cons, Option.bind_eq_bind, Option.pure_def] at hbs
          cases hfa : den' vs σ f a with
          | none => simp [hfa] at hbs
          | some ba =>
            simp only [hfa, Option.bind_some] at hbs
            cases hrr : as.mapM (den' vs σ f) with
            | none => simp [hrr] at hbs
            | some r' =>
              simp only [hrr, Option.bind_some, Option.some.injEq] at hbs
              subst hbs
              rcases List.mem_cons.mp hr with rfl | hr'
              · have := den'_missing hmiss f ba hfa
                simp [this]
              · have := ih hr' r' hrr
                simp [this]
      simp [combine, this]

def isUnion (v : Vol) : Bool := match v.ops with | some (.union, _) => true | _ => false

theorem isUnion_iff (v : Vol) : isUnion v = true ↔ ∃ ids, v.ops = some (.union, ids) := by
  unfold isUnion
  cases ho : v.ops with
  | none => simp
  | some q => obtain ⟨op, ids⟩ := q; cases op <;> simp

theorem roundStep_eq (u : Nat × Nat) (acc : List (Nat × Vol) × List Nat) (k : Nat) (v : Vol)
    (hg : dictGet? acc.1 k = some v) :
    roundStep u acc k =
      if isUnion v = true then (updAt acc.1 k { v with pluses := [u.1], minuses := [u.2] }, acc.2)
      else (delKey acc.1 k, acc.2 ++ [k]) := by
  unfold roundStep isUnion updAt delKey
  simp only [hg]
  cases ho : v.ops with
  | none => simp
  | some q => obtain ⟨op, ids⟩ := q; cases op <;> simp

structure RInv (orig vs : List (Nat × Vol)) (σ : TSense) (removed : List Nat) : Prop where
  keep : ∀ j b, hasKey vs j → Denotes' orig σ j b → Denotes' vs σ j b
  gone : ∀ j b, ¬ hasKey vs j → Denotes' orig σ j b → b = false
  miss : ∀ r ∈ removed, ¬ hasKey vs r
  fict : ∀ j v v', dictGet? orig j = some v → dictGet? vs j = some v' → v'.fictive = v.fictive

theorem roundStep_inv (u : Nat × Nat) (σ : TSense) (hσu : (σ u.1 && !σ u.2) = false) (orig : List (Nat × Vol))
    (R : List Nat) (acc : List (Nat × Vol) × List Nat) (k : Nat)
    (inv : RInv orig acc.1 σ (R ++ acc.2)) (hp : Pre acc.1 σ k) :
    RInv orig (roundStep u acc k).1 σ (R ++ (roundStep u acc k).2) := by
  cases hg : dictGet? acc.1 k with
  | none => unfold roundStep; simpa [hg] using inv
  | some v =>
    rw [roundStep_eq u acc k v hg]
    by_cases hu : isUnion v = true
    · rw [if_pos hu]
      obtain ⟨ids, ho⟩ := (isUnion_iff v).mp hu
      have he : equa σ v = false := by
        rcases hp v hg with he | ⟨ids', hops, _⟩
        · exact he
        · rw [ho] at hops; cases hops
      have heq : equa σ ({ v with pluses := [u.1], minuses := [u.2] } : Vol) = equa σ v := by
        rw [he]; simpa [equa] using hσu
      refine ⟨fun j b hj hd => ?_, fun j b hj hd => ?_, fun r hr => ?_, fun j w w' hw hw' => ?_⟩
      · obtain ⟨f, hf⟩ := inv.keep j b ((hasKey_updAt hg).mp hj) hd
        exact ⟨f, den'_updAt (v' := { v with pluses := [u.1], minuses := [u.2] }) hg rfl heq f j b hf⟩
      · exact inv.gone j b (fun h => hj ((hasKey_updAt hg).mpr h)) hd
      · exact fun h => inv.miss r hr ((hasKey_updAt hg).mp h)
      · by_cases hjk : j = k
        · subst hjk
          rw [dictGet?_updAt_self hg] at hw'
          cases hw'
          exact inv.fict j w v hw hg
        · rw [dictGet?_updAt_ne hjk] at hw'
          exact inv.fict j w w' hw hw'
    · rw [if_neg hu]
      have hnu : ∀ ids, v.ops ≠ some (.union, ids) := fun ids h => hu ((isUnion_iff v).mpr ⟨ids, h⟩)
      have hdead := dead_of_pre hg hnu hp
      refine ⟨fun j b hj hd => ?_, fun j b hj hd => ?_, fun r hr => ?_, fun j w w' hw hw' => ?_⟩
      rotate_left 3
      · by_cases hjk : j = k
        · subst hjk; rw [dictGet?_delKey_self] at hw'; cases hw'
        · rw [dictGet?_delKey_ne hjk] at hw'
          exact inv.fict j w w' hw hw'
      · obtain ⟨hjk, hj'⟩ := hasKey_delKey.mp hj
        obtain ⟨f, hf⟩ := inv.keep j b hj' hd
        exact ⟨f, den'_delKey hdead f j b hf⟩
      · by_cases hjk : j = k
        · subst hjk
          obtain ⟨f, hf⟩ := inv.keep j b (dictGet?_some_hasKey hg) hd
          exact hdead f b hf
        · exact inv.gone j b (fun h => hj (hasKey_delKey.mpr ⟨hjk, h⟩)) hd
      · intro h
        obtain ⟨hrk, hr'⟩ := hasKey_delKey.mp h
        rw [← List.append_assoc, List.mem_append] at hr
        rcases hr with hr | hr
        · exact inv.miss r hr hr'
        · simp at hr; exact hrk hr

theorem roundStep_pre (u : Nat × Nat) (σ : TSense) (hσu : (σ u.1 && !σ u.2) = false)
    (acc : List (Nat × Vol) × List Nat) (k k' : Nat) (hp : Pre acc.1 σ k') : Pre (roundStep u acc k).1 σ k' := by
  cases hg : dictGet? acc.1 k with
  | none => unfold roundStep; simpa [hg] using hp
  | some v =>
    rw [roundStep_eq u acc k v hg]
    by_cases hu : isUnion v = true
    · rw [if_pos hu]
      intro w hw
      by_cases hk : k' = k
      · subst hk
        rw [dictGet?_updAt_self hg] at hw
        cases hw
        exact Or.inl (by simpa [equa] using hσu)
      · rw [dictGet?_updAt_ne hk] at hw
        rcases hp w hw with he | ⟨ids, hops, r, hr, hm⟩
        · exact Or.inl he
        · exact Or.inr ⟨ids, hops, r, hr, fun h => hm ((hasKey_updAt hg).mp h)⟩
    · rw [if_neg hu]
      intro w hw
      by_cases hk : k' = k
      · subst hk; rw [dictGet?_delKey_self] at hw; cases hw
      · rw [dictGet?_delKey_ne hk] at hw
        rcases hp w hw with he | ⟨ids, hops, r, hr, hm⟩
        · exact Or.inl he
        · exact Or.inr ⟨ids, hops, r, hr, fun h => hm (hasKey_delKey.mp h).2⟩

theorem round_inv (u : Nat × Nat) (σ : TSense) (hσu : (σ u.1 && !σ u.2) = false) (orig : List (Nat × Vol)) (R : List Nat) :
    ∀ (q : List Nat) (acc : List (Nat × Vol) × List Nat), RInv orig acc.1 σ (R ++ acc.2) → (∀ k ∈ q, Pre acc.1 σ k) →
      RInv orig (q.foldl (roundStep u) acc).1 σ (R ++ (q.foldl (roundStep u) acc).2)
  | [], acc, inv, _ => inv
  | k :: q, acc, inv, hpre => by
      simp only [List.foldl_cons]
      exact round_inv u σ hσu orig R q _ (roundStep_inv u σ hσu orig R acc k inv (hpre k List.mem_cons_self))
        (fun k' hk' => roundStep_pre u σ hσu acc k k' (hpre k' (List.mem_cons_of_mem _ hk')))

/-! ### unique keys -/

def KeysNodup (vs : List (Nat × Vol)) : Prop := (vs.map (·.1)).Nodup

theorem keys_updAt (vs : List (Nat × Vol)) (k : Nat) (v' : Vol) : (updAt vs k v').map (·.1) = vs.map (·.1) := by
  unfold updAt
  rw [List.map_map]
  apply List.map_congr_left
  intro p _
  by_cases hp : (p.1 == k) = true
  · have : p.1 = k := by simpa using hp
    simp [this]
  · have hp' : (p.1 == k) = false := by simpa using hp
    simp only [Function.comp, hp', Bool.false_eq_true, if_false]

theorem keysNodup_delKey {vs : List (Nat × Vol)} (h : KeysNodup vs) (k : Nat) : KeysNodup (delKey vs k) := by
  unfold KeysNodup delKey at *
  exact List.Nodup.sublist (List.Sublist.map _ List.filter_sublist) h

theorem keysNodup_roundStep (u : Nat × Nat) (acc : List (Nat × Vol) × List Nat) (k : Nat) (h : KeysNodup acc.1) :
    KeysNodup (roundStep u acc k).1 := by
  cases hg : dictGet? acc.1 k with
  | none => unfold roundStep; simpa [hg] using h
  | some v =>
    rw [roundStep_eq u acc k v hg]
    by_cases hu : isUnion v = true
    · rw [if_pos hu]; unfold KeysNodup; rw [keys_updAt]; exact h
    · rw [if_neg hu]; exact keysNodup_delKey h k

theorem keysNodup_fold (u : Nat × Nat) : ∀ (q : List Nat) (acc : List (Nat × Vol) × List Nat), KeysNodup acc.1 →
    KeysNodup (q.foldl (roundStep u) acc).1
  | [], _, h => h
  | k :: q, acc, h => by
      simp only [List.foldl_cons]
      exact keysNodup_fold u q _ (keysNodup_roundStep u acc k h)

theorem dictGet?_of_mem {vs : List (Nat × Vol)} (h : KeysNodup vs) {k : Nat} {v : Vol} (hm : (k, v) ∈ vs) :
    dictGet? vs k = some v := by
  induction vs with
  | nil => simp at hm
  | cons p rest ih =>
    unfold KeysNodup at h
    simp only [List.map_cons, List.nodup_cons] at h
    rw [dictGet?_cons]
    rcases List.mem_cons.mp hm with rfl | hm'
    · simp
    · have hne : ¬ ((p.1 == k) = true) := by
        intro he
        have : p.1 = k := by simpa using he
        apply h.1
        rw [this]
        exact List.mem_map.mpr ⟨(k, v), hm', rfl⟩
      rw [if_neg hne]
      exact ih h.2 hm'

/-! ### the loop -/

theorem afterRound_inv (σ : TSense) (orig vs : List (Nat × Vol)) (removed : List Nat)
    (inv : RInv orig vs σ removed) (hnd : KeysNodup vs) :
    RInv orig (afterRound vs removed).1 σ removed ∧ KeysNodup (afterRound vs removed).1 ∧
      ∀ k ∈ (afterRound vs removed).2, Pre (afterRound vs removed).1 σ k := by
  have hkeys : ∀ j, hasKey (afterRound vs removed).1 j ↔ hasKey vs j := by
    intro j; rw [afterRound_fst]; exact hasKey_map_snd _
  have hfict : ∀ w : Vol, (dropRemoved removed w).fictive = w.fictive := by
    intro w
    unfold dropRemoved
    cases ho : w.ops with
    | none => rfl
    | some q => obtain ⟨op, ids⟩ := q; cases op <;> rfl
  refine ⟨⟨fun j b hj hd => ?_, fun j b hj hd => ?_, fun r hr h => ?_, fun j w w' hw hw' => ?_⟩, ?_, ?_⟩
  · obtain ⟨f, hf⟩ := inv.keep j b ((hkeys j).mp hj) hd
    exact ⟨f, den'_afterRound inv.miss f j b hf⟩
  · exact inv.gone j b (fun h => hj ((hkeys j).mpr h)) hd
  · exact inv.miss r hr ((hkeys r).mp h)
  · rw [afterRound_fst, dictGet?_map] at hw'
    cases hg : dictGet? vs j with
    | none => simp [hg] at hw'
    | some w1 =>
      simp only [hg, Option.map_some, Option.some.injEq] at hw'
      subst hw'
      rw [hfict]; exact inv.fict j w w1 hw hg
  · unfold KeysNodup
    rw [afterRound_fst, List.map_map]
    exact hnd
  · intro k hk w hw
    have hk' : ∃ v ids, (k, v) ∈ vs ∧ v.ops = some (.inter, ids) ∧ ids.any (removed.contains ·) = true := by
      unfold afterRound at hk
      simp only at hk
      rw [List.mem_filterMap] at hk
      obtain ⟨⟨k', v⟩, hm, hsome⟩ := hk
      simp only at hsome
      cases ho : v.ops with
      | none => simp [ho] at hsome
      | some q =>
        obtain ⟨op, ids⟩ := q
        cases op with
        | union => simp [ho] at hsome
        | inter =>
          simp only [ho] at hsome
          by_cases hany : ids.any (removed.contains ·) = true
          · simp only [hany, if_true, Option.some.injEq] at hsome
            subst hsome
            exact ⟨v, ids, hm, ho, hany⟩
          · exfalso
            simp only [hany, Bool.false_eq_true, if_false] at hsome
            cases hsome
    obtain ⟨v, ids, hm, ho, hany⟩ := hk'
    have hv := dictGet?_of_mem hnd hm
    rw [afterRound_fst, dictGet?_map, hv] at hw
    simp only [Option.map_some, Option.some.injEq] at hw
    subst hw
    have hdr : dropRemoved removed v = v := by simp [dropRemoved, ho]
    rw [hdr]
    rw [List.any_eq_true] at hany
    obtain ⟨r, hr, hrem⟩ := hany
    refine Or.inr ⟨ids, ho, r, hr, fun h => ?_⟩
    exact inv.miss r (by simpa using hrem) ((hkeys r).mp h)

theorem loop_inv (u : Nat × Nat) (σ : TSense) (hσu : (σ u.1 && !σ u.2) = false) (orig : List (Nat × Vol)) :
    ∀ (fuel : Nat) (vs : List (Nat × Vol)) (queue removed : List Nat),
      RInv orig vs σ removed → KeysNodup vs → (∀ k ∈ queue, Pre vs σ k) →
      ∃ removed', RInv orig (removeEmpty.loop u fuel vs queue removed) σ removed' ∧
        KeysNodup (removeEmpty.loop u fuel vs queue removed)
  | 0, vs, _, removed, inv, hnd, _ => ⟨removed, by simpa [removeEmpty.loop] using inv, by simpa [removeEmpty.loop] using hnd⟩
  | fuel + 1, vs, queue, removed, inv, hnd, hpre => by
      unfold removeEmpty.loop
      by_cases hq : queue.isEmpty = true
      · exact ⟨removed, by simpa [hq] using inv, by simpa [hq] using hnd⟩
      · simp only [hq, Bool.false_eq_true, if_false]
        rw [removeEmptyRound_eq]
        have inv1 := round_inv u σ hσu orig removed queue (vs, []) (by simpa using inv) hpre
        have hnd1 := keysNodup_fold u queue (vs, []) hnd
        obtain ⟨inv2, hnd2, hpre2⟩ := afterRound_inv σ orig _ _ inv1 hnd1
        exact loop_inv u σ hσu orig fuel _ _ _ inv2 hnd2 hpre2

/-- **`remove_empty_volumes` preserves the denotation of every surviving volume and deletes only volumes
that denote ∅** (at every point `σ` at which the two auxiliary union planes bound nothing) -/
theorem removeEmpty_preserves (u : Nat × Nat) (σ : TSense) (hσu : (σ u.1 && !σ u.2) = false)
    (vols : List (Nat × Vol)) (hnd : KeysNodup vols) (j : Nat) (b : Bool) (hd : Denotes' vols σ j b) :
    (hasKey (removeEmpty u vols) j → Denotes' (removeEmpty u vols) σ j b) ∧
    (¬ hasKey (removeEmpty u vols) j → b = false) ∧
    (∀ v v', dictGet? vols j = some v → dictGet? (removeEmpty u vols) j = some v' → v'.fictive = v.fictive) ∧
    KeysNodup (removeEmpty u vols) := by
  have inv0 : RInv vols vols σ [] :=
    ⟨fun _ _ _ h => h, fun j b hj ⟨f, hf⟩ => den'_missing hj f b hf, fun r hr => by simp at hr,
      fun j v v' h h' => by rw [h] at h'; cases h'; rfl⟩
  have hpre0 : ∀ k ∈ (vols.filter (·.2.empty)).map (·.1), Pre vols σ k := by
    intro k hk v hv
    rw [List.mem_map] at hk
    obtain ⟨⟨k', v'⟩, hm, rfl⟩ := hk
    obtain ⟨hm1, hm2⟩ := List.mem_filter.mp hm
    have := dictGet?_of_mem hnd hm1
    rw [this] at hv; cases hv
    exact Or.inl (equa_of_empty σ _ hm2)
  obtain ⟨removed', inv, hnd'⟩ := loop_inv u σ hσu vols (vols.length + 2) vols _ [] inv0 hnd hpre0
  exact ⟨fun hj => inv.keep j b hj hd, fun hj => inv.gone j b hj hd, fun v v' h h' => inv.fict j v v' h h', hnd'⟩

/-! ### `remove_unused_volumes` -/

theorem dictGet?_filter {vs : List (Nat × Vol)} (P : Nat × Vol → Bool) (hnd : KeysNodup vs) (j : Nat) :
    dictGet? (vs.filter P) j =
      match dictGet? vs j with
      | some w => if P (j, w) = true then some w else none
      | none => none := by
  induction vs with
  | nil => rfl
  | cons p rest ih =>
    unfold KeysNodup at hnd
    simp only [List.map_cons, List.nodup_cons] at hnd
    have ih' := ih hnd.2
    rw [dictGet?_cons]
    by_cases hp : (p.1 == j) = true
    · have hpj : p.1 = j := by simpa using hp
      have hpe : p = (j, p.2) := by rw [← hpj]
      rw [if_pos hp]
      simp only
      by_cases hP : P p = true
      · rw [List.filter_cons, if_pos hP, dictGet?_cons, if_pos hp]
        rw [← hpe, if_pos hP]
      · have hP' : P p = false := by simpa using hP
        rw [List.filter_cons, if_neg hP, ih']
        have hnone : dictGet? rest j = none := by
          cases hg : dictGet? rest j with
          | none => rfl
          | some w =>
            exfalso
            obtain ⟨q, hq, hqj⟩ := dictGet?_some_hasKey hg
            apply hnd.1
            rw [hpj, ← hqj]
            exact List.mem_map.mpr ⟨q, hq, rfl⟩
        rw [hnone, ← hpe, if_neg hP]
    · rw [if_neg hp]
      by_cases hP : P p = true
      · rw [List.filter_cons, if_pos hP, dictGet?_cons, if_neg hp]; exact ih'
      · rw [List.filter_cons, if_neg hP]; exact ih'

def usedIds (vols : List (Nat × Vol)) : List Nat :=
  vols.flatMap fun q : Nat × Vol => match q.2.ops with | some (_, ids) => ids | none => []

def keepP (vols : List (Nat × Vol)) (p : Nat × Vol) : Bool := !(p.2.fictive && !(usedIds vols).contains p.1)

theorem removeUnused_eq (vols : List (Nat × Vol)) : removeUnused vols = vols.filter (keepP vols) := by
  unfold removeUnused keepP usedIds
  congr 1

theorem mem_of_dictGet? {vs : List (Nat × Vol)} {j : Nat} {w : Vol} (hg : dictGet? vs j = some w) : (j, w) ∈ vs := by
  unfold dictGet? at hg
  cases hf : vs.find? (·.1 == j) with
  | none => simp [hf] at hg
  | some p =>
    simp only [hf, Option.map_some, Option.some.injEq] at hg
    have h1 := List.mem_of_find?_eq_some hf
    have h2 : p.1 = j := by simpa using List.find?_some hf
    rw [← hg, ← h2]; exact h1

theorem mapM_congr_mem {F F' : Nat → Option Bool} : ∀ (ids : List Nat) (bs : List Bool),
    (∀ r ∈ ids, ∀ b, F r = some b → F' r = some b) → ids.mapM F = some bs → ids.mapM F' = some bs
  | [], bs, _, h => by simpa using h
  | a :: as, bs, hop, h => by
      simp only [List.mapM_cons, Option.bind_eq_bind, Option.pure_def] at h ⊢
      cases hfa : F a with
      | none => simp [hfa] at h
      | some ba =>
        simp only [hfa, Option.bind_some] at h
        cases hr : as.mapM F with
        | none => simp [hr] at h
        | some r' =>
          simp only [hr, Option.bind_some, Option.some.injEq] at h
          subst h
          rw [hop a List.mem_cons_self ba hfa]
          have := mapM_congr_mem as r' (fun r hr' => hop r (List.mem_cons_of_mem _ hr')) hr
          simp [this]

/-- `remove_unused_volumes` changes no surviving denotation: every volume it deletes is referenced by
nobody -/
theorem den'_removeUnused (vols : List (Nat × Vol)) (σ : TSense) (hnd : KeysNodup vols) :
    ∀ f j b, hasKey (removeUnused vols) j → den' vols σ f j = some b → den' (removeUnused vols) σ f j = some b := by
  rw [removeUnused_eq]
  have hget := dictGet?_filter (keepP vols) hnd
  intro f
  induction f with
  | zero => intro j b _ h; simp [den'] at h
  | succ f ih =>
    intro j b hj h
    unfold den' at h ⊢
    obtain ⟨w', hw'⟩ := hasKey_of_dictGet?.mp hj
    rw [hget j] at hw' ⊢
    cases hg : dictGet? vols j with
    | none => simp [hg] at hw'
    | some w =>
      simp only [hg] at h hw' ⊢
      by_cases hP : keepP vols (j, w) = true
      · rw [if_pos hP]
        simp only
        cases ho : w.ops with
        | none => simpa [ho] using h
        | some q =>
          obtain ⟨op, ids⟩ := q
          simp only [ho, Option.map_eq_some_iff] at h ⊢
          obtain ⟨bs, hbs, rfl⟩ := h
          refine ⟨bs, mapM_congr_mem ids bs (fun r hr br hbr => ?_) hbs, rfl⟩
          have hused : (usedIds vols).contains r = true := by
            rw [List.contains_iff_mem]
            unfold usedIds
            rw [List.mem_flatMap]
            exact ⟨(j, w), mem_of_dictGet? hg, by simp [ho, hr]⟩
          by_cases hk : hasKey vols r
          · have hk' : hasKey (vols.filter (keepP vols)) r := by
              rw [hasKey_of_dictGet?, hget r]
              obtain ⟨wr, hwr⟩ := hasKey_of_dictGet?.mp hk
              have : keepP vols (r, wr) = true := by
                have hmem : r ∈ usedIds vols := by simpa using hused
                simp [keepP, hmem]
              rw [hwr]; simp only; rw [if_pos this]; exact ⟨wr, rfl⟩
            exact ih r br hk' hbr
          · have hb := den'_missing hk f br hbr
            subst hb
            cases f with
            | zero => simp [den'] at hbr
            | succ f' =>
              unfold den'
              rw [hget r]
              have : dictGet? vols r = none := by
                cases hgr : dictGet? vols r with
                | none => rfl
                | some v => exact absurd (dictGet?_some_hasKey hgr) hk
              simp [this]
      · rw [if_neg hP] at hw'; cases hw'

/-! ### the whole post-processing -/

theorem renumOf_sense (σ : TSense) (surfs : List (Nat × String))
    (hσeq : ∀ a b ka kb, (a, ka) ∈ surfs → (b, kb) ∈ surfs → ka = kb → σ a = σ b) (s : Nat) :
    σ (renumOf (removeDuplicates surfs).2 s) = σ s := by
  unfold renumOf
  cases hf : (removeDuplicates surfs).2.find? (·.1 == s) with
  | none => simp
  | some p =>
    have hm := List.mem_of_find?_eq_some hf
    have hs : p.1 = s := by simpa using List.find?_some hf
    obtain ⟨k, h1, h2, -⟩ := removeDuplicates_sound surfs p.1 p.2 hm
    simp only [Option.map_some, Option.getD_some]
    rw [← hs]
    exact (hσeq p.1 p.2 k k h1 h2 rfl).symm

theorem keysNodup_renumber (ren : List (Nat × Nat)) (vols : List (Nat × Vol)) (h : KeysNodup vols) :
    KeysNodup (renumberVols ren vols) := by
  unfold KeysNodup renumberVols at *
  rw [List.map_map]; exact h

/-- the post-processing on one dictionary (after the optional renumbering): `remove_empty_volumes` then
`remove_unused_volumes` -/
theorem empty_unused_preserves (u : Nat × Nat) (σ : TSense) (hσu : (σ u.1 && !σ u.2) = false)
    (vols : List (Nat × Vol)) (hnd : KeysNodup vols) (k : Nat) (v : Vol) (b : Bool)
    (hk : dictGet? vols k = some v) (hf : v.fictive = false) (hd : Denotes' vols σ k b) :
    match dictGet? (removeUnused (removeEmpty u vols)) k with
    | some _ => Denotes' (removeUnused (removeEmpty u vols)) σ k b
    | none => b = false := by
  obtain ⟨hkeep, hgone, hfict, hnd2⟩ := removeEmpty_preserves u σ hσu vols hnd k b hd
  cases hfin : dictGet? (removeUnused (removeEmpty u vols)) k with
  | some w =>
    simp only
    have hk2 : hasKey (removeEmpty u vols) k := by
      obtain ⟨p, hp, hpk⟩ := dictGet?_some_hasKey hfin
      exact ⟨p, removeUnused_sub _ p hp, hpk⟩
    obtain ⟨f, hfd⟩ := hkeep hk2
    exact ⟨f, den'_removeUnused _ σ hnd2 f k b (dictGet?_some_hasKey hfin) hfd⟩
  | none =>
    simp only
    by_cases hk2 : hasKey (removeEmpty u vols) k
    · exfalso
      obtain ⟨v2, hv2⟩ := hasKey_of_dictGet?.mp hk2
      have hf2 : v2.fictive = false := by rw [hfict v v2 hk hv2]; exact hf
      rw [removeUnused_eq, dictGet?_filter (keepP _) hnd2, hv2] at hfin
      have : keepP (removeEmpty u vols) (k, v2) = true := by simp [keepP, hf2]
      simp [this] at hfin
    · exact hgone hk2

/-- **`postProcess` keeps the denotation of every surviving non-virtual volume and deletes only volumes
that contain no point** — with and without de-duplication, for every sense assignment `σ` at which
surfaces with equal definitions have equal senses and the auxiliary union planes bound nothing.  The
conclusion reads references to deleted volumes as ∅ (`Denotes'`). -/
theorem postProcess_den' (dedup : Bool) (surfs : List (Nat × String)) (u : Nat × Nat) (vols : List (Nat × Vol))
    (σ : TSense) (hnd : KeysNodup vols) (hσu : ¬ (σ u.1 = true ∧ σ u.2 = false))
    (hσeq : ∀ a b ka kb, (a, ka) ∈ surfs → (b, kb) ∈ surfs → ka = kb → σ a = σ b)
    (k : Nat) (v : Vol) (b : Bool) (hk : dictGet? vols k = some v) (hf : v.fictive = false)
    (hd : Denotes vols σ k b) :
    match dictGet? (postProcess dedup surfs u vols).2 k with
    | some _ => Denotes' (postProcess dedup surfs u vols).2 σ k b
    | none => b = false := by
  have hu : ∀ x y : Bool, ¬ (x = true ∧ y = false) → (x && !y) = false := by
    intro x y h; cases x <;> cases y <;> simp_all
  obtain ⟨f, hfd⟩ := hd
  unfold postProcess
  cases dedup with
  | false =>
    simp only [Bool.false_eq_true, if_false]
    exact empty_unused_preserves u σ (hu _ _ hσu) vols hnd k v b hk hf ⟨f, den_imp_den' vols σ f k b hfd⟩
  | true =>
    simp only [if_true]
    have hσ := renumOf_sense σ surfs hσeq
    have hk' : dictGet? (renumberVols (removeDuplicates surfs).2 vols) k = some (renumVol (removeDuplicates surfs).2 v) := by
      unfold renumberVols; rw [dictGet?_map, hk]; rfl
    have hd' : Denotes' (renumberVols (removeDuplicates surfs).2 vols) σ k b :=
      ⟨f, den_imp_den' _ σ f k b (by rw [den_renumber σ _ hσ vols f k]; exact hfd)⟩
    exact empty_unused_preserves _ σ (by rw [hσ, hσ]; exact hu _ _ hσu) _ (keysNodup_renumber _ vols hnd) k _ b hk'
      (by simpa [renumVol] using hf) hd'

end T4V
