import T4V.Model.Keywords
/-!
# The array form of FILL in `parse_keywords` (model): ranges, then one universe per element, then numbers
-/
namespace T4V

theorem kwRun_cons (st : KwState × List Item) (t : String) (ts : List String) :
    kwRun st (t :: ts) = match kwStep st t with | .ok st' => kwRun st' ts | .error e => .error e := rfl

/-- the tokens with a colon that follow the first range are further ranges -/
theorem kwRun_ranges (star : Bool) (acc : List Item) : ∀ (rs rs0 rest : List String),
    (∀ r ∈ rs, contains r ":" = true) →
    kwRun (.fillRng star rs0, acc) (rs ++ rest) = kwRun (.fillRng star (rs0 ++ rs), acc) rest
  | [], rs0, rest, _ => by simp
  | r :: rs, rs0, rest, h => by
      have hr : contains r ":" = true := h r (by simp)
      rw [List.cons_append, kwRun_cons]
      simp only [kwStep, hr, if_true]
      rw [kwRun_ranges star acc rs (rs0 ++ [r]) rest (fun x hx => h x (by simp [hx]))]
      simp [List.append_assoc]

/-- plain numbers are collected as universes until `need` of them have been read -/
theorem kwRun_universes (star : Bool) (rs : List String) (need : Int) (acc : List Item) (rest : List String) :
    ∀ (us us0 : List String), us ≠ [] → (∀ u ∈ us, classifyU u = .num) →
    ((us0.length + us.length : Nat) : Int) = need →
    kwRun (.fillArr star rs need us0, acc) (us ++ rest) = kwRun (.fillArrNums star rs (us0 ++ us) [], acc) rest
  | [], _, h, _, _ => absurd rfl h
  | [u], us0, _, h, hlen => by
      have hu : classifyU u = .num := h u (by simp)
      have hfull : (((us0 ++ [u]).length : Nat) : Int) = need := by
        simp only [List.length_append, List.length_cons, List.length_nil] at hlen ⊢; omega
      have hnlt : ¬ ((((us0 ++ [u]).length : Nat) : Int) < need) := by omega
      rw [List.singleton_append, kwRun_cons]
      simp only [kwStep, arrTok, hu, hfull, (Int.lt_irrefl need), if_false, beq_self_eq_true, if_true]
  | u :: u' :: us, us0, _, h, hlen => by
      have hu : classifyU u = .num := h u (by simp)
      have hlt : (((us0 ++ [u]).length : Nat) : Int) < need := by
        simp only [List.length_append, List.length_cons, List.length_nil] at hlen ⊢; omega
      rw [List.cons_append, kwRun_cons]
      simp only [kwStep, arrTok, hu, hlt, if_true]
      rw [kwRun_universes star rs need acc rest (u' :: us) (us0 ++ [u]) (by simp)
        (fun x hx => h x (by simp [hx]))
        (by simp only [List.length_append, List.length_cons, List.length_nil] at hlen ⊢; omega)]
      simp [List.append_assoc]

/-- numbers after the last universe are the numeric arguments of the keyword -/
theorem kwRun_arrNums (star : Bool) (rs us : List String) (acc : List Item) :
    ∀ (ps ps0 : List String), (∀ p ∈ ps, numericLead p = true) →
    kwRun (.fillArrNums star rs us ps0, acc) ps = .ok (.fillArrNums star rs us (ps0 ++ ps), acc)
  | [], ps0, _ => by simp [kwRun]
  | p :: ps, ps0, h => by
      have hp : numericLead p = true := h p (by simp)
      rw [kwRun_cons]
      simp only [kwStep, arrNums, hp, if_true]
      rw [kwRun_arrNums star rs us acc ps (ps0 ++ [p]) (fun x hx => h x (by simp [hx]))]
      simp [List.append_assoc]

/-- **an array FILL is read as it is written**: index ranges, exactly as many plain numbers as the ranges have
elements, then any numbers — the keyword holds these ranges, these universes in this order, and the numbers as its
transformation arguments -/
theorem array_fill_reads (star : Bool) (kw r : String) (rs us ps : List String) (need : Int) (acc : List Item)
    (hkw : startKeyword kw = .fillFirst star)
    (hr : contains r ":" = true) (hrs : ∀ x ∈ rs, contains x ":" = true)
    (hsz : rangesSize (r :: rs) = .ok need)
    (hus : ∀ u ∈ us, classifyU u = .num ∧ contains u ":" = false)
    (hlen : (us.length : Int) = need) (hpos : 0 < need)
    (hps : ∀ p ∈ ps, numericLead p = true) :
    kwRun (.idle, acc) (kw :: r :: (rs ++ us ++ ps)) = .ok (.fillArrNums star (r :: rs) us ps, acc) := by
  rw [kwRun_cons]
  simp only [kwStep, hkw]
  rw [kwRun_cons]
  simp only [kwStep, hr, if_true]
  rw [List.append_assoc, kwRun_ranges star acc rs [r] (us ++ ps) hrs]
  simp only [List.singleton_append]
  cases us with
  | nil => simp at hlen; omega
  | cons u us' =>
    have hu := hus u (by simp)
    -- the first universe leaves the ranges: the same step as from the (empty) universe list
    have hstep : kwRun (.fillRng star (r :: rs), acc) ((u :: us') ++ ps)
        = kwRun (.fillArr star (r :: rs) need [], acc) ((u :: us') ++ ps) := by
      rw [List.cons_append, kwRun_cons, kwRun_cons]
      have hnc : ¬ (contains u ":" = true) := by simp [hu.2]
      have hnp : ¬ (need ≤ 0) := by omega
      simp only [kwStep, hu.2, Bool.false_eq_true, if_false, hsz, hnp]
    rw [hstep, kwRun_universes star (r :: rs) need acc ps (u :: us') [] (by simp) (fun x hx => (hus x hx).1)
      (by simpa using hlen)]
    simpa using kwRun_arrNums star (r :: rs) (u :: us') acc ps [] hps

/-- fewer plain numbers than elements: the keyword is still waiting -/
theorem kwRun_universes_short (star : Bool) (rs : List String) (need : Int) (acc : List Item) :
    ∀ (us us0 : List String), (∀ u ∈ us, classifyU u = .num) →
    ((us0.length + us.length : Nat) : Int) < need →
    kwRun (.fillArr star rs need us0, acc) us = .ok (.fillArr star rs need (us0 ++ us), acc)
  | [], us0, _, _ => by simp [kwRun]
  | u :: us, us0, h, hlen => by
      have hu : classifyU u = .num := h u (by simp)
      have hlt : (((us0 ++ [u]).length : Nat) : Int) < need := by
        simp only [List.length_append, List.length_cons, List.length_nil] at hlen ⊢; omega
      rw [kwRun_cons]
      simp only [kwStep, arrTok, hu, hlt, if_true]
      rw [kwRun_universes_short star rs need acc us (us0 ++ [u]) (fun x hx => h x (by simp [hx]))
        (by simp only [List.length_append, List.length_cons, List.length_nil] at hlen ⊢; omega)]
      simp [List.append_assoc]

/-- **too few universes**: index ranges followed by fewer plain numbers than the ranges have elements, and then the end
of the options, is an error (`expected … universe specifications after FILL keyword`) -/
theorem array_fill_too_short (star : Bool) (kw r : String) (rs us : List String) (need : Int)
    (hkw : startKeyword kw = .fillFirst star)
    (hr : contains r ":" = true) (hrs : ∀ x ∈ rs, contains x ":" = true)
    (hsz : rangesSize (r :: rs) = .ok need)
    (hus : ∀ u ∈ us, classifyU u = .num ∧ contains u ":" = false)
    (hlen : (us.length : Int) < need) :
    groupTokens (kw :: r :: (rs ++ us)) = .error .arrayCount := by
  unfold groupTokens
  rw [kwRun_cons]
  simp only [kwStep, hkw]
  rw [kwRun_cons]
  simp only [kwStep, hr, if_true]
  rw [kwRun_ranges star [] rs [r] us hrs]
  simp only [List.singleton_append]
  cases us with
  | nil =>
    have hne : ¬ (need = 0) := by simp at hlen; omega
    simp [kwRun, kwFinish, hsz, hne]
  | cons u us' =>
    have hu := hus u (by simp)
    have hpos : ¬ (need ≤ 0) := by
      have : (0 : Int) ≤ ((u :: us').length : Int) := Int.natCast_nonneg _
      omega
    have hstep : kwRun (.fillRng star (r :: rs), []) (u :: us')
        = kwRun (.fillArr star (r :: rs) need [], []) (u :: us') := by
      rw [kwRun_cons, kwRun_cons]
      simp only [kwStep, hu.2, Bool.false_eq_true, if_false, hsz, hpos]
    rw [hstep, kwRun_universes_short star (r :: rs) need [] (u :: us') [] (fun x hx => (hus x hx).1)
      (by simpa using hlen)]
    simp [kwFinish]

end T4V
