import T4V.Model.PotTransform
import T4V.Proofs.Tree
/-!
# `pot_transform` / `cell_transform` keep the Boolean structure (lemmas for properties C04 and C05)

Two points are in play: `q` in the frame of the cell that is moved and its image `p`.  `σ`, `cv` are the senses of
the surfaces and the membership in the cells at `q`; `σ'`, `cv'` the same at `p`.  If every surface created by the
walk has at `p` the sense its source has at `q` (that is what the transformation of a surface card achieves,
property C04), then the tree produced by `pot_transform` holds at `p` exactly when the original tree holds at `q` —
through cell references to any depth, with or without the cache.
-/
namespace T4V

structure Vals where
  σ : SurfVal
  σ' : SurfVal
  cv : Nat → Bool
  cv' : Nat → Bool

def PTMono (a b : PTSt) : Prop :=
  (∀ x ∈ a.newSurfs, x ∈ b.newSurfs) ∧ (∀ x ∈ a.made, x ∈ b.made) ∧ (∀ x ∈ a.cache, x ∈ b.cache)

theorem PTMono.refl (a : PTSt) : PTMono a a := ⟨fun _ h => h, fun _ h => h, fun _ h => h⟩
theorem PTMono.trans {a b c : PTSt} (h1 : PTMono a b) (h2 : PTMono b c) : PTMono a c :=
  ⟨fun x h => h2.1 x (h1.1 x h), fun x h => h2.2.1 x (h1.2.1 x h), fun x h => h2.2.2 x (h1.2.2 x h)⟩

/-- every cache entry was made by a logged `cell_transform` -/
def CacheInMade (st : PTSt) : Prop :=
  ∀ c tr k, ((c, tr), k) ∈ st.cache → ∃ e ∈ st.made, e.cell = c ∧ e.tr = tr ∧ e.new = k

/-- the valuations at the two points agree on what the walk created -/
def Agree (tr : Nat) (st : PTSt) (v : Vals) : Prop :=
  (∀ k n sub, (k, (n, sub, tr)) ∈ st.newSurfs → v.σ' k none = v.σ n sub) ∧
  (∀ e ∈ st.made, e.tr = tr → v.cv' e.new = v.cv e.cell)

theorem Agree.mono {tr : Nat} {a b : PTSt} {v : Vals} (h : PTMono a b) (hb : Agree tr b v) : Agree tr a v :=
  ⟨fun k n sub hk => hb.1 k n sub (h.1 _ hk), fun e he => hb.2 e (h.2.1 _ he)⟩

/-- every logged cell has, at the image point, the value its source has at the original point -/
def MadeSound (tr : Nat) (st : PTSt) (v : Vals) : Prop :=
  ∀ e ∈ st.made, e.tr = tr → e.src.nonzero = true → e.src.complFree = true →
    e.dst.eval v.σ' v.cv' = e.src.eval v.σ v.cv

theorem cached_mem {st : PTSt} {c tr k : Nat} (h : st.cached? c tr = some k) : ((c, tr), k) ∈ st.cache := by
  unfold PTSt.cached? at h
  cases hf : st.cache.find? (·.1 == (c, tr)) with
  | none => simp [hf] at h
  | some x =>
    simp only [hf, Option.map_some, Option.some.injEq] at h
    have h1 := List.mem_of_find?_eq_some hf
    have h2 := List.find?_some hf
    simp only [beq_iff_eq] at h2
    obtain ⟨a, b⟩ := x
    simp only at h h2
    subst h; subst h2
    exact h1

theorem litSurf_fresh (σ σ' : SurfVal) (n : Int) (sub : Option Nat) (k : Nat) (hk : 0 < k) (hn : n ≠ 0)
    (h : σ' k none = σ n.natAbs sub) :
    litSurf σ' (if n ≥ 0 then (k : Int) else -(k : Int)) none = litSurf σ n sub := by
  unfold litSurf
  by_cases hp : n ≥ 0
  · have hpos : n > 0 := by omega
    have hk' : (k : Int) > 0 := by omega
    simp only [hp, if_true, hk', hpos, Int.natAbs_natCast, h]
  · have hneg : ¬ n > 0 := by omega
    have hk' : ¬ (-(k : Int)) > 0 := by omega
    simp only [hp, if_false, hk', hneg, Int.natAbs_neg, Int.natAbs_natCast, h]

def PT1 (tr fuel : Nat) : Prop :=
  ∀ g st g' st', potTransform tr fuel g st = .ok (g', st') → CacheInMade st →
    PTMono st st' ∧ CacheInMade st' ∧ ∀ v, Agree tr st' v → MadeSound tr st v →
      MadeSound tr st' v ∧ (g.nonzero = true → g.complFree = true → g'.eval v.σ' v.cv' = g.eval v.σ v.cv)

def PT2 (tr fuel : Nat) : Prop :=
  ∀ gs st gs' st', potTransformList tr fuel gs st = .ok (gs', st') → CacheInMade st →
    PTMono st st' ∧ CacheInMade st' ∧ ∀ v, Agree tr st' v → MadeSound tr st v →
      MadeSound tr st' v ∧ (Geom.nonzeroList gs = true → Geom.complFreeList gs = true →
        Geom.evalAll v.σ' v.cv' gs' = Geom.evalAll v.σ v.cv gs ∧
        Geom.evalAny v.σ' v.cv' gs' = Geom.evalAny v.σ v.cv gs)

def PT3 (tr fuel : Nat) : Prop :=
  ∀ uc c st k st', cellTransform tr uc fuel c st = .ok (k, st') → CacheInMade st →
    PTMono st st' ∧ CacheInMade st' ∧ (∃ e ∈ st'.made, e.cell = c ∧ e.tr = tr ∧ e.new = k) ∧
      ∀ v, Agree tr st' v → MadeSound tr st v → MadeSound tr st' v

theorem pt1_step (tr f : Nat) (h2 : PT2 tr f) (h3 : PT3 tr f) : PT1 tr (f + 1) := by
  intro g st g' st' h hc
  cases g with
  | surf n sub =>
    simp only [potTransform, Except.ok.injEq, Prod.mk.injEq] at h
    obtain ⟨rfl, rfl⟩ := h
    refine ⟨⟨fun x hx => List.mem_append_left _ hx, fun _ hx => hx, fun _ hx => hx⟩, hc, ?_⟩
    intro v ha hs
    refine ⟨hs, fun hz _ => ?_⟩
    simp only [Geom.nonzero, bne_iff_ne, ne_eq] at hz
    simp only [Geom.eval]
    exact litSurf_fresh v.σ v.σ' n sub (st.nextSurf + 1) (by omega) hz
      (ha.1 _ _ _ (List.mem_append_right _ (List.mem_singleton.mpr rfl)))
  | compl c =>
    simp only [potTransform, Except.ok.injEq, Prod.mk.injEq] at h
    obtain ⟨rfl, rfl⟩ := h
    exact ⟨PTMono.refl _, hc, fun v _ hs => ⟨hs, fun _ hf => by simp [Geom.complFree] at hf⟩⟩
  | cref c =>
    simp only [potTransform] at h
    cases hct : cellTransform tr true f c st with
    | error e => simp [hct] at h
    | ok r =>
      obtain ⟨k, st1⟩ := r
      simp only [hct, Except.ok.injEq, Prod.mk.injEq] at h
      obtain ⟨rfl, rfl⟩ := h
      obtain ⟨hm, hc', ⟨e, he, hec, het, hen⟩, hv⟩ := h3 true c st k st1 hct hc
      refine ⟨hm, hc', fun v ha hs => ⟨hv v ha hs, fun _ _ => ?_⟩⟩
      have := ha.2 e he het
      simp only [Geom.eval, ← hen, ← hec, this]
  | node op args =>
    simp only [potTransform] at h
    cases hl : potTransformList tr f args st with
    | error e => simp [hl] at h
    | ok r =>
      obtain ⟨args', st1⟩ := r
      simp only [hl, Except.ok.injEq, Prod.mk.injEq] at h
      obtain ⟨rfl, rfl⟩ := h
      obtain ⟨hm, hc', hv⟩ := h2 args st args' st1 hl hc
      refine ⟨hm, hc', fun v ha hs => ⟨(hv v ha hs).1, fun hz hf => ?_⟩⟩
      simp only [Geom.nonzero] at hz
      simp only [Geom.complFree] at hf
      obtain ⟨e1, e2⟩ := (hv v ha hs).2 hz hf
      cases op <;> simp only [Geom.eval, e1, e2]

theorem pt2_step (tr f : Nat) (h1 : PT1 tr f) (h2 : PT2 tr f) : PT2 tr (f + 1) := by
  intro gs st gs' st' h hc
  cases gs with
  | nil =>
    simp only [potTransformList, Except.ok.injEq, Prod.mk.injEq] at h
    obtain ⟨rfl, rfl⟩ := h
    exact ⟨PTMono.refl _, hc, fun v _ hs => ⟨hs, fun _ _ => ⟨rfl, rfl⟩⟩⟩
  | cons g gs =>
    simp only [potTransformList] at h
    cases hg : potTransform tr f g st with
    | error e => simp [hg] at h
    | ok r =>
      obtain ⟨g1, st1⟩ := r
      simp only [hg] at h
      cases hl : potTransformList tr f gs st1 with
      | error e => simp [hl] at h
      | ok r2 =>
        obtain ⟨gs1, st2⟩ := r2
        simp only [hl, Except.ok.injEq, Prod.mk.injEq] at h
        obtain ⟨rfl, rfl⟩ := h
        obtain ⟨hm1, hc1, hv1⟩ := h1 g st g1 st1 hg hc
        obtain ⟨hm2, hc2, hv2⟩ := h2 gs st1 gs1 st2 hl hc1
        refine ⟨hm1.trans hm2, hc2, fun v ha hs => ?_⟩
        obtain ⟨hs1, he1⟩ := hv1 v (ha.mono hm2) hs
        obtain ⟨hs2, he2⟩ := hv2 v ha hs1
        refine ⟨hs2, fun hz hf => ?_⟩
        simp only [Geom.nonzeroList, Bool.and_eq_true] at hz
        simp only [Geom.complFreeList, Bool.and_eq_true] at hf
        obtain ⟨ea, eb⟩ := he2 hz.2 hf.2
        simp only [Geom.evalAll, Geom.evalAny, he1 hz.1 hf.1, ea, eb, and_self]

theorem pt3_step (tr f : Nat) (h1 : PT1 tr f) : PT3 tr (f + 1) := by
  intro uc c st k st' h hc
  simp only [cellTransform] at h
  cases hq : (if uc = true then st.cached? c tr else none) with
  | some k0 =>
    simp only [hq, Except.ok.injEq, Prod.mk.injEq] at h
    obtain ⟨rfl, rfl⟩ := h
    have hmem : ((c, tr), k0) ∈ st.cache := by
      cases uc with
      | false => simp at hq
      | true => exact cached_mem (by simpa using hq)
    exact ⟨PTMono.refl _, hc, hc c tr k0 hmem, fun v _ hs => hs⟩
  | none =>
    simp only [hq] at h
    cases ht : st.cell? c with
    | none => simp [ht] at h
    | some t =>
      simp only [ht] at h
      cases hp : potTransform tr f t st with
      | error e => simp [hp] at h
      | ok r =>
        obtain ⟨t', st1⟩ := r
        simp only [hp, Except.ok.injEq, Prod.mk.injEq] at h
        obtain ⟨rfl, rfl⟩ := h
        obtain ⟨hm, hc1, hv⟩ := h1 t st t' st1 hp hc
        have hm' : PTMono st1 (st1.addCell uc c tr t t') := by
          refine ⟨fun _ hx => hx, fun x hx => List.mem_append_left _ hx, fun x hx => ?_⟩
          cases uc with
          | false => exact hx
          | true => exact List.mem_append_left _ hx
        refine ⟨hm.trans hm', ?_, ⟨_, List.mem_append_right _ (List.mem_singleton.mpr rfl), rfl, rfl, rfl⟩, ?_⟩
        · intro c2 tr2 k2 hmem
          have hold : ((c2, tr2), k2) ∈ st1.cache → ∃ e ∈ (st1.addCell uc c tr t t').made,
              e.cell = c2 ∧ e.tr = tr2 ∧ e.new = k2 := by
            intro hin
            obtain ⟨e, he, hh⟩ := hc1 c2 tr2 k2 hin
            exact ⟨e, List.mem_append_left _ he, hh⟩
          cases uc with
          | false => exact hold hmem
          | true =>
            simp only [PTSt.addCell, if_true, List.mem_append, List.mem_singleton, Prod.mk.injEq] at hmem
            rcases hmem with hin | ⟨⟨rfl, rfl⟩, rfl⟩
            · exact hold hin
            · exact ⟨_, List.mem_append_right _ (List.mem_singleton.mpr rfl), rfl, rfl, rfl⟩
        · intro v ha hs e he het hz hf
          obtain ⟨hs1, hev⟩ := hv v (ha.mono hm') hs
          simp only [PTSt.addCell, List.mem_append, List.mem_singleton] at he
          rcases he with he | rfl
          · exact hs1 e he het hz hf
          · exact hev hz hf

theorem pt_all (tr : Nat) : ∀ fuel, PT1 tr fuel ∧ PT2 tr fuel ∧ PT3 tr fuel
  | 0 => ⟨fun _ _ _ _ h => by simp [potTransform] at h, fun _ _ _ _ h => by simp [potTransformList] at h,
          fun _ _ _ _ _ h => by simp [cellTransform] at h⟩
  | f + 1 =>
    have ih := pt_all tr f
    ⟨pt1_step tr f ih.2.1 ih.2.2, pt2_step tr f ih.1 ih.2.1, pt3_step tr f ih.1⟩

/-! ### the log is faithful: every logged cell is in the dictionary, with its source -/

def MadeInCells (st : PTSt) : Prop :=
  ∀ e ∈ st.made, (e.new, e.dst) ∈ st.cells ∧ (e.cell, e.src) ∈ st.cells

theorem cell_mem {st : PTSt} {c : Nat} {t : Geom} (h : st.cell? c = some t) : (c, t) ∈ st.cells := by
  unfold PTSt.cell? at h
  cases hf : st.cells.find? (·.1 == c) with
  | none => simp [hf] at h
  | some x =>
    simp only [hf, Option.map_some, Option.some.injEq] at h
    have h1 := List.mem_of_find?_eq_some hf
    have h2 := List.find?_some hf
    simp only [beq_iff_eq] at h2
    obtain ⟨a, b⟩ := x
    simp only at h h2
    subst h; subst h2
    exact h1

def MC1 (tr fuel : Nat) : Prop :=
  ∀ g st g' st', potTransform tr fuel g st = .ok (g', st') → MadeInCells st →
    MadeInCells st' ∧ ∀ x ∈ st.cells, x ∈ st'.cells
def MC2 (tr fuel : Nat) : Prop :=
  ∀ gs st gs' st', potTransformList tr fuel gs st = .ok (gs', st') → MadeInCells st →
    MadeInCells st' ∧ ∀ x ∈ st.cells, x ∈ st'.cells
def MC3 (tr fuel : Nat) : Prop :=
  ∀ uc c st k st', cellTransform tr uc fuel c st = .ok (k, st') → MadeInCells st →
    MadeInCells st' ∧ ∀ x ∈ st.cells, x ∈ st'.cells

theorem mc_all (tr : Nat) : ∀ fuel, MC1 tr fuel ∧ MC2 tr fuel ∧ MC3 tr fuel
  | 0 => ⟨fun _ _ _ _ h => by simp [potTransform] at h, fun _ _ _ _ h => by simp [potTransformList] at h,
          fun _ _ _ _ _ h => by simp [cellTransform] at h⟩
  | f + 1 => by
    obtain ⟨h1, h2, h3⟩ := mc_all tr f
    refine ⟨?_, ?_, ?_⟩
    · intro g st g' st' h hf
      cases g with
      | surf n sub =>
        simp only [potTransform, Except.ok.injEq, Prod.mk.injEq] at h
        obtain ⟨rfl, rfl⟩ := h
        exact ⟨hf, fun _ hx => hx⟩
      | compl c =>
        simp only [potTransform, Except.ok.injEq, Prod.mk.injEq] at h
        obtain ⟨rfl, rfl⟩ := h
        exact ⟨hf, fun _ hx => hx⟩
      | cref c =>
        simp only [potTransform] at h
        cases hct : cellTransform tr true f c st with
        | error e => simp [hct] at h
        | ok r =>
          obtain ⟨k, st1⟩ := r
          simp only [hct, Except.ok.injEq, Prod.mk.injEq] at h
          obtain ⟨rfl, rfl⟩ := h
          exact h3 true c st k st1 hct hf
      | node op args =>
        simp only [potTransform] at h
        cases hl : potTransformList tr f args st with
        | error e => simp [hl] at h
        | ok r =>
          obtain ⟨args', st1⟩ := r
          simp only [hl, Except.ok.injEq, Prod.mk.injEq] at h
          obtain ⟨rfl, rfl⟩ := h
          exact h2 args st args' st1 hl hf
    · intro gs st gs' st' h hf
      cases gs with
      | nil =>
        simp only [potTransformList, Except.ok.injEq, Prod.mk.injEq] at h
        obtain ⟨rfl, rfl⟩ := h
        exact ⟨hf, fun _ hx => hx⟩
      | cons g gs =>
        simp only [potTransformList] at h
        cases hg : potTransform tr f g st with
        | error e => simp [hg] at h
        | ok r =>
          obtain ⟨g1, st1⟩ := r
          simp only [hg] at h
          cases hl : potTransformList tr f gs st1 with
          | error e => simp [hl] at h
          | ok r2 =>
            obtain ⟨gs1, st2⟩ := r2
            simp only [hl, Except.ok.injEq, Prod.mk.injEq] at h
            obtain ⟨rfl, rfl⟩ := h
            obtain ⟨f1, a1⟩ := h1 g st g1 st1 hg hf
            obtain ⟨f2, a2⟩ := h2 gs st1 gs1 st2 hl f1
            exact ⟨f2, fun x hx => a2 x (a1 x hx)⟩
    · intro uc c st k st' h hf
      simp only [cellTransform] at h
      cases hq : (if uc = true then st.cached? c tr else none) with
      | some k0 =>
        simp only [hq, Except.ok.injEq, Prod.mk.injEq] at h
        obtain ⟨rfl, rfl⟩ := h
        exact ⟨hf, fun _ hx => hx⟩
      | none =>
        simp only [hq] at h
        cases ht : st.cell? c with
        | none => simp [ht] at h
        | some t =>
          simp only [ht] at h
          cases hp : potTransform tr f t st with
          | error e => simp [hp] at h
          | ok r =>
            obtain ⟨t', st1⟩ := r
            simp only [hp, Except.ok.injEq, Prod.mk.injEq] at h
            obtain ⟨rfl, rfl⟩ := h
            obtain ⟨f1, a1⟩ := h1 t st t' st1 hp hf
            refine ⟨?_, fun x hx => ?_⟩
            · intro e he
              simp only [PTSt.addCell, List.mem_append, List.mem_singleton] at he ⊢
              rcases he with he | rfl
              · exact ⟨Or.inl (f1 e he).1, Or.inl (f1 e he).2⟩
              · exact ⟨Or.inr rfl, Or.inl (a1 _ (cell_mem ht))⟩
            · simp only [PTSt.addCell, List.mem_append]
              exact Or.inl (a1 x hx)

/-! ### fresh numbers: no new surface or cell number is used twice -/

/-- the numbers handed out so far are pairwise different and below the counters -/
def Fresh (st : PTSt) : Prop :=
  (∀ x ∈ st.newSurfs, x.1 ≤ st.nextSurf) ∧ (st.newSurfs.map (·.1)).Nodup ∧
  (∀ e ∈ st.made, e.new ≤ st.nextCell) ∧ (st.made.map (·.new)).Nodup

theorem nodup_append_fresh {l : List Nat} {n : Nat} (hl : l.Nodup) (hb : ∀ x ∈ l, x ≤ n) : (l ++ [n + 1]).Nodup := by
  rw [List.nodup_append]
  refine ⟨hl, by simp, ?_⟩
  intro a ha b hb'
  simp only [List.mem_singleton] at hb'
  have := hb a ha
  omega

def FR1 (tr fuel : Nat) : Prop :=
  ∀ g st g' st', potTransform tr fuel g st = .ok (g', st') → Fresh st →
    Fresh st' ∧ st.nextSurf ≤ st'.nextSurf ∧ st.nextCell ≤ st'.nextCell
def FR2 (tr fuel : Nat) : Prop :=
  ∀ gs st gs' st', potTransformList tr fuel gs st = .ok (gs', st') → Fresh st →
    Fresh st' ∧ st.nextSurf ≤ st'.nextSurf ∧ st.nextCell ≤ st'.nextCell
def FR3 (tr fuel : Nat) : Prop :=
  ∀ uc c st k st', cellTransform tr uc fuel c st = .ok (k, st') → Fresh st →
    Fresh st' ∧ st.nextSurf ≤ st'.nextSurf ∧ st.nextCell ≤ st'.nextCell

theorem fr_all (tr : Nat) : ∀ fuel, FR1 tr fuel ∧ FR2 tr fuel ∧ FR3 tr fuel
  | 0 => ⟨fun _ _ _ _ h => by simp [potTransform] at h, fun _ _ _ _ h => by simp [potTransformList] at h,
          fun _ _ _ _ _ h => by simp [cellTransform] at h⟩
  | f + 1 => by
    obtain ⟨h1, h2, h3⟩ := fr_all tr f
    refine ⟨?_, ?_, ?_⟩
    · intro g st g' st' h hf
      cases g with
      | surf n sub =>
        simp only [potTransform, Except.ok.injEq, Prod.mk.injEq] at h
        obtain ⟨rfl, rfl⟩ := h
        obtain ⟨a, b, c, d⟩ := hf
        refine ⟨⟨?_, ?_, c, d⟩, by simp, Nat.le_refl _⟩
        · intro x hx
          simp only [List.mem_append, List.mem_singleton] at hx
          rcases hx with hx | rfl
          · have := a x hx; simp only; omega
          · simp
        · simp only [List.map_append, List.map_cons, List.map_nil]
          exact nodup_append_fresh b (by
            intro x hx
            obtain ⟨y, hy, rfl⟩ := List.mem_map.mp hx
            exact a y hy)
      | compl c =>
        simp only [potTransform, Except.ok.injEq, Prod.mk.injEq] at h
        obtain ⟨rfl, rfl⟩ := h
        exact ⟨hf, Nat.le_refl _, Nat.le_refl _⟩
      | cref c =>
        simp only [potTransform] at h
        cases hct : cellTransform tr true f c st with
        | error e => simp [hct] at h
        | ok r =>
          obtain ⟨k, st1⟩ := r
          simp only [hct, Except.ok.injEq, Prod.mk.injEq] at h
          obtain ⟨rfl, rfl⟩ := h
          exact h3 true c st k st1 hct hf
      | node op args =>
        simp only [potTransform] at h
        cases hl : potTransformList tr f args st with
        | error e => simp [hl] at h
        | ok r =>
          obtain ⟨args', st1⟩ := r
          simp only [hl, Except.ok.injEq, Prod.mk.injEq] at h
          obtain ⟨rfl, rfl⟩ := h
          exact h2 args st args' st1 hl hf
    · intro gs st gs' st' h hf
      cases gs with
      | nil =>
        simp only [potTransformList, Except.ok.injEq, Prod.mk.injEq] at h
        obtain ⟨rfl, rfl⟩ := h
        exact ⟨hf, Nat.le_refl _, Nat.le_refl _⟩
      | cons g gs =>
        simp only [potTransformList] at h
        cases hg : potTransform tr f g st with
        | error e => simp [hg] at h
        | ok r =>
          obtain ⟨g1, st1⟩ := r
          simp only [hg] at h
          cases hl : potTransformList tr f gs st1 with
          | error e => simp [hl] at h
          | ok r2 =>
            obtain ⟨gs1, st2⟩ := r2
            simp only [hl, Except.ok.injEq, Prod.mk.injEq] at h
            obtain ⟨rfl, rfl⟩ := h
            obtain ⟨f1, a1, b1⟩ := h1 g st g1 st1 hg hf
            obtain ⟨f2, a2, b2⟩ := h2 gs st1 gs1 st2 hl f1
            exact ⟨f2, by omega, by omega⟩
    · intro uc c st k st' h hf
      simp only [cellTransform] at h
      cases hq : (if uc = true then st.cached? c tr else none) with
      | some k0 =>
        simp only [hq, Except.ok.injEq, Prod.mk.injEq] at h
        obtain ⟨rfl, rfl⟩ := h
        exact ⟨hf, Nat.le_refl _, Nat.le_refl _⟩
      | none =>
        simp only [hq] at h
        cases ht : st.cell? c with
        | none => simp [ht] at h
        | some t =>
          simp only [ht] at h
          cases hp : potTransform tr f t st with
          | error e => simp [hp] at h
          | ok r =>
            obtain ⟨t', st1⟩ := r
            simp only [hp, Except.ok.injEq, Prod.mk.injEq] at h
            obtain ⟨rfl, rfl⟩ := h
            obtain ⟨⟨a, b, c', d⟩, a1, b1⟩ := h1 t st t' st1 hp hf
            refine ⟨⟨a, b, ?_, ?_⟩, a1, by simp only [PTSt.addCell]; omega⟩
            · intro e he
              simp only [PTSt.addCell, List.mem_append, List.mem_singleton] at he
              rcases he with he | rfl
              · have := c' e he; simp only [PTSt.addCell]; omega
              · simp [PTSt.addCell]
            · simp only [PTSt.addCell, List.map_append, List.map_cons, List.map_nil]
              exact nodup_append_fresh d (by
                intro x hx
                obtain ⟨y, hy, rfl⟩ := List.mem_map.mp hx
                exact c' y hy)

end T4V
