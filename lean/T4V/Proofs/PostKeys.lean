import T4V.Proofs.PostClosed
/-!
# Post-processing never creates a key: the keys of the post-processed dictionary are keys of the input
-/
namespace T4V

theorem hasKey_filter {vs : List (Nat × Vol)} (P : Nat × Vol → Bool) {j : Nat} (h : hasKey (vs.filter P) j) :
    hasKey vs j := by
  obtain ⟨p, hp, hk⟩ := h
  exact ⟨p, (List.mem_filter.mp hp).1, hk⟩

theorem roundStep_keys (u : Nat × Nat) (acc : List (Nat × Vol) × List Nat) (k j : Nat)
    (h : hasKey (roundStep u acc k).1 j) : hasKey acc.1 j := by
  cases hg : dictGet? acc.1 k with
  | none => simpa [roundStep, hg] using h
  | some v =>
    rw [roundStep_eq u acc k v hg] at h
    split at h
    · exact (hasKey_updAt hg).mp h
    · exact (hasKey_delKey.mp h).2

theorem round_keys (u : Nat × Nat) : ∀ (q : List Nat) (acc : List (Nat × Vol) × List Nat) (j : Nat),
    hasKey (q.foldl (roundStep u) acc).1 j → hasKey acc.1 j
  | [], _, _, h => h
  | k :: q, acc, j, h => roundStep_keys u acc k j (round_keys u q (roundStep u acc k) j h)

theorem loop_keys (u : Nat × Nat) : ∀ (fuel : Nat) (vs : List (Nat × Vol)) (queue removed : List Nat) (j : Nat),
    hasKey (removeEmpty.loop u fuel vs queue removed) j → hasKey vs j
  | 0, vs, _, _, j, h => by simpa [removeEmpty.loop] using h
  | fuel + 1, vs, queue, removed, j, h => by
      unfold removeEmpty.loop at h
      by_cases hq : queue.isEmpty = true
      · simpa [hq] using h
      · simp only [hq, Bool.false_eq_true, if_false] at h
        rw [removeEmptyRound_eq] at h
        have h1 := loop_keys u fuel _ _ _ j h
        rw [afterRound_fst, hasKey_map_snd] at h1
        exact round_keys u queue (vs, []) j h1

theorem removeEmpty_keys (u : Nat × Nat) (vols : List (Nat × Vol)) (j : Nat) (h : hasKey (removeEmpty u vols) j) :
    hasKey vols j := loop_keys u _ _ _ _ j h

/-- the keys of the post-processed dictionary are keys of the dictionary that went in -/
theorem postProcess_keys_subset (dedup : Bool) (surfs : List (Nat × String)) (u : Nat × Nat)
    (vols : List (Nat × Vol)) (j : Nat) (h : hasKey (postProcess dedup surfs u vols).2 j) : hasKey vols j := by
  unfold postProcess at h
  cases dedup with
  | false =>
    simp only [Bool.false_eq_true, if_false] at h
    exact removeEmpty_keys u vols j (hasKey_filter _ h)
  | true =>
    simp only [if_true] at h
    have h1 := removeEmpty_keys _ _ j (hasKey_filter _ h)
    unfold renumberVols at h1
    exact (hasKey_map_snd _).mp h1

end T4V
