import T4V.Text.OptTokens
/-!
# Letter case is immaterial to the keyword tokens of a cell card (lemmas for property C14)
-/
namespace T4V.CC

theorem toNat_ofNat_small (n : Nat) (h : n < 0xd800) : (Char.ofNat n).toNat = n := by
  have hv : n.isValidChar := Or.inl h
  simp [Char.ofNat, hv, Char.ofNatAux, Char.toNat, UInt32.toNat_ofNatLT]

/-- lower-casing changes capital letters only, into small letters -/
theorem lower_cases (c : Char) : lower c = c ∨ (97 ≤ (lower c).toNat ∧ (lower c).toNat ≤ 122 ∧ 65 ≤ c.toNat ∧ c.toNat ≤ 90) := by
  unfold lower
  by_cases h : ('A' ≤ c && c ≤ 'Z') = true
  · right
    simp only [h, if_true]
    simp only [Bool.and_eq_true, decide_eq_true_eq] at h
    have h1 : 65 ≤ c.toNat := h.1
    have h2 : c.toNat ≤ 90 := h.2
    rw [toNat_ofNat_small _ (by omega)]
    omega
  · left; simp [h]

theorem lower_eq_iff_of_nonletter (c t : Char) (ht : t.toNat < 65) : lower c = t ↔ c = t := by
  constructor
  · intro h
    rcases lower_cases c with e | ⟨h1, _, _, _⟩
    · rw [e] at h; exact h
    · rw [h] at h1; omega
  · rintro rfl
    rcases lower_cases c with e | ⟨_, _, h3, _⟩
    · exact e
    · omega

theorem lower_space (c : Char) : (lower c == ' ') = (c == ' ') := by
  have := lower_eq_iff_of_nonletter c ' ' (by decide)
  by_cases h : c = ' '
  · have h2 := this.mpr h
    rw [beq_iff_eq.mpr h2, beq_iff_eq.mpr h]
  · have h2 : lower c ≠ ' ' := fun hh => h (this.mp hh)
    rw [beq_eq_false_iff_ne.mpr h2, beq_eq_false_iff_ne.mpr h]

theorem lower_colon (c : Char) : (lower c == ':') = (c == ':') := by
  have := lower_eq_iff_of_nonletter c ':' (by decide)
  by_cases h : c = ':'
  · have h2 := this.mpr h
    rw [beq_iff_eq.mpr h2, beq_iff_eq.mpr h]
  · have h2 : lower c ≠ ':' := fun hh => h (this.mp hh)
    rw [beq_eq_false_iff_ne.mpr h2, beq_eq_false_iff_ne.mpr h]

theorem dropSp_map_lower : ∀ (s : List Char) (b : Bool),
    dropSpAfterColon b (s.map lower) = (dropSpAfterColon b s).map lower
  | [], _ => rfl
  | c :: r, b => by
    simp only [List.map_cons, dropSpAfterColon, lower_space, lower_colon]
    split
    · exact dropSp_map_lower r true
    · simp only [List.map_cons]; rw [dropSp_map_lower r (c == ':')]

theorem colonSquash_map_lower (s : List Char) : colonSquash (s.map lower) = (colonSquash s).map lower := by
  unfold colonSquash
  rw [dropSp_map_lower, ← List.map_reverse, dropSp_map_lower, List.map_reverse]

theorem lower_idem (c : Char) : lower (lower c) = lower c := by
  rcases lower_cases c with e | ⟨h1, h2, _, _⟩
  · rw [e, e]
  · rcases lower_cases (lower c) with e | ⟨_, _, h3, h4⟩
    · exact e
    · omega

/-- **letter case is immaterial**: two option texts that differ only in the case of their letters give the same
keyword tokens (`IMP:N=1`, `Imp:n=1` and `imp:n=1`; `*FILL`, `TRCL`, `U`, `LAT`, `MAT`, `RHO` alike) -/
theorem optTokens_case_insensitive (s s' : List Char) (h : s.map lower = s'.map lower) : optTokens s = optTokens s' := by
  unfold optTokens
  have e : ∀ t : List Char, (colonSquash t).map (fun c => punctToBlank (lower c))
      = (colonSquash (t.map lower)).map punctToBlank := by
    intro t
    rw [colonSquash_map_lower, List.map_map]
    rfl
  rw [e s, e s', h]

end T4V.CC

namespace T4V.CC

/-- words joined by single blanks -/
def joinSp : List (List Char) → List Char
  | [] => []
  | [w] => w
  | w :: r => w ++ ' ' :: joinSp r

theorem foldr_word (w : List Char) (hw : ∀ c ∈ w, cws c = false) (st : List Char × List (List Char)) :
    w.foldr splitStep st = (w ++ st.1, st.2) := by
  induction w with
  | nil => rfl
  | cons c r ih =>
    have hc := hw c List.mem_cons_self
    rw [List.foldr_cons, ih (fun x hx => hw x (List.mem_cons_of_mem _ hx))]
    simp [splitStep, hc]

theorem foldr_join : ∀ (w : List Char) (ws : List (List Char)),
    (∀ x ∈ w :: ws, x ≠ [] ∧ ∀ c ∈ x, cws c = false) →
    (joinSp (w :: ws)).foldr splitStep ([], []) = (w, ws)
  | w, [], h => by
    have := foldr_word w (h w List.mem_cons_self).2 ([], [])
    simpa [joinSp] using this
  | w, w2 :: r, h => by
    have ih := foldr_join w2 r (fun x hx => h x (List.mem_cons_of_mem _ hx))
    have hw2 : w2.isEmpty = false := by
      have := (h w2 (by simp)).1
      cases w2 with
      | nil => exact absurd rfl this
      | cons _ _ => rfl
    show (w ++ ' ' :: joinSp (w2 :: r)).foldr splitStep ([], []) = (w, w2 :: r)
    rw [List.foldr_append, List.foldr_cons, ih, foldr_word w (h w List.mem_cons_self).2]
    simp [splitStep, space_ws, hw2]
  where space_ws : cws ' ' = true := by decide

/-- **`str.split()` gives back the words**: any list of non-empty words without blanks, joined by single blanks -/
theorem splitWs_join (words : List (List Char)) (h : ∀ x ∈ words, x ≠ [] ∧ ∀ c ∈ x, cws c = false) :
    splitWs (joinSp words) = words := by
  cases words with
  | nil => rfl
  | cons w ws =>
    unfold splitWs finalize
    rw [foldr_join w ws h]
    have : w.isEmpty = false := by
      have := (h w List.mem_cons_self).1
      cases w with
      | nil => exact absurd rfl this
      | cons _ _ => rfl
    simp [this]

end T4V.CC

namespace T4V.CC

/-! ### `apply_but`: the options of cell n, a blank, the BUT options — tokens of the whole = tokens of the parts -/

theorem foldr_acc (x : List Char) (acc : List (List Char)) :
    x.foldr splitStep ([], acc) = ((x.foldr splitStep ([], [])).1, (x.foldr splitStep ([], [])).2 ++ acc) := by
  induction x with
  | nil => rfl
  | cons c r ih =>
    rw [List.foldr_cons, List.foldr_cons, ih]
    generalize List.foldr splitStep ([], []) r = st
    obtain ⟨cur, done⟩ := st
    simp only [splitStep]
    by_cases hc : cws c = true <;> by_cases he : cur.isEmpty = true <;> simp [hc, he]

theorem splitWs_append_blank (x y : List Char) : splitWs (x ++ ' ' :: y) = splitWs x ++ splitWs y := by
  have hy : (' ' :: y).foldr splitStep ([], []) = ([], splitWs y) := by
    rw [List.foldr_cons]
    unfold splitWs finalize
    generalize List.foldr splitStep ([], []) y = st
    obtain ⟨cur, done⟩ := st
    simp only [splitStep, show cws ' ' = true by decide, if_true]
    by_cases he : cur.isEmpty = true <;> simp [he]
  have hx : splitWs (x ++ ' ' :: y) = finalize (x.foldr splitStep ([], splitWs y)) := by
    show finalize ((x ++ ' ' :: y).foldr splitStep ([], [])) = _
    rw [List.foldr_append, hy]
  rw [hx, foldr_acc]
  unfold splitWs finalize
  generalize List.foldr splitStep ([], []) x = st
  obtain ⟨cur, done⟩ := st
  by_cases he : cur.isEmpty = true <;> simp [he]

theorem dropSp_cons (b : Bool) (c : Char) (r : List Char) :
    dropSpAfterColon b (c :: r)
      = if (b && c == ' ') = true then dropSpAfterColon true r else c :: dropSpAfterColon (c == ':') r := by
  rw [dropSpAfterColon]

theorem dropSp_append (a b : List Char) (b0 : Bool) (hne : a ≠ [])
    (hlast : ∀ c, a.getLast? = some c → c ≠ ':' ∧ c ≠ ' ') :
    dropSpAfterColon b0 (a ++ ' ' :: b) = dropSpAfterColon b0 a ++ ' ' :: dropSpAfterColon false b := by
  induction a generalizing b0 with
  | nil => exact absurd rfl hne
  | cons c r ih =>
    cases r with
    | nil =>
      have hc := hlast c rfl
      have h1 : (c == ' ') = false := by simp [hc.2]
      have h2 : (c == ':') = false := by simp [hc.1]
      rw [List.cons_append, List.nil_append, dropSp_cons, dropSp_cons b0 c [], dropSp_cons (c == ':') ' ' b]
      simp [h1, h2, dropSpAfterColon]
    | cons d r' =>
      have hl : ∀ x, (d :: r').getLast? = some x → x ≠ ':' ∧ x ≠ ' ' := by
        intro x hx
        exact hlast x (by simpa [List.getLast?_cons_cons] using hx)
      rw [List.cons_append, dropSp_cons, dropSp_cons b0 c (d :: r')]
      split
      · exact ih true (by simp) hl
      · rw [ih (c == ':') (by simp) hl]; rfl

end T4V.CC

namespace T4V.CC

theorem dropSp_head (c : Char) (r : List Char) : (dropSpAfterColon false (c :: r)).head? = some c := by
  rw [dropSp_cons]; simp

theorem colonSquash_append (a b : List Char) (ha : a ≠ []) (hb : b ≠ [])
    (hlast : ∀ c, a.getLast? = some c → c ≠ ':' ∧ c ≠ ' ')
    (hfirst : ∀ c, b.head? = some c → c ≠ ':' ∧ c ≠ ' ') :
    colonSquash (a ++ ' ' :: b) = colonSquash a ++ ' ' :: colonSquash b := by
  unfold colonSquash
  rw [dropSp_append a b false ha hlast]
  obtain ⟨c, r, rfl⟩ := List.exists_cons_of_ne_nil hb
  have hD : (dropSpAfterColon false (c :: r)).head? = some c := dropSp_head c r
  have hne : (dropSpAfterColon false (c :: r)).reverse ≠ [] := by
    intro h
    have := congrArg List.reverse h
    simp only [List.reverse_reverse, List.reverse_nil] at this
    rw [this] at hD; simp at hD
  have hl : ∀ x, (dropSpAfterColon false (c :: r)).reverse.getLast? = some x → x ≠ ':' ∧ x ≠ ' ' := by
    intro x hx
    rw [List.getLast?_reverse, hD] at hx
    have hx' : c = x := Option.some.inj hx
    subst hx'
    exact hfirst c rfl
  rw [List.reverse_append, List.reverse_cons, List.append_assoc, List.singleton_append,
    dropSp_append _ _ false hne hl, List.reverse_append, List.reverse_cons, List.append_assoc, List.singleton_append]

theorem lower_space_eq : lower ' ' = ' ' := by decide

/-- **`LIKE n BUT`: the tokens of "options of cell n, blank, BUT options" are the tokens of the one followed by the
tokens of the other** — `apply_but` on the text is `applyBut` on the tokens.  (Neither part is empty, the first does
not end and the second does not begin with a colon or a blank.) -/
theorem optTokens_append (a b : List Char) (ha : a ≠ []) (hb : b ≠ [])
    (hlast : ∀ c, a.getLast? = some c → c ≠ ':' ∧ c ≠ ' ')
    (hfirst : ∀ c, b.head? = some c → c ≠ ':' ∧ c ≠ ' ') :
    optTokens (a ++ ' ' :: b) = optTokens a ++ optTokens b := by
  unfold optTokens
  rw [colonSquash_append a b ha hb hlast hfirst, List.map_append, List.map_cons]
  have : punctToBlank (lower ' ') = ' ' := by rw [lower_space_eq]; decide
  rw [this]
  exact splitWs_append_blank _ _

end T4V.CC
