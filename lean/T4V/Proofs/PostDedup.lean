import T4V.Proofs.Post
import Mathlib.Data.List.Nodup
/-!
# More about `remove_duplicate_surfaces`: every surface gets a representative, survivors are pairwise different
-/
namespace T4V

structure DedupInv2 (proc : List (Nat × String)) (acc : List (String × Nat) × List Nat × List (Nat × Nat)) : Prop where
  cover : ∀ a k, (a, k) ∈ proc → ∃ b, (a, b) ∈ acc.2.2
  keptSeen : ∀ b ∈ acc.2.1, ∃ k, (k, b) ∈ acc.1
  keysNodup : (acc.1.map (·.1)).Nodup

theorem dedupStep_inv2 (proc : List (Nat × String)) (acc) (p : Nat × String) (h : DedupInv2 proc acc) :
    DedupInv2 (proc ++ [p]) (dedupStep acc p) := by
  obtain ⟨hc, hk, hn⟩ := h
  unfold dedupStep
  cases hf : acc.1.find? (·.1 == p.2) with
  | some q =>
    obtain ⟨k', b'⟩ := q
    refine ⟨?_, hk, hn⟩
    intro a k hak
    simp only [List.mem_append, List.mem_singleton] at hak
    rcases hak with hak | rfl
    · obtain ⟨b, hb⟩ := hc a k hak
      exact ⟨b, List.mem_append_left _ hb⟩
    · exact ⟨b', by simp⟩
  | none =>
    refine ⟨?_, ?_, ?_⟩
    · intro a k hak
      simp only [List.mem_append, List.mem_singleton] at hak
      rcases hak with hak | rfl
      · obtain ⟨b, hb⟩ := hc a k hak
        exact ⟨b, List.mem_append_left _ hb⟩
      · exact ⟨a, by simp⟩
    · intro b hb
      simp only [List.mem_append, List.mem_singleton] at hb
      rcases hb with hb | rfl
      · obtain ⟨k, hkb⟩ := hk b hb
        exact ⟨k, List.mem_append_left _ hkb⟩
      · exact ⟨p.2, by simp⟩
    · simp only [List.map_append, List.map_cons, List.map_nil]
      rw [List.nodup_append]
      refine ⟨hn, by simp, ?_⟩
      intro x hx y hy
      simp only [List.mem_singleton] at hy
      subst hy
      intro hxy
      subst hxy
      obtain ⟨e, he, hee⟩ := List.mem_map.mp hx
      rw [List.find?_eq_none] at hf
      exact absurd (by simp [hee]) (hf e he)

theorem dedupFold_inv2 : ∀ (l proc : List (Nat × String)) (acc), DedupInv2 proc acc →
    DedupInv2 (proc ++ l) (l.foldl dedupStep acc)
  | [], proc, acc, h => by simpa using h
  | p :: l, proc, acc, h => by
      have := dedupFold_inv2 l (proc ++ [p]) (dedupStep acc p) (dedupStep_inv2 proc acc p h)
      simpa using this

/-- every surface of the table is renumbered to some representative -/
theorem removeDuplicates_total (surfs : List (Nat × String)) (a : Nat) (k : String) (h : (a, k) ∈ surfs) :
    ∃ b, (a, b) ∈ (removeDuplicates surfs).2 := by
  unfold removeDuplicates
  have inv := dedupFold_inv2 (surfs.mergeSort (fun a b => a.1 ≤ b.1)) [] ([], [], [])
    ⟨fun a k h => by simp at h, fun b h => by simp at h, by simp⟩
  simp only [List.nil_append] at inv
  exact inv.cover a k (List.mem_mergeSort.mpr h)

/-- **no two surviving surfaces have the same definition** (surface numbers of the table being distinct) -/
theorem removeDuplicates_survivors_distinct (surfs : List (Nat × String)) (hnd : (surfs.map (·.1)).Nodup)
    (b1 b2 : Nat) (k : String) (h1 : b1 ∈ (removeDuplicates surfs).1) (h2 : b2 ∈ (removeDuplicates surfs).1)
    (d1 : (b1, k) ∈ surfs) (d2 : (b2, k) ∈ surfs) : b1 = b2 := by
  unfold removeDuplicates at h1 h2
  simp only at h1 h2
  have inv1 := dedupFold_inv (surfs.mergeSort (fun a b => a.1 ≤ b.1)) [] ([], [], [])
    ⟨fun k b h => by simp at h, fun a b h => by simp at h⟩
  have inv2 := dedupFold_inv2 (surfs.mergeSort (fun a b => a.1 ≤ b.1)) [] ([], [], [])
    ⟨fun a k h => by simp at h, fun b h => by simp at h, by simp⟩
  simp only [List.nil_append] at inv1 inv2
  obtain ⟨k1, s1⟩ := inv2.keptSeen b1 h1
  obtain ⟨k2, s2⟩ := inv2.keptSeen b2 h2
  have p1 := List.mem_mergeSort.mp (inv1.seen k1 b1 s1).1
  have p2 := List.mem_mergeSort.mp (inv1.seen k2 b2 s2).1
  -- distinct numbers: a number has one definition
  have uniq : ∀ (a : Nat) (x y : String), (a, x) ∈ surfs → (a, y) ∈ surfs → x = y := by
    intro a x y hx hy
    have := List.inj_on_of_nodup_map hnd hx hy rfl
    exact (Prod.mk.injEq _ _ _ _ ▸ this).2
  have e1 : k1 = k := uniq b1 k1 k p1 d1
  have e2 : k2 = k := uniq b2 k2 k p2 d2
  rw [e1] at s1
  rw [e2] at s2
  -- one entry per definition in the table of definitions seen
  have := inv2.keysNodup
  have key : ∀ (l : List (String × Nat)), (l.map (·.1)).Nodup → ∀ x y, (k, x) ∈ l → (k, y) ∈ l → x = y := by
    intro l hl x y hx hy
    have := List.inj_on_of_nodup_map hl hx hy rfl
    exact (Prod.mk.injEq _ _ _ _ ▸ this).2
  exact key _ this b1 b2 s1 s2

end T4V

namespace T4V

theorem dedupFold_lowest : ∀ (l : List (Nat × String)) (acc : List (String × Nat) × List Nat × List (Nat × Nat)),
    l.Pairwise (fun x y => x.1 ≤ y.1) →
    (∀ k b, (k, b) ∈ acc.1 → ∀ p ∈ l, b ≤ p.1) → (∀ a b, (a, b) ∈ acc.2.2 → b ≤ a) →
    ∀ a b, (a, b) ∈ (l.foldl dedupStep acc).2.2 → b ≤ a
  | [], acc, _, _, hr => by simpa using hr
  | p :: l, acc, hp, hs, hr => by
    rw [List.pairwise_cons] at hp
    rw [List.foldl_cons]
    apply dedupFold_lowest l (dedupStep acc p) hp.2
    · intro k b hkb q hq
      unfold dedupStep at hkb
      cases hf : acc.1.find? (·.1 == p.2) with
      | some e =>
        simp only [hf] at hkb
        exact hs k b hkb q (List.mem_cons_of_mem _ hq)
      | none =>
        simp only [hf, List.mem_append, List.mem_singleton, Prod.mk.injEq] at hkb
        rcases hkb with hkb | ⟨rfl, rfl⟩
        · exact hs k b hkb q (List.mem_cons_of_mem _ hq)
        · exact hp.1 q hq
    · intro a b hab
      unfold dedupStep at hab
      cases hf : acc.1.find? (·.1 == p.2) with
      | some e =>
        obtain ⟨k', b'⟩ := e
        simp only [hf, List.mem_append, List.mem_singleton, Prod.mk.injEq] at hab
        rcases hab with hab | ⟨rfl, rfl⟩
        · exact hr a b hab
        · exact hs k' b (List.mem_of_find?_eq_some hf) p List.mem_cons_self
      | none =>
        simp only [hf, List.mem_append, List.mem_singleton, Prod.mk.injEq] at hab
        rcases hab with hab | ⟨rfl, rfl⟩
        · exact hr a b hab
        · exact Nat.le_refl _

/-- **the lowest number of a group of identical surfaces is the one that survives** -/
theorem removeDuplicates_lowest (surfs : List (Nat × String)) (a b : Nat)
    (h : (a, b) ∈ (removeDuplicates surfs).2) : b ≤ a := by
  unfold removeDuplicates at h
  simp only at h
  have hsorted : (surfs.mergeSort (fun a b => decide (a.1 ≤ b.1))).Pairwise (fun x y => x.1 ≤ y.1) := by
    have := List.pairwise_mergeSort (le := fun (a b : Nat × String) => decide (a.1 ≤ b.1))
      (fun a b c hab hbc => by simp only [decide_eq_true_eq] at *; omega)
      (fun a b => by simp only [Bool.or_eq_true, decide_eq_true_eq]; omega) surfs
    exact this.imp (fun h => by simpa using h)
  exact dedupFold_lowest _ ([], [], []) hsorted (fun k b h => by simp at h) (fun a b h => by simp at h) a b h

end T4V
