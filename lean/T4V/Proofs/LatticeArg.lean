import T4V.Text.LatticeArg
import T4V.Proofs.WriteRead
/-!
# `--lattice` arguments: what is accepted, and that what is written is what is read
-/
namespace T4V.LAP
open T4V T4V.CC T4V.LA

theorem splitOn_ne_nil (sep : Char) : ∀ l : List Char, splitOn sep l ≠ []
  | [] => by simp [splitOn]
  | c :: r => by
    unfold splitOn
    split
    · simp
    · split <;> simp

/-- a piece without the separator is not split -/
theorem splitOn_piece (sep : Char) : ∀ (p : List Char), (∀ c ∈ p, c ≠ sep) → splitOn sep p = [p]
  | [], _ => rfl
  | c :: r, h => by
    have hc : (c == sep) = false := by simpa using h c List.mem_cons_self
    have ih := splitOn_piece sep r (fun x hx => h x (List.mem_cons_of_mem _ hx))
    simp [splitOn, hc, ih]

/-- `sep.join(pieces).split(sep) == pieces` for pieces that do not contain the separator -/
theorem splitOn_append (sep : Char) : ∀ (p rest : List Char), (∀ c ∈ p, c ≠ sep) →
    splitOn sep (p ++ sep :: rest) = p :: splitOn sep rest
  | [], rest, _ => by simp [splitOn]
  | c :: r, rest, h => by
    have hc : (c == sep) = false := by simpa using h c List.mem_cons_self
    have ih := splitOn_append sep r rest (fun x hx => h x (List.mem_cons_of_mem _ hx))
    simp [splitOn, hc, ih]

def joinWith (sep : Char) : List (List Char) → List Char
  | [] => []
  | [p] => p
  | p :: ps => p ++ sep :: joinWith sep ps

theorem splitOn_joinWith (sep : Char) : ∀ (ps : List (List Char)), ps ≠ [] → (∀ p ∈ ps, ∀ c ∈ p, c ≠ sep) →
    splitOn sep (joinWith sep ps) = ps
  | [], h, _ => absurd rfl h
  | [p], _, hp => by simpa [joinWith] using splitOn_piece sep p (hp p (by simp))
  | p :: q :: ps, _, hp => by
    have ih := splitOn_joinWith sep (q :: ps) (by simp) (fun x hx => hp x (List.mem_cons_of_mem _ hx))
    show splitOn sep (p ++ sep :: joinWith sep (q :: ps)) = _
    rw [splitOn_append sep p _ (hp p (by simp)), ih]

/-! ### integers as Python writes and reads them -/

theorem nat_chars_digits (n : Nat) : ∀ c ∈ (toString n).toList, c.isDigit = true := by
  intro c hc
  have h : (toString n).toList = Nat.toDigits 10 n := Nat.toList_repr
  rw [h] at hc
  exact Nat.isDigit_of_mem_toDigits (by decide) (by decide) hc

theorem nat_chars_ne_nil (n : Nat) : (toString n).toList ≠ [] := by
  have h : (toString n).toList = Nat.toDigits 10 n := Nat.toList_repr
  rw [h]; exact Nat.toDigits_ne_nil

theorem digit_facts (c : Char) (h : c.isDigit = true) : cws c = false ∧ c ≠ '-' ∧ c ≠ '+' ∧ c ≠ ',' ∧ c ≠ ':' := by
  refine ⟨?_, ?_, ?_, ?_, ?_⟩
  · cases hw : cws c with
    | false => rfl
    | true =>
      simp only [cws, Bool.or_eq_true, beq_iff_eq] at hw
      rcases hw with ((((rfl | rfl) | rfl) | rfl) | rfl) | rfl <;> exact absurd h (by decide)
  all_goals (intro e; subst e; exact absurd h (by decide))

theorem strip_id : ∀ (l : List Char), (∀ c ∈ l, cws c = false) → strip l = l := by
  intro l h
  unfold strip
  have h1 : l.dropWhile cws = l := by
    cases l with
    | nil => rfl
    | cons a r => simp [List.dropWhile, h a List.mem_cons_self]
  rw [h1]
  have h2 : l.reverse.dropWhile cws = l.reverse := by
    cases hr : l.reverse with
    | nil => rfl
    | cons a r =>
      have : a ∈ l := by
        have : a ∈ l.reverse := by rw [hr]; exact List.mem_cons_self
        exact List.mem_reverse.mp this
      simp [List.dropWhile, h a this]
  rw [h2, List.reverse_reverse]

/-- the characters of an integer as `str()` / `%d` write it -/
def intChars (i : Int) : List Char := (toString i).toList

theorem intChars_ofNat (n : Nat) : intChars (Int.ofNat n) = (toString n).toList := rfl
theorem intChars_negSucc (n : Nat) : intChars (Int.negSucc n) = '-' :: (toString (n + 1)).toList := by
  show ("-" ++ toString (n + 1)).toList = _
  simp

theorem intChars_facts (i : Int) : intChars i ≠ [] ∧ ∀ c ∈ intChars i, cws c = false ∧ c ≠ ',' ∧ c ≠ ':' := by
  cases i with
  | ofNat n =>
    rw [intChars_ofNat]
    exact ⟨nat_chars_ne_nil n, fun c hc => let f := digit_facts c (nat_chars_digits n c hc); ⟨f.1, f.2.2.2.1, f.2.2.2.2⟩⟩
  | negSucc n =>
    rw [intChars_negSucc]
    refine ⟨by simp, fun c hc => ?_⟩
    rcases List.mem_cons.mp hc with rfl | h
    · exact ⟨by decide, by decide, by decide⟩
    · exact let f := digit_facts c (nat_chars_digits _ c h); ⟨f.1, f.2.2.2.1, f.2.2.2.2⟩

/-- **`int(str(i)) == i`** in the model of Python's `int()` -/
theorem pyInt_intChars (i : Int) : pyInt? (intChars i) = some i := by
  unfold pyInt?
  rw [strip_id _ (fun c hc => ((intChars_facts i).2 c hc).1)]
  cases i with
  | ofNat n =>
    rw [intChars_ofNat]
    have hne := nat_chars_ne_nil n
    have hd := nat_chars_digits n
    cases hl : (toString n).toList with
    | nil => exact absurd hl hne
    | cons d r =>
      have hdd : d.isDigit = true := hd d (by rw [hl]; exact List.mem_cons_self)
      have f := digit_facts d hdd
      have hto : (String.ofList (d :: r)).toNat? = some n := by
        rw [← hl]; simp only [String.ofList_toList]; exact WR.toNat_toString n
      split
      · rename_i r' heq; simp only [List.cons.injEq] at heq; exact absurd heq.1 f.2.1
      · rename_i r' heq; simp only [List.cons.injEq] at heq; exact absurd heq.1 f.2.2.1
      · rw [hto]; rfl
  | negSucc n =>
    rw [intChars_negSucc]
    simp only [String.ofList_toList, WR.toNat_toString]
    rfl

/-! ### ranges and options -/

/-- `lo:hi` as written -/
def rangeText (r : Int × Int) : List Char := intChars r.1 ++ ':' :: intChars r.2

theorem parseRange_rangeText (r : Int × Int) : parseRange (rangeText r) = .ok r := by
  unfold parseRange rangeText
  have h1 : ∀ c ∈ intChars r.1, c ≠ ':' := fun c hc => ((intChars_facts r.1).2 c hc).2.2
  have h2 : ∀ c ∈ intChars r.2, c ≠ ':' := fun c hc => ((intChars_facts r.2).2 c hc).2.2
  rw [splitOn_append ':' _ _ h1, splitOn_piece ':' _ h2]
  simp only [pyInt_intChars]

theorem parseRanges_rangeTexts : ∀ rs : List (Int × Int), parseRanges (rs.map rangeText) = .ok rs
  | [] => rfl
  | r :: rs => by simp [parseRanges, parseRange_rangeText, parseRanges_rangeTexts rs]

theorem rangeText_no_comma (r : Int × Int) : ∀ c ∈ rangeText r, c ≠ ',' := by
  intro c hc
  simp only [rangeText, List.mem_append, List.mem_cons] at hc
  rcases hc with h | rfl | h
  · exact ((intChars_facts r.1).2 c h).2.1
  · decide
  · exact ((intChars_facts r.2).2 c h).2.1

/-- the option as the documentation writes it: `cell,lo:hi[,lo:hi[,lo:hi]]` -/
def optionText (cell : Int) (rs : List (Int × Int)) : List Char := joinWith ',' (intChars cell :: rs.map rangeText)

/-- **a well-formed `--lattice` option is read as written**: the cell number and one to three ranges, for all integers
(negative ones included) -/
theorem parseOption_optionText (cell : Int) (rs : List (Int × Int)) (h1 : 1 ≤ rs.length) (h3 : rs.length ≤ 3) :
    parseOption (optionText cell rs) = .ok (cell, rs) := by
  unfold parseOption optionText
  rw [splitOn_joinWith ',' _ (by simp)]
  · cases rs with
    | nil => simp at h1
    | cons r rs' =>
      simp only [List.map_cons, List.length_cons, List.length_map]
      have : ¬ (rs'.length + 1 > 3) := by simp only [List.length_cons] at h3; omega
      simp only [this, if_false, pyInt_intChars]
      have := parseRanges_rangeTexts (r :: rs')
      simp only [List.map_cons] at this
      rw [this]
  · intro p hp c hc
    rcases List.mem_cons.mp hp with rfl | hp'
    · exact ((intChars_facts cell).2 c hc).2.1
    · obtain ⟨r, _, rfl⟩ := List.mem_map.mp hp'
      exact rangeText_no_comma r c hc

/-- **an option without ranges or with more than three is refused**, whatever else it contains -/
theorem parseOption_range_count (opt : List Char) (cell : Int) (rs : List (Int × Int)) (h : parseOption opt = .ok (cell, rs)) :
    1 ≤ rs.length ∧ rs.length ≤ 3 ∧ (splitOn ',' opt).length = rs.length + 1 := by
  unfold parseOption at h
  have hlen : ∀ (xs : List (List Char)) (ys : List (Int × Int)), parseRanges xs = .ok ys → ys.length = xs.length := by
    intro xs
    induction xs with
    | nil => intro ys hy; simp only [parseRanges, Except.ok.injEq] at hy; subst hy; rfl
    | cons x xs ih =>
      intro ys hy
      unfold parseRanges at hy
      split at hy
      · simp at hy
      · split at hy
        · simp at hy
        · rename_i zs hz
          simp only [Except.ok.injEq] at hy; subst hy
          simp [ih zs hz]
  split at h
  · simp at h
  · simp at h
  · rename_i _ head rest hrest heq
    split at h
    · simp at h
    · rename_i hn
      split at h
      · simp at h
      · split at h
        · simp at h
        · rename_i c' rs' hr
          simp only [Except.ok.injEq, Prod.mk.injEq] at h
          obtain ⟨rfl, rfl⟩ := h
          have hl := hlen rest _ hr
          have : 1 ≤ rest.length := by
            cases rest with
            | nil => exact absurd rfl hrest
            | cons _ _ => simp
          refine ⟨by omega, by omega, by rw [heq]; simp [hl]⟩

/-- a range needs exactly two bounds -/
theorem parseRange_two_bounds (r : List Char) (x : Int × Int) (h : parseRange r = .ok x) : (splitOn ':' r).length = 2 := by
  unfold parseRange at h
  split at h
  · rename_i a b heq; rw [heq]; rfl
  · simp at h

end T4V.LAP
