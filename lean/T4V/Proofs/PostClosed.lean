import T4V.Proofs.PostDen
/-!
# After `remove_empty_volumes` and `remove_unused_volumes` no reference to a deleted volume is left

`Closed vs`: every operand of every volume is a key of the dictionary.  The loop of
`remove_empty_volumes` ends because every round after the first deletes at least one volume; its fuel
(`length + 2`) is therefore never exhausted with a non-empty queue.
-/
namespace T4V

def idsOf (v : Vol) : List Nat := match v.ops with | some (_, ids) => ids | none => []

def Closed (vs : List (Nat × Vol)) : Prop := ∀ p ∈ vs, ∀ r ∈ idsOf p.2, hasKey vs r

/-- every reference is to a present key or to a deleted one -/
def RefsIn (vs : List (Nat × Vol)) (removed : List Nat) : Prop :=
  ∀ p ∈ vs, ∀ r ∈ idsOf p.2, hasKey vs r ∨ r ∈ removed

theorem mem_updAt {vs : List (Nat × Vol)} {k : Nat} {v' : Vol} {p : Nat × Vol} (h : p ∈ updAt vs k v') :
    p ∈ vs ∨ p = (k, v') := by
  unfold updAt at h
  rw [List.mem_map] at h
  obtain ⟨q, hq, rfl⟩ := h
  by_cases hk : (q.1 == k) = true
  · right; simp [hk]
  · left; simp [hk]; exact hq

theorem refsIn_roundStep (u : Nat × Nat) (R : List Nat) (acc : List (Nat × Vol) × List Nat) (k : Nat)
    (h : RefsIn acc.1 (R ++ acc.2)) : RefsIn (roundStep u acc k).1 (R ++ (roundStep u acc k).2) := by
  cases hg : dictGet? acc.1 k with
  | none => unfold roundStep; simpa [hg] using h
  | some v =>
    rw [roundStep_eq u acc k v hg]
    by_cases hu : isUnion v = true
    · rw [if_pos hu]
      intro p hp r hr
      rcases mem_updAt hp with hp' | rfl
      · rcases h p hp' r hr with h1 | h1
        · exact Or.inl ((hasKey_updAt hg).mpr h1)
        · exact Or.inr h1
      · have hr' : r ∈ idsOf v := by simpa [idsOf] using hr
        rcases h (k, v) (mem_of_dictGet? hg) r hr' with h1 | h1
        · exact Or.inl ((hasKey_updAt hg).mpr h1)
        · exact Or.inr h1
    · rw [if_neg hu]
      intro p hp r hr
      have hp' : p ∈ acc.1 := (List.mem_filter.mp hp).1
      rcases h p hp' r hr with h1 | h1
      · by_cases hrk : r = k
        · right; rw [← List.append_assoc]; simp [hrk]
        · exact Or.inl (hasKey_delKey.mpr ⟨hrk, h1⟩)
      · right; rw [← List.append_assoc]; exact List.mem_append_left _ h1

theorem refsIn_fold (u : Nat × Nat) (R : List Nat) : ∀ (q : List Nat) (acc : List (Nat × Vol) × List Nat),
    RefsIn acc.1 (R ++ acc.2) → RefsIn (q.foldl (roundStep u) acc).1 (R ++ (q.foldl (roundStep u) acc).2)
  | [], _, h => h
  | k :: q, acc, h => by
      simp only [List.foldl_cons]
      exact refsIn_fold u R q _ (refsIn_roundStep u R acc k h)

/-- what `afterRound` establishes for the next loop head -/
structure CInv (vs : List (Nat × Vol)) (queue removed : List Nat) : Prop where
  refs : RefsIn vs removed
  unions : ∀ p ∈ vs, isUnion p.2 = true → ∀ r ∈ idsOf p.2, r ∉ removed
  inters : ∀ p ∈ vs, isUnion p.2 = false → (∃ r ∈ idsOf p.2, r ∈ removed) → p.1 ∈ queue

theorem closed_of_cinv {vs : List (Nat × Vol)} {removed : List Nat} (h : CInv vs [] removed) : Closed vs := by
  intro p hp r hr
  rcases h.refs p hp r hr with h1 | h1
  · exact h1
  · exfalso
    by_cases hu : isUnion p.2 = true
    · exact h.unions p hp hu r hr h1
    · have := h.inters p hp (by simpa using hu) ⟨r, hr, h1⟩
      simp at this

theorem afterRound_cinv (vs : List (Nat × Vol)) (removed : List Nat) (h : RefsIn vs removed) :
    CInv (afterRound vs removed).1 (afterRound vs removed).2 removed := by
  have hkeys : ∀ j, hasKey (afterRound vs removed).1 j ↔ hasKey vs j := by
    intro j; rw [afterRound_fst]; exact hasKey_map_snd _
  have hmem : ∀ p, p ∈ (afterRound vs removed).1 → ∃ q ∈ vs, p = (q.1, dropRemoved removed q.2) := by
    intro p hp
    rw [afterRound_fst, List.mem_map] at hp
    obtain ⟨q, hq, rfl⟩ := hp
    exact ⟨q, hq, rfl⟩
  have hids : ∀ v : Vol, isUnion v = false → dropRemoved removed v = v := by
    intro v hv
    unfold dropRemoved
    cases ho : v.ops with
    | none => rfl
    | some x =>
      obtain ⟨op, ids⟩ := x
      cases op with
      | inter => rfl
      | union => simp [isUnion, ho] at hv
  have hidsU : ∀ v : Vol, isUnion v = true → ∀ r ∈ idsOf (dropRemoved removed v), r ∈ idsOf v ∧ r ∉ removed := by
    intro v hv r hr
    obtain ⟨ids, ho⟩ := (isUnion_iff v).mp hv
    unfold dropRemoved idsOf at hr
    simp only [ho] at hr
    by_cases he : (ids.filter (!removed.contains ·)).isEmpty = true
    · rw [if_pos he] at hr; simp at hr
    · rw [if_neg he] at hr
      simp only [List.mem_filter, Bool.not_eq_true', List.contains_eq_mem, decide_eq_false_iff_not] at hr
      exact ⟨by simp [idsOf, ho, hr.1], hr.2⟩
  have hunionD : ∀ v : Vol, isUnion (dropRemoved removed v) = true → isUnion v = true := by
    intro v hv
    by_cases h' : isUnion v = true
    · exact h'
    · rw [hids v (by simpa using h')] at hv; exact hv
  refine ⟨fun p hp r hr => ?_, fun p hp hu r hr => ?_, fun p hp hu hex => ?_⟩
  · obtain ⟨q, hq, rfl⟩ := hmem p hp
    by_cases hu : isUnion q.2 = true
    · obtain ⟨h1, h2⟩ := hidsU q.2 hu r hr
      rcases h q hq r h1 with h3 | h3
      · exact Or.inl ((hkeys r).mpr h3)
      · exact absurd h3 h2
    · rw [hids q.2 (by simpa using hu)] at hr
      rcases h q hq r hr with h3 | h3
      · exact Or.inl ((hkeys r).mpr h3)
      · exact Or.inr h3
  · obtain ⟨q, hq, rfl⟩ := hmem p hp
    exact (hidsU q.2 (hunionD q.2 hu) r hr).2
  · obtain ⟨q, hq, rfl⟩ := hmem p hp
    have hqu : isUnion q.2 = false := by
      by_cases h' : isUnion q.2 = true
      · exfalso
        obtain ⟨r, hr, hrem⟩ := hex
        exact (hidsU q.2 h' r hr).2 hrem
      · simpa using h'
    rw [hids q.2 hqu] at hex
    obtain ⟨r, hr, hrem⟩ := hex
    -- q is an intersection with a removed operand: it is queued
    unfold afterRound
    simp only
    rw [List.mem_filterMap]
    refine ⟨q, hq, ?_⟩
    obtain ⟨k, v⟩ := q
    simp only at hqu hr ⊢
    cases ho : v.ops with
    | none => simp [idsOf, ho] at hr
    | some x =>
      obtain ⟨op, ids⟩ := x
      cases op with
      | union => simp [isUnion, ho] at hqu
      | inter =>
        have hr' : r ∈ ids := by simpa [idsOf, ho] using hr
        simp only [ho]
        have : ids.any (removed.contains ·) = true := by
          rw [List.any_eq_true]; exact ⟨r, hr', by simpa using hrem⟩
        rw [if_pos this]

/-! ### the loop ends with an empty queue -/

theorem len_updAt (vs : List (Nat × Vol)) (k : Nat) (v' : Vol) : (updAt vs k v').length = vs.length := by
  simp [updAt]

theorem len_delKey_le (vs : List (Nat × Vol)) (k : Nat) : (delKey vs k).length ≤ vs.length :=
  List.length_filter_le _ _

theorem len_delKey_lt {vs : List (Nat × Vol)} {k : Nat} (h : hasKey vs k) : (delKey vs k).length < vs.length := by
  obtain ⟨p, hp, hpk⟩ := h
  induction vs with
  | nil => simp at hp
  | cons q rest ih =>
    rw [delKey_cons]
    by_cases hq : (q.1 == k) = true
    · rw [if_pos hq]
      exact Nat.lt_succ_of_le (len_delKey_le rest k)
    · rw [if_neg hq]
      rcases List.mem_cons.mp hp with rfl | hp'
      · exact absurd (by simpa using hpk) hq
      · simp only [List.length_cons]
        exact Nat.succ_lt_succ (ih hp')

theorem len_roundStep_le (u : Nat × Nat) (acc : List (Nat × Vol) × List Nat) (k : Nat) :
    (roundStep u acc k).1.length ≤ acc.1.length := by
  cases hg : dictGet? acc.1 k with
  | none => unfold roundStep; simp [hg]
  | some v =>
    rw [roundStep_eq u acc k v hg]
    by_cases hu : isUnion v = true
    · rw [if_pos hu]; exact Nat.le_of_eq (len_updAt _ _ _)
    · rw [if_neg hu]; exact len_delKey_le _ _

theorem len_fold_le (u : Nat × Nat) : ∀ (q : List Nat) (acc : List (Nat × Vol) × List Nat),
    (q.foldl (roundStep u) acc).1.length ≤ acc.1.length
  | [], _ => Nat.le_refl _
  | k :: q, acc => by
      simp only [List.foldl_cons]
      exact Nat.le_trans (len_fold_le u q _) (len_roundStep_le u acc k)

theorem len_fold_lt (u : Nat × Nat) (q : List Nat) (vs : List (Nat × Vol)) (hq : q ≠ [])
    (hpre : ∀ k ∈ q, ∃ v, dictGet? vs k = some v ∧ isUnion v = false) :
    (q.foldl (roundStep u) (vs, [])).1.length < vs.length := by
  cases q with
  | nil => exact absurd rfl hq
  | cons k rest =>
    simp only [List.foldl_cons]
    obtain ⟨v, hv, hu⟩ := hpre k List.mem_cons_self
    have h1 : (roundStep u (vs, []) k).1.length < vs.length := by
      rw [roundStep_eq u (vs, []) k v hv, if_neg (by simp [hu])]
      exact len_delKey_lt (dictGet?_some_hasKey hv)
    exact Nat.lt_of_le_of_lt (len_fold_le u rest _) h1

theorem queue_pre_afterRound (vs : List (Nat × Vol)) (removed : List Nat) (hnd : KeysNodup vs) :
    ∀ k ∈ (afterRound vs removed).2, ∃ v, dictGet? (afterRound vs removed).1 k = some v ∧ isUnion v = false := by
  intro k hk
  unfold afterRound at hk
  simp only at hk
  rw [List.mem_filterMap] at hk
  obtain ⟨⟨k', v⟩, hm, hsome⟩ := hk
  simp only at hsome
  cases ho : v.ops with
  | none => simp [ho] at hsome
  | some x =>
    obtain ⟨op, ids⟩ := x
    cases op with
    | union => simp [ho] at hsome
    | inter =>
      simp only [ho] at hsome
      by_cases hany : ids.any (removed.contains ·) = true
      · rw [if_pos hany] at hsome
        cases hsome
        have hv := dictGet?_of_mem hnd hm
        have hdr : dropRemoved removed v = v := by simp [dropRemoved, ho]
        refine ⟨v, ?_, by simp [isUnion, ho]⟩
        rw [afterRound_fst, dictGet?_map, hv, Option.map_some, hdr]
      · rw [if_neg hany] at hsome; cases hsome

theorem keysNodup_afterRound {vs : List (Nat × Vol)} (removed : List Nat) (h : KeysNodup vs) :
    KeysNodup (afterRound vs removed).1 := by
  unfold KeysNodup
  rw [afterRound_fst, List.map_map]
  exact h

theorem loop_closed (u : Nat × Nat) : ∀ (fuel : Nat) (vs : List (Nat × Vol)) (queue removed : List Nat),
    CInv vs queue removed → KeysNodup vs → (∀ k ∈ queue, ∃ v, dictGet? vs k = some v ∧ isUnion v = false) →
    vs.length < fuel → Closed (removeEmpty.loop u fuel vs queue removed) ∧ KeysNodup (removeEmpty.loop u fuel vs queue removed)
  | 0, vs, _, _, _, _, _, hlen => absurd hlen (Nat.not_lt_zero _)
  | fuel + 1, vs, queue, removed, inv, hnd, hpre, hlen => by
      unfold removeEmpty.loop
      by_cases hq : queue.isEmpty = true
      · have : queue = [] := List.isEmpty_iff.mp hq
        subst this
        simp only [List.isEmpty_nil, if_true]
        exact ⟨closed_of_cinv inv, hnd⟩
      · simp only [hq, Bool.false_eq_true, if_false]
        rw [removeEmptyRound_eq]
        have hne : queue ≠ [] := fun h => hq (by simp [h])
        have hrefs := refsIn_fold u removed queue (vs, []) (by simpa using inv.refs)
        have hnd1 := keysNodup_fold u queue (vs, []) hnd
        have hlt := len_fold_lt u queue vs hne hpre
        apply loop_closed u fuel
        · exact afterRound_cinv _ _ hrefs
        · exact keysNodup_afterRound _ hnd1
        · exact queue_pre_afterRound _ _ hnd1
        · rw [afterRound_fst, List.length_map]; omega

/-- **`remove_empty_volumes` leaves no dangling reference** -/
theorem removeEmpty_closed (u : Nat × Nat) (vols : List (Nat × Vol)) (hc : Closed vols) (hnd : KeysNodup vols) :
    Closed (removeEmpty u vols) ∧ KeysNodup (removeEmpty u vols) := by
  unfold removeEmpty
  show Closed (removeEmpty.loop u (vols.length + 1 + 1) vols _ []) ∧ KeysNodup (removeEmpty.loop u (vols.length + 1 + 1) vols _ [])
  unfold removeEmpty.loop
  by_cases hq : ((vols.filter (·.2.empty)).map (·.1)).isEmpty = true
  · simp only [hq, if_true]; exact ⟨hc, hnd⟩
  · simp only [hq, Bool.false_eq_true, if_false]
    rw [removeEmptyRound_eq]
    have hrefs0 : RefsIn vols ([] ++ []) := fun p hp r hr => Or.inl (hc p hp r hr)
    have hrefs := refsIn_fold u [] ((vols.filter (·.2.empty)).map (·.1)) (vols, []) hrefs0
    have hnd1 := keysNodup_fold u ((vols.filter (·.2.empty)).map (·.1)) (vols, []) hnd
    have hle := len_fold_le u ((vols.filter (·.2.empty)).map (·.1)) (vols, [])
    apply loop_closed u (vols.length + 1)
    · exact afterRound_cinv _ _ hrefs
    · exact keysNodup_afterRound _ hnd1
    · exact queue_pre_afterRound _ _ hnd1
    · rw [afterRound_fst, List.length_map]; simp only at hle; omega

theorem removeUnused_closed (vols : List (Nat × Vol)) (hc : Closed vols) : Closed (removeUnused vols) := by
  rw [removeUnused_eq]
  intro p hp r hr
  have hp' := (List.mem_filter.mp hp).1
  obtain ⟨q, hq, hqr⟩ := hc p hp' r hr
  refine ⟨q, List.mem_filter.mpr ⟨hq, ?_⟩, hqr⟩
  have : r ∈ usedIds vols := by
    unfold usedIds
    rw [List.mem_flatMap]
    refine ⟨p, hp', ?_⟩
    unfold idsOf at hr
    cases ho : p.2.ops with
    | none => simp [ho] at hr
    | some x => obtain ⟨op, ids⟩ := x; simpa [ho] using hr
  simp [keepP, hqr, this]

theorem closed_renumber (ren : List (Nat × Nat)) (vols : List (Nat × Vol)) (hc : Closed vols) :
    Closed (renumberVols ren vols) := by
  intro p hp r hr
  unfold renumberVols at hp
  rw [List.mem_map] at hp
  obtain ⟨q, hq, rfl⟩ := hp
  have hr' : r ∈ idsOf q.2 := by simpa [idsOf, renumVol] using hr
  exact (hasKey_map_snd (renumVol ren)).mpr (hc q hq r hr')

/-- on a dictionary without dangling references the two readings agree -/
theorem den_of_den'_closed (vs : List (Nat × Vol)) (σ : TSense) (hc : Closed vs) :
    ∀ f k b, hasKey vs k → den' vs σ f k = some b → den vs σ f k = some b := by
  intro f
  induction f with
  | zero => intro k b _ h; simp [den'] at h
  | succ f ih =>
    intro k b hk h
    obtain ⟨v, hv⟩ := hasKey_of_dictGet?.mp hk
    unfold den' at h
    unfold den
    simp only [hv] at h ⊢
    cases ho : v.ops with
    | none => simpa [ho] using h
    | some x =>
      obtain ⟨op, ids⟩ := x
      simp only [ho, Option.map_eq_some_iff] at h ⊢
      obtain ⟨bs, hbs, rfl⟩ := h
      refine ⟨bs, mapM_congr_mem ids bs (fun r hr br hbr => ?_) hbs, rfl⟩
      exact ih r br (hc (k, v) (mem_of_dictGet? hv) r (by simp [idsOf, ho, hr])) hbr

/-- **the whole post-processing leaves a closed dictionary** -/
theorem postProcess_closed (dedup : Bool) (surfs : List (Nat × String)) (u : Nat × Nat) (vols : List (Nat × Vol))
    (hc : Closed vols) (hnd : KeysNodup vols) : Closed (postProcess dedup surfs u vols).2 := by
  unfold postProcess
  cases dedup with
  | false =>
    simp only [Bool.false_eq_true, if_false]
    exact removeUnused_closed _ (removeEmpty_closed u vols hc hnd).1
  | true =>
    simp only [if_true]
    exact removeUnused_closed _ (removeEmpty_closed _ _ (closed_renumber _ vols hc) (keysNodup_renumber _ vols hnd)).1

end T4V
