import T4V.Text.CardSplit
import T4V.Proofs.CellCard
/-!
# `surfacecard.split` / `datacard.split` on cards written field by field (lemmas for property C14)
-/
namespace T4V.CC
set_option linter.unusedSimpArgs false

theorem letter_props (c : Char) (h : isLetter c = true) :
    cws c = false ∧ isDigit c = false ∧ isSign c = false ∧ isFlag c = false ∧ (c == '*') = false := by
  have h65 : 65 ≤ c.toNat := by
    simp only [isLetter, Bool.or_eq_true, Bool.and_eq_true, decide_eq_true_eq] at h
    rcases h with h | h
    · have : 97 ≤ c.toNat := h.1
      omega
    · exact h.1
  refine ⟨?_, ?_, ?_, ?_, ?_⟩
  · cases hc : cws c with
    | false => rfl
    | true => have := cws_le c hc; omega
  · cases hc : isDigit c with
    | false => rfl
    | true =>
      simp only [isDigit, Bool.and_eq_true, decide_eq_true_eq] at hc
      have : c.toNat ≤ 57 := hc.2
      omega
  · cases hc : isSign c with
    | false => rfl
    | true =>
      simp only [isSign, Bool.or_eq_true, beq_iff_eq] at hc
      rcases hc with rfl | rfl <;> simp at h65
  · cases hc : isFlag c with
    | false => rfl
    | true =>
      simp only [isFlag, Bool.or_eq_true, beq_iff_eq] at hc
      rcases hc with rfl | rfl <;> simp at h65
  · cases hc : (c == '*') with
    | false => rfl
    | true =>
      simp only [beq_iff_eq] at hc
      subst hc; simp at h65

theorem mn_props (c : Char) (h : isMnChar c = true) :
    cws c = false ∧ isDigit c = false ∧ isSign c = false := by
  simp only [isMnChar, Bool.or_eq_true, beq_iff_eq] at h
  rcases h with h | rfl
  · exact ⟨(letter_props c h).1, (letter_props c h).2.1, (letter_props c h).2.2.1⟩
  · decide

theorem digit_props (c : Char) (h : isDigit c = true) :
    cws c = false ∧ isFlag c = false ∧ isSign c = false ∧ isMnChar c = false ∧ isLetter c = false ∧ (c == '*') = false := by
  have h1 := digit_ge c h
  have h2 : c.toNat ≤ 57 := by
    simp only [isDigit, Bool.and_eq_true, decide_eq_true_eq] at h
    exact h.2
  have hl : isLetter c = false := by
    cases hc : isLetter c with
    | false => rfl
    | true =>
      simp only [isLetter, Bool.or_eq_true, Bool.and_eq_true, decide_eq_true_eq] at hc
      rcases hc with hc | hc
      · have : 97 ≤ c.toNat := hc.1
        omega
      · have : 65 ≤ c.toNat := hc.1
        omega
  refine ⟨digit_not_ws c h, ?_, ?_, ?_, hl, ?_⟩
  · cases hc : isFlag c with
    | false => rfl
    | true =>
      simp only [isFlag, Bool.or_eq_true, beq_iff_eq] at hc
      rcases hc with rfl | rfl <;> simp at h1
  · cases hc : isSign c with
    | false => rfl
    | true =>
      simp only [isSign, Bool.or_eq_true, beq_iff_eq] at hc
      rcases hc with rfl | rfl <;> simp at h1
  · simp only [isMnChar, hl, Bool.false_or]
    cases hc : (c == '/') with
    | false => rfl
    | true => simp only [beq_iff_eq] at hc; subst hc; simp at h1
  · cases hc : (c == '*') with
    | false => rfl
    | true => simp only [beq_iff_eq] at hc; subst hc; simp at h1

end T4V.CC

namespace T4V.CC
set_option linter.unusedSimpArgs false

theorem flag_not_ws (c : Char) (h : isFlag c = true) : cws c = false := by
  simp only [isFlag, Bool.or_eq_true, beq_iff_eq] at h
  rcases h with rfl | rfl <;> decide

theorem flag_not_digit (c : Char) (h : isFlag c = true) : isDigit c = false := by
  simp only [isFlag, Bool.or_eq_true, beq_iff_eq] at h
  rcases h with rfl | rfl <;> decide

/-- head facts of an append whose left part is non-empty -/
theorem head_append_of_ne {a g : List Char} (hne : a ≠ []) {c : Char} {r : List Char} (h : a ++ g = c :: r) : c ∈ a := by
  cases a with
  | nil => exact absurd rfl hne
  | cons x xs => simp only [List.cons_append, List.cons.injEq] at h; rw [← h.1]; exact List.mem_cons_self

theorem dropWhile_id {p : Char → Bool} (l : List Char) (h : ∀ c r, l = c :: r → p c = false) : l.dropWhile p = l := by
  cases l with
  | nil => rfl
  | cons c r => simp [List.dropWhile, h c r rfl]

theorem takeWhile_nil' {p : Char → Bool} (l : List Char) (h : ∀ c r, l = c :: r → p c = false) : l.takeWhile p = [] := by
  cases l with
  | nil => rfl
  | cons c r => simp [List.takeWhile, h c r rfl]

/-- **a surface card without transformation number**: `[*+]n mnemonic parameters` -/
theorem split_surface_plain (flags ds mn params : List Char)
    (hf : ∀ c ∈ flags, isFlag c = true) (hds : ds ≠ [] ∧ ∀ c ∈ ds, isDigit c = true)
    (hmn : mn ≠ [] ∧ ∀ c ∈ mn, isMnChar c = true) (hp : ∀ c r, params = c :: r → cws c = false) :
    splitSurface (flags ++ (ds ++ ' ' :: (mn ++ ' ' :: params)))
      = some { name := flags ++ ds, tr := [], mn := mn, params := params } := by
  -- heads
  have hdsHead : ∀ c r, ds ++ ' ' :: (mn ++ ' ' :: params) = c :: r → isDigit c = true :=
    fun c r h => hds.2 c (head_append_of_ne hds.1 h)
  have hmnHead : ∀ c r, mn ++ ' ' :: params = c :: r → isMnChar c = true :=
    fun c r h => hmn.2 c (head_append_of_ne hmn.1 h)
  have h0 : (flags ++ (ds ++ ' ' :: (mn ++ ' ' :: params))).dropWhile cws = flags ++ (ds ++ ' ' :: (mn ++ ' ' :: params)) := by
    apply dropWhile_id
    intro c r h
    cases flags with
    | nil => exact (digit_props c (hdsHead c r h)).1
    | cons x xs =>
      simp only [List.cons_append, List.cons.injEq] at h
      rw [← h.1]; exact flag_not_ws x (hf x List.mem_cons_self)
  have h1 := takeWhile_stop (p := isFlag) flags (ds ++ ' ' :: (mn ++ ' ' :: params)) hf
    (fun c r h => (digit_props c (hdsHead c r h)).2.1)
  have h2 := takeWhile_all_append (p := isDigit) ds ' ' (mn ++ ' ' :: params) hds.2 (by decide)
  have h3 := takeWhile_stop (p := cws) [' '] (mn ++ ' ' :: params) (by simp [space_ws])
    (fun c r h => (mn_props c (hmnHead c r h)).1)
  have h4 : (mn ++ ' ' :: params).takeWhile isSign = [] :=
    takeWhile_nil' _ (fun c r h => (mn_props c (hmnHead c r h)).2.2)
  have h4' : (mn ++ ' ' :: params).dropWhile isSign = mn ++ ' ' :: params :=
    dropWhile_id _ (fun c r h => (mn_props c (hmnHead c r h)).2.2)
  have h5 : (mn ++ ' ' :: params).takeWhile isDigit = [] :=
    takeWhile_nil' _ (fun c r h => (mn_props c (hmnHead c r h)).2.1)
  have h5' : (mn ++ ' ' :: params).dropWhile isDigit = mn ++ ' ' :: params :=
    dropWhile_id _ (fun c r h => (mn_props c (hmnHead c r h)).2.1)
  have h6 : (mn ++ ' ' :: params).takeWhile cws = [] :=
    takeWhile_nil' _ (fun c r h => (mn_props c (hmnHead c r h)).1)
  have h6' : (mn ++ ' ' :: params).dropWhile cws = mn ++ ' ' :: params :=
    dropWhile_id _ (fun c r h => (mn_props c (hmnHead c r h)).1)
  have h7 := takeWhile_all_append (p := isMnChar) mn ' ' params hmn.2 (by decide)
  have h8 := takeWhile_stop (p := cws) [' '] params (by simp [space_ws]) hp
  have hdsne : ds.isEmpty = false := by cases ds with | nil => exact absurd rfl hds.1 | cons _ _ => rfl
  have hmnne : mn.isEmpty = false := by cases mn with | nil => exact absurd rfl hmn.1 | cons _ _ => rfl
  simp only [List.singleton_append] at h3 h8
  unfold splitSurface
  simp only [h0, h1.1, h1.2, h2.1, h2.2, hdsne, h3.1, h3.2, h4, h4', h5, h5', h6, h6', h7.1, h7.2, hmnne, h8.1, h8.2,
    Bool.false_eq_true, if_false, List.isEmpty_cons, List.append_nil]

end T4V.CC

namespace T4V.CC
set_option linter.unusedSimpArgs false

theorem sign_not_ws (c : Char) (h : isSign c = true) : cws c = false := by
  simp only [isSign, Bool.or_eq_true, beq_iff_eq] at h
  rcases h with rfl | rfl <;> decide

/-- **a surface card with a transformation number**: `[*+]n [±]t mnemonic parameters` -/
theorem split_surface_tr (flags ds sg td mn params : List Char)
    (hf : ∀ c ∈ flags, isFlag c = true) (hds : ds ≠ [] ∧ ∀ c ∈ ds, isDigit c = true)
    (hsg : ∀ c ∈ sg, isSign c = true) (htd : td ≠ [] ∧ ∀ c ∈ td, isDigit c = true)
    (hmn : mn ≠ [] ∧ ∀ c ∈ mn, isMnChar c = true) (hp : ∀ c r, params = c :: r → cws c = false) :
    splitSurface (flags ++ (ds ++ ' ' :: (sg ++ (td ++ ' ' :: (mn ++ ' ' :: params)))))
      = some { name := flags ++ ds, tr := sg ++ td ++ [' '], mn := mn, params := params } := by
  have hdsHead : ∀ c r, ds ++ ' ' :: (sg ++ (td ++ ' ' :: (mn ++ ' ' :: params))) = c :: r → isDigit c = true :=
    fun c r h => hds.2 c (head_append_of_ne hds.1 h)
  have htdHead : ∀ c r, td ++ ' ' :: (mn ++ ' ' :: params) = c :: r → isDigit c = true :=
    fun c r h => htd.2 c (head_append_of_ne htd.1 h)
  have hmnHead : ∀ c r, mn ++ ' ' :: params = c :: r → isMnChar c = true :=
    fun c r h => hmn.2 c (head_append_of_ne hmn.1 h)
  have hsgtdHead : ∀ c r, sg ++ (td ++ ' ' :: (mn ++ ' ' :: params)) = c :: r → cws c = false := by
    intro c r h
    cases sg with
    | nil => exact (digit_props c (htdHead c r h)).1
    | cons x xs =>
      simp only [List.cons_append, List.cons.injEq] at h
      rw [← h.1]; exact sign_not_ws x (hsg x List.mem_cons_self)
  have h0 : (flags ++ (ds ++ ' ' :: (sg ++ (td ++ ' ' :: (mn ++ ' ' :: params))))).dropWhile cws
      = flags ++ (ds ++ ' ' :: (sg ++ (td ++ ' ' :: (mn ++ ' ' :: params)))) := by
    apply dropWhile_id
    intro c r h
    cases flags with
    | nil => exact (digit_props c (hdsHead c r h)).1
    | cons x xs =>
      simp only [List.cons_append, List.cons.injEq] at h
      rw [← h.1]; exact flag_not_ws x (hf x List.mem_cons_self)
  have h1 := takeWhile_stop (p := isFlag) flags _ hf (fun c r h => (digit_props c (hdsHead c r h)).2.1)
  have h2 := takeWhile_all_append (p := isDigit) ds ' ' (sg ++ (td ++ ' ' :: (mn ++ ' ' :: params))) hds.2 (by decide)
  have h3 := takeWhile_stop (p := cws) [' '] (sg ++ (td ++ ' ' :: (mn ++ ' ' :: params))) (by simp [space_ws]) hsgtdHead
  have h4 := takeWhile_stop (p := isSign) sg (td ++ ' ' :: (mn ++ ' ' :: params)) hsg
    (fun c r h => (digit_props c (htdHead c r h)).2.2.1)
  have h5 := takeWhile_all_append (p := isDigit) td ' ' (mn ++ ' ' :: params) htd.2 (by decide)
  have h6 := takeWhile_stop (p := cws) [' '] (mn ++ ' ' :: params) (by simp [space_ws])
    (fun c r h => (mn_props c (hmnHead c r h)).1)
  have h7 := takeWhile_all_append (p := isMnChar) mn ' ' params hmn.2 (by decide)
  have h8 := takeWhile_stop (p := cws) [' '] params (by simp [space_ws]) hp
  have hdsne : ds.isEmpty = false := by cases ds with | nil => exact absurd rfl hds.1 | cons _ _ => rfl
  have hmnne : mn.isEmpty = false := by cases mn with | nil => exact absurd rfl hmn.1 | cons _ _ => rfl
  simp only [List.singleton_append] at h3 h6 h8
  unfold splitSurface
  simp only [h0, h1.1, h1.2, h2.1, h2.2, hdsne, h3.1, h3.2, h4.1, h4.2, h5.1, h5.2, h6.1, h6.2, h7.1, h7.2, hmnne, h8.1,
    h8.2, Bool.false_eq_true, if_false, List.isEmpty_cons, List.append_assoc]

/-- **a numbered data card** (`m1 …`, `tr5 …`, `*tr5 …`): type, number, what follows -/
theorem split_data_numbered (stars ls ds rest : List Char)
    (hst : ∀ c ∈ stars, (c == '*') = true) (hls : ls ≠ [] ∧ ∀ c ∈ ls, isLetter c = true)
    (hds : ds ≠ [] ∧ ∀ c ∈ ds, isDigit c = true) :
    splitData (stars ++ (ls ++ (ds ++ ' ' :: rest)))
      = some { typ := stars ++ ls, name := ds, star := [], params := ' ' :: rest } := by
  have hlsHead : ∀ c r, ls ++ (ds ++ ' ' :: rest) = c :: r → isLetter c = true :=
    fun c r h => hls.2 c (head_append_of_ne hls.1 h)
  have hdsHead : ∀ c r, ds ++ ' ' :: rest = c :: r → isDigit c = true :=
    fun c r h => hds.2 c (head_append_of_ne hds.1 h)
  have h0 : (stars ++ (ls ++ (ds ++ ' ' :: rest))).dropWhile cws = stars ++ (ls ++ (ds ++ ' ' :: rest)) := by
    apply dropWhile_id
    intro c r h
    cases stars with
    | nil => exact (letter_props c (hlsHead c r h)).1
    | cons x xs =>
      simp only [List.cons_append, List.cons.injEq] at h
      have := hst x List.mem_cons_self
      simp only [beq_iff_eq] at this
      rw [← h.1, this]; decide
  have h1 := takeWhile_stop (p := (· == '*')) stars (ls ++ (ds ++ ' ' :: rest)) hst
    (fun c r h => (letter_props c (hlsHead c r h)).2.2.2.2)
  have h2 := takeWhile_stop (p := isLetter) ls (ds ++ ' ' :: rest) hls.2
    (fun c r h => (digit_props c (hdsHead c r h)).2.2.2.2.1)
  have h3 : (ds ++ ' ' :: rest).takeWhile (fun c => !isDigit c) = [] :=
    takeWhile_nil' _ (fun c r h => by simp [hdsHead c r h])
  have h3' : (ds ++ ' ' :: rest).dropWhile (fun c => !isDigit c) = ds ++ ' ' :: rest :=
    dropWhile_id _ (fun c r h => by simp [hdsHead c r h])
  have h4 := takeWhile_all_append (p := isDigit) ds ' ' rest hds.2 (by decide)
  have hlsne : ls.isEmpty = false := by cases ls with | nil => exact absurd rfl hls.1 | cons _ _ => rfl
  unfold splitData
  simp only [h0, h1.1, h1.2, h2.1, h2.2, hlsne, h3, h3', h4.1, h4.2, Bool.false_eq_true, if_false, List.append_nil]
  rfl

end T4V.CC
