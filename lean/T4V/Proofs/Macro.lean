import T4V.Model.Macro
import T4V.Proofs.Surface
import Mathlib.Tactic.NormNum
/-!
# Macrobody facets: helper lemmas for `Props/C03`
-/
set_option linter.unusedSectionVars false
set_option linter.unusedSimpArgs false
namespace T4V.Macro
open T4V T4V.Surf
variable {α : Type} [Field α] [LinearOrder α] [IsStrictOrderedRing α] [Transc α]

/-- the signed TRIPOLI-4 surface `(t, side)` is the MCNP facet whose outward implicit function is `g`:
same zero set, and `side·t` positive exactly where `g` is -/
def FacetOK (ts : TSurf α × Int) (g : V3 α → α) : Prop :=
  (ts.2 = 1 ∧ Same ts.1 g) ∨ (ts.2 = -1 ∧ Same ts.1 fun p => -g p)

/-- facet by facet, in MCNP's numbering -/
def BodyOK (coll : List (TSurf α × Int)) (gs : List (V3 α → α)) : Prop := List.Forall₂ FacetOK coll gs

/-- a plane facet given as `(normal, point)` -/
theorem plane_part (ok : TranscOK α) (a b c d : α) (h : 0 < a * a + b * b + c * c) :
    ∃ t, convertCard (0:α) 0 "p" [a, b, c, d] = some [(t, 1)] ∧ Same t fun p => a * p.x + b * p.y + c * p.z - d := by
  obtain ⟨t, hs, hsame⟩ := plane4_same ok a b c d h
  exact ⟨t, by show (cadOf (0:α) 0 "p" [a, b, c, d]).bind convertSurf = _; rw [planeCard_convert ok a b c d h]; exact hs, hsame⟩

theorem facet_pos {t : TSurf α} {g g' : V3 α → α} (h : Same t g) (e : ∀ p, g p = g' p) : FacetOK (t, 1) g' :=
  Or.inl ⟨rfl, h.congr e⟩

theorem facet_neg {t : TSurf α} {g g' : V3 α → α} (h : Same t g) (e : ∀ p, g p = -g' p) : FacetOK (t, -1) g' :=
  Or.inr ⟨rfl, h.congr e⟩

theorem facetOK_neg_iff {ts : TSurf α × Int} {g : V3 α → α} (h : FacetOK ts g) (p : V3 α) :
    ∃ v, ts.1.f p = some v ∧ ((if ts.2 < 0 then decide (0 < v) else decide (v < 0)) = decide (g p < 0)) ∧
      ((if ts.2 < 0 then decide (v < 0) else decide (0 < v)) = decide (0 < g p)) := by
  rcases h with ⟨hs, k, hk, hf⟩ | ⟨hs, k, hk, hf⟩
  · refine ⟨_, hf p, ?_, ?_⟩ <;> simp only [hs, show ¬ ((1:Int) < 0) by decide, if_false, decide_eq_decide]
    · exact ⟨fun h => by by_contra hc; exact absurd h (not_lt.mpr (mul_nonneg hk.le (not_lt.mp hc))),
        fun h => mul_neg_of_pos_of_neg hk h⟩
    · exact ⟨fun h => by by_contra hc; exact absurd h (not_lt.mpr (mul_nonpos_of_nonneg_of_nonpos hk.le (not_lt.mp hc))),
        fun h => mul_pos hk h⟩
  · refine ⟨_, hf p, ?_, ?_⟩ <;> simp only [hs, show ((-1:Int) < 0) by decide, if_true, decide_eq_decide]
    · constructor
      · intro h; by_contra hc
        exact absurd h (not_lt.mpr (mul_nonpos_of_nonneg_of_nonpos hk.le (neg_nonpos.mpr (not_lt.mp hc))))
      · intro h; exact mul_pos hk (neg_pos.mpr h)
    · constructor
      · intro h; by_contra hc
        exact absurd h (not_lt.mpr (mul_nonneg hk.le (neg_nonneg.mpr (not_lt.mp hc))))
      · intro h; exact mul_neg_of_pos_of_neg hk (neg_neg_of_pos h)

theorem Same.scale {t : TSurf α} {g g' : V3 α → α} (h : Same t g) (c : α) (hc : 0 < c) (e : ∀ p, g p = c * g' p) :
    Same t g' := by
  obtain ⟨k, hk, hf⟩ := h
  exact ⟨k * c, mul_pos hk hc, fun p => by rw [hf p, e p, mul_assoc]⟩

/-- a plane part `planeParamsFromNormalAndPoint(n, pt)` -/
theorem planeNP_part (ok : TranscOK α) (n pt : V3 α) (h : 0 < n.dot n) :
    ∃ t, convertCard (0:α) 0 "p" (planeNP n pt) = some [(t, 1)] ∧ Same t (planeOut n pt) := by
  obtain ⟨t, hc, hs⟩ := plane_part ok n.x n.y n.z (n.dot pt) (by simpa [V3.dot] using h)
  exact ⟨t, hc, hs.congr fun p => by simp only [planeOut, V3.dot, V3.sub]; ring⟩

/-- a pair of opposite plane facets whose code normal `n` is parallel (`n = lam·a`, either sign) to the
edge vector `a`: the side chosen by `s = if n·a < 0 then 1 else -1` makes both facets outward -/
theorem opposite_pair (ok : TranscOK α) (n a v : V3 α) (lam : α) (hlam : lam ≠ 0) (ha : 0 < a.dot a)
    (hx : n.x = lam * a.x) (hy : n.y = lam * a.y) (hz : n.z = lam * a.z) :
    ∃ t1 t2, convertCard (0:α) 0 "p" (planeNP n (v.add a)) = some [(t1, 1)] ∧
      convertCard (0:α) 0 "p" (planeNP n v) = some [(t2, 1)] ∧
      FacetOK (t1, -(if n.dot a < 0 then (1:Int) else -1)) (planeOut a (v.add a)) ∧
      FacetOK (t2, if n.dot a < 0 then (1:Int) else -1) (planeOut a.neg v) := by
  have hnn : 0 < n.dot n := by
    have : n.dot n = lam * lam * a.dot a := by simp only [V3.dot, hx, hy, hz]; ring
    rw [this]; exact mul_pos (mul_self_pos.mpr hlam) ha
  have hna : n.dot a = lam * a.dot a := by simp only [V3.dot, hx, hy, hz]; ring
  obtain ⟨t1, h1, s1⟩ := planeNP_part ok n (v.add a) hnn
  obtain ⟨t2, h2, s2⟩ := planeNP_part ok n v hnn
  refine ⟨t1, t2, h1, h2, ?_⟩
  have e1 : ∀ p, planeOut n (v.add a) p = lam * planeOut a (v.add a) p := fun p => by
    simp only [planeOut, V3.dot, V3.sub, V3.add, hx, hy, hz]; ring
  have e2 : ∀ p, planeOut n v p = lam * -(planeOut a.neg v p) := fun p => by
    simp only [planeOut, V3.dot, V3.sub, V3.neg, hx, hy, hz]; ring
  rcases lt_or_gt_of_ne hlam with hl | hl
  · have : n.dot a < 0 := by rw [hna]; exact mul_neg_of_neg_of_pos hl ha
    simp only [this, if_true]
    exact ⟨Or.inr ⟨rfl, Same.scale s1 (-lam) (neg_pos.mpr hl) fun p => by rw [e1 p]; ring⟩,
           Or.inl ⟨rfl, Same.scale s2 (-lam) (neg_pos.mpr hl) fun p => by rw [e2 p]; ring⟩⟩
  · have : ¬ n.dot a < 0 := by rw [hna]; exact not_lt.mpr (mul_pos hl ha).le
    simp only [this, if_false, neg_neg]
    exact ⟨Or.inl ⟨rfl, Same.scale s1 lam hl e1⟩, Or.inr ⟨rfl, Same.scale s2 lam hl fun p => by rw [e2 p]⟩⟩

/-- for a right box the cross product of two edges is a multiple of the third -/
theorem cross_parallel (a b c : V3 α) (hab : a.dot b = 0) (hac : a.dot c = 0) (ha : 0 < a.dot a) :
    let w := b.cross c
    w.x = (w.dot a / a.dot a) * a.x ∧ w.y = (w.dot a / a.dot a) * a.y ∧ w.z = (w.dot a / a.dot a) * a.z := by
  have hne := ha.ne'
  intro w
  have kx : w.x * a.dot a = w.dot a * a.x := by
    simp only [w, V3.dot, V3.cross] at *
    linear_combination -(c.y * a.z - c.z * a.y) * hab + (b.y * a.z - b.z * a.y) * hac
  have ky : w.y * a.dot a = w.dot a * a.y := by
    simp only [w, V3.dot, V3.cross] at *
    linear_combination -(c.z * a.x - c.x * a.z) * hab + (b.z * a.x - b.x * a.z) * hac
  have kz : w.z * a.dot a = w.dot a * a.z := by
    simp only [w, V3.dot, V3.cross] at *
    linear_combination -(c.x * a.y - c.y * a.x) * hab + (b.x * a.y - b.y * a.x) * hac
  refine ⟨?_, ?_, ?_⟩ <;> rw [div_mul_eq_mul_div, eq_div_iff hne] <;> assumption

/-- general cylinder card `c` (axis vector not normalised): all four branches of `convert_cylinder` -/
theorem cyl_general_same (pt u : V3 α) (r : α) (hu : 0 < u.dot u) :
    Same (convertCylinder pt u r) fun p =>
      (p.sub pt).norm2 * u.norm2 - sq ((p.sub pt).dot u) - sq r * u.norm2 := by
  unfold convertCylinder
  simp only [beq_iff_eq, Bool.and_eq_true]
  split_ifs with h1 h2 h3
  · obtain ⟨hx, hy⟩ := h1
    have hz : 0 < u.z * u.z := by simpa [V3.dot, hx, hy] using hu
    have hne : u.z ≠ 0 := by rintro h0; simp [h0] at hz
    refine ⟨1 / (u.z * u.z), by positivity, fun p => ?_⟩
    simp only [TSurf.f, TSurf.fLocal, V3.norm2, V3.dot, V3.sub, sq, hx, hy]
    congr 1; field_simp; ring
  · obtain ⟨hy, hz⟩ := h2
    have hx : 0 < u.x * u.x := by simpa [V3.dot, hy, hz] using hu
    have hne : u.x ≠ 0 := by rintro h0; simp [h0] at hx
    refine ⟨1 / (u.x * u.x), by positivity, fun p => ?_⟩
    simp only [TSurf.f, TSurf.fLocal, V3.norm2, V3.dot, V3.sub, sq, hy, hz]
    congr 1; field_simp; ring
  · obtain ⟨hz, hx⟩ := h3
    have hy : 0 < u.y * u.y := by simpa [V3.dot, hz, hx] using hu
    have hne : u.y ≠ 0 := by rintro h0; simp [h0] at hy
    refine ⟨1 / (u.y * u.y), by positivity, fun p => ?_⟩
    simp only [TSurf.f, TSurf.fLocal, V3.norm2, V3.dot, V3.sub, sq, hz, hx]
    congr 1; field_simp; ring
  · refine ⟨1, one_pos, fun p => ?_⟩
    simp only [TSurf.f, TSurf.fLocal, perp2, one_mul]

/-- the two end planes `(h, v+h, +1)`, `(h, v, −1)` shared by RCC, RHP, REC, TRC, WED -/
theorem end_planes (ok : TranscOK α) (h v : V3 α) (hh : 0 < h.dot h) :
    ∃ t1 t2, convertCard (0:α) 0 "p" (planeNP h (v.add h)) = some [(t1, 1)] ∧
      convertCard (0:α) 0 "p" (planeNP h v) = some [(t2, 1)] ∧
      FacetOK (t1, 1) (planeOut h (v.add h)) ∧ FacetOK (t2, -1) (planeOut h.neg v) := by
  obtain ⟨t1, h1, s1⟩ := planeNP_part ok h (v.add h) hh
  obtain ⟨t2, h2, s2⟩ := planeNP_part ok h v hh
  exact ⟨t1, t2, h1, h2, Or.inl ⟨rfl, s1⟩, Or.inr ⟨rfl, Same.congr s2 fun p => by
    simp only [planeOut, V3.dot, V3.sub, V3.neg]; ring⟩⟩

/-- a pair of opposite facets at `v ± r` with outward normals `±r` (RHP/HEX) -/
theorem rhp_pair (ok : TranscOK α) (r v : V3 α) (hr : 0 < r.dot r) :
    ∃ t1 t2, convertCard (0:α) 0 "p" (planeNP r (v.add r)) = some [(t1, 1)] ∧
      convertCard (0:α) 0 "p" (planeNP r (v.sub r)) = some [(t2, 1)] ∧
      FacetOK (t1, 1) (planeOut r (v.add r)) ∧ FacetOK (t2, -1) (planeOut r.neg (v.sub r)) := by
  obtain ⟨t1, h1, s1⟩ := planeNP_part ok r (v.add r) hr
  obtain ⟨t2, h2, s2⟩ := planeNP_part ok r (v.sub r) hr
  exact ⟨t1, t2, h1, h2, Or.inl ⟨rfl, s1⟩, Or.inr ⟨rfl, Same.congr s2 fun p => by
    simp only [planeOut, V3.dot, V3.sub, V3.neg]; ring⟩⟩

end T4V.Macro
