import T4V.Model.Composition
import T4V.Spec.T4
import T4V.Proofs.WriteRead
/-!
# The COMPOSITION block: from the text the writer model emits to the words the reader sees, and the reader's counter
-/
namespace T4V.CMP
open T4V T4V.CM T4V.CC T4V.WR

/-- a token: non-empty, no white space -/
def Tok (w : String) : Prop := w ≠ "" ∧ ∀ c ∈ w.toList, cws c = false

theorem words_append_blank (a b : String) : words (a ++ " " ++ b) = words a ++ words b := by
  unfold words
  have : (a ++ " " ++ b).toList = a.toList ++ ' ' :: b.toList := by simp
  rw [this, splitWs_append_blank, List.map_append]

theorem words_empty : words "" = [] := by rfl

theorem words_tok (w : String) (h : Tok w) : words w = [w] := by
  have := words_intercalate [w] (by intro x hx; simp at hx; subst hx; exact h)
  simpa using this

theorem tok_lit (w : String) (h : w = "POINT_WISE" ∨ w = "DENSITY" ∨ w = "300" ∨ w = "NB_ATOM" ∨ w = "m0" ∨ w = "1" ∨ w = "HE4" ∨ w = "1E-30") :
    Tok w := by
  rcases h with rfl | rfl | rfl | rfl | rfl | rfl | rfl | rfl <;> exact ⟨by decide, by decide⟩

structure WFComp (c : Comp) : Prop where
  name : Tok (c.name ++ "_" ++ String.ofList c.density)
  dens : Tok (String.ofList (strFabs c.density))
  iso : ∀ p ∈ c.isotopes, Tok p.1 ∧ Tok (String.ofList p.2)

theorem tok_nat (n : Nat) : Tok (toString n) := nat_word n

/-- the reader sees the words of the header -/
theorem words_headerText (c : Comp) (h : WFComp c) : words (headerText c) = headerWords c := by
  unfold headerText headerWords
  by_cases hk : (c.kind == "POINT_WISE") = true
  · simp only [hk, if_true, words_append_blank]
    rw [words_tok _ (tok_lit _ (by simp)), words_tok _ (tok_lit _ (by simp)), words_tok _ h.name, words_tok _ (tok_nat _)]
    rfl
  · simp only [hk, Bool.false_eq_true, if_false, words_append_blank]
    rw [words_tok _ (tok_lit "DENSITY" (by simp)), words_tok _ (tok_lit "300" (by simp)), words_tok _ h.name, words_tok _ h.dens,
      words_tok _ (tok_nat _)]
    by_cases hn : c.nbAtom = true
    · simp only [hn, if_true]
      rw [words_tok _ (tok_lit "NB_ATOM" (by simp))]
      rfl
    · simp only [hn, Bool.false_eq_true, if_false, words_empty]
      rfl

theorem words_nuclideText (n : String) (a : List Char) (hn : Tok n) (ha : Tok (String.ofList a)) :
    words (nuclideText n a) = [n, String.ofList a] := by
  unfold nuclideText
  simp only [words_append_blank, words_empty]
  rw [words_tok _ hn, words_tok _ ha]
  rfl

theorem words_compTextLines (c : Comp) (h : WFComp c) : (compTextLines c).map words = compWordLines c := by
  unfold compTextLines compWordLines
  simp only [List.map_cons, words_headerText c h]
  congr 1
  by_cases he : c.isotopes.isEmpty = true
  · simp only [he, if_true, List.map_cons, List.map_nil, words_append_blank, words_empty]
    rfl
  · simp only [he, Bool.false_eq_true, if_false, List.map_map]
    apply List.map_congr_left
    intro p hp
    obtain ⟨n, a⟩ := p
    exact words_nuclideText n a (h.iso _ hp).1 (h.iso _ hp).2

theorem flatMap_congr' {α β : Type} (l : List α) (f g : α → List β) (h : ∀ x ∈ l, f x = g x) :
    l.flatMap f = l.flatMap g := by
  induction l with
  | nil => rfl
  | cons a l ih =>
    simp only [List.flatMap_cons, h a List.mem_cons_self, ih (fun x hx => h x (List.mem_cons_of_mem _ hx))]

theorem words_blockText (mats : List (Nat × List Comp)) (h : ∀ m ∈ mats, ∀ c ∈ m.2, WFComp c) :
    (blockTextLines mats).map words = blockWordLines mats := by
  unfold blockTextLines blockWordLines
  simp only [List.map_cons, List.map_append, List.map_nil, words_append_blank, words_empty, words_tok _ (tok_nat _)]
  rw [words_tok _ (tok_lit "POINT_WISE" (by simp)), words_tok _ (tok_lit "300" (by simp)), words_tok _ (tok_lit "m0" (by simp)),
    words_tok _ (tok_lit "1" (by simp)), words_tok _ (tok_lit "HE4" (by simp)), words_tok _ (tok_lit "1E-30" (by simp))]
  congr 2
  rw [List.map_flatMap]
  apply flatMap_congr'
  intro c hc
  obtain ⟨m, hm, hcm⟩ := List.mem_flatMap.mp hc
  exact words_compTextLines c (h m hm c hcm)

/-! ### the reader's counter on the lines of a composition -/

theorem repr_ne_nbatom (n : Nat) : n.repr ≠ "NB_ATOM" := by
  intro h
  have h1 := isNat_toString n
  have h2 : ("NB_ATOM" : String).isNat = false := not_isNat_of_mem (c := 'N') (by decide) (by decide) (by decide)
  have : toString n = n.repr := rfl
  rw [this, h, h2] at h1
  exact absurd h1 (by decide)

theorem count_header (c : Comp) : compCount 0 (headerWords c) = some c.isotopes.length := by
  unfold headerWords
  by_cases hk : (c.kind == "POINT_WISE") = true
  · simp [hk, compCount, Nat.toNat?_repr]
  · by_cases hn : c.nbAtom = true
    · simp [hk, hn, compCount, Nat.toNat?_repr, dropNbAtom]
    · have : dropNbAtom [c.isotopes.length.repr] = [c.isotopes.length.repr] := by
        unfold dropNbAtom
        split
        · rename_i r heq
          simp only [List.cons.injEq] at heq
          exact absurd heq.1 (repr_ne_nbatom _)
        · rfl
      simp [hk, hn, compCount, this, Nat.toNat?_repr]

theorem count_nuclide (k : Nat) (n a : String) : compCount (k + 1) [n, a] = some k := by
  simp [compCount]

theorem count_nuclides : ∀ (l : List (String × List Char)) (rest : List (List String)),
    compCountRun l.length (l.map (fun p => [p.1, String.ofList p.2]) ++ rest) = compCountRun 0 rest
  | [], rest => rfl
  | p :: l, rest => by
    simp only [List.length_cons, List.map_cons, List.cons_append, compCountRun, count_nuclide]
    exact count_nuclides l rest

/-- after the lines of a composition the counter is back to zero: the header declares exactly the nuclide lines
that follow -/
theorem count_comp (c : Comp) (rest : List (List String)) :
    compCountRun 0 (compWordLines c ++ rest) = compCountRun 0 rest := by
  unfold compWordLines
  simp only [List.cons_append, compCountRun, count_header]
  by_cases he : c.isotopes.isEmpty = true
  · have : c.isotopes = [] := by simpa using he
    simp [this, compCountRun, compCount]
  · simp only [he, Bool.false_eq_true, if_false]
    have := count_nuclides c.isotopes rest
    simpa using this

theorem count_comps : ∀ (cs : List Comp) (rest : List (List String)),
    compCountRun 0 (cs.flatMap compWordLines ++ rest) = compCountRun 0 rest
  | [], rest => rfl
  | c :: cs, rest => by
    simp only [List.flatMap_cons, List.append_assoc]
    rw [count_comp, count_comps cs rest]

/-- **the COMPOSITION block the writer model emits passes the reader's counter**: no header, nuclide line or end of
block contradicts a declared count — whatever the compositions are -/
theorem count_block (mats : List (Nat × List Comp)) :
    compCountRun 0 (blockWordLines mats ++ [["END_COMPOSITION"]]) = some 0 := by
  unfold blockWordLines
  have h1 : ∀ k : Nat, compCount 0 [toString k] = some 0 := by
    intro k
    unfold compCount
    split <;> simp_all
  simp only [List.cons_append, compCountRun, h1, List.append_assoc]
  rw [count_comps]
  have h2 : ("1" : String).toNat? = some 1 := toNat_toString 1
  simp [compCountRun, compCount, h2]

end T4V.CMP

/-! ### `normalize_float` neither creates white space nor empties a token -/
namespace T4V.CMP
open T4V T4V.CM T4V.CC

theorem mem_splitSign_1 (s : List Char) (c : Char) (h : c ∈ (splitSign s).1) : c ∈ s := by
  unfold splitSign at h
  cases s with
  | nil => simp at h
  | cons a r =>
    by_cases hs : isSign a = true
    · simp [hs] at h; simp [h]
    · simp [hs] at h

theorem mem_splitSign_2 (s : List Char) (c : Char) (h : c ∈ (splitSign s).2) : c ∈ s := by
  unfold splitSign at h
  cases s with
  | nil => simp at h
  | cons a r =>
    by_cases hs : isSign a = true
    · simp [hs] at h; simp [h]
    · simpa [hs] using h

theorem mem_stripZerosR (l : List Char) (c : Char) (h : c ∈ stripZerosR l) : c ∈ l := by
  unfold stripZerosR at h
  have := List.mem_reverse.mp h
  exact List.mem_reverse.mp ((List.dropWhile_sublist _).subset this)

theorem mem_nfStripZeros (s : List Char) (c : Char) (h : c ∈ nfStripZeros s) : c ∈ s := by
  unfold nfStripZeros at h
  generalize hss : splitSign s = ss at h
  obtain ⟨sg, r⟩ := ss
  have h1 : ∀ x ∈ sg, x ∈ s := fun x hx => mem_splitSign_1 s x (by rw [hss]; exact hx)
  have h2 : ∀ x ∈ r, x ∈ s := fun x hx => mem_splitSign_2 s x (by rw [hss]; exact hx)
  simp only at h
  split at h
  · rename_i fp heq
    have hdw : ∀ x ∈ ('.' :: fp), x ∈ s := fun x hx => h2 x (by rw [← heq] at hx; exact (List.dropWhile_sublist _).subset hx)
    by_cases hc : (fp.all isDig && fp.getLast? == some '0') = true
    · rw [if_pos hc] at h
      simp only [List.mem_append, List.mem_singleton] at h
      rcases h with ((h | h) | h) | h
      · exact h1 c h
      · exact h2 c ((List.takeWhile_sublist _).subset h)
      · subst h; exact hdw _ (by simp)
      · exact hdw _ (List.mem_cons_of_mem _ (mem_stripZerosR _ _ h))
    · rw [if_neg hc] at h; exact h
  · exact h

theorem nfStripZeros_ne_nil (s : List Char) (h : s ≠ []) : nfStripZeros s ≠ [] := by
  unfold nfStripZeros
  generalize splitSign s = ss
  obtain ⟨sg, r⟩ := ss
  simp only
  split
  · rename_i fp heq
    by_cases hc : (fp.all isDig && fp.getLast? == some '0') = true
    · rw [if_pos hc]; simp
    · rw [if_neg hc]; exact h
  · exact h

theorem mem_nfPointZero (s : List Char) (c : Char) (h : c ∈ nfPointZero s) : c ∈ s ∨ c = '0' := by
  unfold nfPointZero at h
  by_cases hc : (s.getLast? == some '.') = true
  · rw [if_pos hc] at h
    simp only [List.mem_append, List.mem_singleton] at h; exact h
  · rw [if_neg hc] at h; exact Or.inl h

theorem nfPointZero_ne_nil (s : List Char) (h : s ≠ []) : nfPointZero s ≠ [] := by
  unfold nfPointZero
  by_cases hc : (s.getLast? == some '.') = true
  · rw [if_pos hc]; simp
  · rw [if_neg hc]; exact h

/-- the mantissa split of `nfInsertE` / `parseRealLit`: (fraction digits, rest, has a point) -/
def fracSplit (r1 : List Char) : List Char × List Char × Bool :=
  match r1 with
  | '.' :: t => (t.takeWhile isDig, t.dropWhile isDig, true)
  | t => ([], t, false)

theorem mem_fracSplit (r1 : List Char) (x : Char) :
    (x ∈ (fracSplit r1).1 → x ∈ r1) ∧ (x ∈ (fracSplit r1).2.1 → x ∈ r1) ∧ ((fracSplit r1).2.2 = true → '.' ∈ r1) := by
  unfold fracSplit
  split
  · rename_i t
    refine ⟨fun h => List.mem_cons_of_mem _ ((List.takeWhile_sublist _).subset h),
      fun h => List.mem_cons_of_mem _ ((List.dropWhile_sublist _).subset h), fun _ => by simp⟩
  · exact ⟨fun h => by simp at h, fun h => h, fun h => by simp at h⟩

theorem fracSplit_dot (t : List Char) : fracSplit ('.' :: t) = (t.takeWhile isDig, t.dropWhile isDig, true) := rfl

theorem fracSplit_ne (d : Char) (t : List Char) (hd : d ≠ '.') : fracSplit (d :: t) = ([], d :: t, false) := by
  unfold fracSplit
  split
  · rename_i heq; simp only [List.cons.injEq] at heq; exact absurd heq.1 hd
  · rfl

theorem nfInsertE_eq (s : List Char) : nfInsertE s =
    (let sg := (splitSign s).1
     let r := (splitSign s).2
     let ip := r.takeWhile isDig
     let fs := fracSplit (r.dropWhile isDig)
     if ip.isEmpty && fs.1.isEmpty then s else
     match fs.2.1 with
     | c :: ex =>
         if isSign c && !ex.isEmpty && ex.all isDig then
           sg ++ ip ++ (if fs.2.2 then '.' :: fs.1 else []) ++ ['e', c] ++ ex
         else s
     | [] => s) := by
  unfold nfInsertE
  generalize splitSign s = ss
  obtain ⟨sg, r⟩ := ss
  simp only
  generalize List.dropWhile isDig r = r1
  cases r1 with
  | nil => rfl
  | cons d t =>
    by_cases hd : d = '.'
    · subst hd; rfl
    · rw [fracSplit_ne d t hd]
      split
      · rename_i heq; simp only [List.cons.injEq] at heq; exact absurd heq.1 hd
      · rfl

theorem mem_nfInsertE (s : List Char) (c : Char) (h : c ∈ nfInsertE s) : c ∈ s ∨ c = 'e' := by
  rw [nfInsertE_eq] at h
  simp only at h
  have h1 : ∀ x ∈ (splitSign s).1, x ∈ s := fun x hx => mem_splitSign_1 s x hx
  have h2 : ∀ x ∈ (splitSign s).2, x ∈ s := fun x hx => mem_splitSign_2 s x hx
  have hdw : ∀ x ∈ List.dropWhile isDig (splitSign s).2, x ∈ s := fun x hx => h2 x ((List.dropWhile_sublist _).subset hx)
  generalize hfs : fracSplit (List.dropWhile isDig (splitSign s).2) = fs at h
  have hm := fun x => mem_fracSplit (List.dropWhile isDig (splitSign s).2) x
  rw [hfs] at hm
  split at h
  · exact Or.inl h
  · split at h
    · rename_i c' ex heq
      have hex : ∀ x ∈ c' :: ex, x ∈ s := fun x hx => hdw x ((hm x).2.1 (by rw [heq]; exact hx))
      split at h
      · simp only [List.mem_append, List.mem_cons, List.not_mem_nil, or_false] at h
        rcases h with (((h | h) | h) | (h | h)) | h
        · exact Or.inl (h1 c h)
        · exact Or.inl (h2 c ((List.takeWhile_sublist _).subset h))
        · split at h
          · rename_i hp
            rcases List.mem_cons.mp h with h | h
            · subst h; exact Or.inl (hdw _ ((hm '.').2.2 hp))
            · exact Or.inl (hdw c ((hm c).1 h))
          · simp at h
        · exact Or.inr h
        · subst h; exact Or.inl (hex _ (by simp))
        · exact Or.inl (hex c (List.mem_cons_of_mem _ h))
      · exact Or.inl h
    · exact Or.inl h

theorem nfInsertE_ne_nil (s : List Char) (h : s ≠ []) : nfInsertE s ≠ [] := by
  rw [nfInsertE_eq]
  simp only
  split
  · exact h
  · split
    · split
      · simp
      · exact h
    · exact h

theorem mem_nfMarkers (s : List Char) (c : Char) (h : c ∈ nfMarkers s) : c ∈ s ∨ c = 'e' := by
  unfold nfMarkers at h
  obtain ⟨x, hx, rfl⟩ := List.mem_map.mp h
  split
  · exact Or.inr rfl
  · exact Or.inl hx

/-- every character of `normalize_float(s)` is a character of `s`, an `e` or a `0` -/
theorem mem_normalizeFloat (s : List Char) (c : Char) (h : c ∈ normalizeFloat s) : c ∈ s ∨ c = 'e' ∨ c = '0' := by
  unfold normalizeFloat at h
  rcases mem_nfMarkers _ c h with h | h
  · rcases mem_nfInsertE _ c h with h | h
    · rcases mem_nfPointZero _ c h with h | h
      · exact Or.inl (mem_nfStripZeros s c h)
      · exact Or.inr (Or.inr h)
    · exact Or.inr (Or.inl h)
  · exact Or.inr (Or.inl h)

theorem normalizeFloat_ne_nil (s : List Char) (h : s ≠ []) : normalizeFloat s ≠ [] := by
  unfold normalizeFloat nfMarkers
  simp only [ne_eq, List.map_eq_nil_iff]
  exact nfInsertE_ne_nil _ (nfPointZero_ne_nil _ (nfStripZeros_ne_nil s h))

end T4V.CMP

/-! ### the compositions the pipeline builds consist of tokens -/
namespace T4V.CMP
open T4V T4V.CM T4V.CC

/-- a token as a list of characters -/
def TokL (l : List Char) : Prop := l ≠ [] ∧ ∀ c ∈ l, cws c = false

theorem tok_ofList (l : List Char) (h : TokL l) : Tok (String.ofList l) := by
  refine ⟨?_, by simpa using h.2⟩
  intro he
  apply h.1
  have := congrArg String.toList he
  simpa using this

theorem tokL_normalizeFloat (s : List Char) (h : TokL s) : TokL (normalizeFloat s) := by
  refine ⟨normalizeFloat_ne_nil s h.1, fun c hc => ?_⟩
  rcases mem_normalizeFloat s c hc with h1 | rfl | rfl
  · exact h.2 c h1
  · decide
  · decide

theorem strFabs_sub (f : List Char) (c : Char) (h : c ∈ strFabs f) : c ∈ f := by
  unfold strFabs at h
  split at h
  · exact List.mem_cons_of_mem _ h
  · exact h

end T4V.CMP

namespace T4V.CMP
open T4V T4V.CM T4V.CC T4V.WR

theorem symbols_tok : ∀ s ∈ symbols, Tok s := by
  intro s hs
  simp only [symbols, List.mem_cons, List.not_mem_nil, or_false] at hs
  rcases hs with rfl | rfl | rfl | rfl | rfl | rfl | rfl | rfl | rfl | rfl | rfl | rfl | rfl | rfl | rfl | rfl | rfl | rfl | rfl | rfl |
    rfl | rfl | rfl | rfl | rfl | rfl | rfl | rfl | rfl | rfl | rfl | rfl | rfl | rfl | rfl | rfl | rfl | rfl | rfl | rfl |
    rfl | rfl | rfl | rfl | rfl | rfl | rfl | rfl | rfl | rfl | rfl | rfl | rfl | rfl | rfl | rfl | rfl | rfl | rfl | rfl |
    rfl | rfl | rfl | rfl | rfl | rfl | rfl | rfl | rfl | rfl | rfl | rfl | rfl | rfl | rfl | rfl | rfl | rfl | rfl | rfl |
    rfl | rfl | rfl | rfl | rfl | rfl | rfl | rfl | rfl | rfl | rfl | rfl | rfl | rfl | rfl | rfl | rfl | rfl | rfl | rfl |
    rfl | rfl | rfl | rfl | rfl | rfl | rfl | rfl | rfl | rfl | rfl | rfl | rfl | rfl | rfl | rfl | rfl | rfl <;>
    exact ⟨by decide, by decide⟩

theorem tok_append (a b : String) (ha : Tok a) (hb : ∀ c ∈ b.toList, cws c = false) : Tok (a ++ b) := by
  refine ⟨?_, ?_⟩
  · intro he
    apply ha.1
    have := congrArg String.toList he
    simp only [String.toList_append, String.toList_empty, List.append_eq_nil_iff] at this
    exact String.toList_eq_nil_iff.mp this.1 |> fun h => by simpa using h
  · intro c hc
    simp only [String.toList_append, List.mem_append] at hc
    rcases hc with h | h
    · exact ha.2 c h
    · exact hb c h

theorem isoName_tok (z a : Nat) : Tok (isoName z a) := by
  unfold isoName
  have hs : Tok (symbols.getD (z - 1) "?") := by
    rw [List.getD_eq_getElem?_getD]
    cases h : symbols[z - 1]? with
    | none => exact ⟨by decide, by decide⟩
    | some s => exact symbols_tok s (List.mem_of_getElem? h)
  apply tok_append _ _ hs
  split
  · decide
  · exact (tok_nat a).2

end T4V.CMP

namespace T4V.CMP
open T4V T4V.CM T4V.CC T4V.WR

/-- the isotopes of an abundance list are tokens -/
def WFIso (l : List (String × List Char)) : Prop := ∀ p ∈ l, Tok p.1 ∧ TokL p.2

theorem convLoop_wf (pos : Bool) : ∀ (ps : List (List Char × List Char)) (ns : List (String × List Char)),
    (∀ p ∈ ps, ∀ c ∈ p.2, cws c = false) → convLoop pos ps = .ok ns → WFIso ns
  | [], ns, _, h => by
    simp only [convLoop, Except.ok.injEq] at h; subst h
    intro p hp; simp at hp
  | (zaid, f) :: r, ns, hw, h => by
    unfold convLoop at h
    split at h
    · simp at h
    · split at h
      · simp at h
      · rename_i z a _
        split at h
        · simp at h
        · rename_i hne
          split at h
          · simp at h
          · rename_i ns' hr
            simp only [Except.ok.injEq] at h; subst h
            have ih := convLoop_wf pos r ns' (fun p hp => hw p (List.mem_cons_of_mem _ hp)) hr
            intro p hp
            rcases List.mem_cons.mp hp with rfl | hp'
            · refine ⟨isoName_tok z a, tokL_normalizeFloat _ ⟨?_, fun c hc => hw (zaid, f) List.mem_cons_self c (strFabs_sub f c hc)⟩⟩
              intro he; apply hne; simp [he]
            · exact ih p hp'

theorem convCard_wf (ps : List (List Char × List Char)) (ab : Abund)
    (hw : ∀ p ∈ ps, ∀ c ∈ p.2, cws c = false) (h : convCard ps = .ok ab) : WFIso ab.isotopes := by
  unfold convCard at h
  split at h
  · simp only [Except.ok.injEq] at h; subst h; intro p hp; simp at hp
  · split at h
    · simp at h
    · rename_i ns hl
      simp only [Except.ok.injEq] at h; subst h
      exact convLoop_wf _ _ ns hw hl

theorem pairs_second : ∀ (toks : List (List Char)) (ps : List (List Char × List Char)),
    pairs toks = .ok ps → ∀ p ∈ ps, p.2 ∈ toks
  | [], ps, h, p, hp => by simp only [pairs, Except.ok.injEq] at h; subst h; simp at hp
  | [z], ps, h, p, hp => by
    unfold pairs at h
    split at h
    · simp only [Except.ok.injEq] at h; subst h; simp at hp
    · simp at h
  | z :: f :: r, ps, h, p, hp => by
    unfold pairs at h
    split at h
    · exact List.mem_cons_of_mem _ (pairs_second (f :: r) ps h p hp)
    · split at h
      · rename_i ps' hr
        simp only [Except.ok.injEq] at h; subst h
        rcases List.mem_cons.mp hp with rfl | hp'
        · simp
        · exact List.mem_cons_of_mem _ (List.mem_cons_of_mem _ (pairs_second r ps' hr p hp'))
      · simp at h

end T4V.CMP

namespace T4V.CMP
open T4V T4V.CM T4V.CC T4V.WR

theorem strFabs_ne_nil_of_parse (s : List Char) (l : RealLit) (h : parseRealLit s = some l) : strFabs s ≠ [] := by
  intro he
  unfold strFabs at he
  have hs : s = [] ∨ s = ['-'] := by
    split at he
    · right; rw [he]
    · left; exact he
  rcases hs with rfl | rfl <;> simp [parseRealLit, splitSign, isSign] at h

theorem name_tok (key : Nat) (d : List Char) (hd : ∀ c ∈ d, cws c = false) :
    Tok ("m" ++ toString key ++ "_" ++ String.ofList d) := by
  apply tok_append
  · apply tok_append
    · apply tok_append _ _ ⟨by decide, by decide⟩
      exact (tok_nat key).2
    · decide
  · simpa using hd

theorem compsOf_wf (key : Nat) (ab : Abund) (hab : WFIso ab.isotopes) :
    ∀ (cells : List CCell) (seen : List (List Char)) (cs : List Comp),
      (∀ c ∈ cells, TokL c.density) → compsOf key ab cells seen = .ok cs → ∀ c ∈ cs, WFComp c
  | [], seen, cs, _, h => by
    simp only [compsOf, Except.ok.injEq] at h; subst h; intro c hc; simp at hc
  | cell :: r, seen, cs, hw, h => by
    unfold compsOf at h
    have hwr : ∀ c ∈ r, TokL c.density := fun c hc => hw c (List.mem_cons_of_mem _ hc)
    split at h
    · exact compsOf_wf key ab hab r seen cs hwr h
    · split at h
      · simp at h
      · rename_i neg hneg
        simp only at h
        split at h
        · simp at h
        · split at h
          · simp at h
          · split at h
            · simp at h
            · rename_i cs' hr
              simp only [Except.ok.injEq] at h; subst h
              have hd := tokL_normalizeFloat cell.density (hw cell List.mem_cons_self)
              have hfab : TokL (strFabs (normalizeFloat cell.density)) := by
                refine ⟨?_, fun c hc => hd.2 c (strFabs_sub _ c hc)⟩
                unfold densNeg? at hneg
                split at hneg
                · simp at hneg
                · rename_i l hl; exact strFabs_ne_nil_of_parse _ l hl
              intro c hc
              rcases List.mem_cons.mp hc with rfl | hc'
              · by_cases hn : neg = true
                · simp only [hn, if_true]
                  exact ⟨name_tok key _ hd.2, tok_ofList _ hfab, fun p hp => ⟨(hab p hp).1, tok_ofList _ (hab p hp).2⟩⟩
                · simp only [hn, Bool.false_eq_true, if_false]
                  refine ⟨name_tok key _ hd.2, tok_ofList _ hfab, fun p hp => ?_⟩
                  split at hp
                  · obtain ⟨q, hq, rfl⟩ := List.mem_map.mp hp
                    exact ⟨(hab q hq).1, (by show Tok (String.ofList ['*']); exact ⟨by decide, by decide⟩)⟩
                  · simp at hp
              · exact compsOf_wf key ab hab r (cell.density :: seen) cs' hwr hr c hc'

theorem construct_wf (cells : List CCell) (hw : ∀ c ∈ cells, TokL c.density) :
    ∀ (abs : List (Nat × Abund)) (mats : List (Nat × List Comp)),
      (∀ a ∈ abs, WFIso a.2.isotopes) → construct cells abs = .ok mats → ∀ m ∈ mats, ∀ c ∈ m.2, WFComp c
  | [], mats, _, h => by
    simp only [construct, Except.ok.injEq] at h; subst h; intro m hm; simp at hm
  | (k, ab) :: r, mats, ha, h => by
    unfold construct at h
    split at h
    · simp at h
    · rename_i cs hcs
      split at h
      · simp at h
      · rename_i xs hxs
        simp only [Except.ok.injEq] at h; subst h
        have ih := construct_wf cells hw r xs (fun a h' => ha a (List.mem_cons_of_mem _ h')) hxs
        have hc := compsOf_wf k ab (ha (k, ab) List.mem_cons_self) cells [] cs hw hcs
        intro m hm
        split at hm
        · exact ih m hm
        · rcases List.mem_cons.mp hm with rfl | hm'
          · exact hc
          · exact ih m hm'

end T4V.CMP

namespace T4V.CMP
open T4V T4V.CM T4V.CC T4V.WR

theorem cardDict_values : ∀ (cards : List (Nat × List (List Char))) (e : Nat × List (List Char)),
    e ∈ cardDict cards → ∃ e' ∈ cards, e.2 = e'.2
  | [], e, h => by simp [cardDict] at h
  | (k, v) :: r, e, h => by
    unfold cardDict at h
    simp only at h
    have ih := cardDict_values r
    split at h
    · rename_i v' hf
      rcases List.mem_cons.mp h with rfl | h'
      · have hm := List.mem_of_find?_eq_some hf
        obtain ⟨e', he', heq⟩ := ih _ hm
        exact ⟨e', List.mem_cons_of_mem _ he', heq⟩
      · obtain ⟨e', he', heq⟩ := ih e (List.mem_filter.mp h').1
        exact ⟨e', List.mem_cons_of_mem _ he', heq⟩
    · rcases List.mem_cons.mp h with rfl | h'
      · exact ⟨_, List.mem_cons_self, rfl⟩
      · obtain ⟨e', he', heq⟩ := ih e h'
        exact ⟨e', List.mem_cons_of_mem _ he', heq⟩

theorem parseAll_tokens : ∀ (cards : List (Nat × List (List Char))) (pss : List (Nat × List (List Char × List Char))),
    parseAll cards = .ok pss → ∀ e ∈ pss, ∀ p ∈ e.2, ∃ e' ∈ cards, p.2 ∈ e'.2
  | [], pss, h, e, he => by simp only [parseAll, Except.ok.injEq] at h; subst h; simp at he
  | (k, toks) :: r, pss, h, e, he => by
    unfold parseAll at h
    split at h
    · simp at h
    · rename_i ps hps
      split at h
      · simp at h
      · rename_i xs hxs
        simp only [Except.ok.injEq] at h; subst h
        intro p hp
        rcases List.mem_cons.mp he with rfl | he'
        · exact ⟨(k, toks), List.mem_cons_self, pairs_second toks ps hps p hp⟩
        · obtain ⟨e', he'', hm⟩ := parseAll_tokens r xs hxs e he' p hp
          exact ⟨e', List.mem_cons_of_mem _ he'', hm⟩

theorem convAll_wf : ∀ (pss : List (Nat × List (List Char × List Char))) (abs : List (Nat × Abund)),
    (∀ e ∈ pss, ∀ p ∈ e.2, ∀ c ∈ p.2, cws c = false) → convAll pss = .ok abs → ∀ a ∈ abs, WFIso a.2.isotopes
  | [], abs, _, h, a, ha => by simp only [convAll, Except.ok.injEq] at h; subst h; simp at ha
  | (k, ps) :: r, abs, hw, h, a, ha => by
    unfold convAll at h
    split at h
    · simp at h
    · rename_i ab hab
      split at h
      · simp at h
      · rename_i xs hxs
        simp only [Except.ok.injEq] at h; subst h
        rcases List.mem_cons.mp ha with rfl | ha'
        · exact convCard_wf ps ab (hw (k, ps) List.mem_cons_self) hab
        · exact convAll_wf r xs (fun e he => hw e (List.mem_cons_of_mem _ he)) hxs a ha'

/-- **whatever the material cards and the cells are, the COMPOSITION block that is written passes the reader's
counter**: the reader, splitting each line of the text into words, finds after every header exactly as many nuclide
lines as the header declares.  The hypotheses say only that the tokens of the cards contain no white space and that
the density literals are tokens — they come out of `str.split()`. -/
theorem block_reads_back (cards : List (Nat × List (List Char))) (cells : List CCell) (lines : List String)
    (hc : ∀ e ∈ cards, ∀ t ∈ e.2, ∀ c ∈ t, cws c = false) (hd : ∀ c ∈ cells, TokL c.density)
    (h : run cards cells = .ok lines) :
    compCountRun 0 (lines.map words ++ [["END_COMPOSITION"]]) = some 0 := by
  unfold run at h
  split at h
  · simp at h
  · rename_i pss hpss
    split at h
    · simp at h
    · rename_i abs habs
      split at h
      · simp at h
      · rename_i mats hmats
        simp only [Except.ok.injEq] at h; subst h
        have hw1 : ∀ e ∈ pss, ∀ p ∈ e.2, ∀ c ∈ p.2, cws c = false := by
          intro e he p hp c hcm
          obtain ⟨e', he', hm⟩ := parseAll_tokens _ pss hpss e he p hp
          obtain ⟨e'', he'', heq⟩ := cardDict_values cards e' he'
          exact hc e'' he'' p.2 (heq ▸ hm) c hcm
        have hw2 := convAll_wf pss abs hw1 habs
        have hw3 := construct_wf cells hd abs mats hw2 hmats
        rw [words_blockText mats hw3]
        exact count_block mats

end T4V.CMP
