import T4V.Model.GeomComp
/-! # `constructGeomCompT4`: what is filed under each name (lemmas for property C09) -/
namespace T4V

theorem find_none_of_not_any (g : List (String × List Nat)) (name : String) (h : g.any (·.1 == name) = false) :
    g.find? (·.1 == name) = none := by
  rw [List.find?_eq_none]
  intro x hx
  have := List.any_eq_false.mp h x hx
  simpa using this

theorem find_some_of_any (g : List (String × List Nat)) (name : String) (h : g.any (·.1 == name) = true) :
    ∃ x, g.find? (·.1 == name) = some x ∧ x.1 = name := by
  cases hf : g.find? (·.1 == name) with
  | none =>
    rw [List.find?_eq_none] at hf
    obtain ⟨x, hx, hp⟩ := List.any_eq_true.mp h
    exact absurd hp (hf x hx)
  | some x => exact ⟨x, rfl, by simpa using List.find?_some hf⟩

theorem filedUnder_addTo (g : List (String × List Nat)) (name name' : String) (k : Nat) :
    filedUnder (addTo g name k) name' = if name' = name then filedUnder g name ++ [k] else filedUnder g name' := by
  unfold addTo
  cases hany : g.any (·.1 == name) with
  | true =>
    simp only [if_true]
    have hcomp : ((fun x : String × List Nat => x.1 == name') ∘
        fun g : String × List Nat => if (g.1 == name) = true then (g.1, g.2 ++ [k]) else g)
        = fun x => x.1 == name' := by
      funext x
      simp only [Function.comp]
      split <;> rfl
    unfold filedUnder
    rw [List.find?_map, hcomp]
    by_cases hn : name' = name
    · subst hn
      obtain ⟨x, hx, hx1⟩ := find_some_of_any g name' hany
      simp [hx, hx1]
    · simp only [hn, if_false]
      cases hf : g.find? (·.1 == name') with
      | none => simp
      | some x =>
        have hx1 : x.1 = name' := by simpa using List.find?_some hf
        have : ¬ x.1 = name := by rw [hx1]; exact hn
        simp [this]
  | false =>
    simp only [Bool.false_eq_true, if_false]
    unfold filedUnder
    rw [List.find?_append]
    by_cases hn : name' = name
    · subst hn
      simp [find_none_of_not_any g name' hany]
    · have : (name == name') = false := by simp; exact fun h => hn h.symm
      simp only [hn, if_false, List.find?, this]
      cases g.find? (·.1 == name') <;> simp

/-- the names under which a volume is filed: the composition name of its owner, when it is not fictive -/
def fileName (cells : Nat → Option GCell) (v : GVol) : Option String :=
  if v.fictive then none else (cells v.owner).map compName

theorem geomCompFrom_spec (cells : Nat → Option GCell) :
    ∀ (vols : List GVol) (g gs : List (String × List Nat)), geomCompFrom cells vols g = some gs →
      ∀ name, filedUnder gs name = filedUnder g name ++ (vols.filter fun v => fileName cells v == some name).map (·.id)
  | [], g, gs, h, name => by
    simp only [geomCompFrom, Option.some.injEq] at h
    subst h; simp
  | v :: vs, g, gs, h, name => by
    unfold geomCompFrom at h
    by_cases hf : v.fictive = true
    · simp only [hf, if_true] at h
      rw [geomCompFrom_spec cells vs g gs h name]
      simp [List.filter_cons, fileName, hf]
    · simp only [hf, Bool.false_eq_true, if_false] at h
      cases hc : cells v.owner with
      | none => simp [hc] at h
      | some c =>
        simp only [hc] at h
        rw [geomCompFrom_spec cells vs _ gs h name, filedUnder_addTo]
        have hfn : fileName cells v = some (compName c) := by simp [fileName, hf, hc]
        by_cases hn : name = compName c
        · subst hn
          simp [List.filter_cons, hfn]
        · have : (some (compName c) == some name) = false := by simp; exact fun h => hn h.symm
          simp [List.filter_cons, hfn, hn, this]

/-- no missing owner among the non-fictive volumes when the construction succeeds -/
theorem geomCompFrom_owner (cells : Nat → Option GCell) :
    ∀ (vols : List GVol) (g gs : List (String × List Nat)), geomCompFrom cells vols g = some gs →
      ∀ v ∈ vols, v.fictive = false → ∃ c, cells v.owner = some c
  | [], _, _, _, v, hv, _ => by simp at hv
  | w :: vs, g, gs, h, v, hv, hnf => by
    unfold geomCompFrom at h
    by_cases hf : w.fictive = true
    · simp only [hf, if_true] at h
      rcases List.mem_cons.mp hv with rfl | hv'
      · simp [hf] at hnf
      · exact geomCompFrom_owner cells vs g gs h v hv' hnf
    · simp only [hf, Bool.false_eq_true, if_false] at h
      cases hc : cells w.owner with
      | none => simp [hc] at h
      | some c =>
        simp only [hc] at h
        rcases List.mem_cons.mp hv with rfl | hv'
        · exact ⟨c, hc⟩
        · exact geomCompFrom_owner cells vs _ gs h v hv' hnf

end T4V

namespace T4V

/-- splitting at the first underscore is unique when the part in front has none -/
theorem split_underscore (a b c d : List Char) (ha : '_' ∉ a) (hc : '_' ∉ c) (h : a ++ '_' :: b = c ++ '_' :: d) :
    a = c ∧ b = d := by
  induction a generalizing c with
  | nil =>
    cases c with
    | nil => simpa using h
    | cons y ys =>
      simp only [List.nil_append, List.cons_append, List.cons.injEq] at h
      exact absurd (h.1 ▸ List.mem_cons_self) hc
  | cons x xs ih =>
    cases c with
    | nil =>
      simp only [List.nil_append, List.cons_append, List.cons.injEq] at h
      exact absurd (h.1 ▸ List.mem_cons_self) ha
    | cons y ys =>
      simp only [List.cons_append, List.cons.injEq] at h
      obtain ⟨rfl, h2⟩ := h
      have := ih ys (fun hm => ha (List.mem_cons_of_mem _ hm)) (fun hm => hc (List.mem_cons_of_mem _ hm)) h2
      exact ⟨by rw [this.1], this.2⟩

/-- **different (material, density) pairs get different composition names** (material numbers contain no `_`) -/
theorem compName_injective (c1 c2 : GCell) (h1 : '_' ∉ c1.mat.toList) (h2 : '_' ∉ c2.mat.toList)
    (h : compName c1 = compName c2) : c1 = c2 := by
  obtain ⟨m1, r1⟩ := c1
  obtain ⟨m2, r2⟩ := c2
  simp only at h1 h2
  have hl := congrArg String.toList h
  cases r1 with
  | none =>
    cases r2 with
    | none => simp only [compName] at h; subst h; rfl
    | some d2 =>
      simp only [compName, String.toList_append] at hl
      exfalso
      apply h1
      rw [hl]
      simp
  | some d1 =>
    cases r2 with
    | none =>
      simp only [compName, String.toList_append] at hl
      exfalso
      apply h2
      rw [← hl]
      simp
    | some d2 =>
      simp only [compName, String.toList_append, List.append_assoc] at hl
      have hu : "_".toList = ['_'] := rfl
      rw [hu] at hl
      simp only [List.singleton_append] at hl
      obtain ⟨e1, e2⟩ := split_underscore _ _ _ _ h1 h2 hl
      have em : m1 = m2 := String.toList_inj.mp e1
      have ed : d1 = d2 := String.toList_inj.mp e2
      subst em; subst ed; rfl

end T4V
