import T4V.Model.Write
import T4V.Spec.T4
import T4V.Proofs.OptTokens
import T4V.Proofs.CellCard
import Std.Data.String.ToNat
/-!
# The reader of `VOLU` bodies inverts the writer (lemmas for property C08)
-/
namespace T4V.WR
open T4V

theorem toNat_toString (n : Nat) : (toString n).toNat? = some n := Nat.toNat?_repr n

theorem isNat_toString (n : Nat) : (toString n).isNat = true := Nat.isNat_repr n

/-- a word with a letter is not a number -/
theorem not_isNat_of_mem {s : String} {c : Char} (hc : c ∈ s.toList) (hd : c.isDigit = false) (hu : c ≠ '_') :
    s.isNat = false := by
  cases h : s.isNat with
  | false => rfl
  | true =>
    exfalso
    have := (String.isNat_iff.mp h).2.1 c hc
    rcases this with h1 | h1
    · rw [hd] at h1; exact Bool.noConfusion h1
    · exact hu h1

theorem isKw_isNat {t : String} (h : isKw t = true) : t.isNat = false := by
  simp only [isKw, Bool.or_eq_true, beq_iff_eq] at h
  rcases h with ((((h | h) | h) | h) | h) | h <;> subst h
  · exact not_isNat_of_mem (c := 'P') (by decide) (by decide) (by decide)
  · exact not_isNat_of_mem (c := 'M') (by decide) (by decide) (by decide)
  · exact not_isNat_of_mem (c := 'U') (by decide) (by decide) (by decide)
  · exact not_isNat_of_mem (c := 'I') (by decide) (by decide) (by decide)
  · exact not_isNat_of_mem (c := 'F') (by decide) (by decide) (by decide)
  · exact not_isNat_of_mem (c := 'E') (by decide) (by decide) (by decide)

theorem isKw_toString (n : Nat) : isKw (toString n) = false := by
  cases hk : isKw (toString n) with
  | false => rfl
  | true => have := isKw_isNat hk; rw [isNat_toString] at this; exact Bool.noConfusion this

theorem isKw_repr (n : Nat) : isKw n.repr = false := isKw_toString n

/-- the items of a section end at the next keyword -/
theorem takeWhile_ids (ids : List Nat) (k : String) (r : List String) (hk : isKw k = true) :
    (ids.map toString ++ k :: r).takeWhile (fun t => !isKw t) = ids.map toString := by
  induction ids with
  | nil => simp [hk]
  | cons a ids ih => simp [List.takeWhile, isKw_repr, ih]

theorem dropWhile_ids (ids : List Nat) (k : String) (r : List String) (hk : isKw k = true) :
    (ids.map toString ++ k :: r).dropWhile (fun t => !isKw t) = k :: r := by
  induction ids with
  | nil => simp [hk]
  | cons a ids ih => simp [List.dropWhile, isKw_repr, ih]

theorem readCounted_ids (ids : List Nat) (k : String) (r : List String) (hk : isKw k = true) :
    readCounted (toString ids.length :: (ids.map toString ++ k :: r)) = (some ids.length, ids.map toString, k :: r) := by
  simp only [readCounted, toNat_toString, takeWhile_ids ids k r hk, dropWhile_ids ids k r hk]

theorem natItems_ids (ctx : String) (ids : List Nat) : natItems ctx (ids.map toString) = (ids, []) := by
  induction ids with
  | nil => rfl
  | cons a ids ih =>
    simp only [natItems, Prod.mk.injEq] at ih ⊢
    simp only [List.map_cons, List.filterMap_cons, toNat_toString, List.filter_cons, Option.isNone_some]
    exact ⟨by rw [ih.1], by simpa using ih.2⟩

theorem countErr_ok (ctx kw : String) (n : Nat) : countErr ctx kw (some n) n = [] := by
  simp [countErr]

def opName : OpKind → String
  | .union => "UNION"
  | .inte => "INTE"

theorem isKw_opName (o : OpKind) : isKw (opName o) = true := by cases o <;> rfl

variable (ctx : String)

theorem readBody_plus (fuel : Nat) (ids : List Nat) (k : String) (r : List String) (hk : isKw k = true) (b : VBody) :
    readBody ctx (fuel + 1) ("PLUS" :: toString ids.length :: (ids.map toString ++ k :: r)) b
      = readBody ctx fuel (k :: r) { b with pluses := b.pluses ++ ids } := by
  rw [readBody]
  simp only [beq_self_eq_true, if_true, readCounted_ids ids k r hk, natItems_ids, countErr_ok, List.length_map,
    List.append_nil]

theorem readBody_minus (fuel : Nat) (ids : List Nat) (k : String) (r : List String) (hk : isKw k = true) (b : VBody) :
    readBody ctx (fuel + 1) ("MINUS" :: toString ids.length :: (ids.map toString ++ k :: r)) b
      = readBody ctx fuel (k :: r) { b with minuses := b.minuses ++ ids } := by
  rw [readBody]
  simp only [show ("MINUS" == "PLUS") = false by decide, beq_self_eq_true, if_true, Bool.false_eq_true, if_false,
    readCounted_ids ids k r hk, natItems_ids, countErr_ok, List.length_map, List.append_nil]

theorem readBody_op (fuel : Nat) (o : OpKind) (ids : List Nat) (k : String) (r : List String) (hk : isKw k = true)
    (b : VBody) (hb : b.op = none) :
    readBody ctx (fuel + 1) (opName o :: toString ids.length :: (ids.map toString ++ k :: r)) b
      = readBody ctx fuel (k :: r) { b with op := some (o, ids) } := by
  rw [readBody]
  cases o
  · simp only [opName, show ("UNION" == "PLUS") = false by decide, show ("UNION" == "MINUS") = false by decide,
      beq_self_eq_true, Bool.true_or, if_true, Bool.false_eq_true, if_false,
      readCounted_ids ids k r hk, natItems_ids, countErr_ok, List.length_map, List.append_nil, hb, Option.isSome_none]
  · simp only [opName, show ("INTE" == "PLUS") = false by decide, show ("INTE" == "MINUS") = false by decide,
      show ("INTE" == "UNION") = false by decide, beq_self_eq_true, Bool.or_true, if_true, Bool.false_eq_true, if_false,
      readCounted_ids ids k r hk, natItems_ids, countErr_ok, List.length_map, List.append_nil, hb, Option.isSome_none]

theorem readBody_fictive (fuel : Nat) (r : List String) (b : VBody) :
    readBody ctx (fuel + 1) ("FICTIVE" :: r) b = readBody ctx fuel r { b with fictive := true } := by
  rw [readBody]
  simp

theorem readBody_endv (fuel : Nat) (b : VBody) :
    readBody ctx (fuel + 1) ["ENDV"] b = { b with ended := true } := by
  rw [readBody]
  simp

/-! ### the four stages of a line, last to first -/

def tailE (fict : Bool) : List String := (if fict then ["FICTIVE"] else []) ++ ["ENDV"]

def opWords : Option (OpKind × List Nat) → List String
  | some (o, ids) => [opName o, toString ids.length] ++ ids.map toString
  | none => []

def sect (kw : String) (ids : List Nat) : List String :=
  if ids.isEmpty then [] else [kw, toString ids.length] ++ (ids.mergeSort natLe).map toString

theorem tailE_head (fict : Bool) : ∃ k r, tailE fict = k :: r ∧ isKw k = true := by
  cases fict
  · exact ⟨"ENDV", [], rfl, rfl⟩
  · exact ⟨"FICTIVE", ["ENDV"], rfl, rfl⟩

theorem stageE (fict : Bool) (fuel : Nat) (b : VBody) :
    readBody ctx (fuel + 2) (tailE fict) b = { b with fictive := fict || b.fictive, ended := true } := by
  cases fict
  · simp only [tailE, Bool.false_eq_true, if_false, List.nil_append, readBody_endv, Bool.false_or]
  · simp only [tailE, if_true, List.singleton_append, readBody_fictive, readBody_endv, Bool.true_or]

theorem tailO_head (ops : Option (OpKind × List Nat)) (fict : Bool) :
    ∃ k r, opWords ops ++ tailE fict = k :: r ∧ isKw k = true := by
  cases ops with
  | none => simpa [opWords] using tailE_head fict
  | some x => exact ⟨opName x.1, _, rfl, isKw_opName _⟩

theorem stageO (ops : Option (OpKind × List Nat)) (fict : Bool) (fuel : Nat) (b : VBody) (hb : b.op = none) :
    readBody ctx (fuel + 3) (opWords ops ++ tailE fict) b
      = { b with op := ops, fictive := fict || b.fictive, ended := true } := by
  cases ops with
  | none => simp only [opWords, List.nil_append, stageE, hb]
  | some x =>
    obtain ⟨o, ids⟩ := x
    obtain ⟨k, r, hkr, hk⟩ := tailE_head fict
    have := readBody_op ctx (fuel + 2) o ids k r hk b hb
    simp only [opWords, List.cons_append, List.nil_append, hkr] at this ⊢
    rw [this, ← hkr, stageE]

theorem sect_head (kw : String) (hkw : isKw kw = true) (ids : List Nat) (rest : List String)
    (hr : ∃ k r, rest = k :: r ∧ isKw k = true) : ∃ k r, sect kw ids ++ rest = k :: r ∧ isKw k = true := by
  cases ids with
  | nil => simpa [sect] using hr
  | cons a l => exact ⟨kw, _, rfl, hkw⟩

theorem sect_nonempty (kw : String) (a : Nat) (l : List Nat) (rest : List String) :
    sect kw (a :: l) ++ rest
      = kw :: toString ((a :: l).mergeSort natLe).length :: (((a :: l).mergeSort natLe).map toString ++ rest) := by
  simp [sect, List.length_mergeSort]

theorem stageM (M : List Nat) (ops : Option (OpKind × List Nat)) (fict : Bool) (fuel : Nat) (b : VBody)
    (hb : b.op = none) :
    readBody ctx (fuel + 4) (sect "MINUS" M ++ (opWords ops ++ tailE fict)) b
      = { b with minuses := b.minuses ++ M.mergeSort natLe, op := ops, fictive := fict || b.fictive, ended := true } := by
  cases M with
  | nil => simp only [sect, List.isEmpty_nil, if_true, List.nil_append, stageO ctx ops fict (fuel + 1) b hb,
      List.mergeSort_nil, List.append_nil]
  | cons a l =>
    obtain ⟨k, r, hkr, hk⟩ := tailO_head ops fict
    rw [sect_nonempty, hkr, readBody_minus ctx (fuel + 3) _ k r hk, ← hkr]
    exact stageO ctx ops fict fuel { b with minuses := b.minuses ++ (a :: l).mergeSort natLe } hb

theorem stageP (P M : List Nat) (ops : Option (OpKind × List Nat)) (fict : Bool) (fuel : Nat) (b : VBody)
    (hb : b.op = none) :
    readBody ctx (fuel + 5) (sect "PLUS" P ++ (sect "MINUS" M ++ (opWords ops ++ tailE fict))) b
      = { b with pluses := b.pluses ++ P.mergeSort natLe, minuses := b.minuses ++ M.mergeSort natLe, op := ops,
                 fictive := fict || b.fictive, ended := true } := by
  cases P with
  | nil => simp only [sect, List.isEmpty_nil, if_true, List.nil_append, List.mergeSort_nil, List.append_nil]
           exact stageM ctx M ops fict (fuel + 1) b hb
  | cons a l =>
    obtain ⟨k, r, hkr, hk⟩ := sect_head "MINUS" rfl M _ (tailO_head ops fict)
    rw [sect_nonempty, hkr, readBody_plus ctx (fuel + 4) _ k r hk, ← hkr]
    exact stageM ctx M ops fict fuel { b with pluses := b.pluses ++ (a :: l).mergeSort natLe } hb

end T4V.WR

namespace T4V.WR
open T4V T4V.CC

/-! ### from the bytes of the line to its words -/

theorem intercalate_joinSp : ∀ xs : List (List Char), [' '].intercalate xs = joinSp xs
  | [] => rfl
  | [w] => by simp [List.intercalate, joinSp]
  | w :: w2 :: r => by
    have ih := intercalate_joinSp (w2 :: r)
    simp only [List.intercalate, List.intersperse_cons₂, List.flatten_cons] at ih ⊢
    simp only [joinSp]
    rw [← ih]
    simp

/-- `words` undoes `" ".join` on non-empty words without blanks -/
theorem words_intercalate (ws : List String) (h : ∀ w ∈ ws, w ≠ "" ∧ ∀ c ∈ w.toList, cws c = false) :
    words (" ".intercalate ws) = ws := by
  unfold words
  rw [String.toList_intercalate]
  have : " ".toList = [' '] := rfl
  rw [this, intercalate_joinSp, splitWs_join]
  · rw [List.map_map]
    conv => rhs; rw [← List.map_id ws]
    apply List.map_congr_left
    intro w _
    simp
  · intro x hx
    obtain ⟨w, hw, rfl⟩ := List.mem_map.mp hx
    refine ⟨?_, (h w hw).2⟩
    intro he
    exact (h w hw).1 (by simpa using he)

theorem nat_word (n : Nat) : toString n ≠ "" ∧ ∀ c ∈ (toString n).toList, cws c = false := by
  have h := String.isNat_iff.mp (isNat_toString n)
  refine ⟨h.1, fun c hc => ?_⟩
  rcases h.2.1 c hc with hd | rfl
  · exact digit_not_ws c (by
      simp only [Char.isDigit, Bool.and_eq_true, decide_eq_true_eq] at hd
      simp only [CC.isDigit, Bool.and_eq_true, decide_eq_true_eq]
      exact hd)
  · decide

end T4V.WR

namespace T4V.WR
open T4V T4V.CC

theorem lit_word (w : String) (h : w = "EQUA" ∨ w = "PLUS" ∨ w = "MINUS" ∨ w = "UNION" ∨ w = "INTE" ∨ w = "FICTIVE" ∨ w = "ENDV") :
    w ≠ "" ∧ ∀ c ∈ w.toList, cws c = false := by
  rcases h with rfl | rfl | rfl | rfl | rfl | rfl | rfl <;> exact ⟨by decide, by decide⟩

theorem volWords_ok (P M : List Nat) (ops : Option (OpKind × List Nat)) (fict : Bool) :
    ∀ w ∈ volWords P M (ops.map fun x => (opName x.1, x.2)) fict ++ ["ENDV"], w ≠ "" ∧ ∀ c ∈ w.toList, cws c = false := by
  intro w hw
  simp only [volWords, List.mem_append, List.mem_cons, List.mem_nil_iff, or_false, List.mem_map] at hw
  rcases hw with ((((hw | hw) | hw) | hw) | hw) | hw
  · exact lit_word w (Or.inl hw)
  · split at hw
    · first | exact hw.elim | simp at hw
    · simp only [List.mem_append, List.mem_cons, List.mem_nil_iff, or_false, List.mem_map] at hw
      rcases hw with (rfl | rfl) | ⟨n, -, rfl⟩
      · exact lit_word _ (by simp)
      · exact nat_word _
      · exact nat_word n
  · split at hw
    · first | exact hw.elim | simp at hw
    · simp only [List.mem_append, List.mem_cons, List.mem_nil_iff, or_false, List.mem_map] at hw
      rcases hw with (rfl | rfl) | ⟨n, -, rfl⟩
      · exact lit_word _ (by simp)
      · exact nat_word _
      · exact nat_word n
  · cases ops with
    | none => simp at hw
    | some x =>
      simp only [Option.map_some, List.mem_append, List.mem_cons, List.mem_nil_iff, or_false, List.mem_map] at hw
      rcases hw with (rfl | rfl) | ⟨n, -, rfl⟩
      · cases x.1 <;> exact lit_word _ (by simp [opName])
      · exact nat_word _
      · exact nat_word n
  · split at hw
    · simp only [List.mem_cons, List.mem_nil_iff, or_false] at hw
      subst hw; exact lit_word _ (by simp)
    · simp at hw
  · subst hw; exact lit_word _ (by simp)

/-- the line as written (`VolumeT4.__str__`, a blank, `ENDV`) splits into the words of the volume and `ENDV` -/
theorem words_volLine (P M : List Nat) (ops : Option (OpKind × List Nat)) (fict : Bool) :
    words (volLine P M (ops.map fun x => (opName x.1, x.2)) fict ++ " ENDV")
      = volWords P M (ops.map fun x => (opName x.1, x.2)) fict ++ ["ENDV"] := by
  have hne : volWords P M (ops.map fun x => (opName x.1, x.2)) fict ≠ [] := by simp [volWords]
  have e : volLine P M (ops.map fun x => (opName x.1, x.2)) fict ++ " ENDV"
      = " ".intercalate (volWords P M (ops.map fun x => (opName x.1, x.2)) fict ++ ["ENDV"]) := by
    rw [String.intercalate_append_of_ne_nil hne (by simp)]
    simp [volLine, String.append_assoc]
  rw [e]
  exact words_intercalate _ (volWords_ok P M ops fict)

end T4V.WR
