import T4V.Proofs.ToT4a
/-!
# Correctness of `pot_to_t4_cell` / `convert_cellref` / `pot_convert`: definitions and list lemmas
-/
namespace T4V

structure EnvOK (env : CEnv) (σ : TSense) (cv : Nat → Bool) : Prop where
  matchOK : MatchOK env.matching
  /-- referenced cells are complement-free (after `pot_complement`), mention no surface 0, and `cv`
  is the region they denote (a fixed point of the reference structure) -/
  cells : ∀ c cell, env.cell? c = some cell →
    cell.geom.complFree = true ∧ cell.geom.nonzero = true ∧
    cv c = cell.geom.eval (surfValOf env.matching σ) cv
  /-- the two auxiliary planes `PLANEX 1` / `PLANEX -1`: no point is on the PLUS side of the first
  and on the MINUS side of the second -/
  helper : env.unionIds.1 ≠ 0 ∧ env.unionIds.2 ≠ 0 ∧ ¬ (σ env.unionIds.1 = true ∧ σ env.unionIds.2 = false)

structure StOK (σ : TSense) (cv : Nat → Bool) (st : CState) : Prop where
  below : ∀ k, hasKey st.vols k → k ≤ st.next
  surf : ∀ s id, (s, id) ∈ st.surfCache →
    s ≠ 0 ∧ ∃ v, dictGet? st.vols id = some v ∧ v.ops = none ∧ equa σ v = litT σ s
  cell : ∀ c id, (c, id) ∈ st.cellCache → Denotes st.vols σ id (cv c)

structure Step (σ : TSense) (ids : List Nat) (st st' : CState) : Prop where
  le : st.next ≤ st'.next
  pres : ∀ k b, Denotes st.vols σ k b → Denotes st'.vols σ k b
  get : ∀ k v, dictGet? st.vols k = some v → dictGet? st'.vols k = some v
  keys : ∀ k, hasKey st'.vols k → hasKey st.vols k ∨ k ∈ ids ∨ st.next < k

theorem Step.refl (σ : TSense) (ids : List Nat) (st : CState) : Step σ ids st st :=
  ⟨Nat.le_refl _, fun _ _ h => h, fun _ _ h => h, fun _ h => Or.inl h⟩

theorem Step.trans {σ ids1 ids2 st st1 st2} (h1 : Step σ ids1 st st1) (h2 : Step σ ids2 st1 st2) :
    Step σ (ids1 ++ ids2) st st2 := by
  refine ⟨Nat.le_trans h1.le h2.le, fun k b h => h2.pres k b (h1.pres k b h),
    fun k v h => h2.get k v (h1.get k v h), ?_⟩
  intro k hk
  rcases h2.keys k hk with h | h | h
  · rcases h1.keys k h with h' | h' | h'
    · exact Or.inl h'
    · exact Or.inr (Or.inl (List.mem_append_left _ h'))
    · exact Or.inr (Or.inr h')
  · exact Or.inr (Or.inl (List.mem_append_right _ h))
  · exact Or.inr (Or.inr (Nat.lt_of_le_of_lt h1.le h))

theorem Step.mono {σ ids ids' st st'} (h : Step σ ids st st') (hs : ∀ i ∈ ids, i ∈ ids') :
    Step σ ids' st st' :=
  ⟨h.le, h.pres, h.get, fun k hk => by
    rcases h.keys k hk with h' | h' | h'
    · exact Or.inl h'
    · exact Or.inr (Or.inl (hs k h'))
    · exact Or.inr (Or.inr h')⟩

/-- result of converting something whose Boolean value is `b` -/
def ResOK (σ : TSense) (vols : List (Nat × Vol)) (b : Bool) (r : Option Nat) : Prop :=
  match r with
  | some id => Denotes vols σ id b
  | none => b = false

def ResVals (σ : TSense) (vols : List (Nat × Vol)) : List Bool → List (Option Nat) → Prop
  | [], [] => True
  | b :: bs, r :: rs => ResOK σ vols b r ∧ ResVals σ vols bs rs
  | _, _ => False

theorem ResOK.lift {σ vols vols' b r} (h : ResOK σ vols b r)
    (pres : ∀ k b, Denotes vols σ k b → Denotes vols' σ k b) : ResOK σ vols' b r := by
  cases r with
  | none => exact h
  | some id => exact pres id b h

theorem ResVals.lift {σ vols vols'} (pres : ∀ k b, Denotes vols σ k b → Denotes vols' σ k b) :
    ∀ bs rs, ResVals σ vols bs rs → ResVals σ vols' bs rs
  | [], [], _ => trivial
  | [], _ :: _, h => by simp [ResVals] at h
  | _ :: _, [], h => by simp [ResVals] at h
  | b :: bs, r :: rs, h => ⟨h.1.lift pres, ResVals.lift pres bs rs h.2⟩

theorem ResVals.append {σ vols} : ∀ bs rs bs' rs', ResVals σ vols bs rs → ResVals σ vols bs' rs' →
    ResVals σ vols (bs ++ bs') (rs ++ rs')
  | [], [], _, _, _, h' => by simpa using h'
  | [], _ :: _, _, _, h, _ => by simp [ResVals] at h
  | _ :: _, [], _, _, h, _ => by simp [ResVals] at h
  | b :: bs, r :: rs, bs', rs', h, h' => ⟨h.1, ResVals.append bs rs bs' rs' h.2 h'⟩

/-- union reading: the kept ids denote values whose disjunction is the disjunction of all values -/
theorem ResVals.any {σ vols} : ∀ bs rs, ResVals σ vols bs rs →
    ∃ cs, DenotesL vols σ (rs.filterMap id) cs ∧ cs.any id = bs.any id
  | [], [], _ => ⟨[], DenotesL.nil, rfl⟩
  | [], _ :: _, h => by simp [ResVals] at h
  | _ :: _, [], h => by simp [ResVals] at h
  | b :: bs, r :: rs, h => by
      obtain ⟨cs, hd, he⟩ := ResVals.any bs rs h.2
      cases r with
      | none =>
        have hb : b = false := h.1
        exact ⟨cs, by simpa using hd, by simp [hb, he]⟩
      | some k =>
        have hk : Denotes vols σ k b := h.1
        exact ⟨b :: cs, by simpa using DenotesL.cons hk hd, by simp [he]⟩

/-- intersection reading -/
theorem ResVals.all {σ vols} : ∀ bs rs, ResVals σ vols bs rs →
    (rs.any Option.isNone = true → bs.all id = false) ∧
    (rs.any Option.isNone = false → DenotesL vols σ (rs.filterMap id) bs)
  | [], [], _ => ⟨by simp, fun _ => DenotesL.nil⟩
  | [], _ :: _, h => by simp [ResVals] at h
  | _ :: _, [], h => by simp [ResVals] at h
  | b :: bs, r :: rs, h => by
      obtain ⟨h1, h2⟩ := ResVals.all bs rs h.2
      cases r with
      | none =>
        have hb : b = false := h.1
        exact ⟨fun _ => by simp [hb], fun hn => by simp at hn⟩
      | some k =>
        have hk : Denotes vols σ k b := h.1
        refine ⟨fun hn => ?_, fun hn => ?_⟩
        · have : rs.any Option.isNone = true := by simpa using hn
          simp [h1 this]
        · have : rs.any Option.isNone = false := by simpa using hn
          simpa using DenotesL.cons hk (h2 this)

/-! ### splitting the arguments of a node -/


theorem evalAll_split (m : Matching) (σ : TSense) (cv : Nat → Bool) :
    ∀ args : List FTree, FTree.expandedList args = true →
      FTree.evalAll m σ cv args =
        ((args.filterMap litOf).all (litT σ) && ((nodesOf args).map (FTree.eval m σ cv)).all id &&
          ((crefsOf args).map cv).all id)
  | [], _ => by simp [FTree.evalAll, nodesOf, crefsOf]
  | t :: ts, h => by
      simp only [FTree.expandedList, Bool.and_eq_true] at h
      have ih := evalAll_split m σ cv ts h.2
      cases t with
      | lit s =>
        have e1 : nodesOf (FTree.lit s :: ts) = nodesOf ts := by simp [nodesOf, FTree.isSurface]
        have e2 : crefsOf (FTree.lit s :: ts) = crefsOf ts := by simp [crefsOf]
        have e3 : (FTree.lit s :: ts).filterMap litOf = s :: ts.filterMap litOf := by simp [litOf]
        rw [e1, e2, e3, FTree.evalAll, ih, List.all_cons]
        simp only [FTree.eval]
        ac_rfl
      | msurf n sub => simp [FTree.expanded] at h
      | cref c =>
        have e1 : nodesOf (FTree.cref c :: ts) = nodesOf ts := by simp [nodesOf, FTree.isCref]
        have e2 : crefsOf (FTree.cref c :: ts) = c :: crefsOf ts := by simp [crefsOf]
        have e3 : (FTree.cref c :: ts).filterMap litOf = ts.filterMap litOf := by
          rw [List.filterMap_cons]; rfl
        rw [e1, e2, e3, FTree.evalAll, ih, List.map_cons, List.all_cons]
        simp only [FTree.eval, id]
        ac_rfl
      | node nid op a =>
        have e1 : nodesOf (FTree.node nid op a :: ts) = FTree.node nid op a :: nodesOf ts := by
          simp [nodesOf, FTree.isCref, FTree.isSurface]
        have e2 : crefsOf (FTree.node nid op a :: ts) = crefsOf ts := by simp [crefsOf]
        have e3 : (FTree.node nid op a :: ts).filterMap litOf = ts.filterMap litOf := by
          rw [List.filterMap_cons]; rfl
        rw [e1, e2, e3, FTree.evalAll, ih, List.map_cons, List.all_cons]
        simp only [id]
        ac_rfl

theorem evalAny_split (m : Matching) (σ : TSense) (cv : Nat → Bool) :
    ∀ args : List FTree,
      FTree.evalAny m σ cv args =
        (((nonCrefs args).map (FTree.eval m σ cv)).any id || ((crefsOf args).map cv).any id)
  | [] => by simp [FTree.evalAny, nonCrefs, crefsOf]
  | t :: ts => by
      have ih := evalAny_split m σ cv ts
      cases t with
      | cref c =>
        have e1 : nonCrefs (FTree.cref c :: ts) = nonCrefs ts := by simp [nonCrefs, FTree.isCref]
        have e2 : crefsOf (FTree.cref c :: ts) = c :: crefsOf ts := by simp [crefsOf]
        rw [e1, e2, FTree.evalAny, ih, List.map_cons, List.any_cons]
        simp only [FTree.eval, id]
        ac_rfl
      | lit s =>
        have e1 : nonCrefs (FTree.lit s :: ts) = FTree.lit s :: nonCrefs ts := by simp [nonCrefs, FTree.isCref]
        have e2 : crefsOf (FTree.lit s :: ts) = crefsOf ts := by simp [crefsOf]
        rw [e1, e2, FTree.evalAny, ih, List.map_cons, List.any_cons]
        simp only [id]
        ac_rfl
      | msurf n sub =>
        have e1 : nonCrefs (FTree.msurf n sub :: ts) = FTree.msurf n sub :: nonCrefs ts := by
          simp [nonCrefs, FTree.isCref]
        have e2 : crefsOf (FTree.msurf n sub :: ts) = crefsOf ts := by simp [crefsOf]
        rw [e1, e2, FTree.evalAny, ih, List.map_cons, List.any_cons]
        simp only [id]
        ac_rfl
      | node nid op a =>
        have e1 : nonCrefs (FTree.node nid op a :: ts) = FTree.node nid op a :: nonCrefs ts := by
          simp [nonCrefs, FTree.isCref]
        have e2 : crefsOf (FTree.node nid op a :: ts) = crefsOf ts := by simp [crefsOf]
        rw [e1, e2, FTree.evalAny, ih, List.map_cons, List.any_cons]
        simp only [id]
        ac_rfl

theorem evalAny_map (m : Matching) (σ : TSense) (cv : Nat → Bool) :
    ∀ ts : List FTree, (ts.map (FTree.eval m σ cv)).any id = FTree.evalAny m σ cv ts
  | [] => by simp [FTree.evalAny]
  | t :: ts => by simp [FTree.evalAny, evalAny_map m σ cv ts]

theorem evalAny_append (m : Matching) (σ : TSense) (cv : Nat → Bool) : ∀ a b : List FTree,
    FTree.evalAny m σ cv (a ++ b) = (FTree.evalAny m σ cv a || FTree.evalAny m σ cv b)
  | [], b => by simp [FTree.evalAny]
  | x :: xs, b => by simp [FTree.evalAny, evalAny_append m σ cv xs b, Bool.or_assoc]

/-- a cell reference among the arguments is one of the disjuncts -/
theorem crefs_le_evalAny (m : Matching) (σ : TSense) (cv : Nat → Bool) (args : List FTree)
    (h : ((crefsOf args).map cv).any id = true) : FTree.evalAny m σ cv args = true := by
  rw [evalAny_split]; simp [h]

end T4V
