import T4V.Proofs.PostClosed
/-!
# `remove_empty_volumes` does not depend on the order in which its sets are enumerated

The code keeps the keys to remove and the keys removed so far in Python sets and iterates over the former.  In the
model both are lists; here: permuting the queue and replacing the list of removed keys by any list with the same
members does not change the resulting dictionary.
-/
namespace T4V

/-- same dictionary, same removed keys up to order -/
def AccEq (a b : List (Nat × Vol) × List Nat) : Prop := a.1 = b.1 ∧ a.2.Perm b.2

theorem AccEq.refl (a : List (Nat × Vol) × List Nat) : AccEq a a := ⟨rfl, List.Perm.refl _⟩

theorem AccEq.trans {a b c : List (Nat × Vol) × List Nat} (h₁ : AccEq a b) (h₂ : AccEq b c) : AccEq a c :=
  ⟨h₁.1.trans h₂.1, h₁.2.trans h₂.2⟩

theorem roundStep_none (u : Nat × Nat) (acc : List (Nat × Vol) × List Nat) (k : Nat) (h : dictGet? acc.1 k = none) :
    roundStep u acc k = acc := by
  unfold roundStep; simp [h]

theorem roundStep_congr (u : Nat × Nat) {a b : List (Nat × Vol) × List Nat} (h : AccEq a b) (k : Nat) :
    AccEq (roundStep u a k) (roundStep u b k) := by
  obtain ⟨a1, a2⟩ := a
  obtain ⟨b1, b2⟩ := b
  obtain ⟨h1, h2⟩ := h
  simp only at h1 h2
  subst h1
  cases hg : dictGet? a1 k with
  | none =>
    have ea : roundStep u (a1, a2) k = (a1, a2) := by unfold roundStep; simp [hg]
    have eb : roundStep u (a1, b2) k = (a1, b2) := by unfold roundStep; simp [hg]
    rw [ea, eb]; exact ⟨rfl, h2⟩
  | some v =>
    rw [roundStep_eq u (a1, a2) k v hg, roundStep_eq u (a1, b2) k v hg]
    by_cases hu : isUnion v = true
    · rw [if_pos hu, if_pos hu]; exact ⟨rfl, h2⟩
    · rw [if_neg hu, if_neg hu]; exact ⟨rfl, h2.append_right [k]⟩

theorem updAt_updAt_comm (vs : List (Nat × Vol)) {j k : Nat} (hne : j ≠ k) (vj vk : Vol) :
    updAt (updAt vs j vj) k vk = updAt (updAt vs k vk) j vj := by
  induction vs with
  | nil => rfl
  | cons p rest ih =>
    rw [updAt_cons, updAt_cons, updAt_cons, updAt_cons, ih]
    congr 1
    have hjk : ¬ ((j == k) = true) := by simpa using hne
    have hkj : ¬ ((k == j) = true) := by simpa using fun e => hne e.symm
    by_cases hp : (p.1 == j) = true
    · have hpj : p.1 = j := by simpa using hp
      have hpk : ¬ ((p.1 == k) = true) := by rw [hpj]; exact hjk
      rw [if_pos hp, if_neg hpk]
      show (if ((j, vj).1 == k) = true then _ else _) = _
      rw [if_neg hjk, if_pos hp]
    · rw [if_neg hp]
      by_cases hpk : (p.1 == k) = true
      · rw [if_pos hpk]
        show _ = (if ((k, vk).1 == j) = true then _ else _)
        rw [if_neg hkj]
      · rw [if_neg hpk, if_neg hp]

theorem delKey_updAt_comm (vs : List (Nat × Vol)) {j k : Nat} (hne : j ≠ k) (vj : Vol) :
    delKey (updAt vs j vj) k = updAt (delKey vs k) j vj := by
  induction vs with
  | nil => rfl
  | cons p rest ih =>
    have hjk : ¬ ((j == k) = true) := by simpa using hne
    rw [updAt_cons, delKey_cons, delKey_cons, ih]
    by_cases hp : (p.1 == j) = true
    · have hpj : p.1 = j := by simpa using hp
      have hpk : ¬ ((p.1 == k) = true) := by rw [hpj]; exact hjk
      rw [if_pos hp, if_neg hpk]
      have : ¬ (((j, vj).1 == k) = true) := hjk
      rw [if_neg this, updAt_cons, if_pos hp]
    · rw [if_neg hp]
      by_cases hpk : (p.1 == k) = true
      · rw [if_pos hpk, if_pos hpk]
      · rw [if_neg hpk, if_neg hpk, updAt_cons, if_neg hp]

theorem delKey_delKey_comm (vs : List (Nat × Vol)) (j k : Nat) :
    delKey (delKey vs j) k = delKey (delKey vs k) j := by
  unfold delKey
  rw [List.filter_filter, List.filter_filter]
  congr 1
  funext p
  exact Bool.and_comm _ _

/-- two steps of a round commute (up to the order of the removed keys) -/
theorem roundStep_comm (u : Nat × Nat) (acc : List (Nat × Vol) × List Nat) (j k : Nat) :
    AccEq (roundStep u (roundStep u acc j) k) (roundStep u (roundStep u acc k) j) := by
  by_cases hjk : j = k
  · subst hjk; exact AccEq.refl _
  have hkj : k ≠ j := fun e => hjk e.symm
  obtain ⟨vs, rm⟩ := acc
  cases hgj : dictGet? vs j with
  | none =>
    have ej : roundStep u (vs, rm) j = (vs, rm) := by unfold roundStep; simp [hgj]
    rw [ej]
    cases hgk : dictGet? vs k with
    | none =>
      have ek : roundStep u (vs, rm) k = (vs, rm) := by unfold roundStep; simp [hgk]
      rw [ek, ej]; exact AccEq.refl _
    | some vk =>
      rw [roundStep_eq u (vs, rm) k vk hgk]
      by_cases huk : isUnion vk = true
      · rw [if_pos huk]
        have : dictGet? (updAt vs k { vk with pluses := [u.1], minuses := [u.2] }, rm).1 j = none := by
          simp only; rw [dictGet?_updAt_ne hjk]; exact hgj
        rw [roundStep_none u _ j this]; exact AccEq.refl _
      · rw [if_neg huk]
        have : dictGet? (delKey vs k, rm ++ [k]).1 j = none := by
          simp only; rw [dictGet?_delKey_ne hjk]; exact hgj
        rw [roundStep_none u _ j this]; exact AccEq.refl _
  | some vj =>
    rw [roundStep_eq u (vs, rm) j vj hgj]
    cases hgk : dictGet? vs k with
    | none =>
      have ek : roundStep u (vs, rm) k = (vs, rm) := by unfold roundStep; simp [hgk]
      rw [ek, roundStep_eq u (vs, rm) j vj hgj]
      by_cases huj : isUnion vj = true
      · rw [if_pos huj]
        have : dictGet? (updAt vs j { vj with pluses := [u.1], minuses := [u.2] }, rm).1 k = none := by
          simp only; rw [dictGet?_updAt_ne hkj]; exact hgk
        rw [roundStep_none u _ k this]; exact AccEq.refl _
      · rw [if_neg huj]
        have : dictGet? (delKey vs j, rm ++ [j]).1 k = none := by
          simp only; rw [dictGet?_delKey_ne hkj]; exact hgk
        rw [roundStep_none u _ k this]; exact AccEq.refl _
    | some vk =>
      rw [roundStep_eq u (vs, rm) k vk hgk]
      by_cases huj : isUnion vj = true <;> by_cases huk : isUnion vk = true
      · rw [if_pos huj, if_pos huk]
        rw [roundStep_eq u _ k vk (by simp only; rw [dictGet?_updAt_ne hkj]; exact hgk),
            roundStep_eq u _ j vj (by simp only; rw [dictGet?_updAt_ne hjk]; exact hgj), if_pos huk, if_pos huj]
        exact ⟨updAt_updAt_comm vs hjk _ _, List.Perm.refl _⟩
      · rw [if_pos huj, if_neg huk]
        rw [roundStep_eq u _ k vk (by simp only; rw [dictGet?_updAt_ne hkj]; exact hgk),
            roundStep_eq u _ j vj (by simp only; rw [dictGet?_delKey_ne hjk]; exact hgj), if_neg huk, if_pos huj]
        exact ⟨delKey_updAt_comm vs hjk _, List.Perm.refl _⟩
      · rw [if_neg huj, if_pos huk]
        rw [roundStep_eq u _ k vk (by simp only; rw [dictGet?_delKey_ne hkj]; exact hgk),
            roundStep_eq u _ j vj (by simp only; rw [dictGet?_updAt_ne hjk]; exact hgj), if_pos huk, if_neg huj]
        exact ⟨(delKey_updAt_comm vs hkj _).symm, List.Perm.refl _⟩
      · rw [if_neg huj, if_neg huk]
        rw [roundStep_eq u _ k vk (by simp only; rw [dictGet?_delKey_ne hkj]; exact hgk),
            roundStep_eq u _ j vj (by simp only; rw [dictGet?_delKey_ne hjk]; exact hgj), if_neg huk, if_neg huj]
        refine ⟨delKey_delKey_comm vs j k, ?_⟩
        simp only [List.append_assoc]
        exact List.Perm.append_left rm (List.Perm.swap k j [])

theorem fold_congr (u : Nat × Nat) : ∀ (q : List Nat) {a b : List (Nat × Vol) × List Nat}, AccEq a b →
    AccEq (q.foldl (roundStep u) a) (q.foldl (roundStep u) b)
  | [], _, _, h => h
  | k :: q, _, _, h => by
      simp only [List.foldl_cons]
      exact fold_congr u q (roundStep_congr u h k)

/-- a round over a permuted queue -/
theorem fold_perm (u : Nat × Nat) {q₁ q₂ : List Nat} (hq : q₁.Perm q₂) :
    ∀ {a b : List (Nat × Vol) × List Nat}, AccEq a b →
      AccEq (q₁.foldl (roundStep u) a) (q₂.foldl (roundStep u) b) := by
  induction hq with
  | nil => intro a b h; exact h
  | cons x _ ih => intro a b h; simp only [List.foldl_cons]; exact ih (roundStep_congr u h x)
  | swap x y l =>
    intro a b h
    simp only [List.foldl_cons]
    apply fold_congr u l
    exact (roundStep_comm u a y x).trans (roundStep_congr u (roundStep_congr u h x) y)
  | trans _ _ ih₁ ih₂ => intro a b h; exact (ih₁ h).trans (ih₂ (AccEq.refl b))

/-- `afterRound` reads the removed keys through membership only -/
theorem afterRound_congr (vs : List (Nat × Vol)) {r₁ r₂ : List Nat} (h : ∀ k, k ∈ r₁ ↔ k ∈ r₂) :
    afterRound vs r₁ = afterRound vs r₂ := by
  have hc : ∀ k, r₁.contains k = r₂.contains k := by
    intro k
    by_cases h1 : k ∈ r₁
    · have h2 := (h k).mp h1
      simp [h1, h2]
    · have h2 : k ∉ r₂ := fun e => h1 ((h k).mpr e)
      simp [h1, h2]
  unfold afterRound
  simp only [hc]

/-- **the loop of `remove_empty_volumes`**: a permuted queue and a list of removed keys with the same members give
the same dictionary -/
theorem loop_order_independent (u : Nat × Nat) : ∀ (fuel : Nat) (vs : List (Nat × Vol)) (q₁ q₂ r₁ r₂ : List Nat),
    q₁.Perm q₂ → (∀ k, k ∈ r₁ ↔ k ∈ r₂) →
    removeEmpty.loop u fuel vs q₁ r₁ = removeEmpty.loop u fuel vs q₂ r₂
  | 0, _, _, _, _, _, _, _ => rfl
  | fuel + 1, vs, q₁, q₂, r₁, r₂, hq, hr => by
      unfold removeEmpty.loop
      have he : q₁.isEmpty = q₂.isEmpty := by
        cases q₁ <;> cases q₂ <;> simp_all
      rw [he]
      by_cases hemp : q₂.isEmpty = true
      · simp [hemp]
      · simp only [hemp, Bool.false_eq_true, if_false]
        rw [removeEmptyRound_eq, removeEmptyRound_eq]
        obtain ⟨h1, h2⟩ := fold_perm u hq (AccEq.refl (vs, ([] : List Nat)))
        have hmem : ∀ k, k ∈ r₁ ++ (q₁.foldl (roundStep u) (vs, [])).2 ↔ k ∈ r₂ ++ (q₂.foldl (roundStep u) (vs, [])).2 := by
          intro k
          simp only [List.mem_append, hr k, h2.mem_iff]
        simp only [h1, afterRound_congr _ hmem]
        exact loop_order_independent u fuel _ _ _ _ _ (List.Perm.refl _) hmem

end T4V
