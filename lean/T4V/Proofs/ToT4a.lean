import T4V.Proofs.Optimise
/-!
# Auxiliary lemmas for the correctness of `pot_to_t4_cell`
-/
namespace T4V

/-! ### conv_equa -/

theorem all_eraseDups {α} [BEq α] [LawfulBEq α] (p : α → Bool) (l : List α) :
    l.eraseDups.all p = l.all p := by
  rw [Bool.eq_iff_iff]
  simp only [List.all_eq_true]
  constructor
  · intro h x hx; exact h x (List.mem_eraseDups.mpr hx)
  · intro h x hx; exact h x (List.mem_eraseDups.mp hx)

theorem equa_convEqua (σ : TSense) (ss : List Int) (hz : ∀ s ∈ ss, s ≠ 0) (ops : Option (Op × List Nat))
    (o : List (Nat × Nat)) (f : Bool) :
    equa σ { pluses := (convEqua ss).1, minuses := (convEqua ss).2, ops := ops, origin := o, fictive := f }
      = ss.all (litT σ) := by
  unfold equa convEqua
  simp only
  rw [← all_eraseDups (litT σ) ss]
  have hz' : ∀ s ∈ ss.eraseDups, s ≠ 0 := fun s hs => hz s (List.mem_eraseDups.mp hs)
  generalize ss.eraseDups = l at hz'
  induction l with
  | nil => simp
  | cons s r ih =>
    have hs : s ≠ 0 := hz' s (by simp)
    have ih' := ih (fun x hx => hz' x (by simp [hx]))
    simp only [List.filterMap_cons, List.all_cons]
    by_cases hp : s > 0
    · have hn : ¬ s < 0 := by omega
      simp only [hp, hn, if_true, if_false, List.all_cons]
      rw [Bool.and_assoc, ih']
      simp [litT, hp]
    · have hn : s < 0 := by omega
      simp only [hp, hn, if_true, if_false, List.all_cons]
      rw [← ih']
      simp only [litT, hp, if_false]
      cases σ s.natAbs <;> cases (List.filterMap (fun s => if s > 0 then some s.natAbs else none) r).all σ <;> simp

/-! ### trees: pure main parts -/

def FTree.isPureMain : FTree → Bool
  | .lit _ => true
  | .node _ .inter a => a.all FTree.isSurface
  | _ => false

/-- the element selected by `largestPureIntersectionNode` is a bare surface or a pure-surface
intersection -/
theorem largestPure_spec (args : List FTree) (hx : FTree.expandedList args = true) (i : Nat)
    (h : largestPure args = some i) : ∃ t, args[i]? = some t ∧ t.isPureMain = true := by
  -- generalised statement over the accumulator loop
  have key : ∀ (ts : List FTree) (off len : Nat) (best : Option Nat) (r : Nat),
      FTree.expandedList ts = true →
      (∀ j, best = some j → ∃ t, args[j]? = some t ∧ t.isPureMain = true) →
      (∀ j t, ts[j]? = some t → args[off + j]? = some t) →
      largestPure.go ts off len best = some r → ∃ t, args[r]? = some t ∧ t.isPureMain = true := by
    intro ts
    induction ts with
    | nil =>
      intro off len best r _ hb _ hr
      simp only [largestPure.go] at hr
      exact hb r hr
    | cons t ts ih =>
      intro off len best r hxs hb hidx hr
      simp only [FTree.expandedList, Bool.and_eq_true] at hxs
      have hidx' : ∀ j t', ts[j]? = some t' → args[off + 1 + j]? = some t' := by
        intro j t' hj
        have := hidx (j + 1) t' (by simpa using hj)
        simpa [Nat.add_assoc, Nat.add_comm 1 j] using this
      have hhead : args[off]? = some t := by simpa using hidx 0 t (by simp)
      cases t with
      | lit s =>
        simp only [largestPure.go] at hr
        split at hr
        · exact ih (off + 1) 1 (some off) r hxs.2
            (fun j hj => by simp at hj; subst hj; exact ⟨_, hhead, rfl⟩) hidx' hr
        · exact ih (off + 1) len best r hxs.2 hb hidx' hr
      | msurf n sub => simp [FTree.expanded] at hxs
      | cref c =>
        simp only [largestPure.go] at hr
        exact ih (off + 1) len best r hxs.2 hb hidx' hr
      | node id op a =>
        cases op with
        | inter =>
          simp only [largestPure.go] at hr
          split at hr
          · rename_i hc
            simp only [Bool.and_eq_true, decide_eq_true_eq] at hc
            exact ih (off + 1) (a.length + 2) (some off) r hxs.2
              (fun j hj => by simp at hj; subst hj; exact ⟨_, hhead, by simpa [FTree.isPureMain] using hc.1⟩)
              hidx' hr
          · exact ih (off + 1) len best r hxs.2 hb hidx' hr
        | union =>
          simp only [largestPure.go] at hr
          exact ih (off + 1) len best r hxs.2 hb hidx' hr
  exact key args 0 0 none i hx (fun j hj => by simp at hj) (fun j t hj => by simpa using hj) h

/-! ### ids of filtered / split argument lists -/

theorem idsList_filter_noids (p : FTree → Bool) : ∀ ts : List FTree,
    (∀ t ∈ ts, p t = false → t.ids = []) → FTree.idsList (ts.filter p) = FTree.idsList ts
  | [], _ => by simp
  | t :: ts, h => by
      have ih := idsList_filter_noids p ts (fun x hx => h x (by simp [hx]))
      by_cases hp : p t = true
      · simp [List.filter, hp, FTree.idsList, ih]
      · have hp' : p t = false := by simpa using hp
        simp [List.filter, hp', FTree.idsList, ih, h t (by simp) hp']

theorem ids_of_surface_or_cref (t : FTree) (h : (!t.isSurface && !t.isCref) = false) : t.ids = [] := by
  cases t <;> simp [FTree.isSurface, FTree.isCref, FTree.ids] at h ⊢

theorem ids_of_cref (t : FTree) (h : (!t.isCref) = false) : t.ids = [] := by
  cases t <;> simp [FTree.isCref, FTree.ids] at h ⊢

theorem expandedList_filter (p : FTree → Bool) : ∀ ts : List FTree, FTree.expandedList ts = true →
    FTree.expandedList (ts.filter p) = true
  | [], _ => by simp [FTree.expandedList]
  | t :: ts, h => by
      simp only [FTree.expandedList, Bool.and_eq_true] at h
      by_cases hp : p t = true
      · simp [List.filter, hp, FTree.expandedList, h.1, expandedList_filter p ts h.2]
      · have hp' : p t = false := by simpa using hp
        simp [List.filter, hp', expandedList_filter p ts h.2]

theorem noBothList_filter (p : FTree → Bool) : ∀ ts : List FTree, FTree.noBothList ts = true →
    FTree.noBothList (ts.filter p) = true
  | [], _ => by simp [FTree.noBothList]
  | t :: ts, h => by
      simp only [FTree.noBothList, Bool.and_eq_true] at h
      by_cases hp : p t = true
      · simp [List.filter, hp, FTree.noBothList, h.1, noBothList_filter p ts h.2]
      · have hp' : p t = false := by simpa using hp
        simp [List.filter, hp', noBothList_filter p ts h.2]

/-- split a list at index `i` -/
theorem split_at {α} : ∀ (l : List α) (i : Nat) (a : α), l[i]? = some a →
    ∃ pre post, l = pre ++ a :: post ∧ l.eraseIdx i = pre ++ post
  | [], i, a, h => by simp at h
  | x :: xs, 0, a, h => by
      simp at h; subst h
      exact ⟨[], xs, by simp, by simp⟩
  | x :: xs, i + 1, a, h => by
      obtain ⟨pre, post, h1, h2⟩ := split_at xs i a (by simpa using h)
      exact ⟨x :: pre, post, by simp [h1], by simp [h2]⟩

end T4V
