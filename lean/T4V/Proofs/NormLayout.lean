import T4V.Text.GeomParse
/-!
# Layout layer for `normalize`: strings as tokens separated by gaps of blanks
-/
namespace T4V.NL
open T4V

def AllWs (g : List Char) : Prop := ∀ c ∈ g, isWs c = true
def NoWs (t : List Char) : Prop := ∀ c ∈ t, isWs c = false

theorem AllWs.nil : AllWs [] := fun _ h => by cases h
theorem AllWs.append {a b : List Char} (ha : AllWs a) (hb : AllWs b) : AllWs (a ++ b) := by
  intro c hc
  rcases List.mem_append.mp hc with h | h
  · exact ha c h
  · exact hb c h
theorem AllWs.reverse {a : List Char} (ha : AllWs a) : AllWs a.reverse := fun c hc => ha c (List.mem_reverse.mp hc)
theorem NoWs.reverse {a : List Char} (ha : NoWs a) : NoWs a.reverse := fun c hc => ha c (List.mem_reverse.mp hc)
theorem AllWs.tail {c : Char} {g : List Char} (h : AllWs (c :: g)) : AllWs g := fun x hx => h x (by simp [hx])
theorem NoWs.tail {c : Char} {g : List Char} (h : NoWs (c :: g)) : NoWs g := fun x hx => h x (by simp [hx])

abbrev Chunk := List Char × List Char

def renderC (cs : List Chunk) : List Char := cs.flatMap fun c => c.1 ++ c.2
def render (g0 : List Char) (cs : List Chunk) : List Char := g0 ++ renderC cs

@[simp] theorem renderC_nil : renderC [] = [] := rfl
@[simp] theorem renderC_cons (c : Chunk) (cs : List Chunk) : renderC (c :: cs) = c.1 ++ c.2 ++ renderC cs := by
  simp [renderC]
theorem renderC_append (a b : List Chunk) : renderC (a ++ b) = renderC a ++ renderC b := by
  simp [renderC]

/-- every token is non-empty and blank-free, every gap is made of blanks -/
def ChunksOK (cs : List Chunk) : Prop := ∀ c ∈ cs, c.1 ≠ [] ∧ NoWs c.1 ∧ AllWs c.2

theorem ChunksOK.tail {c : Chunk} {cs : List Chunk} (h : ChunksOK (c :: cs)) : ChunksOK cs :=
  fun x hx => h x (by simp [hx])

/-! ### `dropAfter` on tokens and gaps -/

theorem ws_ne {k c : Char} (hk : isWs k = false) (hc : isWs c = true) : (c == k) = false := by
  cases h : c == k with
  | false => rfl
  | true => rw [beq_iff_eq.mp h, hk] at hc; cases hc

theorem dropAfter_gap_true (k : Char) (hk : isWs k = false) : ∀ (g : List Char), AllWs g → ∀ rest,
    dropAfter k true (g ++ rest) = dropAfter k true rest
  | [], _, _ => rfl
  | c :: g, hg, rest => by
      have hc : isWs c = true := hg c (by simp)
      simp only [List.cons_append, dropAfter, ws_ne hk hc, Bool.false_eq_true, if_false, hc, Bool.and_self, if_true]
      exact dropAfter_gap_true k hk g hg.tail rest

theorem dropAfter_gap_false (k : Char) (hk : isWs k = false) : ∀ (g : List Char), AllWs g → ∀ rest,
    dropAfter k false (g ++ rest) = g ++ dropAfter k false rest
  | [], _, _ => rfl
  | c :: g, hg, rest => by
      have hc : isWs c = true := hg c (by simp)
      simp only [List.cons_append, dropAfter, ws_ne hk hc, Bool.false_eq_true, if_false, Bool.false_and]
      rw [dropAfter_gap_false k hk g hg.tail rest]

/-- does the (non-empty) token end with `k`? -/
def endsWith (k : Char) (t : List Char) : Bool := t.getLast? == some k

theorem dropAfter_cons_nws (k c : Char) (hc : isWs c = false) (b : Bool) (r : List Char) :
    dropAfter k b (c :: r) = c :: dropAfter k (c == k) r := by
  by_cases hck : (c == k) = true
  · simp [dropAfter, hck]
  · have : (c == k) = false := by simpa using hck
    simp [dropAfter, this, hc]

theorem dropAfter_tok (k : Char) : ∀ (t : List Char), t ≠ [] → NoWs t → ∀ b rest,
    dropAfter k b (t ++ rest) = t ++ dropAfter k (endsWith k t) rest
  | [], h, _, _, _ => absurd rfl h
  | [c], _, ht, b, rest => by
      have hc : isWs c = false := ht c (by simp)
      have : endsWith k [c] = (c == k) := by simp [endsWith]
      rw [List.singleton_append, dropAfter_cons_nws k c hc, this]
      rfl
  | c :: d :: t, _, ht, b, rest => by
      have hc : isWs c = false := ht c (by simp)
      have ih := dropAfter_tok k (d :: t) (by simp) ht.tail
      have he : endsWith k (c :: d :: t) = endsWith k (d :: t) := by simp [endsWith, List.getLast?_cons_cons]
      rw [List.cons_append, dropAfter_cons_nws k c hc, ih, he]
      rfl

/-- gaps following a token that ends with `k` disappear; nothing else changes -/
def dropGapAfter (k : Char) (cs : List Chunk) : List Chunk :=
  cs.map fun c => (c.1, if endsWith k c.1 then [] else c.2)

theorem dropAfter_chunks (k : Char) (hk : isWs k = false) : ∀ (cs : List Chunk), ChunksOK cs → ∀ b,
    dropAfter k b (renderC cs) = renderC (dropGapAfter k cs)
  | [], _, b => by cases b <;> rfl
  | (t, g) :: cs, h, b => by
      obtain ⟨hne, hnw, hws⟩ := h (t, g) (by simp)
      have ih := dropAfter_chunks k hk cs h.tail
      have hd : dropGapAfter k ((t, g) :: cs) = (t, if endsWith k t then [] else g) :: dropGapAfter k cs := rfl
      rw [hd, renderC_cons, renderC_cons, List.append_assoc, List.append_assoc, dropAfter_tok k t hne hnw b]
      congr 1
      by_cases he : endsWith k t = true
      · rw [he, dropAfter_gap_true k hk g hws, if_pos rfl, List.nil_append]
        exact ih true
      · have he' : endsWith k t = false := by simpa using he
        rw [he', dropAfter_gap_false k hk g hws, if_neg (by simp)]
        congr 1
        exact ih false

theorem dropAfter_render (k : Char) (hk : isWs k = false) (g0 : List Char) (h0 : AllWs g0) (cs : List Chunk)
    (h : ChunksOK cs) : dropAfter k false (render g0 cs) = render g0 (dropGapAfter k cs) := by
  unfold render
  rw [dropAfter_gap_false k hk g0 h0, dropAfter_chunks k hk cs h false]
end T4V.NL

namespace T4V.NL
open T4V

/-! ### neighbour maps: a pass that rewrites every gap as a function of the tokens on either side -/

abbrev GapFn := Option (List Char) → List Char → Option (List Char) → List Char

/-- rewrite every gap (the leading one `g0` included) by `f prev gap next` -/
def nm (f : GapFn) : Option (List Char) → List Char → List Chunk → List Char × List Chunk
  | prev, g0, [] => (f prev g0 none, [])
  | prev, g0, (t, g) :: cs =>
      let r := nm f (some t) g cs
      (f prev g0 (some t), (t, r.1) :: r.2)

def rend (r : List Char × List Chunk) : List Char := render r.1 r.2

/-- the gap function keeps gaps blank -/
def GapFn.OK (f : GapFn) : Prop := ∀ a g b, AllWs g → AllWs (f a g b)

theorem nm_ok (f : GapFn) (hf : f.OK) : ∀ (cs : List Chunk) (prev : Option (List Char)) (g0 : List Char),
    AllWs g0 → ChunksOK cs → AllWs (nm f prev g0 cs).1 ∧ ChunksOK (nm f prev g0 cs).2
  | [], prev, g0, h0, _ => ⟨hf _ _ _ h0, fun c hc => by cases hc⟩
  | (t, g) :: cs, prev, g0, h0, h => by
      obtain ⟨hne, hnw, hws⟩ := h (t, g) (by simp)
      obtain ⟨i1, i2⟩ := nm_ok f hf cs (some t) g hws h.tail
      refine ⟨hf _ _ _ h0, ?_⟩
      intro c hc
      simp only [nm, List.mem_cons] at hc
      rcases hc with rfl | hc
      · exact ⟨hne, hnw, i1⟩
      · exact i2 c hc

theorem nm_comp (f f' : GapFn) : ∀ (cs : List Chunk) (prev : Option (List Char)) (g0 : List Char),
    nm f prev (nm f' prev g0 cs).1 (nm f' prev g0 cs).2 = nm (fun a g b => f a (f' a g b) b) prev g0 cs
  | [], _, _ => rfl
  | (t, g) :: cs, prev, g0 => by
      have ih := nm_comp f f' cs (some t) g
      simp only [nm]
      rw [ih]

/-- `dropAfter k` as a neighbour map -/
def fDropAfter (k : Char) : GapFn := fun a g _ =>
  match a with
  | some t => if endsWith k t then [] else g
  | none => g

theorem dropGapAfter_nm (k : Char) : ∀ (cs : List Chunk) (prev : Option (List Char)) (g0 : List Char),
    nm (fDropAfter k) prev g0 cs = (fDropAfter k prev g0 none, dropGapAfter k cs)
  | [], _, _ => rfl
  | (t, g) :: cs, prev, g0 => by
      have ih := dropGapAfter_nm k cs (some t) g
      simp only [nm, ih, dropGapAfter, List.map_cons, fDropAfter]

theorem dropAfter_nm (k : Char) (hk : isWs k = false) (g0 : List Char) (h0 : AllWs g0) (cs : List Chunk)
    (h : ChunksOK cs) : dropAfter k false (render g0 cs) = rend (nm (fDropAfter k) none g0 cs) := by
  rw [dropAfter_render k hk g0 h0 cs h, dropGapAfter_nm]
  rfl
end T4V.NL

namespace T4V.NL
open T4V

/-! ### `dropAfter` from the right: gaps *preceding* a token that starts with `k` -/

def startsWith (k : Char) (t : List Char) : Bool := t.head? == some k

theorem endsWith_reverse (k : Char) (t : List Char) : endsWith k t.reverse = startsWith k t := by
  simp [endsWith, startsWith, List.getLast?_reverse]

/-- the scanner state after a string -/
def daState (k : Char) : Bool → List Char → Bool
  | b, [] => b
  | b, c :: r => if c == k then daState k true r else if b && isWs c then daState k true r else daState k false r

theorem dropAfter_append (k : Char) : ∀ (a : List Char) (b : Bool) (rest : List Char),
    dropAfter k b (a ++ rest) = dropAfter k b a ++ dropAfter k (daState k b a) rest
  | [], b, rest => by cases b <;> rfl
  | c :: a, b, rest => by
      by_cases hck : (c == k) = true
      · simp only [List.cons_append, dropAfter, daState, hck, if_true]
        rw [dropAfter_append k a true rest]
      · by_cases hw : (b && isWs c) = true
        · simp only [List.cons_append, dropAfter, daState, hck, Bool.false_eq_true, if_false, hw, if_true]
          exact dropAfter_append k a true rest
        · simp only [List.cons_append, dropAfter, daState, hck, Bool.false_eq_true, if_false, hw]
          rw [dropAfter_append k a false rest]

theorem dropAfter_gap_all (k : Char) (hk : isWs k = false) (g : List Char) (hg : AllWs g) (b : Bool) :
    dropAfter k b g = if b then [] else g := by
  cases b with
  | true => have := dropAfter_gap_true k hk g hg []; simpa [dropAfter] using this
  | false => have := dropAfter_gap_false k hk g hg []; simpa [dropAfter] using this

/-- `dropBefore k` as a neighbour map -/
def fDropBefore (k : Char) : GapFn := fun _ g b =>
  match b with
  | some t => if startsWith k t then [] else g
  | none => g

/-- reversed rendering, scanned by `dropAfter`: the gap before a token that starts with `k` goes -/
theorem dropAfter_rev_render (k : Char) (hk : isWs k = false) : ∀ (cs : List Chunk) (prev : Option (List Char))
    (g0 : List Char), AllWs g0 → ChunksOK cs →
    dropAfter k false (render g0 cs).reverse = (rend (nm (fDropBefore k) prev g0 cs)).reverse
  | [], prev, g0, h0, _ => by
      simp only [render, renderC_nil, List.append_nil, nm, rend, fDropBefore]
      rw [dropAfter_gap_all k hk _ h0.reverse]
      rfl
  | (t, g) :: cs, prev, g0, h0, h => by
      obtain ⟨hne, hnw, hws⟩ := h (t, g) (by simp)
      have ih := dropAfter_rev_render k hk cs (some t) g hws h.tail
      have e1 : (render g0 ((t, g) :: cs)).reverse = (render g cs).reverse ++ (t.reverse ++ g0.reverse) := by
        simp [render, List.reverse_append, List.append_assoc]
      rw [e1, dropAfter_append, ih]
      have hne' : t.reverse ≠ [] := by simpa using hne
      rw [dropAfter_tok k t.reverse hne' hnw.reverse, endsWith_reverse, dropAfter_gap_all k hk _ h0.reverse]
      simp only [nm, rend, render, renderC_cons, fDropBefore, List.reverse_append, List.append_assoc]
      by_cases hs : startsWith k t = true
      · simp [hs]
      · have hs' : startsWith k t = false := by simpa using hs
        simp [hs']

theorem dropBefore_nm (k : Char) (hk : isWs k = false) (g0 : List Char) (h0 : AllWs g0) (cs : List Chunk)
    (h : ChunksOK cs) :
    (dropAfter k false (render g0 cs).reverse).reverse = rend (nm (fDropBefore k) none g0 cs) := by
  rw [dropAfter_rev_render k hk cs none g0 h0 h, List.reverse_reverse]
end T4V.NL

namespace T4V.NL
open T4V

/-! ### `strip` -/

theorem dropWs_allws : ∀ (g : List Char), AllWs g → ∀ rest, dropWs (g ++ rest) = dropWs rest
  | [], _, _ => rfl
  | c :: g, hg, rest => by
      have hc : isWs c = true := hg c (by simp)
      simp only [dropWs, List.cons_append, List.dropWhile_cons, hc, if_true]
      exact dropWs_allws g hg.tail rest

theorem dropWs_nows (c : Char) (r : List Char) (hc : isWs c = false) : dropWs (c :: r) = c :: r := by
  simp [dropWs, List.dropWhile_cons, hc]

theorem dropWs_tok (t : List Char) (hne : t ≠ []) (hnw : NoWs t) (rest : List Char) : dropWs (t ++ rest) = t ++ rest := by
  cases t with
  | nil => exact absurd rfl hne
  | cons c t => exact dropWs_nows c _ (hnw c (by simp))

def dropLastGap : List Chunk → List Chunk
  | [] => []
  | [(t, _)] => [(t, [])]
  | c :: d :: cs => c :: dropLastGap (d :: cs)

theorem dropWs_rev_chunks : ∀ (cs : List Chunk), ChunksOK cs →
    dropWs (renderC cs).reverse = (renderC (dropLastGap cs)).reverse
  | [], _ => rfl
  | [(t, g)], h => by
      obtain ⟨hne, hnw, hws⟩ := h (t, g) (by simp)
      have hne' : t.reverse ≠ [] := by simpa using hne
      simp only [renderC_cons, renderC_nil, List.append_nil, List.reverse_append, dropLastGap]
      rw [dropWs_allws _ hws.reverse]
      have := dropWs_tok _ hne' hnw.reverse []
      simpa using this
  | c :: d :: cs, h => by
      have ih := dropWs_rev_chunks (d :: cs) h.tail
      have e : (renderC (c :: d :: cs)).reverse = (renderC (d :: cs)).reverse ++ (c.1 ++ c.2).reverse := by
        simp [List.reverse_append]
      have e2 : (renderC (dropLastGap (c :: d :: cs))).reverse = (renderC (dropLastGap (d :: cs))).reverse ++ (c.1 ++ c.2).reverse := by
        simp [dropLastGap, List.reverse_append]
      rw [e, e2, ← ih]
      -- `dropWs` stops inside the first part, which contains a non-blank
      have hnonws : ∃ x ∈ (renderC (d :: cs)).reverse, isWs x = false := by
        obtain ⟨hne, hnw, _⟩ := h d (by simp)
        cases hd : d.1 with
        | nil => exact absurd hd hne
        | cons x xs =>
          refine ⟨x, ?_, hnw x (by simp [hd])⟩
          simp [renderC_cons, hd]
      generalize (renderC (d :: cs)).reverse = A at hnonws
      generalize (c.1 ++ c.2).reverse = B
      induction A with
      | nil => obtain ⟨x, hx, _⟩ := hnonws; cases hx
      | cons a A iha =>
        by_cases ha : isWs a = true
        · have : ∃ x ∈ A, isWs x = false := by
            obtain ⟨x, hx, hxw⟩ := hnonws
            rcases List.mem_cons.mp hx with rfl | hx
            · rw [ha] at hxw; cases hxw
            · exact ⟨x, hx, hxw⟩
          simp only [dropWs, List.cons_append, List.dropWhile_cons, ha, if_true]
          exact iha this
        · have ha' : isWs a = false := by simpa using ha
          rw [List.cons_append, dropWs_nows a _ ha', dropWs_nows a _ ha']
          rfl

def fStrip : GapFn := fun a g b =>
  match a, b with
  | some _, some _ => g
  | _, _ => []

theorem nm_strip_some : ∀ (cs : List Chunk) (p g : List Char),
    nm fStrip (some p) g cs = ((if cs = [] then [] else g), dropLastGap cs)
  | [], _, _ => rfl
  | [(t, g')], p, g => by simp [nm, fStrip, dropLastGap]
  | c :: d :: cs, p, g => by
      obtain ⟨t, g'⟩ := c
      have ih := nm_strip_some (d :: cs) t g'
      have e : nm fStrip (some p) g ((t, g') :: d :: cs) =
          (fStrip (some p) g (some t), (t, (nm fStrip (some t) g' (d :: cs)).1) :: (nm fStrip (some t) g' (d :: cs)).2) := rfl
      rw [e, ih]
      simp [fStrip, dropLastGap]

theorem strip_nm (g0 : List Char) (h0 : AllWs g0) (cs : List Chunk) (h : ChunksOK cs) :
    strip (render g0 cs) = rend (nm fStrip none g0 cs) := by
  unfold strip render
  rw [dropWs_allws g0 h0]
  cases cs with
  | nil => rfl
  | cons c cs =>
    obtain ⟨t, g⟩ := c
    obtain ⟨hne, hnw, _⟩ := h (t, g) (by simp)
    have e : dropWs (renderC ((t, g) :: cs)) = renderC ((t, g) :: cs) := by
      rw [renderC_cons, List.append_assoc]; exact dropWs_tok t hne hnw _
    rw [e, dropWs_rev_chunks _ h, List.reverse_reverse]
    simp only [nm, rend, render, fStrip, List.nil_append]
    rw [nm_strip_some]
    cases cs with
    | nil => rfl
    | cons d cs => rfl
end T4V.NL

namespace T4V.NL
open T4V

/-! ### `subSpaces`: every non-empty gap becomes one `*` -/

def star (g : List Char) : List Char := if g = [] then [] else ['*']

def joinStar (g0 : List Char) (cs : List Chunk) : List Char :=
  star g0 ++ cs.flatMap fun c => c.1 ++ star c.2

theorem subSpacesAux_gap : ∀ (g : List Char), AllWs g → ∀ rest,
    subSpacesAux true (g ++ rest) = subSpacesAux true rest
  | [], _, _ => rfl
  | c :: g, hg, rest => by
      have hc : isWs c = true := hg c (by simp)
      simp only [List.cons_append, subSpacesAux, hc, if_true]
      exact subSpacesAux_gap g hg.tail rest

theorem subSpacesAux_gap_false (g : List Char) (hg : AllWs g) (rest : List Char) :
    subSpacesAux false (g ++ rest) = star g ++ subSpacesAux (!g.isEmpty) rest := by
  cases g with
  | nil => simp [star]
  | cons c g =>
    have hc : isWs c = true := hg c (by simp)
    simp only [List.cons_append, subSpacesAux, hc, if_true, Bool.false_eq_true, if_false, star]
    rw [subSpacesAux_gap g hg.tail]
    simp

theorem subSpacesAux_tok : ∀ (t : List Char), t ≠ [] → NoWs t → ∀ b rest,
    subSpacesAux b (t ++ rest) = t ++ subSpacesAux false rest
  | [], h, _, _, _ => absurd rfl h
  | [c], _, ht, b, rest => by
      have hc : isWs c = false := ht c (by simp)
      simp [subSpacesAux, hc]
  | c :: d :: t, _, ht, b, rest => by
      have hc : isWs c = false := ht c (by simp)
      have ih := subSpacesAux_tok (d :: t) (by simp) ht.tail false rest
      simp only [List.cons_append, subSpacesAux, hc, Bool.false_eq_true, if_false] at ih ⊢
      rw [ih]

theorem subSpacesAux_chunks : ∀ (cs : List Chunk), ChunksOK cs → ∀ b,
    subSpacesAux b (renderC cs) = cs.flatMap fun c => c.1 ++ star c.2
  | [], _, b => by cases b <;> rfl
  | (t, g) :: cs, h, b => by
      obtain ⟨hne, hnw, hws⟩ := h (t, g) (by simp)
      rw [renderC_cons, List.append_assoc, subSpacesAux_tok t hne hnw, subSpacesAux_gap_false g hws,
        subSpacesAux_chunks cs h.tail]
      simp [List.flatMap_cons]

theorem subSpaces_render (g0 : List Char) (h0 : AllWs g0) (cs : List Chunk) (h : ChunksOK cs) :
    subSpaces (render g0 cs) = joinStar g0 cs := by
  unfold subSpaces render joinStar
  rw [subSpacesAux_gap_false g0 h0, subSpacesAux_chunks cs h]

/-! ### the two insertion passes: a blank before `(` / after `)` -/

/-- insert a blank before every `k` whose predecessor is not excluded -/
def genIns (k : Char) (excl : Char → Bool) : Option Char → List Char → List Char
  | _, [] => []
  | p, c :: r =>
      (if c == k && (match p with | some q => !excl q | none => false) then [' ', c] else [c]) ++ genIns k excl (some c) r

theorem subBeforeOpen_cons_ne (q c : Char) (r : List Char) (hc : c ≠ '(') :
    subBeforeOpen (q :: c :: r) = q :: subBeforeOpen (c :: r) := by
  rw [subBeforeOpen.eq_def]
  split
  · rename_i heq
    injection heq with h1 h2
    injection h2 with h3 h4
    exact absurd h3 hc
  · rename_i heq
    injection heq with h1 h2
    subst h1 h2; rfl
  · rename_i heq; cases heq

theorem subBeforeOpen_eq : ∀ (n : Nat) (s : List Char), s.length ≤ n → ∀ (p : Option Char),
    (match p with | some q => subBeforeOpen (q :: s) = q :: genIns '(' exclOpen (some q) s
                  | none => subBeforeOpen s = genIns '(' exclOpen none s)
  | 0, s, hn, p => by
      have : s = [] := List.length_eq_zero_iff.mp (Nat.le_zero.mp hn)
      subst this
      cases p <;> simp [subBeforeOpen, genIns]
  | n + 1, s, hn, p => by
      cases p with
      | none =>
        cases s with
        | nil => simp [subBeforeOpen, genIns]
        | cons c r =>
          have := subBeforeOpen_eq n r (by simp at hn; omega) (some c)
          simp only at this
          rw [this]
          simp [genIns]
      | some q =>
        cases s with
        | nil => simp [subBeforeOpen, genIns]
        | cons c r =>
          have hr : r.length ≤ n := by simp at hn; omega
          by_cases hc : c = '('
          · subst hc
            by_cases he : exclOpen q = true
            · have := subBeforeOpen_eq n r hr (some '(')
              simp only at this
              simp only [subBeforeOpen, he, Bool.not_true, Bool.false_eq_true, if_false, genIns, beq_self_eq_true,
                Bool.true_and, List.singleton_append]
              rw [this]
            · have he' : exclOpen q = false := by simpa using he
              have h2 := subBeforeOpen_eq n r hr none
              simp only at h2
              have h3 := subBeforeOpen_eq n r hr (some '(')
              simp only at h3
              -- after an insertion the scanner goes on behind the `(`: `(` is excluded, so nothing differs
              have h4 : genIns '(' exclOpen none r = genIns '(' exclOpen (some '(') r := by
                cases r with
                | nil => rfl
                | cons d r' => simp [genIns, exclOpen]
              simp only [subBeforeOpen, he', Bool.not_false, if_true, genIns, beq_self_eq_true, Bool.true_and,
                List.cons_append, List.nil_append]
              rw [h2, h4]
          · have h3 := subBeforeOpen_eq n r hr (some c)
            simp only at h3
            have hck : (c == '(') = false := by simpa using hc
            have : subBeforeOpen (q :: c :: r) = q :: subBeforeOpen (c :: r) := subBeforeOpen_cons_ne q c r hc
            show subBeforeOpen (q :: c :: r) = q :: genIns '(' exclOpen (some q) (c :: r)
            rw [this, h3]
            simp [genIns, hck]
end T4V.NL

namespace T4V.NL
open T4V

/-- insert a blank after every `k` whose successor is not excluded -/
def genInsA (k : Char) (excl : Char → Bool) : List Char → List Char
  | [] => []
  | c :: r =>
      c :: ((if c == k && (match r with | d :: _ => !excl d | [] => false) then [' '] else []) ++ genInsA k excl r)

theorem subAfterClose_cons_ne (c : Char) (r : List Char) (hc : c ≠ ')') :
    subAfterClose (c :: r) = c :: subAfterClose r := by
  rw [subAfterClose.eq_def]
  split
  · rename_i heq
    injection heq with h1 h2
    exact absurd h1 hc
  · rename_i heq
    injection heq with h1 h2
    subst h1 h2; rfl
  · rename_i heq; cases heq

theorem subAfterClose_eq : ∀ (n : Nat) (s : List Char), s.length ≤ n → subAfterClose s = genInsA ')' exclClose s
  | 0, s, hn => by
      have : s = [] := List.length_eq_zero_iff.mp (Nat.le_zero.mp hn)
      subst this; simp [subAfterClose, genInsA]
  | n + 1, [], _ => by simp [subAfterClose, genInsA]
  | n + 1, c :: r, hn => by
      have hr : r.length ≤ n := by simp at hn; omega
      by_cases hc : c = ')'
      · subst hc
        cases r with
        | nil => simp [subAfterClose, genInsA]
        | cons d r' =>
          have hr' : r'.length ≤ n := by simp at hr; omega
          by_cases he : exclClose d = true
          · have ih := subAfterClose_eq n (d :: r') hr
            simp only [subAfterClose, he, Bool.not_true, Bool.false_eq_true, if_false, genInsA, beq_self_eq_true,
              Bool.and_false, List.nil_append]
            rw [ih]; simp [genInsA]
          · have he' : exclClose d = false := by simpa using he
            have ih := subAfterClose_eq n r' hr'
            have hd : d ≠ ')' := by intro h; subst h; simp [exclClose] at he'
            have hdk : (d == ')') = false := by simpa using hd
            simp only [subAfterClose, he', Bool.not_false, if_true, genInsA, beq_self_eq_true, Bool.and_self,
              List.singleton_append, hdk, Bool.false_and, Bool.false_eq_true, if_false, List.nil_append]
            rw [ih]
      · have ih := subAfterClose_eq n r hr
        have hck : (c == ')') = false := by simpa using hc
        rw [subAfterClose_cons_ne c r hc, ih]
        simp [genInsA, hck]
end T4V.NL

namespace T4V.NL
open T4V

/-! #### the insertion passes on tokens and gaps -/

def nonExcl (excl : Char → Bool) : Option Char → Bool
  | some q => !excl q
  | none => false

def lastOr (p : Option Char) (s : List Char) : Option Char := match s.getLast? with | some c => some c | none => p

theorem lastOr_cons (p : Option Char) (c : Char) (a : List Char) : lastOr p (c :: a) = lastOr (some c) a := by
  cases a with
  | nil => simp [lastOr]
  | cons d a' =>
    cases h : (d :: a').getLast? with
    | none => exact absurd (List.getLast?_eq_none_iff.mp h) (by simp)
    | some x => simp [lastOr, List.getLast?_cons_cons, h]

theorem genIns_append (k : Char) (e : Char → Bool) : ∀ (a : List Char) (p : Option Char) (b : List Char),
    genIns k e p (a ++ b) = genIns k e p a ++ genIns k e (lastOr p a) b
  | [], p, b => by simp [genIns, lastOr]
  | c :: a, p, b => by
      have ih := genIns_append k e a (some c) b
      simp only [List.cons_append, genIns, ih, lastOr_cons p c a, List.append_assoc]

theorem genIns_nok (k : Char) (e : Char → Bool) : ∀ (a : List Char), (∀ c ∈ a, (c == k) = false) → ∀ p,
    genIns k e p a = a
  | [], _, _ => rfl
  | c :: a, h, p => by
      have hc := h c (by simp)
      simp only [genIns, hc, Bool.false_and, Bool.false_eq_true, if_false, List.singleton_append]
      rw [genIns_nok k e a (fun x hx => h x (by simp [hx]))]

/-- a token inside which the pass inserts nothing; only a leading `k` can get a blank in front -/
def InertB (k : Char) (e : Char → Bool) (t : List Char) : Prop :=
  ∀ p, genIns k e p t = (if startsWith k t && nonExcl e p then ' ' :: t else t)

theorem inertB_nok (k : Char) (e : Char → Bool) (t : List Char) (h : ∀ c ∈ t, (c == k) = false) : InertB k e t := by
  intro p
  rw [genIns_nok k e t h]
  have : startsWith k t = false := by
    cases t with
    | nil => rfl
    | cons c t => simpa [startsWith] using h c (by simp)
  simp [this]

/-- the gap in front of a token that starts with `k` gets a blank appended when the character before is not excluded -/
def fInsBefore (k : Char) (e : Char → Bool) : GapFn := fun a g b =>
  match b with
  | some t =>
      if startsWith k t && nonExcl e (lastOr (match a with | some ta => ta.getLast? | none => none) g) then g ++ [' ']
      else g
  | none => g

theorem genIns_chunks (k : Char) (e : Char → Bool) (hk : isWs k = false) :
    ∀ (cs : List Chunk), ChunksOK cs → (∀ c ∈ cs, InertB k e c.1) → ∀ (prev : Option (List Char)) (g0 : List Char),
    AllWs g0 →
    genIns k e (match prev with | some ta => ta.getLast? | none => none) (render g0 cs) =
      rend (nm (fInsBefore k e) prev g0 cs)
  | [], _, _, prev, g0, h0 => by
      have : ∀ c ∈ g0, (c == k) = false := fun c hc => ws_ne hk (h0 c hc)
      simp only [render, renderC_nil, List.append_nil, nm, rend, fInsBefore]
      exact genIns_nok k e g0 this _
  | (t, g) :: cs, h, hi, prev, g0, h0 => by
      obtain ⟨hne, hnw, hws⟩ := h (t, g) (by simp)
      have ih := genIns_chunks k e hk cs h.tail (fun c hc => hi c (by simp [hc])) (some t) g hws
      have hg0 : ∀ c ∈ g0, (c == k) = false := fun c hc => ws_ne hk (h0 c hc)
      have e1 : render g0 ((t, g) :: cs) = g0 ++ (t ++ render g cs) := by
        simp [render, List.append_assoc]
      rw [e1, genIns_append, genIns_nok k e g0 hg0, genIns_append, hi (t, g) (by simp)]
      have hl : lastOr (lastOr (match prev with | some ta => ta.getLast? | none => none) g0) t = t.getLast? := by
        cases ht : t.getLast? with
        | none => exact absurd (List.getLast?_eq_none_iff.mp ht) hne
        | some c => simp [lastOr, ht]
      rw [hl]
      simp only at ih
      rw [ih]
      have hnm : nm (fInsBefore k e) prev g0 ((t, g) :: cs) =
          (fInsBefore k e prev g0 (some t), (t, (nm (fInsBefore k e) (some t) g cs).1) :: (nm (fInsBefore k e) (some t) g cs).2) := rfl
      rw [hnm]
      simp only [rend, render, renderC_cons, fInsBefore, List.append_assoc]
      generalize (match prev with | some ta => ta.getLast? | none => none) = pl
      by_cases hcnd : (startsWith k t && nonExcl e (lastOr pl g0)) = true
      · simp [hcnd]
      · simp [hcnd]
end T4V.NL

namespace T4V.NL
open T4V

def headNonExcl (e : Char → Bool) : List Char → Bool
  | d :: _ => !e d
  | [] => false

theorem genInsA_nok (k : Char) (e : Char → Bool) : ∀ (a : List Char), (∀ c ∈ a, (c == k) = false) → ∀ R,
    genInsA k e (a ++ R) = a ++ genInsA k e R
  | [], _, _ => rfl
  | c :: a, h, R => by
      have hc := h c (by simp)
      simp only [List.cons_append, genInsA, hc, Bool.false_and, Bool.false_eq_true, if_false, List.nil_append]
      rw [genInsA_nok k e a (fun x hx => h x (by simp [hx]))]

/-- a token inside which the pass inserts nothing; only a trailing `k` can get a blank behind it -/
def InertA (k : Char) (e : Char → Bool) (t : List Char) : Prop :=
  ∀ R, genInsA k e (t ++ R) = t ++ ((if endsWith k t && headNonExcl e R then [' '] else []) ++ genInsA k e R)

theorem inertA_nok (k : Char) (e : Char → Bool) (t : List Char) (h : ∀ c ∈ t, (c == k) = false) : InertA k e t := by
  intro R
  rw [genInsA_nok k e t h]
  have : endsWith k t = false := by
    cases hl : t.getLast? with
    | none => simp [endsWith, hl]
    | some c =>
      have hm : c ∈ t := List.mem_of_getLast? hl
      have := h c hm
      simp only [endsWith, hl]
      cases hh : (some c == some k) with
      | false => rfl
      | true => exact absurd (by simpa using hh) (by simpa using this)
  simp [this]

def fInsAfter (k : Char) (e : Char → Bool) : GapFn := fun a g b =>
  match a with
  | some t =>
      if endsWith k t && headNonExcl e (g ++ (match b with | some tb => tb | none => [])) then ' ' :: g else g
  | none => g

theorem headNonExcl_append (e : Char → Bool) (a b c : List Char) (ha : a ≠ []) :
    headNonExcl e (a ++ b) = headNonExcl e (a ++ c) := by
  cases a with
  | nil => exact absurd rfl ha
  | cons x a => rfl

theorem genInsA_chunks (k : Char) (e : Char → Bool) (hk : isWs k = false) :
    ∀ (cs : List Chunk), ChunksOK cs → (∀ c ∈ cs, InertA k e c.1) → ∀ (g0 : List Char), AllWs g0 →
    genInsA k e (render g0 cs) = g0 ++ renderC (nm (fInsAfter k e) none [] cs).2 ∧
    ∀ (p : List Char), (nm (fInsAfter k e) (some p) g0 cs).2 = (nm (fInsAfter k e) none [] cs).2
  | [], _, _, g0, h0 => by
      have : ∀ c ∈ g0, (c == k) = false := fun c hc => ws_ne hk (h0 c hc)
      refine ⟨?_, fun _ => rfl⟩
      simp only [render, renderC_nil, List.append_nil, nm]
      have := genInsA_nok k e g0 this []
      simpa [genInsA] using this
  | (t, g) :: cs, h, hi, g0, h0 => by
      obtain ⟨hne, hnw, hws⟩ := h (t, g) (by simp)
      obtain ⟨ih1, ih2⟩ := genInsA_chunks k e hk cs h.tail (fun c hc => hi c (by simp [hc])) g hws
      have hg0 : ∀ c ∈ g0, (c == k) = false := fun c hc => ws_ne hk (h0 c hc)
      refine ⟨?_, fun p => ?_⟩
      · have e1 : render g0 ((t, g) :: cs) = g0 ++ (t ++ render g cs) := by simp [render, List.append_assoc]
        rw [e1, genInsA_nok k e g0 hg0, hi (t, g) (by simp) (render g cs), ih1]
        have hnm : (nm (fInsAfter k e) none [] ((t, g) :: cs)).2 =
            (t, (nm (fInsAfter k e) (some t) g cs).1) :: (nm (fInsAfter k e) (some t) g cs).2 := rfl
        rw [hnm, renderC_cons, ih2 t]
        have hfst : (nm (fInsAfter k e) (some t) g cs).1 =
            (if endsWith k t && headNonExcl e (render g cs) then ' ' :: g else g) := by
          cases cs with
          | nil => simp [nm, fInsAfter, render]
          | cons d cs' =>
            obtain ⟨hdne, _, _⟩ := h d (by simp)
            have hh : headNonExcl e (g ++ d.1) = headNonExcl e (g ++ renderC (d :: cs')) := by
              cases g with
              | cons x g' => rfl
              | nil =>
                cases hd : d.1 with
                | nil => exact absurd hd hdne
                | cons y ys => simp [renderC_cons, hd, headNonExcl]
            show (if endsWith k t && headNonExcl e (g ++ d.1) then ' ' :: g else g) = _
            simp only [hh, render]
            rfl
        rw [hfst]
        by_cases hc : (endsWith k t && headNonExcl e (render g cs)) = true
        · simp [hc, List.append_assoc]
        · simp [hc, List.append_assoc]
      · rfl
end T4V.NL

namespace T4V.NL
open T4V

theorem genInsA_render (k : Char) (e : Char → Bool) (hk : isWs k = false) (cs : List Chunk) (h : ChunksOK cs)
    (hi : ∀ c ∈ cs, InertA k e c.1) (g0 : List Char) (h0 : AllWs g0) :
    genInsA k e (render g0 cs) = rend (nm (fInsAfter k e) none g0 cs) := by
  rw [(genInsA_chunks k e hk cs h hi g0 h0).1]
  cases cs with
  | nil => rfl
  | cons c cs => rfl

/-! ### `subCompl`: `#( … )` ↦ ` _( … )`, `#n` ↦ ` ^(n)` -/

theorem subComplF_copy : ∀ (a : List Char), (∀ c ∈ a, (c == '#') = false) → ∀ (fuel : Nat) (R : List Char),
    (a ++ R).length ≤ fuel → subComplF fuel (a ++ R) = a ++ subComplF (fuel - a.length) R
  | [], _, fuel, R, _ => by simp
  | c :: a, h, fuel, R, hf => by
      cases fuel with
      | zero => simp at hf
      | succ f =>
        have hc := h c (by simp)
        have hf' : (a ++ R).length ≤ f := by
          simp only [List.cons_append, List.length_cons, List.length_append] at hf ⊢; omega
        simp only [List.cons_append, subComplF, hc, Bool.false_eq_true, if_false, List.length_cons]
        rw [subComplF_copy a (fun x hx => h x (by simp [hx])) f R hf', Nat.add_sub_add_right]

theorem subComplF_nil (fuel : Nat) : subComplF fuel [] = [] := by cases fuel <;> rfl

theorem subComplF_open (fuel : Nat) (g R : List Char) (hg : AllWs g) :
    subComplF (fuel + 1) ('#' :: (g ++ '(' :: R)) = ' ' :: '_' :: '(' :: subComplF fuel R := by
  have hd : dropWs (g ++ '(' :: R) = '(' :: R := by
    rw [dropWs_allws g hg]; exact dropWs_nows '(' R (by decide)
  simp only [subComplF, beq_self_eq_true, if_true, hd]

theorem takeWhile_digits (ds R : List Char) (hds : ∀ c ∈ ds, c.isDigit = true)
    (hR : ∀ d r, R = d :: r → d.isDigit = false) :
    (ds ++ R).takeWhile Char.isDigit = ds ∧ (ds ++ R).dropWhile Char.isDigit = R := by
  induction ds with
  | nil =>
    cases R with
    | nil => simp
    | cons d r => have := hR d r rfl; simp [List.takeWhile_cons, List.dropWhile_cons, this]
  | cons c ds ih =>
    have hc := hds c (by simp)
    obtain ⟨i1, i2⟩ := ih (fun x hx => hds x (by simp [hx]))
    simp [List.takeWhile_cons, List.dropWhile_cons, hc, i1, i2]

theorem digit_not_ws (d : Char) (h : d.isDigit = true) : isWs d = false := by
  cases hw : isWs d with
  | false => rfl
  | true =>
    simp only [isWs, Bool.or_eq_true, beq_iff_eq] at hw
    rcases hw with ((((rfl | rfl) | rfl) | rfl) | rfl) | rfl <;> exact absurd h (by decide)

theorem subComplF_digits (fuel : Nat) (g ds R : List Char) (hg : AllWs g) (hne : ds ≠ [])
    (hds : ∀ c ∈ ds, c.isDigit = true) (hR : ∀ d r, R = d :: r → d.isDigit = false) :
    subComplF (fuel + 1) ('#' :: (g ++ (ds ++ R))) = [' ', '^', '('] ++ ds ++ [')'] ++ subComplF fuel R := by
  cases ds with
  | nil => exact absurd rfl hne
  | cons d ds' =>
    have hdd : d.isDigit = true := hds d (by simp)
    have hdw : isWs d = false := digit_not_ws d hdd
    have hdp : d ≠ '(' := by intro h; subst h; exact absurd hdd (by decide)
    have hd : dropWs (g ++ (d :: ds' ++ R)) = d :: (ds' ++ R) := by
      rw [dropWs_allws g hg]; exact dropWs_nows d _ hdw
    obtain ⟨t1, t2⟩ := takeWhile_digits (d :: ds') R hds hR
    simp only [subComplF, beq_self_eq_true, if_true, hd]
    split
    · have e : d :: (ds' ++ R) = (d :: ds') ++ R := rfl
      rw [e, t1, t2]
    · rename_i heq; exact absurd hdd heq
end T4V.NL

namespace T4V.NL
open T4V

/-! ## tokens of a cell expression -/

inductive Tk
  | lit (cs : List Char)      -- signed surface number with optional facet
  | op | cl | colon | hash
  | uop                        -- `_(`  (after `subCompl`)
  | cc (ds : List Char)        -- `^(n)` (after `subCompl`)
deriving Repr, DecidableEq

def Tk.chars : Tk → List Char
  | .lit cs => cs
  | .op => ['(']
  | .cl => [')']
  | .colon => [':']
  | .hash => ['#']
  | .uop => ['_', '(']
  | .cc ds => ['^', '('] ++ ds ++ [')']

def litChar (c : Char) : Bool := c.isDigit || c == '-' || c == '+' || c == '.'

def Tk.OK : Tk → Prop
  | .lit cs => cs ≠ [] ∧ ∀ c ∈ cs, litChar c = true
  | .cc ds => ds ≠ [] ∧ ∀ c ∈ ds, c.isDigit = true
  | _ => True

theorem litChar_cases (c : Char) (h : litChar c = true) : c.isDigit = true ∨ c = '-' ∨ c = '+' ∨ c = '.' := by
  simp only [litChar, Bool.or_eq_true, beq_iff_eq] at h
  rcases h with ((h | h) | h) | h
  · exact Or.inl h
  · exact Or.inr (Or.inl h)
  · exact Or.inr (Or.inr (Or.inl h))
  · exact Or.inr (Or.inr (Or.inr h))

/-- what matters about a character of a surface literal: it is none of the structural characters, nor a blank -/
theorem litChar_props (c : Char) (h : litChar c = true) :
    isWs c = false ∧ (c == '(') = false ∧ (c == ')') = false ∧ (c == ':') = false ∧ (c == '#') = false ∧
    exclOpen c = false ∧ exclClose c = false := by
  rcases litChar_cases c h with h | rfl | rfl | rfl
  · refine ⟨digit_not_ws c h, ?_, ?_, ?_, ?_, ?_, ?_⟩ <;>
      (simp only [exclOpen, exclClose, Bool.or_eq_false_iff, beq_eq_false_iff_ne, ne_eq]
       try refine ⟨⟨⟨?_, ?_⟩, ?_⟩, ?_⟩) <;>
      (intro hc; subst hc; exact absurd h (by decide))
  · decide
  · decide
  · decide

theorem digit_litChar (c : Char) (h : c.isDigit = true) : litChar c = true := by simp [litChar, h]

abbrev TChunk := Tk × List Char

def toChunks (ts : List TChunk) : List Chunk := ts.map fun p => (p.1.chars, p.2)

def TChunksOK (ts : List TChunk) : Prop := ∀ p ∈ ts, p.1.OK ∧ AllWs p.2

theorem Tk.chars_ne (t : Tk) (h : t.OK) : t.chars ≠ [] := by
  cases t <;> simp [Tk.chars]
  exact h.1

theorem Tk.chars_nows (t : Tk) (h : t.OK) : NoWs t.chars := by
  intro c hc
  cases t with
  | lit cs => exact (litChar_props c (h.2 c hc)).1
  | cc ds =>
    simp only [Tk.chars, List.mem_append, List.mem_cons, List.mem_nil_iff, or_false] at hc
    rcases hc with (((rfl | rfl) | hc) | rfl)
    · decide
    · decide
    · exact digit_not_ws c (h.2 c hc)
    · decide
  | op => simp only [Tk.chars, List.mem_singleton] at hc; subst hc; decide
  | cl => simp only [Tk.chars, List.mem_singleton] at hc; subst hc; decide
  | colon => simp only [Tk.chars, List.mem_singleton] at hc; subst hc; decide
  | hash => simp only [Tk.chars, List.mem_singleton] at hc; subst hc; decide
  | uop =>
    simp only [Tk.chars, List.mem_cons, List.mem_nil_iff, or_false] at hc
    rcases hc with rfl | rfl <;> decide

theorem toChunks_ok (ts : List TChunk) (h : TChunksOK ts) : ChunksOK (toChunks ts) := by
  intro c hc
  simp only [toChunks, List.mem_map] at hc
  obtain ⟨p, hp, rfl⟩ := hc
  exact ⟨Tk.chars_ne p.1 (h p hp).1, Tk.chars_nows p.1 (h p hp).1, (h p hp).2⟩
end T4V.NL

namespace T4V.NL
open T4V

theorem digit_props (c : Char) (h : c.isDigit = true) : (c == '(') = false ∧ (c == ')') = false :=
  let p := litChar_props c (digit_litChar c h); ⟨p.2.1, p.2.2.1⟩

theorem Tk.inertB (t : Tk) (h : t.OK) : InertB '(' exclOpen t.chars := by
  cases t with
  | lit cs => exact inertB_nok _ _ _ fun c hc => (litChar_props c (h.2 c hc)).2.1
  | op => intro p; cases p <;> simp [Tk.chars, genIns, startsWith, nonExcl]
  | cl => exact inertB_nok _ _ _ (by decide)
  | colon => exact inertB_nok _ _ _ (by decide)
  | hash => exact inertB_nok _ _ _ (by decide)
  | uop => intro p; cases p <;> simp [Tk.chars, genIns, startsWith, nonExcl, exclOpen]
  | cc ds =>
    intro p
    have hno : ∀ c ∈ ds ++ [')'], (c == '(') = false := by
      intro c hc
      rcases List.mem_append.mp hc with hc | hc
      · exact (digit_props c (h.2 c hc)).1
      · simp only [List.mem_singleton] at hc; subst hc; decide
    have e : (Tk.cc ds).chars = '^' :: '(' :: (ds ++ [')']) := by simp [Tk.chars]
    rw [e]
    simp only [genIns, startsWith, List.head?_cons]
    rw [genIns_nok _ _ _ hno]
    cases p <;> simp [nonExcl, exclOpen]

theorem Tk.inertA (t : Tk) (h : t.OK) : InertA ')' exclClose t.chars := by
  cases t with
  | lit cs => exact inertA_nok _ _ _ fun c hc => (litChar_props c (h.2 c hc)).2.2.1
  | op => exact inertA_nok _ _ _ (by decide)
  | cl =>
    intro R
    cases R with
    | nil => simp [Tk.chars, genInsA, endsWith, headNonExcl]
    | cons d r => simp [Tk.chars, genInsA, endsWith, headNonExcl]
  | colon => exact inertA_nok _ _ _ (by decide)
  | hash => exact inertA_nok _ _ _ (by decide)
  | uop => exact inertA_nok _ _ _ (by decide)
  | cc ds =>
    intro R
    have hno : ∀ c ∈ '^' :: '(' :: ds, (c == ')') = false := by
      intro c hc
      simp only [List.mem_cons] at hc
      rcases hc with rfl | rfl | hc
      · decide
      · decide
      · exact (digit_props c (h.2 c hc)).2
    have e : (Tk.cc ds).chars ++ R = ('^' :: '(' :: ds) ++ (')' :: R) := by simp [Tk.chars]
    have hend : endsWith ')' (Tk.cc ds).chars = true := by
      have : (Tk.cc ds).chars = ('^' :: '(' :: ds) ++ [')'] := by simp [Tk.chars]
      rw [this]
      simp only [endsWith]
      rw [List.getLast?_concat]
      rfl
    rw [e, genInsA_nok _ _ _ hno, hend]
    cases R with
    | nil => simp [Tk.chars, genInsA, headNonExcl]
    | cons d r => simp [Tk.chars, genInsA, headNonExcl]
end T4V.NL

namespace T4V.NL
open T4V

/-! ### `subCompl` on token lists -/

def rendT (r : List Char × List TChunk) : List Char := render r.1 (toChunks r.2)

def hrw : List Char → List TChunk → List Char × List TChunk
  | g0, [] => (g0, [])
  | g0, (.hash, _) :: (.op, g2) :: ts => let r := hrw g2 ts; (g0 ++ [' '], (.uop, r.1) :: r.2)
  | g0, (.hash, _) :: (.lit ds, g2) :: ts => let r := hrw g2 ts; (g0 ++ [' '], (.cc ds, r.1) :: r.2)
  | g0, (t, g) :: ts => let r := hrw g ts; (g0, (t, r.1) :: r.2)

/-- the character after a `#n` is not a digit -/
def NextNonDigit (g2 : List Char) (ts : List TChunk) : Prop :=
  g2 ≠ [] ∨ match ts with | [] => True | (t, _) :: _ => ∀ d r, t.chars = d :: r → d.isDigit = false

/-- every `#` is followed (after optional blanks) by `(` or by a cell number; no `_(` / `^(` in the input -/
def HashOK : List TChunk → Prop
  | [] => True
  | (.hash, _) :: (.op, _) :: ts => HashOK ts
  | (.hash, _) :: (.lit ds, g2) :: ts => (∀ c ∈ ds, c.isDigit = true) ∧ NextNonDigit g2 ts ∧ HashOK ts
  | (.hash, _) :: _ => False
  | (.uop, _) :: _ => False
  | (.cc _, _) :: _ => False
  | (_, _) :: ts => HashOK ts

theorem render_cons (g0 : List Char) (c : Chunk) (cs : List Chunk) :
    render g0 (c :: cs) = g0 ++ (c.1 ++ render c.2 cs) := by
  simp [render, List.append_assoc]

theorem ws_no_hash (g : List Char) (hg : AllWs g) : ∀ c ∈ g, (c == '#') = false :=
  fun c hc => ws_ne (by decide) (hg c hc)

theorem nextNonDigit_head (g2 : List Char) (hg2 : AllWs g2) (ts : List TChunk) (hts : TChunksOK ts)
    (h : NextNonDigit g2 ts) :
    ∀ d r, render g2 (toChunks ts) = d :: r → d.isDigit = false := by
  intro d r hdr
  cases g2 with
  | cons x g2' =>
    simp only [render, List.cons_append] at hdr
    injection hdr with h1 _
    subst h1
    cases hd : x.isDigit with
    | false => rfl
    | true => have := digit_not_ws x hd; rw [hg2 x (by simp)] at this; cases this
  | nil =>
    rcases h with h | h
    · exact absurd rfl h
    · cases ts with
      | nil => simp [render, toChunks] at hdr
      | cons p ts' =>
        obtain ⟨t, g⟩ := p
        simp only at h
        simp only [render, toChunks, List.map_cons, renderC_cons, List.nil_append] at hdr
        cases htc : t.chars with
        | nil =>
          -- an empty token cannot occur; handled by the caller's OK hypothesis, here by `h` vacuity
          exact absurd htc (Tk.chars_ne t (hts (t, g) (by simp)).1)
        | cons d' r' =>
          rw [htc] at hdr
          simp only [List.cons_append] at hdr
          injection hdr with h1 _
          subst h1
          exact h d' r' htc

theorem TChunksOK.tail {p : TChunk} {ts : List TChunk} (h : TChunksOK (p :: ts)) : TChunksOK ts :=
  fun x hx => h x (by simp [hx])

theorem Tk.no_hash (t : Tk) (h : t.OK) (hne : t ≠ .hash) : ∀ c ∈ t.chars, (c == '#') = false := by
  intro c hc
  cases t with
  | lit cs => exact (litChar_props c (h.2 c hc)).2.2.2.2.1
  | hash => exact absurd rfl hne
  | cc ds =>
    simp only [Tk.chars, List.mem_append, List.mem_cons, List.mem_nil_iff, or_false] at hc
    rcases hc with (((rfl | rfl) | hc) | rfl)
    · decide
    · decide
    · exact (litChar_props c (digit_litChar c (h.2 c hc))).2.2.2.2.1
    · decide
  | op => simp only [Tk.chars, List.mem_singleton] at hc; subst hc; decide
  | cl => simp only [Tk.chars, List.mem_singleton] at hc; subst hc; decide
  | colon => simp only [Tk.chars, List.mem_singleton] at hc; subst hc; decide
  | uop =>
    simp only [Tk.chars, List.mem_cons, List.mem_nil_iff, or_false] at hc
    rcases hc with rfl | rfl <;> decide

/-- a chunk that is not a `#`: copied -/
theorem subComplF_plain (t : Tk) (ht : t.OK) (hne : t ≠ .hash) (g0 g : List Char) (h0 : AllWs g0)
    (ts : List TChunk) (fuel : Nat) (hf : (render g0 (toChunks ((t, g) :: ts))).length ≤ fuel) :
    ∃ fuel', (render g (toChunks ts)).length ≤ fuel' ∧
      subComplF fuel (render g0 (toChunks ((t, g) :: ts))) = g0 ++ (t.chars ++ subComplF fuel' (render g (toChunks ts))) := by
  have e : render g0 (toChunks ((t, g) :: ts)) = (g0 ++ t.chars) ++ render g (toChunks ts) := by
    simp [toChunks, render_cons, List.append_assoc]
  have hno : ∀ c ∈ g0 ++ t.chars, (c == '#') = false := by
    intro c hc
    rcases List.mem_append.mp hc with hc | hc
    · exact ws_no_hash g0 h0 c hc
    · exact Tk.no_hash t ht hne c hc
  rw [e] at hf ⊢
  refine ⟨fuel - (g0 ++ t.chars).length, ?_, ?_⟩
  · simp only [List.length_append] at hf ⊢; omega
  · rw [subComplF_copy _ hno fuel _ hf, List.append_assoc]

theorem subCompl_hrw : ∀ (ts : List TChunk) (g0 : List Char) (fuel : Nat), TChunksOK ts → AllWs g0 → HashOK ts →
    (render g0 (toChunks ts)).length ≤ fuel →
    subComplF fuel (render g0 (toChunks ts)) = rendT (hrw g0 ts)
  | [], g0, fuel, _, h0, _, hf => by
      have := subComplF_copy g0 (ws_no_hash g0 h0) fuel [] (by simpa [render, toChunks] using hf)
      simpa [render, toChunks, rendT, hrw, subComplF_nil] using this
  | (.hash, g) :: (.op, g2) :: ts, g0, fuel, hok, h0, hh, hf => by
      have hg : AllWs g := (hok (.hash, g) (by simp)).2
      have hg2 : AllWs g2 := (hok (.op, g2) (by simp)).2
      have e : render g0 (toChunks ((.hash, g) :: (.op, g2) :: ts)) =
          g0 ++ ('#' :: (g ++ '(' :: render g2 (toChunks ts))) := by
        simp [toChunks, render_cons, Tk.chars, List.append_assoc]
      rw [e] at hf ⊢
      rw [subComplF_copy g0 (ws_no_hash g0 h0) fuel _ hf]
      have hlen : (g0 ++ ('#' :: (g ++ '(' :: render g2 (toChunks ts)))).length ≤ fuel := hf
      simp only [List.length_append, List.length_cons] at hlen
      obtain ⟨f', hf'⟩ : ∃ f', fuel - g0.length = f' + 1 := ⟨fuel - g0.length - 1, by omega⟩
      rw [hf', subComplF_open f' g _ hg]
      have ih := subCompl_hrw ts g2 f' hok.tail.tail hg2 hh (by omega)
      rw [ih]
      simp [rendT, hrw, render_cons, toChunks, Tk.chars, render, List.append_assoc]
  | (.hash, g) :: (.lit ds, g2) :: ts, g0, fuel, hok, h0, hh, hf => by
      have hg : AllWs g := (hok (.hash, g) (by simp)).2
      have hg2 : AllWs g2 := (hok (.lit ds, g2) (by simp)).2
      have hds : (Tk.lit ds).OK := (hok (.lit ds, g2) (by simp)).1
      obtain ⟨hdig, hnext, hh'⟩ := hh
      have e : render g0 (toChunks ((.hash, g) :: (.lit ds, g2) :: ts)) =
          g0 ++ ('#' :: (g ++ (ds ++ render g2 (toChunks ts)))) := by
        simp [toChunks, render_cons, Tk.chars, List.append_assoc]
      rw [e] at hf ⊢
      rw [subComplF_copy g0 (ws_no_hash g0 h0) fuel _ hf]
      have hlen : (g0 ++ ('#' :: (g ++ (ds ++ render g2 (toChunks ts))))).length ≤ fuel := hf
      simp only [List.length_append, List.length_cons] at hlen
      obtain ⟨f', hf'⟩ : ∃ f', fuel - g0.length = f' + 1 := ⟨fuel - g0.length - 1, by omega⟩
      rw [hf', subComplF_digits f' g ds _ hg hds.1 hdig (nextNonDigit_head g2 hg2 ts hok.tail.tail hnext)]
      have ih := subCompl_hrw ts g2 f' hok.tail.tail hg2 hh' (by omega)
      rw [ih]
      simp [rendT, hrw, render_cons, toChunks, Tk.chars, render, List.append_assoc]
  | [(.hash, _)], _, _, _, _, hh, _ => by simp [HashOK] at hh
  | (.hash, _) :: (.cl, _) :: _, _, _, _, _, hh, _ => by simp [HashOK] at hh
  | (.hash, _) :: (.colon, _) :: _, _, _, _, _, hh, _ => by simp [HashOK] at hh
  | (.hash, _) :: (.hash, _) :: _, _, _, _, _, hh, _ => by simp [HashOK] at hh
  | (.hash, _) :: (.uop, _) :: _, _, _, _, _, hh, _ => by simp [HashOK] at hh
  | (.hash, _) :: (.cc _, _) :: _, _, _, _, _, hh, _ => by simp [HashOK] at hh
  | (.uop, _) :: _, _, _, _, _, hh, _ => by simp [HashOK] at hh
  | (.cc _, _) :: _, _, _, _, _, hh, _ => by simp [HashOK] at hh
  | (.lit cs, g) :: ts, g0, fuel, hok, h0, hh, hf => by
      obtain ⟨f', hf', e⟩ := subComplF_plain (.lit cs) (hok (.lit cs, g) (by simp)).1 (by simp) g0 g h0 ts fuel hf
      rw [e, subCompl_hrw ts g f' hok.tail (hok (.lit cs, g) (by simp)).2 (by simpa [HashOK] using hh) hf']
      simp [rendT, hrw, render_cons, toChunks, render, List.append_assoc]
  | (.op, g) :: ts, g0, fuel, hok, h0, hh, hf => by
      obtain ⟨f', hf', e⟩ := subComplF_plain .op (hok (.op, g) (by simp)).1 (by simp) g0 g h0 ts fuel hf
      rw [e, subCompl_hrw ts g f' hok.tail (hok (.op, g) (by simp)).2 (by simpa [HashOK] using hh) hf']
      simp [rendT, hrw, render_cons, toChunks, render, List.append_assoc]
  | (.cl, g) :: ts, g0, fuel, hok, h0, hh, hf => by
      obtain ⟨f', hf', e⟩ := subComplF_plain .cl (hok (.cl, g) (by simp)).1 (by simp) g0 g h0 ts fuel hf
      rw [e, subCompl_hrw ts g f' hok.tail (hok (.cl, g) (by simp)).2 (by simpa [HashOK] using hh) hf']
      simp [rendT, hrw, render_cons, toChunks, render, List.append_assoc]
  | (.colon, g) :: ts, g0, fuel, hok, h0, hh, hf => by
      obtain ⟨f', hf', e⟩ := subComplF_plain .colon (hok (.colon, g) (by simp)).1 (by simp) g0 g h0 ts fuel hf
      rw [e, subCompl_hrw ts g f' hok.tail (hok (.colon, g) (by simp)).2 (by simpa [HashOK] using hh) hf']
      simp [rendT, hrw, render_cons, toChunks, render, List.append_assoc]
end T4V.NL

namespace T4V.NL
open T4V

/-! ### neighbour maps on token lists; separators -/

def nmT (f : GapFn) : Option Tk → List Char → List TChunk → List Char × List TChunk
  | prev, g0, [] => (f (prev.map Tk.chars) g0 none, [])
  | prev, g0, (t, g) :: ts =>
      let r := nmT f (some t) g ts
      (f (prev.map Tk.chars) g0 (some t.chars), (t, r.1) :: r.2)

theorem nm_toChunks (f : GapFn) : ∀ (ts : List TChunk) (prev : Option Tk) (g0 : List Char),
    nm f (prev.map Tk.chars) g0 (toChunks ts) = ((nmT f prev g0 ts).1, toChunks (nmT f prev g0 ts).2)
  | [], _, _ => rfl
  | (t, g) :: ts, prev, g0 => by
      have ih := nm_toChunks f ts (some t) g
      simp only [toChunks, List.map_cons, nm, nmT, Option.map_some] at ih ⊢
      rw [ih]

theorem nmT_ok (f : GapFn) (hf : f.OK) : ∀ (ts : List TChunk) (prev : Option Tk) (g0 : List Char),
    AllWs g0 → TChunksOK ts → AllWs (nmT f prev g0 ts).1 ∧ TChunksOK (nmT f prev g0 ts).2
  | [], prev, g0, h0, _ => ⟨hf _ _ _ h0, fun c hc => by cases hc⟩
  | (t, g) :: ts, prev, g0, h0, h => by
      obtain ⟨ht, hws⟩ := h (t, g) (by simp)
      obtain ⟨i1, i2⟩ := nmT_ok f hf ts (some t) g hws h.tail
      refine ⟨hf _ _ _ h0, ?_⟩
      intro c hc
      simp only [nmT, List.mem_cons] at hc
      rcases hc with rfl | hc
      · exact ⟨ht, i1⟩
      · exact i2 c hc

/-- the tokens with `star` of the rewritten gaps in between -/
def sepJoin (f : GapFn) : Option Tk → List Char → List TChunk → List Char
  | prev, g0, [] => star (f (prev.map Tk.chars) g0 none)
  | prev, g0, (t, g) :: ts => star (f (prev.map Tk.chars) g0 (some t.chars)) ++ (t.chars ++ sepJoin f (some t) g ts)

theorem joinStar_nmT (f : GapFn) : ∀ (ts : List TChunk) (prev : Option Tk) (g0 : List Char),
    joinStar (nmT f prev g0 ts).1 (toChunks (nmT f prev g0 ts).2) = sepJoin f prev g0 ts
  | [], _, _ => by simp [nmT, joinStar, toChunks, sepJoin]
  | (t, g) :: ts, prev, g0 => by
      have ih := joinStar_nmT f ts (some t) g
      simp only [joinStar] at ih
      simp only [nmT, joinStar, toChunks, List.map_cons, List.flatMap_cons, sepJoin, List.append_assoc]
      rw [← ih]
      rfl

/-! ### the gap functions of `normalize` -/

theorem fDropAfter_ok (k : Char) : (fDropAfter k).OK := by
  intro a g b hg
  cases a with
  | none => exact hg
  | some t =>
    simp only [fDropAfter]
    split
    · exact AllWs.nil
    · exact hg
end T4V.NL

namespace T4V.NL
open T4V

theorem fDropBefore_ok (k : Char) : (fDropBefore k).OK := by
  intro a g b hg
  cases b with
  | none => exact hg
  | some t =>
    simp only [fDropBefore]
    split
    · exact AllWs.nil
    · exact hg

theorem fStrip_ok : fStrip.OK := by
  intro a g b hg
  cases a <;> cases b <;> first | exact AllWs.nil | exact hg

theorem allWs_space : AllWs [' '] := by intro c hc; simp only [List.mem_singleton] at hc; subst hc; decide

theorem allWs_ite (c : Bool) (x y : List Char) (hx : AllWs x) (hy : AllWs y) : AllWs (if c then x else y) := by
  cases c <;> simpa

theorem fInsBefore_ok (k : Char) (e : Char → Bool) : (fInsBefore k e).OK := by
  intro a g b hg
  cases b with
  | none => exact hg
  | some t => exact allWs_ite _ _ _ (hg.append allWs_space) hg

theorem fInsAfter_ok (k : Char) (e : Char → Bool) : (fInsAfter k e).OK := by
  intro a g b hg
  cases a with
  | none => exact hg
  | some t =>
    refine allWs_ite _ _ _ ?_ hg
    intro c hc
    rcases List.mem_cons.mp hc with rfl | hc
    · decide
    · exact hg c hc

/-- the pass `p` rewrites every gap by `f` and leaves the tokens alone -/
def PassIs (p : List Char → List Char) (f : GapFn) : Prop :=
  f.OK ∧ ∀ g0 ts, AllWs g0 → TChunksOK ts → p (render g0 (toChunks ts)) = rend (nm f none g0 (toChunks ts))

theorem PassIs.comp {p1 p2 : List Char → List Char} {f1 f2 : GapFn} (h1 : PassIs p1 f1) (h2 : PassIs p2 f2) :
    PassIs (fun s => p2 (p1 s)) (fun a g b => f2 a (f1 a g b) b) := by
  refine ⟨fun a g b hg => h2.1 _ _ _ (h1.1 _ _ _ hg), ?_⟩
  intro g0 ts h0 hts
  have e1 := h1.2 g0 ts h0 hts
  have hn := nm_toChunks f1 ts none g0
  simp only [Option.map_none] at hn
  obtain ⟨o1, o2⟩ := nmT_ok f1 h1.1 ts none g0 h0 hts
  show p2 (p1 (render g0 (toChunks ts))) = _
  rw [e1, hn]
  show p2 (render _ (toChunks _)) = _
  rw [h2.2 _ _ o1 o2, ← nm_comp f2 f1 (toChunks ts) none g0, hn]

theorem pass_strip : PassIs strip fStrip :=
  ⟨fStrip_ok, fun g0 ts h0 hts => strip_nm g0 h0 _ (toChunks_ok ts hts)⟩

theorem pass_dropAfter (k : Char) (hk : isWs k = false) : PassIs (dropAfter k false) (fDropAfter k) :=
  ⟨fDropAfter_ok k, fun g0 ts h0 hts => dropAfter_nm k hk g0 h0 _ (toChunks_ok ts hts)⟩

theorem pass_dropBefore (k : Char) (hk : isWs k = false) :
    PassIs (fun s => (dropAfter k false s.reverse).reverse) (fDropBefore k) :=
  ⟨fDropBefore_ok k, fun g0 ts h0 hts => dropBefore_nm k hk g0 h0 _ (toChunks_ok ts hts)⟩

theorem pass_beforeOpen : PassIs subBeforeOpen (fInsBefore '(' exclOpen) := by
  refine ⟨fInsBefore_ok _ _, fun g0 ts h0 hts => ?_⟩
  have h1 := subBeforeOpen_eq (render g0 (toChunks ts)).length (render g0 (toChunks ts)) (Nat.le_refl _) none
  simp only at h1
  rw [h1]
  have hin : ∀ c ∈ toChunks ts, InertB '(' exclOpen c.1 := by
    intro c hc
    simp only [toChunks, List.mem_map] at hc
    obtain ⟨p, hp, rfl⟩ := hc
    exact Tk.inertB p.1 (hts p hp).1
  exact genIns_chunks '(' exclOpen (by decide) _ (toChunks_ok ts hts) hin none g0 h0

theorem pass_afterClose : PassIs subAfterClose (fInsAfter ')' exclClose) := by
  refine ⟨fInsAfter_ok _ _, fun g0 ts h0 hts => ?_⟩
  rw [subAfterClose_eq _ _ (Nat.le_refl _)]
  have hin : ∀ c ∈ toChunks ts, InertA ')' exclClose c.1 := by
    intro c hc
    simp only [toChunks, List.mem_map] at hc
    obtain ⟨p, hp, rfl⟩ := hc
    exact Tk.inertA p.1 (hts p hp).1
  exact genInsA_render ')' exclClose (by decide) _ (toChunks_ok ts hts) hin g0 h0

/-- the gap function of `strip` followed by `subUnion` -/
def F1 : GapFn := fun a g b => fDropBefore ':' a (fDropAfter ':' a (fStrip a g b) b) b

/-- the gap function of the passes after `subCompl` -/
def F3 : GapFn := fun a g b =>
  fStrip a (fInsAfter ')' exclClose a (fInsBefore '(' exclOpen a (fDropBefore ')' a (fDropAfter '(' a
    (fDropBefore ':' a (fDropAfter ':' a g b) b) b) b) b) b) b

theorem pass_A : PassIs (fun s => subUnion (strip s)) F1 :=
  (pass_strip.comp (pass_dropAfter ':' (by decide))).comp (pass_dropBefore ':' (by decide))

theorem pass_C : PassIs (fun s => strip (subAfterClose (subBeforeOpen (subParenClose (subParenOpen (subUnion s)))))) F3 :=
  ((((((pass_dropAfter ':' (by decide)).comp (pass_dropBefore ':' (by decide))).comp
    (pass_dropAfter '(' (by decide))).comp (pass_dropBefore ')' (by decide))).comp pass_beforeOpen).comp
    pass_afterClose).comp pass_strip
end T4V.NL

namespace T4V.NL
open T4V

/-! ### what `F3` does to one gap -/

/-- is the gap between a token ending in `al` and a token starting with `bf` non-empty after the passes? (`e`: it was
non-empty before) -/
def gapNonempty (al bf : Char) (e : Bool) : Bool :=
  let e1 := e && !(al == ':') && !(bf == ':')
  let e2 := e1 && !(al == '(')
  let e3 := e2 && !(bf == ')')
  let e4 := e3 || (bf == '(' && !exclOpen al)
  e4 || (al == ')' && !exclClose bf)

theorem endsWith_of_last (k : Char) (t : List Char) (c : Char) (h : t.getLast? = some c) : endsWith k t = (c == k) := by
  simp [endsWith, h]

theorem startsWith_of_head (k : Char) (t : List Char) (c : Char) (h : t.head? = some c) : startsWith k t = (c == k) := by
  simp [startsWith, h]

theorem isEmpty_ite (c : Bool) (x y : List Char) : (if c then x else y).isEmpty = (if c then x.isEmpty else y.isEmpty) := by
  cases c <;> rfl

theorem isEmpty_dropAfter (k : Char) (a : List Char) (al : Char) (ha : a.getLast? = some al) (g : List Char)
    (b : Option (List Char)) : (fDropAfter k (some a) g b).isEmpty = (g.isEmpty || (al == k)) := by
  simp only [fDropAfter, endsWith_of_last k a al ha]
  cases (al == k) <;> simp

theorem isEmpty_dropBefore (k : Char) (b : List Char) (bf : Char) (hb : b.head? = some bf) (g : List Char)
    (a : Option (List Char)) : (fDropBefore k a g (some b)).isEmpty = (g.isEmpty || (bf == k)) := by
  simp only [fDropBefore, startsWith_of_head k b bf hb]
  cases (bf == k) <;> simp

theorem isEmpty_insBefore (k : Char) (e : Char → Bool) (a b : List Char) (al bf : Char) (ha : a.getLast? = some al)
    (hb : b.head? = some bf) (g : List Char) :
    (fInsBefore k e (some a) g (some b)).isEmpty = (g.isEmpty && !((bf == k) && !e al)) := by
  simp only [fInsBefore, startsWith_of_head k b bf hb]
  cases g with
  | nil =>
    have hl : lastOr a.getLast? ([] : List Char) = some al := by simp [lastOr, ha]
    rw [hl]
    show (if ((bf == k) && !e al) = true then [' '] else ([] : List Char)).isEmpty = (true && !((bf == k) && !e al))
    cases ((bf == k) && !e al) <;> rfl
  | cons x g' => rw [isEmpty_ite]; simp

theorem isEmpty_insAfter (k : Char) (e : Char → Bool) (a b : List Char) (al bf : Char) (ha : a.getLast? = some al)
    (hb : b.head? = some bf) (g : List Char) :
    (fInsAfter k e (some a) g (some b)).isEmpty = (g.isEmpty && !((al == k) && !e bf)) := by
  simp only [fInsAfter, endsWith_of_last k a al ha]
  cases g with
  | nil =>
    cases b with
    | nil => simp at hb
    | cons y r =>
      simp only [List.head?_cons, Option.some.injEq] at hb
      subst hb
      show (if ((al == k) && !e y) = true then [' '] else ([] : List Char)).isEmpty = (true && !((al == k) && !e y))
      cases ((al == k) && !e y) <;> rfl
  | cons x g' => rw [isEmpty_ite]; simp

theorem F3_inner (a b : List Char) (al bf : Char) (ha : a.getLast? = some al) (hb : b.head? = some bf) (g : List Char) :
    (F3 (some a) g (some b)).isEmpty = !gapNonempty al bf (!g.isEmpty) := by
  have hs : ∀ x, fStrip (some a) x (some b) = x := fun _ => rfl
  simp only [F3, hs, isEmpty_insAfter _ _ a b al bf ha hb, isEmpty_insBefore _ _ a b al bf ha hb,
    isEmpty_dropBefore _ b bf hb, isEmpty_dropAfter _ a al ha, gapNonempty]
  generalize g.isEmpty = e0
  generalize (al == ':') = b1
  generalize (bf == ':') = b2
  generalize (al == '(') = b3
  generalize (bf == ')') = b4
  generalize (bf == '(') = b5
  generalize exclOpen al = b6
  generalize (al == ')') = b7
  generalize exclClose bf = b8
  cases e0 <;> cases b1 <;> cases b2 <;> cases b3 <;> cases b4 <;> cases b5 <;> cases b6 <;> cases b7 <;> cases b8 <;> rfl
end T4V.NL

namespace T4V.NL
open T4V

/-! ### separators between tokens -/

def Tk.first : Tk → Char
  | .lit cs => cs.headD '0'
  | .op => '(' | .cl => ')' | .colon => ':' | .hash => '#' | .uop => '_' | .cc _ => '^'

def Tk.last : Tk → Char
  | .lit cs => cs.getLastD '0'
  | .op => '(' | .cl => ')' | .colon => ':' | .hash => '#' | .uop => '(' | .cc _ => ')'

theorem Tk.head_chars (t : Tk) (h : t.OK) : t.chars.head? = some t.first := by
  cases t with
  | lit cs =>
    cases cs with
    | nil => exact absurd rfl h.1
    | cons c cs => rfl
  | _ => rfl

theorem Tk.last_chars (t : Tk) (h : t.OK) : t.chars.getLast? = some t.last := by
  cases t with
  | lit cs =>
    cases hl : cs.getLast? with
    | none => exact absurd (List.getLast?_eq_none_iff.mp hl) h.1
    | some c =>
      simp only [Tk.chars, hl, Tk.last, List.getLastD_eq_getLast?]
      rfl
  | cc ds =>
    have : (Tk.cc ds).chars = ('^' :: '(' :: ds) ++ [')'] := by simp [Tk.chars]
    rw [this, List.getLast?_concat]; rfl
  | _ => rfl

theorem Tk.first_lit (cs : List Char) (h : (Tk.lit cs).OK) : litChar (Tk.lit cs).first = true := by
  cases cs with
  | nil => exact absurd rfl h.1
  | cons c cs => exact h.2 c (by simp)

theorem Tk.last_lit (cs : List Char) (h : (Tk.lit cs).OK) : litChar (Tk.lit cs).last = true := by
  cases hl : cs.getLast? with
  | none => exact absurd (List.getLast?_eq_none_iff.mp hl) h.1
  | some c =>
    have : (Tk.lit cs).last = c := by simp [Tk.last, List.getLastD_eq_getLast?, hl]
    rw [this]
    exact h.2 c (List.mem_of_getLast? hl)

/-- an operand can end / start with this token -/
def opEnd : Tk → Bool
  | .lit _ => true | .cl => true | .cc _ => true | _ => false
def opStart : Tk → Bool
  | .lit _ => true | .op => true | .uop => true | .cc _ => true | _ => false

def isLit : Tk → Bool | .lit _ => true | _ => false
def isCompl : Tk → Bool | .uop => true | .cc _ => true | _ => false

/-- what `subCompl` and the layout guarantee about a gap: non-empty between two literals and in front of `_(` / `^(` -/
def Pre (a : Tk) (g : List Char) (b : Tk) : Prop := ((isLit a && isLit b) || isCompl b) = true → g ≠ []

theorem gap_sep (a b : Tk) (ha : a.OK) (hb : b.OK) (hah : a ≠ .hash) (hbh : b ≠ .hash) (g : List Char)
    (hpre : Pre a g b) :
    gapNonempty a.last b.first (!g.isEmpty) = (opEnd a && opStart b) := by
  have hge : ∀ (h : ((isLit a && isLit b) || isCompl b) = true), (!g.isEmpty) = true := by
    intro h
    have := hpre h
    cases g with
    | nil => exact absurd rfl this
    | cons x g' => rfl
  cases a with
  | hash => exact absurd rfl hah
  | lit cs =>
    obtain ⟨_, p1, p2, p3, _, p5, p6⟩ := litChar_props _ (Tk.last_lit cs ha)
    cases b with
    | hash => exact absurd rfl hbh
    | lit cs' =>
      obtain ⟨_, q1, q2, q3, _, q5, q6⟩ := litChar_props _ (Tk.first_lit cs' hb)
      simp [gapNonempty, p1, p2, p3, p5, p6, q1, q2, q3, q5, q6, opEnd, opStart, hge (by simp [isLit])]
    | op => simp [gapNonempty, p1, p2, p3, p5, p6, Tk.first, opEnd, opStart]
    | cl => simp [gapNonempty, p1, p2, p3, p5, p6, Tk.first, opEnd, opStart]
    | colon => simp [gapNonempty, p1, p2, p3, p5, p6, Tk.first, opEnd, opStart]
    | uop => simp [gapNonempty, p1, p2, p3, p5, p6, Tk.first, opEnd, opStart, hge (by simp [isCompl])]
    | cc ds => simp [gapNonempty, p1, p2, p3, p5, p6, Tk.first, opEnd, opStart, hge (by simp [isCompl])]
  | op => cases b <;> simp [gapNonempty, Tk.first, Tk.last, opEnd, opStart, exclOpen, exclClose]
  | cl =>
    cases b with
    | hash => exact absurd rfl hbh
    | lit cs' =>
      obtain ⟨_, q1, q2, q3, _, q5, q6⟩ := litChar_props _ (Tk.first_lit cs' hb)
      simp [gapNonempty, q1, q2, q3, q5, q6, Tk.last, opEnd, opStart, exclOpen]
    | op => simp [gapNonempty, Tk.first, Tk.last, opEnd, opStart, exclOpen, exclClose]
    | cl => simp [gapNonempty, Tk.first, Tk.last, opEnd, opStart, exclOpen, exclClose]
    | colon => simp [gapNonempty, Tk.first, Tk.last, opEnd, opStart, exclOpen, exclClose]
    | uop => simp [gapNonempty, Tk.first, Tk.last, opEnd, opStart, exclOpen, exclClose, hge (by simp [isCompl])]
    | cc ds => simp [gapNonempty, Tk.first, Tk.last, opEnd, opStart, exclOpen, exclClose, hge (by simp [isCompl])]
  | colon => cases b <;> simp [gapNonempty, Tk.first, Tk.last, opEnd, opStart, exclOpen, exclClose]
  | uop => cases b <;> simp [gapNonempty, Tk.first, Tk.last, opEnd, opStart, exclOpen, exclClose]
  | cc ds =>
    cases b with
    | hash => exact absurd rfl hbh
    | lit cs' =>
      obtain ⟨_, q1, q2, q3, _, q5, q6⟩ := litChar_props _ (Tk.first_lit cs' hb)
      simp [gapNonempty, q1, q2, q3, q5, q6, Tk.last, opEnd, opStart, exclOpen]
    | op => simp [gapNonempty, Tk.first, Tk.last, opEnd, opStart, exclOpen, exclClose]
    | cl => simp [gapNonempty, Tk.first, Tk.last, opEnd, opStart, exclOpen, exclClose]
    | colon => simp [gapNonempty, Tk.first, Tk.last, opEnd, opStart, exclOpen, exclClose]
    | uop => simp [gapNonempty, Tk.first, Tk.last, opEnd, opStart, exclOpen, exclClose, hge (by simp [isCompl])]
    | cc ds' => simp [gapNonempty, Tk.first, Tk.last, opEnd, opStart, exclOpen, exclClose, hge (by simp [isCompl])]
end T4V.NL

namespace T4V.NL
open T4V

/-! ### legal layouts -/

def isLitO : Option Tk → Bool
  | some (.lit _) => true
  | _ => false

/-- MCNP-legal spacing of a token list (read left to right, `prev` = the token before, `g0` = the gap in front):
two surface literals are separated by at least one blank; `#` is followed (after optional blanks) by `(` or by a cell
number; the internal markers `_(` and `^(` do not occur -/
def LegalFrom : Option Tk → List Char → List TChunk → Prop
  | _, _, [] => True
  | _, _, (.hash, _) :: (.op, g2) :: ts => LegalFrom (some .op) g2 ts
  | _, _, (.hash, _) :: (.lit ds, g2) :: ts => (∀ c ∈ ds, c.isDigit = true) ∧ LegalFrom (some (.lit ds)) g2 ts
  | _, _, (.hash, _) :: _ => False
  | _, _, (.uop, _) :: _ => False
  | _, _, (.cc _, _) :: _ => False
  | prev, g0, (.lit cs, g) :: ts => (isLitO prev = true → g0 ≠ []) ∧ LegalFrom (some (.lit cs)) g ts
  | _, _, (.op, g) :: ts => LegalFrom (some .op) g ts
  | _, _, (.cl, g) :: ts => LegalFrom (some .cl) g ts
  | _, _, (.colon, g) :: ts => LegalFrom (some .colon) g ts

theorem legal_hashOK : ∀ (ts : List TChunk) (prev : Option Tk) (g0 : List Char), TChunksOK ts →
    LegalFrom prev g0 ts → HashOK ts
  | [], _, _, _, _ => trivial
  | (.hash, g) :: (.op, g2) :: ts, prev, g0, hok, h => by
      simp only [LegalFrom] at h
      simp only [HashOK]
      exact legal_hashOK ts _ g2 hok.tail.tail h
  | (.hash, g) :: (.lit ds, g2) :: ts, prev, g0, hok, h => by
      simp only [LegalFrom] at h
      simp only [HashOK]
      refine ⟨h.1, ?_, legal_hashOK ts _ g2 hok.tail.tail h.2⟩
      -- the character after the cell number is not a digit
      cases ts with
      | nil => exact Or.inr trivial
      | cons p ts' =>
        obtain ⟨t, g3⟩ := p
        have h2 := h.2
        cases t with
        | lit cs => simp only [LegalFrom] at h2; exact Or.inl (h2.1 rfl)
        | op => exact Or.inr (by intro d r hd; simp [Tk.chars] at hd; rw [← hd.1]; decide)
        | cl => exact Or.inr (by intro d r hd; simp [Tk.chars] at hd; rw [← hd.1]; decide)
        | colon => exact Or.inr (by intro d r hd; simp [Tk.chars] at hd; rw [← hd.1]; decide)
        | hash => exact Or.inr (by intro d r hd; simp [Tk.chars] at hd; rw [← hd.1]; decide)
        | uop => simp [LegalFrom] at h2
        | cc ds' => simp [LegalFrom] at h2
  | [(.hash, _)], _, _, _, h => by simp [LegalFrom] at h
  | (.hash, _) :: (.cl, _) :: _, _, _, _, h => by simp [LegalFrom] at h
  | (.hash, _) :: (.colon, _) :: _, _, _, _, h => by simp [LegalFrom] at h
  | (.hash, _) :: (.hash, _) :: _, _, _, _, h => by simp [LegalFrom] at h
  | (.hash, _) :: (.uop, _) :: _, _, _, _, h => by simp [LegalFrom] at h
  | (.hash, _) :: (.cc _, _) :: _, _, _, _, h => by simp [LegalFrom] at h
  | (.uop, _) :: _, _, _, _, h => by simp [LegalFrom] at h
  | (.cc _, _) :: _, _, _, _, h => by simp [LegalFrom] at h
  | (.lit cs, g) :: ts, prev, g0, hok, h => by
      simp only [LegalFrom] at h
      simp only [HashOK]
      exact legal_hashOK ts _ g hok.tail h.2
  | (.op, g) :: ts, prev, g0, hok, h => by
      simp only [LegalFrom] at h; simp only [HashOK]; exact legal_hashOK ts _ g hok.tail h
  | (.cl, g) :: ts, prev, g0, hok, h => by
      simp only [LegalFrom] at h; simp only [HashOK]; exact legal_hashOK ts _ g hok.tail h
  | (.colon, g) :: ts, prev, g0, hok, h => by
      simp only [LegalFrom] at h; simp only [HashOK]; exact legal_hashOK ts _ g hok.tail h
end T4V.NL

namespace T4V.NL
open T4V

/-- `strip` + `subUnion` leave the gap between two literals alone -/
theorem F1_lit (p : Tk) (cs' cs : List Char) (hp : p = .lit cs') (hpo : p.OK) (hc : (Tk.lit cs).OK) (g : List Char) :
    F1 (some p.chars) g (some (Tk.lit cs).chars) = g := by
  subst hp
  have h1 : endsWith ':' (Tk.lit cs').chars = false := by
    rw [endsWith_of_last _ _ _ (Tk.last_chars _ hpo)]
    exact (litChar_props _ (Tk.last_lit cs' hpo)).2.2.2.1
  have h2 : startsWith ':' (Tk.lit cs).chars = false := by
    rw [startsWith_of_head _ _ _ (Tk.head_chars _ hc)]
    exact (litChar_props _ (Tk.first_lit cs hc)).2.2.2.1
  simp [F1, fStrip, fDropAfter, fDropBefore, h1, h2]

theorem legal_nmT_F1 : ∀ (ts : List TChunk) (prev : Option Tk) (g0 : List Char), TChunksOK ts →
    (∀ p, prev = some p → p.OK) → LegalFrom prev g0 ts →
    LegalFrom prev (nmT F1 prev g0 ts).1 (nmT F1 prev g0 ts).2
  | [], _, _, _, _, _ => trivial
  | (.hash, g) :: (.op, g2) :: ts, prev, g0, hok, hp, h => by
      simp only [LegalFrom] at h
      simp only [nmT, LegalFrom]
      exact legal_nmT_F1 ts (some .op) g2 hok.tail.tail (fun p hp' => by cases hp'; trivial) h
  | (.hash, g) :: (.lit ds, g2) :: ts, prev, g0, hok, hp, h => by
      simp only [LegalFrom] at h
      simp only [nmT, LegalFrom]
      exact ⟨h.1, legal_nmT_F1 ts (some (.lit ds)) g2 hok.tail.tail
        (fun p hp' => by cases hp'; exact (hok (.lit ds, g2) (by simp)).1) h.2⟩
  | [(.hash, _)], _, _, _, _, h => by simp [LegalFrom] at h
  | (.hash, _) :: (.cl, _) :: _, _, _, _, _, h => by simp [LegalFrom] at h
  | (.hash, _) :: (.colon, _) :: _, _, _, _, _, h => by simp [LegalFrom] at h
  | (.hash, _) :: (.hash, _) :: _, _, _, _, _, h => by simp [LegalFrom] at h
  | (.hash, _) :: (.uop, _) :: _, _, _, _, _, h => by simp [LegalFrom] at h
  | (.hash, _) :: (.cc _, _) :: _, _, _, _, _, h => by simp [LegalFrom] at h
  | (.uop, _) :: _, _, _, _, _, h => by simp [LegalFrom] at h
  | (.cc _, _) :: _, _, _, _, _, h => by simp [LegalFrom] at h
  | (.lit cs, g) :: ts, prev, g0, hok, hp, h => by
      simp only [LegalFrom] at h
      have hc : (Tk.lit cs).OK := (hok (.lit cs, g) (by simp)).1
      simp only [nmT, LegalFrom]
      refine ⟨?_, legal_nmT_F1 ts (some (.lit cs)) g hok.tail (fun p hp' => by cases hp'; exact hc) h.2⟩
      intro hl
      cases prev with
      | none => simp [isLitO] at hl
      | some p =>
        cases p with
        | lit cs' =>
          have := F1_lit (.lit cs') cs' cs rfl (hp _ rfl) hc g0
          simp only [Option.map_some]
          rw [this]; exact h.1 hl
        | _ => simp [isLitO] at hl
  | (.op, g) :: ts, prev, g0, hok, hp, h => by
      simp only [LegalFrom] at h
      simp only [nmT, LegalFrom]
      exact legal_nmT_F1 ts (some .op) g hok.tail (fun p hp' => by cases hp'; trivial) h
  | (.cl, g) :: ts, prev, g0, hok, hp, h => by
      simp only [LegalFrom] at h
      simp only [nmT, LegalFrom]
      exact legal_nmT_F1 ts (some .cl) g hok.tail (fun p hp' => by cases hp'; trivial) h
  | (.colon, g) :: ts, prev, g0, hok, hp, h => by
      simp only [LegalFrom] at h
      simp only [nmT, LegalFrom]
      exact legal_nmT_F1 ts (some .colon) g hok.tail (fun p hp' => by cases hp'; trivial) h
end T4V.NL

namespace T4V.NL
open T4V

/-! ### after `subCompl`: tokens, gaps, separators -/

def postToks : List Tk → List Tk
  | [] => []
  | .hash :: .op :: ts => .uop :: postToks ts
  | .hash :: .lit ds :: ts => .cc ds :: postToks ts
  | t :: ts => t :: postToks ts

theorem nmT_toks (f : GapFn) : ∀ (ts : List TChunk) (prev : Option Tk) (g0 : List Char),
    (nmT f prev g0 ts).2.map (·.1) = ts.map (·.1)
  | [], _, _ => rfl
  | (t, g) :: ts, prev, g0 => by simp [nmT, nmT_toks f ts (some t) g]

def PreChainFrom : Option Tk → List Char → List TChunk → Prop
  | _, _, [] => True
  | prev, g, (b, g2) :: rest => (match prev with | some a => Pre a g b | none => True) ∧ PreChainFrom (some b) g2 rest

def isLitO' : Option Tk → Bool
  | some t => isLit t
  | none => false

theorem hrw_spec : ∀ (ts : List TChunk) (prevI prevP : Option Tk) (g0 : List Char), TChunksOK ts → AllWs g0 →
    (isLitO' prevP = true → isLitO prevI = true) → LegalFrom prevI g0 ts →
    PreChainFrom prevP (hrw g0 ts).1 (hrw g0 ts).2 ∧ AllWs (hrw g0 ts).1 ∧ TChunksOK (hrw g0 ts).2 ∧
    (∀ p ∈ (hrw g0 ts).2, p.1 ≠ .hash) ∧ (hrw g0 ts).2.map (·.1) = postToks (ts.map (·.1))
  | [], _, _, g0, _, h0, _, _ => ⟨trivial, h0, (fun p hp => by cases hp), (fun p hp => by cases hp), rfl⟩
  | (.hash, g) :: (.op, g2) :: ts, prevI, prevP, g0, hok, h0, hr, h => by
      simp only [LegalFrom] at h
      obtain ⟨i1, i2, i3, i4, i5⟩ := hrw_spec ts (some .op) (some .uop) g2 hok.tail.tail (hok (.op, g2) (by simp)).2
        (fun hh => by simp [isLitO', isLit] at hh) h
      refine ⟨⟨?_, i1⟩, h0.append allWs_space, ?_, ?_, ?_⟩
      · cases prevP with
        | none => trivial
        | some a => intro _; simp [hrw]
      · intro p hp
        simp only [hrw, List.mem_cons] at hp
        rcases hp with rfl | hp
        · exact ⟨trivial, i2⟩
        · exact i3 p hp
      · intro p hp
        simp only [hrw, List.mem_cons] at hp
        rcases hp with rfl | hp
        · simp
        · exact i4 p hp
      · simp only [hrw, List.map_cons, postToks, i5]
  | (.hash, g) :: (.lit ds, g2) :: ts, prevI, prevP, g0, hok, h0, hr, h => by
      simp only [LegalFrom] at h
      have hds : (Tk.lit ds).OK := (hok (.lit ds, g2) (by simp)).1
      obtain ⟨i1, i2, i3, i4, i5⟩ := hrw_spec ts (some (.lit ds)) (some (.cc ds)) g2 hok.tail.tail
        (hok (.lit ds, g2) (by simp)).2 (fun hh => by simp [isLitO', isLit] at hh) h.2
      refine ⟨⟨?_, i1⟩, h0.append allWs_space, ?_, ?_, ?_⟩
      · cases prevP with
        | none => trivial
        | some a => intro _; simp [hrw]
      · intro p hp
        simp only [hrw, List.mem_cons] at hp
        rcases hp with rfl | hp
        · exact ⟨⟨hds.1, h.1⟩, i2⟩
        · exact i3 p hp
      · intro p hp
        simp only [hrw, List.mem_cons] at hp
        rcases hp with rfl | hp
        · simp
        · exact i4 p hp
      · simp only [hrw, List.map_cons, postToks, i5]
  | [(.hash, _)], _, _, _, _, _, _, h => by simp [LegalFrom] at h
  | (.hash, _) :: (.cl, _) :: _, _, _, _, _, _, _, h => by simp [LegalFrom] at h
  | (.hash, _) :: (.colon, _) :: _, _, _, _, _, _, _, h => by simp [LegalFrom] at h
  | (.hash, _) :: (.hash, _) :: _, _, _, _, _, _, _, h => by simp [LegalFrom] at h
  | (.hash, _) :: (.uop, _) :: _, _, _, _, _, _, _, h => by simp [LegalFrom] at h
  | (.hash, _) :: (.cc _, _) :: _, _, _, _, _, _, _, h => by simp [LegalFrom] at h
  | (.uop, _) :: _, _, _, _, _, _, _, h => by simp [LegalFrom] at h
  | (.cc _, _) :: _, _, _, _, _, _, _, h => by simp [LegalFrom] at h
  | (.lit cs, g) :: ts, prevI, prevP, g0, hok, h0, hr, h => by
      simp only [LegalFrom] at h
      obtain ⟨i1, i2, i3, i4, i5⟩ := hrw_spec ts (some (.lit cs)) (some (.lit cs)) g hok.tail
        (hok (.lit cs, g) (by simp)).2 (fun _ => rfl) h.2
      refine ⟨⟨?_, i1⟩, h0, ?_, ?_, ?_⟩
      · cases prevP with
        | none => trivial
        | some a =>
          intro hh
          have hla : isLit a = true := by
            cases hl : isLit a with
            | true => rfl
            | false => simp [hl, isCompl] at hh
          exact h.1 (hr hla)
      · intro p hp
        simp only [hrw, List.mem_cons] at hp
        rcases hp with rfl | hp
        · exact ⟨(hok (.lit cs, g) (by simp)).1, i2⟩
        · exact i3 p hp
      · intro p hp
        simp only [hrw, List.mem_cons] at hp
        rcases hp with rfl | hp
        · simp
        · exact i4 p hp
      · simp only [hrw, List.map_cons, postToks, i5]
  | (.op, g) :: ts, prevI, prevP, g0, hok, h0, hr, h => by
      simp only [LegalFrom] at h
      obtain ⟨i1, i2, i3, i4, i5⟩ := hrw_spec ts (some .op) (some .op) g hok.tail
        (hok (.op, g) (by simp)).2 (fun hh => by simp [isLitO', isLit] at hh) h
      refine ⟨⟨?_, i1⟩, h0, ?_, ?_, ?_⟩
      · cases prevP with
        | none => trivial
        | some a => intro hh; simp [isLit, isCompl] at hh
      · intro p hp
        simp only [hrw, List.mem_cons] at hp
        rcases hp with rfl | hp
        · exact ⟨trivial, i2⟩
        · exact i3 p hp
      · intro p hp
        simp only [hrw, List.mem_cons] at hp
        rcases hp with rfl | hp
        · simp
        · exact i4 p hp
      · simp only [hrw, List.map_cons, postToks, i5]
  | (.cl, g) :: ts, prevI, prevP, g0, hok, h0, hr, h => by
      simp only [LegalFrom] at h
      obtain ⟨i1, i2, i3, i4, i5⟩ := hrw_spec ts (some .cl) (some .cl) g hok.tail
        (hok (.cl, g) (by simp)).2 (fun hh => by simp [isLitO', isLit] at hh) h
      refine ⟨⟨?_, i1⟩, h0, ?_, ?_, ?_⟩
      · cases prevP with
        | none => trivial
        | some a => intro hh; simp [isLit, isCompl] at hh
      · intro p hp
        simp only [hrw, List.mem_cons] at hp
        rcases hp with rfl | hp
        · exact ⟨trivial, i2⟩
        · exact i3 p hp
      · intro p hp
        simp only [hrw, List.mem_cons] at hp
        rcases hp with rfl | hp
        · simp
        · exact i4 p hp
      · simp only [hrw, List.map_cons, postToks, i5]
  | (.colon, g) :: ts, prevI, prevP, g0, hok, h0, hr, h => by
      simp only [LegalFrom] at h
      obtain ⟨i1, i2, i3, i4, i5⟩ := hrw_spec ts (some .colon) (some .colon) g hok.tail
        (hok (.colon, g) (by simp)).2 (fun hh => by simp [isLitO', isLit] at hh) h
      refine ⟨⟨?_, i1⟩, h0, ?_, ?_, ?_⟩
      · cases prevP with
        | none => trivial
        | some a => intro hh; simp [isLit, isCompl] at hh
      · intro p hp
        simp only [hrw, List.mem_cons] at hp
        rcases hp with rfl | hp
        · exact ⟨trivial, i2⟩
        · exact i3 p hp
      · intro p hp
        simp only [hrw, List.mem_cons] at hp
        rcases hp with rfl | hp
        · simp
        · exact i4 p hp
      · simp only [hrw, List.map_cons, postToks, i5]
end T4V.NL

namespace T4V.NL
open T4V

/-! ### the canonical spelling of a token list, and the theorem for token lists -/

def sepOf (a b : Tk) : List Char := if opEnd a && opStart b then ['*'] else []

def canonT : List Tk → List Char
  | [] => []
  | [t] => t.chars
  | a :: b :: ts => a.chars ++ (sepOf a b ++ canonT (b :: ts))

theorem star_of_isEmpty (x : List Char) (c : Bool) (h : x.isEmpty = !c) : star x = if c then ['*'] else [] := by
  cases x with
  | nil => cases c <;> simp_all [star]
  | cons y x => cases c <;> simp_all [star]

theorem sepJoin_F3 : ∀ (ts : List TChunk) (a : Tk) (g : List Char), a.OK → a ≠ .hash → TChunksOK ts →
    (∀ p ∈ ts, p.1 ≠ .hash) → PreChainFrom (some a) g ts →
    sepJoin F3 (some a) g ts = (canonT (a :: ts.map (·.1))).drop a.chars.length
  | [], a, g, _, _, _, _, _ => by
      simp [sepJoin, F3, fStrip, star, canonT]
  | (b, g2) :: ts, a, g, ha, hah, hok, hnh, hp => by
      obtain ⟨hb, hg2⟩ := hok (b, g2) (by simp)
      have hbh : b ≠ .hash := hnh (b, g2) (by simp)
      have ih := sepJoin_F3 ts b g2 hb hbh hok.tail (fun p hp' => hnh p (by simp [hp'])) hp.2
      have hinner := F3_inner a.chars b.chars a.last b.first (Tk.last_chars a ha) (Tk.head_chars b hb) g
      rw [gap_sep a b ha hb hah hbh g hp.1] at hinner
      have hstar := star_of_isEmpty _ _ hinner
      simp only [sepJoin, Option.map_some, hstar, ih, List.map_cons, canonT, sepOf]
      have hcan : canonT (b :: ts.map (·.1)) = b.chars ++ (canonT (b :: ts.map (·.1))).drop b.chars.length := by
        cases ts with
        | nil => simp [canonT]
        | cons c ts' => simp [canonT]
      rw [List.drop_left, ← hcan]

/-- **`normalize` on a token list**: whatever the spacing — any number of blanks of any kind wherever MCNP allows
them, none where two tokens may touch — the result is the canonical spelling of the tokens: `*` exactly between the
end of one operand and the start of the next, `_(`/`^(n)` for the two complements, nothing else -/
theorem normalize_tokens (ts : List TChunk) (g0 : List Char) (hok : TChunksOK ts) (h0 : AllWs g0)
    (hl : LegalFrom none g0 ts) :
    normalize (render g0 (toChunks ts)) = canonT (postToks (ts.map (·.1))) := by
  -- strip, subUnion
  have hA := pass_A.2 g0 ts h0 hok
  have hnA := nm_toChunks F1 ts none g0
  simp only [Option.map_none] at hnA
  obtain ⟨oA1, oA2⟩ := nmT_ok F1 pass_A.1 ts none g0 h0 hok
  have hlA := legal_nmT_F1 ts none g0 hok (fun p hp => by cases hp) hl
  -- subCompl
  have hB := subCompl_hrw _ _ _ oA2 oA1 (legal_hashOK _ _ _ oA2 hlA) (Nat.le_refl _)
  obtain ⟨s1, s2, s3, s4, s5⟩ := hrw_spec _ none none _ oA2 oA1 (fun hh => by simp [isLitO'] at hh) hlA
  -- the remaining passes
  have hC := pass_C.2 _ _ s2 s3
  have hnC := nm_toChunks F3 (hrw (nmT F1 none g0 ts).1 (nmT F1 none g0 ts).2).2 none
    (hrw (nmT F1 none g0 ts).1 (nmT F1 none g0 ts).2).1
  simp only [Option.map_none] at hnC
  obtain ⟨oC1, oC2⟩ := nmT_ok F3 pass_C.1 _ none _ s2 s3
  have hnorm : normalize (render g0 (toChunks ts)) =
      subSpaces (strip (subAfterClose (subBeforeOpen (subParenClose (subParenOpen (subUnion (subCompl
        (subUnion (strip (render g0 (toChunks ts))))))))))) := rfl
  rw [hnorm]
  have e1 : subUnion (strip (render g0 (toChunks ts))) = render (nmT F1 none g0 ts).1 (toChunks (nmT F1 none g0 ts).2) := by
    have := hA; simp only at this; rw [this, hnA]; rfl
  rw [e1]
  have e2 : subCompl (render (nmT F1 none g0 ts).1 (toChunks (nmT F1 none g0 ts).2)) =
      rendT (hrw (nmT F1 none g0 ts).1 (nmT F1 none g0 ts).2) := hB
  rw [e2]
  have e3 := hC
  simp only at e3
  unfold rendT
  rw [e3, hnC]
  show subSpaces (render _ (toChunks _)) = _
  rw [subSpaces_render _ oC1 _ (toChunks_ok _ oC2), joinStar_nmT]
  -- separators
  rw [nmT_toks] at s5
  rw [← s5]
  generalize hrw (nmT F1 none g0 ts).1 (nmT F1 none g0 ts).2 = r at s1 s2 s3 s4
  obtain ⟨gB, tsB⟩ := r
  cases tsB with
  | nil => simp [sepJoin, F3, fStrip, star, canonT]
  | cons p rest =>
    obtain ⟨b, g2⟩ := p
    obtain ⟨hb, _⟩ := s3 (b, g2) (by simp)
    have hbh : b ≠ .hash := s4 (b, g2) (by simp)
    have := sepJoin_F3 rest b g2 hb hbh s3.tail (fun p hp => s4 p (by simp [hp])) s1.2
    simp only [sepJoin, Option.map_none, F3, fStrip, star, if_true, List.nil_append, List.map_cons]
    show b.chars ++ sepJoin F3 (some b) g2 rest = _
    rw [this]
    cases rest with
    | nil => simp [canonT]
    | cons c rest' => simp [canonT]
end T4V.NL
